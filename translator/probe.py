#!/venv/bin/python
"""
translator/probe.py <repo> : the facts about /repo's modeling code that the Lean theorems are checked against, established BY
BEHAVIOUR on probe inputs (run in a fresh interpreter with <repo>/src first on the path), printed as one JSON object:

  known_decay_models   the value of decaylanguage.dec.enums.known_decay_models
  sf4body              the member names of SF_4Body
  known_spinfactors    [[spin structure, [member names]], ...] in the order of the table
  reset                per class-level attribute of AmplitudeChain: does read_ampgen (of each of the three reader classes) leave a
                       value planted before the call in place (False) or start afresh (True)
  sinks                per converter and per output line of a probe conversion: "printer" when the line is in the returned string
                       and not on stdout under ret_output=True, "print" when it is on stdout although the text was asked for
  returns_buffer       per converter: the returned string is the text that is otherwise printed (timestamp line aside)
  coeff_suffix         the suffixes after str(line) in the coefficient names make_amplitude writes (fixed and free amplitudes)

How the source spells any of this (literal or computed, one function or several, f-strings or templates) does not matter.
"""
import contextlib
import io
import json
import os
import re
import sys
import tempfile

repo = sys.argv[1]
sys.path.insert(0, os.path.join(repo, "src"))
out = {}
errors = {}


def guard(key):
    def deco(fn):
        try:
            out[key] = fn()
        except Exception as e:      # noqa: BLE001
            errors[key] = f"{type(e).__name__}: {e}"
        return fn
    return deco


@guard("known_decay_models")
def _():
    from decaylanguage.dec.enums import known_decay_models
    ms = list(known_decay_models)
    assert ms and all(isinstance(m, str) for m in ms)
    return ms


@guard("spin")
def _():
    from decaylanguage.modeling.goofit import SF_4Body, known_spinfactors
    return {"sf4body": [m.name for m in SF_4Body],
            "known_spinfactors": [[k, [e.name for e in v]] for k, v in known_spinfactors.items()]}


PROBE = """EventType D0 K- pi+ pi+ pi-
D0{K*(892)bar0{K-,pi+},rho(770)0{pi+,pi-}} 2 1.25 0.1 2 0.5 0.2
D0{K*(892)bar0{K-,pi+},rho(1450)0{pi+,pi-}} 0 0.75 0.1 0 0.25 0.2
"""
PROBE_CART = PROBE.replace("EventType", "FastCoherentSum::UseCartesian 1\nEventType")


@guard("reset")
def _():
    import cmath

    from decaylanguage.modeling.amplitudechain import AmplitudeChain
    from decaylanguage.modeling.goofit import GooFitChain, GooFitPyChain

    res = {"all_particles": True, "final_particles": True, "cartesian": True}
    for cls in (AmplitudeChain, GooFitChain, GooFitPyChain):
        # planted values: a foreign element in the two sets, the cartesian interpretation switched on by an earlier read
        cls.read_ampgen(text=PROBE_CART)
        for holder in {AmplitudeChain, cls}:
            holder.all_particles = set(holder.all_particles) | {"SENTINEL"}
            holder.final_particles = set(holder.final_particles) | {"SENTINEL"}
        got = cls.read_ampgen(text=PROBE)
        lines = got[0]
        # what the reader class sees after the read (the attribute as the emitters of that class look it up)
        if "SENTINEL" in cls.all_particles:
            res["all_particles"] = False
        if "SENTINEL" in cls.final_particles:
            res["final_particles"] = False
        polar = 1.25 * cmath.exp(1j * 0.5)
        if abs(complex(lines[0].amp) - polar) > 1e-9:
            res["cartesian"] = False
        for holder in {AmplitudeChain, cls}:
            holder.all_particles = {p for p in holder.all_particles if p != "SENTINEL"}
            holder.final_particles = {p for p in holder.final_particles if p != "SENTINEL"}
    return res


def _strip(t):
    return [ln for ln in t.split("\n") if not ln.startswith("Generated on")]


@guard("sinks")
def _():
    from decaylanguage.modeling.ampgen2goofit import ampgen2goofit, ampgen2goofitpy

    d = tempfile.mkdtemp(prefix="verif_probe_")
    path = os.path.join(d, "probe.txt")
    open(path, "w").write(PROBE)
    res = {}
    for name, fn in (("cpp", ampgen2goofit), ("py", ampgen2goofitpy)):
        so = io.StringIO()
        with contextlib.redirect_stdout(so):
            ret = fn(path, ret_output=True)
        leaked = _strip(so.getvalue())
        po = io.StringIO()
        with contextlib.redirect_stdout(po):
            none = fn(path)
        printed = _strip(po.getvalue())
        returned = _strip(ret) if isinstance(ret, str) else []
        kinds = []
        rset, lset = set(returned), {x for x in leaked if x.strip()}
        for ln in printed:
            if not ln.strip():
                continue
            kinds.append("printer" if (ln in rset and ln not in lset) else "print")
        # a text asked for comes back as one string, and it is the text that is otherwise printed (print adds one line end)
        same = isinstance(ret, str) and none is None and (printed == returned + [""] or printed == returned)
        res[name] = {"kinds": kinds, "returns_buffer": bool(same)}
    import shutil
    shutil.rmtree(d, ignore_errors=True)
    return res


@guard("coeff_suffix")
def _():
    from decaylanguage.modeling.goofit import GooFitChain, GooFitPyChain

    res = {}
    for name, cls in (("cpp", GooFitChain), ("py", GooFitPyChain)):
        lines, states = cls.read_ampgen(text=PROBE)
        per = {}
        for ln in lines:
            txt = ln.make_amplitude(states[1:])
            sufs = re.findall(re.escape('"' + str(ln)) + r'_(\w+)"', txt)
            per["fixed" if ln.fix else "free"] = sufs
        res[name] = per
    return res


print("@@PROBE@@" + json.dumps({"facts": out, "errors": errors}))
