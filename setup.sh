#!/bin/bash
# MANIFEST.setup_cmd: regenerate the tables from /repo and build the Lean project (offline).
set -e
cd "$(dirname "$0")"
/venv/bin/python translator/extract.py --repo "${VERIF_REPO:-/repo}" || [ $? -eq 3 ]
cd lean
lake build dldriver DL 2>&1 | tail -5
# the property theorems (each check builds its own again, which is then a no-op); a failure here is
# reported by the check of the property concerned, not by the setup
mods=$(/venv/bin/python - <<'PY'
import sys
sys.path.insert(0, "..")
from harness import registry
out = []
for pid, reg in sorted(registry.PROPS.items()):
    if reg["theorems"]:
        out.append(f"DL.Props.{pid}")
    out += reg.get("modules", [])
print(" ".join(dict.fromkeys(out)))
PY
)
lake build $mods 2>&1 | tail -3 || true
