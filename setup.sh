#!/bin/bash
# MANIFEST.setup_cmd: regenerate the tables from /repo and build the Lean project (offline).
set -e
cd "$(dirname "$0")"
/venv/bin/python translator/extract.py --repo "${VERIF_REPO:-/repo}" || [ $? -eq 3 ]
cd lean
lake build dldriver DL 2>&1 | tail -5
