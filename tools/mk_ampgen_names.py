#!/venv/bin/python
"""tools/mk_ampgen_names.py : (re)build pinned/ampgen_names.json, the table name -> PDG ID (or null) that
particle_from_string_name gives on the tree this is run on, for a vocabulary of AmpGen-style spellings: every name of the shipped
model and of the test-suite, and for every particle of the installed table its PDG name with 'bar' / '~' for antiparticles and the
charge suffix.  The table is a pinned observation of the unchanged tree (it is the only available statement of which particle an
AmpGen spelling denotes); C17 compares the function with it on every run."""
import json, os, re, sys
from concurrent.futures import ProcessPoolExecutor

REPO = os.environ.get("VERIF_REPO", "/repo")
OUT = os.path.join(os.path.dirname(os.path.dirname(os.path.abspath(__file__))), "pinned", "ampgen_names.json")


def vocab():
    from particle import Particle
    names = set()
    for line in open(os.path.join(REPO, "models", "DtoKpipipi_v2.txt")):
        names.update(re.findall(r"[A-Za-z][A-Za-z0-9()*'~+\-]*", line.split("#")[0].split(" ")[0]))
    names.update(["K(1)(1270)bar-", "K(2)*(1430)bar-", "K*(892)bar0", "K~*0", "a(1)(1260)+", "b", "b~", "pi+", "pi-", "rho(1450)0", "rho(770)0",
                  "Dbar0", "D0", "D*0", "D*+", "Bbar0", "B0", "B(s)bar0", "Kbar0", "K0", "D(s)+", "D(s)-", "Lambda(b)0", "Sigma(1385)bar0",
                  "KPi00", "KPi10", "PiPi00", "PiPi10", "PiPi20", "D(2)*(2460)bar0", "D(0)*(2300)bar0", "omega(782)0", "phi(1020)0", "eta'(958)0", "J/psi(1S)0", "nosuchparticle", "K", "pi"])
    chg = {3: "+", -3: "-", 0: "0", 6: "++", -6: "--"}
    for p in Particle.findall():
        if abs(int(p.pdgid)) > 10**7 or p.three_charge not in chg or not p.pdg_name:
            continue
        c = chg[int(p.three_charge)]
        base = str(p.pdg_name)
        if int(p.pdgid) > 0:
            names.add(base + c)
        else:
            names.add(base + "bar" + c)
            names.add(base + "~" + c)
    return sorted(n for n in names if n and " " not in n)


def look(n):
    from particle import Particle

    from decaylanguage.modeling import amplitudechain as ac
    from decaylanguage.utils.particleutils import particle_from_string_name

    getall = "all" if hasattr(Particle, "all") else "table"
    if 998100 not in getattr(Particle, getall)():     # the special-particle table, as the reader loads it before its first look-up
        Particle.load_table(os.path.join(os.path.dirname(ac.__file__), "..", "data", "MintDalitzSpecialParticles.csv"), append=True)
    try:
        return n, int(particle_from_string_name(n).pdgid)
    except Exception as e:      # noqa: BLE001
        return n, "raises " + type(e).__name__


if __name__ == "__main__":
    vs = vocab()
    with ProcessPoolExecutor(14) as ex:
        table = dict(ex.map(look, vs, chunksize=8))
    json.dump({"repo_commit": os.popen(f"git -C {REPO} rev-parse --short HEAD").read().strip(), "names": table}, open(OUT, "w"), indent=0, sort_keys=True)
    print(len(table), "names;", sum(1 for v in table.values() if isinstance(v, int)), "resolved")
