#!/bin/bash
# tools/confirm_mutant.sh <Cxx> <m1|m2> : confirm a sub-agent's change in its scratch worktree, then store it under seeded/
pid=$1; m=$2; wt=/tmp/mut_$pid; d=$wt/mutants/$m; id=${pid}_$m
out=/verif/seeded/$id
cd $wt || exit 2
git checkout -q -- src
clean=$(PYTHONPATH=$wt/src /venv/bin/python $d/demo.py 2>&1 | tail -1; echo "rc=${PIPESTATUS[0]}")
git apply $d/patch.diff || { echo "$id: patch does not apply"; exit 2; }
mut=$(PYTHONPATH=$wt/src /venv/bin/python $d/demo.py 2>&1 | tail -1; echo "rc=${PIPESTATUS[0]}")
suite=$(PYTHONPATH=$wt/src /venv/bin/python -m pytest -q -p no:cacheprovider --timeout=900 2>&1 | tail -1)
fails=$(PYTHONPATH=$wt/src /venv/bin/python -m pytest -q -p no:cacheprovider --timeout=900 2>&1 | grep '^FAILED' | sort | tr '\n' ' ')
git checkout -q -- src
echo "$id clean-demo: $clean | mutant-demo: $mut | suite: $suite | $fails"
mkdir -p $out && cp $d/patch.diff $d/demo.py $out/ && cp $d/notes.md $out/notes.md
cat > $out/confirm.txt <<EOT
confirmed in scratch worktree $wt at /repo commit $(git -C /repo rev-parse --short HEAD)
demo on clean tree : $clean
demo with patch    : $mut
test suite w/ patch: $suite
failing tests      : $fails
EOT
