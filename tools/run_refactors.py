#!/venv/bin/python
"""Run the registered checks against every behaviour-preserving rewrite (seeded/refactor_<id>/patch.diff): apply to /repo,
run the checks of every property anchored in a touched file, undo.  A check must stay silent (exit 0).
usage: tools/run_refactors.py [id-prefix ...]"""
import json, os, re, subprocess, sys
VERIF = os.path.dirname(os.path.dirname(os.path.abspath(__file__)))
REPO = os.environ.get("VERIF_REPO", "/repo")
if REPO != "/repo":
    os.environ["PYTHONPATH"] = os.path.join(REPO, "src")   # the checks import the library from the scratch copy
BY_FILE = {
    "dec/dec.py": ["C01", "C02", "C03", "C04", "C05", "C06", "C07", "C08", "C09", "C10", "C16"],
    "data/decfile.lark": ["C01", "C02", "C05", "C06", "C07"],
    "dec/enums.py": ["C06"],
    "decay/decay.py": ["C04", "C10", "C11", "C12", "C13"],
    "utils/utilities.py": ["C10", "C13", "C14"],
    "utils/particleutils.py": ["C03", "C04", "C17"],
    "decay/viewer.py": ["C15"],
    "modeling/": ["C17", "C18", "C19", "C20"],
    "data/ampgen.lark": ["C17"],
    "__main__.py": ["C19"],
}
args = [a for a in sys.argv[1:] if not a.startswith("--")]
ids = sorted(d for d in os.listdir(os.path.join(VERIF, "seeded")) if d.startswith("refactor_"))
if args:
    ids = [i for i in ids if any(i.startswith(a) or i.startswith("refactor_" + a) for a in args)]
assert subprocess.run(["git", "-C", REPO, "diff", "--quiet"]).returncode == 0, "/repo not clean"
rows = []
for i in ids:
    d = os.path.join(VERIF, "seeded", i)
    patch = open(os.path.join(d, "patch.diff")).read()
    touched = re.findall(r"^\+\+\+ b/src/decaylanguage/(\S+)", patch, re.M)
    checks = []
    for t in touched:
        for k, v in BY_FILE.items():
            if t.startswith(k):
                checks += v
    checks = sorted(set(checks))
    if os.environ.get("REF_CHECKS"):
        checks = [c for c in checks if c in os.environ["REF_CHECKS"].split(",")]
    prev = json.load(open(os.path.join(d, "meta.json"))).get("results_quick", {}) if os.path.exists(os.path.join(d, "meta.json")) else {}
    meta_path = os.path.join(d, "meta.json")
    meta = json.load(open(meta_path)) if os.path.exists(meta_path) else {}
    r = subprocess.run(["git", "-C", REPO, "apply", os.path.join(d, "patch.diff")])
    if r.returncode != 0:
        rows.append((i, "patch does not apply")); continue
    results = {}
    try:
        for c in checks:
            p = subprocess.run([os.path.join(VERIF, "check"), c, "--tier", "quick"], cwd=VERIF, capture_output=True, text=True, timeout=3600)
            viol = [l for l in p.stdout.splitlines() if l.startswith("VIOLATION")]
            first = [l for l in p.stdout.splitlines() if l.startswith("  {")][:1]
            results[c] = {"exit": p.returncode, "violation_line": viol[0] if viol else None, "first": first[0][:400] if first else None,
                          "tail": p.stdout.splitlines()[-3:] if p.returncode == 2 else None}
    finally:
        subprocess.run(["git", "-C", REPO, "checkout", "--", "."])
    merged = dict(prev)
    merged.update(results)
    meta.update({"id": i, "kind": "behaviour-preserving rewrite", "touched": touched, "checks_run": sorted(merged), "results_quick": merged,
                 "silent": all(v["exit"] == 0 for v in merged.values())})
    json.dump(meta, open(meta_path, "w"), indent=1)
    rows.append((i, " ".join(f"{c}:{v['exit']}" for c, v in results.items())))
subprocess.run(["/venv/bin/python", os.path.join(VERIF, "translator", "extract.py")], capture_output=True)
for r in rows:
    print(*r)
