#!/bin/bash
# tools/confirm_refactor.sh <Cxx> : confirm a sub-agent's behaviour-preserving rewrite in its scratch worktree
pid=$1; wt=/tmp/ref_$pid; d=$wt/refactor/r1; out=/verif/seeded/refactor_${pid}_r1
cd $wt || exit 2
git checkout -q -- src
git apply $d/patch.diff || { echo "$pid: patch does not apply"; exit 2; }
suite=$(PYTHONPATH=$wt/src /venv/bin/python -m pytest -q -p no:cacheprovider --timeout=900 2>&1 | tail -1)
eq=$(cd $wt && timeout 1800 /venv/bin/python $d/equiv.py 2>&1 | tail -1)
git checkout -q -- src
mkdir -p $out && cp $d/patch.diff $d/notes.md $d/equiv.py $out/
cat > $out/confirm.txt <<EOT
confirmed in scratch worktree $wt at /repo commit $(git -C $wt rev-parse --short HEAD)
test suite with patch : $suite
equiv.py with patch   : $eq
EOT
cat $out/confirm.txt
