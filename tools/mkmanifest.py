#!/venv/bin/python
"""Write MANIFEST.json from harness/registry.py (claimed properties) and properties.jsonl."""
import json, os, sys
VERIF = os.path.dirname(os.path.dirname(os.path.abspath(__file__)))
sys.path.insert(0, VERIF)
from harness import registry

props = [json.loads(l) for l in open(os.path.join(VERIF, "properties.jsonl"))]
checks = []
na = []
for p in props:
    pid = p["id"]
    reg = registry.PROPS.get(pid)
    if reg and reg["theorems"]:
        checks.append({
            "property_id": pid,
            "quick_cmd": f"./check {pid} --tier quick",
            "thorough_cmd": f"./check {pid} --tier thorough",
            "evidence_file": f"evidence/{pid}.json",
            "replay_cmd_template": f"./check {pid} --replay {{path}}",
            "engine": "lean4-model+correspondence",
            "level_claimed": {
                "category": "proof",
                "text": reg.get("level_text", "Lean 4 theorems about an executable model of the code, the model tied to /repo on every run by "
                        "regenerated tables and a differential correspondence check on generated inputs."),
                "design_ref": f"DESIGN.md section 5, {pid}",
            },
            "level_note": "Trusted: Lean kernel; axioms propext/Classical.choice/Quot.sound at most; translator/extract.py; the harness "
                          "(encoding, canonicalisation). The theorems are about the hand-written model; the tie to the code is sampled "
                          "behaviour plus regenerated tables. " + "; ".join(reg.get("partial", [])),
            "technique": reg.get("technique", "Lean 4 proof over an executable model + differential correspondence with the implementation"),
        })
    else:
        na.append({"property_id": pid, "reason": (reg or {}).get("na_reason", "not claimed yet: model/theorems under construction in this round (see DESIGN.md section 5)")})
m = {
    "version": 1,
    "setup_cmd": "./setup.sh",
    "hooks": {"guard": "DECAYLANGUAGE_VERIF", "enable": "no hooks are needed: the harness calls the public API in-process",
              "baseline_off_cmd": "cd /repo && /venv/bin/python -m pytest -ra -q -p no:cacheprovider --timeout=900 --continue-on-collection-errors",
              "source_commits": [], "add_only": True},
    "engines": [{"name": "lean4-model+correspondence", "path": "lean/", "serves_properties": [c["property_id"] for c in checks],
                 "kind_free_text": "Lean 4.33 project (models, regenerated tables, property theorems) + native model driver + Python harness calling the real code"}],
    "checks": checks,
    "not_applicable": na,
    "notes": "See DESIGN.md. known_findings.json lists defects repaired by fix: commits in /repo (fixed entries suppress nothing).",
}
json.dump(m, open(os.path.join(VERIF, "MANIFEST.json"), "w"), indent=1)
print("claimed:", [c["property_id"] for c in checks])
