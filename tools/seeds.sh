#!/bin/bash
# tools/seeds.sh "<seeds>" [tier] : run every claimed check under several seeds on the clean tree; prints non-zero exits
cd /verif
seeds=${1:-"1 2 3"}; tier=${2:-quick}
run() { p=$1; for s in $seeds; do out=$(VERIF_SEED=$s ./check $p --tier $tier --no-build 2>&1 | tail -1); echo "$p seed=$s rc=$? $out"; done; }
export -f run; export seeds tier
ls harness/c[0-9][0-9].py | sed 's/.*c\([0-9]*\).py/C\1/' | xargs -P 5 -I{} bash -c 'run {}'
