#!/venv/bin/python
"""Run the registered checks against every seeded change (seeded/<id>/patch.diff): apply to /repo, run, undo.
Writes seeded/<id>/meta.json and prints a table.  usage: tools/run_seeded.py [id-prefix ...] [--tier quick]"""
import json, os, re, subprocess, sys
VERIF = os.path.dirname(os.path.dirname(os.path.abspath(__file__)))
REPO = os.environ.get("VERIF_REPO", "/repo")
if REPO != "/repo":
    os.environ["PYTHONPATH"] = os.path.join(REPO, "src")   # the checks import the library from the scratch copy
args = [a for a in sys.argv[1:] if not a.startswith("--")]
tier = "thorough" if "--tier=thorough" in sys.argv else "quick"
ids = sorted(d for d in os.listdir(os.path.join(VERIF, "seeded")) if os.path.isdir(os.path.join(VERIF, "seeded", d)))
if args:
    ids = [i for i in ids if any(i.startswith(a) for a in args)]
assert subprocess.run(["git", "-C", REPO, "diff", "--quiet"]).returncode == 0, "/repo not clean"
rows = []
for i in ids:
    d = os.path.join(VERIF, "seeded", i)
    pid = i.split("_")[0]
    meta_path = os.path.join(d, "meta.json")
    meta = json.load(open(meta_path)) if os.path.exists(meta_path) else {}
    checks = meta.get("checks_to_run", [pid])
    r = subprocess.run(["git", "-C", REPO, "apply", os.path.join(d, "patch.diff")])
    if r.returncode != 0:
        rows.append((i, "patch does not apply")); continue
    try:
        results = {}
        for c in checks:
            p = subprocess.run([os.path.join(VERIF, "check"), c, "--tier", tier], cwd=VERIF, capture_output=True, text=True, timeout=3600)
            viol = [l for l in p.stdout.splitlines() if l.startswith("VIOLATION")]
            first = [l for l in p.stdout.splitlines() if l.startswith("  {")][:1]
            clause = None
            if first:
                m = re.search(r'"clause": "([^"]*)"', first[0]); clause = m.group(1) if m else None
                m2 = re.search(r'"what": "([^"]*)"', first[0]); what = m2.group(1) if m2 else None
            else:
                what = None
            results[c] = {"exit": p.returncode, "violation_line": viol[0] if viol else None, "first_clause": clause, "first_what": what}
    finally:
        subprocess.run(["git", "-C", REPO, "checkout", "--", "."])
    meta.update({"id": i, "property": pid, "checks_to_run": checks, "results_" + tier: results,
                 "caught": any(v["exit"] == 1 for v in results.values())})
    json.dump(meta, open(meta_path, "w"), indent=1)
    rows.append((i, " ".join(f"{c}:exit={v['exit']} [{v['first_clause']}]" for c, v in results.items())))
subprocess.run(["/venv/bin/python", os.path.join(VERIF, "translator", "extract.py")], capture_output=True)
for r in rows:
    print(*r)
