#!/bin/bash
cd /verif
run() { p=$1; s=$(date +%s); out=$(./check $p --tier thorough 2>&1 | grep -E "VIOLATION|tier=|harness failed|timeout" | cut -c1-300); echo "$p $(( $(date +%s) - s ))s :: $out"; }
export -f run
ls harness/c[0-9][0-9].py | sed 's/.*c\([0-9]*\).py/C\1/' | xargs -P 4 -I{} bash -c 'run {}'
