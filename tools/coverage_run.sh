#!/bin/bash
# tools/coverage_run.sh [Cxx ...] : run the correspondence harnesses (no rebuild) under coverage.py and list the lines
# and branches of /repo/src/decaylanguage that no harness executes (generator reach; development aid, not a check)
cd "$(dirname "$0")/.."
out=${COV_OUT:-/root/cov}
mkdir -p $out; rm -f $out/.coverage*
props=${@:-C01 C02 C03 C04 C05 C06 C07 C08 C09 C10 C11 C12 C13 C14 C15 C16 C17 C18 C19 C20}
for p in $props; do
  COVERAGE_FILE=$out/.coverage.$p /venv/bin/python -m coverage run --branch --source=/repo/src/decaylanguage ./check $p --no-build 2>&1 | tail -1
done
cd $out && /venv/bin/python -m coverage combine -q .coverage.* && /venv/bin/python -m coverage report -m --skip-empty > report.txt; tail -30 report.txt
