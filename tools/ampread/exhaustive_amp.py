#!/venv/bin/python
"""Exhaustive companion of validate_amp.py: every sequence of up to N tokens of a small token alphabet (glued
without blanks; the blank is a token), optionally after a prefix and before a suffix, through Lark and the model."""
import itertools, sys, time
from validate_amp import oracle, run_model

TOKS = ["x", "2", ".5", "-1", "e5", "\n", "\r\n", "#c", " ", "{", ",", "}", "[", "]", "D", "BW", ";", "=", "EventType", "nEvents", "Output", '"s"', ":", "::", "\r"]

def run(prefix, suffix, n, toks=TOKS):
    texts = []
    for k in range(0, n + 1):
        for seq in itertools.product(toks, repeat=k):
            texts.append(prefix + "".join(seq) + suffix)
    texts = list(dict.fromkeys(texts))
    t0 = time.time()
    exp = [oracle(t)[0] for t in texts]
    got = run_model(texts)
    dis = [(t, e, g) for t, e, g in zip(texts, exp, got) if e != g]
    acc = sum(1 for e in exp if e != "ERR")
    print(f"prefix {prefix!r} suffix {suffix!r} n={n}: {len(texts)} texts, accepted {acc}, disagreements {len(dis)}  ({time.time()-t0:.0f} s)")
    for t, e, g in dis[:10]:
        print("  ", repr(t), "\n     lark ", e, "\n     model", g)
    return len(dis)

if __name__ == "__main__":
    n = int(sys.argv[1]) if len(sys.argv) > 1 else 4
    bad = 0
    bad += run("", "", n)
    bad += run("", "\n", n)
    bad += run("x{x,x}", "\n", n)
    bad += run("x 2", "", n)
    bad += run("EventType x x", "", n - 1)
    bad += run("x[", "{x,x} 2 2 2\n", n)
    bad += run("x{", "} 2 2 2\n", n)
    small = ["x", "2", " ", "\n", "#", ".", "-", "e", "="]
    bad += run("", "", n + 2, small)
    bad += run("x", "\n", n + 2, small)
    strs = ['"', "\\", "a", "\n", " "]
    bad += run('Output "', "\n", n + 3, strs)
    print("RESULT:", "OK" if bad == 0 else "FAIL")
