#!/bin/bash
# tools/try_mutant.sh <patch.diff> <Cxx> [tier]  : apply a seeded change to /repo, run the check, undo it
patch=$1; pid=$2; tier=${3:-quick}
cd /repo && git diff --quiet || { echo "/repo not clean"; exit 2; }
git -C /repo apply "$patch" || { echo "patch does not apply"; exit 2; }
cd /verif && ./check $pid --tier $tier 2>&1 | grep -E 'VIOLATION|KNOWN|tier=|^  \{' | cut -c1-400
rc=${PIPESTATUS[0]}
git -C /repo checkout -- . 
# the check regenerates tables from the patched tree: restore them for the clean tree
/venv/bin/python /verif/translator/extract.py > /dev/null
echo "exit=$rc"
