#!/venv/bin/python
"""usage: tools/decread/exhaustive_dec.py [N] [k/m]   - the exhaustive reader validation of harness/decexh.py from the command line
(N tokens per text, default 3; optionally only the k-th of m slices)"""
import os
import sys

sys.path.insert(0, os.path.dirname(os.path.dirname(os.path.dirname(os.path.abspath(__file__)))))
from harness import decexh  # noqa: E402

if __name__ == "__main__":
    n = int(sys.argv[1]) if len(sys.argv) > 1 else 3
    part = tuple(int(x) for x in sys.argv[2].split("/")) if len(sys.argv) > 2 else (0, 1)
    total, accepted, bad, _ = decexh.run(n, part)
    print(f"RESULT: {'OK' if bad == 0 else 'FAIL'}  texts {total}, accepted {accepted}, disagreements {bad}")
