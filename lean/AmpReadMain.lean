/-
Differential-validation front end for `DL.readAmp`: one text per input line (`\n`, `\r`, `\t`, `\\`
escaped), one answer per output line:
  ERR                       the text is not accepted
  OK <raw> <TAB> <stmts>    <raw>: the statements with the numerals as written (conv_amp_tree form);
                            <stmts>: the `AStmt` list of `readAmp`, or FLAGERR when a fix flag is not an integer
-/
import DL.Model.AmpRead
open DL DL.Amp

def unesc : List Char → List Char
  | '\\' :: 'n' :: r => '\n' :: unesc r
  | '\\' :: 'r' :: r => '\r' :: unesc r
  | '\\' :: 't' :: r => '\t' :: unesc r
  | '\\' :: '\\' :: r => '\\' :: unesc r
  | c :: r => c :: unesc r
  | [] => []

def escC (c : Char) : String :=
  if c == '\\' then "\\\\" else if c == '"' then "\\\"" else if c == '\n' then "\\n" else if c == '\r' then "\\r"
  else if c == '\t' then "\\t" else String.singleton c

def q (s : String) : String := "\"" ++ String.join (s.toList.map escC) ++ "\""

def lst (xs : List String) : String := "[" ++ ",".intercalate xs ++ "]"

def qo : Option String → String
  | none => "null"
  | some s => q s

partial def showDecay : ADecay → String
  | .mk n s l ds => lst ["\"D\"", q n, qo s, qo l, lst (ds.map showDecay)]

def showT : AStmtT → String
  | .eventType ns => lst [q "event_type", lst (ns.map q)]
  | .constant n v => lst [q "constant", q n, q v]
  | .variable n f v e => lst [q "variable", q n, q f, q v, q e]
  | .line d f1 v1 e1 f2 v2 e2 => lst [q "line", showDecay d, q f1, q v1, q e1, q f2, q v2, q e2]
  | .cartLine => lst [q "cart_line"]
  | .invertLine => lst [q "invert_line"]
  | .fastCoherentSum n => lst [q "fcs", q n]
  | .output s => lst [q "output", q s]
  | .nEvents n => lst [q "nevents", q n]

def showS : AStmt → String
  | .eventType ns => lst [q "event_type", lst (ns.map q)]
  | .constant n v => lst [q "constant", q n, q v]
  | .variable n f v e => lst [q "variable", q n, toString f, q v, q e]
  | .line l => lst [q "line", showDecay l.tree, toString l.flag1, q l.val1, q l.err1, toString l.flag2, q l.val2, q l.err2]
  | .cartLine => lst [q "cart_line"]
  | .invertLine => lst [q "invert_line"]
  | .fastCoherentSum n => lst [q "fcs", toString n]
  | .output s => lst [q "output", q s]
  | .nEvents n => lst [q "nevents", toString n]

def answer (text : String) : String :=
  match readAmpText text with
  | .error _ =>
    -- readAmp must refuse as well
    match readAmp text with
    | .error _ => "ERR"
    | .ok _ => "INCONSISTENT"
  | .ok ts =>
    "OK " ++ lst (ts.map showT) ++ "\t" ++
      (match readAmp text with
       | .ok ss => lst (ss.map showS)
       | .error _ => "FLAGERR")

partial def loop (hin hout : IO.FS.Stream) : IO Unit := do
  let ln ← hin.getLine
  if ln.isEmpty then return
  let cs := ln.toList
  let cs := if cs.getLast? == some '\n' then cs.dropLast else cs
  hout.putStrLn (answer (String.ofList (unesc cs)))
  loop hin hout

def main : IO Unit := do
  let hin ← IO.getStdin
  let hout ← IO.getStdout
  loop hin hout
  hout.flush
