/-
Line protocol for the validation of `DL/Model/GooFitProg.lean` against the real converters.
One S-expression per input line:
  (prog EVENT ALLPARTS PARS CONSTS LINES)
    EVENT, ALLPARTS = ((key name prog) ...)
    PARS            = ((name T|F value error) ...)
    CONSTS          = ((name value) ...)
    LINES           = ((label GNODE) ...)        GNODE as for `emit_amp` of the driver
  (progname NAME)
one S-expression per output line:
  (ok (CPP PY SUPPORTED CLOSEDCPP CLOSEDPY))  with CPP, PY = (ok ((sect (declares...) (uses...)) ...)) | (err ...)
Run:  lake env lean --run GooFitProgMain.lean
-/
import DL.Model.Codec
import DL.Model.GooFitProg
import DL.Gen.SpinTable
open DL DL.Sexp

def decPart : Sexp → Option PartInfo
  | .list [.atom k, .atom n, .atom p] => some { key := k, name := n, prog := p }
  | _ => none

def decPar : Sexp → Option (String × Bool × String × String)
  | .list [.atom n, f, .atom v, .atom e] => f.asBool.map fun b => (n, b, v, e)
  | _ => none

def decConst : Sexp → Option (String × String)
  | .list [.atom n, .atom v] => some (n, v)
  | _ => none

def decLine : Sexp → Option LineIn
  | .list [.atom l, g] => (decGNodeA g).map fun t => { label := l, tree := t }
  | _ => none

def encProg : Except EmitErr (List PStmt) → Sexp
  | .ok p => tag "ok" [.list (p.map fun s => .list [.atom s.sect, strs s.declares, strs s.uses])]
  | .error e => encEmitErr e

def handle (x : Sexp) : Sexp :=
  match x with
  | .list [.atom "progname", .atom n] => tag "ok" [.atom (progName n)]
  | .list [.atom "prog", ev, ap, ps, cs, ls] =>
    match ev.asList.bind (·.mapM decPart), ap.asList.bind (·.mapM decPart), ps.asList.bind (·.mapM decPar),
          cs.asList.bind (·.mapM decConst), ls.asList.bind (·.mapM decLine) with
    | some ev, some ap, some ps, some cs, some ls =>
      let i : ProgIn := { table := Gen.knownSpinFactors, event := ev, allParts := ap, pars := ps, consts := cs, lines := ls }
      let c := progCpp i
      let p := progPy i
      let cl (r : Except EmitErr (List PStmt)) : Sexp := match r with
        | .ok q => bool (closedB q)
        | .error _ => .atom "N"
      tag "ok" [.list [encProg c, encProg p, bool (supportedB i), cl c, cl p]]
    | _, _, _, _, _ => tag "bad-op" [.atom "prog"]
  | _ => tag "bad-op" [.atom "unknown"]

partial def loop (h : IO.FS.Stream) (out : IO.FS.Stream) : IO Unit := do
  let line ← h.getLine
  if line.isEmpty then return ()
  let ans := match Sexp.parse line with
    | some x => handle x
    | none => tag "bad-op" [.atom "parse"]
  out.putStrLn ans.render
  out.flush
  loop h out

def main : IO Unit := do
  let stdin ← IO.getStdin
  let stdout ← IO.getStdout
  loop stdin stdout
  stdout.flush
