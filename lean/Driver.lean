/-
Model driver: one S-expression operation per input line, one S-expression answer per output line.
Imports the executable models and the regenerated tables only (no Mathlib), so it is built as a
native executable; `lake env lean --run Driver.lean` is the fall-back.
-/
import DL.Model.Codec
import DL.Model.DecFiles
import DL.Lemmas.Subst
import DL.Lemmas.LayoutGen
import DL.Lemmas.LayoutGenAmp
import DL.Model.GooFitProg
import DL.Model.GooFitText
import DL.Gen.Particles
import DL.Gen.Models
import DL.Gen.Grammar
import DL.Gen.ClassState
import DL.Gen.Sinks
import DL.Gen.SpinTable
open DL DL.Sexp

def bad (why : String) : Sexp := tag "bad-op" [.atom why]

def ok (x : Sexp) : Sexp := tag "ok" [x]

def fuelDefault : Nat := 64

def exceptSem (r : Except SemErr Sexp) : Sexp :=
  match r with
  | .ok x => ok x
  | .error e => encSemErr e

def decPart : Sexp → Option PartInfo
  | .list [.atom k, .atom n, .atom p] => some { key := k, name := n, prog := p }
  | _ => none

def decParRow : Sexp → Option (String × Bool × String × String)
  | .list [.atom n, f, .atom v, .atom e] => f.asBool.map fun b => (n, b, v, e)
  | _ => none

def decConstRow : Sexp → Option (String × String)
  | .list [.atom n, .atom v] => some (n, v)
  | _ => none

def decLineIn : Sexp → Option LineIn
  | .list [.atom l, g] => (decGNodeA g).map fun t => { label := l, tree := t }
  | _ => none

def encProg : Except EmitErr (List PStmt) → Sexp
  | .ok p => tag "ok" [.list (p.map fun s => .list [.atom s.sect, strs s.declares, strs s.uses])]
  | .error e => encEmitErr e

def decOpts : Sexp → Option Opts
  | .list [cc] => cc.asBool.map fun b => { includeCC := b }
  | _ => none

def decPrintOpts : Sexp → Option PrintOpts
  | .list [pn, pm, dp, asc, nm, sc] => do
    let pn ← pn.asBool; let pm ← pm.asBool; let dp ← dp.asBool; let asc ← asc.asBool; let nm ← nm.asBool
    let sc ← match sc with
      | .atom "N" => some none
      | .list [.atom q] => (decRat q).map some
      | _ => none
    some { pdgName := pn, printModel := pm, displayPhotos := dp, ascending := asc, normalize := nm, scale := sc }
  | _ => none

def decFOp : Sexp → Option FOp
  | .list [.atom "create", .atom t, .atom u] => some (.create t u)
  | .list [.atom "enter", i] => i.asNat.map .enter
  | .list [.atom "leave", i] => i.asNat.map .leave
  | .list [.atom "set", .atom t, .atom u] => some (.set t u)
  | .list [.atom "render"] => some .render
  | _ => none

def encFOut : FOut → Sexp
  | .ok => .atom "ok"
  | .rejected => .atom "rejected"
  | .badIndex => .atom "bad-index"
  | .shown t u => .list [.atom "shown", .atom t, .atom u]

def runFOps (s : FState) : List FOp → List Sexp → FState × List Sexp
  | [], acc => (s, acc.reverse)
  | op :: r, acc =>
    let (s', o) := s.step op
    runFOps s' r (.list [encFOut o, .atom s'.cur.top, .atom s'.cur.sub] :: acc)

def encQueries (refW : String → Option Rat) (d : Doc) : Sexp :=
  .list [
    tag "aliases" [encPairs (dictAliases d)],
    tag "charge_conjugates" [encPairs (dictChargeConj d)],
    tag "decays2copy" [encPairs (dictDecays2Copy d)],
    tag "definitions" [.list ((dictDefinitions d).map fun (k, q) => .list [.atom k, encRat q])],
    tag "model_aliases" [.list ((dictModelAliases d).map fun (k, l) => .list [.atom k, strs l])],
    tag "cdecays" [strs (cdecayNames d)],
    tag "global_photos" [bool (globalPhotos d)],
    tag "lineshape_pw" [.list ((lineshapePW d).map fun (l, n) => .list [strs l, nat n])],
    tag "pythia" [encDict2 encSVal (dictPythia d)],
    tag "jetset" [match dictJetset d with
      | .ok x => ok (encDict2 encSVal x)
      | .error e => encSemErr e],
    tag "lineshape" [match dictLineshape d with
      | .ok x => ok (encDict2 encLVal x)
      | .error e => encSemErr e],
    tag "particle_defs" [match particleDefs refW d with
      | .ok x => ok (.list (x.map fun (k, m, w) => .list [.atom k, encRat m, encRat w]))
      | .error e => encSemErr e]]

def decWidths (x : Sexp) : Option (List (String × Rat)) := do
  let l ← x.asList
  l.mapM fun p => match p with
    | .list [.atom k, .atom v] => (decRat v).map fun q => (k, q)
    | _ => none

def decFDecays (x : Sexp) : Option (List (String × FMode Rat)) := do
  let l ← x.asList
  l.mapM fun p => match p with
    | .list [.atom k, .atom bf, ds] => do
      let q ← decRat bf
      let ds ← ds.asStrs
      some (k, { bf := q, ds := ds })
    | _ => none

def handle (x : Sexp) : Sexp :=
  match x with
  | .list [.atom "ping"] => ok (.atom "pong")
  -- L4 final states
  | .list [.atom "dd_list", l] => match l.asStrs with
    | some l => ok (strs (ddOfList l))
    | none => bad "dd_list"
  | .list [.atom "dd_string", .atom s] => ok (strs (ddOfString s))
  | .list [.atom "dd_counts", l] =>
    match l.asList.bind (·.mapM fun p => match p with
      | .list [.atom k, n] => n.asInt.map fun i => (k, i)
      | _ => none) with
    | some l => ok (strs (ddOfCounts l))
    | none => bad "dd_counts"
  | .list [.atom "dd_conj", pdg, l] => match pdg.asBool, l.asStrs with
    | some pdg, some l => ok (strs (ddConj (if pdg then Gen.db.conjPdg else Gen.db.conjName) l))
    | _, _ => bad "dd_conj"
  -- modes
  | .list [.atom "mode_fromdict", d] => match decModeDict d with
    | some d => (match Mode.fromDict d with
      | .ok m => ok (.list [encMode m, encModeDict m.toDict])
      | .error e => encChainErr e)
    | none => bad "mode_fromdict"
  | .list [.atom "mode_todict", m] => match decMode m with
    | some m => ok (encModeDict m.toDict)
    | none => bad "mode_todict"
  -- chains
  | .list [.atom "chain_todict", .atom mother, decays] =>
    match decays.asList.bind (·.mapM fun p => match p with
      | .list [.atom k, m] => (decMode m).map fun m => (k, m)
      | _ => none) with
    | some ds => (match (DChain.mk mother ds).toDict fuelDefault with
      | .ok c => ok (encChain encInfo c)
      | .error e => encChainErr e)
    | none => bad "chain_todict"
  | .list [.atom "chain_fromdict", c] => match decChain decInfo c with
    | some c => (match DChain.fromDict c with
      | .ok dc => ok (.list [.atom dc.mother, .list (dc.decays.map fun (k, m) => .list [.atom k, encMode m])])
      | .error e => encChainErr e)
    | none => bad "chain_fromdict"
  | .list [.atom "flatten", .atom mother, decays, stable] =>
    match decFDecays decays, stable.asStrs with
    | some ds, some st => (match flatten ds mother st 10000 with
      | .ok (bf, fs) => ok (.list [encRat bf, strs fs])
      | .error .motherStable => tag "err" [.atom "MotherStable"]
      | .error .noMother => tag "err" [.atom "NoMother"]
      | .error .fuel => tag "err" [.atom "Fuel"])
    | _, _ => bad "flatten"
  | .list [.atom "expand", .atom top, .atom sub, aliases, c] =>
    match decPairs aliases, decChain (fun _ => some ()) c with
    | some al, some c => ok (strs (expand { top := top, sub := sub } al true c))
    | _, _ => bad "expand"
  | .list [.atom "fmt_run", ops] => match ops.asList.bind (·.mapM decFOp) with
    | some ops => let (_, outs) := runFOps FState.init ops []; ok (.list outs)
    | none => bad "fmt_run"
  | .list [.atom "pattern_ok", .atom p] => ok (bool (patternOK p).toBool)
  | .list [.atom "graph", n, c] => match n.asNat, decChain (fun p => p.asStr) c with
    | some n, some c => let (g, n') := viewerGraph id c n; ok (.list [encGraph g, nat n'])
    | _, _ => bad "graph"
  | .list [.atom "graph_labels", n, tbl, c] =>
    match n.asNat, tbl.asList.bind (·.mapM fun p => match p with
        | .list [.atom k, .atom v] => some (k, v) | _ => none), decChain (fun p => p.asStr) c with
    | some n, some tbl, some c =>
      let (g, _) := viewerGraph id c n
      let safe := safeHtml tbl
      ok (.list (.atom (String.ofList (rootLabel safe g.root)) ::
                 g.nodes.map fun nd => .atom (String.ofList (nd.label safe))))
    | _, _, _ => bad "graph_labels"
  -- L3
  | .list [.atom "conj", .atom n] => ok (.atom (Gen.db.conjName n))
  | .list [.atom "conj_pdg", .atom n] => ok (.atom (Gen.db.conjPdg n))
  -- L2
  | .list [.atom "tables", o, d] => match decOpts o, decDoc d with
    | some o, some d => exceptSem ((tables Gen.db o d).map encTables)
    | _, _ => bad "tables"
  | .list [.atom "subst", d] => match decDoc d with
    | some d => ok (.list [bool (usedAliasesOK d), .list ((dropDefs (substDoc d)).map encStmt)])
    | none => bad "subst"
  | .list [.atom "queries", widths, d] => match decWidths widths, decDoc d with
    | some w, some d => ok (encQueries (fun n => dget w n) d)
    | _, _ => bad "queries"
  | .list [.atom "chains", o, d, .atom mother, stable] => match decOpts o, decDoc d, stable.asStrs with
    | some o, some d, some st =>
      exceptSem (do
        let t ← tables Gen.db o d
        let c ← buildChains t st fuelDefault mother
        pure (encChain encLInfo c))
    | _, _, _ => bad "chains"
  | .list [.atom "expand_modes", o, d, .atom mother] => match decOpts o, decDoc d with
    | some o, some d =>
      exceptSem (do
        let t ← tables Gen.db o d
        let c ← buildChains t [] fuelDefault mother
        pure (strs (expand Fmt.default (dictAliases d) true c)))
    | _, _ => bad "expand_modes"
  | .list [.atom "expand_modes_fmt", .atom top, .atom sub, o, d, .atom mother] => match decOpts o, decDoc d with
    | some o, some d =>
      exceptSem (do
        let t ← tables Gen.db o d
        let c ← buildChains t [] fuelDefault mother
        pure (strs (expand { top := top, sub := sub } (dictAliases d) true c)))
    | _, _ => bad "expand_modes_fmt"
  | .list [.atom "print_rows", o, d, .atom mother, po] => match decOpts o, decDoc d, decPrintOpts po with
    | some o, some d, some po =>
      (match tables Gen.db o d with
      | .error e => encSemErr e
      | .ok t => match printRows Gen.pdg2evt t mother po with
        | .ok rows => ok (.list (rows.map fun r => .list [.atom r.shown, encRat r.exact, strs r.ds,
            (match r.model with | some m => .list [.atom m] | none => .atom "N"), .list (r.params.map encPVal)]))
        | .error (.sem e) => encSemErr e
        | .error .options => tag "err" [.atom "RuntimeError", .atom "options"]
        | .error .unknownPdgName => tag "err" [.atom "UnknownPdgName"]
        | .error .zeroDivision => tag "err" [.atom "ZeroDivisionError"])
    | _, _, _ => bad "print_rows"
  -- L7
  | .list [.atom "perms", s, fs] => match s.asStrs, fs.asStrs with
    | some s, some fs => (match listStructure s fs with
      | .ok l => ok (.list (l.map fun a => .list (a.map nat)))
      | .error _ => tag "err" [.atom "RuntimeError"])
    | _, _ => bad "perms"
  | .list [.atom "amp_read", pol, table, st, stmts] =>
    match (match pol with | .atom "gen" => some Gen.resetPolicy | p => decPolicy p), decPairs table, decRState st,
          stmts.asList.bind (·.mapM decAStmt) with
    | some pol, some tb, some st, some stmts =>
      (match readAmpgen pol (fun n => dget tb n) st stmts with
      | .ok (out, st') => ok (.list [encReadOut out, encRState st'])
      | .error e => encAmpErr e)
    | _, _, _, _ => bad "amp_read"
  | .list [.atom "amp_render_layout", seed, d] => match seed.asNat, d.asList.bind (·.mapM decAStmtT) with
    | some seed, some d =>
      let (text, gl, gs) := LayoutGenAmp.renderSeeded seed d
      ok (.list [.atom text, bool gl, bool gs])
    | _, _ => bad "amp_render_layout"
  | .list [.atom "amp_text", .atom text] =>
    (match Amp.readAmpText text with
    | .ok ts => ok (.list [.list (ts.map encAStmtT), bool (readAmp text).toOption.isSome])
    | .error e => tag "err" [.atom "ParseError", .atom e])
  | .list [.atom "progname", .atom n] => ok (.atom (progName n))
  | .list [.atom "prog", ev, ap, ps, cs, ls] =>
    (match ev.asList.bind (·.mapM decPart), ap.asList.bind (·.mapM decPart), ps.asList.bind (·.mapM decParRow),
          cs.asList.bind (·.mapM decConstRow), ls.asList.bind (·.mapM decLineIn) with
    | some ev, some ap, some ps, some cs, some ls =>
      let i : ProgIn := { table := Gen.knownSpinFactors, event := ev, allParts := ap, pars := ps, consts := cs, lines := ls }
      let c := progCpp i
      let p := progPy i
      let cl (r : Except EmitErr (List PStmt)) : Sexp := match r with
        | .ok q => bool (closedB q)
        | .error _ => .atom "N"
      ok (.list [encProg c, encProg p, bool (supportedB i), cl c, cl p])
    | _, _, _, _, _ => bad "prog")
  | .list [.atom "emit_amp", n, fs] => match decGNodeA n, fs.asStrs with
    | some n, some fs => (match emitAmp Gen.knownSpinFactors n fs with
      | .ok a => ok (encAmpOut a)
      | .error e => encEmitErr e)
    | _, _ => bad "emit_amp"
  | .list [.atom "emit_text", py, n, fs, pn, sa, fix, .list [.atom re, .atom reErr, .atom im, .atom imErr], spl] =>
    let pairs (x : Sexp) : Option (List (String × String)) := x.asList.bind (·.mapM fun p => match p with
        | .list [.atom k, .atom v] => some (k, v) | _ => none)
    let quads (x : Sexp) : Option (List (String × String × String × String)) := x.asList.bind (·.mapM fun p => match p with
        | .list [.atom k, .atom a, .atom b, .atom c] => some (k, a, b, c) | _ => none)
    match py.asBool, decGNodeA n, fs.asStrs, pairs pn, pairs sa, fix.asBool, quads spl with
    | some py, some n, some fs, some pn, some sa, some fix, some spl =>
      (match emitAmp Gen.knownSpinFactors n fs with
      | .ok a =>
        let look (d : List (String × String)) (k : String) : String := (dget d k).getD k
        let i : AmpTextIn := { tree := nodeStr (look pn) n, fix := fix, re := re, reErr := reErr, im := im, imErr := imErr, splines := spl }
        ok (.atom (if py then ampTextPy (look sa) i a else ampTextCpp (look sa) i a))
      | .error e => encEmitErr e)
    | _, _, _, _, _, _, _ => bad "emit_text"
  | .list [.atom "dec_read", extra, .atom text] => match extra.asStrs with
    | some ex =>
      (match readDoc { labelChars := Gen.labelChars, models := registered Gen.knownModels ex } text with
      | .ok d => ok (.list (d.map encStmt))
      | .error e => tag "err" [.atom "ParseError", .atom e])
    | none => bad "dec_read"
  | .list [.atom "render_layout", extra, seed, d] => match extra.asStrs, seed.asNat, decDoc d with
    | some ex, some seed, some d =>
      let g : RGrammar := { labelChars := Gen.labelChars, models := registered Gen.knownModels ex }
      let (text, gg, gl, gs) := LayoutGen.renderSeeded g seed d
      ok (.list [.atom text, bool gg, bool gl, bool gs])
    | _, _, _ => bad "render_layout"
  | .list [.atom "concat_files", fs] => match fs.asStrs with
    | some fs => ok (.atom (String.ofList (concatFiles (fs.map fun f => decodeFile f.toList))))
    | none => bad "concat_files"
  | .list [.atom "lex_model", names, .atom text] => match names.asStrs with
    | some ns => (match lexModel ns text.toList with
      | some (m, rest) => ok (.list [.atom m, .atom (String.ofList rest)])
      | none => ok (.atom "N"))
    | none => bad "lex_model"
  | .list [.atom "fmtg7", .atom q] => match decRat q with
    | some q => ok (.atom (fmtG7 q))
    | none => bad "fmtg7"
  | .list [.atom "numvalue", .atom s] => match numValue s with
    | some q => ok (encRat q)
    | none => tag "err" [.atom "NotANumber"]
  | _ => bad "unknown"

partial def loop (h : IO.FS.Stream) (out : IO.FS.Stream) : IO Unit := do
  let line ← h.getLine
  if line.isEmpty then return ()
  let ans := match Sexp.parse line with
    | some x => handle x
    | none => bad "parse"
  out.putStrLn ans.render
  loop h out

def main : IO Unit := do
  let stdin ← IO.getStdin
  let stdout ← IO.getStdout
  loop stdin stdout
  stdout.flush
