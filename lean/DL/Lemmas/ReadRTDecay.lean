/-
Round trip of the reader model, Stage 4: decay blocks (`Decay m` … `Enddecay`) and `ModelAlias`,
with model names from the grammar, optional `PHOTOS`, model parameters (separated by blanks, commas,
line ends and comments), doubled semicolons, a closing `End` line, under every layout.
-/
import DL.Lemmas.ReadRT
import DL.Props.C06
namespace DL
namespace ReadRT

/-! ### what may follow a token inside a decay line: a stop character, the semicolon, the comma -/

def isSep (c : Char) : Bool := isStop c || c == ';' || c == ','

def SStops : List Char → Prop
  | [] => True
  | c :: _ => isSep c = true

theorem isSep_cases {c : Char} (h : isSep c = true) : isStop c = true ∨ c = ';' ∨ c = ',' := by
  simpa [isSep, or_assoc] using h

theorem stop_isSep {c : Char} (h : isStop c = true) : isSep c = true := by simp [isSep, h]

theorem sep_not_label {g : RGrammar} (hg : GoodGrammar g) {c : Char} (h : isSep c = true) :
    g.labelChars.contains c = false := by
  rcases isSep_cases h with h | rfl | rfl
  · exact stop_not_label hg h
  · exact hg ';' (by simp)
  · exact hg ',' (by simp)

theorem sep_not_word {c : Char} (h : isSep c = true) : isWordChar c = false := by
  rcases isSep_cases h with h | rfl | rfl
  · rcases isStop_cases h with rfl | rfl | rfl | rfl | rfl <;> decide
  · decide
  · decide

theorem Stops.sstops {r : List Char} (h : Stops r) : SStops r := by
  cases r with
  | nil => trivial
  | cons c t => exact stop_isSep h

theorem SStops.nstops {r : List Char} (h : SStops r) : NStops r := by
  cases r with
  | nil => trivial
  | cons c t =>
    rcases isSep_cases h with h | rfl | rfl
    · exact (Stops.nstops (r := c :: t) h)
    · exact ⟨by decide, by decide, by decide, by decide⟩
    · exact ⟨by decide, by decide, by decide, by decide⟩

theorem SStops_gap {gap : List Char} (hgap : GoodGap gap) (r : List Char) : SStops (gap ++ r) :=
  (Stops_gap hgap r).sstops

/-- blanks (possibly none) and then the semicolon -/
theorem SStops_semi {sg : List Char} (hsg : Blanks sg) (r : List Char) : SStops (sg ++ ';' :: r) := by
  cases sg with
  | nil => exact (by decide : isSep ';' = true)
  | cons b t => exact stop_isSep (blank_isStop (hsg b List.mem_cons_self))

theorem takeLabel_sstops {g : RGrammar} (hg : GoodGrammar g) {w : String} (hw : GoodLabel g w)
    {r : List Char} (hr : SStops r) : takeLabel g (w.toList ++ r) = some (w, r) := by
  unfold takeLabel
  rw [takeWhileC_run _ w.toList r hw.2]
  · have : w.toList.isEmpty = false := by
      cases h : w.toList with
      | nil => exact absurd h hw.1
      | cons _ _ => rfl
    simp [this]
  · intro c hc
    cases r with
    | nil => simp at hc
    | cons d t =>
      simp only [List.head?_cons, Option.mem_def, Option.some.injEq] at hc
      subst hc
      exact sep_not_label hg hr

theorem takeLabel_sepchar {g : RGrammar} (hg : GoodGrammar g) (c : Char) (hc : isSep c = true) (t : List Char) :
    takeLabel g (c :: t) = none := by
  have h' : g.labelChars.contains c = false := sep_not_label hg hc
  unfold takeLabel
  simp only [takeWhileC, h', Bool.false_eq_true, if_false, List.isEmpty_nil, if_true]

theorem takeNumberText_sstops {v : String} (hv : NumText v) {r : List Char} (hr : SStops r) :
    takeNumberText (v.toList ++ r) = some (v, r) := by
  obtain ⟨n, hn, hsh⟩ := hv.lit
  unfold takeNumberText
  rw [← hsh, readNumber_show n hn r hr.nstops]
  simp [hsh]

/-! ### model names -/

/-- the registered model names are non-empty and contain no separator -/
def GoodModels (g : RGrammar) : Prop :=
  ∀ m ∈ g.models, m.toList ≠ [] ∧ ∀ c ∈ m.toList, isSep c = false

instance (g : RGrammar) : Decidable (GoodModels g) := by unfold GoodModels; infer_instance

/-- a word that the lexer does not take for a model name: wherever a model name is a prefix of
    it, the word goes on with a word character -/
def NotModel (g : RGrammar) (w : String) : Prop :=
  ∀ m ∈ g.models, ∀ r ∈ stripPrefix m.toList w.toList, r ≠ [] ∧ boundaryOK r = false

instance (g : RGrammar) (w : String) : Decidable (NotModel g w) := by unfold NotModel; infer_instance

/-- a prefix of `a ++ b` either ends inside `a` or goes on into `b` -/
theorem stripPrefix_split (p a b r : List Char) (h : stripPrefix p (a ++ b) = some r) :
    (∃ r0, stripPrefix p a = some r0 ∧ r = r0 ++ b) ∨
    (∃ c q, p = a ++ c :: q ∧ stripPrefix (c :: q) b = some r) := by
  induction a generalizing p with
  | nil =>
    cases p with
    | nil => left; exact ⟨[], rfl, by simpa [stripPrefix] using h.symm⟩
    | cons c q => right; exact ⟨c, q, rfl, h⟩
  | cons x a ih =>
    cases p with
    | nil =>
      left
      simp only [stripPrefix, Option.some.injEq] at h
      exact ⟨x :: a, rfl, h.symm⟩
    | cons y p =>
      simp only [List.cons_append, stripPrefix] at h
      split at h
      · rename_i hxy
        subst hxy
        rcases ih p h with ⟨r0, h1, h2⟩ | ⟨c, q, h1, h2⟩
        · left; exact ⟨r0, by simp [stripPrefix, h1], h2⟩
        · right; exact ⟨c, q, by rw [h1]; rfl, h2⟩
      · cases h

theorem boundaryOK_append_false {r0 : List Char} (b : List Char) (h1 : r0 ≠ []) (h2 : boundaryOK r0 = false) :
    boundaryOK (r0 ++ b) = false := by
  cases r0 with
  | nil => exact absurd rfl h1
  | cons c t => simpa [boundaryOK] using h2

theorem firstMatch_notModel {g : RGrammar} (hm : GoodModels g) {w : String} (hw : NotModel g w)
    (c : Char) (rest : List Char) (hc : isSep c = true) (L : List String) (hL : ∀ m ∈ L, m ∈ g.models) :
    firstMatch L (w.toList ++ c :: rest) = none := by
  induction L with
  | nil => rfl
  | cons m ms ih =>
    have ihh := ih (fun x hx => hL x (List.mem_cons_of_mem _ hx))
    have hmem := hL m List.mem_cons_self
    simp only [firstMatch]
    cases hs : stripPrefix m.toList (w.toList ++ c :: rest) with
    | none => exact ihh
    | some r =>
      simp only
      rcases stripPrefix_split _ _ _ _ hs with ⟨r0, h1, h2⟩ | ⟨c', q, h1, h2⟩
      · obtain ⟨hne, hb⟩ := hw m hmem r0 h1
        rw [h2, boundaryOK_append_false _ hne hb]
        simpa using ihh
      · exfalso
        simp only [stripPrefix] at h2
        split at h2
        · rename_i hcc
          have hin : c' ∈ m.toList := by rw [h1]; simp
          have hx := (hm m hmem).2 c' hin
          rw [hcc, hc] at hx; cases hx
        · cases h2

theorem takeModel_notModel {g : RGrammar} (hm : GoodModels g) {w : String} (hw : NotModel g w)
    {r : List Char} (hr : SStops r) (hne : r ≠ []) : takeModel g (w.toList ++ r) = none := by
  cases r with
  | nil => exact absurd rfl hne
  | cons c rest =>
    unfold takeModel lexModel
    exact firstMatch_notModel hm hw c rest hr _ (fun m h => (sortModels_perm g.models).mem_iff.mp h)

theorem firstMatch_sepchar {g : RGrammar} (hm : GoodModels g) (c : Char) (hc : isSep c = true) (rest : List Char)
    (L : List String) (hL : ∀ m ∈ L, m ∈ g.models) : firstMatch L (c :: rest) = none := by
  induction L with
  | nil => rfl
  | cons m ms ih =>
    have ihh := ih (fun x hx => hL x (List.mem_cons_of_mem _ hx))
    obtain ⟨hne, hall⟩ := hm m (hL m List.mem_cons_self)
    cases hml : m.toList with
    | nil => exact absurd hml hne
    | cons c' t =>
      have : c' ≠ c := by
        rintro rfl
        have := hall c' (by rw [hml]; exact List.mem_cons_self)
        rw [hc] at this; cases this
      simp [firstMatch, hml, stripPrefix, this, ihh]

/-- a separator character starts no model name -/
theorem takeModel_sepchar {g : RGrammar} (hm : GoodModels g) (c : Char) (hc : isSep c = true) (rest : List Char) :
    takeModel g (c :: rest) = none := by
  unfold takeModel lexModel
  exact firstMatch_sepchar hm c hc rest _ (fun m h => (sortModels_perm g.models).mem_iff.mp h)

theorem takeModel_semi {g : RGrammar} (hm : GoodModels g) (rest : List Char) :
    takeModel g (';' :: rest) = none := takeModel_sepchar hm ';' (by decide) rest

/-- a registered name followed by a separator is lexed as itself -/
theorem takeModel_name {g : RGrammar} (hm : GoodModels g) {n : String} (hn : n ∈ g.models)
    {r : List Char} (hr : SStops r) (hne : r ≠ []) : takeModel g (n.toList ++ r) = some (n, r) := by
  cases r with
  | nil => exact absurd rfl hne
  | cons c rest =>
    unfold takeModel
    apply C06_self g.models n c rest hn
    · intro m hmm hin
      have hx := (hm m hmm).2 c hin
      have hc : isSep c = true := hr
      rw [hc] at hx; cases hx
    · exact sep_not_word hr

theorem model_head {g : RGrammar} (hm : GoodModels g) {n : String} (hn : n ∈ g.models) :
    ∃ c tl, n.toList = c :: tl ∧ isBlankC c = false ∧ c ≠ '#' := by
  obtain ⟨hne, hall⟩ := hm n hn
  cases hnl : n.toList with
  | nil => exact absurd hnl hne
  | cons c t =>
    have hc : isStop c = false := by
      have h := hall c (by rw [hnl]; exact List.mem_cons_self)
      cases hst : isStop c with
      | false => rfl
      | true => rw [stop_isSep hst] at h; cases h
    refine ⟨c, t, rfl, ?_, ?_⟩
    · cases hb : isBlankC c with
      | false => rfl
      | true => rw [blank_isStop hb] at hc; cases hc
    · rintro rfl; revert hc; decide


/-! ### parameters -/

/-- a model parameter, whatever precedes it: a numeric text, or a label on which `readNumber` fails
    (a leading sign is fine when no number follows it: `-dm`, `+x`) -/
def ParamOK (g : RGrammar) : Param → Prop
  | .num v => NumText v
  | .word w => GoodLabel g w ∧ NotNum w

instance (g : RGrammar) (p : Param) : Decidable (ParamOK g p) := by
  cases p <;> simp only [ParamOK] <;> infer_instance

/-- what the reader checks only on the token that follows a numeric parameter: it must not be taken
    for a model name, nor be `PHOTOS` -/
def AfterNumOK (g : RGrammar) : Param → Prop
  | .num v => NotModel g v
  | .word w => NotModel g w ∧ w ≠ "PHOTOS"

instance (g : RGrammar) (p : Param) : Decidable (AfterNumOK g p) := by
  cases p <;> simp only [AfterNumOK] <;> infer_instance

def isNumP : Param → Bool
  | .num _ => true
  | .word _ => false

/-- a parameter list; `prevNum`: the token before it is a numeric parameter -/
def ParamsOK (g : RGrammar) : Bool → List Param → Prop
  | _, [] => True
  | prevNum, p :: ps => ParamOK g p ∧ (prevNum = true → AfterNumOK g p) ∧ ParamsOK g (isNumP p) ps

instance decParamsOK (g : RGrammar) : (b : Bool) → (ps : List Param) → Decidable (ParamsOK g b ps)
  | _, [] => by unfold ParamsOK; infer_instance
  | b, p :: ps => by
    unfold ParamsOK
    have := decParamsOK g (isNumP p) ps
    infer_instance

theorem ParamsOK.all {g : RGrammar} {ps : List Param} : ∀ {b : Bool}, ParamsOK g b ps → ∀ p ∈ ps, ParamOK g p := by
  induction ps with
  | nil => intro b _ p hp; cases hp
  | cons q ps ih =>
    intro b h p hp
    rcases List.mem_cons.mp hp with rfl | hp
    · exact h.1
    · exact ih h.2.2 p hp

theorem ParamsOK.head {g : RGrammar} {ps : List Param} (h : ParamsOK g true ps) :
    ∀ p ∈ ps.head?, ParamOK g p ∧ AfterNumOK g p := by
  intro p hp
  cases ps with
  | nil => cases hp
  | cons q ps =>
    simp only [List.head?_cons, Option.mem_def, Option.some.injEq] at hp
    subst hp
    exact ⟨h.1, h.2.1 rfl⟩

theorem param_head {g : RGrammar} (hg : GoodGrammar g) {p : Param} (hp : ParamOK g p) :
    ∃ c tl, (paramText p).toList = c :: tl ∧ isBlankC c = false ∧ c ≠ '#' := by
  cases p with
  | num v => exact numText_head hp
  | word w => exact label_head hg hp.1

theorem show_head' (n : NumLit) (hn : GoodNum n) :
    ∃ c t, n.show = c :: t ∧ (isDigit c = true ∨ c = '+' ∨ c = '-' ∨ c = '.') := by
  obtain ⟨hsn, hint, hfrac, hexp, hne⟩ := hn
  rw [show_eq]
  cases hs : n.hasSign with
  | true =>
    cases n.neg
    · exact ⟨'+', _, rfl, by simp⟩
    · exact ⟨'-', _, rfl, by simp⟩
  | false =>
    simp only [Bool.false_eq_true, if_false, List.nil_append]
    cases hi : n.int with
    | cons d ds => exact ⟨d, _, rfl, Or.inl (hint d (by rw [hi]; exact List.mem_cons_self))⟩
    | nil =>
      rcases hne with h | ⟨f, hf, _⟩
      · exact absurd hi h
      · have : n.frac = some f := hf
        rw [this]
        exact ⟨'.', _, rfl, by simp⟩

/-- the first character of a parameter: no separator -/
theorem param_head' {g : RGrammar} (hg : GoodGrammar g) {p : Param} (hp : ParamOK g p) :
    ∃ c tl, (paramText p).toList = c :: tl ∧ isStop c = false ∧ c ≠ ';' ∧ c ≠ ',' := by
  cases p with
  | num v =>
    obtain ⟨n, hn, hsh⟩ := NumText.lit hp
    obtain ⟨c, t, hct, hc⟩ := show_head' n hn
    refine ⟨c, t, by simp only [paramText]; rw [← hsh, hct], ?_⟩
    rcases hc with h | rfl | rfl | rfl
    · refine ⟨?_, ?_, ?_⟩
      · cases hst : isStop c with
        | false => rfl
        | true => rw [stop_not_digit hst] at h; cases h
      · rintro rfl; revert h; decide
      · rintro rfl; revert h; decide
    · exact ⟨by decide, by decide, by decide⟩
    · exact ⟨by decide, by decide, by decide⟩
    · exact ⟨by decide, by decide, by decide⟩
  | word w =>
    obtain ⟨hne, hall⟩ := hp.1
    simp only [paramText]
    cases hwl : w.toList with
    | nil => exact absurd hwl hne
    | cons c t =>
      have hc : g.labelChars.contains c = true := hall c (by rw [hwl]; exact List.mem_cons_self)
      refine ⟨c, t, rfl, ?_, ?_, ?_⟩
      · cases hst : isStop c with
        | false => rfl
        | true => rw [stop_not_label hg hst] at hc; cases hc
      · rintro rfl; rw [hg ';' (by simp)] at hc; cases hc
      · rintro rfl; rw [hg ',' (by simp)] at hc; cases hc

theorem takeNewline_tok {t : List Char} (ht : ∃ c tl, t = c :: tl ∧ isStop c = false) (r : List Char) :
    takeNewline (t ++ r) = none := by
  obtain ⟨c, tl, rfl, hc⟩ := ht
  exact takeNewline_nonstop c _ hc



/-! ### separators inside a parameter list: blanks, commas, line ends, comments -/

inductive SepItem where
  | blank (c : Char)
  | comma
  | newline (comment : Option (List Char)) (crlf : Bool)
  deriving Repr, DecidableEq, Inhabited

def SepItem.text : SepItem → List Char
  | .blank c => [c]
  | .comma => [',']
  | .newline cm crlf => commentText cm ++ eol crlf

def SepItem.Good : SepItem → Prop
  | .blank c => isBlankC c = true
  | .comma => True
  | .newline cm _ => ∀ b ∈ cm, '\n' ∉ b

instance (x : SepItem) : Decidable x.Good := by cases x <;> simp only [SepItem.Good] <;> infer_instance

/-- the number of `modelOptions` rounds an item takes -/
def SepItem.cost : SepItem → Nat
  | .blank _ => 0
  | .comma => 1
  | .newline none _ => 1
  | .newline (some _) _ => 2

/-- does the item count as "a parameter list is present" -/
def SepItem.marks : SepItem → Bool
  | .blank _ => false
  | _ => true

abbrev Sep := List SepItem

def sepText (S : Sep) : List Char := S.flatMap SepItem.text
def GoodSep (S : Sep) : Prop := ∀ x ∈ S, x.Good
def sepCost : Sep → Nat
  | [] => 0
  | x :: S => x.cost + sepCost S
def sepMarks (S : Sep) : Bool := S.any SepItem.marks

instance (S : Sep) : Decidable (GoodSep S) := by unfold GoodSep; infer_instance

theorem sepText_cons (x : SepItem) (S : Sep) : sepText (x :: S) = x.text ++ sepText S := by
  simp [sepText]

theorem sepCost_le (S : Sep) : sepCost S ≤ (sepText S).length := by
  induction S with
  | nil => simp [sepCost]
  | cons x S ih =>
    rw [sepText_cons, List.length_append, sepCost]
    have : x.cost ≤ x.text.length := by
      cases x with
      | blank c => simp [SepItem.cost]
      | comma => simp [SepItem.cost, SepItem.text]
      | newline cm crlf =>
        cases cm <;> cases crlf <;> simp [SepItem.cost, SepItem.text, commentText, eol]
    omega

/-- a separator starts (if it is not empty) with a blank, a comma, `#`, CR or LF -/
theorem sep_head {S : Sep} (hS : GoodSep S) :
    sepText S = [] ∨ ∃ c t, sepText S = c :: t ∧ (isBlankC c = true ∨ c = ',' ∨ c = '#' ∨ c = '\r' ∨ c = '\n') := by
  cases S with
  | nil => left; rfl
  | cons x S =>
    right
    rw [sepText_cons]
    cases x with
    | blank c => exact ⟨c, _, rfl, Or.inl (hS _ List.mem_cons_self)⟩
    | comma => exact ⟨',', _, rfl, by simp⟩
    | newline cm crlf =>
      cases cm with
      | some b => exact ⟨'#', _, rfl, by simp⟩
      | none =>
        cases crlf
        · exact ⟨'\n', _, rfl, by simp⟩
        · exact ⟨'\r', _, rfl, by simp⟩

theorem sepchar_isSep {c : Char} (h : isBlankC c = true ∨ c = ',' ∨ c = '#' ∨ c = '\r' ∨ c = '\n') :
    isSep c = true := by
  rcases h with h | rfl | rfl | rfl | rfl
  · exact stop_isSep (blank_isStop h)
  all_goals decide

theorem SStops_sep {S : Sep} (hS : GoodSep S) {r : List Char} (hr : SStops r) : SStops (sepText S ++ r) := by
  rcases sep_head hS with h | ⟨c, t, h, hc⟩
  · rw [h]; exact hr
  · rw [h]; exact sepchar_isSep hc

/-- after the blanks of a separator comes the text behind it, or a comma, `#`, CR or LF -/
theorem sep_skipWs {S : Sep} (hS : GoodSep S) (Y : List Char) :
    skipWs (sepText S ++ Y) = skipWs Y ∨
    ∃ c t, skipWs (sepText S ++ Y) = c :: t ∧ isSep c = true ∧ isBlankC c = false := by
  induction S with
  | nil => left; rfl
  | cons x S ih =>
    have hS' : GoodSep S := fun y hy => hS y (List.mem_cons_of_mem _ hy)
    rw [sepText_cons, List.append_assoc]
    cases x with
    | blank c =>
      have hc : isBlankC c = true := hS _ List.mem_cons_self
      have : skipWs (SepItem.text (.blank c) ++ (sepText S ++ Y)) = skipWs (sepText S ++ Y) := by
        simp [SepItem.text, skipWs, hc]
      rw [this]; exact ih hS'
    | comma => right; exact ⟨',', _, skipWs_nonblank _ _ (by decide), by decide, by decide⟩
    | newline cm crlf =>
      right
      cases cm with
      | some b => exact ⟨'#', _, skipWs_nonblank _ _ (by decide), by decide, by decide⟩
      | none =>
        cases crlf
        · exact ⟨'\n', _, skipWs_nonblank _ _ (by decide), by decide, by decide⟩
        · exact ⟨'\r', _, skipWs_nonblank _ _ (by decide), by decide, by decide⟩

/-! ### semicolons -/

def semisText (semis : List (List Char)) : List Char := semis.flatMap (fun b => b ++ [';'])

theorem semicolons_more (semis : List (List Char)) (hs : ∀ b ∈ semis, Blanks b) (rest : List Char)
    (hrest : ∀ t, skipWs rest ≠ ';' :: t) :
    ∀ f, semis.length < f → semicolons.more f (semisText semis ++ rest) = rest := by
  induction semis with
  | nil =>
    intro f hf
    cases f with
    | zero => omega
    | succ f =>
      simp only [semisText, List.flatMap_nil, List.nil_append]
      rw [semicolons.more]
      split
      · rename_i heq; exact absurd heq (hrest _)
      · rfl
  | cons b semis ih =>
    intro f hf
    cases f with
    | zero => omega
    | succ f =>
      simp only [semisText, List.flatMap_cons, List.append_assoc, List.cons_append, List.nil_append]
      rw [semicolons.more, skipWs_blanks _ _ (hs b List.mem_cons_self), skipWs_nonblank _ _ (by decide)]
      simp only
      exact ih (fun x hx => hs x (List.mem_cons_of_mem _ hx)) f (by simp only [List.length_cons] at hf; omega)

theorem semisText_length (semis : List (List Char)) : semis.length ≤ (semisText semis).length := by
  induction semis with
  | nil => simp [semisText]
  | cons b t ih => simp only [semisText, List.flatMap_cons, List.length_append, List.length_cons] at ih ⊢; omega

/-- `_SEMICOLON+`: one semicolon after blanks, further ones each after blanks -/
theorem semicolons_many {sg : List Char} (hsg : Blanks sg) (semis : List (List Char)) (hs : ∀ b ∈ semis, Blanks b)
    (rest : List Char) (hrest : ∀ t, skipWs rest ≠ ';' :: t) :
    semicolons (sg ++ ';' :: (semisText semis ++ rest)) = .ok rest := by
  unfold semicolons
  rw [skipIgnored_true, skipWs_blanks _ _ hsg, skipWs_nonblank _ _ (by decide)]
  simp only
  rw [semicolons_more semis hs rest hrest _ (by have := semisText_length semis; simp only [List.length_append]; omega)]

/-! ### the parameter list -/

theorem modelOptions_skipWs (g : RGrammar) (f : Nat) (cs : List Char) (acc : List Param) (has : Bool) :
    modelOptions g (f + 1) (skipWs cs) acc has = modelOptions g (f + 1) cs acc has := by
  rw [modelOptions, modelOptions]
  simp only [skipIgnored_true, skipWs_idem]

/-- a separator is absorbed by the parameter loop; commas and line ends mark the list as present -/
theorem modelOptions_sep (g : RGrammar) (S : Sep) (hS : GoodSep S) (Y : List Char) :
    ∀ (n : Nat) (acc : List Param) (has : Bool),
      modelOptions g (n + 1 + sepCost S) (sepText S ++ Y) acc has = modelOptions g (n + 1) Y acc (has || sepMarks S) := by
  induction S with
  | nil => intro n acc has; simp [sepCost, sepText, sepMarks]
  | cons x S ih =>
    intro n acc has
    have hS' : GoodSep S := fun y hy => hS y (List.mem_cons_of_mem _ hy)
    have IH := ih hS'
    rw [sepText_cons, List.append_assoc]
    have hmarks : ∀ b : Bool, sepMarks (x :: S) = (x.marks || sepMarks S) := fun _ => by simp [sepMarks]
    cases x with
    | blank c =>
      have hc : isBlankC c = true := hS _ List.mem_cons_self
      have e1 : n + 1 + sepCost (SepItem.blank c :: S) = (n + sepCost S) + 1 := by simp [sepCost, SepItem.cost]; omega
      have e2 : skipWs (SepItem.text (.blank c) ++ (sepText S ++ Y)) = skipWs (sepText S ++ Y) := by
        simp [SepItem.text, skipWs, hc]
      rw [e1, ← modelOptions_skipWs, e2, modelOptions_skipWs]
      have e3 : n + sepCost S + 1 = n + 1 + sepCost S := by omega
      rw [e3, IH n acc has]
      simp [sepMarks, SepItem.marks]
    | comma =>
      have e1 : n + 1 + sepCost (SepItem.comma :: S) = (n + 1 + sepCost S) + 1 := by simp [sepCost, SepItem.cost]; omega
      rw [e1, modelOptions]
      simp only [skipIgnored_true, SepItem.text, List.cons_append, List.nil_append]
      rw [skipWs_nonblank _ _ (by decide)]
      simp only [takeNewline]
      rw [IH n acc true]
      simp [sepMarks, SepItem.marks]
    | newline cm crlf =>
      have hmk : (has || sepMarks (SepItem.newline cm crlf :: S)) = true := by simp [sepMarks, SepItem.marks]
      rw [hmk]
      cases cm with
      | none =>
        have e1 : n + 1 + sepCost (SepItem.newline none crlf :: S) = (n + 1 + sepCost S) + 1 := by
          simp [sepCost, SepItem.cost]; omega
        rw [e1, modelOptions]
        have e0 : n + 1 + sepCost S = (n + sepCost S) + 1 := by omega
        cases crlf
        · simp only [skipIgnored_true, SepItem.text, commentText, eol, Bool.false_eq_true, if_false, List.cons_append,
            List.nil_append]
          rw [skipWs_nonblank _ _ (by decide)]
          simp only [takeNewline]
          rw [e0, modelOptions_skipWs, ← e0, IH n acc true]
          simp
        · simp only [skipIgnored_true, SepItem.text, commentText, eol, if_true, List.cons_append, List.nil_append]
          rw [skipWs_nonblank _ _ (by decide)]
          simp only [takeNewline]
          rw [e0, modelOptions_skipWs, ← e0, IH n acc true]
          simp
      | some b =>
        have hb : '\n' ∉ b := hS _ List.mem_cons_self b rfl
        have e1 : n + 1 + sepCost (SepItem.newline (some b) crlf :: S) = ((n + 1 + sepCost S) + 1) + 1 := by
          simp [sepCost, SepItem.cost]; omega
        have e0 : n + 1 + sepCost S = (n + sepCost S) + 1 := by omega
        -- the comment, then the line feed
        have step2 : modelOptions g ((n + 1 + sepCost S) + 1) ('\n' :: (sepText S ++ Y)) acc true =
            modelOptions g (n + 1) Y acc true := by
          rw [modelOptions]
          simp only [skipIgnored_true]
          rw [skipWs_nonblank _ _ (by decide)]
          simp only [takeNewline]
          rw [e0, modelOptions_skipWs, ← e0, IH n acc true]
          simp
        obtain ⟨b', hb', htext⟩ : ∃ b', '\n' ∉ b' ∧ SepItem.text (.newline (some b) crlf) ++ (sepText S ++ Y) =
            '#' :: (b' ++ '\n' :: (sepText S ++ Y)) := by
          cases crlf
          · exact ⟨b, hb, by simp [SepItem.text, commentText, eol]⟩
          · refine ⟨b ++ ['\r'], ?_, by simp [SepItem.text, commentText, eol]⟩
            intro hm
            rcases List.mem_append.mp hm with h | h
            · exact hb h
            · simp at h
        rw [htext, e1, modelOptions]
        simp only [skipIgnored_true]
        rw [skipWs_nonblank _ _ (by decide)]
        simp only [takeNewline, dropLine_comment b' _ hb']
        exact step2


def renderParamsS (σ : Nat → Sep) : Nat → List Param → List Char
  | _, [] => []
  | i, p :: ps => sepText (σ i) ++ ((paramText p).toList ++ renderParamsS σ (i + 1) ps)

def paramsCost (σ : Nat → Sep) : Nat → List Param → Nat
  | _, [] => 0
  | i, _ :: ps => sepCost (σ i) + 1 + paramsCost σ (i + 1) ps

theorem skipWs_tok0 {t : List Char} (ht : ∃ c tl, t = c :: tl ∧ isBlankC c = false ∧ c ≠ '#') (r : List Char) :
    skipWs (t ++ r) = t ++ r := by
  obtain ⟨c, tl, rfl, hb, _⟩ := ht
  exact skipWs_nonblank c _ hb

/-- what may follow a numeric parameter: no model name, no `PHOTOS` -/
def AfterNum (g : RGrammar) (Y : List Char) : Prop :=
  takeModel g (skipWs Y) = none ∧
  ∀ w r, takeLabel g (skipWs Y) = some (w, r) → ((takeNumberText (skipWs Y)).isNone && w == "PHOTOS") = false

theorem afterNum_sepchar {g : RGrammar} (hg : GoodGrammar g) (hm : GoodModels g) {Y : List Char} {c : Char}
    {t : List Char} (h : skipWs Y = c :: t) (hc : isSep c = true) : AfterNum g Y := by
  unfold AfterNum
  rw [h]
  refine ⟨takeModel_sepchar hm c hc t, ?_⟩
  intro w r hl
  rw [takeLabel_sepchar hg c hc t] at hl; cases hl

section params
variable {g : RGrammar} (hg : GoodGrammar g) (hm : GoodModels g) (σ : Nat → Sep)
  (hσ : ∀ i, GoodSep (σ i) ∧ sepText (σ i) ≠ []) {E : Sep} (hE : GoodSep E) {sg : List Char} (hsg : Blanks sg)
  (rest : List Char)

include hσ hE hsg in
theorem params_sstops (i : Nat) (ps : List Param) :
    SStops (renderParamsS σ i ps ++ (sepText E ++ (sg ++ ';' :: rest))) ∧
    renderParamsS σ i ps ++ (sepText E ++ (sg ++ ';' :: rest)) ≠ [] := by
  cases ps with
  | nil =>
    simp only [renderParamsS, List.nil_append]
    exact ⟨SStops_sep hE (SStops_semi hsg rest), by simp⟩
  | cons p ps =>
    simp only [renderParamsS, List.append_assoc]
    obtain ⟨h1, h2⟩ := hσ i
    refine ⟨?_, fun h => h2 (List.append_eq_nil_iff.mp h).1⟩
    rcases sep_head h1 with h | ⟨c, t, h, hc⟩
    · exact absurd h h2
    · rw [h]; exact sepchar_isSep hc

include hg hm hσ hE hsg in
theorem params_afterNum (i : Nat) (ps : List Param) (hps : ∀ p ∈ ps.head?, ParamOK g p ∧ AfterNumOK g p) :
    AfterNum g (renderParamsS σ i ps ++ (sepText E ++ (sg ++ ';' :: rest))) := by
  cases ps with
  | nil =>
    simp only [renderParamsS, List.nil_append]
    rcases sep_skipWs hE (sg ++ ';' :: rest) with h | ⟨c, t, h, hc, _⟩
    · rw [skipWs_blanks _ _ hsg, skipWs_nonblank _ _ (by decide)] at h
      exact afterNum_sepchar hg hm h (by decide)
    · exact afterNum_sepchar hg hm h hc
  | cons p ps =>
    obtain ⟨hp, hp2⟩ := hps p rfl
    obtain ⟨hs, hne⟩ := params_sstops σ hσ hE hsg rest (i + 1) ps
    simp only [renderParamsS, List.append_assoc]
    rcases sep_skipWs (hσ i).1 ((paramText p).toList ++ (renderParamsS σ (i + 1) ps ++ (sepText E ++ (sg ++ ';' :: rest))))
      with h | ⟨c, t, h, hc, _⟩
    · rw [skipWs_tok0 (param_head hg hp)] at h
      unfold AfterNum
      rw [h]
      cases p with
      | num v =>
        simp only [paramText]
        refine ⟨takeModel_notModel hm hp2 hs hne, ?_⟩
        intro w r _
        rw [takeNumberText_sstops hp hs]
        rfl
      | word w =>
        simp only [paramText]
        refine ⟨takeModel_notModel hm hp2.1 hs hne, ?_⟩
        intro w' r h
        rw [takeLabel_sstops hg hp.1 hs] at h
        simp only [Option.some.injEq, Prod.mk.injEq] at h
        have : (w' == "PHOTOS") = false := by
          rw [← h.1]; simpa using hp2.2
        rw [this, Bool.and_false]
    · exact afterNum_sepchar hg hm h hc

include hg hm hσ hE hsg in
theorem modelOptions_params (ps : List Param) :
    ∀ (i f : Nat) (acc : List Param) (has b : Bool), ParamsOK g b ps → paramsCost σ i ps + sepCost E < f →
      modelOptions g f (renderParamsS σ i ps ++ (sepText E ++ (sg ++ ';' :: rest))) acc has =
        .ok (acc.reverse ++ ps, if ps.isEmpty then has || sepMarks E else true, ';' :: rest) := by
  induction ps with
  | nil =>
    intro i f acc has b _ hf
    simp only [paramsCost, Nat.zero_add] at hf
    obtain ⟨n, rfl⟩ : ∃ n, f = n + 1 + sepCost E := ⟨f - 1 - sepCost E, by omega⟩
    simp only [renderParamsS, List.nil_append]
    rw [modelOptions_sep g E hE, modelOptions]
    simp only [skipIgnored_true]
    rw [skipWs_blanks _ _ hsg, skipWs_nonblank _ _ (by decide)]
    simp
  | cons p ps ih =>
    intro i f acc has b hps hf
    simp only [paramsCost] at hf
    obtain ⟨n, rfl⟩ : ∃ n, f = n + 1 + sepCost (σ i) := ⟨f - 1 - sepCost (σ i), by omega⟩
    have hp : ParamOK g p := hps.1
    have hps' : ParamsOK g (isNumP p) ps := hps.2.2
    obtain ⟨hs, hne⟩ := params_sstops σ hσ hE hsg rest (i + 1) ps
    have IH := ih (i + 1) n
    simp only [renderParamsS, List.append_assoc]
    rw [modelOptions_sep g (σ i) (hσ i).1, modelOptions]
    simp only [skipIgnored_true]
    rw [skipWs_tok0 (param_head hg hp)]
    obtain ⟨c, tl, hct, hc1, hc2, hc3⟩ := param_head' hg hp
    cases p with
    | num v =>
      simp only [paramText] at hct ⊢
      split
      · rename_i heq; rw [hct] at heq; simp only [List.cons_append, List.cons.injEq] at heq; exact absurd heq.1 hc2
      rw [takeNewline_tok ⟨c, tl, hct, hc1⟩]
      simp only
      split
      · rename_i heq; rw [hct] at heq; simp only [List.cons_append, List.cons.injEq] at heq; exact absurd heq.1 hc3
      obtain ⟨hA1, hA2⟩ := params_afterNum hg hm σ hσ hE hsg rest (i + 1) ps (ParamsOK.head hps')
      rw [takeNumberText_sstops hp hs]
      simp only [hA1, Option.isSome_none, Bool.false_eq_true, if_false]
      have hrec := IH (Param.num v :: acc) true _ hps' (by omega)
      split
      · rename_i w r hl
        rw [hA2 w r hl]
        simp only [Bool.false_eq_true, if_false]
        rw [hrec]; simp
      · rw [hrec]; simp
    | word w =>
      simp only [paramText] at hct ⊢
      split
      · rename_i heq; rw [hct] at heq; simp only [List.cons_append, List.cons.injEq] at heq; exact absurd heq.1 hc2
      rw [takeNewline_tok ⟨c, tl, hct, hc1⟩]
      simp only
      split
      · rename_i heq; rw [hct] at heq; simp only [List.cons_append, List.cons.injEq] at heq; exact absurd heq.1 hc3
      rw [takeNumberText_notNum hp.2 hp.1.1 hs.nstops, takeLabel_sstops hg hp.1 hs]
      simp only
      rw [IH (Param.word w :: acc) true _ hps' (by omega)]
      simp

include hg in
theorem paramsCost_le (ps : List Param) :
    ∀ i, (∀ p ∈ ps, ParamOK g p) → paramsCost σ i ps ≤ (renderParamsS σ i ps).length := by
  induction ps with
  | nil => intro i _; simp [paramsCost]
  | cons p ps ih =>
    intro i hps
    have h1 := ih (i + 1) (fun q hq => hps q (List.mem_cons_of_mem _ hq))
    have h2 := sepCost_le (σ i)
    obtain ⟨c, tl, hct, _⟩ := param_head hg (hps p List.mem_cons_self)
    simp only [paramsCost, renderParamsS, List.length_append, hct, List.length_cons]
    omega

end params


/-! ### models -/

/-- the layout of a decay line (or of a `ModelAlias` statement): a statement layout, the separators
    before the model parameters (a single blank where the list is too short) and after the last one,
    the blanks before the semicolon, and further semicolons (each after a run of blanks) -/
structure LLayout extends SLayout where
  semiGap : List Char := []
  pseps : List Sep := []
  pend : Sep := []
  semis : List (List Char) := []
  deriving Repr, Inhabited

def LLayout.psep (L : LLayout) (j : Nat) : Sep := L.pseps.getD j [.blank ' ']

def GoodLLayout (L : LLayout) : Prop :=
  GoodSLayout L.toSLayout ∧ Blanks L.semiGap ∧ (∀ S ∈ L.pseps, GoodSep S ∧ sepText S ≠ []) ∧ GoodSep L.pend ∧
  ∀ b ∈ L.semis, Blanks b

instance (L : LLayout) : Decidable (GoodLLayout L) := by unfold GoodLLayout; infer_instance

theorem LLayout.psep_good {L : LLayout} (h : GoodLLayout L) (j : Nat) :
    GoodSep (L.psep j) ∧ sepText (L.psep j) ≠ [] := by
  unfold LLayout.psep
  rw [List.getD_eq_getElem?_getD]
  cases hj : L.pseps[j]? with
  | none => exact ⟨by decide, by decide⟩
  | some S => exact h.2.2.1 S (List.mem_of_getElem? hj)

/-- the separator after the last parameter.  A parameter list that is present but empty
    (`.named n (some [])`: the reader produces it for `MODEL ,;` or a wrapped `MODEL` / `;`) needs a comma
    or a line end there: a comma is added when the layout's separator has neither -/
def LLayout.endSep (L : LLayout) (ps : List Param) : Sep :=
  if ps.isEmpty && !sepMarks L.pend then L.pend ++ [.comma] else L.pend

theorem LLayout.endSep_good {L : LLayout} (h : GoodSep L.pend) (ps : List Param) : GoodSep (L.endSep ps) := by
  unfold LLayout.endSep
  split
  · intro x hx
    rcases List.mem_append.mp hx with hx | hx
    · exact h x hx
    · simp only [List.mem_singleton] at hx; subst hx; trivial
  · exact h

theorem LLayout.endSep_marks (L : LLayout) : sepMarks (L.endSep []) = true := by
  unfold LLayout.endSep
  cases h : sepMarks L.pend with
  | true => simp [h]
  | false => simp [sepMarks, SepItem.marks]

/-- the semicolon(s) that close a model -/
def semiPart (L : LLayout) : List Char := L.semiGap ++ ';' :: semisText L.semis

/-- the model part of a decay line, from the model token to the last semicolon -/
def renderModel (L : LLayout) : ModelRef → List Char
  | .named name none => name.toList ++ semiPart L
  | .named name (some ps) => name.toList ++ (renderParamsS L.psep 0 ps ++ (sepText (L.endSep ps) ++ semiPart L))
  | .alias l => l.toList ++ semiPart L

def ModelOK (g : RGrammar) : ModelRef → Prop
  | .named name none => name ∈ g.models
  | .named name (some ps) => name ∈ g.models ∧ ParamsOK g false ps
  | .alias l => GoodLabel g l ∧ NotModel g l ∧ l ≠ "PHOTOS"

instance (g : RGrammar) (m : ModelRef) : Decidable (ModelOK g m) := by
  cases m with
  | named n o => cases o <;> simp only [ModelOK] <;> infer_instance
  | alias l => simp only [ModelOK]; infer_instance

theorem semiPart_append (L : LLayout) (rest : List Char) :
    semiPart L ++ rest = L.semiGap ++ ';' :: (semisText L.semis ++ rest) := by
  simp [semiPart]

theorem rModel_render {g : RGrammar} (hg : GoodGrammar g) (hm : GoodModels g) (L : LLayout) (hL : GoodLLayout L)
    {gap : List Char} (hgap : Blanks gap) (m : ModelRef) (hmo : ModelOK g m) (rest : List Char)
    (hrest : ∀ t, skipWs rest ≠ ';' :: t) :
    rModel g (gap ++ (renderModel L m ++ rest)) = .ok (m, rest) := by
  obtain ⟨_, hsg, _, hpend, hsemis⟩ := hL
  have hσ := fun j => LLayout.psep_good (L := L) ⟨‹_›, hsg, ‹_›, hpend, hsemis⟩ j
  have hsemi : semicolons (';' :: (semisText L.semis ++ rest)) = .ok rest :=
    semicolons_many (sg := []) (by intro c hc; cases hc) L.semis hsemis rest hrest
  cases m with
  | alias l =>
    obtain ⟨hl, hnm, _⟩ := hmo
    simp only [renderModel, List.append_assoc, semiPart_append]
    unfold rModel
    simp only
    rw [skipIgnored_tok false _ hgap (label_head hg hl),
      takeModel_notModel hm hnm (SStops_semi hsg _) (by simp), takeLabel_sstops hg hl (SStops_semi hsg _)]
    simp only
    rw [semicolons_many hsg L.semis hsemis rest hrest]
  | named n o =>
    cases o with
    | none =>
      have hn : n ∈ g.models := hmo
      simp only [renderModel, List.append_assoc, semiPart_append]
      unfold rModel
      simp only
      rw [skipIgnored_tok false _ hgap (model_head hm hn), takeModel_name hm hn (SStops_semi hsg _) (by simp)]
      simp only
      have := modelOptions_params hg hm L.psep hσ (E := []) (by intro x hx; cases hx) hsg (semisText L.semis ++ rest) [] 0
        ((L.semiGap ++ ';' :: (semisText L.semis ++ rest)).length + 2) [] false false trivial
        (by simp [paramsCost, sepCost])
      simp only [renderParamsS, sepText, List.flatMap_nil, List.nil_append] at this
      rw [this]
      simp only [hsemi]
      rfl
    | some ps =>
      obtain ⟨hn, hps⟩ := hmo
      have hend := LLayout.endSep_good hpend ps
      simp only [renderModel, List.append_assoc, semiPart_append]
      unfold rModel
      simp only
      obtain ⟨hs, hne'⟩ := params_sstops L.psep hσ hend hsg (semisText L.semis ++ rest) 0 ps
      rw [skipIgnored_tok false _ hgap (model_head hm hn), takeModel_name hm hn hs hne']
      simp only
      rw [modelOptions_params hg hm L.psep hσ hend hsg (semisText L.semis ++ rest) ps 0 _ [] false false hps
        (by
          have h1 := paramsCost_le hg L.psep ps 0 hps.all
          have h2 := sepCost_le (L.endSep ps)
          simp only [List.length_append, List.length_cons]
          omega)]
      simp only [hsemi]
      cases ps with
      | nil => simp [LLayout.endSep_marks]
      | cons _ _ => simp

/-! ### decay lines -/

/-- the grammar conditions for decay blocks: `PHOTOS` is a label and no model name -/
def GoodDecayGrammar (g : RGrammar) : Prop :=
  GoodGrammar g ∧ GoodModels g ∧ GoodLabel g "PHOTOS" ∧ NotModel g "PHOTOS"

instance (g : RGrammar) : Decidable (GoodDecayGrammar g) := by unfold GoodDecayGrammar; infer_instance

/-- a daughter: a label that is not taken for a model name nor for `PHOTOS` -/
def DaughterOK (g : RGrammar) (d : String) : Prop := GoodLabel g d ∧ NotModel g d ∧ d ≠ "PHOTOS"

instance (g : RGrammar) (d : String) : Decidable (DaughterOK g d) := by unfold DaughterOK; infer_instance

def renderDs (γ : Nat → List Char) : Nat → List String → List Char
  | _, [] => []
  | i, d :: ds => γ i ++ (d.toList ++ renderDs γ (i + 1) ds)

/-- a text that goes on with a blank run and then a token that is no semicolon -/
def NextTok (T : List Char) : Prop :=
  ∃ gap c t, GoodGap gap ∧ T = gap ++ c :: t ∧ isStop c = false ∧ c ≠ ';'

theorem NextTok.stops {T : List Char} (h : NextTok T) : Stops T := by
  obtain ⟨gap, c, t, hg, rfl, _⟩ := h
  exact Stops_gap hg _

theorem NextTok.ne_nil {T : List Char} (h : NextTok T) : T ≠ [] := by
  obtain ⟨gap, c, t, hg, rfl, _⟩ := h
  simp

theorem nonstop_nonblank {c : Char} (h : isStop c = false) : isBlankC c = false := by
  cases hb : isBlankC c with
  | false => rfl
  | true => rw [blank_isStop hb] at h; cases h

theorem nonstop_nohash {c : Char} (h : isStop c = false) : c ≠ '#' := by
  rintro rfl; revert h; decide

theorem label_head' {g : RGrammar} (hg : GoodGrammar g) {w : String} (hw : GoodLabel g w) :
    ∃ c t, w.toList = c :: t ∧ isStop c = false ∧ c ≠ ';' := by
  obtain ⟨hne, hall⟩ := hw
  cases hwl : w.toList with
  | nil => exact absurd hwl hne
  | cons c t =>
    have hc : g.labelChars.contains c = true := hall c (by rw [hwl]; exact List.mem_cons_self)
    refine ⟨c, t, rfl, ?_, ?_⟩
    · cases hst : isStop c with
      | false => rfl
      | true => rw [stop_not_label hg hst] at hc; cases hc
    · rintro rfl; rw [hg ';' (by simp)] at hc; cases hc


/-- after the daughters: `PHOTOS` if wanted, the model, the semicolon -/
def lineTail (L : LLayout) (k : Nat) (photos : Bool) (m : ModelRef) : List Char :=
  (if photos then L.gap k ++ "PHOTOS".toList else []) ++ (L.gap (k + 1) ++ renderModel L m)

theorem lineEnd_skipWs {L : SLayout} (h : GoodSLayout L) (cs : List Char) :
    ∃ c t, skipWs (L.lineEnd ++ cs) = c :: t ∧ (c = '#' ∨ c = '\r' ∨ c = '\n') := by
  obtain ⟨_, _, ht, hc, ha, _⟩ := h
  simp only [SLayout.lineEnd, List.append_assoc]
  rw [skipWs_blanks _ _ ht]
  cases L.comment with
  | some b => exact ⟨'#', _, by simp only [commentText, List.cons_append]; exact skipWs_nonblank _ _ (by decide), Or.inl rfl⟩
  | none =>
    cases L.crlf
    · exact ⟨'\n', _, by simp only [commentText, eol, List.nil_append, Bool.false_eq_true, if_false, List.cons_append]; exact skipWs_nonblank _ _ (by decide), Or.inr (Or.inr rfl)⟩
    · exact ⟨'\r', _, by simp only [commentText, eol, List.nil_append, if_true, List.cons_append]; exact skipWs_nonblank _ _ (by decide), Or.inr (Or.inl rfl)⟩

theorem lineEnd_noSemi {L : SLayout} (h : GoodSLayout L) (cs : List Char) :
    ∀ t, skipWs (L.lineEnd ++ cs) ≠ ';' :: t := by
  intro t heq
  obtain ⟨c, t', h1, h2⟩ := lineEnd_skipWs h cs
  rw [h1] at heq
  simp only [List.cons.injEq] at heq
  rcases h2 with rfl | rfl | rfl <;> exact absurd heq.1 (by decide)

section line
variable {g : RGrammar} (hG : GoodDecayGrammar g) (bf : String)
include hG

/-- one daughter -/
theorem decayLineRest_daughter (f : Nat) {gap : List Char} (hgap : Blanks gap) {d : String} (hd : DaughterOK g d)
    (first : Bool) (hfirst : first = true → NotNum d) (T : List Char) (hT : NextTok T) (parts : List String) :
    decayLineRest g bf (f + 1) (gap ++ (d.toList ++ T)) parts first = decayLineRest g bf f T (d :: parts) false := by
  obtain ⟨hg, hm, _, _⟩ := hG
  obtain ⟨hl, hnm, hph⟩ := hd
  rw [decayLineRest]
  rw [skipIgnored_tok first _ hgap (label_head hg hl), takeModel_notModel hm hnm hT.stops.sstops hT.ne_nil]
  simp only
  have h1 : (first && (takeNumberText (d.toList ++ T)).isSome) = false := by
    cases first with
    | false => rfl
    | true => rw [takeNumberText_notNum (hfirst rfl) hl.1 hT.stops.nstops]; rfl
  rw [h1, takeLabel_good hg hl hT.stops]
  have h2 : (d == "PHOTOS") = false := by simpa using hph
  simp only [Bool.false_eq_true, if_false, h2]
  obtain ⟨gap', c, t, hg', rfl, hc1, hc2⟩ := hT
  rw [skipIgnored_gap false _ gap' c t hg'.2 (nonstop_nonblank hc1) (nonstop_nohash hc1)]
  split
  · rename_i heq; simp only [List.cons.injEq] at heq; exact absurd heq.1 hc2
  · rfl


theorem decayLineRest_tail (L : LLayout) (hL : GoodLLayout L) (k : Nat) (photos : Bool) (m : ModelRef)
    (hmo : ModelOK g m) (X : List Char) (parts : List String) (first : Bool) (f : Nat)
    (hal : first = true → photos = false → ∀ l, m = .alias l → NotNum l) :
    decayLineRest g bf (f + 1) (lineTail L k photos m ++ (L.lineEnd ++ X)) parts first =
      .ok ({ bf := bf, ds := parts.reverse, photos := photos, model := m }, nl X) := by
  obtain ⟨hg, hm, hPl, hPm⟩ := hG
  have hγ : ∀ i, GoodGap (L.gap i) := fun i => SLayout.gap_good hL.1 i
  have hrest := lineEnd_noSemi hL.1 X
  have hnl := newlines1_lineEnd hL.1 X
  cases photos with
  | true =>
    simp only [lineTail, if_true, List.append_assoc]
    rw [decayLineRest]
    rw [skipIgnored_tok first _ (hγ k).2 (label_head hg hPl),
      takeModel_notModel hm hPm (SStops_gap (hγ (k + 1)) _) (by have := (hγ (k+1)).1; simp [this])]
    simp only
    have h1 : (takeNumberText ("PHOTOS".toList ++ (L.gap (k + 1) ++ (renderModel L m ++ (L.lineEnd ++ X))))).isSome = false := by
      rw [takeNumberText_notNum (w := "PHOTOS") (by decide) (by decide) (Stops_gap (hγ (k + 1)) _).nstops]; rfl
    rw [h1, Bool.and_false, takeLabel_good hg hPl (Stops_gap (hγ (k + 1)) _)]
    simp only [Bool.false_eq_true, if_false, beq_self_eq_true, if_true]
    rw [rModel_render hg hm L hL (hγ (k + 1)).2 m hmo _ hrest]
    simp only [hnl]
  | false =>
    simp only [lineTail, Bool.false_eq_true, if_false, List.nil_append, List.append_assoc]
    have hR := rModel_render hg hm L hL (gap := []) (by intro c hc; cases hc) m hmo _ hrest
    simp only [List.nil_append] at hR
    rw [decayLineRest]
    cases m with
    | named n o =>
      have hn : n ∈ g.models := by cases o with
        | none => exact hmo
        | some ps => exact hmo.1
      have hform : ∃ Y, renderModel L (.named n o) = n.toList ++ Y ∧ SStops Y ∧ Y ≠ [] := by
        cases o with
        | none => exact ⟨semiPart L, rfl, SStops_semi hL.2.1 _, by simp [semiPart]⟩
        | some ps =>
          obtain ⟨h1, h2⟩ := params_sstops L.psep (fun j => LLayout.psep_good hL j)
            (LLayout.endSep_good hL.2.2.2.1 ps) hL.2.1 (semisText L.semis) 0 ps
          exact ⟨renderParamsS L.psep 0 ps ++ (sepText (L.endSep ps) ++ semiPart L), rfl, h1, h2⟩
      obtain ⟨Y, hY, hYs, hYne⟩ := hform
      have hsk : skipIgnored first ((L.gap (k + 1) ++ (renderModel L (.named n o) ++ (L.lineEnd ++ X))).length + 1)
          (L.gap (k + 1) ++ (renderModel L (.named n o) ++ (L.lineEnd ++ X))) =
          renderModel L (.named n o) ++ (L.lineEnd ++ X) := by
        rw [hY, List.append_assoc]
        exact skipIgnored_tok first _ (hγ (k + 1)).2 (model_head hm hn) _
      rw [hsk, hR]
      have htm : takeModel g (renderModel L (.named n o) ++ (L.lineEnd ++ X)) =
          some (n, Y ++ (L.lineEnd ++ X)) := by
        rw [hY, List.append_assoc]
        apply takeModel_name hm hn
        · cases Y with
          | nil => exact absurd rfl hYne
          | cons c t => exact hYs
        · cases Y with
          | nil => exact absurd rfl hYne
          | cons c t => simp
      rw [htm]
      simp only [hnl]
    | alias l =>
      obtain ⟨hl, hnm, hph⟩ := hmo
      have hsk : skipIgnored first ((L.gap (k + 1) ++ (renderModel L (.alias l) ++ (L.lineEnd ++ X))).length + 1)
          (L.gap (k + 1) ++ (renderModel L (.alias l) ++ (L.lineEnd ++ X))) =
          renderModel L (.alias l) ++ (L.lineEnd ++ X) := by
        simp only [renderModel, List.append_assoc]
        exact skipIgnored_tok first _ (hγ (k + 1)).2 (label_head hg hl) _
      rw [hsk, hR]
      simp only [renderModel, List.append_assoc, semiPart_append]
      rw [takeModel_notModel hm hnm (SStops_semi hL.2.1 _) (by simp)]
      simp only
      have h1 : (first && (takeNumberText (l.toList ++ (L.semiGap ++ ';' :: (semisText L.semis ++ (L.lineEnd ++ X))))).isSome) = false := by
        cases first with
        | false => rfl
        | true => rw [takeNumberText_notNum (hal rfl rfl l rfl) hl.1 (SStops_semi hL.2.1 _).nstops]; rfl
      rw [h1, takeLabel_sstops hg hl (SStops_semi hL.2.1 _)]
      have h2 : (l == "PHOTOS") = false := by simpa using hph
      simp only [Bool.false_eq_true, if_false, h2]
      rw [skipIgnored_gap false _ L.semiGap ';' _ hL.2.1 (by decide) (by decide)]
      simp only [hnl]


theorem nextTok_ds (γ : Nat → List Char) (hγ : ∀ i, GoodGap (γ i)) (i : Nat) (d : String) (hd : DaughterOK g d)
    (ds : List String) (T : List Char) : NextTok (renderDs γ i (d :: ds) ++ T) := by
  obtain ⟨c, t, hct, h1, h2⟩ := label_head' hG.1 hd.1
  refine ⟨γ i, c, t ++ (renderDs γ (i + 1) ds ++ T), hγ i, ?_, h1, h2⟩
  simp only [renderDs, List.append_assoc, hct, List.cons_append]

theorem model_head' {n : String} (hn : n ∈ g.models) :
    ∃ c tl, n.toList = c :: tl ∧ isStop c = false ∧ c ≠ ';' := by
  obtain ⟨hne, hall⟩ := hG.2.1 n hn
  cases hnl : n.toList with
  | nil => exact absurd hnl hne
  | cons c t =>
    have h := hall c (by rw [hnl]; exact List.mem_cons_self)
    refine ⟨c, t, rfl, ?_, ?_⟩
    · cases hst : isStop c with
      | false => rfl
      | true => rw [stop_isSep hst] at h; cases h
    · rintro rfl; revert h; decide

theorem nextTok_tail (L : LLayout) (hL : GoodLLayout L) (k : Nat) (photos : Bool) (m : ModelRef)
    (hmo : ModelOK g m) (T : List Char) : NextTok (lineTail L k photos m ++ T) := by
  have hγ : ∀ i, GoodGap (L.gap i) := fun i => SLayout.gap_good hL.1 i
  cases photos with
  | true =>
    refine ⟨L.gap k, 'P', "HOTOS".toList ++ (L.gap (k + 1) ++ (renderModel L m ++ T)),
      hγ k, ?_, by decide, by decide⟩
    simp only [lineTail, if_true, List.append_assoc]
    rfl
  | false =>
    have : ∃ c t, renderModel L m = c :: t ∧ isStop c = false ∧ c ≠ ';' := by
      cases m with
      | alias l =>
        obtain ⟨c, t, hct, h1, h2⟩ := label_head' hG.1 hmo.1
        exact ⟨c, _, by simp only [renderModel, hct, List.cons_append]; rfl, h1, h2⟩
      | named n o =>
        cases o with
        | none =>
          obtain ⟨c, t, hct, h1, h2⟩ := model_head' hG hmo
          exact ⟨c, _, by simp only [renderModel, hct, List.cons_append]; rfl, h1, h2⟩
        | some ps =>
          obtain ⟨c, t, hct, h1, h2⟩ := model_head' hG hmo.1
          exact ⟨c, _, by simp only [renderModel, hct, List.cons_append]; rfl, h1, h2⟩
    obtain ⟨c, t, hct, h1, h2⟩ := this
    refine ⟨L.gap (k + 1), c, t ++ T, hγ (k + 1), ?_, h1, h2⟩
    simp only [lineTail, Bool.false_eq_true, if_false, List.nil_append, List.append_assoc, hct, List.cons_append]

/-- `match m with | .alias l => NotNum l | _ => True` -/
def AliasNotNum : ModelRef → Prop
  | .alias l => NotNum l
  | _ => True

instance (m : ModelRef) : Decidable (AliasNotNum m) := by
  cases m <;> simp only [AliasNotNum] <;> infer_instance

/-- the daughters, then the rest of the line -/
theorem decayLineRest_ds (L : LLayout) (hL : GoodLLayout L) (k : Nat) (photos : Bool) (m : ModelRef)
    (hmo : ModelOK g m) (X : List Char) (ds : List String) :
    ∀ (i : Nat) (parts : List String) (first : Bool) (f : Nat), ds.length < f → (∀ d ∈ ds, DaughterOK g d) →
      (first = true → ∀ d ∈ ds.head?, NotNum d) →
      (first = true → ds = [] → photos = false → AliasNotNum m) →
      decayLineRest g bf f (renderDs L.gap i ds ++ (lineTail L k photos m ++ (L.lineEnd ++ X))) parts first =
        .ok ({ bf := bf, ds := parts.reverse ++ ds, photos := photos, model := m }, nl X) := by
  have hγ : ∀ i, GoodGap (L.gap i) := fun i => SLayout.gap_good hL.1 i
  induction ds with
  | nil =>
    intro i parts first f hf _ _ hal
    cases f with
    | zero => omega
    | succ f =>
      simp only [renderDs, List.nil_append, List.append_nil]
      apply decayLineRest_tail hG bf L hL k photos m hmo X parts first f
      intro h1 h2 l hl
      have := hal h1 rfl h2
      rw [hl] at this
      exact this
  | cons d ds ih =>
    intro i parts first f hf hds hfirst _
    cases f with
    | zero => omega
    | succ f =>
      have hd := hds d List.mem_cons_self
      have hT : NextTok (renderDs L.gap (i + 1) ds ++ (lineTail L k photos m ++ (L.lineEnd ++ X))) := by
        cases ds with
        | nil => simp only [renderDs, List.nil_append]; exact nextTok_tail hG L hL k photos m hmo _
        | cons d' ds' => exact nextTok_ds hG L.gap hγ (i + 1) d' (hds d' (by simp)) ds' _
      simp only [renderDs, List.append_assoc]
      rw [decayLineRest_daughter hG bf f (hγ i).2 hd first (fun h => hfirst h d rfl) _ hT parts]
      rw [ih (i + 1) (d :: parts) false f (by simp only [List.length_cons] at hf; omega)
        (fun x hx => hds x (List.mem_cons_of_mem _ hx)) (by intro h; cases h) (by intro h; cases h)]
      simp

end line


/-! ### whole decay lines and blocks -/

def LineOK (g : RGrammar) (ln : DLine) : Prop :=
  NumText ln.bf ∧ (∀ d ∈ ln.ds, DaughterOK g d) ∧ (∀ d ∈ ln.ds.head?, NotNum d) ∧ ModelOK g ln.model ∧
  (ln.ds = [] → ln.photos = false → AliasNotNum ln.model)

instance (g : RGrammar) (ln : DLine) : Decidable (LineOK g ln) := by unfold LineOK; infer_instance

/-- a decay line from its branching fraction to the semicolon -/
def lineCore (L : LLayout) (ln : DLine) : List Char :=
  ln.bf.toList ++ (renderDs L.gap 0 ln.ds ++ lineTail L ln.ds.length ln.photos ln.model)

def renderLine (L : LLayout) (ln : DLine) : List Char := L.indent ++ (lineCore L ln ++ L.lineEnd)

def renderLines : List LLayout → List DLine → List Char
  | _, [] => []
  | ℓ, ln :: lns => renderLine (ℓ.headD {}) ln ++ renderLines ℓ.tail lns

theorem renderDs_length (γ : Nat → List Char) (hγ : ∀ i, GoodGap (γ i)) (ds : List String) :
    ∀ i, ds.length ≤ (renderDs γ i ds).length := by
  induction ds with
  | nil => intro i; simp
  | cons d ds ih =>
    intro i
    have h1 := ih (i + 1)
    have h2 : 0 < (γ i).length := List.length_pos_iff.mpr (hγ i).1
    simp only [renderDs, List.length_append, List.length_cons]
    omega

theorem numText_head' {v : String} (hv : NumText v) :
    ∃ c t, v.toList = c :: t ∧ isStop c = false ∧ c ≠ 'E' := by
  obtain ⟨n, hn, hsh⟩ := hv.lit
  obtain ⟨c, t, hct, hc⟩ := show_head' n hn
  refine ⟨c, t, by rw [← hsh, hct], ?_⟩
  rcases hc with h | rfl | rfl | rfl
  · refine ⟨?_, ?_⟩
    · cases hst : isStop c with
      | false => rfl
      | true => rw [stop_not_digit hst] at h; cases h
    · rintro rfl; revert h; decide
  · exact ⟨by decide, by decide⟩
  · exact ⟨by decide, by decide⟩
  · exact ⟨by decide, by decide⟩

theorem decayLine_render {g : RGrammar} (hG : GoodDecayGrammar g) (L : LLayout) (hL : GoodLLayout L) (ln : DLine)
    (hln : LineOK g ln) (X : List Char) :
    decayLine g (lineCore L ln ++ (L.lineEnd ++ X)) = .ok (ln, nl X) := by
  obtain ⟨hbf, hds, hfirst, hmo, hal⟩ := hln
  have hγ : ∀ i, GoodGap (L.gap i) := fun i => SLayout.gap_good hL.1 i
  have hT : NextTok (renderDs L.gap 0 ln.ds ++ (lineTail L ln.ds.length ln.photos ln.model ++ (L.lineEnd ++ X))) := by
    cases hd : ln.ds with
    | nil => simp only [renderDs, List.nil_append]; exact nextTok_tail hG L hL _ _ _ hmo _
    | cons d' ds' => exact nextTok_ds hG L.gap hγ 0 d' (hds d' (by rw [hd]; simp)) ds' _
  unfold decayLine
  simp only [lineCore, List.append_assoc]
  rw [takeNumberText_good hbf hT.stops]
  simp only
  rw [decayLineRest_ds hG ln.bf L hL ln.ds.length ln.photos ln.model hmo X ln.ds 0 [] true _
    (by have := renderDs_length L.gap hγ ln.ds 0; simp only [List.length_append]; omega) hds (fun _ => hfirst) (fun _ h1 h2 => hal h1 h2)]
  simp

theorem hasPrefix_Enddecay_none (c : Char) (t : List Char) (h : c ≠ 'E') : hasPrefix "Enddecay" (c :: t) = none := by
  simp [hasPrefix, stripPrefix, Ne.symm h]

theorem decayBody_skipWs (g : RGrammar) (f : Nat) (cs : List Char) (acc : List DLine) :
    decayBody g (f + 1) (skipWs cs) acc = decayBody g (f + 1) cs acc := by
  simp only [decayBody, skipWs_idem]

section body
variable {g : RGrammar} (hG : GoodDecayGrammar g) {cind : List Char} (hcind : Blanks cind) (rest : List Char)
include hcind in
/-- the text of the lines and the closing `Enddecay` starts, after its indentation, with a token -/
theorem lines_head (ℓ : List LLayout) (hℓ : ∀ L ∈ ℓ, GoodLLayout L) (lns : List DLine) (hlns : ∀ ln ∈ lns, LineOK g ln) :
    ∃ c t, skipWs (renderLines ℓ lns ++ (cind ++ ("Enddecay".toList ++ rest))) = c :: t ∧ isStop c = false ∧
      lns.length ≤ t.length := by
  cases lns with
  | nil =>
    refine ⟨'E', "nddecay".toList ++ rest, ?_, by decide, by simp⟩
    simp only [renderLines, List.nil_append]
    rw [skipWs_blanks _ _ hcind]
    exact skipWs_nonblank _ _ (by decide)
  | cons ln lns =>
    have hL : GoodLLayout (ℓ.headD {}) := by
      cases ℓ with
      | nil => decide
      | cons L t => exact hℓ L List.mem_cons_self
    obtain ⟨c, t, hct, hc, _⟩ := numText_head' (hlns ln List.mem_cons_self).1
    refine ⟨c, t ++ ((renderDs (ℓ.headD {}).gap 0 ln.ds ++ lineTail (ℓ.headD {}) ln.ds.length ln.photos ln.model) ++
      ((ℓ.headD {}).lineEnd ++ (renderLines ℓ.tail lns ++ (cind ++ ("Enddecay".toList ++ rest))))), ?_, hc, ?_⟩
    · simp only [renderLines, renderLine, lineCore, List.append_assoc]
      rw [skipWs_blanks _ _ hL.1.1, hct, List.cons_append, skipWs_nonblank _ _ (nonstop_nonblank hc)]
    · have : lns.length ≤ (renderLines ℓ.tail lns).length := by
        clear hlns hct
        generalize ℓ.tail = ℓ'
        induction lns generalizing ℓ' with
        | nil => simp
        | cons a as ih =>
          have h1 := ih ℓ'.tail
          simp only [renderLines, renderLine, SLayout.lineEnd, eol, List.length_append, List.length_cons]
          cases (ℓ'.headD {}).crlf <;> simp <;> omega
      have h2 : 0 < ((ℓ.headD {}).lineEnd).length := by
        simp only [SLayout.lineEnd, eol, List.length_append]
        cases (ℓ.headD {}).crlf <;> simp <;> omega
      simp only [List.length_append, List.length_cons]
      omega

include hG hcind in
theorem decayBody_lines (lns : List DLine) :
    ∀ (ℓ : List LLayout) (f : Nat) (acc : List DLine), (∀ L ∈ ℓ, GoodLLayout L) → (∀ ln ∈ lns, LineOK g ln) →
      lns.length < f →
      decayBody g f (renderLines ℓ lns ++ (cind ++ ("Enddecay".toList ++ rest))) acc = .ok (acc.reverse ++ lns, rest) := by
  induction lns with
  | nil =>
    intro ℓ f acc _ _ hf
    cases f with
    | zero => omega
    | succ f =>
      simp only [renderLines, List.nil_append]
      rw [decayBody]
      have : skipWs ("Enddecay".toList ++ rest) = "Enddecay".toList ++ rest :=
        skipWs_nonblank 'E' ("nddecay".toList ++ rest) (by decide)
      rw [skipWs_blanks _ _ hcind, this]
      simp only [hasPrefix, stripPrefix_append]
      simp
  | cons ln lns ih =>
    intro ℓ f acc hℓ hlns hf
    cases f with
    | zero => omega
    | succ f =>
      cases f with
      | zero => simp at hf
      | succ f =>
        have hL : GoodLLayout (ℓ.headD {}) := by
          cases ℓ with
          | nil => decide
          | cons L t => exact hℓ L List.mem_cons_self
        have hℓ' : ∀ L ∈ ℓ.tail, GoodLLayout L := fun L h => hℓ L (List.mem_of_mem_tail h)
        have hln := hlns ln List.mem_cons_self
        have hlns' : ∀ x ∈ lns, LineOK g x := fun x hx => hlns x (List.mem_cons_of_mem _ hx)
        obtain ⟨c, t, hct, hc, hE⟩ := numText_head' hln.1
        simp only [renderLines, renderLine, List.append_assoc]
        rw [decayBody]
        rw [skipWs_blanks _ _ hL.1.1]
        have hcore : lineCore (ℓ.headD {}) ln = c :: (t ++ (renderDs (ℓ.headD {}).gap 0 ln.ds ++
            lineTail (ℓ.headD {}) ln.ds.length ln.photos ln.model)) := by
          simp only [lineCore, hct, List.cons_append]
        have hsk : skipWs (lineCore (ℓ.headD {}) ln ++ ((ℓ.headD {}).lineEnd ++
            (renderLines ℓ.tail lns ++ (cind ++ ("Enddecay".toList ++ rest))))) =
            lineCore (ℓ.headD {}) ln ++ ((ℓ.headD {}).lineEnd ++
            (renderLines ℓ.tail lns ++ (cind ++ ("Enddecay".toList ++ rest)))) := by
          rw [hcore, List.cons_append]; exact skipWs_nonblank _ _ (nonstop_nonblank hc)
        rw [hsk]
        have hnone : hasPrefix "Enddecay" (lineCore (ℓ.headD {}) ln ++ ((ℓ.headD {}).lineEnd ++
            (renderLines ℓ.tail lns ++ (cind ++ ("Enddecay".toList ++ rest))))) = none := by
          rw [hcore, List.cons_append]; exact hasPrefix_Enddecay_none _ _ hE
        rw [hnone, decayLine_render hG _ hL ln hln]
        simp only
        obtain ⟨c', t', hct', hc', _⟩ := lines_head hcind rest ℓ.tail hℓ' lns hlns'
        have hnl : nl (renderLines ℓ.tail lns ++ (cind ++ ("Enddecay".toList ++ rest))) =
            skipWs (renderLines ℓ.tail lns ++ (cind ++ ("Enddecay".toList ++ rest))) := by
          apply nl_stop; rw [hct']; exact takeNewline_nonstop _ _ hc'
        rw [hnl, decayBody_skipWs, ih ℓ.tail (f + 1) (ln :: acc) hℓ' hlns'
          (by simp only [List.length_cons] at hf; omega)]
        simp

end body

/-! ### the statement loop over arbitrary pieces of text -/

/-- a statement's text: indentation, the statement proper, what follows it up to the next statement -/
structure Piece where
  ind : List Char
  core : List Char
  tail : List Char
  stmt : Stmt

def Piece.text (p : Piece) : List Char := p.ind ++ (p.core ++ p.tail)

def PieceOK (g : RGrammar) (p : Piece) : Prop :=
  Blanks p.ind ∧ (∃ c t, p.core = c :: t ∧ isStop c = false ∧ c ≠ 'E') ∧
  (∀ rest, rStmt g (p.core ++ (p.tail ++ rest)) = .ok (p.stmt, p.tail ++ rest)) ∧
  (∀ rest, newlines1 (p.tail ++ rest) = .ok (nl rest))

def bodyP (ps : List Piece) : List Char := ps.flatMap Piece.text

/-- what may follow the last statement: nothing, or a closing `End` line -/
def TrailerOK (g : RGrammar) (Z : List Char) : Prop :=
  (∀ f acc, readStmts g (f + 1) Z acc = .ok acc.reverse) ∧
  (skipWs Z = [] ∨ ∃ c t, skipWs Z = c :: t ∧ isStop c = false)

theorem trailer_nil (g : RGrammar) : TrailerOK g [] :=
  ⟨fun f acc => readStmts_nil g f acc, Or.inl rfl⟩

/-- a lone `End` line (indented, with trailing blanks, a comment, blank lines after it) -/
def endLineText (E : SLayout) : List Char := E.indent ++ ("End".toList ++ E.lineEnd)

theorem trailer_end (g : RGrammar) (E : SLayout) (hE : GoodSLayout E) : TrailerOK g (endLineText E) := by
  have hsk : skipWs (endLineText E) = 'E' :: ("nd".toList ++ E.lineEnd) := by
    unfold endLineText
    rw [skipWs_blanks _ _ hE.1]
    exact skipWs_nonblank _ _ (by decide)
  refine ⟨?_, Or.inr ⟨'E', _, hsk, by decide⟩⟩
  intro f acc
  have h1 : hasPrefix "End" ('E' :: ("nd".toList ++ E.lineEnd)) = some E.lineEnd := by
    simp [hasPrefix, stripPrefix]
  have h2 : hasPrefix "Enddecay" ('E' :: ("nd".toList ++ E.lineEnd)) = none := by
    obtain ⟨hst, _⟩ := endsStmt_lineEnd hE []
    rw [List.append_nil] at hst
    cases hl : E.lineEnd with
    | nil => simp [hasPrefix, stripPrefix]
    | cons c t =>
      rw [hl] at hst
      have : c ≠ 'd' := by
        rintro rfl
        have h : isStop 'd' = true := hst
        revert h; decide
      simp [hasPrefix, stripPrefix, Ne.symm this]
  have h3 : newlines1 E.lineEnd = .ok [] := by
    have := newlines1_lineEnd hE []
    rw [List.append_nil] at this
    rw [this]; rfl
  rw [readStmts]
  simp only [hsk, h1, h2, h3]
  rfl

theorem bodyP_head {g : RGrammar} (ps : List Piece) (hps : ∀ p ∈ ps, PieceOK g p) (Z : List Char)
    (hZ : TrailerOK g Z) :
    skipWs (bodyP ps ++ Z) = [] ∨ ∃ c t, skipWs (bodyP ps ++ Z) = c :: t ∧ isStop c = false := by
  cases ps with
  | nil => exact hZ.2
  | cons p ps =>
    right
    obtain ⟨hi, ⟨c, t, hct, hc, _⟩, _, _⟩ := hps p List.mem_cons_self
    refine ⟨c, t ++ (p.tail ++ (bodyP ps ++ Z)), ?_, hc⟩
    simp only [bodyP, List.flatMap_cons, Piece.text, List.append_assoc]
    rw [skipWs_blanks _ _ hi, hct, List.cons_append, skipWs_nonblank _ _ (nonstop_nonblank hc)]

theorem nl_bodyP {g : RGrammar} (ps : List Piece) (hps : ∀ p ∈ ps, PieceOK g p) (Z : List Char)
    (hZ : TrailerOK g Z) : nl (bodyP ps ++ Z) = skipWs (bodyP ps ++ Z) := by
  apply nl_stop
  rcases bodyP_head ps hps Z hZ with h | ⟨c, t, h, hc⟩
  · rw [h]; rfl
  · rw [h]; exact takeNewline_nonstop c t hc

theorem readStmts_pieces {g : RGrammar} (Z : List Char) (hZ : TrailerOK g Z) (ps : List Piece) :
    ∀ (f : Nat) (acc : List Stmt), (∀ p ∈ ps, PieceOK g p) → ps.length < f →
      readStmts g f (bodyP ps ++ Z) acc = .ok (acc.reverse ++ ps.map (·.stmt)) := by
  induction ps with
  | nil =>
    intro f acc _ hf
    cases f with
    | zero => omega
    | succ f => simp [bodyP, hZ.1 f acc]
  | cons p ps ih =>
    intro f acc hps hf
    cases f with
    | zero => omega
    | succ f =>
      cases f with
      | zero => simp at hf
      | succ f =>
        have hps' : ∀ q ∈ ps, PieceOK g q := fun q hq => hps q (List.mem_cons_of_mem _ hq)
        obtain ⟨hi, ⟨c, t, hct, hc, hE⟩, hread, hnl⟩ := hps p List.mem_cons_self
        have hj : skipWs (bodyP (p :: ps) ++ Z) = c :: (t ++ (p.tail ++ (bodyP ps ++ Z))) := by
          simp only [bodyP, List.flatMap_cons, Piece.text, List.append_assoc]
          rw [skipWs_blanks _ _ hi, hct, List.cons_append, skipWs_nonblank _ _ (nonstop_nonblank hc)]
        have hst : rStmt g (c :: (t ++ (p.tail ++ (bodyP ps ++ Z)))) = .ok (p.stmt, p.tail ++ (bodyP ps ++ Z)) := by
          rw [← List.cons_append, ← hct]; exact hread _
        rw [readStmts_step g (f + 1) _ acc c _ hj hE p.stmt _ _ hst (hnl _), nl_bodyP ps hps' Z hZ, readStmts_skipWs,
          ih (f + 1) (p.stmt :: acc) hps' (by simp only [List.length_cons] at hf; omega)]
        simp

theorem bodyP_length {g : RGrammar} (ps : List Piece) (hps : ∀ p ∈ ps, PieceOK g p) :
    ps.length ≤ (bodyP ps).length := by
  induction ps with
  | nil => simp
  | cons p ps ih =>
    have h1 := ih (fun q hq => hps q (List.mem_cons_of_mem _ hq))
    obtain ⟨_, ⟨c, t, hct, _⟩, _, _⟩ := hps p List.mem_cons_self
    simp only [bodyP, List.flatMap_cons, Piece.text, List.length_append, hct, List.length_cons] at h1 ⊢
    omega

theorem readDoc_pieces {g : RGrammar} (pre : List BLine) (hpre : ∀ l ∈ pre, GoodBLine l) (ps : List Piece)
    (hps : ∀ p ∈ ps, PieceOK g p) (Z : List Char) (hZ : TrailerOK g Z) :
    readDoc g (String.ofList (pre.flatMap BLine.render ++ (bodyP ps ++ Z))) = .ok (ps.map (·.stmt)) := by
  unfold readDoc
  simp only [String.toList_ofList]
  have h0 : ∀ T : List Char, newlines0 (T.length + 1) T = nl T := fun _ => rfl
  rw [h0, nl_blines _ hpre, nl_bodyP ps hps Z hZ, readStmts_skipWs, readStmts_pieces Z hZ ps _ [] hps]
  · simp
  · have := bodyP_length ps hps
    simp only [List.length_append]
    omega

/-! ### Stage 4: documents with decay blocks and model aliases -/

theorem rStmt_decay (g : RGrammar) (rest : List Char) : rStmt g ("Decay".toList ++ rest) = (do
      let (a, r) ← rLabel g rest
      let r ← newlines1 r
      let (lines, r) ← decayBody g (r.length + 2) r []
      pure (.decay a lines, r)) := by
  simp [rStmt, firstPrefix, hasPrefix, stripPrefix]

theorem rStmt_modelAlias (g : RGrammar) (rest : List Char) : rStmt g ("ModelAlias".toList ++ rest) = (do
      let (a, r) ← rLabel g rest
      let (m, r) ← rModel g r
      pure (.modelAlias a m, r)) := by
  simp [rStmt, firstPrefix, hasPrefix, stripPrefix]

/-- the layout of a statement: its line (for a decay block: the `Decay` line), the decay lines, and
    the `Enddecay` line -/
structure DLayout where
  main : LLayout := {}
  lines : List LLayout := []
  close : SLayout := {}
  deriving Repr, Inhabited

def GoodDLayout (D : DLayout) : Prop :=
  GoodLLayout D.main ∧ (∀ L ∈ D.lines, GoodLLayout L) ∧ GoodSLayout D.close

instance (D : DLayout) : Decidable (GoodDLayout D) := by unfold GoodDLayout; infer_instance

/-- a statement from its keyword to its last token -/
def stmtCore (D : DLayout) : Stmt → List Char
  | .decay m lns =>
    "Decay".toList ++ (D.main.gap 0 ++ (m.toList ++ (D.main.lineEnd ++ (renderLines D.lines lns ++
      (D.close.indent ++ "Enddecay".toList)))))
  | .modelAlias a m =>
    "ModelAlias".toList ++ (D.main.gap 0 ++ (a.toList ++ (D.main.gap 1 ++ renderModel D.main m)))
  | s => renderG D.main.gap D.main.opGap s

/-- what follows the last token: the rest of the line and the blank and comment lines after it -/
def stmtTail (D : DLayout) : Stmt → List Char
  | .decay _ _ => D.close.lineEnd
  | _ => D.main.lineEnd

def renderStmtD (D : DLayout) (s : Stmt) : List Char := D.main.indent ++ (stmtCore D s ++ stmtTail D s)

def renderBodyD : List DLayout → Doc → List Char
  | _, [] => []
  | ℓ, s :: d => renderStmtD (ℓ.headD {}) s ++ renderBodyD ℓ.tail d

/-- the layout of a document: the blank and comment lines before the first statement, the statement
    layouts (the default layout where the list is too short), and the closing `End` line if wanted -/
structure DocLayoutD where
  pre : List BLine := []
  stmts : List DLayout := []
  endLine : Option SLayout := none
  deriving Repr, Inhabited

def GoodLayoutD (ℓ : DocLayoutD) : Prop :=
  (∀ l ∈ ℓ.pre, GoodBLine l) ∧ (∀ D ∈ ℓ.stmts, GoodDLayout D) ∧ ∀ E ∈ ℓ.endLine, GoodSLayout E

instance (ℓ : DocLayoutD) : Decidable (GoodLayoutD ℓ) := by unfold GoodLayoutD; infer_instance

def trailerText : Option SLayout → List Char
  | some E => endLineText E
  | none => []

def renderD (ℓ : DocLayoutD) (d : Doc) : List Char :=
  ℓ.pre.flatMap BLine.render ++ (renderBodyD ℓ.stmts d ++ trailerText ℓ.endLine)

/-- all statement kinds -/
def StmtOK (g : RGrammar) : Stmt → Prop
  | .decay m lns => GoodLabel g m ∧ ∀ ln ∈ lns, LineOK g ln
  | .modelAlias a m => GoodLabel g a ∧ ModelOK g m
  | s => FlatNumOK g s

instance (g : RGrammar) (s : Stmt) : Decidable (StmtOK g s) := by
  cases s <;> simp only [StmtOK] <;> infer_instance

def pieceOf (D : DLayout) (s : Stmt) : Piece := ⟨D.main.indent, stmtCore D s, stmtTail D s, s⟩

theorem pieceOf_ok {g : RGrammar} (hG : GoodDecayGrammar g) (D : DLayout) (hD : GoodDLayout D) (s : Stmt)
    (hs : StmtOK g s) : PieceOK g (pieceOf D s) := by
  obtain ⟨hmain, hlines, hclose⟩ := hD
  obtain ⟨hg, hm, _, _⟩ := hG
  have hγ : ∀ i, GoodGap (D.main.gap i) := fun i => SLayout.gap_good hmain.1 i
  have flat : ∀ s : Stmt, FlatNumOK g s → stmtCore D s = renderG D.main.gap D.main.opGap s → stmtTail D s = D.main.lineEnd →
      PieceOK g (pieceOf D s) := by
    intro s hs h1 h2
    refine ⟨hmain.1.1, ?_, ?_, ?_⟩
    · simp only [pieceOf, h1]; exact render_head _ _ s hs
    · intro rest
      simp only [pieceOf, h1, h2]
      exact rStmt_render hg _ hγ _ (fun i => SLayout.opGap_good hmain.1 i) s hs _ (endsStmt_lineEnd hmain.1 _)
    · intro rest
      simp only [pieceOf, h2]
      exact newlines1_lineEnd hmain.1 rest
  cases s with
  | decay mo lns =>
    obtain ⟨hmo, hlns⟩ := hs
    refine ⟨hmain.1.1, ⟨'D', _, rfl, by decide, by decide⟩, ?_, ?_⟩
    · intro rest
      unfold pieceOf stmtCore stmtTail
      simp only [List.append_assoc]
      rw [rStmt_decay, rLabel_good hg hmo (hγ 0).2 (endsStmt_lineEnd hmain.1 _).1]
      simp only [bind, Except.bind]
      rw [newlines1_lineEnd hmain.1]
      simp only
      obtain ⟨c, t, hct, hc, hlen⟩ := lines_head hclose.1 (D.close.lineEnd ++ rest) D.lines hlines lns hlns
      have hnl : nl (renderLines D.lines lns ++ (D.close.indent ++ ("Enddecay".toList ++ (D.close.lineEnd ++ rest)))) =
          skipWs (renderLines D.lines lns ++ (D.close.indent ++ ("Enddecay".toList ++ (D.close.lineEnd ++ rest)))) := by
        apply nl_stop; rw [hct]; exact takeNewline_nonstop _ _ hc
      rw [hnl, decayBody_skipWs, decayBody_lines ⟨hg, hm, ‹_›, ‹_›⟩ hclose.1 _ lns D.lines _ [] hlines hlns
        (by rw [hct]; simp only [List.length_cons]; omega)]
      rfl
    · intro rest
      exact newlines1_lineEnd hclose rest
  | modelAlias a mo =>
    obtain ⟨ha, hmo⟩ := hs
    refine ⟨hmain.1.1, ⟨'M', _, rfl, by decide, by decide⟩, ?_, ?_⟩
    · intro rest
      unfold pieceOf stmtCore stmtTail
      simp only [List.append_assoc]
      rw [rStmt_modelAlias, rLabel_good hg ha (hγ 0).2 (Stops_gap (hγ 1) _)]
      simp only [bind, Except.bind]
      rw [rModel_render hg hm D.main hmain (hγ 1).2 mo hmo _ (lineEnd_noSemi hmain.1 rest)]
      rfl
    · intro rest
      exact newlines1_lineEnd hmain.1 rest
  | _ => exact flat _ hs rfl rfl


def piecesD : List DLayout → Doc → List Piece
  | _, [] => []
  | ℓ, s :: d => pieceOf (ℓ.headD {}) s :: piecesD ℓ.tail d

theorem piecesD_body (d : Doc) : ∀ ℓ : List DLayout, bodyP (piecesD ℓ d) = renderBodyD ℓ d := by
  induction d with
  | nil => intro ℓ; rfl
  | cons s d ih =>
    intro ℓ
    simp only [piecesD, renderBodyD, bodyP, List.flatMap_cons] at ih ⊢
    rw [ih ℓ.tail]
    rfl

theorem piecesD_stmts (d : Doc) : ∀ ℓ : List DLayout, (piecesD ℓ d).map (·.stmt) = d := by
  induction d with
  | nil => intro ℓ; rfl
  | cons s d ih => intro ℓ; simp only [piecesD, List.map_cons, ih ℓ.tail]; rfl

theorem piecesD_ok {g : RGrammar} (hG : GoodDecayGrammar g) (d : Doc) :
    ∀ ℓ : List DLayout, (∀ D ∈ ℓ, GoodDLayout D) → (∀ s ∈ d, StmtOK g s) → ∀ p ∈ piecesD ℓ d, PieceOK g p := by
  induction d with
  | nil => intro ℓ _ _ p hp; cases hp
  | cons s d ih =>
    intro ℓ hℓ hd p hp
    simp only [piecesD, List.mem_cons] at hp
    rcases hp with rfl | hp
    · apply pieceOf_ok hG _ _ s (hd s List.mem_cons_self)
      cases ℓ with
      | nil => decide
      | cons D t => exact hℓ D List.mem_cons_self
    · exact ih ℓ.tail (fun D h => hℓ D (List.mem_of_mem_tail h)) (fun x hx => hd x (List.mem_cons_of_mem _ hx)) p hp

/-- Stage 4: every layout of a document with flat statements, model aliases and decay blocks reads
    back to the statements -/
theorem read_layout_decay (g : RGrammar) (hG : GoodDecayGrammar g) (ℓ : DocLayoutD) (hℓ : GoodLayoutD ℓ)
    (d : Doc) (hd : ∀ s ∈ d, StmtOK g s) :
    readDoc g (String.ofList (renderD ℓ d)) = .ok d := by
  unfold renderD
  have hZ : TrailerOK g (trailerText ℓ.endLine) := by
    cases hE : ℓ.endLine with
    | none => exact trailer_nil g
    | some E => exact trailer_end g E (hℓ.2.2 E hE)
  rw [← piecesD_body d ℓ.stmts, readDoc_pieces ℓ.pre hℓ.1 _ (piecesD_ok hG d ℓ.stmts hℓ.2.1 hd) _ hZ, piecesD_stmts]

/-- layout never changes what is read (C02), for all statement kinds -/
theorem read_layout_decay_irrelevant (g : RGrammar) (hG : GoodDecayGrammar g) (ℓ₁ ℓ₂ : DocLayoutD)
    (h₁ : GoodLayoutD ℓ₁) (h₂ : GoodLayoutD ℓ₂) (d : Doc) (hd : ∀ s ∈ d, StmtOK g s) :
    readDoc g (String.ofList (renderD ℓ₁ d)) = readDoc g (String.ofList (renderD ℓ₂ d)) := by
  rw [read_layout_decay g hG ℓ₁ h₁ d hd, read_layout_decay g hG ℓ₂ h₂ d hd]

end ReadRT
end DL
