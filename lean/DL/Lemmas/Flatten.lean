/-
Loop invariant of `DecayChain.flatten`.  Uses Mathlib's list products over a commutative monoid.
-/
import Mathlib.Algebra.BigOperators.Group.List.Basic
import DL.Model.Flatten
import DL.Lemmas.Sort
namespace DL

variable {α : Type} [CommMonoid α]

theorem mpow_eq_pow (a : α) (n : Nat) : mpow a n = a ^ n := by
  induction n with
  | zero => simp [mpow]
  | succ n ih => simp [mpow, ih, pow_succ]

/-- an unfolding of the dictionary `decays` restricted to `keys`: `lv` gives the leaves below a
    name, `tb` the product of all branching fractions in the tree below it -/
structure IsUnfold (decays : List (String × FMode α)) (keys : List String)
    (lv : String → List String) (tb : String → α) : Prop where
  dec : ∀ k ∈ keys, ∃ md, dget decays k = some md ∧ (lv k).Perm (md.ds.flatMap lv) ∧
      tb k = md.bf * (md.ds.map tb).prod
  leaf : ∀ n, n ∉ keys → lv n = [n] ∧ tb n = 1

/-- the loop invariant: what the current final state still stands for -/
def FInv (lv : String → List String) (tb : String → α) (L : List String) (B : α) (st : FSt α) : Prop :=
  (st.2.flatMap lv).Perm L ∧ st.1 * (st.2.map tb).prod = B

theorem split_count (k : String) (fs : List String) :
    fs.Perm (List.replicate (fs.count k) k ++ fs.filter (· != k)) := by
  have h := (List.filter_append_perm (fun x => x == k) fs).symm
  rw [List.filter_beq] at h
  simpa [bne] using h

theorem fstep_inv {decays : List (String × FMode α)} {keys : List String}
    {lv : String → List String} {tb : String → α} (hU : IsUnfold decays keys lv tb)
    {L : List String} {B : α} {st : FSt α} (h : FInv lv tb L B st) {k : String} (hk : k ∈ keys) :
    FInv lv tb L B (fstep decays st k) := by
  obtain ⟨md, hget, hlv, htb⟩ := hU.dec k hk
  obtain ⟨bf, fs⟩ := st
  obtain ⟨h1, h2⟩ := h
  simp only [fstep, hget]
  have hsplit := split_count k fs
  constructor
  · -- leaves
    simp only [List.flatMap_append]
    refine List.Perm.trans ?_ h1
    have e1 : (List.flatMap lv fs).Perm (List.flatMap lv (List.replicate (fs.count k) k) ++ List.flatMap lv (fs.filter (· != k))) := by
      rw [← List.flatMap_append]; exact List.Perm.flatMap_right lv hsplit
    refine List.Perm.trans ?_ e1.symm
    refine List.Perm.trans List.perm_append_comm ?_
    refine List.Perm.append_right _ ?_
    -- the n copies of the daughters unfold to n copies of lv k
    generalize fs.count k = n
    induction n with
    | zero => simp
    | succ n ih =>
      simp only [List.replicate_succ, List.flatten_cons, List.flatMap_append, List.flatMap_cons]
      exact List.Perm.append hlv.symm ih
  · -- branching fractions
    simp only
    rw [← h2, (List.Perm.map tb hsplit).prod_eq]
    simp only [List.map_append, List.prod_append, List.map_replicate, List.prod_replicate,
      List.map_flatten, List.prod_flatten, mpow_eq_pow, htb]
    generalize (List.map tb (fs.filter (· != k))).prod = R
    generalize (List.map tb md.ds).prod = D
    rw [mul_pow]
    -- bf * md.bf^n * (R * D^n) = bf * (md.bf^n * D^n * R)
    rw [mul_assoc, mul_assoc]
    congr 1
    rw [mul_comm R]

theorem fpass_inv {decays : List (String × FMode α)} {keys : List String}
    {lv : String → List String} {tb : String → α} (hU : IsUnfold decays keys lv tb)
    {L : List String} {B : α} (ks : List String) (hks : ∀ k ∈ ks, k ∈ keys) {st : FSt α}
    (h : FInv lv tb L B st) : FInv lv tb L B (fpass decays ks st) := by
  induction ks generalizing st with
  | nil => simpa [fpass] using h
  | cons k r ih =>
    simp only [fpass, List.foldl_cons]
    exact ih (fun k' hk' => hks k' (List.mem_cons_of_mem _ hk')) (fstep_inv hU h (hks k (List.mem_cons_self)))

theorem floop_inv {decays : List (String × FMode α)} {keys : List String}
    {lv : String → List String} {tb : String → α} (hU : IsUnfold decays keys lv tb)
    {L : List String} {B : α} (fuel : Nat) {st res : FSt α} (h : FInv lv tb L B st)
    (hr : floop decays keys fuel st = some res) :
    FInv lv tb L B res ∧ ∀ k ∈ keys, res.2.count k = 0 := by
  induction fuel generalizing st with
  | zero => simp [floop] at hr
  | succ f ih =>
    simp only [floop] at hr
    have hp := fpass_inv hU keys (fun _ h => h) h
    split at hr
    · exact ih hp hr
    · rename_i hany
      simp only [Option.some.injEq] at hr
      subst hr
      refine ⟨hp, ?_⟩
      intro k hk
      simp only [List.any_eq_true, not_exists, not_and] at hany
      have := hany k hk
      rw [List.count_eq_zero]
      simpa using this

/-- when no key is left in the final state, the invariant pins the result down -/
theorem finv_done {keys : List String} {lv : String → List String} {tb : String → α}
    (hleaf : ∀ n, n ∉ keys → lv n = [n] ∧ tb n = 1)
    {L : List String} {B : α} {res : FSt α} (h : FInv lv tb L B res)
    (hz : ∀ k ∈ keys, res.2.count k = 0) : res.2.Perm L ∧ res.1 = B := by
  obtain ⟨bf, fs⟩ := res
  obtain ⟨h1, h2⟩ := h
  have hnot : ∀ p ∈ fs, p ∉ keys := by
    intro p hp hk
    have := hz p hk
    rw [List.count_eq_zero] at this
    exact this hp
  have e1 : fs.flatMap lv = fs := by
    clear h1 h2 hz
    induction fs with
    | nil => rfl
    | cons p r ih =>
      simp only [List.flatMap_cons, (hleaf p (hnot p (List.mem_cons_self))).1]
      rw [ih (fun q hq => hnot q (List.mem_cons_of_mem _ hq))]
      rfl
  have e2 : (fs.map tb).prod = 1 := by
    clear h1 h2 hz e1
    induction fs with
    | nil => simp
    | cons p r ih =>
      simp only [List.map_cons, List.prod_cons, (hleaf p (hnot p (List.mem_cons_self))).2, one_mul]
      exact ih (fun q hq => hnot q (List.mem_cons_of_mem _ hq))
  simp only at h1 h2
  rw [e1] at h1
  rw [e2, mul_one] at h2
  exact ⟨h1, h2⟩

end DL
