/-
`%.7g` on an exact rational: rounding to seven significant digits is monotone.  The number denoted by the text shown for `x`
(`shownVal x = n · 10^(e-6)` with `(n, e) = sig7 x`, which `renderSig7_value` proves to be what the text reads back as) does not
decrease when `x` grows: rows printed in the order of their stored values are in the order of their shown values.
-/
import Mathlib.Tactic
import DL.Lemmas.FmtG7
namespace DL

/-- round-half-even is monotone -/
theorem roundHalfEven_mono (x y : ℚ) (hx : 0 ≤ x) (hxy : x ≤ y) : roundHalfEven x ≤ roundHalfEven y := by
  have hy : 0 ≤ y := le_trans hx hxy
  have h1 := roundHalfEven_spec x hx
  have h2 := roundHalfEven_spec y hy
  rw [abs_le] at h1 h2
  by_contra hc
  rw [not_le] at hc
  have h3 : (roundHalfEven y : ℚ) + 1 ≤ (roundHalfEven x : ℚ) := by exact_mod_cast hc
  have hxy' : x = y := by linarith
  subst hxy'
  exact lt_irrefl _ hc

/-- the decimal exponent is monotone -/
theorem floorLog10_mono (x y : ℚ) (hx : 0 < x) (hxy : x ≤ y) : floorLog10 x ≤ floorLog10 y := by
  obtain ⟨hlo, _⟩ := floorLog10_spec x hx
  obtain ⟨_, hhi⟩ := floorLog10_spec y (lt_of_lt_of_le hx hxy)
  have h : (10 : ℚ) ^ floorLog10 x < (10 : ℚ) ^ (floorLog10 y + 1) := lt_of_le_of_lt (le_trans hlo hxy) hhi
  have := (zpow_lt_zpow_iff_right₀ (by norm_num : (1 : ℚ) < 10)).1 h
  omega

/-- the number the seven digits and the exponent denote -/
def shownVal (x : ℚ) : ℚ := ((sig7 x).1 : ℚ) * (10 : ℚ) ^ ((sig7 x).2 - 6)

/-- it is the rounded scaled value at the decimal exponent of `x` (the carry to the next decade changes the spelling, not the
    number) -/
theorem shownVal_eq (x : ℚ) (hx : 0 < x) :
    shownVal x = (roundHalfEven (x * (10 : ℚ) ^ (6 - floorLog10 x)) : ℚ) * (10 : ℚ) ^ (floorLog10 x - 6) ∧
    10 ^ 6 ≤ roundHalfEven (x * (10 : ℚ) ^ (6 - floorLog10 x)) ∧ roundHalfEven (x * (10 : ℚ) ^ (6 - floorLog10 x)) ≤ 10 ^ 7 := by
  obtain ⟨hlo, hhi⟩ := floorLog10_spec x hx
  set e := floorLog10 x with he
  have h10 : (10 : ℚ) ≠ 0 := by norm_num
  set scaled := x * (10 : ℚ) ^ (6 - e) with hsc
  have hp : (0 : ℚ) < (10 : ℚ) ^ (6 - e) := ten_zpow_pos _
  have hs_lo : ((10 ^ 6 : ℕ) : ℚ) ≤ scaled := by
    have : (10 : ℚ) ^ e * (10 : ℚ) ^ (6 - e) = (10 : ℚ) ^ (6 : ℤ) := by
      rw [← zpow_add₀ h10]; congr 1; ring
    have h6 : (10 : ℚ) ^ (6 : ℤ) = ((10 ^ 6 : ℕ) : ℚ) := by norm_num
    rw [← h6, ← this, hsc]
    exact mul_le_mul_of_nonneg_right hlo hp.le
  have hs_hi : scaled < ((10 ^ 7 : ℕ) : ℚ) := by
    have : (10 : ℚ) ^ (e + 1) * (10 : ℚ) ^ (6 - e) = (10 : ℚ) ^ (7 : ℤ) := by
      rw [← zpow_add₀ h10]; congr 1; ring
    have h7 : (10 : ℚ) ^ (7 : ℤ) = ((10 ^ 7 : ℕ) : ℚ) := by norm_num
    rw [← h7, ← this, hsc]
    exact mul_lt_mul_of_pos_right hhi hp
  have hs0 : 0 ≤ scaled := le_trans (by positivity) hs_lo
  obtain ⟨hn_lo, hn_hi⟩ := roundHalfEven_bounds scaled hs0 (10 ^ 6) (10 ^ 7) hs_lo hs_hi
  refine ⟨?_, hn_lo, hn_hi⟩
  unfold shownVal
  rw [sig7_eq]
  simp only
  rw [← he, ← hsc]
  set n0 := roundHalfEven scaled with hn0
  split
  · rename_i hge
    have hn0eq : n0 = 10 ^ 7 := le_antisymm hn_hi (by simpa using hge)
    rw [hn0eq]
    have : (e + 1 - 6 : ℤ) = (e - 6) + 1 := by ring
    simp only
    rw [this, zpow_add₀ h10]; norm_num; ring
  · rfl

/-- rounding to seven significant digits is monotone -/
theorem shownVal_mono (x y : ℚ) (hx : 0 < x) (hxy : x ≤ y) : shownVal x ≤ shownVal y := by
  have hy : 0 < y := lt_of_lt_of_le hx hxy
  obtain ⟨ex, hxlo, hxhi⟩ := shownVal_eq x hx
  obtain ⟨ey, hylo, hyhi⟩ := shownVal_eq y hy
  have hmono := floorLog10_mono x y hx hxy
  have h10 : (10 : ℚ) ≠ 0 := by norm_num
  rw [ex, ey]
  rcases eq_or_lt_of_le hmono with heq | hlt
  · -- same decade: the rounded integers are ordered
    rw [← heq]
    have hp : (0 : ℚ) < (10 : ℚ) ^ (6 - floorLog10 x) := ten_zpow_pos _
    have hsc : x * (10 : ℚ) ^ (6 - floorLog10 x) ≤ y * (10 : ℚ) ^ (6 - floorLog10 x) :=
      mul_le_mul_of_nonneg_right hxy hp.le
    have hr := roundHalfEven_mono _ _ (mul_nonneg hx.le hp.le) hsc
    have hrq : (roundHalfEven (x * (10 : ℚ) ^ (6 - floorLog10 x)) : ℚ) ≤ (roundHalfEven (y * (10 : ℚ) ^ (6 - floorLog10 x)) : ℚ) := by
      exact_mod_cast hr
    exact mul_le_mul_of_nonneg_right hrq (ten_zpow_pos _).le
  · -- different decades: at most 10^(ex+1) on the left, at least 10^ey on the right
    have hl : (roundHalfEven (x * (10 : ℚ) ^ (6 - floorLog10 x)) : ℚ) * (10 : ℚ) ^ (floorLog10 x - 6) ≤ (10 : ℚ) ^ (floorLog10 x + 1) := by
      have hc : (roundHalfEven (x * (10 : ℚ) ^ (6 - floorLog10 x)) : ℚ) ≤ ((10 ^ 7 : ℕ) : ℚ) := by exact_mod_cast hxhi
      have : ((10 ^ 7 : ℕ) : ℚ) * (10 : ℚ) ^ (floorLog10 x - 6) = (10 : ℚ) ^ (floorLog10 x + 1) := by
        have h7 : ((10 ^ 7 : ℕ) : ℚ) = (10 : ℚ) ^ (7 : ℤ) := by norm_num
        rw [h7, ← zpow_add₀ h10]; congr 1; ring
      rw [← this]
      exact mul_le_mul_of_nonneg_right hc (ten_zpow_pos _).le
    have hr : (10 : ℚ) ^ floorLog10 y ≤ (roundHalfEven (y * (10 : ℚ) ^ (6 - floorLog10 y)) : ℚ) * (10 : ℚ) ^ (floorLog10 y - 6) := by
      have hc : ((10 ^ 6 : ℕ) : ℚ) ≤ (roundHalfEven (y * (10 : ℚ) ^ (6 - floorLog10 y)) : ℚ) := by exact_mod_cast hylo
      have : ((10 ^ 6 : ℕ) : ℚ) * (10 : ℚ) ^ (floorLog10 y - 6) = (10 : ℚ) ^ floorLog10 y := by
        have h6 : ((10 ^ 6 : ℕ) : ℚ) = (10 : ℚ) ^ (6 : ℤ) := by norm_num
        rw [h6, ← zpow_add₀ h10]; congr 1; ring
      rw [← this]
      exact mul_le_mul_of_nonneg_right hc (ten_zpow_pos _).le
    have hm : (10 : ℚ) ^ (floorLog10 x + 1) ≤ (10 : ℚ) ^ floorLog10 y :=
      zpow_le_zpow_right₀ (by norm_num) (by omega)
    exact le_trans hl (le_trans hm hr)

end DL
