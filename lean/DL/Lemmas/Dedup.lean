/-
`_check_parsed_decays` (dec.py): the backwards loop with a to-remove list keeps exactly the first
Decay block of every mother.  Core Lean only.
-/
import DL.Model.DecSem
namespace DL

variable {V : Type}

theorem count_eraseDups (l : List String) (x : String) :
    l.eraseDups.count x = if x ∈ l then 1 else 0 := by
  generalize hn : l.length = n
  induction n using Nat.strongRecOn generalizing l with
  | _ n ih =>
    cases l with
    | nil => simp
    | cons a as =>
      rw [List.eraseDups_cons]
      have hlen : (as.filter (fun b => !b == a)).length < n := by
        subst hn
        exact Nat.lt_of_le_of_lt (List.length_filter_le _ _) (by simp)
      have h := ih _ hlen (as.filter (fun b => !b == a)) rfl
      by_cases hxa : a = x
      · subst hxa
        have hnot : ¬ a ∈ as.filter (fun b => !b == a) := by simp [List.mem_filter]
        simp [h, hnot]
      · have hbeq : (a == x) = false := by simpa using hxa
        rw [List.count_cons, h]
        have : (x ∈ as.filter (fun b => !b == a)) ↔ x ∈ as := by
          simp only [List.mem_filter, Bool.not_eq_true', beq_eq_false_iff_ne, ne_eq, and_iff_left_iff_imp]
          intro _ e; exact hxa e.symm
        simp [hbeq, this, List.mem_cons, Ne.symm hxa]

/-- the to-remove list of the loop: every repeated name, one copy less than it occurs -/
def toRemove (names : List String) : List String :=
  (names.eraseDups.filter (fun n => names.count n > 1)).flatMap (fun n => List.replicate (names.count n - 1) n)

theorem sum_map_ite_eq (D : List String) (x : String) (c : Nat) :
    (D.map (fun n => if n = x then c else 0)).sum = D.count x * c := by
  induction D with
  | nil => simp
  | cons a r ih =>
    by_cases h : a = x
    · subst h
      simp only [List.map_cons, List.sum_cons, if_true, ih, List.count_cons, beq_self_eq_true]
      rw [Nat.add_mul, Nat.one_mul, Nat.add_comm]
    · have hb : (a == x) = false := by simpa using h
      simp only [List.map_cons, List.sum_cons, h, if_false, ih, List.count_cons, hb, Nat.zero_add]
      simp

theorem count_toRemove (names : List String) (x : String) :
    (toRemove names).count x = names.count x - 1 := by
  unfold toRemove
  rw [List.count_flatMap]
  have hf : (List.count x ∘ fun n => List.replicate (names.count n - 1) n) =
      fun n => if n = x then names.count x - 1 else 0 := by
    funext n
    simp only [Function.comp, List.count_replicate]
    by_cases h : n = x
    · subst h; simp
    · have hb : (n == x) = false := by simpa using h
      simp [hb, h]
  rw [hf, sum_map_ite_eq]
  by_cases hx : names.count x > 1
  · have hmem : x ∈ names := List.count_pos_iff.mp (by omega)
    rw [List.count_filter (by simpa using hx), count_eraseDups]
    simp [hmem]
  · have : names.count x - 1 = 0 := by omega
    rw [this, Nat.mul_zero]

/-- one step of the backwards loop -/
def dstep (st : List (String × V) × List String) (kv : String × V) : List (String × V) × List String :=
  if st.2.contains kv.1 then (st.1, st.2.erase kv.1) else (kv :: st.1, st.2)

/-- which elements survive, read from the left: an element is kept when at least as many
    elements of its name follow it as there are copies of the name to remove -/
def keepL (R : List String) : List (String × V) → List (String × V)
  | [] => []
  | (k, v) :: r => if R.count k ≤ (r.map (·.1)).count k then (k, v) :: keepL R r else keepL R r

theorem foldr_dstep (R : List String) (r : List (String × V)) :
    (r.foldr (fun kv st => dstep st kv) (([], R) : List (String × V) × List String)).1 = keepL R r ∧
    ∀ n, (r.foldr (fun kv st => dstep st kv) (([], R) : List (String × V) × List String)).2.count n
      = R.count n - min (R.count n) ((r.map (·.1)).count n) := by
  induction r with
  | nil => simp [keepL]
  | cons kv r ih =>
    obtain ⟨k, v⟩ := kv
    obtain ⟨ih1, ih2⟩ := ih
    simp only [List.foldr_cons]
    generalize hst : r.foldr (fun kv st => dstep st kv) (([], R) : List (String × V) × List String) = st at ih1 ih2
    obtain ⟨kept, R'⟩ := st
    simp only at ih1 ih2
    simp only [dstep]
    have hk := ih2 k
    by_cases hc : R'.contains k = true
    · have hpos : 0 < R'.count k := List.count_pos_iff.mpr (List.contains_iff_mem.mp hc)
      have hlt : ¬ R.count k ≤ (r.map (·.1)).count k := by omega
      simp only [hc, if_true, keepL, List.map_cons, hlt, if_false]
      refine ⟨ih1, ?_⟩
      intro n
      by_cases hn : k = n
      · subst hn
        rw [List.count_erase_self, hk]
        simp only [List.count_cons, beq_self_eq_true, if_true]
        omega
      · rw [List.count_erase_of_ne (Ne.symm hn), ih2 n]
        have : (k == n) = false := by simpa using hn
        simp [List.count_cons, this]
    · have hzero : R'.count k = 0 := by
        rcases Nat.eq_zero_or_pos (R'.count k) with h | h
        · exact h
        · exact absurd (List.contains_iff_mem.mpr (List.count_pos_iff.mp h)) hc
      have hle : R.count k ≤ (r.map (·.1)).count k := by omega
      simp only [hc, if_false, keepL, List.map_cons, hle, if_true, Bool.false_eq_true]
      refine ⟨by rw [ih1], ?_⟩
      intro n
      by_cases hn : k = n
      · subst hn
        rw [hk]
        simp only [List.count_cons, beq_self_eq_true, if_true]
        omega
      · rw [ih2 n]
        have : (k == n) = false := by simpa using hn
        simp [List.count_cons, this]

/-- `dedupKeepFirst.go` with an arbitrary set of names already seen -/
theorem keepL_eq_go (names : List String) (P r : List (String × V))
    (hl : names = (P ++ r).map (·.1)) :
    keepL (toRemove names) r = dedupKeepFirst.go (P.map (·.1)).reverse r := by
  induction r generalizing P with
  | nil => simp [keepL, dedupKeepFirst.go]
  | cons kv r ih =>
    obtain ⟨k, v⟩ := kv
    have hcount : names.count k = (P.map (·.1)).count k + 1 + (r.map (·.1)).count k := by
      rw [hl]; simp [List.count_append, List.count_cons]; omega
    have hnext := ih (P ++ [(k, v)]) (by rw [hl]; simp)
    simp only [keepL, dedupKeepFirst.go, count_toRemove]
    by_cases hseen : (P.map (·.1)).reverse.contains k = true
    · have hpos : 0 < (P.map (·.1)).count k := by
        apply List.count_pos_iff.mpr
        have := List.contains_iff_mem.mp hseen
        simpa using this
      have : ¬ names.count k - 1 ≤ (r.map (·.1)).count k := by omega
      simp only [this, if_false, hseen, if_true]
      rw [hnext]
      -- the seen list only grows by a name that is already in it: same answers
      exact go_congr _ _ r (by
        intro x
        simp only [List.map_append, List.map_cons, List.map_nil, List.reverse_append, List.reverse_cons, List.reverse_nil,
          List.nil_append, List.cons_append, List.contains_cons]
        by_cases hx : x = k
        · subst hx
          have hs : (List.map (fun x => x.1) P).reverse.contains x = true := hseen
          simp only [beq_self_eq_true, Bool.true_or]
          exact hs.symm
        · have : (x == k) = false := by simpa using hx
          simp [this])
    · have hzero : (P.map (·.1)).count k = 0 := by
        rcases Nat.eq_zero_or_pos ((P.map (·.1)).count k) with h | h
        · exact h
        · exfalso; apply hseen
          apply List.contains_iff_mem.mpr
          have := List.count_pos_iff.mp h
          simpa using this
      have : names.count k - 1 ≤ (r.map (·.1)).count k := by omega
      simp only [this, if_true, hseen, if_false, Bool.false_eq_true]
      rw [hnext]
      congr 1
      exact go_congr _ _ r (by
        intro x
        simp [List.contains_cons, Bool.or_comm])
where
  go_congr (s₁ s₂ : List String) (r : List (String × V)) (h : ∀ x, s₁.contains x = s₂.contains x) :
      dedupKeepFirst.go s₁ r = dedupKeepFirst.go s₂ r := by
    induction r generalizing s₁ s₂ with
    | nil => simp [dedupKeepFirst.go]
    | cons kv r ih =>
      obtain ⟨k, v⟩ := kv
      simp only [dedupKeepFirst.go, h k]
      split
      · exact ih s₁ s₂ h
      · congr 1
        exact ih _ _ (by
          intro x
          have := h x
          simp only [List.contains_cons]
          rw [this])

/-- the de-duplication loop of `_check_parsed_decays` keeps exactly the first block of each mother -/
theorem dedupLoop_eq (l : List (String × V)) : dedupLoop l = dedupKeepFirst l := by
  have h := (foldr_dstep (toRemove (l.map (·.1))) l).1
  have h2 := keepL_eq_go (l.map (·.1)) [] l rfl
  simp only [List.map_nil, List.reverse_nil] at h2
  unfold dedupKeepFirst
  rw [← h2, ← h]
  unfold dedupLoop
  simp only [List.foldl_reverse]
  rfl

end DL
