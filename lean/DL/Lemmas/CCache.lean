/-
The growing dictionary of the `ChargeConjugateReplacement` visitor never changes an answer:
`defs[p] = find_charge_conjugate_match(p, defs)` leaves `find_charge_conjugate_match(q, defs)`
unchanged for every other name `q` (that is not the wrapped form `ChargeConj(p)`), provided the
database conjugation is an involution on the names it knows.  Core Lean only; does not import the
regenerated table.
-/
import DL.Lemmas.Dict
import DL.Lemmas.Sort
namespace DL

theorem dget_eq_none_iff {V : Type} (d : List (String × V)) (k : String) :
    dget d k = none ↔ k ∉ dkeys d := by
  induction d with
  | nil => simp [dget, dkeys]
  | cons p r ih =>
    obtain ⟨k', v'⟩ := p
    by_cases h : k' = k
    · simp [dget, dkeys, h]
    · have h' : ¬ k = k' := fun e => h e.symm
      simp only [dget, h, if_false, ih, dkeys, List.map_cons, List.mem_cons, h', false_or]

/-- writing back the value a key already has changes nothing -/
theorem dset_of_dget {V : Type} (d : List (String × V)) (k : String) (v : V)
    (h : dget d k = some v) : dset d k v = d := by
  induction d with
  | nil => simp [dget] at h
  | cons p r ih =>
    obtain ⟨k', v'⟩ := p
    by_cases hk : k' = k
    · subst hk
      simp only [dget, if_true, Option.some.injEq] at h
      subst h
      simp [dset]
    · simp only [dget, hk, if_false] at h
      simp only [dset, hk, if_false, ih h]

/-- the first key whose value is `p` is a key -/
theorem find_value_key (defs : List (String × String)) (p k v : String)
    (h : defs.find? (·.2 == p) = some (k, v)) : k ∈ dkeys defs := by
  have hm := List.mem_of_find?_eq_some h
  simp only [dkeys, List.mem_map]
  exact ⟨(k, v), hm, rfl⟩

theorem matchCC_of_get (db : DB) (defs : List (String × String)) (p m : String)
    (h : dget defs p = some m) : matchCC db defs p = m := by
  simp [matchCC, h]

theorem matchCC_of_find (db : DB) (defs : List (String × String)) (p k v : String)
    (h : dget defs p = none) (hf : defs.find? (·.2 == p) = some (k, v)) : matchCC db defs p = k := by
  simp [matchCC, h, hf]

theorem matchCC_of_db (db : DB) (defs : List (String × String)) (p : String)
    (h : dget defs p = none) (hf : defs.find? (·.2 == p) = none) :
    matchCC db defs p = db.conjName p := by
  simp [matchCC, h, hf]

/-- Key lemma: recording the answer for `p` in the dictionary does not change the answer for `q` -/
theorem matchCC_dset_cache (db : DB)
    (hinv : ∀ n, db.conjName n ≠ wrapUnknown n → db.conjName (db.conjName n) = n)
    (defs : List (String × String)) (p q : String) (hq : q ≠ wrapUnknown p) :
    matchCC db (dset defs p (matchCC db defs p)) q = matchCC db defs q := by
  cases hp : dget defs p with
  | some m =>
    -- `p` is a key: the same value is written back in place
    rw [matchCC_of_get db defs p m hp, dset_of_dget defs p m hp]
  | none =>
    have hpk : p ∉ dkeys defs := (dget_eq_none_iff defs p).mp hp
    generalize hc : matchCC db defs p = c
    rw [dset_of_not_mem defs p _ hpk]
    by_cases hqp : q = p
    · -- the new entry answers for `p` itself with the recorded value
      subst hqp
      have h1 : dget (defs ++ [(q, c)]) q = some c := by
        rw [← dset_of_not_mem defs q _ hpk]; exact dget_dset_same _ _ _
      rw [matchCC_of_get db _ q c h1, hc]
    · have hpq : p ≠ q := fun e => hqp e.symm
      have h1 : dget (defs ++ [(p, c)]) q = dget defs q := by
        rw [← dset_of_not_mem defs p _ hpk]; exact dget_dset_other _ _ _ _ hpq
      cases hgq : dget defs q with
      | some m =>
        rw [hgq] at h1
        rw [matchCC_of_get db _ q m h1, matchCC_of_get db _ q m hgq]
      | none =>
        rw [hgq] at h1
        have hqk : q ∉ dkeys defs := (dget_eq_none_iff defs q).mp hgq
        cases hf : defs.find? (·.2 == q) with
        | some kv =>
          obtain ⟨k, v⟩ := kv
          have hf' : (defs ++ [(p, c)]).find? (·.2 == q) = some (k, v) := by
            rw [List.find?_append, hf]; rfl
          rw [matchCC_of_find db _ q k v h1 hf', matchCC_of_find db _ q k v hgq hf]
        | none =>
          rw [matchCC_of_db db defs q hgq hf]
          by_cases hcq : c = q
          · -- the appended entry is hit by the reverse look-up of `q`
            have hf' : (defs ++ [(p, c)]).find? (·.2 == q) = some (p, c) := by
              rw [List.find?_append, hf]
              simp [hcq]
            rw [matchCC_of_find db _ q p c h1 hf']
            -- where did `q = matchCC db defs p` come from?
            cases hfp : defs.find? (·.2 == p) with
            | some kv =>
              obtain ⟨k, v⟩ := kv
              rw [matchCC_of_find db defs p k v hp hfp] at hc
              rw [← hcq, ← hc] at hqk
              exact absurd (find_value_key defs p k v hfp) hqk
            | none =>
              rw [matchCC_of_db db defs p hp hfp] at hc
              have hne : db.conjName p ≠ wrapUnknown p := by rw [hc, hcq]; exact hq
              rw [← hcq, ← hc, hinv p hne]
          · have hf' : (defs ++ [(p, c)]).find? (·.2 == q) = none := by
              rw [List.find?_append, hf]
              simp [hcq]
            rw [matchCC_of_db db _ q h1 hf']

/-- the visitor with its cache gives exactly what conjugating every name independently with the
    original ChargeConj dictionary gives -/
theorem visitNames_eq_map (db : DB)
    (hinv : ∀ n, db.conjName n ≠ wrapUnknown n → db.conjName (db.conjName n) = n) :
    ∀ (defs : List (String × String)) (ns : List String),
      (∀ p ∈ ns, ∀ q ∈ ns, q ≠ wrapUnknown p) →
      (visitNames db defs ns).1 = ns.map (matchCC db defs)
  | _, [], _ => rfl
  | defs, p :: r, hwrap => by
    have ih := visitNames_eq_map db hinv (dset defs p (matchCC db defs p)) r
      (fun a ha b hb => hwrap a (List.mem_cons_of_mem _ ha) b (List.mem_cons_of_mem _ hb))
    simp only [visitNames, List.map_cons, ih]
    congr 1
    apply List.map_congr_left
    intro q hqr
    exact matchCC_dset_cache db hinv defs p q
      (hwrap p List.mem_cons_self q (List.mem_cons_of_mem _ hqr))

/-- rebuilding the lines from the mapped daughters (followed by anything) maps every line -/
theorem rebuildLines_map_append (f : String → String) : ∀ (ls : List Line) (extra : List String),
    rebuildLines ls ((ls.flatMap (·.ds)).map f ++ extra) =
      ls.map (fun ln => { ln with ds := ln.ds.map f })
  | [], _ => rfl
  | ln :: r, extra => by
    simp only [rebuildLines, List.flatMap_cons, List.map_append, List.append_assoc, List.map_cons]
    have h1 : List.take ln.ds.length (ln.ds.map f ++ ((r.flatMap (·.ds)).map f ++ extra)) =
        ln.ds.map f := by
      rw [List.take_append_of_le_length (by simp)]
      rw [List.take_of_length_le (by simp)]
    have h2 : List.drop ln.ds.length (ln.ds.map f ++ ((r.flatMap (·.ds)).map f ++ extra)) =
        (r.flatMap (·.ds)).map f ++ extra := by
      rw [List.drop_append_of_le_length (by simp)]
      rw [List.drop_of_length_le (by simp)]
      rfl
    rw [h1, h2, rebuildLines_map_append f r extra]

theorem rebuildLines_map (f : String → String) (ls : List Line) :
    rebuildLines ls ((ls.flatMap (·.ds)).map f) =
      ls.map (fun ln => { ln with ds := ln.ds.map f }) := by
  have h := rebuildLines_map_append f ls []
  simpa using h

end DL
