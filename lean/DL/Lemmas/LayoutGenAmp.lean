/-
A seeded generator of layouts (`Amp.RT.AmpLayout`) for the correspondence check of the AmpGen
options reader round trip (`C17_read_layout`): the driver renders a statement list under the layout
drawn from a seed and reports whether the hypotheses of the theorem hold; the harness gives the very
same text to the real parser.  Executable; no theorems here.
-/
import DL.Lemmas.AmpRT
import DL.Lemmas.LayoutGen
namespace DL
namespace LayoutGenAmp
open Amp Amp.RT LayoutGen

def bline : G Amp.RT.BLine := do
  let ind ← blanks 0 2
  let c ← comment
  let crlf ← chance 1 4
  pure { ind := ind, comment := c, crlf := crlf }

def treeGap : G ((List Nat × Nat) × List Char) := do
  let n ← below 4
  let path ← listOf n (below 2)
  let pos ← below 10
  let b ← blanks 0 2
  pure ((path, pos), b)

def slayout : G Amp.RT.SLayout := do
  let plain ← chance 1 3
  if plain then pure {} else
  let indent ← blanks 0 3
  let ng ← below 9
  let gaps ← listOf ng (blanks 1 3)
  let no ← below 5
  let opGaps ← listOf no (blanks 0 2)
  let nt ← below 7
  let treeGaps ← listOf nt treeGap
  let trail ← blanks 0 2
  let c ← comment
  let crlf ← chance 1 4
  let nf ← below 3
  let follow ← listOf nf bline
  pure { indent := indent, gaps := gaps, opGaps := opGaps, treeGaps := treeGaps, trail := trail, comment := c, crlf := crlf, follow := follow }

def commentBody : G (List Char) := do
  let c ← comment
  pure (c.getD [])

def fin : G FinC := do
  let k ← below 6
  if k == 0 then do
    let ind ← blanks 0 2
    let b ← commentBody
    pure (.ownLine ind b)
  else if k == 1 then do
    let tr ← blanks 0 2
    let b ← commentBody
    pure (.sameLine tr b)
  else pure .none

def layout (n : Nat) : G AmpLayout := do
  let np ← below 3
  let pre ← listOf np bline
  let lines ← listOf n slayout
  let f ← fin
  pure { pre := pre, lines := lines, fin := f }

def layoutOf (seed : Nat) (d : List AStmtT) : AmpLayout := (layout d.length |>.run seed).1

/-- the text of `d` under the layout of `seed`, and whether the hypotheses of `C17_read_layout` hold -/
def renderSeeded (seed : Nat) (d : List AStmtT) : String × Bool × Bool :=
  let ℓ := layoutOf seed d
  (String.ofList (renderAmp ℓ d), decide (GoodAmpLayout ℓ), decide (d ≠ [] ∧ ∀ s ∈ d, AStmtOK s))

end LayoutGenAmp
end DL
