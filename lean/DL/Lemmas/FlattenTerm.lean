/-
Termination of the `flatten` loop for acyclic chains: every pass lowers the largest rank of a
decaying particle still present, so `rank bound + 1` passes suffice.  Core Lean only.
-/
import DL.Model.Flatten
namespace DL

variable {α : Type} [Mul α] [One α]

/-- acyclicity witnessed by a rank function: daughters that decay have a smaller rank -/
def Acyclic (decays : List (String × FMode α)) (keys : List String) (rank : String → Nat) : Prop :=
  ∀ k ∈ keys, ∀ md, dget decays k = some md → ∀ d ∈ md.ds, d ∈ keys → rank d < rank k

/-- every decaying particle in the final state has rank below `B` -/
def Bound (keys : List String) (rank : String → Nat) (B : Nat) (fs : List String) : Prop :=
  ∀ x ∈ fs, x ∈ keys → rank x < B

/-- during a pass: particles of the top rank `B` can only be ones still to be processed -/
def PassInv (keys : List String) (rank : String → Nat) (B : Nat) (todo : List String) (fs : List String) : Prop :=
  ∀ x ∈ fs, x ∈ keys → rank x < B ∨ (rank x = B ∧ x ∈ todo)

theorem mem_flatten_replicate {β : Type} (n : Nat) (l : List β) (x : β) (h : x ∈ (List.replicate n l).flatten) : x ∈ l := by
  induction n with
  | zero => simp at h
  | succ n ih =>
    simp only [List.replicate_succ, List.flatten_cons, List.mem_append] at h
    rcases h with h | h
    · exact h
    · exact ih h

def HasEntries (decays : List (String × FMode α)) (keys : List String) : Prop :=
  ∀ k ∈ keys, ∃ md, dget decays k = some md

theorem fstep_passInv {decays : List (String × FMode α)} {keys : List String} {rank : String → Nat}
    (hac : Acyclic decays keys rank) (he : HasEntries decays keys) (B : Nat) (k : String) (todo : List String) (st : FSt α)
    (hk : k ∈ keys) (h : PassInv keys rank B (k :: todo) st.2) :
    PassInv keys rank B todo (fstep decays st k).2 := by
  obtain ⟨md, hd⟩ := he k hk
  unfold fstep
  simp only [hd]
  intro x hx hxk
  rcases List.mem_append.mp hx with hx | hx
  · have hxf := List.mem_filter.mp hx
    have hne : x ≠ k := by simpa using hxf.2
    rcases h x hxf.1 hxk with h1 | ⟨h1, h2⟩
    · exact Or.inl h1
    · rcases List.mem_cons.mp h2 with e | h2
      · exact absurd e hne
      · exact Or.inr ⟨h1, h2⟩
  · have hxd : x ∈ md.ds := mem_flatten_replicate _ _ _ hx
    -- daughters only appear when k was present
    have hpos : 0 < st.2.count k := by
      rcases Nat.eq_zero_or_pos (st.2.count k) with h0 | h0
      · rw [h0] at hx; simp at hx
      · exact h0
    have hkin : k ∈ st.2 := List.count_pos_iff.mp hpos
    have hrk : rank k ≤ B := by
      rcases h k hkin hk with h1 | ⟨h1, _⟩
      · exact Nat.le_of_lt h1
      · exact Nat.le_of_eq h1
    exact Or.inl (Nat.lt_of_lt_of_le (hac k hk md hd x hxd hxk) hrk)

theorem fpass_passInv {decays : List (String × FMode α)} {keys : List String} {rank : String → Nat}
    (hac : Acyclic decays keys rank) (he : HasEntries decays keys) (B : Nat) :
    ∀ (todo : List String) (st : FSt α), (∀ k ∈ todo, k ∈ keys) → PassInv keys rank B todo st.2 →
      PassInv keys rank B [] (fpass decays todo st).2
  | [], st, _, h => by simpa [fpass] using h
  | k :: r, st, hks, h => by
    simp only [fpass, List.foldl_cons]
    exact fpass_passInv hac he B r (fstep decays st k) (fun k' hk' => hks k' (List.mem_cons_of_mem _ hk'))
      (fstep_passInv hac he B k r st (hks k List.mem_cons_self) h)

/-- one pass lowers the bound -/
theorem fpass_bound {decays : List (String × FMode α)} {keys : List String} {rank : String → Nat}
    (hac : Acyclic decays keys rank) (he : HasEntries decays keys) (B : Nat) (st : FSt α)
    (h : Bound keys rank (B + 1) st.2) : Bound keys rank B (fpass decays keys st).2 := by
  have hinit : PassInv keys rank B keys st.2 := by
    intro x hx hxk
    have := h x hx hxk
    rcases Nat.lt_or_ge (rank x) B with h1 | h1
    · exact Or.inl h1
    · exact Or.inr ⟨by omega, hxk⟩
  have := fpass_passInv hac he B keys st (fun _ h => h) hinit
  intro x hx hxk
  rcases this x hx hxk with h1 | ⟨_, h2⟩
  · exact h1
  · cases h2

theorem bound_mono {keys : List String} {rank : String → Nat} {B B' : Nat} {fs : List String}
    (h : Bound keys rank B fs) (hle : B ≤ B') : Bound keys rank B' fs :=
  fun x hx hxk => Nat.lt_of_lt_of_le (h x hx hxk) hle

/-- with the bound `B` the loop ends within `B + 1` passes -/
theorem floop_terminates {decays : List (String × FMode α)} {keys : List String} {rank : String → Nat}
    (hac : Acyclic decays keys rank) (he : HasEntries decays keys) :
    ∀ (B : Nat) (st : FSt α), Bound keys rank B st.2 → ∃ r, floop decays keys (B + 1) st = some r
  | 0, st, h => by
    have h1 : Bound keys rank 0 (fpass decays keys st).2 := fpass_bound hac he 0 st (bound_mono h (Nat.zero_le _))
    refine ⟨fpass decays keys st, ?_⟩
    simp only [floop]
    have : keys.any (fun k => (fpass decays keys st).2.count k > 0) = false := by
      rw [List.any_eq_false]
      intro k hk hpos
      have hmem : k ∈ (fpass decays keys st).2 := List.count_pos_iff.mp (by simpa using hpos)
      exact absurd (h1 k hmem hk) (Nat.not_lt_zero _)
    simp only [this, Bool.false_eq_true, if_false]
  | B + 1, st, h => by
    have h1 : Bound keys rank B (fpass decays keys st).2 := fpass_bound hac he B st h
    simp only [floop]
    by_cases hany : keys.any (fun k => (fpass decays keys st).2.count k > 0) = true
    · simp only [hany, if_true]
      exact floop_terminates hac he B _ h1
    · exact ⟨_, by rw [if_neg hany]⟩

/-- more fuel never changes a result -/
theorem floop_mono {decays : List (String × FMode α)} {keys : List String} :
    ∀ (f : Nat) (st r : FSt α), floop decays keys f st = some r → floop decays keys (f + 1) st = some r
  | 0, _, _, h => by simp [floop] at h
  | f + 1, st, r, h => by
    simp only [floop] at h ⊢
    split at h
    · rename_i hany
      rw [if_pos hany]
      exact floop_mono f _ r h
    · rename_i hany
      rw [if_neg hany]
      exact h

theorem floop_mono_le {decays : List (String × FMode α)} {keys : List String} (f f' : Nat) (st r : FSt α)
    (h : floop decays keys f st = some r) (hle : f ≤ f') : floop decays keys f' st = some r := by
  induction hle with
  | refl => exact h
  | step _ ih => exact floop_mono _ st r ih

end DL
