/-
`%.7g` on an exact rational, the text half: the text `renderSig7 n e` laid out for seven significant digits `n` and a decimal
exponent `e` is a numeric literal, and read back (with the reader of DL/Model/Num.lean, `numValue`, the exact `float(text)`)
it denotes exactly `n · 10^(e-6)`.  With `sig7_spec` (DL/Lemmas/FmtG7.lean) the number shown is a correct rounding of the
number stored.
-/
import Mathlib.Tactic
import DL.Lemmas.FmtG7
import DL.Lemmas.ReadRT
namespace DL
open ReadRT

/-! ### values of digit strings -/

theorem foldl_dig (l : List Char) (acc : Nat) :
    l.foldl (fun acc c => acc * 10 + (c.toNat - '0'.toNat)) acc = acc * 10 ^ l.length + digitsVal l := by
  induction l generalizing acc with
  | nil => simp [digitsVal]
  | cons c t ih =>
    simp only [List.foldl_cons, digitsVal, List.length_cons]
    rw [ih (acc * 10 + _), ih (0 * 10 + _)]
    ring

theorem digitsVal_nil : digitsVal [] = 0 := rfl

theorem digitsVal_append (a b : List Char) :
    digitsVal (a ++ b) = digitsVal a * 10 ^ b.length + digitsVal b := by
  unfold digitsVal
  rw [List.foldl_append, foldl_dig]
  rfl

theorem digitsVal_zeros (k : Nat) : digitsVal (List.replicate k '0') = 0 := by
  induction k with
  | zero => rfl
  | succ k ih =>
    rw [List.replicate_succ', digitsVal_append, ih]
    rfl

theorem digitsVal_zeros_append (k : Nat) (l : List Char) : digitsVal (List.replicate k '0' ++ l) = digitsVal l := by
  rw [digitsVal_append, digitsVal_zeros]; simp

theorem digitsVal_digitChar (d : Nat) (hd : d < 10) : digitsVal [Nat.digitChar d] = d := by
  interval_cases d <;> rfl

theorem digitsVal_toDigits (n : Nat) : digitsVal (Nat.toDigits 10 n) = n := by
  induction n using Nat.strong_induction_on with
  | _ n ih =>
    by_cases h : n < 10
    · rw [Nat.toDigits_of_lt_base h]; exact digitsVal_digitChar n h
    · rw [Nat.toDigits_of_base_le (by decide) (by omega), digitsVal_append, ih (n / 10) (by omega),
        digitsVal_digitChar _ (Nat.mod_lt n (by decide))]
      simp only [List.length_cons, List.length_nil]
      omega

theorem isDigit_of_char_isDigit {c : Char} (h : c.isDigit = true) : isDigit c = true := by
  simp only [Char.isDigit, Bool.and_eq_true, decide_eq_true_eq] at h
  simp only [isDigit, Bool.and_eq_true, decide_eq_true_eq]
  exact ⟨by rw [Char.le_def]; exact h.1, by rw [Char.le_def]; exact h.2⟩

theorem isDigit_toDigits (n : Nat) : ∀ c ∈ Nat.toDigits 10 n, isDigit c = true :=
  fun _ hc => isDigit_of_char_isDigit (Nat.isDigit_of_mem_toDigits (b := 10) (by decide) (by decide) hc)

theorem toList_toString_nat (n : Nat) : (toString n).toList = Nat.toDigits 10 n := by
  rw [show toString n = Nat.repr n from rfl]; exact Nat.toList_repr

/-! ### trailing zeros -/

theorem stripZerosRev_spec (l : List Char) : ∃ k, l = List.replicate k '0' ++ stripZerosRev l := by
  induction l with
  | nil => exact ⟨0, rfl⟩
  | cons c t ih =>
    by_cases hc : c = '0'
    · subst hc
      obtain ⟨k, hk⟩ := ih
      refine ⟨k + 1, ?_⟩
      rw [stripZerosRev, List.replicate_succ, List.cons_append, ← hk]
    · refine ⟨0, ?_⟩
      rw [stripZerosRev]
      · rfl
      · intro r h; injection h with h1 _; exact hc h1

/-- the digits without their trailing zeros -/
def strip (ds : List Char) : List Char := (stripZerosRev ds.reverse).reverse

theorem strip_spec (ds : List Char) : ∃ k, ds = strip ds ++ List.replicate k '0' := by
  obtain ⟨k, hk⟩ := stripZerosRev_spec ds.reverse
  refine ⟨k, ?_⟩
  have := congrArg List.reverse hk
  rw [List.reverse_reverse, List.reverse_append, List.reverse_replicate] at this
  exact this

theorem strip_digits {ds : List Char} (h : ∀ c ∈ ds, isDigit c = true) : ∀ c ∈ strip ds, isDigit c = true := by
  obtain ⟨k, hk⟩ := strip_spec ds
  intro c hc
  exact h c (by rw [hk]; exact List.mem_append_left _ hc)

/-! ### reading a literal back -/

theorem numValue_of_show (s : String) (lit : NumLit) (hg : GoodNum lit) (hs : s.toList = lit.show) :
    numValue s = some lit.value := by
  unfold numValue
  have := readNumber_show lit hg [] trivial
  rw [List.append_nil] at this
  rw [hs, this]

theorem getD_frac (fp : List Char) : (if fp.isEmpty then none else some fp : Option (List Char)).getD [] = fp := by
  cases fp <;> rfl

/-- value of `ip.fp` for digit strings with `ip ++ fp ++ zeros = D` -/
theorem value_split (ip fp : List Char) (j : Nat) (N : Nat)
    (hN : N = digitsVal ip * 10 ^ (fp.length + j) + digitsVal fp * 10 ^ j) :
    (((digitsVal ip * pow10 fp.length + digitsVal fp : Nat) : ℚ)) / ((pow10 fp.length : Nat) : ℚ) =
      (N : ℚ) / (10 : ℚ) ^ (fp.length + j) := by
  rw [hN, pow10_cast]
  have h10 : (10 : ℚ) ≠ 0 := by norm_num
  rw [div_eq_div_iff (pow_ne_zero _ h10) (pow_ne_zero _ h10)]
  simp only [pow10]
  push_cast
  ring

/-- value of `ip.fp`, `fp` the digits `rest` without their trailing zeros -/
theorem base_value (ip rest : List Char) :
    (((digitsVal ip * pow10 (strip rest).length + digitsVal (strip rest) : Nat) : ℚ)) /
        ((pow10 (strip rest).length : Nat) : ℚ) =
      (digitsVal (ip ++ rest) : ℚ) / (10 : ℚ) ^ rest.length := by
  obtain ⟨j, hj⟩ := strip_spec rest
  generalize strip rest = fp at hj ⊢
  subst hj
  rw [List.length_append, List.length_replicate]
  apply value_split
  rw [digitsVal_append, digitsVal_append, digitsVal_zeros, List.length_append, List.length_replicate]
  simp

theorem digits7 (n : Nat) (hlo : 10 ^ 6 ≤ n) (hhi : n < 10 ^ 7) : (Nat.toDigits 10 n).length = 7 := by
  have hb := digits_bounds n (by omega)
  rw [length_toString_nat] at hb
  have h1 : (Nat.toDigits 10 n).length - 1 < 7 :=
    (Nat.pow_lt_pow_iff_right (a := 10) (by decide)).1 (lt_of_le_of_lt hb.1 hhi)
  have h2 : 6 < (Nat.toDigits 10 n).length :=
    (Nat.pow_lt_pow_iff_right (a := 10) (by decide)).1 (lt_of_le_of_lt hlo hb.2)
  omega

theorem toList_padLeft (s : String) (n : Nat) (c : Char) :
    (padLeft s n c).toList = List.replicate (n - s.length) c ++ s.toList := by
  simp [padLeft, String.toList_append]

theorem mem_take_digits {D : List Char} (h : ∀ c ∈ D, isDigit c = true) (k : Nat) : ∀ c ∈ D.take k, isDigit c = true :=
  fun c hc => h c (List.mem_of_mem_take hc)

theorem mem_drop_digits {D : List Char} (h : ∀ c ∈ D, isDigit c = true) (k : Nat) : ∀ c ∈ D.drop k, isDigit c = true :=
  fun c hc => h c (List.mem_of_mem_drop hc)

theorem numValue_list (s : String) (l : List Char) (lit : NumLit) (hs : s.toList = l) (hl : l = lit.show)
    (hg : GoodNum lit) : numValue s = some lit.value :=
  numValue_of_show s lit hg (hs.trans hl)

/-- the sign written in front of a negative value -/
def sgnPre (sg : Bool) : List Char := if sg then ['-'] else []

/-- scientific layout `d.ddd e±xx` -/
theorem sci_value (D xd : List Char) (neg : Bool) (hlen : D.length = 7) (hdig : ∀ c ∈ D, isDigit c = true)
    (hxd : xd ≠ []) (hxdig : ∀ c ∈ xd, isDigit c = true) (sg : Bool) (s : String)
    (hs : s.toList = sgnPre sg ++ D.take 1 ++ (if (strip (D.drop 1)).isEmpty = true then [] else '.' :: strip (D.drop 1)) ++
        'e' :: (if neg then '-' else '+') :: xd) :
    numValue s = some ((if sg then -1 else 1) * (if neg then (digitsVal D : ℚ) / 10 ^ 6 / 10 ^ digitsVal xd
                       else (digitsVal D : ℚ) / 10 ^ 6 * 10 ^ digitsVal xd)) := by
  generalize htail : strip (D.drop 1) = tail at hs
  have htd : ∀ c ∈ tail, isDigit c = true := htail ▸ strip_digits (mem_drop_digits hdig 1)
  have hg : GoodNum ⟨sg, sg, D.take 1, if tail.isEmpty then none else some tail,
      some ⟨'e', some (if neg then '-' else '+'), xd⟩⟩ := by
    refine ⟨fun h => h, mem_take_digits hdig 1, ?_, ?_, Or.inl ?_⟩
    · intro f hf c hc
      cases tail with
      | nil => simp at hf
      | cons a t =>
        have : f = a :: t := by simpa using hf.symm
        subst this
        exact htd c hc
    · intro e' he'
      have : (⟨'e', some (if neg then '-' else '+'), xd⟩ : ExpLit) = e' := by simpa using he'
      subst this
      exact ⟨Or.inl rfl, by cases neg <;> simp, hxd, hxdig⟩
    · intro h
      have := congrArg List.length h
      simp [hlen] at this
  refine (numValue_list s _ _ hs ?_ hg).trans (congrArg some ?_)
  · cases tail <;> cases neg <;> cases sg <;> simp [NumLit.show, sgnPre]
  · have hbase := base_value (D.take 1) (D.drop 1)
    rw [List.take_append_drop, List.length_drop, hlen, htail] at hbase
    simp only [Nat.cast_add, Nat.cast_mul, pow10_cast, show (7 - 1 : ℕ) = 6 from rfl] at hbase
    simp only [NumLit.value, getD_frac, ExpLit.neg, Nat.cast_add, Nat.cast_mul, pow10_cast, hbase]
    cases neg <;> cases sg <;> simp

/-- positional layout `ddd.ddd` -/
theorem pos_value (D : List Char) (k : Nat) (hk : 0 < k) (hk7 : k ≤ D.length) (hdig : ∀ c ∈ D, isDigit c = true)
    (sg : Bool) (s : String)
    (hs : s.toList = sgnPre sg ++ D.take k ++ (if (strip (D.drop k)).isEmpty = true then [] else '.' :: strip (D.drop k))) :
    numValue s = some ((if sg then -1 else 1) * ((digitsVal D : ℚ) / 10 ^ (D.length - k))) := by
  have hbase := base_value (D.take k) (D.drop k)
  rw [List.take_append_drop, List.length_drop] at hbase
  generalize htail : strip (D.drop k) = tail at hs hbase
  have htd : ∀ c ∈ tail, isDigit c = true := htail ▸ strip_digits (mem_drop_digits hdig k)
  have hg : GoodNum ⟨sg, sg, D.take k, if tail.isEmpty then none else some tail, none⟩ := by
    refine ⟨fun h => h, mem_take_digits hdig k, ?_, ?_, Or.inl ?_⟩
    · intro f hf c hc
      cases tail with
      | nil => simp at hf
      | cons a t =>
        have : f = a :: t := by simpa using hf.symm
        subst this
        exact htd c hc
    · intro e' he'
      simp at he'
    · intro h
      have := congrArg List.length h
      rw [List.length_take, List.length_nil] at this
      omega
  refine (numValue_list s _ _ hs ?_ hg).trans (congrArg some ?_)
  · cases tail <;> cases sg <;> simp [NumLit.show, sgnPre]
  · simp only [Nat.cast_add, Nat.cast_mul, pow10_cast] at hbase
    simp only [NumLit.value, getD_frac, Nat.cast_add, Nat.cast_mul, pow10_cast, hbase]
    cases sg <;> simp

/-- layout `0.000ddd` -/
theorem small_value (D : List Char) (m : Nat) (hdig : ∀ c ∈ D, isDigit c = true) (sg : Bool)
    (s : String) (hs : s.toList = sgnPre sg ++ '0' :: '.' :: (List.replicate m '0' ++ strip D)) :
    numValue s = some ((if sg then -1 else 1) * ((digitsVal D : ℚ) / 10 ^ (m + D.length))) := by
  have hsd := strip_digits hdig
  obtain ⟨j, hj⟩ := strip_spec D
  generalize strip D = fp at hs hsd hj
  have hg : GoodNum ⟨sg, sg, ['0'], some (List.replicate m '0' ++ fp), none⟩ := by
    refine ⟨fun h => h, by simp [isDigit], ?_, ?_, Or.inl (by simp)⟩
    · intro f hf c hc
      have : List.replicate m '0' ++ fp = f := by simpa using hf
      subst this
      rcases List.mem_append.mp hc with h | h
      · rw [(List.mem_replicate.mp h).2]; rfl
      · exact hsd c h
    · intro e' he'
      simp at he'
  refine (numValue_list s _ _ hs ?_ hg).trans (congrArg some ?_)
  · cases sg <;> simp [NumLit.show, sgnPre]
  · subst hj
    have h10 : (10 : ℚ) ≠ 0 := by norm_num
    have key : (((digitsVal ['0'] * pow10 (List.replicate m '0' ++ fp).length +
          digitsVal (List.replicate m '0' ++ fp) : ℕ)) : ℚ) / ((pow10 (List.replicate m '0' ++ fp).length : ℕ) : ℚ) =
        (digitsVal (fp ++ List.replicate j '0') : ℚ) / 10 ^ (m + (fp ++ List.replicate j '0').length) := by
      simp only [digitsVal_append, digitsVal_zeros, List.length_append, List.length_replicate, pow10_cast]
      rw [show digitsVal ['0'] = 0 from rfl]
      simp only [pow10]
      push_cast
      rw [div_eq_div_iff (pow_ne_zero _ h10) (pow_ne_zero _ h10)]
      simp only [zero_mul, zero_add, add_zero]
      ring
    simp only [NumLit.value, Option.getD_some, key]
    cases sg <;> simp

/-- the text laid out for seven digits `n` and exponent `e`, with or without a minus sign in front, reads back as exactly
    `± n · 10^(e-6)` -/
theorem renderSig7_value (n : Nat) (e : Int) (hlo : 10 ^ 6 ≤ n) (hhi : n < 10 ^ 7) (sg : Bool) (s : String)
    (hs : s.toList = sgnPre sg ++ (renderSig7 n e).toList) :
    numValue s = some ((if sg then -1 else 1) * ((n : ℚ) * (10 : ℚ) ^ (e - 6))) := by
  have hlen : (Nat.toDigits 10 n).length = 7 := digits7 n hlo hhi
  have hval : digitsVal (Nat.toDigits 10 n) = n := digitsVal_toDigits n
  have hdig : ∀ c ∈ Nat.toDigits 10 n, isDigit c = true := isDigit_toDigits n
  have h10 : (10 : ℚ) ≠ 0 := by norm_num
  simp only [renderSig7, toList_toString_nat] at hs
  generalize Nat.toDigits 10 n = D at hlen hval hdig hs
  have hstrip : ∀ l : List Char, (stripZerosRev l.reverse).reverse = strip l := fun _ => rfl
  simp only [hstrip] at hs
  subst hval
  split at hs
  · -- scientific notation
    rename_i hsci
    have hxd : (padLeft (toString e.natAbs) 2 '0').toList =
        List.replicate (2 - (toString e.natAbs).length) '0' ++ Nat.toDigits 10 e.natAbs := by
      rw [toList_padLeft, toList_toString_nat]
    generalize padLeft (toString e.natAbs) 2 '0' = ps at hxd hs
    have hxv : digitsVal ps.toList = e.natAbs := by rw [hxd, digitsVal_zeros_append, digitsVal_toDigits]
    have hne : ps.toList ≠ [] := by
      rw [hxd]; intro h
      have := congrArg List.length h
      have hp := Nat.length_toDigits_pos (b := 10) (n := e.natAbs)
      simp at this
    have hxdig : ∀ c ∈ ps.toList, isDigit c = true := by
      rw [hxd]; intro c hc
      rcases List.mem_append.mp hc with h | h
      · rw [(List.mem_replicate.mp h).2]; rfl
      · exact isDigit_toDigits _ c h
    clear hxd
    generalize hea : e.natAbs = ea at hxv
    rw [sci_value D ps.toList (decide (e < 0)) hlen hdig hne hxdig sg s
      (by rw [hs]; simp only [String.toList_append, String.toList_ofList]; by_cases hneg : e < 0 <;> simp [hneg])]
    refine congrArg (fun v => some ((if sg then (-1 : ℚ) else 1) * v)) ?_
    rw [hxv]
    by_cases hneg : e < 0
    · have he : e - 6 = -(((ea + 6 : ℕ)) : ℤ) := by omega
      rw [he, zpow_neg, zpow_natCast]
      simp [hneg, pow_add]
      field_simp
    · have he : (ea : ℤ) = (e - 6) + 6 := by omega
      have : (10 : ℚ) ^ ea = (10 : ℚ) ^ (e - 6) * (10 : ℚ) ^ (6 : ℕ) := by
        rw [← zpow_natCast, he, zpow_add₀ h10]; norm_num
      simp [hneg, this]
      field_simp
  · rename_i hsci
    have hsci' : -4 ≤ e ∧ e < 7 := by
      simp only [Bool.or_eq_true, decide_eq_true_eq, not_or, not_lt, not_le] at hsci
      omega
    split at hs
    · rename_i hpos
      rw [pos_value D (e.toNat + 1) (by omega) (by omega) hdig sg s (by rw [hs]; simp only [String.toList_ofList, List.append_assoc])]
      refine congrArg (fun v => some ((if sg then (-1 : ℚ) else 1) * v)) ?_
      have he : e - 6 = -(((D.length - (e.toNat + 1) : ℕ)) : ℤ) := by omega
      rw [he, zpow_neg, zpow_natCast, div_eq_mul_inv]
    · rename_i hneg
      rw [small_value D ((-e).toNat - 1) hdig sg s (by rw [hs]; simp only [String.toList_ofList])]
      refine congrArg (fun v => some ((if sg then (-1 : ℚ) else 1) * v)) ?_
      have he : e - 6 = -((((-e).toNat - 1 + D.length : ℕ)) : ℤ) := by omega
      rw [he, zpow_neg, zpow_natCast, div_eq_mul_inv]

/-- the text shown for any exact value reads back as a number that differs from the value by at most half a unit of the
    seventh significant digit -/
theorem fmtG7_value (x : ℚ) :
    ∃ v : ℚ, numValue (fmtG7 x) = some v ∧
      (x = 0 → v = 0) ∧ (x ≠ 0 → |x - v| ≤ 1 / 2 * (10 : ℚ) ^ ((sig7 |x|).2 - 6)) := by
  rcases lt_trichotomy x 0 with hx | hx | hx
  · have hpos : 0 < -x := by linarith
    obtain ⟨hlo, hhi, hb⟩ := sig7_spec (-x) hpos
    refine ⟨-(((sig7 (-x)).1 : ℚ) * (10 : ℚ) ^ ((sig7 (-x)).2 - 6)), ?_, fun h => absurd h hx.ne, fun _ => ?_⟩
    · have hne : ((-x) == 0) = false := by
        simp only [beq_eq_false_iff_ne, ne_eq]; exact hpos.ne'
      have := renderSig7_value (sig7 (-x)).1 (sig7 (-x)).2 hlo hhi true (fmtG7 x)
        (by simp [fmtG7, hx, fmtG7Pos, hne, sgnPre, String.toList_append])
      simpa using this
    · rw [abs_of_neg hx]
      have : x - -(((sig7 (-x)).1 : ℚ) * (10 : ℚ) ^ ((sig7 (-x)).2 - 6)) =
          -((-x) - ((sig7 (-x)).1 : ℚ) * (10 : ℚ) ^ ((sig7 (-x)).2 - 6)) := by ring
      rw [this, abs_neg]; exact hb
  · subst hx
    exact ⟨0, by decide +kernel, fun _ => rfl, fun h => absurd rfl h⟩
  · obtain ⟨hlo, hhi, hb⟩ := sig7_spec x hx
    refine ⟨((sig7 x).1 : ℚ) * (10 : ℚ) ^ ((sig7 x).2 - 6), ?_, fun h => absurd h hx.ne', fun _ => ?_⟩
    · have hne : (x == 0) = false := by
        simp only [beq_eq_false_iff_ne, ne_eq]; exact hx.ne'
      have := renderSig7_value (sig7 x).1 (sig7 x).2 hlo hhi false (fmtG7 x)
        (by simp [fmtG7, not_lt.mpr hx.le, fmtG7Pos, hne, sgnPre])
      simpa using this
    · rw [abs_of_pos hx]; exact hb

end DL
