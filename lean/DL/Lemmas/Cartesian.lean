/-
`itertools.product` as `cartesian`: membership, no repeats.
-/
import Mathlib.Data.List.Nodup
import DL.Model.Perm
namespace DL

/-- position-wise relation between two lists of equal length -/
def Pointwise {α β : Type} (R : α → β → Prop) : List α → List β → Prop
  | [], [] => True
  | a :: as, b :: bs => R a b ∧ Pointwise R as bs
  | _, _ => False

theorem mem_cartesian {α : Type} (ls : List (List α)) (a : List α) :
    a ∈ cartesian ls ↔ Pointwise (fun x l => x ∈ l) a ls := by
  induction ls generalizing a with
  | nil => cases a <;> simp [cartesian, Pointwise]
  | cons l ls ih =>
    cases a with
    | nil => simp [cartesian, Pointwise]
    | cons x a =>
      simp only [cartesian, List.mem_flatMap, List.mem_map, Pointwise]
      constructor
      · rintro ⟨y, hy, b, hb, heq⟩
        simp only [List.cons.injEq] at heq
        obtain ⟨rfl, rfl⟩ := heq
        exact ⟨hy, (ih b).mp hb⟩
      · rintro ⟨hx, ha⟩
        exact ⟨x, hx, a, (ih a).mpr ha, rfl⟩

theorem cartesian_nodup {α : Type} (ls : List (List α)) (h : ∀ l ∈ ls, l.Nodup) : (cartesian ls).Nodup := by
  induction ls with
  | nil => simp [cartesian]
  | cons l ls ih =>
    have hl : l.Nodup := h l List.mem_cons_self
    have hr : (cartesian ls).Nodup := ih (fun l' hl' => h l' (List.mem_cons_of_mem _ hl'))
    simp only [cartesian]
    rw [List.nodup_flatMap]
    constructor
    · intro x _
      exact hr.map (fun a b hab => by simpa using hab)
    · have hp : List.Pairwise (fun a b => a ≠ b) l := hl
      refine hp.imp ?_
      intro a b hne
      simp only [Function.onFun]
      intro z hz1 hz2
      simp only [List.mem_map] at hz1 hz2
      obtain ⟨u, _, rfl⟩ := hz1
      obtain ⟨w, _, hw⟩ := hz2
      simp only [List.cons.injEq] at hw
      exact hne hw.1.symm


end DL
