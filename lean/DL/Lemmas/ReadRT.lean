/-
Round trip of the reader model (`readDoc`, DL/Model/DecRead.lean): rendering statements and reading
them back gives the statements.  Stage 1 (`read_simple_flat`): label-only statements, canonical layout.
Stage 2 (`readNumber_show`, `read_simple_num`): numbers.  Stage 3 (`read_layout_flat`): arbitrary layout
(blank runs, trailing blanks, comments, LF / CRLF, blank and comment lines, indentation).  Decay blocks
and `ModelAlias` (Stage 4) are in DL/Lemmas/ReadRTDecay.lean.  Imports only the reader model.
-/
import DL.Model.DecRead
namespace DL
namespace ReadRT

/-! ### characters -/

/-- characters that can follow a token in a rendered flat statement: blank, tab, line end, comment -/
def isStop (c : Char) : Bool := c == ' ' || c == '\t' || c == '\n' || c == '\r' || c == '#'

/-- the remainder after a token: nothing, or it starts with a stop character -/
def Stops : List Char → Prop
  | [] => True
  | c :: _ => isStop c = true

instance : DecidablePred Stops := fun r => by
  cases r <;> simp only [Stops] <;> infer_instance

/-- the grammar's label characters contain no separator of the statement language -/
def GoodGrammar (g : RGrammar) : Prop :=
  ∀ c ∈ [' ', '\t', '\n', '\r', '#', ';', ',', ':', '='], g.labelChars.contains c = false

instance (g : RGrammar) : Decidable (GoodGrammar g) := by unfold GoodGrammar; infer_instance

/-- a label: non-empty, made of label characters -/
def GoodLabel (g : RGrammar) (w : String) : Prop :=
  w.toList ≠ [] ∧ ∀ c ∈ w.toList, g.labelChars.contains c = true

instance (g : RGrammar) (w : String) : Decidable (GoodLabel g w) := by unfold GoodLabel; infer_instance

/-- a run of blanks and tabs -/
def Blanks (gap : List Char) : Prop := ∀ c ∈ gap, isBlankC c = true

instance (gap : List Char) : Decidable (Blanks gap) := by unfold Blanks; infer_instance

/-- a non-empty run of blanks and tabs -/
def GoodGap (gap : List Char) : Prop := gap ≠ [] ∧ Blanks gap

instance (gap : List Char) : Decidable (GoodGap gap) := by unfold GoodGap; infer_instance

theorem isStop_cases {c : Char} (h : isStop c = true) :
    c = ' ' ∨ c = '\t' ∨ c = '\n' ∨ c = '\r' ∨ c = '#' := by
  simpa [isStop, or_assoc] using h

theorem blank_isStop {c : Char} (h : isBlankC c = true) : isStop c = true := by
  simp only [isBlankC, Bool.or_eq_true, beq_iff_eq] at h
  rcases h with rfl | rfl <;> decide

theorem stop_not_label {g : RGrammar} (hg : GoodGrammar g) {c : Char} (h : isStop c = true) :
    g.labelChars.contains c = false := by
  rcases isStop_cases h with rfl | rfl | rfl | rfl | rfl <;> exact hg _ (by simp)

theorem label_not_blank {g : RGrammar} (hg : GoodGrammar g) {c : Char} (h : g.labelChars.contains c = true) :
    isBlankC c = false := by
  cases hb : isBlankC c with
  | false => rfl
  | true => rw [stop_not_label hg (blank_isStop hb)] at h; cases h

theorem label_not_hash {g : RGrammar} (hg : GoodGrammar g) {c : Char} (h : g.labelChars.contains c = true) :
    c ≠ '#' := by
  rintro rfl
  rw [hg '#' (by simp)] at h; cases h

theorem stop_not_digit {c : Char} (h : isStop c = true) : isDigit c = false := by
  rcases isStop_cases h with rfl | rfl | rfl | rfl | rfl <;> decide

theorem Stops_gap {gap : List Char} (hgap : GoodGap gap) (r : List Char) : Stops (gap ++ r) := by
  obtain ⟨hne, hb⟩ := hgap
  cases gap with
  | nil => exact absurd rfl hne
  | cons b t => exact blank_isStop (hb b List.mem_cons_self)

/-! ### blanks and ignored text -/

theorem skipWs_blanks (gap rest : List Char) (hg : Blanks gap) :
    skipWs (gap ++ rest) = skipWs rest := by
  induction gap with
  | nil => rfl
  | cons c g ih =>
    have hc : isBlankC c = true := hg c List.mem_cons_self
    simp only [List.cons_append, skipWs, hc, if_true]
    exact ih (fun d hd => hg d (List.mem_cons_of_mem _ hd))

theorem skipWs_nonblank (c : Char) (rest : List Char) (hc : isBlankC c = false) :
    skipWs (c :: rest) = c :: rest := by
  simp [skipWs, hc]

theorem skipWs_idem (cs : List Char) : skipWs (skipWs cs) = skipWs cs := by
  induction cs with
  | nil => rfl
  | cons c r ih =>
    by_cases hc : isBlankC c = true
    · simp [skipWs, hc, ih]
    · simp [skipWs, hc]

theorem skipWs_length (cs : List Char) : (skipWs cs).length ≤ cs.length := by
  induction cs with
  | nil => simp [skipWs]
  | cons c r ih =>
    by_cases hc : isBlankC c = true
    · simp only [skipWs, hc, if_true, List.length_cons]; omega
    · simp [skipWs, hc]

/-- blanks before a character that is neither a blank nor the start of a comment -/
theorem skipIgnored_gap (b : Bool) (f : Nat) (gap : List Char) (c : Char) (rest : List Char)
    (hgap : Blanks gap) (hc : isBlankC c = false) (hh : c ≠ '#') :
    skipIgnored b (f + 1) (gap ++ c :: rest) = c :: rest := by
  simp only [skipIgnored]
  rw [skipWs_blanks gap _ hgap, skipWs_nonblank c rest hc]
  split
  · rename_i heq
    simp only [List.cons.injEq] at heq
    exact absurd heq.1 hh
  · rfl

/-- where a line end is acceptable, only blanks are skipped -/
theorem skipIgnored_true (f : Nat) (cs : List Char) : skipIgnored true (f + 1) cs = skipWs cs := by
  simp only [skipIgnored]
  split
  · rename_i heq; simp [heq]
  · rfl

/-! ### labels -/

theorem takeWhileC_run (p : Char → Bool) (a r : List Char) (ha : ∀ c ∈ a, p c = true)
    (hr : ∀ c ∈ r.head?, p c = false) : takeWhileC p (a ++ r) = (a, r) := by
  induction a with
  | nil =>
    cases r with
    | nil => rfl
    | cons c t =>
      have : p c = false := hr c (by simp)
      simp [takeWhileC, this]
  | cons x a ih =>
    have hx : p x = true := ha x List.mem_cons_self
    simp only [List.cons_append, takeWhileC, hx, if_true]
    rw [ih (fun c hc => ha c (List.mem_cons_of_mem _ hc))]

theorem takeLabel_good {g : RGrammar} (hg : GoodGrammar g) {w : String} (hw : GoodLabel g w)
    {r : List Char} (hr : Stops r) : takeLabel g (w.toList ++ r) = some (w, r) := by
  unfold takeLabel
  rw [takeWhileC_run _ w.toList r hw.2]
  · have : w.toList.isEmpty = false := by
      cases h : w.toList with
      | nil => exact absurd h hw.1
      | cons _ _ => rfl
    simp [this]
  · intro c hc
    cases r with
    | nil => simp at hc
    | cons d t =>
      simp only [List.head?_cons, Option.mem_def, Option.some.injEq] at hc
      subst hc
      exact stop_not_label hg hr

theorem rLabel_good {g : RGrammar} (hg : GoodGrammar g) {w : String} (hw : GoodLabel g w)
    {gap : List Char} (hgap : Blanks gap) {r : List Char} (hr : Stops r) :
    rLabel g (gap ++ (w.toList ++ r)) = .ok (w, r) := by
  unfold rLabel
  obtain ⟨hne, hall⟩ := hw
  cases hwl : w.toList with
  | nil => exact absurd hwl hne
  | cons c t =>
    have hc : g.labelChars.contains c = true := hall c (by rw [hwl]; exact List.mem_cons_self)
    rw [List.cons_append, skipIgnored_gap false _ gap c _ hgap (label_not_blank hg hc) (label_not_hash hg hc)]
    rw [← List.cons_append, ← hwl, takeLabel_good hg ⟨hne, hall⟩ hr]

/-- a label is also delimited by any character that is no label character (`:`, `=`) -/
theorem takeLabel_lstop {g : RGrammar} {w : String} (hw : GoodLabel g w) {r : List Char}
    (hr : ∀ c ∈ r.head?, g.labelChars.contains c = false) : takeLabel g (w.toList ++ r) = some (w, r) := by
  unfold takeLabel
  rw [takeWhileC_run _ w.toList r hw.2 hr]
  have : w.toList.isEmpty = false := by
    cases h : w.toList with
    | nil => exact absurd h hw.1
    | cons _ _ => rfl
  simp [this]

theorem rLabel_lstop {g : RGrammar} (hg : GoodGrammar g) {w : String} (hw : GoodLabel g w)
    {gap : List Char} (hgap : Blanks gap) {r : List Char} (hr : ∀ c ∈ r.head?, g.labelChars.contains c = false) :
    rLabel g (gap ++ (w.toList ++ r)) = .ok (w, r) := by
  unfold rLabel
  obtain ⟨hne, hall⟩ := hw
  cases hwl : w.toList with
  | nil => exact absurd hwl hne
  | cons c t =>
    have hc : g.labelChars.contains c = true := hall c (by rw [hwl]; exact List.mem_cons_self)
    rw [List.cons_append, skipIgnored_gap false _ gap c _ hgap (label_not_blank hg hc) (label_not_hash hg hc)]
    rw [← List.cons_append, ← hwl, takeLabel_lstop ⟨hne, hall⟩ hr]

/-- blanks (possibly none) and then `:` or `=` delimit a label -/
theorem lstop_op {g : RGrammar} (hg : GoodGrammar g) {δ : List Char} (hδ : Blanks δ) (c : Char)
    (hc : c = ':' ∨ c = '=') (x : List Char) : ∀ d ∈ (δ ++ c :: x).head?, g.labelChars.contains d = false := by
  intro d hd
  cases δ with
  | nil =>
    simp only [List.nil_append, List.head?_cons, Option.mem_def, Option.some.injEq] at hd
    subst hd
    rcases hc with rfl | rfl
    · exact hg ':' (by simp)
    · exact hg '=' (by simp)
  | cons b t =>
    simp only [List.cons_append, List.head?_cons, Option.mem_def, Option.some.injEq] at hd
    subst hd
    exact stop_not_label hg (blank_isStop (hδ b List.mem_cons_self))

/-! ### keywords -/

theorem stripPrefix_append (p cs : List Char) : stripPrefix p (p ++ cs) = some cs := by
  induction p with
  | nil => rfl
  | cons a p ih => simp [stripPrefix, ih]

/-! ### numbers (Stage 2 core) -/

def GoodExp (e : ExpLit) : Prop :=
  (e.letter = 'e' ∨ e.letter = 'E') ∧ (e.sign = none ∨ e.sign = some '+' ∨ e.sign = some '-') ∧
  e.digits ≠ [] ∧ ∀ c ∈ e.digits, isDigit c = true

instance (e : ExpLit) : Decidable (GoodExp e) := by unfold GoodExp; infer_instance

def GoodNum (n : NumLit) : Prop :=
  (n.hasSign = false → n.neg = false) ∧ (∀ c ∈ n.int, isDigit c = true) ∧
  (∀ f ∈ n.frac, ∀ c ∈ f, isDigit c = true) ∧ (∀ e ∈ n.exp, GoodExp e) ∧
  (n.int ≠ [] ∨ ∃ f ∈ n.frac, f ≠ [])

instance (n : NumLit) : Decidable (GoodNum n) := by unfold GoodNum; infer_instance

/-- the remainder after a number: nothing, or a character that cannot continue any literal -/
def NStops : List Char → Prop
  | [] => True
  | c :: _ => isDigit c = false ∧ c ≠ '.' ∧ c ≠ 'e' ∧ c ≠ 'E'

theorem Stops.nstops {r : List Char} (h : Stops r) : NStops r := by
  cases r with
  | nil => trivial
  | cons c t =>
    rcases isStop_cases h with rfl | rfl | rfl | rfl | rfl <;> exact ⟨by decide, by decide, by decide, by decide⟩

theorem takeDigits_run (ds r : List Char) (hd : ∀ c ∈ ds, isDigit c = true)
    (hr : ∀ c ∈ r.head?, isDigit c = false) : takeDigits (ds ++ r) = (ds, r) := by
  induction ds with
  | nil =>
    cases r with
    | nil => rfl
    | cons c t =>
      have : isDigit c = false := hr c (by simp)
      simp [takeDigits, this]
  | cons x a ih =>
    have hx : isDigit x = true := hd x List.mem_cons_self
    simp only [List.cons_append, takeDigits, hx, if_true]
    rw [ih (fun c hc => hd c (List.mem_cons_of_mem _ hc))]

def expText (e : ExpLit) : List Char :=
  e.letter :: ((match e.sign with | some c => [c] | none => []) ++ e.digits)

theorem takeExp_good (e : ExpLit) (he : GoodExp e) (r : List Char) (hr : ∀ c ∈ r.head?, isDigit c = false) :
    takeExp (expText e ++ r) = some (e, r) := by
  obtain ⟨hl, hs, hne, hd⟩ := he
  obtain ⟨l, s, ds⟩ := e
  simp only at hl hs hne hd
  have hl' : (l == 'e' || l == 'E') = true := by rcases hl with rfl | rfl <;> decide
  simp only [expText, List.cons_append, takeExp, hl', if_true]
  rcases hs with rfl | rfl | rfl
  · cases ds with
    | nil => exact absurd rfl hne
    | cons d t =>
      have hdd : isDigit d = true := hd d List.mem_cons_self
      have h1 : d ≠ '+' := by rintro rfl; revert hdd; decide
      have h2 : d ≠ '-' := by rintro rfl; revert hdd; decide
      simp only [List.nil_append, List.cons_append]
      split
      · rename_i heq; simp only [List.cons.injEq] at heq; exact absurd heq.1 h1
      · rename_i heq; simp only [List.cons.injEq] at heq; exact absurd heq.1 h2
      · rw [← List.cons_append, takeDigits_run _ r hd hr]; simp
  · simp only [List.cons_append, List.nil_append]
    rw [takeDigits_run _ r hd hr]
    cases ds with
    | nil => exact absurd rfl hne
    | cons d t => simp
  · simp only [List.cons_append, List.nil_append]
    rw [takeDigits_run _ r hd hr]
    cases ds with
    | nil => exact absurd rfl hne
    | cons d t => simp

theorem takeExp_none (r : List Char) (hr : ∀ c ∈ r.head?, c ≠ 'e' ∧ c ≠ 'E') : takeExp r = none := by
  cases r with
  | nil => rfl
  | cons c t =>
    obtain ⟨h1, h2⟩ := hr c (by simp)
    simp [takeExp, h1, h2]


/-- `readNumber` after its sign -/
def readU (hasSign neg : Bool) (r : List Char) : Option (NumLit × List Char) :=
  let (d, r1) := takeDigits r
  if !d.isEmpty then
    match takeExp r1 with
    | some (ex, rest) => some ({ neg, hasSign, int := d, frac := none, exp := some ex }, rest)
    | none =>
      match r1 with
      | '.' :: r2 =>
        let (f, r3) := takeDigits r2
        match takeExp r3 with
        | some (ex, rest) => some ({ neg, hasSign, int := d, frac := some f, exp := some ex }, rest)
        | none => some ({ neg, hasSign, int := d, frac := some f, exp := none }, r3)
      | _ => some ({ neg, hasSign, int := d, frac := none, exp := none }, r1)
  else
    match r with
    | '.' :: r2 =>
      let (f, r3) := takeDigits r2
      if f.isEmpty then none
      else match takeExp r3 with
        | some (ex, rest) => some ({ neg, hasSign, int := [], frac := some f, exp := some ex }, rest)
        | none => some ({ neg, hasSign, int := [], frac := some f, exp := none }, r3)
    | _ => none

theorem readNumber_plus (t : List Char) : readNumber ('+' :: t) = readU true false t := rfl
theorem readNumber_minus (t : List Char) : readNumber ('-' :: t) = readU true true t := rfl
theorem readNumber_unsigned (cs : List Char) (h1 : ∀ t, cs ≠ '+' :: t) (h2 : ∀ t, cs ≠ '-' :: t) :
    readNumber cs = readU false false cs := by
  unfold readNumber
  split
  rename_i hs ng r heq
  split at heq
  · exact absurd rfl (h1 _)
  · exact absurd rfl (h2 _)
  · cases heq; rfl

def fracText : Option (List Char) → List Char
  | some f => '.' :: f
  | none => []

def expoText : Option ExpLit → List Char
  | some e => expText e
  | none => []

theorem show_eq (n : NumLit) :
    n.show = (if n.hasSign then [if n.neg then '-' else '+'] else []) ++
      (n.int ++ (fracText n.frac ++ expoText n.exp)) := by
  obtain ⟨ng, hs, int, frac, exp⟩ := n
  cases frac <;> cases exp with
  | none => simp [NumLit.show, fracText, expoText]
  | some e =>
    obtain ⟨l, s, ds⟩ := e
    cases s <;> simp [NumLit.show, fracText, expoText, expText]

/-- the exponent part, then a remainder that cannot continue it -/
theorem takeExp_expo (x : Option ExpLit) (hx : ∀ e ∈ x, GoodExp e) (r : List Char) (hr : NStops r) :
    takeExp (expoText x ++ r) = (x.map fun e => (e, r)) := by
  cases x with
  | none =>
    simp only [expoText, List.nil_append, Option.map_none]
    apply takeExp_none
    intro c hc
    cases r with
    | nil => simp at hc
    | cons d t => simp only [List.head?_cons, Option.mem_def, Option.some.injEq] at hc; subst hc; exact ⟨hr.2.2.1, hr.2.2.2⟩
  | some e =>
    simp only [expoText, Option.map_some]
    apply takeExp_good e (hx e rfl)
    intro c hc
    cases r with
    | nil => simp at hc
    | cons d t => simp only [List.head?_cons, Option.mem_def, Option.some.injEq] at hc; subst hc; exact hr.1

/-- the head of an exponent part followed by a stopping remainder is no digit -/
theorem expo_head_nodigit (x : Option ExpLit) (hx : ∀ e ∈ x, GoodExp e) (r : List Char) (hr : NStops r) :
    ∀ c ∈ (expoText x ++ r).head?, isDigit c = false := by
  intro c hc
  cases x with
  | none =>
    cases r with
    | nil => simp [expoText] at hc
    | cons d t => simp only [expoText, List.nil_append, List.head?_cons, Option.mem_def, Option.some.injEq] at hc; subst hc; exact hr.1
  | some e =>
    simp only [expoText, expText, List.cons_append, List.head?_cons, Option.mem_def, Option.some.injEq] at hc
    subst hc
    rcases (hx e rfl).1 with h | h <;> rw [h] <;> decide

theorem readU_good (hs ng : Bool) (int : List Char) (frac : Option (List Char)) (exp : Option ExpLit)
    (hint : ∀ c ∈ int, isDigit c = true) (hfrac : ∀ f ∈ frac, ∀ c ∈ f, isDigit c = true)
    (hexp : ∀ e ∈ exp, GoodExp e) (hne : int ≠ [] ∨ ∃ f ∈ frac, f ≠ [])
    (r : List Char) (hr : NStops r) :
    readU hs ng (int ++ (fracText frac ++ (expoText exp ++ r))) =
      some ({ neg := ng, hasSign := hs, int := int, frac := frac, exp := exp }, r) := by
  have hE := takeExp_expo exp hexp r hr
  have hH := expo_head_nodigit exp hexp r hr
  unfold readU
  cases frac with
  | none =>
    have hine : int ≠ [] := by
      rcases hne with h | ⟨f, hf, _⟩
      · exact h
      · cases hf
    simp only [fracText, List.nil_append]
    have h1 := takeDigits_run int _ hint hH
    simp only [h1]
    have : (!int.isEmpty) = true := by cases int with
      | nil => exact absurd rfl hine
      | cons _ _ => rfl
    simp only [this, if_true, hE]
    cases exp with
    | some e => simp
    | none =>
      simp only [Option.map_none, expoText, List.nil_append]
      split
      · exact absurd rfl hr.2.1
      · rfl
  | some f =>
    have hf : ∀ c ∈ f, isDigit c = true := hfrac f rfl
    simp only [fracText, List.cons_append]
    have hdot : ∀ c ∈ ('.' :: (f ++ (expoText exp ++ r))).head?, isDigit c = false := by
      intro c hc
      simp only [List.head?_cons, Option.mem_def, Option.some.injEq] at hc
      subst hc; decide
    have h1 := takeDigits_run int _ hint hdot
    simp only [h1]
    cases int with
    | cons d ds =>
      have hdotE : takeExp ('.' :: (f ++ (expoText exp ++ r))) = none := by simp [takeExp]
      simp only [List.isEmpty_cons, Bool.not_false, if_true, hdotE]
      have h2 := takeDigits_run f _ hf hH
      simp only [h2]
      simp only [hE]
      cases exp <;> simp [expoText]
    | nil =>
      have hfne : f ≠ [] := by
        rcases hne with h | ⟨f', hf', h⟩
        · exact absurd rfl h
        · cases hf'; exact h
      simp only [List.isEmpty_nil, Bool.not_true, Bool.false_eq_true, if_false, List.nil_append]
      have h2 := takeDigits_run f _ hf hH
      simp only [h2]
      have : f.isEmpty = false := by cases f with
        | nil => exact absurd rfl hfne
        | cons _ _ => rfl
      simp only [this, Bool.false_eq_true, if_false, hE]
      cases exp <;> simp [expoText]

/-- Stage 2 core: a well formed literal followed by a character that cannot continue it is read
    back exactly, with the remainder untouched -/
theorem readNumber_show (n : NumLit) (hn : GoodNum n) (r : List Char) (hr : NStops r) :
    readNumber (n.show ++ r) = some (n, r) := by
  obtain ⟨hsn, hint, hfrac, hexp, hne⟩ := hn
  obtain ⟨ng, hs, int, frac, exp⟩ := n
  simp only at hsn hint hfrac hexp hne
  rw [show_eq]
  simp only [List.append_assoc]
  have core := readU_good hs ng int frac exp hint hfrac hexp hne r hr
  cases hs with
  | true =>
    cases ng with
    | true => simpa [readNumber_minus] using core
    | false => simpa [readNumber_plus] using core
  | false =>
    have : ng = false := hsn rfl
    subst this
    simp only [Bool.false_eq_true, if_false, List.nil_append]
    rw [readNumber_unsigned _ _ _, core]
    all_goals
      intro t heq
      cases int with
      | cons d ds =>
        simp only [List.cons_append, List.cons.injEq] at heq
        have := hint d List.mem_cons_self
        rw [heq.1] at this; revert this; decide
      | nil =>
        rcases hne with h | ⟨f, hf, _⟩
        · exact h rfl
        · cases hf
          simp [fracText] at heq

/-! a text on which `readNumber` fails still fails when a remainder follows that cannot start or
    continue a literal -/

theorem takeDigits_fst_nil_append (t r : List Char) (ht : (takeDigits t).1 = []) (hr : NStops r) :
    (takeDigits (t ++ r)).1 = [] := by
  cases t with
  | nil =>
    cases r with
    | nil => rfl
    | cons c u => simp [takeDigits, hr.1]
  | cons d u =>
    by_cases hd : isDigit d = true
    · simp [takeDigits, hd] at ht
    · simp [takeDigits, hd]

theorem readU_digit_ne_none (hs ng : Bool) (c : Char) (t : List Char) (hc : isDigit c = true) :
    readU hs ng (c :: t) ≠ none := by
  intro h
  unfold readU at h
  simp only [takeDigits, hc, if_true] at h
  simp only [List.isEmpty_cons, Bool.not_false, if_true] at h
  split at h
  · cases h
  · split at h
    · split at h <;> cases h
    · cases h

theorem readU_none_append (hs ng : Bool) (a r : List Char) (h : readU hs ng a = none) (hr : NStops r) :
    readU hs ng (a ++ r) = none := by
  cases a with
  | nil =>
    cases r with
    | nil => exact h
    | cons c u =>
      simp only [List.nil_append]
      unfold readU
      simp only [takeDigits, hr.1, Bool.false_eq_true, if_false, List.isEmpty_nil, Bool.not_true]
      split
      · rename_i heq; simp only [List.cons.injEq] at heq; exact absurd heq.1.symm (Ne.symm hr.2.1)
      · rfl
  | cons c t =>
    by_cases hc : isDigit c = true
    · exact absurd h (readU_digit_ne_none hs ng c t hc)
    · unfold readU at h ⊢
      simp only [List.cons_append, takeDigits, hc, Bool.false_eq_true, if_false, List.isEmpty_nil, Bool.not_true] at h ⊢
      split
      · rename_i r2 heq
        simp only [List.cons.injEq] at heq
        obtain ⟨rfl, rfl⟩ := heq
        -- the point: no digit follows it
        have ht : (takeDigits t).1 = [] := by
          split at h
          · rename_i r1a r1b r2' heq'
            simp only [List.cons.injEq, true_and] at heq'
            subst heq'
            by_cases he : (takeDigits t).1.isEmpty = true
            · simpa using he
            · simp only [he, Bool.false_eq_true, if_false] at h
              split at h <;> cases h
          · rename_i hne; exact absurd rfl (hne t)
        have := takeDigits_fst_nil_append t r ht hr
        simp [this]
      · rfl

theorem readNumber_none_append (a r : List Char) (ha : a ≠ []) (h : readNumber a = none) (hr : NStops r) :
    readNumber (a ++ r) = none := by
  cases a with
  | nil => exact absurd rfl ha
  | cons c t =>
    by_cases h1 : c = '+'
    · subst h1
      rw [readNumber_plus] at h
      rw [List.cons_append, readNumber_plus]
      exact readU_none_append _ _ t r h hr
    · by_cases h2 : c = '-'
      · subst h2
        rw [readNumber_minus] at h
        rw [List.cons_append, readNumber_minus]
        exact readU_none_append _ _ t r h hr
      · have e1 : ∀ x, c :: t ≠ '+' :: x := by intro x heq; simp only [List.cons.injEq] at heq; exact h1 heq.1
        have e2 : ∀ x, c :: t ≠ '-' :: x := by intro x heq; simp only [List.cons.injEq] at heq; exact h2 heq.1
        have e3 : ∀ x, c :: t ++ r ≠ '+' :: x := by intro x heq; simp only [List.cons_append, List.cons.injEq] at heq; exact h1 heq.1
        have e4 : ∀ x, c :: t ++ r ≠ '-' :: x := by intro x heq; simp only [List.cons_append, List.cons.injEq] at heq; exact h2 heq.1
        rw [readNumber_unsigned _ e1 e2] at h
        rw [readNumber_unsigned _ e3 e4]
        exact readU_none_append _ _ _ r h hr

/-- the literal a text is (if it is exactly one literal) -/
def numLitOf (v : String) : Option NumLit :=
  match readNumber v.toList with
  | some (n, []) => some n
  | _ => none

/-- a numeric text: exactly the rendering of a well formed literal -/
def NumText (v : String) : Prop := ∃ n ∈ numLitOf v, GoodNum n ∧ n.show = v.toList

instance (v : String) : Decidable (NumText v) := by unfold NumText; infer_instance

example : NumText "-1.5e-3" := by decide
example : NumText ".5" := by decide
example : NumText "12." := by decide
example : ¬ NumText "1e" := by decide

theorem NumText.lit {v : String} (h : NumText v) : ∃ n, GoodNum n ∧ n.show = v.toList := by
  obtain ⟨n, _, h1, h2⟩ := h
  exact ⟨n, h1, h2⟩

theorem show_head (n : NumLit) (hn : GoodNum n) :
    ∃ c t, n.show = c :: t ∧ isBlankC c = false ∧ c ≠ '#' := by
  obtain ⟨hsn, hint, hfrac, hexp, hne⟩ := hn
  rw [show_eq]
  cases hs : n.hasSign with
  | true =>
    cases n.neg
    · exact ⟨'+', _, rfl, by decide, by decide⟩
    · exact ⟨'-', _, rfl, by decide, by decide⟩
  | false =>
    simp only [Bool.false_eq_true, if_false, List.nil_append]
    cases hi : n.int with
    | cons d ds =>
      refine ⟨d, _, rfl, ?_, ?_⟩
      · have := hint d (by rw [hi]; exact List.mem_cons_self)
        cases hb : isBlankC d with
        | false => rfl
        | true => rw [stop_not_digit (blank_isStop hb)] at this; cases this
      · rintro rfl
        have := hint '#' (by rw [hi]; exact List.mem_cons_self)
        revert this; decide
    | nil =>
      rcases hne with h | ⟨f, hf, _⟩
      · exact absurd hi h
      · have : n.frac = some f := hf
        rw [this]
        exact ⟨'.', _, rfl, by decide, by decide⟩

theorem takeNumberText_good {v : String} (hv : NumText v) {r : List Char} (hr : Stops r) :
    takeNumberText (v.toList ++ r) = some (v, r) := by
  obtain ⟨n, hn, hsh⟩ := hv.lit
  unfold takeNumberText
  rw [← hsh, readNumber_show n hn r hr.nstops]
  simp [hsh]

theorem rNumber_good {v : String} (hv : NumText v) {gap : List Char} (hgap : Blanks gap)
    {r : List Char} (hr : Stops r) : rNumber (gap ++ (v.toList ++ r)) = .ok (v, r) := by
  obtain ⟨n, hn, hsh⟩ := hv.lit
  obtain ⟨c, t, hct, hb, hh⟩ := show_head n hn
  unfold rNumber
  rw [← hsh, hct, List.cons_append, skipIgnored_gap false _ gap c _ hgap hb hh, ← List.cons_append, ← hct, hsh,
    takeNumberText_good hv hr]

theorem rLit_good (t : String) (c : Char) (tl : List Char) (ht : t.toList = c :: tl) (hb : isBlankC c = false)
    (hh : c ≠ '#') {gap : List Char} (hgap : Blanks gap) (r : List Char) :
    rLit t (gap ++ (t.toList ++ r)) = .ok r := by
  unfold rLit hasPrefix
  rw [ht, List.cons_append, skipIgnored_gap false _ gap c _ hgap hb hh, ← List.cons_append, stripPrefix_append]

/-! ### keyword dispatch of `rStmt` -/

section dispatch
variable (g : RGrammar) (rest : List Char)

theorem rStmt_jetset : rStmt g ("JetSetPar".toList ++ rest) = (do
      let (a, r) ← rLabel g rest
      let r ← rLit "=" r
      let (n, r) ← rNumber r
      pure (.jetset a n, r)) := by
  simp [rStmt, firstPrefix, hasPrefix, stripPrefix]

theorem rStmt_lsDef (k : String) (hk : k ∈ ["LSMANYDELTAFUNC", "LSNONRELBW", "LSFLAT"]) :
    rStmt g (k.toList ++ rest) = (do let (a, r) ← rLabel g rest; pure (.lsDef k a, r)) := by
  simp only [List.mem_cons, List.not_mem_nil, or_false] at hk
  rcases hk with rfl | rfl | rfl <;> simp [rStmt, firstPrefix, hasPrefix, stripPrefix]

theorem rStmt_setLsBW : rStmt g ("BlattWeisskopf".toList ++ rest) =
    (do let (a, r) ← rLabel g rest; let (n, r) ← rNumber r; pure (.setLsBW a n, r)) := by
  simp [rStmt, firstPrefix, hasPrefix, stripPrefix]

theorem rStmt_setLsPW : rStmt g ("SetLineshapePW".toList ++ rest) = (do
      let (a, r) ← rLabel g rest
      let (b, r) ← rLabel g r
      let (c, r) ← rLabel g r
      let j := skipIgnored false (r.length + 1) r
      let (ds, r') := takeDigits j
      if ds.isEmpty then throw "integer" else pure (.setLsPW a b c (String.ofList ds), r')) := by
  simp [rStmt, firstPrefix, hasPrefix, stripPrefix]

theorem rStmt_cdecay : rStmt g ("CDecay".toList ++ rest) =
    (do let (a, r) ← rLabel g rest; pure (.cdecay a, r)) := by
  simp [rStmt, firstPrefix, hasPrefix, stripPrefix]

theorem rStmt_define : rStmt g ("Define".toList ++ rest) =
    (do let (a, r) ← rLabel g rest; let (n, r) ← rNumber r; pure (.define a n, r)) := by
  simp [rStmt, firstPrefix, hasPrefix, stripPrefix]

theorem rStmt_alias : rStmt g ("Alias".toList ++ rest) =
    (do let (a, r) ← rLabel g rest; let (b, r) ← rLabel g r; pure (.alias a b, r)) := by
  simp [rStmt, firstPrefix, hasPrefix, stripPrefix]

theorem rStmt_chargeConj : rStmt g ("ChargeConj".toList ++ rest) =
    (do let (a, r) ← rLabel g rest; let (b, r) ← rLabel g r; pure (.chargeConj a b, r)) := by
  simp [rStmt, firstPrefix, hasPrefix, stripPrefix]

theorem rStmt_changeMass (k : String) (hk : k ∈ ["ChangeMassMin", "ChangeMassMax"]) :
    rStmt g (k.toList ++ rest) =
      (do let (a, r) ← rLabel g rest; let (n, r) ← rNumber r; pure (.changeMass k a n, r)) := by
  simp only [List.mem_cons, List.not_mem_nil, or_false] at hk
  rcases hk with rfl | rfl <;> simp [rStmt, firstPrefix, hasPrefix, stripPrefix]

theorem rStmt_yesPhotos : rStmt g ("yesPhotos".toList ++ rest) = .ok (.globalPhotos true, rest) := by
  simp [rStmt, firstPrefix, hasPrefix, stripPrefix]; rfl

theorem rStmt_noPhotos : rStmt g ("noPhotos".toList ++ rest) = .ok (.globalPhotos false, rest) := by
  simp [rStmt, firstPrefix, hasPrefix, stripPrefix]; rfl

theorem rStmt_copyDecay : rStmt g ("CopyDecay".toList ++ rest) =
    (do let (a, r) ← rLabel g rest; let (b, r) ← rLabel g r; pure (.copyDecay a b, r)) := by
  simp [rStmt, firstPrefix, hasPrefix, stripPrefix]

end dispatch


/-- unfold the keyword dispatch of `rStmt` on a text that starts with a literal keyword -/
macro "dispatch" : tactic =>
  `(tactic| simp only [rStmt, firstPrefix, hasPrefix, String.reduceToList, List.cons_append, Char.isValue,
      List.nil_append, stripPrefix, Char.reduceEq, reduceIte])

/-! ### rendering of the flat statements -/

def paramText : Param → String
  | .num v => v
  | .word w => w

/-- the statement text with the blank runs `γ 0`, `γ 1`, … between its tokens, and the (possibly
    empty) blank runs `δ 0`, `δ 1`, … around `:` and `=` -/
def renderG (γ δ : Nat → List Char) : Stmt → List Char
  | .define a v => "Define".toList ++ γ 0 ++ a.toList ++ γ 1 ++ v.toList
  | .particleDef a m none => "Particle".toList ++ γ 0 ++ a.toList ++ γ 1 ++ m.toList
  | .particleDef a m (some w) => "Particle".toList ++ γ 0 ++ a.toList ++ γ 1 ++ m.toList ++ γ 2 ++ w.toList
  | .pythia k a b v =>
    k.toList ++ γ 0 ++ a.toList ++ δ 0 ++ [':'] ++ δ 1 ++ b.toList ++ δ 2 ++ ['='] ++ δ 3 ++ (paramText v).toList
  | .jetset a v => "JetSetPar".toList ++ γ 0 ++ a.toList ++ δ 0 ++ ['='] ++ δ 1 ++ v.toList
  | .lsDef k a => k.toList ++ γ 0 ++ a.toList
  | .incFactor k a y => k.toList ++ γ 0 ++ a.toList ++ γ 1 ++ (if y then "yes" else "no").toList
  | .setLsBW a v => "BlattWeisskopf".toList ++ γ 0 ++ a.toList ++ γ 1 ++ v.toList
  | .setLsPW a b c v =>
    "SetLineshapePW".toList ++ γ 0 ++ a.toList ++ γ 1 ++ b.toList ++ γ 2 ++ c.toList ++ γ 3 ++ v.toList
  | .cdecay a => "CDecay".toList ++ γ 0 ++ a.toList
  | .alias a b => "Alias".toList ++ γ 0 ++ a.toList ++ γ 1 ++ b.toList
  | .chargeConj a b => "ChargeConj".toList ++ γ 0 ++ a.toList ++ γ 1 ++ b.toList
  | .changeMass k a v => k.toList ++ γ 0 ++ a.toList ++ γ 1 ++ v.toList
  | .globalPhotos y => (if y then "yesPhotos" else "noPhotos").toList
  | .copyDecay a b => "CopyDecay".toList ++ γ 0 ++ a.toList ++ γ 1 ++ b.toList
  | .decay _ _ => []
  | .modelAlias _ _ => []

/-- a text of digits (the last field of `SetLineshapePW`) -/
def DigitsText (v : String) : Prop := v.toList ≠ [] ∧ ∀ c ∈ v.toList, isDigit c = true

instance (v : String) : Decidable (DigitsText v) := by unfold DigitsText; infer_instance

/-- a word that cannot be taken for the start of a number: `readNumber` fails on it, i.e. after an
    optional sign comes neither a digit nor a point followed by a digit (`-dm`, `+x`, `-.x`, `-e5`, `-`
    are such words; `-1x`, `.5a`, `+.5` are not) -/
def NotNum (w : String) : Prop := readNumber w.toList = none

instance (w : String) : Decidable (NotNum w) := by unfold NotNum; infer_instance

example : NotNum "-dm" ∧ NotNum "+x" ∧ NotNum "-.x" ∧ NotNum "-e5" ∧ NotNum "-" ∧ NotNum "." ∧ NotNum "PHOTOS" ∧
    ¬ NotNum "-1x" ∧ ¬ NotNum ".5a" ∧ ¬ NotNum "+.5" ∧ ¬ NotNum "3-body" := by decide

def GoodParam (g : RGrammar) : Param → Prop
  | .num v => NumText v
  | .word w => GoodLabel g w ∧ NotNum w

instance (g : RGrammar) (p : Param) : Decidable (GoodParam g p) := by
  cases p <;> simp only [GoodParam] <;> infer_instance

/-- Stage 1: the label-only statement kinds -/
def FlatOK (g : RGrammar) : Stmt → Prop
  | .alias a b => GoodLabel g a ∧ GoodLabel g b
  | .chargeConj a b => GoodLabel g a ∧ GoodLabel g b
  | .cdecay a => GoodLabel g a
  | .copyDecay a b => GoodLabel g a ∧ GoodLabel g b
  | .lsDef k a => k ∈ ["LSMANYDELTAFUNC", "LSNONRELBW", "LSFLAT"] ∧ GoodLabel g a
  | .incFactor k a _ => k ∈ ["IncludeBirthFactor", "IncludeDecayFactor"] ∧ GoodLabel g a
  | .globalPhotos _ => True
  | _ => False

instance (g : RGrammar) (s : Stmt) : Decidable (FlatOK g s) := by
  cases s <;> simp only [FlatOK] <;> infer_instance

/-- Stage 2: all statement kinds that fit on one line (labels, numbers, `:` and `=`) -/
def FlatNumOK (g : RGrammar) : Stmt → Prop
  | .define a v => GoodLabel g a ∧ NumText v
  | .particleDef a m w => GoodLabel g a ∧ NumText m ∧ ∀ x ∈ w, NumText x
  | .pythia k a b v =>
    k ∈ ["PythiaGenericParam", "PythiaAliasParam", "PythiaBothParam"] ∧ GoodLabel g a ∧ GoodLabel g b ∧ GoodParam g v
  | .jetset a v => GoodLabel g a ∧ NumText v
  | .setLsBW a v => GoodLabel g a ∧ NumText v
  | .setLsPW a b c v => GoodLabel g a ∧ GoodLabel g b ∧ GoodLabel g c ∧ DigitsText v
  | .changeMass k a v => k ∈ ["ChangeMassMin", "ChangeMassMax"] ∧ GoodLabel g a ∧ NumText v
  | .decay _ _ => False
  | .modelAlias _ _ => False
  | s => FlatOK g s

instance (g : RGrammar) (s : Stmt) : Decidable (FlatNumOK g s) := by
  cases s <;> simp only [FlatNumOK] <;> infer_instance

theorem FlatOK.num {g : RGrammar} {s : Stmt} (h : FlatOK g s) : FlatNumOK g s := by
  cases s <;> simp only [FlatOK] at h <;> simp only [FlatNumOK, FlatOK] <;> exact h

/-- what may follow a flat statement: a stop character, and after the blanks no number -/
def EndsStmt (r : List Char) : Prop := Stops r ∧ readNumber (skipWs r) = none

theorem label_head {g : RGrammar} (hg : GoodGrammar g) {w : String} (hw : GoodLabel g w) :
    ∃ c t, w.toList = c :: t ∧ isBlankC c = false ∧ c ≠ '#' := by
  obtain ⟨hne, hall⟩ := hw
  cases hwl : w.toList with
  | nil => exact absurd hwl hne
  | cons c t =>
    have hc : g.labelChars.contains c = true := hall c (by rw [hwl]; exact List.mem_cons_self)
    exact ⟨c, t, rfl, label_not_blank hg hc, label_not_hash hg hc⟩

theorem numText_head {v : String} (hv : NumText v) :
    ∃ c t, v.toList = c :: t ∧ isBlankC c = false ∧ c ≠ '#' := by
  obtain ⟨n, hn, hsh⟩ := hv.lit
  rw [← hsh]; exact show_head n hn

theorem digitsText_head {v : String} (hv : DigitsText v) :
    ∃ c t, v.toList = c :: t ∧ isBlankC c = false ∧ c ≠ '#' := by
  obtain ⟨hne, hall⟩ := hv
  cases hvl : v.toList with
  | nil => exact absurd hvl hne
  | cons c t =>
    have hc : isDigit c = true := hall c (by rw [hvl]; exact List.mem_cons_self)
    refine ⟨c, t, rfl, ?_, ?_⟩
    · cases hb : isBlankC c with
      | false => rfl
      | true => rw [stop_not_digit (blank_isStop hb)] at hc; cases hc
    · rintro rfl; revert hc; decide

/-- blanks before a token -/
theorem skipIgnored_tok (b : Bool) (f : Nat) {gap : List Char} (hgap : Blanks gap) {t : List Char}
    (ht : ∃ c tl, t = c :: tl ∧ isBlankC c = false ∧ c ≠ '#') (r : List Char) :
    skipIgnored b (f + 1) (gap ++ (t ++ r)) = t ++ r := by
  obtain ⟨c, tl, rfl, hb, hh⟩ := ht
  exact skipIgnored_gap b f gap c _ hgap hb hh

theorem skipWs_tok {gap : List Char} (hgap : Blanks gap) {t : List Char}
    (ht : ∃ c tl, t = c :: tl ∧ isBlankC c = false ∧ c ≠ '#') (r : List Char) :
    skipWs (gap ++ (t ++ r)) = t ++ r := by
  obtain ⟨c, tl, rfl, hb, hh⟩ := ht
  rw [skipWs_blanks _ _ hgap]; exact skipWs_nonblank c _ hb

theorem rLit_colon {gap : List Char} (hgap : Blanks gap) (r : List Char) :
    rLit ":" (gap ++ ':' :: r) = .ok r :=
  rLit_good ":" ':' [] rfl (by decide) (by decide) hgap r

theorem rLit_equals {gap : List Char} (hgap : Blanks gap) (r : List Char) :
    rLit "=" (gap ++ '=' :: r) = .ok r :=
  rLit_good "=" '=' [] rfl (by decide) (by decide) hgap r

theorem takeNumberText_notNum {w : String} (hn : NotNum w) (hne : w.toList ≠ []) {r : List Char} (hr : NStops r) :
    takeNumberText (w.toList ++ r) = none := by
  unfold takeNumberText
  rw [readNumber_none_append _ r hne hn hr]
  rfl

/-- a rendered flat statement is read back, whatever the blank runs between its tokens -/
theorem rStmt_render {g : RGrammar} (hg : GoodGrammar g) (γ : Nat → List Char) (hγ : ∀ i, GoodGap (γ i))
    (δ : Nat → List Char) (hδ : ∀ i, Blanks (δ i))
    (s : Stmt) (hs : FlatNumOK g s) (r : List Char) (hr : EndsStmt r) :
    rStmt g (renderG γ δ s ++ r) = .ok (s, r) := by
  have G : ∀ i x, Stops (γ i ++ x) := fun i x => Stops_gap (hγ i) x
  have B : ∀ i, Blanks (γ i) := fun i => (hγ i).2
  cases s with
  | alias a b =>
    obtain ⟨ha, hb⟩ := hs
    unfold renderG
    simp only [List.append_assoc]
    rw [rStmt_alias, rLabel_good hg ha (B 0) (G 1 _)]
    simp only [bind, Except.bind]
    rw [rLabel_good hg hb (B 1) hr.1]
    rfl
  | chargeConj a b =>
    obtain ⟨ha, hb⟩ := hs
    unfold renderG
    simp only [List.append_assoc]
    rw [rStmt_chargeConj, rLabel_good hg ha (B 0) (G 1 _)]
    simp only [bind, Except.bind]
    rw [rLabel_good hg hb (B 1) hr.1]
    rfl
  | copyDecay a b =>
    obtain ⟨ha, hb⟩ := hs
    unfold renderG
    simp only [List.append_assoc]
    rw [rStmt_copyDecay, rLabel_good hg ha (B 0) (G 1 _)]
    simp only [bind, Except.bind]
    rw [rLabel_good hg hb (B 1) hr.1]
    rfl
  | cdecay a =>
    simp only [FlatNumOK, FlatOK] at hs
    unfold renderG
    simp only [List.append_assoc]
    rw [rStmt_cdecay, rLabel_good hg hs (B 0) hr.1]
    rfl
  | lsDef k a =>
    obtain ⟨hk, ha⟩ := hs
    unfold renderG
    simp only [List.append_assoc]
    rw [rStmt_lsDef g _ k hk, rLabel_good hg ha (B 0) hr.1]
    rfl
  | globalPhotos y =>
    cases y
    · exact rStmt_noPhotos g r
    · exact rStmt_yesPhotos g r
  | define a v =>
    obtain ⟨ha, hv⟩ := hs
    unfold renderG
    simp only [List.append_assoc]
    rw [rStmt_define, rLabel_good hg ha (B 0) (G 1 _)]
    simp only [bind, Except.bind]
    rw [rNumber_good hv (B 1) hr.1]
    rfl
  | setLsBW a v =>
    obtain ⟨ha, hv⟩ := hs
    unfold renderG
    simp only [List.append_assoc]
    rw [rStmt_setLsBW, rLabel_good hg ha (B 0) (G 1 _)]
    simp only [bind, Except.bind]
    rw [rNumber_good hv (B 1) hr.1]
    rfl
  | changeMass k a v =>
    obtain ⟨hk, ha, hv⟩ := hs
    unfold renderG
    simp only [List.append_assoc]
    rw [rStmt_changeMass g _ k hk, rLabel_good hg ha (B 0) (G 1 _)]
    simp only [bind, Except.bind]
    rw [rNumber_good hv (B 1) hr.1]
    rfl
  | jetset a v =>
    obtain ⟨ha, hv⟩ := hs
    unfold renderG
    simp only [List.append_assoc, List.cons_append, List.nil_append]
    rw [rStmt_jetset, rLabel_lstop hg ha (B 0) (lstop_op hg (hδ 0) '=' (Or.inr rfl) _)]
    simp only [bind, Except.bind]
    rw [rLit_equals (hδ 0)]
    simp only []
    rw [rNumber_good hv (hδ 1) hr.1]
    rfl
  | setLsPW a b c v =>
    obtain ⟨ha, hb, hc, hv⟩ := hs
    unfold renderG
    simp only [List.append_assoc]
    rw [rStmt_setLsPW, rLabel_good hg ha (B 0) (G 1 _)]
    simp only [bind, Except.bind]
    rw [rLabel_good hg hb (B 1) (G 2 _)]
    simp only []
    rw [rLabel_good hg hc (B 2) (G 3 _)]
    simp only []
    rw [skipIgnored_tok false _ (B 3) (digitsText_head hv)]
    have hd := takeDigits_run v.toList r hv.2 (by
      intro d hd
      cases r with
      | nil => simp at hd
      | cons e t => simp only [List.head?_cons, Option.mem_def, Option.some.injEq] at hd; subst hd; exact stop_not_digit hr.1)
    have hne : v.toList.isEmpty = false := by
      cases h : v.toList with
      | nil => exact absurd h hv.1
      | cons _ _ => rfl
    simp only [hd, hne, Bool.false_eq_true, if_false, String.ofList_toList]
    rfl
  | incFactor k a y =>
    obtain ⟨hk, ha⟩ := hs
    simp only [List.mem_cons, List.not_mem_nil, or_false] at hk
    rcases hk with rfl | rfl <;> cases y <;>
    · unfold renderG
      simp only [List.append_assoc, if_true, Bool.false_eq_true, if_false]
      dispatch
      rw [rLabel_good hg ha (B 0) (G 1 _)]
      simp only [bind, Except.bind]
      rw [skipIgnored_gap false _ _ _ _ (B 1) (by decide) (by decide)]
      simp only [stripPrefix, Char.reduceEq, reduceIte]
      rfl
  | particleDef a m w =>
    obtain ⟨ha, hm, hw⟩ := hs
    cases w with
    | none =>
      unfold renderG
      simp only [List.append_assoc]
      dispatch
      rw [rLabel_good hg ha (B 0) (G 1 _)]
      simp only [bind, Except.bind]
      rw [rNumber_good hm (B 1) hr.1]
      simp only [skipIgnored_true]
      have : takeNumberText (skipWs r) = none := by simp [takeNumberText, hr.2]
      rw [this]
      rfl
    | some w =>
      have hw' : NumText w := hw w rfl
      unfold renderG
      simp only [List.append_assoc]
      dispatch
      rw [rLabel_good hg ha (B 0) (G 1 _)]
      simp only [bind, Except.bind]
      rw [rNumber_good hm (B 1) (G 2 _)]
      simp only [skipIgnored_true]
      rw [skipWs_tok (B 2) (numText_head hw'), takeNumberText_good hw' hr.1]
      rfl
  | pythia k a b v =>
    obtain ⟨hk, ha, hb, hv⟩ := hs
    simp only [List.mem_cons, List.not_mem_nil, or_false] at hk
    cases v with
    | num v =>
      simp only [GoodParam] at hv
      rcases hk with rfl | rfl | rfl <;>
      · unfold renderG
        simp only [paramText, List.append_assoc, List.cons_append, List.nil_append]
        dispatch
        rw [rLabel_lstop hg ha (B 0) (lstop_op hg (hδ 0) ':' (Or.inl rfl) _)]
        simp only [bind, Except.bind]
        rw [rLit_colon (hδ 0)]
        simp only []
        rw [rLabel_lstop hg hb (hδ 1) (lstop_op hg (hδ 2) '=' (Or.inr rfl) _)]
        simp only []
        rw [rLit_equals (hδ 2)]
        simp only []
        rw [skipIgnored_tok false _ (hδ 3) (numText_head hv), takeNumberText_good hv hr.1]
        rfl
    | word w =>
      simp only [GoodParam] at hv
      rcases hk with rfl | rfl | rfl <;>
      · unfold renderG
        simp only [paramText, List.append_assoc, List.cons_append, List.nil_append]
        dispatch
        rw [rLabel_lstop hg ha (B 0) (lstop_op hg (hδ 0) ':' (Or.inl rfl) _)]
        simp only [bind, Except.bind]
        rw [rLit_colon (hδ 0)]
        simp only []
        rw [rLabel_lstop hg hb (hδ 1) (lstop_op hg (hδ 2) '=' (Or.inr rfl) _)]
        simp only []
        rw [rLit_equals (hδ 2)]
        simp only []
        rw [skipIgnored_tok false _ (hδ 3) (label_head hg hv.1), takeNumberText_notNum hv.2 hv.1.1 hr.1.nstops,
          takeLabel_good hg hv.1 hr.1]
        rfl
  | decay _ _ => exact absurd hs (by simp [FlatNumOK])
  | modelAlias _ _ => exact absurd hs (by simp [FlatNumOK])

/-- a rendered flat statement starts with its keyword: no blank, and not `End` -/
theorem render_head {g : RGrammar} (γ δ : Nat → List Char) (s : Stmt) (hs : FlatNumOK g s) :
    ∃ c t, renderG γ δ s = c :: t ∧ isStop c = false ∧ c ≠ 'E' := by
  cases s with
  | decay _ _ => exact absurd hs (by simp [FlatNumOK])
  | modelAlias _ _ => exact absurd hs (by simp [FlatNumOK])
  | lsDef k a =>
    have hk := hs.1
    simp only [List.mem_cons, List.not_mem_nil, or_false] at hk
    rcases hk with rfl | rfl | rfl <;>
    · unfold renderG
      simp only [String.reduceToList, List.cons_append, List.append_assoc]
      exact ⟨_, _, rfl, by decide, by decide⟩
  | incFactor k a y =>
    have hk := hs.1
    simp only [List.mem_cons, List.not_mem_nil, or_false] at hk
    rcases hk with rfl | rfl <;>
    · unfold renderG
      simp only [String.reduceToList, List.cons_append, List.append_assoc]
      exact ⟨_, _, rfl, by decide, by decide⟩
  | changeMass k a v =>
    have hk := hs.1
    simp only [List.mem_cons, List.not_mem_nil, or_false] at hk
    rcases hk with rfl | rfl <;>
    · unfold renderG
      simp only [String.reduceToList, List.cons_append, List.append_assoc]
      exact ⟨_, _, rfl, by decide, by decide⟩
  | pythia k a b v =>
    have hk := hs.1
    simp only [List.mem_cons, List.not_mem_nil, or_false] at hk
    rcases hk with rfl | rfl | rfl <;>
    · unfold renderG
      simp only [String.reduceToList, List.cons_append, List.append_assoc]
      exact ⟨_, _, rfl, by decide, by decide⟩
  | globalPhotos y =>
    cases y <;>
    · unfold renderG
      simp only [String.reduceToList, if_true, Bool.false_eq_true, if_false]
      exact ⟨_, _, rfl, by decide, by decide⟩
  | particleDef a m w =>
    cases w <;>
    · unfold renderG
      simp only [String.reduceToList, List.cons_append, List.append_assoc]
      exact ⟨_, _, rfl, by decide, by decide⟩
  | _ =>
    unfold renderG
    simp only [String.reduceToList, List.cons_append, List.append_assoc]
    exact ⟨_, _, rfl, by decide, by decide⟩

/-! ### line ends -/

theorem dropLine_length (r : List Char) : (dropLine r).length ≤ r.length := by
  induction r with
  | nil => simp [dropLine]
  | cons c t ih =>
    by_cases hc : (c == '\n') = true
    · simp [dropLine, hc]
    · simp only [dropLine, hc, Bool.false_eq_true, if_false, List.length_cons]; omega

theorem takeNewline_length {cs r : List Char} (h : takeNewline cs = some r) : r.length < cs.length := by
  unfold takeNewline at h
  split at h
  · cases h; have := dropLine_length ‹_›; simp only [List.length_cons]; omega
  · cases h; have := skipWs_length ‹_›; simp only [List.length_cons]; omega
  · cases h; have := skipWs_length ‹_›; simp only [List.length_cons]; omega
  · cases h

/-- enough fuel is enough fuel -/
theorem newlines0_fuel (f f' : Nat) (cs : List Char) (h : cs.length < f) (h' : cs.length < f') :
    newlines0 f cs = newlines0 f' cs := by
  induction f generalizing f' cs with
  | zero => omega
  | succ f ih =>
    cases f' with
    | zero => omega
    | succ f' =>
      simp only [newlines0]
      cases ht : takeNewline (skipWs cs) with
      | none => rfl
      | some r =>
        have h1 := takeNewline_length ht
        have h2 := skipWs_length cs
        exact ih f' r (by omega) (by omega)

/-- all line-end tokens at the head of the text, with enough fuel -/
def nl (cs : List Char) : List Char := newlines0 (cs.length + 1) cs

theorem nl_step {cs r : List Char} (h : takeNewline (skipWs cs) = some r) : nl cs = nl r := by
  have h1 := takeNewline_length h
  have h2 := skipWs_length cs
  unfold nl
  have : newlines0 (cs.length + 1) cs = newlines0 cs.length r := by simp only [newlines0, h]
  rw [this]
  exact newlines0_fuel _ _ _ (by omega) (by omega)

theorem nl_stop {cs : List Char} (h : takeNewline (skipWs cs) = none) : nl cs = skipWs cs := by
  unfold nl
  simp only [newlines0, h]

theorem nl_skipWs (cs : List Char) : nl (skipWs cs) = nl cs := by
  cases h : takeNewline (skipWs cs) with
  | none => rw [nl_stop h, nl_stop (by rw [skipWs_idem]; exact h), skipWs_idem]
  | some r => rw [nl_step h, nl_step (by rw [skipWs_idem]; exact h)]

theorem nl_blanks {gap : List Char} (hgap : Blanks gap) (cs : List Char) : nl (gap ++ cs) = nl cs := by
  rw [← nl_skipWs, skipWs_blanks _ _ hgap, nl_skipWs]

theorem nl_lf (cs : List Char) : nl ('\n' :: cs) = nl cs := by
  have : takeNewline (skipWs ('\n' :: cs)) = some (skipWs cs) := by
    rw [skipWs_nonblank _ _ (by decide)]; rfl
  rw [nl_step this, nl_skipWs]

theorem nl_crlf (cs : List Char) : nl ('\r' :: '\n' :: cs) = nl cs := by
  have : takeNewline (skipWs ('\r' :: '\n' :: cs)) = some (skipWs cs) := by
    rw [skipWs_nonblank _ _ (by decide)]; rfl
  rw [nl_step this, nl_skipWs]

theorem dropLine_comment (body rest : List Char) (hb : '\n' ∉ body) :
    dropLine (body ++ '\n' :: rest) = '\n' :: rest := by
  induction body with
  | nil => simp [dropLine]
  | cons c b ih =>
    have hc : (c == '\n') = false := by
      simp only [beq_eq_false_iff_ne, ne_eq]; intro e; apply hb; rw [e]; exact List.mem_cons_self
    simp only [List.cons_append, dropLine, hc, Bool.false_eq_true, if_false]
    exact ih (fun hm => hb (List.mem_cons_of_mem _ hm))

theorem nl_comment (body cs : List Char) (hb : '\n' ∉ body) : nl ('#' :: (body ++ '\n' :: cs)) = nl cs := by
  have : takeNewline (skipWs ('#' :: (body ++ '\n' :: cs))) = some ('\n' :: cs) := by
    rw [skipWs_nonblank _ _ (by decide)]
    simp only [takeNewline, dropLine_comment body cs hb]
  rw [nl_step this, nl_lf]

theorem newlines1_eq (cs : List Char) :
    newlines1 cs = match takeNewline (skipWs cs) with
      | some r => .ok (nl r)
      | none => .error "newline" := by
  unfold newlines1 nl
  split <;> simp [*]

/-! ### layouts (Stage 3) -/

/-- a blank or comment line between statements -/
structure BLine where
  ind : List Char
  comment : Option (List Char)
  crlf : Bool
  deriving Repr, DecidableEq, Inhabited

def eol (crlf : Bool) : List Char := if crlf then ['\r', '\n'] else ['\n']

def commentText : Option (List Char) → List Char
  | some b => '#' :: b
  | none => []

def BLine.render (l : BLine) : List Char := l.ind ++ (commentText l.comment ++ eol l.crlf)

def GoodBLine (l : BLine) : Prop := Blanks l.ind ∧ ∀ b ∈ l.comment, '\n' ∉ b

instance (l : BLine) : Decidable (GoodBLine l) := by unfold GoodBLine; infer_instance

/-- the layout of one statement: indentation, the blank runs between the tokens (a single blank
    where the list is too short), trailing blanks, an optional comment, the line end, and the blank
    and comment lines that follow; `opGaps`: the blank runs around `:` and `=`, which may be empty -/
structure SLayout where
  indent : List Char := []
  gaps : List (List Char) := []
  trail : List Char := []
  comment : Option (List Char) := none
  crlf : Bool := false
  follow : List BLine := []
  opGaps : List (List Char) := []
  deriving Repr, Inhabited

def SLayout.gap (L : SLayout) (i : Nat) : List Char := L.gaps.getD i [' ']

/-- the blanks around `:` and `=` (Pythia and JetSet statements), possibly none; a single blank
    where the list is too short -/
def SLayout.opGap (L : SLayout) (i : Nat) : List Char := L.opGaps.getD i [' ']

def GoodSLayout (L : SLayout) : Prop :=
  Blanks L.indent ∧ (∀ x ∈ L.gaps, GoodGap x) ∧ Blanks L.trail ∧ (∀ b ∈ L.comment, '\n' ∉ b) ∧
  (∀ l ∈ L.follow, GoodBLine l) ∧ ∀ x ∈ L.opGaps, Blanks x

instance (L : SLayout) : Decidable (GoodSLayout L) := by unfold GoodSLayout; infer_instance

/-- what follows the last token of a statement up to the next statement's indentation -/
def SLayout.lineEnd (L : SLayout) : List Char :=
  L.trail ++ (commentText L.comment ++ (eol L.crlf ++ L.follow.flatMap BLine.render))

def renderStmtL (L : SLayout) (s : Stmt) : List Char :=
  L.indent ++ (renderG L.gap L.opGap s ++ L.lineEnd)

/-- the statements, each with its layout (the default layout where the list is too short) -/
def renderBody : List SLayout → Doc → List Char
  | _, [] => []
  | ℓ, s :: d => renderStmtL (ℓ.headD {}) s ++ renderBody ℓ.tail d

/-- the layout of a document: the lines before the first statement, and the statement layouts -/
structure DocLayout where
  pre : List BLine := []
  lines : List SLayout := []
  deriving Repr, Inhabited

def GoodLayout (ℓ : DocLayout) : Prop := (∀ l ∈ ℓ.pre, GoodBLine l) ∧ ∀ L ∈ ℓ.lines, GoodSLayout L

instance (ℓ : DocLayout) : Decidable (GoodLayout ℓ) := by unfold GoodLayout; infer_instance

def render (ℓ : DocLayout) (d : Doc) : List Char :=
  ℓ.pre.flatMap BLine.render ++ renderBody ℓ.lines d

theorem SLayout.gap_good {L : SLayout} (h : GoodSLayout L) (i : Nat) : GoodGap (L.gap i) := by
  unfold SLayout.gap
  rw [List.getD_eq_getElem?_getD]
  cases hi : L.gaps[i]? with
  | none => exact ⟨by simp, by intro c hc; simp at hc; subst hc; rfl⟩
  | some x => exact h.2.1 x (List.mem_of_getElem? hi)

theorem SLayout.opGap_good {L : SLayout} (h : GoodSLayout L) (i : Nat) : Blanks (L.opGap i) := by
  unfold SLayout.opGap
  rw [List.getD_eq_getElem?_getD]
  cases hi : L.opGaps[i]? with
  | none => intro c hc; simp at hc; subst hc; rfl
  | some x => exact h.2.2.2.2.2 x (List.mem_of_getElem? hi)

theorem good_default : GoodSLayout {} := by decide

theorem nl_bline {l : BLine} (h : GoodBLine l) (cs : List Char) : nl (l.render ++ cs) = nl cs := by
  obtain ⟨ind, cm, crlf⟩ := l
  obtain ⟨hi, hc⟩ := h
  simp only at hi hc
  simp only [BLine.render, List.append_assoc]
  rw [nl_blanks hi]
  cases cm with
  | none =>
    cases crlf
    · exact nl_lf cs
    · exact nl_crlf cs
  | some b =>
    have hb : '\n' ∉ b := hc b rfl
    cases crlf
    · exact nl_comment b cs hb
    · have hb' : '\n' ∉ b ++ ['\r'] := by
        intro hm
        rcases List.mem_append.mp hm with h | h
        · exact hb h
        · simp at h
      have := nl_comment (b ++ ['\r']) cs hb'
      simpa [commentText, eol] using this

theorem nl_blines (ls : List BLine) (h : ∀ l ∈ ls, GoodBLine l) (cs : List Char) :
    nl (ls.flatMap BLine.render ++ cs) = nl cs := by
  induction ls with
  | nil => rfl
  | cons l t ih =>
    simp only [List.flatMap_cons, List.append_assoc]
    rw [nl_bline (h l List.mem_cons_self), ih (fun x hx => h x (List.mem_cons_of_mem _ hx))]

theorem newlines1_lineEnd {L : SLayout} (h : GoodSLayout L) (cs : List Char) :
    newlines1 (L.lineEnd ++ cs) = .ok (nl cs) := by
  obtain ⟨_, _, ht, hc, ha, _⟩ := h
  rw [newlines1_eq]
  simp only [SLayout.lineEnd, List.append_assoc]
  rw [skipWs_blanks _ _ ht]
  have hrest := nl_blines L.follow ha cs
  cases hcm : L.comment with
  | none =>
    cases L.crlf
    · simp only [commentText, eol, Bool.false_eq_true, if_false, List.nil_append, List.cons_append]
      rw [skipWs_nonblank _ _ (by decide)]
      simp only [takeNewline, nl_skipWs, hrest]
    · simp only [commentText, eol, if_true, List.nil_append, List.cons_append]
      rw [skipWs_nonblank _ _ (by decide)]
      simp only [takeNewline, nl_skipWs, hrest]
  | some b =>
    have hb : '\n' ∉ b := hc b hcm
    simp only [commentText, List.cons_append]
    rw [skipWs_nonblank _ _ (by decide)]
    cases L.crlf
    · simp only [eol, Bool.false_eq_true, if_false, List.cons_append, List.nil_append, takeNewline,
        dropLine_comment b _ hb, nl_lf, hrest]
    · have hb' : '\n' ∉ b ++ ['\r'] := by
        intro hm
        rcases List.mem_append.mp hm with h | h
        · exact hb h
        · simp at h
      have := dropLine_comment (b ++ ['\r']) (L.follow.flatMap BLine.render ++ cs) hb'
      simp only [List.append_assoc, List.cons_append, List.nil_append] at this
      simp only [eol, if_true, List.cons_append, List.nil_append, takeNewline, this, nl_lf, hrest]

theorem readNumber_none (c : Char) (t : List Char)
    (h : isDigit c = false ∧ c ≠ '+' ∧ c ≠ '-' ∧ c ≠ '.') : readNumber (c :: t) = none := by
  obtain ⟨h1, h2, h3, h4⟩ := h
  rw [readNumber_unsigned]
  · simp [readU, takeDigits, h1]
    split
    · rename_i heq; simp only [List.cons.injEq] at heq; exact absurd heq.1 h4
    · rfl
  · intro t' heq; simp only [List.cons.injEq] at heq; exact h2 heq.1
  · intro t' heq; simp only [List.cons.injEq] at heq; exact h3 heq.1

theorem endsStmt_lineEnd {L : SLayout} (h : GoodSLayout L) (cs : List Char) : EndsStmt (L.lineEnd ++ cs) := by
  obtain ⟨_, _, ht, hc, ha, _⟩ := h
  -- the text after the trailing blanks starts with `#`, CR or LF
  have key : ∃ c t, commentText L.comment ++ (eol L.crlf ++ L.follow.flatMap BLine.render) ++ cs = c :: t ∧
      (c = '#' ∨ c = '\r' ∨ c = '\n') := by
    cases L.comment with
    | some b => exact ⟨'#', _, rfl, Or.inl rfl⟩
    | none =>
      cases L.crlf
      · exact ⟨'\n', _, rfl, Or.inr (Or.inr rfl)⟩
      · exact ⟨'\r', _, rfl, Or.inr (Or.inl rfl)⟩
  obtain ⟨c, t, hct, hcc⟩ := key
  have hstop : isStop c = true := by rcases hcc with rfl | rfl | rfl <;> decide
  have hnb : isBlankC c = false := by rcases hcc with rfl | rfl | rfl <;> decide
  simp only [SLayout.lineEnd, List.append_assoc] at hct ⊢
  constructor
  · cases htr : L.trail with
    | nil => simp only [List.nil_append]; rw [hct]; exact hstop
    | cons b bs => exact blank_isStop (ht b (by rw [htr]; exact List.mem_cons_self))
  · rw [skipWs_blanks _ _ ht]
    rw [hct, skipWs_nonblank _ _ hnb]
    apply readNumber_none
    rcases hcc with rfl | rfl | rfl <;> exact ⟨by decide, by decide, by decide, by decide⟩

/-! ### the statement loop -/

theorem readStmts_skipWs (g : RGrammar) (f : Nat) (cs : List Char) (acc : List Stmt) :
    readStmts g (f + 1) (skipWs cs) acc = readStmts g (f + 1) cs acc := by
  simp only [readStmts, skipWs_idem]

theorem readStmts_nil (g : RGrammar) (f : Nat) (acc : List Stmt) :
    readStmts g (f + 1) [] acc = .ok acc.reverse := by
  simp [readStmts, skipWs]

/-- one statement, then its line end -/
theorem readStmts_step (g : RGrammar) (f : Nat) (cs : List Char) (acc : List Stmt)
    (c : Char) (t : List Char) (hj : skipWs cs = c :: t) (hE : c ≠ 'E')
    (st : Stmt) (r r' : List Char) (hst : rStmt g (c :: t) = .ok (st, r)) (hnl : newlines1 r = .ok r') :
    readStmts g (f + 1) cs acc = readStmts g f r' (st :: acc) := by
  have hEnd : hasPrefix "End" (c :: t) = none := by
    simp [hasPrefix, stripPrefix, Ne.symm hE]
  rw [readStmts]
  simp only [hj, hEnd, hst, hnl]


theorem renderStmtL_length_pos (L : SLayout) (s : Stmt) : 0 < (renderStmtL L s).length := by
  simp only [renderStmtL, SLayout.lineEnd, eol, List.length_append]
  cases L.crlf <;> simp <;> omega

theorem renderBody_length (ℓ : List SLayout) (d : Doc) : d.length ≤ (renderBody ℓ d).length := by
  induction d generalizing ℓ with
  | nil => simp [renderBody]
  | cons s d ih =>
    have h1 := renderStmtL_length_pos (ℓ.headD {}) s
    have h2 := ih ℓ.tail
    simp only [renderBody, List.length_append, List.length_cons]
    omega

theorem good_headD {ℓ : List SLayout} (h : ∀ L ∈ ℓ, GoodSLayout L) : GoodSLayout (ℓ.headD {}) := by
  cases ℓ with
  | nil => exact good_default
  | cons L t => exact h L List.mem_cons_self

theorem good_tail {ℓ : List SLayout} (h : ∀ L ∈ ℓ, GoodSLayout L) : ∀ L ∈ ℓ.tail, GoodSLayout L :=
  fun L hL => h L (List.mem_of_mem_tail hL)

/-- the rendered statements start with a keyword, or there are none -/
theorem renderBody_head {g : RGrammar} (ℓ : List SLayout) (hℓ : ∀ L ∈ ℓ, GoodSLayout L) (d : Doc)
    (hd : ∀ s ∈ d, FlatNumOK g s) :
    skipWs (renderBody ℓ d) = [] ∨ ∃ c t, skipWs (renderBody ℓ d) = c :: t ∧ isStop c = false := by
  cases d with
  | nil => left; rfl
  | cons s d =>
    right
    obtain ⟨c, t, hct, hc, _⟩ := render_head (g := g) (ℓ.headD {}).gap (ℓ.headD {}).opGap s (hd s List.mem_cons_self)
    have hb : isBlankC c = false := by
      cases h : isBlankC c with
      | false => rfl
      | true => rw [blank_isStop h] at hc; cases hc
    refine ⟨c, t ++ ((ℓ.headD {}).lineEnd ++ renderBody ℓ.tail d), ?_, hc⟩
    simp only [renderBody, renderStmtL, List.append_assoc]
    rw [skipWs_blanks _ _ (good_headD hℓ).1, hct, List.cons_append, skipWs_nonblank _ _ hb]

theorem takeNewline_nonstop (c : Char) (t : List Char) (h : isStop c = false) : takeNewline (c :: t) = none := by
  have h1 : c ≠ '#' := by rintro rfl; revert h; decide
  have h2 : c ≠ '\n' := by rintro rfl; revert h; decide
  have h3 : c ≠ '\r' := by rintro rfl; revert h; decide
  unfold takeNewline
  split
  · rename_i heq; simp only [List.cons.injEq] at heq; exact absurd heq.1 h1
  · rename_i heq; simp only [List.cons.injEq] at heq; exact absurd heq.1 h3
  · rename_i heq; simp only [List.cons.injEq] at heq; exact absurd heq.1 h2
  · rfl

theorem nl_renderBody {g : RGrammar} (ℓ : List SLayout) (hℓ : ∀ L ∈ ℓ, GoodSLayout L) (d : Doc)
    (hd : ∀ s ∈ d, FlatNumOK g s) : nl (renderBody ℓ d) = skipWs (renderBody ℓ d) := by
  apply nl_stop
  rcases renderBody_head ℓ hℓ d hd with h | ⟨c, t, h, hc⟩
  · rw [h]; rfl
  · rw [h]; exact takeNewline_nonstop c t hc

theorem readStmts_body {g : RGrammar} (hg : GoodGrammar g) (d : Doc) :
    ∀ (ℓ : List SLayout) (f : Nat) (acc : List Stmt), (∀ L ∈ ℓ, GoodSLayout L) → (∀ s ∈ d, FlatNumOK g s) →
      d.length < f → readStmts g f (renderBody ℓ d) acc = .ok (acc.reverse ++ d) := by
  induction d with
  | nil =>
    intro ℓ f acc _ _ hf
    cases f with
    | zero => omega
    | succ f => simp [renderBody, readStmts_nil]
  | cons s d ih =>
    intro ℓ f acc hℓ hd hf
    cases f with
    | zero => omega
    | succ f =>
      cases f with
      | zero => simp at hf
      | succ f =>
        have hL := good_headD hℓ
        have hs := hd s List.mem_cons_self
        obtain ⟨c, t, hct, hc, hE⟩ := render_head (g := g) (ℓ.headD {}).gap (ℓ.headD {}).opGap s hs
        have hb : isBlankC c = false := by
          cases h : isBlankC c with
          | false => rfl
          | true => rw [blank_isStop h] at hc; cases hc
        have hj : skipWs (renderBody ℓ (s :: d)) =
            c :: (t ++ ((ℓ.headD {}).lineEnd ++ renderBody ℓ.tail d)) := by
          simp only [renderBody, renderStmtL, List.append_assoc]
          rw [skipWs_blanks _ _ hL.1, hct, List.cons_append, skipWs_nonblank _ _ hb]
        have hst : rStmt g (c :: (t ++ ((ℓ.headD {}).lineEnd ++ renderBody ℓ.tail d))) =
            .ok (s, (ℓ.headD {}).lineEnd ++ renderBody ℓ.tail d) := by
          rw [← List.cons_append, ← hct]
          exact rStmt_render hg _ (fun i => SLayout.gap_good hL i) _ (fun i => SLayout.opGap_good hL i) s hs _
            (endsStmt_lineEnd hL _)
        have hnl := newlines1_lineEnd hL (renderBody ℓ.tail d)
        rw [readStmts_step g (f + 1) _ acc c _ hj hE s _ _ hst hnl]
        rw [nl_renderBody ℓ.tail (good_tail hℓ) d (fun x hx => hd x (List.mem_cons_of_mem _ hx)),
          readStmts_skipWs]
        rw [ih ℓ.tail (f + 1) (s :: acc) (good_tail hℓ) (fun x hx => hd x (List.mem_cons_of_mem _ hx))
          (by simp only [List.length_cons] at hf; omega)]
        simp

/-- Stage 3: every layout of flat statements reads back to the statements -/
theorem read_layout_flat (g : RGrammar) (hg : GoodGrammar g) (ℓ : DocLayout) (hℓ : GoodLayout ℓ)
    (d : Doc) (hd : ∀ s ∈ d, FlatNumOK g s) :
    readDoc g (String.ofList (render ℓ d)) = .ok d := by
  unfold readDoc
  simp only [String.toList_ofList]
  have h0 : newlines0 ((render ℓ d).length + 1) (render ℓ d) = nl (render ℓ d) := rfl
  rw [h0]
  unfold render
  rw [nl_blines _ hℓ.1, nl_renderBody ℓ.lines hℓ.2 d hd, readStmts_skipWs,
    readStmts_body hg d ℓ.lines _ [] hℓ.2 hd]
  · simp
  · have := renderBody_length ℓ.lines d
    simp only [List.length_append]
    omega

/-- any two layouts of the same flat statements read alike (property C02 for flat statements) -/
theorem read_layout_irrelevant (g : RGrammar) (hg : GoodGrammar g) (ℓ₁ ℓ₂ : DocLayout)
    (h₁ : GoodLayout ℓ₁) (h₂ : GoodLayout ℓ₂) (d : Doc) (hd : ∀ s ∈ d, FlatNumOK g s) :
    readDoc g (String.ofList (render ℓ₁ d)) = readDoc g (String.ofList (render ℓ₂ d)) := by
  rw [read_layout_flat g hg ℓ₁ h₁ d hd, read_layout_flat g hg ℓ₂ h₂ d hd]


/-! ### Stages 1 and 2: the canonical layout -/

/-- the canonical text of a statement: single blanks between the tokens -/
def renderSimple (s : Stmt) : List Char := renderG (fun _ => [' ']) (fun _ => [' ']) s

/-- the canonical text of a document: one statement per line, LF line ends -/
def renderDocSimple (d : Doc) : List Char := d.flatMap (fun s => renderSimple s ++ ['\n'])

theorem renderDocSimple_eq (d : Doc) : renderDocSimple d = render {} d := by
  have hgap : ({} : SLayout).gap = fun _ => [' '] := by
    funext i; simp [SLayout.gap]
  have hop : ({} : SLayout).opGap = fun _ => [' '] := by
    funext i; simp [SLayout.opGap]
  have hbody : ∀ d : Doc, renderBody [] d = renderDocSimple d := by
    intro d
    induction d with
    | nil => rfl
    | cons s d ih =>
      simp only [renderBody, List.headD_nil, List.tail_nil, ih, renderStmtL, hgap, hop]
      simp [renderDocSimple, renderSimple, SLayout.lineEnd, commentText, eol]
  simp [render, hbody]

/-- Stage 2: statements with labels and numbers, canonical layout -/
theorem read_simple_num (g : RGrammar) (hg : GoodGrammar g) (d : Doc) (hd : ∀ s ∈ d, FlatNumOK g s) :
    readDoc g (String.ofList (renderDocSimple d)) = .ok d := by
  rw [renderDocSimple_eq]
  exact read_layout_flat g hg {} (by decide) d hd

/-- Stage 1: label-only statements, canonical layout -/
theorem read_simple_flat (g : RGrammar) (hg : GoodGrammar g) (d : Doc) (hd : ∀ s ∈ d, FlatOK g s) :
    readDoc g (String.ofList (renderDocSimple d)) = .ok d :=
  read_simple_num g hg d (fun s hs => (hd s hs).num)

end ReadRT
end DL
