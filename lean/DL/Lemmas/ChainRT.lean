/-
Round trip between the class form (`DChain`) and the dictionary form (`Chain Info`) of a decay chain:
helper lemmas for C11_chain.  Core Lean only.
-/
import DL.Lemmas.Sort
import DL.Lemmas.Dict
namespace DL

/-! ### ordered dictionaries: membership -/

theorem dget_mem {V : Type} (d : List (String × V)) (k : String) (v : V)
    (h : dget d k = some v) : (k, v) ∈ d := by
  induction d with
  | nil => simp [dget] at h
  | cons p r ih =>
    obtain ⟨k', v'⟩ := p
    by_cases hk : k' = k
    · simp only [dget, hk, if_true, Option.some.injEq] at h
      subst hk; subst h; simp
    · simp only [dget, hk, if_false] at h
      exact List.mem_cons_of_mem _ (ih h)

theorem dhas_of_mem {V : Type} (d : List (String × V)) (k : String) (v : V)
    (h : (k, v) ∈ d) : dhas d k = true := by
  induction d with
  | nil => simp at h
  | cons p r ih =>
    obtain ⟨k', v'⟩ := p
    by_cases hk : k' = k
    · simp [dhas, dget, hk]
    · have : (k, v) ∈ r := by
        rcases List.mem_cons.1 h with e | e
        · exact absurd (by simpa using (Prod.mk.inj e).1.symm) hk
        · exact e
      have := ih this
      simpa [dhas, dget, hk] using this

theorem dhas_iff {V : Type} (d : List (String × V)) (k : String) :
    dhas d k = true ↔ ∃ v, dget d k = some v := by
  unfold dhas
  cases dget d k <;> simp

theorem mem_dset {V : Type} (d : List (String × V)) (k : String) (v : V) (kv : String × V)
    (h : kv ∈ dset d k v) : kv ∈ d ∨ kv = (k, v) := by
  induction d with
  | nil => simp [dset] at h; exact Or.inr h
  | cons p r ih =>
    obtain ⟨k', v'⟩ := p
    by_cases hk : k' = k
    · simp only [dset, hk, if_true, List.mem_cons] at h
      rcases h with h | h
      · exact Or.inr h
      · exact Or.inl (List.mem_cons_of_mem _ h)
    · simp only [dset, hk, if_false, List.mem_cons] at h
      rcases h with h | h
      · exact Or.inl (by simp [h])
      · rcases ih h with h | h
        · exact Or.inl (List.mem_cons_of_mem _ h)
        · exact Or.inr h

theorem dhas_dset {V : Type} (d : List (String × V)) (k k' : String) (v : V) :
    dhas (dset d k v) k' = true ↔ (k = k' ∨ dhas d k' = true) := by
  by_cases h : k = k'
  · subst h; simp [dhas, dget_dset_same]
  · simp [dhas, dget_dset_other _ _ _ _ h, h]

/-- look-up finds every entry of a dictionary with pairwise different keys -/
theorem dget_of_mem_nodup {V : Type} (d : List (String × V)) (hn : (dkeys d).Nodup)
    (k : String) (v : V) (h : (k, v) ∈ d) : dget d k = some v := by
  induction d with
  | nil => simp at h
  | cons p r ih =>
    obtain ⟨k', v'⟩ := p
    simp only [dkeys, List.map_cons, List.nodup_cons] at hn
    rcases List.mem_cons.1 h with e | e
    · obtain ⟨e1, e2⟩ := Prod.mk.inj e
      subst e1; subst e2; simp [dget]
    · have hne : ¬ k' = k := by
        intro e'; subst e'
        exact hn.1 (List.mem_map.2 ⟨(k', v), e, rfl⟩)
      simp only [dget, hne, if_false]
      exact ih (by simpa [dkeys] using hn.2) e

theorem dictEqUnordered_refl (d : List (String × String)) (hn : (dkeys d).Nodup) :
    dictEqUnordered d d = true := by
  unfold dictEqUnordered
  simp only [beq_self_eq_true, Bool.true_and, List.all_eq_true]
  intro kv hkv
  obtain ⟨k, v⟩ := kv
  simp [dget_of_mem_nodup d hn k v hkv]

/-! ### what the round trip needs from a mode -/

/-- the two facts about a decay mode the chain round trip uses (both hold for every `WFMode`) -/
structure GoodMode (m : Mode) : Prop where
  rt : Mode.fromDict (Mode.toDict m) = .ok m
  eqv : modeDictEq (Mode.toDict m) (Mode.toDict m) = true

/-! ### trees that are the unfolding of a table of modes -/

mutual
  /-- `t` is consistent with the table `D`: every node has exactly one mode, whose flat dictionary
      is the dictionary of `D name`; a daughter is a sub-tree iff it is a key of `D` -/
  def Cons (D : List (String × Mode)) : Chain Info → Prop
    | .mk m modes => match modes with
      | [(i, fs)] => ∃ md, dget D m = some md ∧ flatModeDict i fs = md.toDict ∧ ConsFs D fs
      | _ => False
  def ConsFs (D : List (String × Mode)) : List (Item Info) → Prop
    | [] => True
    | .inl p :: r => dhas D p = false ∧ ConsFs D r
    | .inr c :: r => Cons D c ∧ ConsFs D r
end

mutual
  /-- the names of all decaying particles (nodes) of a tree -/
  def Chain.names : Chain Info → List String
    | .mk m modes => match modes with
      | [(_, fs)] => m :: namesFs fs
      | _ => [m]
  def namesFs : List (Item Info) → List String
    | [] => []
    | .inl _ :: r => namesFs r
    | .inr c :: r => c.names ++ namesFs r
end

theorem Chain.mother_mem_names : ∀ t : Chain Info, t.mother ∈ t.names
  | .mk m modes => by
    match modes with
    | [] => simp [Chain.names, Chain.mother]
    | [(_, fs)] => simp [Chain.names, Chain.mother]
    | _ :: _ :: _ => simp [Chain.names, Chain.mother]

/-- every entry of `acc` is an entry of `D` -/
def Sub (acc D : List (String × Mode)) : Prop := ∀ k v, (k, v) ∈ acc → dget D k = some v

/-- with a particle, `acc` has all its decaying daughters -/
def Closed (D acc : List (String × Mode)) : Prop :=
  ∀ k md, dhas acc k = true → dget D k = some md → ∀ d ∈ md.ds, dhas D d = true → dhas acc d = true

theorem Sub_nil (D : List (String × Mode)) : Sub [] D := by intro k v h; simp at h
theorem Closed_nil (D : List (String × Mode)) : Closed D [] := by intro k md h; simp [dhas, dget] at h

theorem Sub_dget {acc D : List (String × Mode)} (h : Sub acc D) (k : String) (v : Mode)
    (hk : dget acc k = some v) : dget D k = some v := h k v (dget_mem acc k v hk)

theorem flat_names {i : Info} {fs : List (Item Info)} {md : Mode}
    (h : flatModeDict i fs = md.toDict) : fs.map Item.name = md.ds := by
  have := congrArg ModeDict.fs h
  simpa [flatModeDict, Mode.toDict] using this

mutual
  /-- a closed dictionary that has the root of a consistent tree has all its nodes -/
  theorem closed_names (D acc : List (String × Mode)) (hcl : Closed D acc) :
      ∀ t : Chain Info, Cons D t → dhas acc t.mother = true → ∀ k ∈ t.names, dhas acc k = true
    | .mk m modes, hc, hm => by
      match modes, hc with
      | [(i, fs)], hc =>
        simp only [Cons] at hc
        obtain ⟨md, hD, hflat, hfs⟩ := hc
        simp only [Chain.mother] at hm
        intro k hk
        simp only [Chain.names, List.mem_cons] at hk
        rcases hk with hk | hk
        · subst hk; exact hm
        · refine closed_names_fs D acc hcl fs hfs ?_ k hk
          intro d hd hDd
          rw [flat_names hflat] at hd
          exact hcl m md hm hD d hd hDd
  theorem closed_names_fs (D acc : List (String × Mode)) (hcl : Closed D acc) :
      ∀ fs : List (Item Info), ConsFs D fs →
        (∀ d ∈ fs.map Item.name, dhas D d = true → dhas acc d = true) →
        ∀ k ∈ namesFs fs, dhas acc k = true
    | [], _, _ => by simp [namesFs]
    | .inl p :: r, hc, hd => by
      simp only [ConsFs] at hc
      simp only [namesFs]
      exact closed_names_fs D acc hcl r hc.2 (fun d h => hd d (by simp [h]))
    | .inr c :: r, hc, hd => by
      simp only [ConsFs] at hc
      simp only [namesFs, List.mem_append]
      intro k hk
      rcases hk with hk | hk
      · refine closed_names D acc hcl c hc.1 ?_ k hk
        refine hd c.mother (by simp [Item.name]) ?_
        cases c with
        | mk m modes =>
          have h1 := hc.1
          match modes, h1 with
          | [(i, fs)], h1 =>
            simp only [Cons] at h1
            obtain ⟨md, hD, _, _⟩ := h1
            simp [Chain.mother, dhas, hD]
      · exact closed_names_fs D acc hcl r hc.2 (fun d h => hd d (by simp [h])) k hk
end

theorem Cons_dhas (D : List (String × Mode)) : ∀ t : Chain Info, Cons D t → dhas D t.mother = true
  | .mk m modes, hc => by
    match modes, hc with
    | [(i, fs)], hc =>
      simp only [Cons] at hc
      obtain ⟨md, hD, _, _⟩ := hc
      simp [Chain.mother, dhas, hD]

/-! ### `_build_decay_modes` on a consistent tree -/

/-- what one call of the builder guarantees -/
structure BuildOK (D acc acc' : List (String × Mode)) (nm : List String) : Prop where
  sub : Sub acc' D
  closed : Closed D acc'
  mono : ∀ k, dhas acc k = true → dhas acc' k = true
  fresh : ∀ k v, (k, v) ∈ acc' → (k, v) ∈ acc ∨ k ∈ nm

mutual
  theorem build_chain (D : List (String × Mode)) (hD : ∀ k md, dget D k = some md → GoodMode md) :
      ∀ t : Chain Info, Cons D t → ∀ acc, Sub acc D → Closed D acc →
        ∃ acc', buildModes acc t = .ok acc' ∧ BuildOK D acc acc' t.names ∧ dhas acc' t.mother = true
    | .mk m modes, hc, acc, hs, hcl => by
      match modes, hc with
      | [(i, fs)], hc =>
        have hcons := hc
        simp only [Cons] at hc
        obtain ⟨md, hm, hflat, hfs⟩ := hc
        have hgood := hD m md hm
        -- one pass over the (single) mode, from any admissible accumulator
        have step : ∀ a, Sub a D → Closed D a →
            ∃ a', buildModeList a m [(i, fs)] = .ok a' ∧ BuildOK D a a' (m :: namesFs fs) ∧
              dhas a' m = true := by
          intro a has hacl
          obtain ⟨a1, hb, hok, hall⟩ := build_fs D hD fs hfs a has hacl
          refine ⟨dset a1 m md, ?_, ?_, ?_⟩
          · simp only [buildModeList, hb, hflat, hgood.rt]
          · constructor
            · intro k v hkv
              rcases mem_dset a1 m md (k, v) hkv with h | h
              · exact hok.sub k v h
              · obtain ⟨e1, e2⟩ := Prod.mk.inj h
                subst e1; subst e2; exact hm
            · intro k md' hk hDk d hd hDd
              rw [dhas_dset]
              rw [dhas_dset] at hk
              rcases hk with hk | hk
              · subst hk
                rw [hm] at hDk
                obtain rfl := Option.some.inj hDk
                right
                exact hall d (by rw [flat_names hflat]; exact hd) hDd
              · right
                exact hok.closed k md' hk hDk d hd hDd
            · intro k hk
              rw [dhas_dset]; right; exact hok.mono k hk
            · intro k v hkv
              rcases mem_dset a1 m md (k, v) hkv with h | h
              · rcases hok.fresh k v h with h | h
                · exact Or.inl h
                · exact Or.inr (List.mem_cons_of_mem _ h)
              · obtain ⟨e1, _⟩ := Prod.mk.inj h
                subst e1; exact Or.inr (by simp)
          · rw [dhas_dset]; exact Or.inl rfl
        have hnames : (Chain.mk m [(i, fs)]).names = m :: namesFs fs := by simp [Chain.names]
        rw [hnames]
        simp only [Chain.mother]
        by_cases hin : dhas acc m = true
        · -- the particle was met before: the sub-dictionary is rebuilt and compared
          obtain ⟨again, hb, hok, _⟩ := step [] (Sub_nil D) (Closed_nil D)
          refine ⟨acc, ?_, ⟨hs, hcl, fun _ h => h, fun _ _ h => Or.inl h⟩, hin⟩
          simp only [buildModes, List.length_cons, List.length_nil, hin, hb]
          rw [if_neg (by simp), if_pos (by simp), if_neg]
          intro hbad
          rw [List.any_eq_true] at hbad
          obtain ⟨⟨k, dm⟩, hkv, hbad⟩ := hbad
          have hDk : dget D k = some dm := hok.sub k dm hkv
          have hkn : k ∈ (Chain.mk m [(i, fs)]).names := by
            rw [hnames]
            rcases hok.fresh k dm hkv with h | h
            · simp at h
            · exact h
          have hacc : dhas acc k = true :=
            closed_names D acc hcl _ hcons (by simpa [Chain.mother] using hin) k hkn
          obtain ⟨old, hold⟩ := (dhas_iff acc k).1 hacc
          have : old = dm := by
            have := Sub_dget hs k old hold
            rw [hDk] at this
            exact (Option.some.inj this).symm
          subst this
          simp [hold, (hD k old hDk).eqv] at hbad
        · obtain ⟨a', hb, hok, hha⟩ := step acc hs hcl
          refine ⟨a', ?_, hok, hha⟩
          simp only [buildModes, List.length_cons, List.length_nil, hin, hb]
          simp
  theorem build_fs (D : List (String × Mode)) (hD : ∀ k md, dget D k = some md → GoodMode md) :
      ∀ fs : List (Item Info), ConsFs D fs → ∀ acc, Sub acc D → Closed D acc →
        ∃ acc', buildFs acc fs = .ok acc' ∧ BuildOK D acc acc' (namesFs fs) ∧
          (∀ d ∈ fs.map Item.name, dhas D d = true → dhas acc' d = true)
    | [], _, acc, hs, hcl => by
      refine ⟨acc, by simp [buildFs], ⟨hs, hcl, fun _ h => h, fun _ _ h => Or.inl h⟩, by simp⟩
    | .inl p :: r, hc, acc, hs, hcl => by
      simp only [ConsFs] at hc
      obtain ⟨a', hb, hok, hall⟩ := build_fs D hD r hc.2 acc hs hcl
      refine ⟨a', by simp [buildFs, hb], ⟨hok.sub, hok.closed, hok.mono, ?_⟩, ?_⟩
      · simpa [namesFs] using hok.fresh
      · intro d hd hDd
        simp only [List.map_cons, List.mem_cons, Item.name] at hd
        rcases hd with hd | hd
        · subst hd; rw [hc.1] at hDd; exact absurd hDd (by simp)
        · exact hall d hd hDd
    | .inr c :: r, hc, acc, hs, hcl => by
      simp only [ConsFs] at hc
      obtain ⟨a1, hb1, hok1, hc1⟩ := build_chain D hD c hc.1 acc hs hcl
      obtain ⟨a2, hb2, hok2, hall⟩ := build_fs D hD r hc.2 a1 hok1.sub hok1.closed
      refine ⟨a2, by simp [buildFs, hb1, hb2], ⟨hok2.sub, hok2.closed, ?_, ?_⟩, ?_⟩
      · intro k hk; exact hok2.mono k (hok1.mono k hk)
      · intro k v hkv
        simp only [namesFs, List.mem_append]
        rcases hok2.fresh k v hkv with h | h
        · rcases hok1.fresh k v h with h | h
          · exact Or.inl h
          · exact Or.inr (Or.inl h)
        · exact Or.inr (Or.inr h)
      · intro d hd hDd
        simp only [List.map_cons, List.mem_cons, Item.name] at hd
        rcases hd with hd | hd
        · subst hd; exact hok2.mono _ hc1
        · exact hall d hd hDd
end

/-! ### `to_dict` produces a consistent tree -/

theorem mapM_opt_nil {α β : Type} (g : α → Option β) : ([] : List α).mapM g = some [] := by
  simp

theorem mapM_opt_cons {α β : Type} (g : α → Option β) (a : α) (l : List α) (ys : List β) :
    (a :: l).mapM g = some ys ↔ ∃ b bs, g a = some b ∧ l.mapM g = some bs ∧ ys = b :: bs := by
  rw [List.mapM_cons]
  cases h1 : g a with
  | none => simp
  | some b =>
    cases h2 : l.mapM g with
    | none => simp
    | some bs => simp [eq_comm]

/-- one step of `recursively_replace` -/
def tdItem (D : List (String × Mode)) (f : Nat) (p : String) : Option (Item Info) :=
  if dhas D p then (toDictF D f p).map Sum.inr else some (Sum.inl p)

theorem toDictF_succ (D : List (String × Mode)) (f : Nat) (m : String) :
    toDictF D (f + 1) m = match dget D m with
      | none => none
      | some md => (md.ds.mapM (tdItem D f)).map fun fs =>
          Chain.mk m [({ bf := md.bf, rest := md.toDict.rest }, fs)] := by
  rfl

theorem toDictF_inv {D : List (String × Mode)} {f : Nat} {m : String} {t : Chain Info}
    (h : toDictF D (f + 1) m = some t) :
    ∃ md fs, dget D m = some md ∧ md.ds.mapM (tdItem D f) = some fs ∧
      t = Chain.mk m [({ bf := md.bf, rest := md.toDict.rest }, fs)] := by
  rw [toDictF_succ] at h
  cases hm : dget D m with
  | none => simp [hm] at h
  | some md =>
    simp only [hm] at h
    cases hfs : md.ds.mapM (tdItem D f) with
    | none => simp [hfs] at h
    | some fs =>
      simp only [hfs, Option.map_some, Option.some.injEq] at h
      exact ⟨md, fs, rfl, hfs, h.symm⟩

theorem tdItems_cons (D : List (String × Mode)) (f : Nat)
    (ih : ∀ m t, toDictF D f m = some t → Cons D t ∧ t.mother = m) :
    ∀ l fs, l.mapM (tdItem D f) = some fs → ConsFs D fs ∧ fs.map Item.name = l
  | [], fs, h => by
    rw [mapM_opt_nil] at h
    obtain rfl := Option.some.inj h
    simp [ConsFs]
  | p :: r, fs, h => by
    rw [mapM_opt_cons] at h
    obtain ⟨b, bs, hb, hbs, rfl⟩ := h
    obtain ⟨h1, h2⟩ := tdItems_cons D f ih r bs hbs
    unfold tdItem at hb
    by_cases hp : dhas D p = true
    · simp only [hp, if_true] at hb
      cases hc : toDictF D f p with
      | none => simp [hc] at hb
      | some c =>
        simp only [hc, Option.map_some, Option.some.injEq] at hb
        subst hb
        obtain ⟨hc1, hc2⟩ := ih p c hc
        simp [ConsFs, hc1, h1, h2, Item.name, hc2]
    · simp only [hp] at hb
      simp only [Bool.false_eq_true, if_false, Option.some.injEq] at hb
      subst hb
      have hp' : dhas D p = false := by simpa using hp
      simp [ConsFs, hp', h1, h2, Item.name]

/-- the dictionary form of a chain is consistent with its table of modes -/
theorem toDictF_cons (D : List (String × Mode)) :
    ∀ f m t, toDictF D f m = some t → Cons D t ∧ t.mother = m
  | 0, m, t, h => by simp [toDictF] at h
  | f + 1, m, t, h => by
    obtain ⟨md, fs, hm, hfs, rfl⟩ := toDictF_inv h
    obtain ⟨h1, h2⟩ := tdItems_cons D f (toDictF_cons D f) md.ds fs hfs
    refine ⟨?_, rfl⟩
    simp only [Cons]
    refine ⟨md, hm, ?_, h1⟩
    simp only [flatModeDict, h2]
    rfl

/-! ### `to_dict` only looks at the particles of its result -/

theorem tdItems_transfer (D A : List (String × Mode)) (f : Nat)
    (hAD : ∀ k, dhas D k = false → dhas A k = false)
    (ih : ∀ m t, toDictF D f m = some t → (∀ k ∈ t.names, dget A k = dget D k) →
      toDictF A f m = some t) :
    ∀ (l : List String) (fs : List (Item Info)), l.mapM (tdItem D f) = some fs →
      (∀ k ∈ namesFs fs, dget A k = dget D k) →
      l.mapM (tdItem A f) = some fs
  | [], fs, h, _ => by
    rw [mapM_opt_nil] at h ⊢; exact h
  | p :: r, fs, h, hn => by
    rw [mapM_opt_cons] at h
    obtain ⟨b, bs, hb, hbs, rfl⟩ := h
    rw [mapM_opt_cons]
    unfold tdItem at hb
    by_cases hp : dhas D p = true
    · simp only [hp, if_true] at hb
      cases hc : toDictF D f p with
      | none => simp [hc] at hb
      | some c =>
        simp only [hc, Option.map_some, Option.some.injEq] at hb
        subst hb
        simp only [namesFs, List.mem_append] at hn
        have hmo : c.mother = p := (toDictF_cons D f p c hc).2
        have hAp : dhas A p = true := by
          have := hn p (Or.inl (hmo ▸ c.mother_mem_names))
          unfold dhas at hp ⊢
          rw [this]; exact hp
        refine ⟨_, bs, ?_, tdItems_transfer D A f hAD ih r bs hbs (fun k hk => hn k (Or.inr hk)), rfl⟩
        unfold tdItem
        simp [hAp, ih p c hc (fun k hk => hn k (Or.inl hk))]
    · simp only [hp] at hb
      simp only [Bool.false_eq_true, if_false, Option.some.injEq] at hb
      subst hb
      have hp' : dhas D p = false := by simpa using hp
      simp only [namesFs] at hn
      refine ⟨_, bs, ?_, tdItems_transfer D A f hAD ih r bs hbs hn, rfl⟩
      unfold tdItem
      simp [hAD p hp']

theorem toDictF_transfer (D A : List (String × Mode))
    (hAD : ∀ k, dhas D k = false → dhas A k = false) :
    ∀ f m t, toDictF D f m = some t → (∀ k ∈ t.names, dget A k = dget D k) →
      toDictF A f m = some t
  | 0, m, t, h, _ => by simp [toDictF] at h
  | f + 1, m, t, h, hn => by
    obtain ⟨md, fs, hm, hfs, rfl⟩ := toDictF_inv h
    have hnames : (Chain.mk m [(({ bf := md.bf, rest := md.toDict.rest } : Info), fs)]).names
        = m :: namesFs fs := by simp [Chain.names]
    rw [hnames] at hn
    have hAm : dget A m = some md := by rw [hn m (by simp), hm]
    have := tdItems_transfer D A f hAD (toDictF_transfer D A hAD f) md.ds fs hfs
      (fun k hk => hn k (List.mem_cons_of_mem _ hk))
    rw [toDictF_succ]
    simp only [hAm, this, Option.map_some]

/-! ### reachability -/

/-- `Reach D a k`: `k` is reached from `a` through daughters that decay (are keys of `D`) -/
inductive Reach (D : List (String × Mode)) (a : String) : String → Prop where
  | root : Reach D a a
  | step {k d : String} {md : Mode} : Reach D a k → dget D k = some md → d ∈ md.ds →
      dhas D d = true → Reach D a d

theorem Closed_reach {D acc : List (String × Mode)} (hcl : Closed D acc) {a : String}
    (ha : dhas acc a = true) : ∀ k, Reach D a k → dhas acc k = true := by
  intro k hr
  induction hr with
  | root => exact ha
  | step _ hk hd hDd ih => exact hcl _ _ ih hk _ hd hDd

/-! ### the round trip -/

theorem chain_roundtrip (c : DChain) (fuel : Nat) (t : Chain Info)
    (hg : ∀ k m, dget c.decays k = some m → GoodMode m)
    (ht : c.toDict fuel = .ok t) :
    ∃ c', DChain.fromDict t = .ok c' ∧ c'.mother = c.mother ∧
      (∀ k m, dget c'.decays k = some m → dget c.decays k = some m) ∧
      dhas c'.decays c.mother = true ∧
      c'.toDict fuel = .ok t ∧
      (∀ k, Reach c.decays c.mother k → dhas c'.decays k = true) := by
  have hF : toDictF c.decays fuel c.mother = some t := by
    unfold DChain.toDict at ht
    cases h : toDictF c.decays fuel c.mother with
    | none => simp [h] at ht
    | some d => simp only [h, Except.ok.injEq] at ht; rw [ht]
  obtain ⟨hcons, hmo⟩ := toDictF_cons c.decays fuel c.mother t hF
  obtain ⟨acc', hb, hok, hhas⟩ := build_chain c.decays hg t hcons [] (Sub_nil _) (Closed_nil _)
  have hsub : ∀ k m, dget acc' k = some m → dget c.decays k = some m :=
    fun k m h => Sub_dget hok.sub k m h
  refine ⟨{ mother := t.mother, decays := acc' }, ?_, hmo, hsub, hmo ▸ hhas, ?_, ?_⟩
  · simp [DChain.fromDict, hb, hhas]
  · have hAD : ∀ k, dhas c.decays k = false → dhas acc' k = false := by
      intro k hk
      cases h : dhas acc' k with
      | false => rfl
      | true =>
        obtain ⟨v, hv⟩ := (dhas_iff acc' k).1 h
        have := hsub k v hv
        simp [dhas, this] at hk
    have hagree : ∀ k ∈ t.names, dget acc' k = dget c.decays k := by
      intro k hk
      have := closed_names c.decays acc' hok.closed t hcons hhas k hk
      obtain ⟨v, hv⟩ := (dhas_iff acc' k).1 this
      rw [hv, hsub k v hv]
    have := toDictF_transfer c.decays acc' hAD fuel c.mother t hF hagree
    simp [DChain.toDict, hmo, this]
  · intro k hr
    exact Closed_reach hok.closed (hmo ▸ hhas) k hr

end DL
