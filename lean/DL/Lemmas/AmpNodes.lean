/-
Every particle occurring in an amplitude returned by `read_ampgen` has been recorded in the class-level
set `all_particles` by that same read (this is what makes the declarations of a conversion
self-contained).  Core Lean only.
-/
import DL.Model.AmpGen
import DL.Lemmas.ExceptList
namespace DL

mutual
  def nodesOf : AChain → List String
    | .mk _ p _ _ _ ds => p :: nodesOfL ds
  def nodesOfL : List AChain → List String
    | [] => []
    | c :: r => nodesOf c ++ nodesOfL r
end

theorem nodesOfL_mem (l : List AChain) (p : String) : p ∈ nodesOfL l ↔ ∃ c ∈ l, p ∈ nodesOf c := by
  induction l with
  | nil => simp [nodesOfL]
  | cons c r ih => simp [nodesOfL, ih]

mutual
  theorem chainOfDecay_nodes (lookup : String → Option String) :
      ∀ (d : ADecay) (c : AChain) (seen : List String), chainOfDecay lookup d = .ok (c, seen) → nodesOf c = seen
    | .mk n s l ds, c, seen, h => by
      simp only [chainOfDecay] at h
      split at h
      · cases h
      · rename_i p hp
        split at h
        · cases h
        · rename_i cs sn hcs
          simp only [Except.ok.injEq, Prod.mk.injEq] at h
          obtain ⟨rfl, rfl⟩ := h
          simp [nodesOf, chainsOfDecays_nodes lookup ds cs sn hcs]
  theorem chainsOfDecays_nodes (lookup : String → Option String) :
      ∀ (ds : List ADecay) (cs : List AChain) (seen : List String), chainsOfDecays lookup ds = .ok (cs, seen) → nodesOfL cs = seen
    | [], cs, seen, h => by
      simp only [chainsOfDecays, Except.ok.injEq, Prod.mk.injEq] at h
      obtain ⟨rfl, rfl⟩ := h; rfl
    | d :: r, cs, seen, h => by
      simp only [chainsOfDecays] at h
      split at h
      · rename_i c s1 cs' s2 h1 h2
        simp only [Except.ok.injEq, Prod.mk.injEq] at h
        obtain ⟨rfl, rfl⟩ := h
        simp [nodesOfL, chainOfDecay_nodes lookup d c s1 h1, chainsOfDecays_nodes lookup r cs' s2 h2]
      · cases h
      · cases h
end

theorem chainOfLine_nodes (lookup : String → Option String) (cart : Bool) (l : ALine) (c : AChain) (seen : List String)
    (h : chainOfLine lookup cart l = .ok (c, seen)) : nodesOf c = seen := by
  unfold chainOfLine at h
  split at h
  · cases h
  · rename_i n p s ls cp ds sn hd
    simp only [Except.ok.injEq, Prod.mk.injEq] at h
    obtain ⟨rfl, rfl⟩ := h
    have := chainOfDecay_nodes lookup l.tree _ _ hd
    simpa [nodesOf] using this

theorem nodesOf_withDs (c : AChain) (ds : List AChain) :
    nodesOf (c.withDs ds) = c.particle :: nodesOfL ds := by
  cases c; simp [AChain.withDs, nodesOf, AChain.particle]

theorem nodesOf_self (c : AChain) : nodesOf c = c.particle :: nodesOfL c.ds := by
  cases c; simp [nodesOf, AChain.particle, AChain.ds]

theorem mapM_except_mem {ε α β : Type} (f : α → Except ε β) :
    ∀ (l : List α) (r : List β), l.mapM f = .ok r → ∀ b ∈ r, ∃ a ∈ l, f a = .ok b
  | [], r, h, b, hb => by simp [List.mapM_nil, pure, Except.pure] at h; subst h; cases hb
  | a :: l, r, h, b, hb => by
    rw [mapM_except_cons] at h
    cases ha : f a with
    | error e => simp [ha] at h
    | ok b0 =>
      simp only [ha] at h
      cases hl : l.mapM f with
      | error e => simp [hl] at h
      | ok bs =>
        simp only [hl, Except.ok.injEq] at h
        subst h
        rcases List.mem_cons.mp hb with rfl | hb
        · exact ⟨a, List.mem_cons_self, ha⟩
        · obtain ⟨a', ha', hfa'⟩ := mapM_except_mem f l bs hl b hb
          exact ⟨a', List.mem_cons_of_mem _ ha', hfa'⟩

theorem mem_cartesian_elem {α : Type} : ∀ (ls : List (List α)) (a : List α), a ∈ cartesian ls → ∀ x ∈ a, ∃ l ∈ ls, x ∈ l
  | [], a, h, x, hx => by simp [cartesian] at h; subst h; cases hx
  | l :: ls, a, h, x, hx => by
    simp only [cartesian, List.mem_flatMap, List.mem_map] at h
    obtain ⟨y, hy, b, hb, rfl⟩ := h
    rcases List.mem_cons.mp hx with rfl | hx
    · exact ⟨l, List.mem_cons_self, hy⟩
    · obtain ⟨l', hl', hxl'⟩ := mem_cartesian_elem ls b hb x hx
      exact ⟨l', List.mem_cons_of_mem _ hl', hxl'⟩

/-- the particles of every expansion of `c` are particles of `c` or of one of the separately written lines -/
theorem expandLines_nodes (ll : List AChain) :
    ∀ (f : Nat) (c : AChain) (out : List AChain) (fin : List String), expandLines ll f c = .ok (out, fin) →
      ∀ x ∈ out, ∀ p ∈ nodesOf x, p ∈ nodesOf c ∨ ∃ l ∈ ll, p ∈ nodesOf l
  | 0, c, out, fin, h => by simp [expandLines] at h
  | f + 1, c, out, fin, h => by
    simp only [expandLines] at h
    split at h
    · -- a node with daughters
      split at h
      · cases h
      · rename_i rs hrs
        simp only [Except.ok.injEq, Prod.mk.injEq] at h
        obtain ⟨rfl, _⟩ := h
        intro x hx p hp
        simp only [List.mem_map] at hx
        obtain ⟨ds, hds, rfl⟩ := hx
        rw [nodesOf_withDs] at hp
        rcases List.mem_cons.mp hp with rfl | hp
        · left; rw [nodesOf_self]; exact List.mem_cons_self
        · obtain ⟨d, hd, hpd⟩ := (nodesOfL_mem ds p).mp hp
          obtain ⟨opts, hopts, hdo⟩ := mem_cartesian_elem _ ds hds d hd
          simp only [List.mem_map] at hopts
          obtain ⟨r, hr, rfl⟩ := hopts
          obtain ⟨c0, hc0, hfc0⟩ := mapM_except_mem _ _ _ hrs r hr
          obtain ⟨o, fi⟩ := r
          rcases expandLines_nodes ll f c0 o fi hfc0 d hdo p hpd with h1 | h1
          · left
            rw [nodesOf_self]
            exact List.mem_cons_of_mem _ ((nodesOfL_mem c.ds p).mpr ⟨c0, hc0, h1⟩)
          · exact Or.inr h1
    · -- a dead end
      split at h
      · cases h
      · rename_i rs hrs
        split at h
        · simp only [Except.ok.injEq, Prod.mk.injEq] at h
          obtain ⟨rfl, _⟩ := h
          intro x hx p hp
          simp only [List.mem_singleton] at hx
          subst hx
          exact Or.inl hp
        · simp only [Except.ok.injEq, Prod.mk.injEq] at h
          obtain ⟨rfl, _⟩ := h
          intro x hx p hp
          simp only [List.mem_flatten, List.mem_map] at hx
          obtain ⟨o, ⟨r, hr, rfl⟩, hxo⟩ := hx
          obtain ⟨l0, hl0, hfl0⟩ := mapM_except_mem _ _ _ hrs r hr
          obtain ⟨o', fi⟩ := r
          have hl0' : l0 ∈ ll := (List.mem_filter.mp hl0).1
          rcases expandLines_nodes ll f l0 o' fi hfl0 x hxo p hp with h1 | h1
          · exact Or.inr ⟨l0, hl0', h1⟩
          · exact Or.inr h1

theorem mem_addSet (s xs : List String) (x : String) (h : x ∈ xs) : x ∈ addSet s xs := by
  unfold addSet
  induction xs generalizing s with
  | nil => cases h
  | cons y r ih =>
    simp only [List.foldl_cons]
    rcases List.mem_cons.mp h with rfl | h
    · -- once in, stays in
      have keep : ∀ (r : List String) (s : List String), x ∈ s →
          x ∈ r.foldl (fun acc x => if acc.contains x then acc else acc ++ [x]) s := by
        intro r
        induction r with
        | nil => intro s hs; exact hs
        | cons z r ihr =>
          intro s hs
          simp only [List.foldl_cons]
          apply ihr
          split
          · exact hs
          · exact List.mem_append_left _ hs
      apply keep
      split
      · rename_i hc; exact List.contains_iff_mem.mp hc
      · simp
    · exact ih _ h

end DL
