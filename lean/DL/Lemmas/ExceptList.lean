/-
`List.mapM` in the `Except` monad.  Core Lean only.
-/
namespace DL

theorem mapM_except_cons {ε α β : Type} (f : α → Except ε β) (a : α) (l : List α) :
    (a :: l).mapM f = match f a with
      | .error e => .error e
      | .ok b => match l.mapM f with
        | .error e => .error e
        | .ok bs => .ok (b :: bs) := by
  rw [List.mapM_cons]
  simp only [bind, Except.bind, pure, Except.pure]
  cases f a with
  | error e => rfl
  | ok b => cases l.mapM f <;> rfl

theorem mapM_except_length {ε α β : Type} (f : α → Except ε β) :
    ∀ (l : List α) (r : List β), l.mapM f = .ok r → r.length = l.length
  | [], r, h => by simp [List.mapM_nil, pure, Except.pure] at h; subst h; rfl
  | a :: l, r, h => by
    rw [mapM_except_cons] at h
    cases ha : f a with
    | error e => simp [ha] at h
    | ok b =>
      simp only [ha] at h
      cases hl : l.mapM f with
      | error e => simp [hl] at h
      | ok bs =>
        simp only [hl, Except.ok.injEq] at h
        subst h
        simp [mapM_except_length f l bs hl]

end DL
