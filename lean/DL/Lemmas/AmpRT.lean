/-
Round trip of the AmpGen options reader (`Amp.readAmpText`, DL/Model/AmpRead.lean): rendering a list of
statements and reading the text back gives the statements.  Stage 1: the canonical text
(`renderAmpSimple`, `read_simple`).  Stage 2: arbitrary layout (`renderAmp`, `GoodAmpLayout`,
`read_layout`).  Stage 3: the integer-flag form (`readAmp_layout`).  The number lemmas are those of
DL/Lemmas/ReadRT.lean (`readNumber` is shared by the two readers).
-/
import DL.Model.AmpRead
import DL.Lemmas.ReadRT
namespace DL
namespace Amp
namespace RT
open DL.ReadRT (NumText NStops NotNum DigitsText)

/-! ### characters and blanks -/

/-- a run of blanks and tabs -/
def Blanks (gap : List Char) : Prop := ∀ c ∈ gap, isBlank c = true

instance (gap : List Char) : Decidable (Blanks gap) := by unfold Blanks; infer_instance

/-- a non-empty run of blanks and tabs -/
def GoodGap (gap : List Char) : Prop := gap ≠ [] ∧ Blanks gap

instance (gap : List Char) : Decidable (GoodGap gap) := by unfold GoodGap; infer_instance

theorem isBlank_eq (c : Char) : isBlank c = isBlankC c := rfl

theorem blank_cases {c : Char} (h : isBlank c = true) : c = ' ' ∨ c = '\t' := by
  simpa [isBlank] using h

theorem Blanks.nil : Blanks [] := by intro c hc; cases hc

theorem Blanks.single : Blanks [' '] := by decide

theorem Blanks.append {a b : List Char} (ha : Blanks a) (hb : Blanks b) : Blanks (a ++ b) := by
  intro c hc
  rcases List.mem_append.mp hc with h | h
  · exact ha c h
  · exact hb c h

theorem skipWs_blanks (gap rest : List Char) (hg : Blanks gap) :
    skipWs (gap ++ rest) = skipWs rest := by
  induction gap with
  | nil => rfl
  | cons c g ih =>
    have hc : isBlank c = true := hg c List.mem_cons_self
    simp only [List.cons_append, skipWs, hc, if_true]
    exact ih (fun d hd => hg d (List.mem_cons_of_mem _ hd))

theorem skipWs_nonblank (c : Char) (rest : List Char) (hc : isBlank c = false) :
    skipWs (c :: rest) = c :: rest := by
  simp [skipWs, hc]

theorem skipWs_length (cs : List Char) : (skipWs cs).length ≤ cs.length := by
  induction cs with
  | nil => simp [skipWs]
  | cons c r ih =>
    by_cases hc : isBlank c = true
    · simp only [skipWs, hc, if_true, List.length_cons]; omega
    · simp [skipWs, hc]

theorem skipWs_idem (cs : List Char) : skipWs (skipWs cs) = skipWs cs := by
  induction cs with
  | nil => rfl
  | cons c r ih =>
    by_cases hc : isBlank c = true
    · simp [skipWs, hc, ih]
    · simp [skipWs, hc]

/-- the first character of a token: no blank, no comment sign, no line end -/
def TokHead (c : Char) : Prop := isBlank c = false ∧ c ≠ '#' ∧ c ≠ '\n' ∧ c ≠ '\r'

/-- a text that starts with a token -/
def StartsTok (t : List Char) : Prop := ∃ c tl, t = c :: tl ∧ TokHead c

theorem skipWs_tok {gap : List Char} (hgap : Blanks gap) {t : List Char} (ht : StartsTok t) (r : List Char) :
    skipWs (gap ++ (t ++ r)) = t ++ r := by
  obtain ⟨c, tl, rfl, hb, _⟩ := ht
  rw [skipWs_blanks _ _ hgap]; exact skipWs_nonblank c _ hb

theorem skipIgn_cons (c : Char) (rest : List Char) (hc : isBlank c = false) (hh : c ≠ '#') :
    skipIgn (c :: rest) = c :: rest := by
  unfold skipIgn
  simp only [skipIgnored]
  rw [skipWs_nonblank c rest hc]
  split
  · rename_i heq
    simp only [List.cons.injEq] at heq
    exact absurd heq.1 hh
  · rfl

/-- blanks before a character that is neither a blank nor the start of a comment -/
theorem skipIgn_gap {gap : List Char} (hgap : Blanks gap) (c : Char) (rest : List Char)
    (hc : isBlank c = false) (hh : c ≠ '#') : skipIgn (gap ++ c :: rest) = c :: rest := by
  unfold skipIgn
  simp only [skipIgnored]
  rw [skipWs_blanks gap _ hgap, skipWs_nonblank c rest hc]
  split
  · rename_i heq
    simp only [List.cons.injEq] at heq
    exact absurd heq.1 hh
  · rfl

theorem skipIgn_tok {gap : List Char} (hgap : Blanks gap) {t : List Char} (ht : StartsTok t) (r : List Char) :
    skipIgn (gap ++ (t ++ r)) = t ++ r := by
  obtain ⟨c, tl, rfl, hb, hh, _⟩ := ht
  exact skipIgn_gap hgap c _ hb hh

theorem skipIgn_nil : skipIgn [] = [] := by decide

/-! ### labels -/

/-- a label: a text the lexer reads as exactly one `LABEL` -/
def GoodLabel (w : String) : Prop := takeLabel w.toList = some (w, [])

instance (w : String) : Decidable (GoodLabel w) := by unfold GoodLabel; infer_instance

/-- the remainder after a label: nothing, or a character that cannot continue a label -/
def LStop : List Char → Prop
  | [] => True
  | c :: _ => isLabelC c = false ∧ c ≠ ':'

theorem tlc_cc (t : List Char) :
    takeLabelChars (':' :: ':' :: t) = (':' :: ':' :: (takeLabelChars t).1, (takeLabelChars t).2) := by
  simp [takeLabelChars]

theorem tlc_cons (c : Char) (t : List Char) (hno : ∀ r, c = ':' → t = ':' :: r → False) :
    takeLabelChars (c :: t) =
      if isLabelC c then (c :: (takeLabelChars t).1, (takeLabelChars t).2) else ([], c :: t) := by
  rw [takeLabelChars]
  exact hno

theorem colon_not_label : isLabelC ':' = false := by decide

theorem takeLabelChars_append_aux (r : List Char) (hr : LStop r) : ∀ (n : Nat) (a : List Char), a.length ≤ n →
    takeLabelChars a = (a, []) → takeLabelChars (a ++ r) = (a, r) := by
  intro n
  induction n with
  | zero =>
    intro a ha _
    have : a = [] := List.eq_nil_of_length_eq_zero (by omega)
    subst this
    cases r with
    | nil => rfl
    | cons c t =>
      simp only [List.nil_append]
      rw [tlc_cons c t (fun _ hc _ => hr.2 hc)]
      simp [hr.1]
  | succ n ih =>
    intro a ha h
    cases a with
    | nil => exact ih [] (by simp) h
    | cons c t =>
      by_cases hcc : ∃ u, c = ':' ∧ t = ':' :: u
      · obtain ⟨u, rfl, rfl⟩ := hcc
        rw [tlc_cc] at h
        simp only [Prod.mk.injEq, List.cons.injEq, true_and] at h
        have h' : takeLabelChars u = (u, []) := Prod.ext h.1 h.2
        simp only [List.cons_append, tlc_cc]
        rw [ih u (by simp only [List.length_cons] at ha; omega) h']
      · have hno : ∀ u, c = ':' → t = ':' :: u → False := fun u h1 h2 => hcc ⟨u, h1, h2⟩
        rw [tlc_cons c t hno] at h
        by_cases hc : isLabelC c = true
        · simp only [hc, if_true, Prod.mk.injEq, List.cons.injEq, true_and] at h
          have h' : takeLabelChars t = (t, []) := Prod.ext h.1 h.2
          have hno' : ∀ u, c = ':' → t ++ r = ':' :: u → False := by
            intro u h1 _
            rw [h1] at hc
            exact absurd hc (by decide)
          rw [List.cons_append, tlc_cons c (t ++ r) hno']
          simp only [hc, if_true]
          rw [ih t (by simp only [List.length_cons] at ha; omega) h']
        · simp [hc] at h

theorem takeLabelChars_append (a r : List Char) (h : takeLabelChars a = (a, [])) (hr : LStop r) :
    takeLabelChars (a ++ r) = (a, r) :=
  takeLabelChars_append_aux r hr a.length a (Nat.le_refl _) h

theorem GoodLabel.chars {w : String} (h : GoodLabel w) :
    w.toList ≠ [] ∧ takeLabelChars w.toList = (w.toList, []) := by
  unfold GoodLabel takeLabel at h
  generalize hx : takeLabelChars w.toList = x at h
  obtain ⟨a, b⟩ := x
  simp only at h
  split at h
  · cases h
  · rename_i hne
    simp only [Option.some.injEq, Prod.mk.injEq] at h
    obtain ⟨h1, h2⟩ := h
    have ha : a = w.toList := by rw [← h1]; simp
    subst h2
    rw [← ha]
    refine ⟨?_, rfl⟩
    intro e
    rw [e] at hne
    exact hne rfl

theorem takeLabel_good {w : String} (hw : GoodLabel w) {r : List Char} (hr : LStop r) :
    takeLabel (w.toList ++ r) = some (w, r) := by
  obtain ⟨hne, hc⟩ := hw.chars
  unfold takeLabel
  rw [takeLabelChars_append _ _ hc hr]
  have : w.toList.isEmpty = false := by
    cases h : w.toList with
    | nil => exact absurd h hne
    | cons _ _ => rfl
  simp [this]

/-- a character that is neither a label character nor a colon starts no label -/
theorem takeLabel_none (c : Char) (t : List Char) (h1 : isLabelC c = false) (h2 : c ≠ ':') :
    takeLabel (c :: t) = none := by
  unfold takeLabel
  rw [tlc_cons c t (fun _ hc _ => h2 hc)]
  simp [h1]

theorem takeLabel_nil : takeLabel [] = none := by decide

theorem labelC_tokHead {c : Char} (h : isLabelC c = true) : TokHead c := by
  refine ⟨?_, ?_, ?_, ?_⟩
  · cases hb : isBlank c with
    | false => rfl
    | true => rcases blank_cases hb with rfl | rfl <;> exact absurd h (by decide)
  all_goals (rintro rfl; exact absurd h (by decide))

theorem label_head {w : String} (hw : GoodLabel w) : StartsTok w.toList := by
  obtain ⟨hne, hc⟩ := hw.chars
  cases hwl : w.toList with
  | nil => exact absurd hwl hne
  | cons c t =>
    refine ⟨c, t, rfl, ?_⟩
    rw [hwl] at hc
    by_cases hcc : ∃ u, c = ':' ∧ t = ':' :: u
    · obtain ⟨u, rfl, rfl⟩ := hcc
      exact ⟨by decide, by decide, by decide, by decide⟩
    · have hno : ∀ u, c = ':' → t = ':' :: u → False := fun u h1 h2 => hcc ⟨u, h1, h2⟩
      rw [tlc_cons c t hno] at hc
      by_cases hl : isLabelC c = true
      · exact labelC_tokHead hl
      · simp [hl] at hc

theorem rLabel_good {w : String} (hw : GoodLabel w) {gap : List Char} (hgap : Blanks gap)
    {r : List Char} (hr : LStop r) : rLabel (gap ++ (w.toList ++ r)) = .ok (w, r) := by
  unfold rLabel
  rw [skipIgn_tok hgap (label_head hw), takeLabel_good hw hr]

/-! ### numbers, integers, strings -/

theorem takeNumber_good {v : String} (hv : NumText v) {r : List Char} (hr : NStops r) :
    takeNumber (v.toList ++ r) = some (v, r) := by
  obtain ⟨n, hn, hsh⟩ := hv.lit
  unfold takeNumber
  rw [← hsh, ReadRT.readNumber_show n hn r hr]
  simp [hsh]

theorem numText_head {v : String} (hv : NumText v) : StartsTok v.toList := by
  obtain ⟨n, hn, hsh⟩ := hv.lit
  obtain ⟨hsn, hint, hfrac, hexp, hne⟩ := hn
  rw [← hsh, ReadRT.show_eq]
  cases hs : n.hasSign with
  | true =>
    cases n.neg
    · exact ⟨'+', _, rfl, by decide, by decide, by decide, by decide⟩
    · exact ⟨'-', _, rfl, by decide, by decide, by decide, by decide⟩
  | false =>
    simp only [Bool.false_eq_true, if_false, List.nil_append]
    cases hi : n.int with
    | cons d ds =>
      refine ⟨d, _, rfl, ?_⟩
      have hd := hint d (by rw [hi]; exact List.mem_cons_self)
      refine ⟨?_, ?_, ?_, ?_⟩
      · cases hb : isBlank d with
        | false => rfl
        | true => rcases blank_cases hb with rfl | rfl <;> exact absurd hd (by decide)
      all_goals (rintro rfl; exact absurd hd (by decide))
    | nil =>
      rcases hne with h | ⟨f, hf, _⟩
      · exact absurd hi h
      · have : n.frac = some f := hf
        rw [this]
        exact ⟨'.', _, rfl, by decide, by decide, by decide, by decide⟩

theorem rNumber_good {v : String} (hv : NumText v) {gap : List Char} (hgap : Blanks gap)
    {r : List Char} (hr : NStops r) : rNumber (gap ++ (v.toList ++ r)) = .ok (v, r) := by
  unfold rNumber
  rw [skipIgn_tok hgap (numText_head hv), takeNumber_good hv hr]

theorem takeNumber_notNum {w : String} (hn : NotNum w) (hne : w.toList ≠ []) {r : List Char} (hr : NStops r) :
    takeNumber (w.toList ++ r) = none := by
  unfold takeNumber
  rw [ReadRT.readNumber_none_append _ r hne hn hr]
  rfl

theorem takeNumber_none (c : Char) (t : List Char)
    (h : isDigit c = false ∧ c ≠ '+' ∧ c ≠ '-' ∧ c ≠ '.') : takeNumber (c :: t) = none := by
  unfold takeNumber
  rw [ReadRT.readNumber_none c t h]
  rfl

theorem takeNumber_nil : takeNumber [] = none := by decide

theorem digitsText_head {v : String} (hv : DigitsText v) : StartsTok v.toList := by
  obtain ⟨hne, hall⟩ := hv
  cases hvl : v.toList with
  | nil => exact absurd hvl hne
  | cons c t =>
    have hc : isDigit c = true := hall c (by rw [hvl]; exact List.mem_cons_self)
    refine ⟨c, t, rfl, ?_, ?_, ?_, ?_⟩
    · cases hb : isBlank c with
      | false => rfl
      | true => rcases blank_cases hb with rfl | rfl <;> exact absurd hc (by decide)
    all_goals (rintro rfl; exact absurd hc (by decide))

theorem takeInt_good {v : String} (hv : DigitsText v) {r : List Char} (hr : NStops r) :
    takeInt (v.toList ++ r) = some (v, r) := by
  unfold takeInt
  have hd := ReadRT.takeDigits_run v.toList r hv.2 (by
    intro d hd
    cases r with
    | nil => simp at hd
    | cons e t => simp only [List.head?_cons, Option.mem_def, Option.some.injEq] at hd; subst hd; exact hr.1)
  have hne : v.toList.isEmpty = false := by
    cases h : v.toList with
    | nil => exact absurd h hv.1
    | cons _ _ => rfl
  simp [hd, hne]

/-- a quoted string: a text the lexer reads as exactly one `ESCAPED_STRING`, i.e. `"`, a body without a line
    feed in which every quote is preceded by an odd run of backslashes and which ends in an even run, `"` -/
def StrOK (s : String) : Prop := takeString s.toList = some (s, [])

instance (s : String) : Decidable (StrOK s) := by unfold StrOK; infer_instance

theorem strBody_append (r : List Char) : ∀ (a : List Char) (e : Bool) (acc b t : List Char),
    strBody a e acc = some (b, t) → strBody (a ++ r) e acc = some (b, t ++ r) := by
  intro a
  induction a with
  | nil => intro e acc b t h; simp [strBody] at h
  | cons c a ih =>
    intro e acc b t h
    simp only [List.cons_append, strBody] at h ⊢
    split at h
    · cases h
    · rename_i hn
      simp only [hn]
      split at h
      · rename_i hq
        simp only [hq, if_true]
        simp only [Option.some.injEq, Prod.mk.injEq] at h
        simp [h.1, h.2]
      · rename_i hq
        simp only [hq]
        exact ih _ _ _ _ h

theorem takeString_good {s : String} (hs : StrOK s) (r : List Char) :
    takeString (s.toList ++ r) = some (s, r) := by
  unfold StrOK at hs
  cases hl : s.toList with
  | nil => rw [hl] at hs; simp [takeString] at hs
  | cons c t =>
    rw [hl] at hs
    by_cases hc : c = '"'
    · subst hc
      simp only [takeString, List.cons_append] at hs ⊢
      cases hb : strBody t true [] with
      | none => rw [hb] at hs; cases hs
      | some x =>
        obtain ⟨b, u⟩ := x
        rw [hb] at hs
        simp only [Option.some.injEq, Prod.mk.injEq] at hs
        rw [strBody_append r t true [] b u hb]
        simp [hs.1, hs.2]
    · unfold takeString at hs
      split at hs
      · rename_i heq; simp only [List.cons.injEq] at heq; exact absurd heq.1 hc
      · cases hs

theorem str_head {s : String} (hs : StrOK s) : StartsTok s.toList := by
  unfold StrOK at hs
  cases hl : s.toList with
  | nil => rw [hl] at hs; simp [takeString] at hs
  | cons c t =>
    rw [hl] at hs
    by_cases hc : c = '"'
    · subst hc; exact ⟨_, _, rfl, by decide, by decide, by decide, by decide⟩
    · unfold takeString at hs
      split at hs
      · rename_i heq; simp only [List.cons.injEq] at heq; exact absurd heq.1 hc
      · cases hs

/-! ### spin and lineshape tags -/

def SpinOK (s : String) : Prop := s = "S" ∨ s = "P" ∨ s = "D"

instance (s : String) : Decidable (SpinOK s) := by unfold SpinOK; infer_instance

def isShapeC (x : Char) : Bool := isCharC x || x == '.'

/-- a lineshape tag: a name character and then at least one name character or point -/
def ShapeOK (l : String) : Prop :=
  ∃ c ∈ l.toList.head?, isCharC c = true ∧ l.toList.tail ≠ [] ∧ ∀ x ∈ l.toList.tail, isShapeC x = true

instance (l : String) : Decidable (ShapeOK l) := by unfold ShapeOK; infer_instance

/-- the remainder after a tag: no name character and no point -/
def ShStop : List Char → Prop
  | [] => True
  | c :: _ => isShapeC c = false

theorem takeWhileC_run (p : Char → Bool) (a r : List Char) (ha : ∀ c ∈ a, p c = true)
    (hr : ∀ c ∈ r.head?, p c = false) : takeWhileC p (a ++ r) = (a, r) := by
  induction a with
  | nil =>
    cases r with
    | nil => rfl
    | cons c t =>
      have : p c = false := hr c (by simp)
      simp [takeWhileC, this]
  | cons x a ih =>
    have hx : p x = true := ha x List.mem_cons_self
    simp only [List.cons_append, takeWhileC, hx, if_true]
    rw [ih (fun c hc => ha c (List.mem_cons_of_mem _ hc))]

theorem takeLineshape_good {l : String} (hl : ShapeOK l) {r : List Char} (hr : ShStop r) :
    takeLineshape (l.toList ++ r) = some (l, r) := by
  obtain ⟨c, hc, h1, h2, h3⟩ := hl
  cases hll : l.toList with
  | nil => rw [hll] at hc; simp at hc
  | cons d t =>
    rw [hll] at hc h2 h3
    simp only [List.head?_cons, Option.mem_def, Option.some.injEq] at hc
    subst hc
    simp only [List.tail_cons] at h2 h3
    simp only [List.cons_append, takeLineshape, h1, if_true]
    have := takeWhileC_run (fun x => isCharC x || x == '.') t r h3 (by
      intro x hx
      cases r with
      | nil => simp at hx
      | cons e u => simp only [List.head?_cons, Option.mem_def, Option.some.injEq] at hx; subst hx; exact hr)
    rw [this]
    have hne : t.isEmpty = false := by
      cases t with
      | nil => exact absurd rfl h2
      | cons _ _ => rfl
    simp only [hne, Bool.false_eq_true, if_false]
    rw [← hll]; simp

theorem shape_head {l : String} (hl : ShapeOK l) : StartsTok l.toList := by
  obtain ⟨c, hc, h1, _⟩ := hl
  cases hll : l.toList with
  | nil => rw [hll] at hc; simp at hc
  | cons d t =>
    rw [hll] at hc
    simp only [List.head?_cons, Option.mem_def, Option.some.injEq] at hc
    subst hc
    exact ⟨d, t, rfl, labelC_tokHead (by simp [isLabelC, h1])⟩

/-- a single spin letter followed by something that is no name character is no lineshape -/
theorem takeLineshape_spin {s : String} (hs : SpinOK s) {r : List Char} (hr : ShStop r) :
    takeLineshape (s.toList ++ r) = none := by
  have key : ∀ c, takeLineshape (c :: r) = none := by
    intro c
    simp only [takeLineshape]
    split
    · have := takeWhileC_run (fun x => isCharC x || x == '.') [] r (by simp) (by
        intro x hx
        cases r with
        | nil => simp at hx
        | cons e u => simp only [List.head?_cons, Option.mem_def, Option.some.injEq] at hx; subst hx; exact hr)
      simp only [List.nil_append] at this
      rw [this]; rfl
    · rfl
  rcases hs with rfl | rfl | rfl <;> exact key _

theorem takeSpin_good {s : String} (hs : SpinOK s) (r : List Char) :
    takeSpin (s.toList ++ r) = some (s, r) := by
  rcases hs with rfl | rfl | rfl <;> rfl

theorem spin_head {s : String} (hs : SpinOK s) : StartsTok s.toList := by
  rcases hs with rfl | rfl | rfl <;> exact ⟨_, _, rfl, by decide, by decide, by decide, by decide⟩

/-! ### line ends -/

theorem dropLine_length (r : List Char) : (dropLine r).length ≤ r.length := by
  induction r with
  | nil => simp [dropLine]
  | cons c t ih =>
    by_cases hc : (c == '\n') = true
    · simp [dropLine, hc]
    · simp only [dropLine, hc, Bool.false_eq_true, if_false, List.length_cons]; omega

theorem newlineUnit_length {cs r : List Char} (h : newlineUnit cs = some r) : r.length < cs.length := by
  unfold newlineUnit at h
  split at h
  · cases h; have := dropLine_length ‹_›; simp only [List.length_cons]; omega
  · cases h; have := skipWs_length ‹_›; simp only [List.length_cons]; omega
  · cases h; have := skipWs_length ‹_›; simp only [List.length_cons]; omega
  · cases h

theorem newlineRun_fuel (f f' : Nat) (cs : List Char) (h : cs.length < f) (h' : cs.length < f') :
    newlineRun f cs = newlineRun f' cs := by
  induction f generalizing f' cs with
  | zero => omega
  | succ f ih =>
    cases f' with
    | zero => omega
    | succ f' =>
      simp only [newlineRun]
      cases ht : newlineUnit cs with
      | none => rfl
      | some r =>
        have h1 := newlineUnit_length ht
        exact ih f' r (by omega) (by omega)

/-- all the line-end units at the head of the text -/
def nlr (cs : List Char) : List Char := newlineRun (cs.length + 1) cs

theorem nlr_step {cs r : List Char} (h : newlineUnit cs = some r) : nlr cs = nlr r := by
  have h1 := newlineUnit_length h
  unfold nlr
  have : newlineRun (cs.length + 1) cs = newlineRun cs.length r := by simp only [newlineRun, h]
  rw [this]
  exact newlineRun_fuel _ _ _ (by omega) (by omega)

theorem nlr_stop {cs : List Char} (h : newlineUnit cs = none) : nlr cs = cs := by
  unfold nlr
  simp only [newlineRun, h]

theorem takeNewline_eq (cs : List Char) : takeNewline cs = (newlineUnit cs).map nlr := by
  unfold takeNewline
  cases newlineUnit cs <;> rfl

/-- the text after the blanks and all the line-end units -/
def N (cs : List Char) : List Char := nlr (skipWs cs)

theorem N_blanks {gap : List Char} (hgap : Blanks gap) (cs : List Char) : N (gap ++ cs) = N cs := by
  unfold N; rw [skipWs_blanks _ _ hgap]

theorem nlr_lf (cs : List Char) : nlr ('\n' :: cs) = N cs := nlr_step rfl

theorem nlr_crlf (cs : List Char) : nlr ('\r' :: '\n' :: cs) = N cs := nlr_step rfl

theorem dropLine_comment (body rest : List Char) (hb : '\n' ∉ body) :
    dropLine (body ++ '\n' :: rest) = '\n' :: rest := by
  induction body with
  | nil => simp [dropLine]
  | cons c b ih =>
    have hc : (c == '\n') = false := by
      simp only [beq_eq_false_iff_ne, ne_eq]; intro e; apply hb; rw [e]; exact List.mem_cons_self
    simp only [List.cons_append, dropLine, hc, Bool.false_eq_true, if_false]
    exact ih (fun hm => hb (List.mem_cons_of_mem _ hm))

theorem dropLine_all (body : List Char) (hb : '\n' ∉ body) : dropLine body = [] := by
  induction body with
  | nil => rfl
  | cons c b ih =>
    have hc : (c == '\n') = false := by
      simp only [beq_eq_false_iff_ne, ne_eq]; intro e; apply hb; rw [e]; exact List.mem_cons_self
    simp only [dropLine, hc, Bool.false_eq_true, if_false]
    exact ih (fun hm => hb (List.mem_cons_of_mem _ hm))

theorem nlr_comment (body cs : List Char) (hb : '\n' ∉ body) : nlr ('#' :: (body ++ '\n' :: cs)) = N cs := by
  have : newlineUnit ('#' :: (body ++ '\n' :: cs)) = some ('\n' :: cs) := by
    simp only [newlineUnit, dropLine_comment body cs hb]
  rw [nlr_step this, nlr_lf]

theorem nlr_nil : nlr [] = [] := rfl

theorem nlr_comment_end (body : List Char) (hb : '\n' ∉ body) : nlr ('#' :: body) = [] := by
  have : newlineUnit ('#' :: body) = some [] := by
    simp only [newlineUnit, dropLine_all body hb]
  rw [nlr_step this, nlr_nil]

theorem newlineUnit_tok (c : Char) (t : List Char) (h : TokHead c) : newlineUnit (c :: t) = none := by
  obtain ⟨_, h1, h2, h3⟩ := h
  unfold newlineUnit
  split
  · rename_i heq; simp only [List.cons.injEq] at heq; exact absurd heq.1 h1
  · rename_i heq; simp only [List.cons.injEq] at heq; exact absurd heq.1 h3
  · rename_i heq; simp only [List.cons.injEq] at heq; exact absurd heq.1 h2
  · rfl

theorem takeNewline_tok {t : List Char} (ht : StartsTok t) (r : List Char) : takeNewline (t ++ r) = none := by
  obtain ⟨c, tl, rfl, hc⟩ := ht
  rw [takeNewline_eq, List.cons_append, newlineUnit_tok c _ hc]; rfl

theorem N_tok {t : List Char} (ht : StartsTok t) (r : List Char) : N (t ++ r) = t ++ r := by
  obtain ⟨c, tl, rfl, hc⟩ := ht
  unfold N
  rw [List.cons_append, skipWs_nonblank _ _ hc.1, nlr_stop (newlineUnit_tok c _ hc)]

theorem N_nil : N [] = [] := rfl

/-- the optional leading line end of the text -/
theorem leading_newline (text : List Char) :
    (match takeNewline (skipWs text) with
      | some r => r
      | none => skipWs text) = N text := by
  unfold N
  rw [takeNewline_eq]
  cases h : newlineUnit (skipWs text) with
  | none => simp [nlr_stop h]
  | some r => simp [nlr_step h]

/-- the head of a line end: `#`, LF or CR LF -/
def EolHead (r : List Char) : Prop :=
  ∃ c t, r = c :: t ∧ (c = '\n' ∨ c = '#' ∨ (c = '\r' ∧ ∃ t', t = '\n' :: t'))

/-- what follows the last token of a line: blanks, then a comment or a line end -/
def AtEnd (r : List Char) : Prop := ∃ tr x, Blanks tr ∧ r = tr ++ x ∧ EolHead x

theorem EolHead.nonblank {x : List Char} (h : EolHead x) : skipWs x = x := by
  obtain ⟨c, t, rfl, hc⟩ := h
  apply skipWs_nonblank
  rcases hc with rfl | rfl | ⟨rfl, _⟩ <;> decide

theorem EolHead.unit {x : List Char} (h : EolHead x) : ∃ r, newlineUnit x = some r := by
  obtain ⟨c, t, rfl, hc⟩ := h
  rcases hc with rfl | rfl | ⟨rfl, t', rfl⟩
  · exact ⟨_, rfl⟩
  · exact ⟨_, rfl⟩
  · exact ⟨_, rfl⟩

theorem EolHead.notNumber {x : List Char} (h : EolHead x) : takeNumber x = none := by
  obtain ⟨c, t, rfl, hc⟩ := h
  apply takeNumber_none
  rcases hc with rfl | rfl | ⟨rfl, _⟩ <;> exact ⟨by decide, by decide, by decide, by decide⟩

theorem EolHead.notLabel {x : List Char} (h : EolHead x) : takeLabel x = none := by
  obtain ⟨c, t, rfl, hc⟩ := h
  apply takeLabel_none
  all_goals rcases hc with rfl | rfl | ⟨rfl, _⟩ <;> decide

theorem AtEnd.skip {r : List Char} (h : AtEnd r) : EolHead (skipWs r) := by
  obtain ⟨tr, x, ht, rfl, hx⟩ := h
  rw [skipWs_blanks _ _ ht, hx.nonblank]; exact hx

/-- the head of such a remainder is a blank, `#`, CR or LF -/
theorem AtEnd.head {r : List Char} (h : AtEnd r) :
    ∃ c t, r = c :: t ∧ (c = ' ' ∨ c = '\t' ∨ c = '\n' ∨ c = '#' ∨ c = '\r') := by
  obtain ⟨tr, x, ht, rfl, c, t, rfl, hc⟩ := h
  cases tr with
  | nil =>
    refine ⟨c, t, rfl, ?_⟩
    rcases hc with rfl | rfl | ⟨rfl, _⟩ <;> simp
  | cons b bs =>
    refine ⟨b, _, rfl, ?_⟩
    rcases blank_cases (ht b List.mem_cons_self) with rfl | rfl <;> simp

theorem AtEnd.lstop {r : List Char} (h : AtEnd r) : LStop r := by
  obtain ⟨c, t, rfl, hc⟩ := h.head
  rcases hc with rfl | rfl | rfl | rfl | rfl <;> exact ⟨by decide, by decide⟩

theorem AtEnd.nstops {r : List Char} (h : AtEnd r) : NStops r := by
  obtain ⟨c, t, rfl, hc⟩ := h.head
  rcases hc with rfl | rfl | rfl | rfl | rfl <;> exact ⟨by decide, by decide, by decide, by decide⟩

theorem AtEnd.atNewline {r : List Char} (h : AtEnd r) : Amp.atNewline r = true := by
  unfold Amp.atNewline
  obtain ⟨x, hx⟩ := h.skip.unit
  rw [takeNewline_eq, hx]; rfl

theorem AtEnd.afterLabel {r : List Char} (h : AtEnd r) : ∃ r', afterLabel r = (.newline, r') := by
  unfold Amp.afterLabel
  obtain ⟨x, hx⟩ := h.skip.unit
  simp only [h.skip.notNumber, h.skip.notLabel, takeNewline_eq, hx, Option.map_some]
  exact ⟨_, rfl⟩

/-- a token follows: the line does not end here -/
theorem atNewline_tok {gap : List Char} (hgap : Blanks gap) {t : List Char} (ht : StartsTok t) (r : List Char) :
    atNewline (gap ++ (t ++ r)) = false := by
  unfold atNewline
  rw [skipWs_tok hgap ht, takeNewline_tok ht]; rfl

/-! ### the token after a label -/

theorem afterLabel_num {gap : List Char} (hgap : Blanks gap) {v : String} (hv : NumText v) {r : List Char}
    (hr : NStops r) : afterLabel (gap ++ (v.toList ++ r)) = (.num v, r) := by
  unfold afterLabel
  simp only [skipWs_tok hgap (numText_head hv), takeNumber_good hv hr]

theorem afterLabel_label {gap : List Char} (hgap : Blanks gap) {w : String} (hw : GoodLabel w) (hn : NotNum w)
    {r : List Char} (hr : LStop r) (hr' : NStops r) : afterLabel (gap ++ (w.toList ++ r)) = (.label w, r) := by
  unfold afterLabel
  simp only [skipWs_tok hgap (label_head hw), takeNumber_notNum hn hw.chars.1 hr', takeLabel_good hw hr]

def isPunct (c : Char) : Bool := c == ',' || c == '=' || c == '{' || c == '[' || c == '}'

theorem afterLabel_punct {gap : List Char} (hgap : Blanks gap) (c : Char) (hc : isPunct c = true) (r : List Char) :
    afterLabel (gap ++ c :: r) = (.punct c, r) := by
  have hc' : c = ',' ∨ c = '=' ∨ c = '{' ∨ c = '[' ∨ c = '}' := by simpa [isPunct, or_assoc] using hc
  have hb : isBlank c = false := by rcases hc' with rfl | rfl | rfl | rfl | rfl <;> decide
  have h1 : takeNumber (c :: r) = none := by
    apply takeNumber_none
    rcases hc' with rfl | rfl | rfl | rfl | rfl <;> exact ⟨by decide, by decide, by decide, by decide⟩
  have h2 : takeLabel (c :: r) = none := by
    apply takeLabel_none
    all_goals rcases hc' with rfl | rfl | rfl | rfl | rfl <;> decide
  have h3 : takeNewline (c :: r) = none := by
    rw [takeNewline_eq, newlineUnit_tok c r]; · rfl
    rcases hc' with rfl | rfl | rfl | rfl | rfl <;> exact ⟨by decide, by decide, by decide, by decide⟩
  unfold afterLabel
  rw [skipWs_blanks _ _ hgap, skipWs_nonblank _ _ hb]
  simp only [h1, h2, h3]
  have : (c == ',' || c == '=' || c == '{' || c == '[' || c == '}') = true := hc
  simp only [this, if_true]

/-! ### decay trees -/

theorem rChar_good (c : Char) (hb : isBlank c = false) (hh : c ≠ '#') {gap : List Char} (hgap : Blanks gap)
    (r : List Char) : rChar c (gap ++ c :: r) = .ok r := by
  unfold rChar
  rw [skipIgn_gap hgap c r hb hh]
  simp

/-- the tags after their `[`, up to the `]`: blank runs `g 1` … `g 4` -/
def typeInner (g : Nat → List Char) : Option String → Option String → List Char
  | none, none => []
  | some s, none => g 1 ++ (s.toList ++ (g 4 ++ [']']))
  | none, some l => g 1 ++ (l.toList ++ (g 4 ++ [']']))
  | some s, some l => g 1 ++ (s.toList ++ (g 2 ++ ';' :: (g 3 ++ (l.toList ++ (g 4 ++ [']'])))))

/-- `[spin;lineshape]` and the blanks `g 5` before the `{`; nothing when there is no tag -/
def typeText (g : Nat → List Char) (sp ls : Option String) : List Char :=
  if sp.isNone && ls.isNone then [] else '[' :: (typeInner g sp ls ++ g 5)

mutual
  /-- a decay tree `name[spin;ls]{d1,d2}` with the blank runs `γ path kind` (kind 0: before `[`, 1 … 4 in
      the tags, 5: before `{`, 6: after `{`, 7: before `,`, 8: after `,`, 9: before `}`) -/
  def renderTree (γ : List Nat → Nat → List Char) : ADecay → List Char
    | .mk n sp ls ds => n.toList ++ (match ds with
      | [] => []
      | _ => γ [] 0 ++ (typeText (γ []) sp ls ++ '{' :: renderKids γ 0 ds))
  def renderKids (γ : List Nat → Nat → List Char) : Nat → List ADecay → List Char
    | _, [] => ['}']
    | i, d :: ds => γ [] (6 + 2 * i) ++ (renderTree (fun p => γ (i :: p)) d ++ (γ [] (7 + 2 * i) ++
        (match ds with
          | [] => ['}']
          | _ => ',' :: renderKids γ (i + 1) ds)))
end

/-- what follows the name of a node with two daughters -/
def nodeTail (γ : List Nat → Nat → List Char) (sp ls : Option String) (d1 d2 : ADecay) : List Char :=
  γ [] 0 ++ (typeText (γ []) sp ls ++ '{' :: (γ [] 6 ++ (renderTree (fun p => γ (0 :: p)) d1 ++ (γ [] 7 ++
    ',' :: (γ [] 8 ++ (renderTree (fun p => γ (1 :: p)) d2 ++ (γ [] 9 ++ ['}'])))))))

theorem renderTree_node (γ : List Nat → Nat → List Char) (n : String) (sp ls : Option String) (d1 d2 : ADecay) :
    renderTree γ (.mk n sp ls [d1, d2]) = n.toList ++ nodeTail γ sp ls d1 d2 := by
  simp [renderTree, renderKids, nodeTail]

theorem renderTree_leaf (γ : List Nat → Nat → List Char) (n : String) (sp ls : Option String) :
    renderTree γ (.mk n sp ls []) = n.toList := by
  simp [renderTree]

def optAll (p : String → Prop) [DecidablePred p] : Option String → Bool
  | none => true
  | some s => decide (p s)

mutual
  /-- a tree the grammar can produce: names are labels, a node has no daughters (and then no tags) or
      exactly two, the tags are a spin letter and a lineshape name -/
  def treeOK : ADecay → Bool
    | .mk n sp ls ds => decide (GoodLabel n) && (match ds with
      | [] => sp.isNone && ls.isNone
      | _ => optAll SpinOK sp && optAll ShapeOK ls && ds.length == 2 && kidsOK ds)
  def kidsOK : List ADecay → Bool
    | [] => true
    | d :: ds => treeOK d && kidsOK ds
end

mutual
  /-- the fuel `rDecayTail` needs on the tree -/
  def fuelT : ADecay → Nat
    | .mk _ _ _ ds => match ds with
      | [] => 1
      | _ => 3 + fuelKids ds
  def fuelKids : List ADecay → Nat
    | [] => 0
    | d :: ds => max (fuelT d) (fuelKids ds)
end

theorem treeOK_leaf {n : String} {sp ls : Option String} (h : treeOK (.mk n sp ls []) = true) :
    GoodLabel n ∧ sp = none ∧ ls = none := by
  simpa [treeOK] using h

theorem treeOK_shape {n : String} {sp ls : Option String} {ds : List ADecay} (h : treeOK (.mk n sp ls ds) = true) :
    ds = [] ∨ ∃ d1 d2, ds = [d1, d2] := by
  cases ds with
  | nil => left; rfl
  | cons d1 t =>
    right
    simp only [treeOK, Bool.and_eq_true, beq_iff_eq] at h
    have hl := h.2.1.2
    match t, hl with
    | [d2], _ => exact ⟨d1, d2, rfl⟩

theorem treeOK_node {n : String} {sp ls : Option String} {d1 d2 : ADecay} (h : treeOK (.mk n sp ls [d1, d2]) = true) :
    GoodLabel n ∧ (∀ s ∈ sp, SpinOK s) ∧ (∀ l ∈ ls, ShapeOK l) ∧ treeOK d1 = true ∧ treeOK d2 = true := by
  simp only [treeOK, kidsOK, Bool.and_eq_true, decide_eq_true_eq, Bool.and_true] at h
  obtain ⟨hn, ⟨⟨hs, hl⟩, _⟩, h1, h2⟩ := h
  refine ⟨hn, ?_, ?_, h1, h2⟩
  · intro s hs'; cases hs'; simpa [optAll] using hs
  · intro l hl'; cases hl'; simpa [optAll] using hl

theorem fuelT_leaf (n : String) (sp ls : Option String) : fuelT (.mk n sp ls []) = 1 := by simp [fuelT]

theorem fuelT_node (n : String) (sp ls : Option String) (d1 d2 : ADecay) :
    fuelT (.mk n sp ls [d1, d2]) = 3 + max (fuelT d1) (fuelT d2) := by
  simp [fuelT, fuelKids]

theorem shStop_gap {gap : List Char} (hgap : Blanks gap) (c : Char) (hc : c = ']' ∨ c = ';') (r : List Char) :
    ShStop (gap ++ c :: r) := by
  cases gap with
  | nil => rcases hc with rfl | rfl <;> (simp only [List.nil_append, ShStop]; decide)
  | cons b bs => rcases blank_cases (hgap b List.mem_cons_self) with h | h <;> (simp only [List.cons_append, ShStop, h]; decide)

theorem rDecayType_render (g : Nat → List Char) (hg : ∀ i, Blanks (g i)) (sp ls : Option String)
    (hsp : ∀ s ∈ sp, SpinOK s) (hls : ∀ l ∈ ls, ShapeOK l) (hne : (sp.isNone && ls.isNone) = false)
    (r : List Char) : rDecayType (typeInner g sp ls ++ r) = .ok ((sp, ls), r) := by
  cases sp with
  | none =>
    cases ls with
    | none => simp at hne
    | some l =>
      have hl := hls l rfl
      simp only [typeInner, List.append_assoc, List.cons_append, List.nil_append]
      unfold rDecayType
      simp only [skipIgn_tok (hg 1) (shape_head hl), takeLineshape_good hl (shStop_gap (hg 4) ']' (Or.inl rfl) r),
        skipIgn_gap (hg 4) ']' r (by decide) (by decide)]
      rfl
  | some s =>
    have hs := hsp s rfl
    cases ls with
    | none =>
      simp only [typeInner, List.append_assoc, List.cons_append, List.nil_append]
      unfold rDecayType
      simp only [skipIgn_tok (hg 1) (spin_head hs), takeLineshape_spin hs (shStop_gap (hg 4) ']' (Or.inl rfl) r),
        takeSpin_good hs, skipIgn_gap (hg 4) ']' r (by decide) (by decide)]
      rfl
    | some l =>
      have hl := hls l rfl
      simp only [typeInner, List.append_assoc, List.cons_append, List.nil_append]
      unfold rDecayType
      simp only [skipIgn_tok (hg 1) (spin_head hs), takeLineshape_spin hs (shStop_gap (hg 2) ';' (Or.inr rfl) _),
        takeSpin_good hs, skipIgn_gap (hg 2) ';' _ (by decide) (by decide),
        skipIgn_tok (hg 3) (shape_head hl), takeLineshape_good hl (shStop_gap (hg 4) ']' (Or.inl rfl) r),
        rChar_good ']' (by decide) (by decide) (hg 4) r]
      rfl

/-- what follows a daughter: blanks, then `,` or `}` -/
def KidEnd (r : List Char) : Prop := ∃ gap c t, Blanks gap ∧ r = gap ++ c :: t ∧ (c = ',' ∨ c = '}')

theorem KidEnd.lstop {r : List Char} (h : KidEnd r) : LStop r := by
  obtain ⟨gap, c, t, hg, rfl, hc⟩ := h
  cases gap with
  | nil => rcases hc with rfl | rfl <;> exact ⟨by decide, by decide⟩
  | cons b bs =>
    rcases blank_cases (hg b List.mem_cons_self) with h | h <;> (simp only [List.cons_append, LStop, h]; decide)

theorem KidEnd.afterLabel {r : List Char} (h : KidEnd r) :
    ∃ c t, Amp.afterLabel r = (.punct c, t) ∧ (c = ',' ∨ c = '}') := by
  obtain ⟨gap, c, t, hg, rfl, hc⟩ := h
  refine ⟨c, t, afterLabel_punct hg c ?_ t, hc⟩
  rcases hc with rfl | rfl <;> decide

theorem kidEnd_mk {gap : List Char} (hgap : Blanks gap) (c : Char) (hc : c = ',' ∨ c = '}') (t : List Char) :
    KidEnd (gap ++ c :: t) := ⟨gap, c, t, hgap, rfl, hc⟩

/-- a bare particle: `rDecayTail` leaves the input untouched -/
theorem rDecayTail_bare (f : Nat) (name : String) {r : List Char} (hr : KidEnd r) :
    rDecayTail (f + 1) name r = .ok (none, r) := by
  obtain ⟨c, t, h1, hc⟩ := hr.afterLabel
  simp only [rDecayTail, h1]
  rcases hc with rfl | rfl <;> rfl

theorem rDecay_bare (f : Nat) {name : String} (hn : GoodLabel name) {gap : List Char} (hgap : Blanks gap)
    {r : List Char} (hr : KidEnd r) :
    rDecay (f + 2) (gap ++ (name.toList ++ r)) = .ok (.mk name none none [], r) := by
  obtain ⟨c, t, h1, hc⟩ := hr.afterLabel
  simp only [rDecay, rLabel_good hn hgap hr.lstop, rDecayTail_bare f name hr, h1]
  rcases hc with rfl | rfl <;> rfl

/-- the blank runs of a tree layout -/
def GoodTreeGaps (γ : List Nat → Nat → List Char) : Prop := ∀ p k, Blanks (γ p k)

theorem GoodTreeGaps.kid {γ : List Nat → Nat → List Char} (h : GoodTreeGaps γ) (i : Nat) :
    GoodTreeGaps (fun p => γ (i :: p)) := fun p k => h (i :: p) k

def TailP (f : Nat) : Prop :=
  ∀ (γ : List Nat → Nat → List Char) (name : String) (sp ls : Option String) (d1 d2 : ADecay) (r : List Char),
    GoodTreeGaps γ → treeOK (.mk name sp ls [d1, d2]) = true → fuelT (.mk name sp ls [d1, d2]) ≤ f →
    rDecayTail f name (nodeTail γ sp ls d1 d2 ++ r) = .ok (some (.mk name sp ls [d1, d2]), r)

def DecayP (f : Nat) : Prop :=
  ∀ (γ : List Nat → Nat → List Char) (d : ADecay) (gap r : List Char),
    GoodTreeGaps γ → treeOK d = true → Blanks gap → KidEnd r → fuelT d + 1 ≤ f →
    rDecay f (gap ++ (renderTree γ d ++ r)) = .ok (d, r)

def SubP (f : Nat) : Prop :=
  ∀ (γ : List Nat → Nat → List Char) (d1 d2 : ADecay) (r : List Char),
    GoodTreeGaps γ → treeOK d1 = true → treeOK d2 = true → fuelT d1 + 2 ≤ f → fuelT d2 + 2 ≤ f →
    rSub f (γ [] 6 ++ (renderTree (fun p => γ (0 :: p)) d1 ++ (γ [] 7 ++
      ',' :: (γ [] 8 ++ (renderTree (fun p => γ (1 :: p)) d2 ++ (γ [] 9 ++ '}' :: r)))))) = .ok ([d1, d2], r)

theorem lstop_gap_punct {gap : List Char} (hgap : Blanks gap) (c : Char) (hc : isPunct c = true) (r : List Char) :
    LStop (gap ++ c :: r) := by
  cases gap with
  | nil =>
    have hc' : c = ',' ∨ c = '=' ∨ c = '{' ∨ c = '[' ∨ c = '}' := by simpa [isPunct, or_assoc] using hc
    rcases hc' with rfl | rfl | rfl | rfl | rfl <;> exact ⟨by decide, by decide⟩
  | cons b bs =>
    rcases blank_cases (hgap b List.mem_cons_self) with h | h <;> (simp only [List.cons_append, LStop, h]; decide)

/-- the text of a node after its name starts with blanks and then `[` or `{` -/
theorem nodeTail_head (γ : List Nat → Nat → List Char) (sp ls : Option String) (d1 d2 : ADecay) :
    ∃ c t, nodeTail γ sp ls d1 d2 = γ [] 0 ++ c :: t ∧ (c = '[' ∨ c = '{') := by
  unfold nodeTail typeText
  by_cases h : (sp.isNone && ls.isNone) = true
  · simp only [h, if_true, List.nil_append]; exact ⟨_, _, rfl, Or.inr rfl⟩
  · simp only [h, Bool.false_eq_true, if_false, List.cons_append]; exact ⟨_, _, rfl, Or.inl rfl⟩

theorem tree_step (f : Nat) (hT : TailP f) (hD : DecayP f) (hS : SubP f) :
    TailP (f + 1) ∧ DecayP (f + 1) ∧ SubP (f + 1) := by
  refine ⟨?_, ?_, ?_⟩
  · -- the tail of a node
    intro γ name sp ls d1 d2 r hγ hok hf
    obtain ⟨_, hsp, hls, h1, h2⟩ := treeOK_node hok
    rw [fuelT_node] at hf
    have hsub := hS γ d1 d2 r hγ h1 h2 (by omega) (by omega)
    by_cases h : (sp.isNone && ls.isNone) = true
    · have e1 : sp = none := by cases sp <;> simp_all
      have e2 : ls = none := by cases ls <;> simp_all
      subst e1 e2
      simp only [nodeTail, typeText, Option.isNone_none, Bool.and_self, if_true, List.nil_append, List.append_assoc,
        List.cons_append]
      simp only [rDecayTail, afterLabel_punct (hγ [] 0) '{' (by decide), hsub]
    · have h' : (sp.isNone && ls.isNone) = false := (Bool.not_eq_true _).mp h
      simp only [nodeTail, typeText, h', Bool.false_eq_true, if_false, List.cons_append, List.append_assoc,
        List.nil_append]
      simp only [rDecayTail, afterLabel_punct (hγ [] 0) '[' (by decide),
        rDecayType_render (γ []) (hγ []) sp ls hsp hls h',
        rChar_good '{' (by decide) (by decide) (hγ [] 5), hsub]
  · -- a daughter
    intro γ d gap r hγ hok hgap hr hf
    obtain ⟨name, sp, ls, ds⟩ := d
    rcases treeOK_shape hok with rfl | ⟨d1, d2, rfl⟩
    · obtain ⟨hn, rfl, rfl⟩ := treeOK_leaf hok
      rw [renderTree_leaf]
      cases f with
      | zero => rw [fuelT_leaf] at hf; omega
      | succ f => exact rDecay_bare f hn hgap hr
    · obtain ⟨hn, _⟩ := treeOK_node hok
      rw [renderTree_node, List.append_assoc]
      obtain ⟨c, t, ht, hc⟩ := nodeTail_head γ sp ls d1 d2
      have hl : LStop (nodeTail γ sp ls d1 d2 ++ r) := by
        rw [ht, List.append_assoc, List.cons_append]
        exact lstop_gap_punct (hγ [] 0) c (by rcases hc with rfl | rfl <;> decide) _
      simp only [rDecay, rLabel_good hn hgap hl, hT γ name sp ls d1 d2 r hγ hok (by omega)]
  · -- the two daughters
    intro γ d1 d2 r hγ h1 h2 hf1 hf2
    have e1 := hD (fun p => γ (0 :: p)) d1 (γ [] 6)
      (γ [] 7 ++ ',' :: (γ [] 8 ++ (renderTree (fun p => γ (1 :: p)) d2 ++ (γ [] 9 ++ '}' :: r))))
      (hγ.kid 0) h1 (hγ [] 6) (kidEnd_mk (hγ [] 7) ',' (Or.inl rfl) _) (by omega)
    have e2 := hD (fun p => γ (1 :: p)) d2 (γ [] 8) (γ [] 9 ++ '}' :: r)
      (hγ.kid 1) h2 (hγ [] 8) (kidEnd_mk (hγ [] 9) '}' (Or.inr rfl) _) (by omega)
    simp only [rSub, e1, rChar_good ',' (by decide) (by decide) (hγ [] 7), e2,
      rChar_good '}' (by decide) (by decide) (hγ [] 9)]

theorem tree_all (f : Nat) : TailP f ∧ DecayP f ∧ SubP f := by
  induction f with
  | zero =>
    refine ⟨?_, ?_, ?_⟩
    · intro γ name sp ls d1 d2 r _ _ hf; rw [fuelT_node] at hf; omega
    · intro γ d gap r _ _ _ _ hf; omega
    · intro γ d1 d2 r _ _ _ hf; omega
  | succ f ih => exact tree_step f ih.1 ih.2.1 ih.2.2

/-- the tail of a node with two daughters is read back, whatever follows it -/
theorem rDecayTail_render (f : Nat) (γ : List Nat → Nat → List Char) (hγ : GoodTreeGaps γ) (name : String)
    (sp ls : Option String) (d1 d2 : ADecay) (r : List Char) (hok : treeOK (.mk name sp ls [d1, d2]) = true)
    (hf : fuelT (.mk name sp ls [d1, d2]) ≤ f) :
    rDecayTail f name (nodeTail γ sp ls d1 d2 ++ r) = .ok (some (.mk name sp ls [d1, d2]), r) :=
  (tree_all f).1 γ name sp ls d1 d2 r hγ hok hf

/-! ### the fuel of the top-level tree -/

theorem fuelT_le_length : ∀ (n : Nat) (t : ADecay) (γ : List Nat → Nat → List Char), treeOK t = true → fuelT t ≤ n →
    fuelT t + 3 * t.name.toList.length ≤ 3 * (renderTree γ t).length + 1 := by
  intro n
  induction n with
  | zero =>
    intro t γ hok hf
    obtain ⟨name, sp, ls, ds⟩ := t
    rcases treeOK_shape hok with rfl | ⟨d1, d2, rfl⟩
    · rw [fuelT_leaf] at hf; omega
    · rw [fuelT_node] at hf; omega
  | succ n ih =>
    intro t γ hok hf
    obtain ⟨name, sp, ls, ds⟩ := t
    rcases treeOK_shape hok with rfl | ⟨d1, d2, rfl⟩
    · rw [fuelT_leaf, renderTree_leaf]; simp only [ADecay.name]; omega
    · obtain ⟨_, _, _, h1, h2⟩ := treeOK_node hok
      rw [fuelT_node] at hf ⊢
      have i1 := ih d1 (fun p => γ (0 :: p)) h1 (by omega)
      have i2 := ih d2 (fun p => γ (1 :: p)) h2 (by omega)
      rw [renderTree_node]
      simp only [ADecay.name, nodeTail, List.length_append, List.length_cons, List.length_nil]
      omega

/-- the fuel `rLine` gives is enough for the tree -/
theorem fuelT_node_le (γ : List Nat → Nat → List Char) (name : String) (sp ls : Option String) (d1 d2 : ADecay)
    (hok : treeOK (.mk name sp ls [d1, d2]) = true) (r : List Char) :
    fuelT (.mk name sp ls [d1, d2]) ≤ 3 * (nodeTail γ sp ls d1 d2 ++ r).length + 3 := by
  have := fuelT_le_length _ (.mk name sp ls [d1, d2]) γ hok (Nat.le_refl _)
  rw [renderTree_node] at this
  simp only [ADecay.name, List.length_append] at this ⊢
  omega

/-! ### dispatch of `rLine` on its first word -/

/-- a line whose first word is no keyword -/
def rLineName (w : String) (r : Inp) : R (AStmtT × Inp) := do
  match afterLabel r with
  | (.num n1, r1) =>
    if atNewline r1 then pure (.constant w n1, r1)
    else
      match takeNumber (skipWs r1) with
      | none => throw "number or end of line"
      | some (n2, r2) =>
        let (n3, r3) ← rNumber r2
        pure (.variable w n1 n2 n3, r3)
  | (.punct '=', r1) =>
    let (_, r2) ← rLabel r1
    pure (.invertLine, r2)
  | _ =>
    match ← rDecayTail (3 * r.length + 3) w r with
    | (none, _) => throw "after a particle"
    | (some d, r1) =>
      let ((f1, v1, e1), r2) ← rThree r1
      if atNewline r2 then pure (.cartLine, r2)
      else
        match takeNumber (skipWs r2) with
        | none => throw "number or end of line"
        | some (f2, r3) =>
          let (v2, r4) ← rNumber r3
          let (e2, r5) ← rNumber r4
          pure (.line d f1 v1 e1 f2 v2 e2, r5)

theorem rLine_name {cs : List Char} {w : String} {r : List Char} (h : rLabel cs = .ok (w, r)) (hk : w ∉ keywords) :
    rLine cs = rLineName w r := by
  simp only [keywords, List.mem_cons, List.not_mem_nil, or_false, not_or] at hk
  obtain ⟨h1, h2, h3, h4⟩ := hk
  have k1 : (w == "EventType") = false := by simp [h4]
  have k2 : (w == "Output") = false := by simp [h2]
  have k3 : (w == "nEvents") = false := by simp [h3]
  have k4 : (w == "FastCoherentSum::UseCartesian") = false := by simp [h1]
  unfold rLine rLineName
  simp only [h, bind, Except.bind, k1, k2, k3, k4, Bool.false_eq_true, if_false]
  rfl

theorem rLine_eventType' {cs : List Char} {w : String} {r : List Char} (h : rLabel cs = .ok (w, r))
    (e0 : (w == "EventType") = true) :
    rLine cs = (do
      let (p1, r1) ← rLabel r
      let (ns, r2) ← rEventNames (r1.length + 2) r1 [p1]
      pure (.eventType ns, r2)) := by
  unfold rLine
  simp only [h, bind, Except.bind]
  rw [if_pos e0]

theorem rLine_eventType {cs r : List Char} (h : rLabel cs = .ok ("EventType", r)) :
    rLine cs = (do
      let (p1, r1) ← rLabel r
      let (ns, r2) ← rEventNames (r1.length + 2) r1 [p1]
      pure (.eventType ns, r2)) :=
  rLine_eventType' h (by decide)

theorem rLine_output' {cs : List Char} {w : String} {r : List Char} (h : rLabel cs = .ok (w, r))
    (e1 : (w == "EventType") = false) (e0 : (w == "Output") = true) :
    rLine cs = (match takeString (skipIgn r) with
      | some (s, r1) => pure (.output s, r1)
      | none => throw "string") := by
  unfold rLine
  simp only [h, bind, Except.bind, e1, Bool.false_eq_true, if_false]
  rw [if_pos e0]
  rfl

theorem rLine_output {cs r : List Char} (h : rLabel cs = .ok ("Output", r)) :
    rLine cs = (match takeString (skipIgn r) with
      | some (s, r1) => pure (.output s, r1)
      | none => throw "string") :=
  rLine_output' h (by decide) (by decide)

theorem rLine_nEvents' {cs : List Char} {w : String} {r : List Char} (h : rLabel cs = .ok (w, r))
    (e1 : (w == "EventType") = false) (e2 : (w == "Output") = false) (e0 : (w == "nEvents") = true) :
    rLine cs = (match takeInt (skipIgn r) with
      | some (n, r1) => pure (.nEvents n, r1)
      | none => throw "integer") := by
  unfold rLine
  simp only [h, bind, Except.bind, e1, e2, Bool.false_eq_true, if_false]
  rw [if_pos e0]
  rfl

theorem rLine_nEvents {cs r : List Char} (h : rLabel cs = .ok ("nEvents", r)) :
    rLine cs = (match takeInt (skipIgn r) with
      | some (n, r1) => pure (.nEvents n, r1)
      | none => throw "integer") :=
  rLine_nEvents' h (by decide) (by decide) (by decide)

theorem rLine_fcs' {cs : List Char} {w : String} {r : List Char} (h : rLabel cs = .ok (w, r))
    (e1 : (w == "EventType") = false) (e2 : (w == "Output") = false) (e3 : (w == "nEvents") = false)
    (e0 : (w == "FastCoherentSum::UseCartesian") = true) :
    rLine cs = (match takeInt (skipIgn r) with
      | some (n, r1) => pure (.fastCoherentSum n, r1)
      | none => throw "integer") := by
  unfold rLine
  simp only [h, bind, Except.bind, e1, e2, e3, Bool.false_eq_true, if_false]
  rw [if_pos e0]
  rfl

theorem rLine_fcs {cs r : List Char} (h : rLabel cs = .ok ("FastCoherentSum::UseCartesian", r)) :
    rLine cs = (match takeInt (skipIgn r) with
      | some (n, r1) => pure (.fastCoherentSum n, r1)
      | none => throw "integer") :=
  rLine_fcs' h (by decide) (by decide) (by decide) (by decide)

/-! ### what follows a word -/

/-- the remainder starts with a blank, a comment sign or a line end character -/
def WStop (r : List Char) : Prop := ∃ c t, r = c :: t ∧ (c = ' ' ∨ c = '\t' ∨ c = '\n' ∨ c = '#' ∨ c = '\r')

theorem AtEnd.wstop {r : List Char} (h : AtEnd r) : WStop r := h.head

theorem wstop_gap {gap : List Char} (hgap : GoodGap gap) (r : List Char) : WStop (gap ++ r) := by
  obtain ⟨hne, hb⟩ := hgap
  cases gap with
  | nil => exact absurd rfl hne
  | cons b bs =>
    refine ⟨b, bs ++ r, rfl, ?_⟩
    rcases blank_cases (hb b List.mem_cons_self) with h | h <;> simp [h]

theorem WStop.lstop {r : List Char} (h : WStop r) : LStop r := by
  obtain ⟨c, t, rfl, hc⟩ := h
  rcases hc with rfl | rfl | rfl | rfl | rfl <;> exact ⟨by decide, by decide⟩

theorem WStop.nstops {r : List Char} (h : WStop r) : NStops r := by
  obtain ⟨c, t, rfl, hc⟩ := h
  rcases hc with rfl | rfl | rfl | rfl | rfl <;> exact ⟨by decide, by decide, by decide, by decide⟩

/-! ### the statements -/

def NameOK (n : String) : Prop := GoodLabel n ∧ n ∉ keywords

instance (n : String) : Decidable (NameOK n) := by unfold NameOK; infer_instance

/-- the tree of an amplitude line: its head is no keyword and it has daughters -/
def TopTreeOK (t : ADecay) : Prop := treeOK t = true ∧ t.ds ≠ [] ∧ t.name ∉ keywords

instance (t : ADecay) : Decidable (TopTreeOK t) := by
  unfold TopTreeOK
  have : Decidable (t.ds ≠ []) := by
    cases h : t.ds with
    | nil => exact isFalse (by simp)
    | cons _ _ => exact isTrue (by simp)
  infer_instance

/-- what the ignored lines say: the tree and the three numerals of a `cart_decay_line`, the two
    names of an `invert_line` (the statement list does not keep them) -/
structure Ignored where
  cartTree : ADecay := .mk "a" none none [.mk "b" none none [], .mk "c" none none []]
  cartF : String := "0"
  cartV : String := "1"
  cartE : String := "0"
  invA : String := "a"
  invB : String := "b"
  deriving Inhabited

def GoodIgnored (x : Ignored) : Prop :=
  TopTreeOK x.cartTree ∧ NumText x.cartF ∧ NumText x.cartV ∧ NumText x.cartE ∧ NameOK x.invA ∧ GoodLabel x.invB

instance (x : Ignored) : Decidable (GoodIgnored x) := by unfold GoodIgnored; infer_instance

/-- the names of an event type, each after its blank run -/
def renderNames (γ : Nat → List Char) : Nat → List String → List Char
  | _, [] => []
  | i, n :: ns => γ i ++ (n.toList ++ renderNames γ (i + 1) ns)

/-- the text of a statement: `γ i` the blank runs between words and numbers, `δ i` the blank runs that
    may be empty (after the tree, around `=`, before the string), `τ` the blank runs inside the tree -/
def renderG (γ δ : Nat → List Char) (τ : List Nat → Nat → List Char) (x : Ignored) : AStmtT → List Char
  | .eventType ns => "EventType".toList ++ renderNames γ 0 ns
  | .constant n v => n.toList ++ (γ 0 ++ v.toList)
  | .variable n f v e => n.toList ++ (γ 0 ++ (f.toList ++ (γ 1 ++ (v.toList ++ (γ 2 ++ e.toList)))))
  | .line t f1 v1 e1 f2 v2 e2 =>
    renderTree τ t ++ (δ 0 ++ (f1.toList ++ (γ 1 ++ (v1.toList ++ (γ 2 ++ (e1.toList ++ (γ 3 ++ (f2.toList ++
      (γ 4 ++ (v2.toList ++ (γ 5 ++ e2.toList)))))))))))
  | .cartLine =>
    renderTree τ x.cartTree ++ (δ 0 ++ (x.cartF.toList ++ (γ 1 ++ (x.cartV.toList ++ (γ 2 ++ x.cartE.toList)))))
  | .invertLine => x.invA.toList ++ (δ 0 ++ '=' :: (δ 1 ++ x.invB.toList))
  | .fastCoherentSum n => "FastCoherentSum::UseCartesian".toList ++ (γ 0 ++ n.toList)
  | .output s => "Output".toList ++ (δ 0 ++ s.toList)
  | .nEvents n => "nEvents".toList ++ (γ 0 ++ n.toList)

/-- the statements the grammar can produce, with texts the lexer reads back: the names of an event
    type are labels (at least two), all but the first not starting like a number; the name of a
    parameter or a constant is a label that is no keyword; numerals are `SIGNED_NUMBER` texts; the tree
    of an amplitude line has daughters and its head is no keyword; option values are digit strings, the
    output name a quoted string -/
def AStmtOK : AStmtT → Prop
  | .eventType ns => 2 ≤ ns.length ∧ (∀ n ∈ ns, GoodLabel n) ∧ ∀ n ∈ ns.tail, NotNum n
  | .constant n v => NameOK n ∧ NumText v
  | .variable n f v e => NameOK n ∧ NumText f ∧ NumText v ∧ NumText e
  | .line t f1 v1 e1 f2 v2 e2 =>
    TopTreeOK t ∧ NumText f1 ∧ NumText v1 ∧ NumText e1 ∧ NumText f2 ∧ NumText v2 ∧ NumText e2
  | .cartLine => True
  | .invertLine => True
  | .fastCoherentSum n => DigitsText n
  | .output s => StrOK s
  | .nEvents n => DigitsText n

instance (s : AStmtT) : Decidable (AStmtOK s) := by
  cases s <;> simp only [AStmtOK] <;> infer_instance

theorem renderNames_length (γ : Nat → List Char) (hγ : ∀ i, GoodGap (γ i)) (ns : List String) (i : Nat) :
    ns.length ≤ (renderNames γ i ns).length := by
  induction ns generalizing i with
  | nil => simp [renderNames]
  | cons n ns ih =>
    have h1 : 0 < (γ i).length := List.length_pos_iff.mpr (hγ i).1
    have h2 := ih (i + 1)
    simp only [renderNames, List.length_append, List.length_cons]
    omega

/-- after a name comes a blank run or the end of the line -/
theorem names_wstop (γ : Nat → List Char) (hγ : ∀ i, GoodGap (γ i)) (ns : List String) (i : Nat) {r : List Char}
    (hr : AtEnd r) : WStop (renderNames γ i ns ++ r) := by
  cases ns with
  | nil => exact hr.wstop
  | cons n ns => simp only [renderNames, List.append_assoc]; exact wstop_gap (hγ i) _

theorem rEventNames_render (γ : Nat → List Char) (hγ : ∀ i, GoodGap (γ i)) {r : List Char} (hr : AtEnd r) :
    ∀ (ns : List String) (i f : Nat) (acc : List String), (∀ n ∈ ns, GoodLabel n ∧ NotNum n) → ns.length < f →
      2 ≤ acc.length + ns.length →
      rEventNames f (renderNames γ i ns ++ r) acc = .ok (acc.reverse ++ ns, r) := by
  intro ns
  induction ns with
  | nil =>
    intro i f acc _ hf hacc
    cases f with
    | zero => omega
    | succ f =>
      obtain ⟨r', h⟩ := hr.afterLabel
      simp only [renderNames, List.nil_append, rEventNames, h]
      have : acc.length ≥ 2 := by simpa using hacc
      simp [this]
  | cons n ns ih =>
    intro i f acc hns hf hacc
    cases f with
    | zero => omega
    | succ f =>
      obtain ⟨hn1, hn2⟩ := hns n List.mem_cons_self
      have hw := names_wstop γ hγ ns (i + 1) hr
      simp only [renderNames, List.append_assoc, rEventNames,
        afterLabel_label (hγ i).2 hn1 hn2 hw.lstop hw.nstops]
      rw [ih (i + 1) f (n :: acc) (fun x hx => hns x (List.mem_cons_of_mem _ hx))
        (by simp only [List.length_cons] at hf; omega) (by simp only [List.length_cons] at hacc ⊢; omega)]
      simp

theorem str_quote {s : String} (hs : StrOK s) : ∃ t, s.toList = '"' :: t := by
  unfold StrOK at hs
  cases hl : s.toList with
  | nil => rw [hl] at hs; simp [takeString] at hs
  | cons c t =>
    rw [hl] at hs
    by_cases hc : c = '"'
    · subst hc; exact ⟨t, rfl⟩
    · unfold takeString at hs
      split at hs
      · rename_i heq; simp only [List.cons.injEq] at heq; exact absurd heq.1 hc
      · cases hs

theorem lstop_gap_quote {gap : List Char} (hgap : Blanks gap) (r : List Char) : LStop (gap ++ '"' :: r) := by
  cases gap with
  | nil => exact ⟨by decide, by decide⟩
  | cons b bs =>
    rcases blank_cases (hgap b List.mem_cons_self) with h | h <;> (simp only [List.cons_append, LStop, h]; decide)

theorem nstops_gap {gap : List Char} (hgap : GoodGap gap) (r : List Char) : NStops (gap ++ r) :=
  (wstop_gap hgap r).nstops

theorem rLabel_good0 {w : String} (hw : GoodLabel w) {r : List Char} (hr : LStop r) :
    rLabel (w.toList ++ r) = .ok (w, r) := by
  have := rLabel_good hw Blanks.nil hr
  simpa using this

theorem kw_eventType : GoodLabel "EventType" := by decide
theorem kw_output : GoodLabel "Output" := by decide
theorem kw_nEvents : GoodLabel "nEvents" := by decide
theorem kw_fcs : GoodLabel "FastCoherentSum::UseCartesian" := by decide

/-- the three numerals of a coupling -/
theorem rThree_render {a b c : String} (ha : NumText a) (hb : NumText b) (hc : NumText c)
    {g0 g1 g2 : List Char} (h0 : Blanks g0) (h1 : GoodGap g1) (h2 : GoodGap g2) {r : List Char} (hr : NStops r) :
    rThree (g0 ++ (a.toList ++ (g1 ++ (b.toList ++ (g2 ++ (c.toList ++ r)))))) = .ok ((a, b, c), r) := by
  unfold rThree
  simp only [bind, Except.bind, rNumber_good ha h0 (nstops_gap h1 _), rNumber_good hb h1.2 (nstops_gap h2 _),
    rNumber_good hc h2.2 hr]
  rfl

theorem topTree_shape {t : ADecay} (h : TopTreeOK t) :
    ∃ n sp ls d1 d2, t = .mk n sp ls [d1, d2] ∧ NameOK n := by
  obtain ⟨n, sp, ls, ds⟩ := t
  obtain ⟨hok, hds, hk⟩ := h
  rcases treeOK_shape hok with rfl | ⟨d1, d2, rfl⟩
  · exact absurd rfl hds
  · exact ⟨n, sp, ls, d1, d2, rfl, (treeOK_node hok).1, hk⟩

/-- a line that starts with a tree: the tree and its three numerals -/
theorem rLineName_tree (τ : List Nat → Nat → List Char) (hτ : GoodTreeGaps τ) (n : String) (sp ls : Option String)
    (d1 d2 : ADecay) (hok : treeOK (.mk n sp ls [d1, d2]) = true) (X : List Char) :
    rLineName n (nodeTail τ sp ls d1 d2 ++ X) = (do
      let ((f1, v1, e1), r2) ← rThree X
      if atNewline r2 then pure (.cartLine, r2)
      else
        match takeNumber (skipWs r2) with
        | none => throw "number or end of line"
        | some (f2, r3) =>
          let (v2, r4) ← rNumber r3
          let (e2, r5) ← rNumber r4
          pure (.line (.mk n sp ls [d1, d2]) f1 v1 e1 f2 v2 e2, r5)) := by
  have hf := fuelT_node_le τ n sp ls d1 d2 hok X
  have ht := rDecayTail_render _ τ hτ n sp ls d1 d2 X hok hf
  obtain ⟨c, t, hct, hc⟩ := nodeTail_head τ sp ls d1 d2
  have ha : afterLabel (nodeTail τ sp ls d1 d2 ++ X) = (.punct c, t ++ X) := by
    rw [hct, List.append_assoc, List.cons_append]
    exact afterLabel_punct (hτ [] 0) c (by rcases hc with rfl | rfl <;> decide) _
  unfold rLineName
  rcases hc with rfl | rfl
  · simp only [ha, bind, Except.bind, ht]
    rfl
  · simp only [ha, bind, Except.bind, ht]
    rfl


section
variable (γ δ : Nat → List Char) (τ : List Nat → Nat → List Char) (x : Ignored)
theorem renderG_eventType (ns : List String) :
    renderG γ δ τ x (.eventType ns) = "EventType".toList ++ renderNames γ 0 ns := rfl
theorem renderG_constant (n v : String) : renderG γ δ τ x (.constant n v) = n.toList ++ (γ 0 ++ v.toList) := rfl
theorem renderG_variable (n f v e : String) : renderG γ δ τ x (.variable n f v e) =
    n.toList ++ (γ 0 ++ (f.toList ++ (γ 1 ++ (v.toList ++ (γ 2 ++ e.toList))))) := rfl
theorem renderG_line (t : ADecay) (f1 v1 e1 f2 v2 e2 : String) : renderG γ δ τ x (.line t f1 v1 e1 f2 v2 e2) =
    renderTree τ t ++ (δ 0 ++ (f1.toList ++ (γ 1 ++ (v1.toList ++ (γ 2 ++ (e1.toList ++ (γ 3 ++ (f2.toList ++
      (γ 4 ++ (v2.toList ++ (γ 5 ++ e2.toList))))))))))) := rfl
theorem renderG_cartLine : renderG γ δ τ x .cartLine =
    renderTree τ x.cartTree ++ (δ 0 ++ (x.cartF.toList ++ (γ 1 ++ (x.cartV.toList ++ (γ 2 ++ x.cartE.toList))))) := rfl
theorem renderG_invertLine : renderG γ δ τ x .invertLine =
    x.invA.toList ++ (δ 0 ++ '=' :: (δ 1 ++ x.invB.toList)) := rfl
theorem renderG_fcs (n : String) : renderG γ δ τ x (.fastCoherentSum n) =
    "FastCoherentSum::UseCartesian".toList ++ (γ 0 ++ n.toList) := rfl
theorem renderG_output (s : String) : renderG γ δ τ x (.output s) = "Output".toList ++ (δ 0 ++ s.toList) := rfl
theorem renderG_nEvents (n : String) : renderG γ δ τ x (.nEvents n) = "nEvents".toList ++ (γ 0 ++ n.toList) := rfl
end


/-- a rendered statement is read back, whatever the blank runs between its tokens -/
theorem rLine_render (γ δ : Nat → List Char) (τ : List Nat → Nat → List Char) (x : Ignored)
    (hγ : ∀ i, GoodGap (γ i)) (hδ : ∀ i, Blanks (δ i)) (hτ : GoodTreeGaps τ) (hx : GoodIgnored x)
    (s : AStmtT) (hs : AStmtOK s) (r : List Char) (hr : AtEnd r) :
    rLine (renderG γ δ τ x s ++ r) = .ok (s, r) := by
  have B : ∀ i, Blanks (γ i) := fun i => (hγ i).2
  have W : ∀ i y, WStop (γ i ++ y) := fun i y => wstop_gap (hγ i) y
  -- a tree and three numerals, then the end of the line or three more
  have tree3 : ∀ (t : ADecay) (a b c : String) (Y : List Char), TopTreeOK t → NumText a → NumText b → NumText c →
      NStops Y →
      rLine (renderTree τ t ++ (δ 0 ++ (a.toList ++ (γ 1 ++ (b.toList ++ (γ 2 ++ (c.toList ++ Y))))))) = (do
        if atNewline Y then pure (.cartLine, Y)
        else
          match takeNumber (skipWs Y) with
          | none => throw "number or end of line"
          | some (f2, r3) =>
            let (v2, r4) ← rNumber r3
            let (e2, r5) ← rNumber r4
            pure (.line t a b c f2 v2 e2, r5)) := by
    intro t a b c Y ht ha hb hc hY
    obtain ⟨n, sp, ls, d1, d2, rfl, hn⟩ := topTree_shape ht
    rw [renderTree_node, List.append_assoc]
    obtain ⟨c', t', hct, hc'⟩ := nodeTail_head τ sp ls d1 d2
    have hl : LStop (nodeTail τ sp ls d1 d2 ++ (δ 0 ++ (a.toList ++ (γ 1 ++ (b.toList ++ (γ 2 ++ (c.toList ++ Y))))))) := by
      rw [hct, List.append_assoc, List.cons_append]
      exact lstop_gap_punct (hτ [] 0) c' (by rcases hc' with rfl | rfl <;> decide) _
    have h0 := rLabel_good0 hn.1 hl
    rw [rLine_name h0 hn.2, rLineName_tree τ hτ n sp ls d1 d2 ht.1, rThree_render ha hb hc (hδ 0) (hγ 1) (hγ 2) hY]
    rfl
  cases s with
  | eventType ns =>
    obtain ⟨hlen, hlab, hnum⟩ := hs
    cases ns with
    | nil => simp at hlen
    | cons p1 ns =>
      simp only [List.tail_cons] at hnum
      have h0 : rLabel ("EventType".toList ++ (renderNames γ 0 (p1 :: ns) ++ r)) =
          .ok ("EventType", renderNames γ 0 (p1 :: ns) ++ r) :=
        rLabel_good0 kw_eventType (names_wstop γ hγ _ 0 hr).lstop
      have hw := names_wstop γ hγ ns 1 hr
      have hlen' := renderNames_length γ hγ ns 1
      rw [renderG_eventType]
      simp only [List.append_assoc]
      rw [rLine_eventType h0]
      simp only [renderNames, List.append_assoc, bind, Except.bind, rLabel_good (hlab p1 List.mem_cons_self) (B 0) hw.lstop]
      rw [rEventNames_render γ hγ hr ns 1 _ [p1] (fun n hn => ⟨hlab n (List.mem_cons_of_mem _ hn), hnum n hn⟩)
        (by simp only [List.length_append]; omega) (by simp only [List.length_cons] at hlen ⊢; omega)]
      rfl
  | constant n v =>
    obtain ⟨hn, hv⟩ := hs
    rw [renderG_constant]
    simp only [List.append_assoc]
    have h0 := rLabel_good0 hn.1 (W 0 (v.toList ++ r)).lstop
    rw [rLine_name h0 hn.2]
    unfold rLineName
    simp only [afterLabel_num (B 0) hv hr.nstops, hr.atNewline, if_true]
    rfl
  | «variable» n f v e =>
    obtain ⟨hn, hf, hv, he⟩ := hs
    rw [renderG_variable]
    simp only [List.append_assoc]
    have h0 := rLabel_good0 hn.1 (W 0 (f.toList ++ (γ 1 ++ (v.toList ++ (γ 2 ++ (e.toList ++ r)))))).lstop
    rw [rLine_name h0 hn.2]
    unfold rLineName
    simp only [afterLabel_num (B 0) hf (W 1 _).nstops, atNewline_tok (B 1) (numText_head hv),
      skipWs_tok (B 1) (numText_head hv), takeNumber_good hv (W 2 _).nstops, bind, Except.bind,
      rNumber_good he (B 2) hr.nstops, Bool.false_eq_true, if_false]
    rfl
  | line t f1 v1 e1 f2 v2 e2 =>
    obtain ⟨ht, h1, h2, h3, h4, h5, h6⟩ := hs
    rw [renderG_line]
    simp only [List.append_assoc]
    rw [tree3 t f1 v1 e1 _ ht h1 h2 h3 (W 3 _).nstops]
    simp only [atNewline_tok (B 3) (numText_head h4), skipWs_tok (B 3) (numText_head h4),
      takeNumber_good h4 (W 4 _).nstops, bind, Except.bind, rNumber_good h5 (B 4) (W 5 _).nstops,
      rNumber_good h6 (B 5) hr.nstops, Bool.false_eq_true, if_false]
    rfl
  | cartLine =>
    obtain ⟨ht, h1, h2, h3, _, _⟩ := hx
    rw [renderG_cartLine]
    simp only [List.append_assoc]
    rw [tree3 x.cartTree x.cartF x.cartV x.cartE r ht h1 h2 h3 hr.nstops]
    simp only [hr.atNewline, if_true]
    rfl
  | invertLine =>
    obtain ⟨_, _, _, _, ha, hb⟩ := hx
    rw [renderG_invertLine]
    simp only [List.append_assoc, List.cons_append]
    have h0 := rLabel_good0 ha.1 (lstop_gap_punct (hδ 0) '=' (by decide) (δ 1 ++ (x.invB.toList ++ r)))
    rw [rLine_name h0 ha.2]
    unfold rLineName
    simp only [afterLabel_punct (hδ 0) '=' (by decide), bind, Except.bind, rLabel_good hb (hδ 1) hr.lstop]
    rfl
  | fastCoherentSum n =>
    simp only [AStmtOK] at hs
    rw [renderG_fcs]
    simp only [List.append_assoc]
    have h0 : rLabel ("FastCoherentSum::UseCartesian".toList ++ (γ 0 ++ (n.toList ++ r))) =
        .ok ("FastCoherentSum::UseCartesian", γ 0 ++ (n.toList ++ r)) :=
      rLabel_good0 kw_fcs (W 0 _).lstop
    rw [rLine_fcs h0, skipIgn_tok (B 0) (digitsText_head hs), takeInt_good hs hr.nstops]
    rfl
  | output s =>
    simp only [AStmtOK] at hs
    obtain ⟨t, hst⟩ := str_quote hs
    rw [renderG_output]
    simp only [List.append_assoc]
    have h0 : rLabel ("Output".toList ++ (δ 0 ++ (s.toList ++ r))) = .ok ("Output", δ 0 ++ (s.toList ++ r)) := by
      apply rLabel_good0 kw_output
      rw [hst, List.cons_append]
      exact lstop_gap_quote (hδ 0) _
    rw [rLine_output h0, skipIgn_tok (hδ 0) (str_head hs), takeString_good hs]
    rfl
  | nEvents n =>
    simp only [AStmtOK] at hs
    rw [renderG_nEvents]
    simp only [List.append_assoc]
    have h0 : rLabel ("nEvents".toList ++ (γ 0 ++ (n.toList ++ r))) = .ok ("nEvents", γ 0 ++ (n.toList ++ r)) :=
      rLabel_good0 kw_nEvents (W 0 _).lstop
    rw [rLine_nEvents h0, skipIgn_tok (B 0) (digitsText_head hs), takeInt_good hs hr.nstops]
    rfl


/-! ### layouts -/

/-- a blank or comment line between statements -/
structure BLine where
  ind : List Char := []
  comment : Option (List Char) := none
  crlf : Bool := false
  deriving Repr, DecidableEq, Inhabited

def eol (crlf : Bool) : List Char := if crlf then ['\r', '\n'] else ['\n']

def commentText : Option (List Char) → List Char
  | some b => '#' :: b
  | none => []

def BLine.render (l : BLine) : List Char := l.ind ++ (commentText l.comment ++ eol l.crlf)

def GoodBLine (l : BLine) : Prop := Blanks l.ind ∧ ∀ b ∈ l.comment, '\n' ∉ b

instance (l : BLine) : Decidable (GoodBLine l) := by unfold GoodBLine; infer_instance

/-- the layout of one statement: indentation, the blank runs between words and numbers (`gaps`, a
    single blank where the list is too short), the blank runs that may be empty (`opGaps`: after the
    tree, around `=`, before the quoted string; a single blank where the list is too short), the blank
    runs inside the decay tree (`treeGaps`, by path and position; none where not listed), trailing
    blanks, an optional comment, the line end, the blank and comment lines that follow, and the text
    of an ignored line -/
structure SLayout where
  indent : List Char := []
  gaps : List (List Char) := []
  opGaps : List (List Char) := []
  treeGaps : List ((List Nat × Nat) × List Char) := []
  trail : List Char := []
  comment : Option (List Char) := none
  crlf : Bool := false
  follow : List BLine := []
  ignored : Ignored := {}
  deriving Inhabited

def SLayout.gap (L : SLayout) (i : Nat) : List Char := L.gaps.getD i [' ']

def SLayout.opGap (L : SLayout) (i : Nat) : List Char := L.opGaps.getD i [' ']

def SLayout.tgap (L : SLayout) (p : List Nat) (k : Nat) : List Char := (L.treeGaps.lookup (p, k)).getD []

def GoodSLayout (L : SLayout) : Prop :=
  Blanks L.indent ∧ (∀ x ∈ L.gaps, GoodGap x) ∧ (∀ x ∈ L.opGaps, Blanks x) ∧ (∀ e ∈ L.treeGaps, Blanks e.2) ∧
  Blanks L.trail ∧ (∀ b ∈ L.comment, '\n' ∉ b) ∧ (∀ l ∈ L.follow, GoodBLine l) ∧ GoodIgnored L.ignored

instance (L : SLayout) : Decidable (GoodSLayout L) := by unfold GoodSLayout; infer_instance

/-- what follows the last token of a statement up to the next statement's indentation -/
def SLayout.lineEnd (L : SLayout) : List Char :=
  L.trail ++ (commentText L.comment ++ (eol L.crlf ++ L.follow.flatMap BLine.render))

def renderStmt (L : SLayout) (s : AStmtT) : List Char := renderG L.gap L.opGap L.tgap L.ignored s

/-- a last comment that is not closed by a line end (the reader takes a comment for a line end): on a
    line of its own after the last statement's line end (indentation, text after `#`), or on the line
    of the last statement in place of its line end (blanks before it, text after `#`) -/
inductive FinC where
  | none
  | ownLine (ind body : List Char)
  | sameLine (trail body : List Char)
  deriving Repr, DecidableEq, Inhabited

/-- what follows the last line end -/
def finText : FinC → List Char
  | .ownLine ind body => ind ++ '#' :: body
  | _ => []

/-- the line end of a statement; `last`: no statement follows -/
def lineEndF (fin : FinC) (L : SLayout) (last : Bool) : List Char :=
  match fin, last with
  | .sameLine tr body, true => tr ++ '#' :: body
  | _, _ => L.lineEnd

/-- the statements, each with its layout (the default layout where the list is too short) -/
def renderBody (fin : FinC) : List SLayout → List AStmtT → List Char
  | _, [] => finText fin
  | ℓ, s :: d =>
    (ℓ.headD {}).indent ++ (renderStmt (ℓ.headD {}) s ++ (lineEndF fin (ℓ.headD {}) d.isEmpty ++ renderBody fin ℓ.tail d))

/-- the layout of a document: the lines before the first statement, the statement layouts, and
    an optional last comment without a line end -/
structure AmpLayout where
  pre : List BLine := []
  lines : List SLayout := []
  fin : FinC := .none
  deriving Inhabited

def GoodFin : FinC → Prop
  | .none => True
  | .ownLine ind body => Blanks ind ∧ '\n' ∉ body
  | .sameLine tr body => Blanks tr ∧ '\n' ∉ body

instance (f : FinC) : Decidable (GoodFin f) := by
  cases f <;> simp only [GoodFin] <;> infer_instance

def GoodAmpLayout (ℓ : AmpLayout) : Prop :=
  (∀ l ∈ ℓ.pre, GoodBLine l) ∧ (∀ L ∈ ℓ.lines, GoodSLayout L) ∧ GoodFin ℓ.fin

instance (ℓ : AmpLayout) : Decidable (GoodAmpLayout ℓ) := by unfold GoodAmpLayout; infer_instance

def renderAmp (ℓ : AmpLayout) (d : List AStmtT) : List Char :=
  ℓ.pre.flatMap BLine.render ++ renderBody ℓ.fin ℓ.lines d

theorem SLayout.gap_good {L : SLayout} (h : GoodSLayout L) (i : Nat) : GoodGap (L.gap i) := by
  unfold SLayout.gap
  rw [List.getD_eq_getElem?_getD]
  cases hi : L.gaps[i]? with
  | none => exact ⟨by simp, by intro c hc; simp at hc; subst hc; rfl⟩
  | some x => exact h.2.1 x (List.mem_of_getElem? hi)

theorem SLayout.opGap_good {L : SLayout} (h : GoodSLayout L) (i : Nat) : Blanks (L.opGap i) := by
  unfold SLayout.opGap
  rw [List.getD_eq_getElem?_getD]
  cases hi : L.opGaps[i]? with
  | none => intro c hc; simp at hc; subst hc; rfl
  | some x => exact h.2.2.1 x (List.mem_of_getElem? hi)

theorem lookup_mem {α β : Type} [BEq α] [LawfulBEq α] (l : List (α × β)) (k : α) (v : β)
    (h : l.lookup k = some v) : (k, v) ∈ l := by
  induction l with
  | nil => simp at h
  | cons e t ih =>
    obtain ⟨a, b⟩ := e
    simp only [List.lookup_cons] at h
    by_cases hk : (k == a) = true
    · simp only [hk] at h
      cases h
      have : k = a := by simpa using hk
      subst this
      exact List.mem_cons_self
    · have hk' : (k == a) = false := (Bool.not_eq_true _).mp hk
      simp only [hk'] at h
      exact List.mem_cons_of_mem _ (ih h)

theorem SLayout.tgap_good {L : SLayout} (h : GoodSLayout L) : GoodTreeGaps L.tgap := by
  intro p k
  unfold SLayout.tgap
  cases hl : L.treeGaps.lookup (p, k) with
  | none => exact Blanks.nil
  | some v => exact h.2.2.2.1 _ (lookup_mem _ _ _ hl)

theorem good_default : GoodSLayout {} := by decide

theorem good_headD {ℓ : List SLayout} (h : ∀ L ∈ ℓ, GoodSLayout L) : GoodSLayout (ℓ.headD {}) := by
  cases ℓ with
  | nil => exact good_default
  | cons L t => exact h L List.mem_cons_self

theorem good_tail {ℓ : List SLayout} (h : ∀ L ∈ ℓ, GoodSLayout L) : ∀ L ∈ ℓ.tail, GoodSLayout L :=
  fun L hL => h L (List.mem_of_mem_tail hL)

theorem N_bline {l : BLine} (h : GoodBLine l) (cs : List Char) : N (l.render ++ cs) = N cs := by
  obtain ⟨ind, cm, crlf⟩ := l
  obtain ⟨hi, hc⟩ := h
  simp only at hi hc
  simp only [BLine.render, List.append_assoc]
  rw [N_blanks hi]
  cases cm with
  | none =>
    cases crlf
    · show nlr (skipWs ('\n' :: cs)) = N cs
      rw [skipWs_nonblank _ _ (by decide)]; exact nlr_lf cs
    · show nlr (skipWs ('\r' :: '\n' :: cs)) = N cs
      rw [skipWs_nonblank _ _ (by decide)]; exact nlr_crlf cs
  | some b =>
    have hb : '\n' ∉ b := hc b rfl
    cases crlf
    · show nlr (skipWs ('#' :: (b ++ '\n' :: cs))) = N cs
      rw [skipWs_nonblank _ _ (by decide)]; exact nlr_comment b cs hb
    · have hb' : '\n' ∉ b ++ ['\r'] := by
        intro hm
        rcases List.mem_append.mp hm with h | h
        · exact hb h
        · simp at h
      have := nlr_comment (b ++ ['\r']) cs hb'
      show nlr (skipWs ('#' :: (b ++ '\r' :: '\n' :: cs))) = N cs
      rw [skipWs_nonblank _ _ (by decide)]
      simpa using this

theorem N_blines (ls : List BLine) (h : ∀ l ∈ ls, GoodBLine l) (cs : List Char) :
    N (ls.flatMap BLine.render ++ cs) = N cs := by
  induction ls with
  | nil => rfl
  | cons l t ih =>
    simp only [List.flatMap_cons, List.append_assoc]
    rw [N_bline (h l List.mem_cons_self), ih (fun x hx => h x (List.mem_cons_of_mem _ hx))]

/-- the head of a line end -/
theorem lineEnd_eolHead (L : SLayout) (cs : List Char) :
    EolHead (commentText L.comment ++ (eol L.crlf ++ (L.follow.flatMap BLine.render ++ cs))) := by
  cases L.comment with
  | some b => exact ⟨'#', _, rfl, Or.inr (Or.inl rfl)⟩
  | none =>
    cases L.crlf
    · exact ⟨'\n', _, rfl, Or.inl rfl⟩
    · exact ⟨'\r', _, rfl, Or.inr (Or.inr ⟨rfl, _, rfl⟩)⟩

theorem atEnd_lineEnd {L : SLayout} (h : GoodSLayout L) (cs : List Char) : AtEnd (L.lineEnd ++ cs) := by
  refine ⟨L.trail, _, h.2.2.2.2.1, ?_, lineEnd_eolHead L cs⟩
  simp [SLayout.lineEnd]

/-- the line end token after a statement takes everything up to the next statement -/
theorem takeNewline_lineEnd {L : SLayout} (h : GoodSLayout L) (cs : List Char) :
    takeNewline (skipWs (L.lineEnd ++ cs)) = some (N cs) := by
  obtain ⟨_, _, _, _, ht, hc, ha, _⟩ := h
  simp only [SLayout.lineEnd, List.append_assoc]
  rw [skipWs_blanks _ _ ht, (lineEnd_eolHead L cs).nonblank, takeNewline_eq]
  have hrest := N_blines L.follow ha cs
  cases hcm : L.comment with
  | none =>
    cases L.crlf
    · show (newlineUnit ('\n' :: _)).map nlr = _
      simp only [newlineUnit, Option.map_some]
      exact congrArg some hrest
    · show (newlineUnit ('\r' :: '\n' :: _)).map nlr = _
      simp only [newlineUnit, Option.map_some]
      exact congrArg some hrest
  | some b =>
    have hb : '\n' ∉ b := hc b hcm
    cases L.crlf
    · show (newlineUnit ('#' :: (b ++ '\n' :: _))).map nlr = _
      simp only [newlineUnit, dropLine_comment b _ hb, Option.map_some, nlr_lf]
      exact congrArg some hrest
    · have hb' : '\n' ∉ b ++ ['\r'] := by
        intro hm
        rcases List.mem_append.mp hm with h | h
        · exact hb h
        · simp at h
      have := dropLine_comment (b ++ ['\r']) (L.follow.flatMap BLine.render ++ cs) hb'
      simp only [List.append_assoc, List.cons_append, List.nil_append] at this
      simp only [commentText, eol, if_true, List.cons_append, List.nil_append, newlineUnit, this, Option.map_some,
        nlr_lf]
      exact congrArg some hrest

/-! ### the line loop -/

theorem StartsTok.append {a : List Char} (h : StartsTok a) (b : List Char) : StartsTok (a ++ b) := by
  obtain ⟨c, t, rfl, hc⟩ := h
  exact ⟨c, t ++ b, rfl, hc⟩

theorem topTree_head (τ : List Nat → Nat → List Char) {t : ADecay} (h : TopTreeOK t) : StartsTok (renderTree τ t) := by
  obtain ⟨n, sp, ls, d1, d2, rfl, hn⟩ := topTree_shape h
  rw [renderTree_node]
  exact (label_head hn.1).append _

/-- a rendered statement starts with a word -/
theorem stmt_head {L : SLayout} (hL : GoodSLayout L) {s : AStmtT} (hs : AStmtOK s) : StartsTok (renderStmt L s) := by
  have hx := hL.2.2.2.2.2.2.2
  unfold renderStmt
  cases s with
  | eventType ns => rw [renderG_eventType]; exact (label_head kw_eventType).append _
  | constant n v => rw [renderG_constant]; exact (label_head hs.1.1).append _
  | «variable» n f v e => rw [renderG_variable]; exact (label_head hs.1.1).append _
  | line t f1 v1 e1 f2 v2 e2 => rw [renderG_line]; exact (topTree_head _ hs.1).append _
  | cartLine => rw [renderG_cartLine]; exact (topTree_head _ hx.1).append _
  | invertLine => rw [renderG_invertLine]; exact (label_head hx.2.2.2.2.1.1).append _
  | fastCoherentSum n => rw [renderG_fcs]; exact (label_head kw_fcs).append _
  | output s => rw [renderG_output]; exact (label_head kw_output).append _
  | nEvents n => rw [renderG_nEvents]; exact (label_head kw_nEvents).append _

theorem N_stmtL {L : SLayout} (hL : GoodSLayout L) {s : AStmtT} (hs : AStmtOK s) (rest : List Char) :
    N (L.indent ++ (renderStmt L s ++ rest)) = renderStmt L s ++ rest := by
  rw [N_blanks hL.1, N_tok (stmt_head hL hs)]

theorem N_fin {fin : FinC} (h : GoodFin fin) : N (finText fin) = [] := by
  cases fin with
  | none => rfl
  | sameLine tr body => rfl
  | ownLine ind body =>
    obtain ⟨h1, h2⟩ := h
    simp only [finText]
    rw [N_blanks h1]
    unfold N
    rw [skipWs_nonblank _ _ (by decide), nlr_comment_end body h2]

/-- the line end of a statement: the line may end there, and the line end token takes everything up
    to the next statement -/
theorem lineEndF_ok {fin : FinC} (hfin : GoodFin fin) {L : SLayout} (hL : GoodSLayout L) (ℓ : List SLayout)
    (d : List AStmtT) :
    AtEnd (lineEndF fin L d.isEmpty ++ renderBody fin ℓ d) ∧
    takeNewline (skipWs (lineEndF fin L d.isEmpty ++ renderBody fin ℓ d)) = some (N (renderBody fin ℓ d)) := by
  by_cases hsame : ∃ tr body, fin = .sameLine tr body ∧ d = []
  · obtain ⟨tr, body, rfl, rfl⟩ := hsame
    obtain ⟨h1, h2⟩ := hfin
    simp only [lineEndF, List.isEmpty_nil, renderBody, finText, List.append_nil]
    refine ⟨⟨tr, '#' :: body, h1, rfl, '#', body, rfl, Or.inr (Or.inl rfl)⟩, ?_⟩
    rw [skipWs_blanks _ _ h1, skipWs_nonblank _ _ (by decide), takeNewline_eq]
    simp only [newlineUnit, dropLine_all body h2, Option.map_some]
    rfl
  · have e : lineEndF fin L d.isEmpty = L.lineEnd := by
      unfold lineEndF
      split
      · rename_i tr body hl
        exfalso
        apply hsame
        refine ⟨tr, body, rfl, ?_⟩
        cases d with
        | nil => rfl
        | cons _ _ => simp at hl
      · rfl
    rw [e]
    exact ⟨atEnd_lineEnd hL _, takeNewline_lineEnd hL _⟩

theorem lineEndF_length (fin : FinC) (L : SLayout) (b : Bool) : 0 < (lineEndF fin L b).length := by
  have h1 : 0 < L.lineEnd.length := by
    have : 0 < (eol L.crlf).length := by cases L.crlf <;> simp [eol]
    simp only [SLayout.lineEnd, List.length_append]; omega
  unfold lineEndF
  split
  · simp only [List.length_append, List.length_cons]; omega
  · exact h1

theorem renderBody_length (fin : FinC) (ℓ : List SLayout) (d : List AStmtT) :
    d.length ≤ (renderBody fin ℓ d).length := by
  induction d generalizing ℓ with
  | nil => simp
  | cons s d ih =>
    have h2 := ih ℓ.tail
    have h1 := lineEndF_length fin (ℓ.headD {}) d.isEmpty
    simp only [renderBody, List.length_append, List.length_cons]
    omega

theorem rLines_nil (f : Nat) (acc : List AStmtT) (h : acc ≠ []) : rLines (f + 1) [] acc = .ok acc.reverse := by
  have : acc.isEmpty = false := by cases acc with
    | nil => exact absurd rfl h
    | cons _ _ => rfl
  simp [rLines, skipIgn_nil, this]

/-- one line and its line end -/
theorem rLines_step (f : Nat) {cs : List Char} (hcs : StartsTok cs) (acc : List AStmtT)
    (st : AStmtT) (r r' : List Char) (hst : rLine cs = .ok (st, r)) (hnl : takeNewline (skipWs r) = some r') :
    rLines (f + 1) cs acc = rLines f r' (st :: acc) := by
  obtain ⟨c, t, rfl, hc⟩ := hcs
  rw [rLines]
  simp only [skipIgn_cons c t hc.1 hc.2.1, hst, hnl]

theorem rLines_body (fin : FinC) (hfin : GoodFin fin) (d : List AStmtT) :
    ∀ (ℓ : List SLayout) (f : Nat) (acc : List AStmtT), (∀ L ∈ ℓ, GoodSLayout L) → (∀ s ∈ d, AStmtOK s) →
      d.length < f → (acc ≠ [] ∨ d ≠ []) → rLines f (N (renderBody fin ℓ d)) acc = .ok (acc.reverse ++ d) := by
  induction d with
  | nil =>
    intro ℓ f acc _ _ hf hne
    cases f with
    | zero => omega
    | succ f =>
      have hacc : acc ≠ [] := by rcases hne with h | h; exact h; exact absurd rfl h
      simp only [renderBody, N_fin hfin, rLines_nil f acc hacc, List.append_nil]
  | cons s d ih =>
    intro ℓ f acc hℓ hd hf _
    cases f with
    | zero => omega
    | succ f =>
      have hL := good_headD hℓ
      have hs := hd s List.mem_cons_self
      obtain ⟨hE1, hE2⟩ := lineEndF_ok hfin hL ℓ.tail d
      have hN : N (renderBody fin ℓ (s :: d)) =
          renderStmt (ℓ.headD {}) s ++ (lineEndF fin (ℓ.headD {}) d.isEmpty ++ renderBody fin ℓ.tail d) := by
        simp only [renderBody]
        exact N_stmtL hL hs _
      have hst := rLine_render _ _ _ _ (fun i => SLayout.gap_good hL i) (fun i => SLayout.opGap_good hL i)
        (SLayout.tgap_good hL) hL.2.2.2.2.2.2.2 s hs _ hE1
      rw [hN, rLines_step f ((stmt_head hL hs).append _) acc s _ _ hst hE2]
      rw [ih ℓ.tail f (s :: acc) (good_tail hℓ) (fun x hx => hd x (List.mem_cons_of_mem _ hx))
        (by simp only [List.length_cons] at hf; omega) (Or.inl (by simp))]
      simp

theorem N_body_length (fin : FinC) (ℓ : List SLayout) (hℓ : ∀ L ∈ ℓ, GoodSLayout L)
    (d : List AStmtT) (hd : ∀ s ∈ d, AStmtOK s) : d.length ≤ (N (renderBody fin ℓ d)).length := by
  cases d with
  | nil => simp
  | cons s d =>
    have hL := good_headD hℓ
    have hs := hd s List.mem_cons_self
    simp only [renderBody]
    rw [N_stmtL hL hs]
    have h1 := renderBody_length fin ℓ.tail d
    obtain ⟨c, t, hct, _⟩ := stmt_head hL hs
    simp only [hct, List.length_append, List.length_cons]
    omega

theorem readAmpText_eq (text : String) :
    readAmpText text = rLines ((N text.toList).length + 2) (N text.toList) [] := by
  have h := leading_newline text.toList
  unfold readAmpText
  cases ht : takeNewline (skipWs text.toList) with
  | none => simp only [ht] at h ⊢; rw [h]
  | some r => simp only [ht] at h ⊢; rw [h]

/-- Stage 2: every good layout of the statements reads back to the statements -/
theorem read_layout (ℓ : AmpLayout) (hℓ : GoodAmpLayout ℓ) (d : List AStmtT) (hd : ∀ s ∈ d, AStmtOK s)
    (hne : d ≠ []) : readAmpText (String.ofList (renderAmp ℓ d)) = .ok d := by
  rw [readAmpText_eq]
  simp only [String.toList_ofList]
  unfold renderAmp
  rw [N_blines _ hℓ.1, rLines_body ℓ.fin hℓ.2.2 d ℓ.lines _ [] hℓ.2.1 hd _ (Or.inr hne)]
  · simp
  · have := N_body_length ℓ.fin ℓ.lines hℓ.2.1 d hd
    omega

/-- any two good layouts of the same statements read alike -/
theorem layout_irrelevant (ℓ₁ ℓ₂ : AmpLayout) (h₁ : GoodAmpLayout ℓ₁) (h₂ : GoodAmpLayout ℓ₂)
    (d : List AStmtT) (hd : ∀ s ∈ d, AStmtOK s) (hne : d ≠ []) :
    readAmpText (String.ofList (renderAmp ℓ₁ d)) = readAmpText (String.ofList (renderAmp ℓ₂ d)) := by
  rw [read_layout ℓ₁ h₁ d hd hne, read_layout ℓ₂ h₂ d hd hne]

/-! ### Stage 1: the canonical text -/

/-- the canonical text of a statement: single blanks between the tokens, no blanks inside the tree -/
def renderStmtSimple (s : AStmtT) : List Char := renderG (fun _ => [' ']) (fun _ => [' ']) (fun _ _ => []) {} s

/-- the canonical text of a document: one statement per line, LF line ends -/
def renderAmpSimple (d : List AStmtT) : List Char := d.flatMap (fun s => renderStmtSimple s ++ ['\n'])

theorem renderAmpSimple_eq (d : List AStmtT) : renderAmpSimple d = renderAmp {} d := by
  have hgap : ({} : SLayout).gap = fun _ => [' '] := by
    funext i; simp [SLayout.gap]
  have hop : ({} : SLayout).opGap = fun _ => [' '] := by
    funext i; simp [SLayout.opGap]
  have ht : ({} : SLayout).tgap = fun _ _ => [] := by
    funext p k; simp [SLayout.tgap]
  have hbody : ∀ d : List AStmtT, renderBody .none [] d = renderAmpSimple d := by
    intro d
    induction d with
    | nil => rfl
    | cons s d ih =>
      simp only [renderBody, List.headD_nil, List.tail_nil, ih, renderStmt, hgap, hop, ht, lineEndF]
      simp [renderAmpSimple, renderStmtSimple, SLayout.lineEnd, commentText, eol]
  simp [renderAmp, hbody]

/-- Stage 1: the canonical text of a list of statements reads back to the statements -/
theorem read_simple (d : List AStmtT) (hd : ∀ s ∈ d, AStmtOK s) (hne : d ≠ []) :
    readAmpText (String.ofList (renderAmpSimple d)) = .ok d := by
  rw [renderAmpSimple_eq]
  exact read_layout {} (by decide) d hd hne

/-! ### Stage 3: the integer flags -/

/-- an integer text: what `int(..)` accepts (an optionally signed run of digits) -/
def IntText (f : String) : Prop := (intValue f).isSome = true

instance (f : String) : Decidable (IntText f) := by unfold IntText; infer_instance

/-- the fix flags of the statement are integer texts -/
def FlagsInt : AStmtT → Prop
  | .variable _ f _ _ => IntText f
  | .line _ f1 _ _ f2 _ _ => IntText f1 ∧ IntText f2
  | _ => True

instance (s : AStmtT) : Decidable (FlagsInt s) := by
  cases s <;> simp only [FlagsInt] <;> infer_instance

def intOf (f : String) : Int := (intValue f).getD 0

/-- the statement with its flags and option values as integers -/
def stmtOf : AStmtT → AStmt
  | .eventType ns => .eventType ns
  | .constant n v => .constant n v
  | .variable n f v e => .variable n (intOf f) v e
  | .line d f1 v1 e1 f2 v2 e2 =>
    .line { tree := d, flag1 := intOf f1, val1 := v1, err1 := e1, flag2 := intOf f2, val2 := v2, err2 := e2 }
  | .cartLine => .cartLine
  | .invertLine => .invertLine
  | .fastCoherentSum n => .fastCoherentSum (digitsVal n.toList)
  | .output s => .output s
  | .nEvents n => .nEvents (digitsVal n.toList)

theorem intText_val {f : String} (h : IntText f) : intValue f = some (intOf f) := by
  unfold IntText at h
  unfold intOf
  cases hv : intValue f with
  | none => rw [hv] at h; cases h
  | some k => rfl

theorem toStmt_flagsInt {s : AStmtT} (h : FlagsInt s) : s.toStmt = .ok (stmtOf s) := by
  cases s with
  | «variable» n f v e =>
    simp only [FlagsInt] at h
    simp only [AStmtT.toStmt, intText_val h, stmtOf]
  | line d f1 v1 e1 f2 v2 e2 =>
    simp only [FlagsInt] at h
    simp only [AStmtT.toStmt, intText_val h.1, intText_val h.2, stmtOf]
  | _ => rfl

theorem mapM_flagsInt (d : List AStmtT) (h : ∀ s ∈ d, FlagsInt s) :
    d.mapM AStmtT.toStmt = .ok (d.map stmtOf) := by
  induction d with
  | nil => rfl
  | cons s d ih =>
    rw [List.mapM_cons, toStmt_flagsInt (h s List.mem_cons_self), ih (fun x hx => h x (List.mem_cons_of_mem _ hx))]
    rfl

/-- the reader with integer flags, on any good layout: the flags of every statement are converted -/
theorem readAmp_layout_mapM (ℓ : AmpLayout) (hℓ : GoodAmpLayout ℓ) (d : List AStmtT) (hd : ∀ s ∈ d, AStmtOK s)
    (hne : d ≠ []) : readAmp (String.ofList (renderAmp ℓ d)) = d.mapM AStmtT.toStmt := by
  unfold readAmp
  rw [read_layout ℓ hℓ d hd hne]

/-- Stage 3: when the fix flags are integer texts the reader returns the statements with integer flags -/
theorem readAmp_layout (ℓ : AmpLayout) (hℓ : GoodAmpLayout ℓ) (d : List AStmtT) (hd : ∀ s ∈ d, AStmtOK s)
    (hne : d ≠ []) (hi : ∀ s ∈ d, FlagsInt s) :
    readAmp (String.ofList (renderAmp ℓ d)) = .ok (d.map stmtOf) := by
  rw [readAmp_layout_mapM ℓ hℓ d hd hne, mapM_flagsInt d hi]

theorem readAmp_simple (d : List AStmtT) (hd : ∀ s ∈ d, AStmtOK s) (hne : d ≠ []) (hi : ∀ s ∈ d, FlagsInt s) :
    readAmp (String.ofList (renderAmpSimple d)) = .ok (d.map stmtOf) := by
  rw [renderAmpSimple_eq]
  exact readAmp_layout {} (by decide) d hd hne hi

end RT
end Amp
end DL
