/-
The dictionary `DecFileParser.build_decay_chains` produces (daughters in file order) converted to the
class form and back: the result is the same dictionary with the daughters of every level in the
canonical (sorted by name) order.  Helper definitions and lemmas for C11_parser.  Core Lean only.
-/
import DL.Lemmas.ChainRT
namespace DL

/-! ### the canonical order of daughters -/

/-- daughters are compared by the key they are shown under -/
def itemLe (a b : Item Info) : Bool := sleb a.name b.name

/-- the daughters in the order `to_dict` writes them: sorted by name (stable) -/
def sortItems (fs : List (Item Info)) : List (Item Info) := fs.mergeSort itemLe

mutual
  /-- `sortItems` applied at every level -/
  def canonChain : Chain Info → Chain Info
    | .mk m modes => .mk m (canonModes modes)
  def canonModes : List (CMode Info) → List (CMode Info)
    | [] => []
    | (i, fs) :: r => (i, sortItems (canonFs fs)) :: canonModes r
  def canonFs : List (Item Info) → List (Item Info)
    | [] => []
    | .inl p :: r => .inl p :: canonFs r
    | .inr c :: r => .inr (canonChain c) :: canonFs r
end

def canonItem : Item Info → Item Info
  | .inl p => .inl p
  | .inr c => .inr (canonChain c)

theorem canonFs_eq_map : ∀ fs : List (Item Info), canonFs fs = fs.map canonItem
  | [] => by simp [canonFs]
  | .inl p :: r => by simp [canonFs, canonItem, canonFs_eq_map r]
  | .inr c :: r => by simp [canonFs, canonItem, canonFs_eq_map r]

theorem canonModes_eq_map : ∀ ms : List (CMode Info),
    canonModes ms = ms.map fun ifs => (ifs.1, sortItems (ifs.2.map canonItem))
  | [] => by simp [canonModes]
  | (i, fs) :: r => by simp [canonModes, canonFs_eq_map, canonModes_eq_map r]

theorem itemLe_trans (a b c : Item Info) : itemLe a b = true → itemLe b c = true → itemLe a c = true :=
  sleb_trans _ _ _

theorem itemLe_total (a b : Item Info) : (itemLe a b || itemLe b a) = true := sleb_total _ _

theorem sortItems_perm (fs : List (Item Info)) : (sortItems fs).Perm fs := List.mergeSort_perm fs itemLe

theorem sortItems_sorted (fs : List (Item Info)) :
    List.Pairwise (fun a b => itemLe a b = true) (sortItems fs) :=
  List.pairwise_mergeSort itemLe_trans itemLe_total fs

theorem sortItems_idem (fs : List (Item Info)) : sortItems (sortItems fs) = sortItems fs :=
  List.mergeSort_of_pairwise (sortItems_sorted fs)

/-- the names of the sorted daughters are the sorted names -/
theorem sortItems_names (fs : List (Item Info)) :
    (sortItems fs).map Item.name = ssort (fs.map Item.name) := by
  unfold sortItems ssort
  exact List.map_mergeSort (fun a _ b _ => rfl)

theorem canonChain_mother : ∀ t : Chain Info, (canonChain t).mother = t.mother
  | .mk m modes => by simp [canonChain, Chain.mother]

theorem canonItem_name : ∀ x : Item Info, (canonItem x).name = x.name
  | .inl p => rfl
  | .inr c => by simp [canonItem, Item.name, canonChain_mother]

theorem canonFs_names (fs : List (Item Info)) : (canonFs fs).map Item.name = fs.map Item.name := by
  rw [canonFs_eq_map, List.map_map]
  apply List.map_congr_left
  intro x _
  exact canonItem_name x

theorem map_eq_self_iff {α : Type} (f : α → α) : ∀ l : List α, l.map f = l ↔ ∀ x ∈ l, f x = x
  | [] => by simp
  | a :: r => by simp [map_eq_self_iff f r]

mutual
  theorem canonChain_idem : ∀ t : Chain Info, canonChain (canonChain t) = canonChain t
    | .mk m modes => by simp [canonChain, canonModes_idem modes]
  theorem canonModes_idem : ∀ ms : List (CMode Info), canonModes (canonModes ms) = canonModes ms
    | [] => by simp [canonModes]
    | (i, fs) :: r => by
      simp only [canonModes, canonModes_idem r]
      have h := canonFs_idem fs
      rw [canonFs_eq_map (canonFs fs), map_eq_self_iff] at h
      have h2 : canonFs (sortItems (canonFs fs)) = sortItems (canonFs fs) := by
        rw [canonFs_eq_map (sortItems _), map_eq_self_iff]
        intro x hx
        exact h x ((sortItems_perm _).mem_iff.1 hx)
      rw [h2, sortItems_idem]
  theorem canonFs_idem : ∀ fs : List (Item Info), canonFs (canonFs fs) = canonFs fs
    | [] => by simp [canonFs]
    | .inl p :: r => by simp [canonFs, canonFs_idem r]
    | .inr c :: r => by simp [canonFs, canonFs_idem r, canonChain_idem c]
end

/-! ### "the same dictionary up to the order of daughters at every level" -/

mutual
  /-- equal up to the order of the daughters at every level -/
  inductive EqvChain : Chain Info → Chain Info → Prop
    | mk {m : String} {ms ms' : List (CMode Info)} : EqvModes ms ms' → EqvChain (.mk m ms) (.mk m ms')
  inductive EqvModes : List (CMode Info) → List (CMode Info) → Prop
    | nil : EqvModes [] []
    | cons {i : Info} {fs fs' : List (Item Info)} {r r' : List (CMode Info)} :
        EqvFs fs fs' → EqvModes r r' → EqvModes ((i, fs) :: r) ((i, fs') :: r')
  inductive EqvFs : List (Item Info) → List (Item Info) → Prop
    | nil : EqvFs [] []
    | bare {p : String} {r r' : List (Item Info)} : EqvFs r r' → EqvFs (.inl p :: r) (.inl p :: r')
    | sub {c c' : Chain Info} {r r' : List (Item Info)} :
        EqvChain c c' → EqvFs r r' → EqvFs (.inr c :: r) (.inr c' :: r')
    | perm {a b : List (Item Info)} : a.Perm b → EqvFs a b
    | trans {a b c : List (Item Info)} : EqvFs a b → EqvFs b c → EqvFs a c
end

mutual
  /-- the canonical form is the same dictionary up to the order of daughters at every level -/
  theorem canonChain_eqv : ∀ t : Chain Info, EqvChain t (canonChain t)
    | .mk m modes => by
      simp only [canonChain]
      exact .mk (canonModes_eqv modes)
  theorem canonModes_eqv : ∀ ms : List (CMode Info), EqvModes ms (canonModes ms)
    | [] => by simp only [canonModes]; exact .nil
    | (i, fs) :: r => by
      simp only [canonModes]
      exact .cons (.trans (canonFs_eqv fs) (.perm (sortItems_perm _).symm)) (canonModes_eqv r)
  theorem canonFs_eqv : ∀ fs : List (Item Info), EqvFs fs (canonFs fs)
    | [] => by simp only [canonFs]; exact .nil
    | .inl p :: r => by simp only [canonFs]; exact .bare (canonFs_eqv r)
    | .inr c :: r => by simp only [canonFs]; exact .sub (canonChain_eqv c) (canonFs_eqv r)
end

/-- the relation is not trivial: related dictionaries have the same mother … -/
theorem EqvChain.mother_eq {a b : Chain Info} (h : EqvChain a b) : a.mother = b.mother := by
  cases h; rfl

/-- … and related daughter lists show the same names with the same multiplicities -/
theorem EqvFs.names_perm : ∀ {a b : List (Item Info)}, EqvFs a b →
    (a.map Item.name).Perm (b.map Item.name)
  | _, _, .nil => by simp
  | _, _, .bare h => by simpa [Item.name] using h.names_perm
  | _, _, .sub hc h => by
    simp only [List.map_cons, Item.name, hc.mother_eq]
    exact List.Perm.cons _ h.names_perm
  | _, _, .perm h => h.map _
  | _, _, .trans h1 h2 => h1.names_perm.trans h2.names_perm

theorem sortItems_swap (a b : Item Info) (h : itemLe a b = false) : sortItems [a, b] = [b, a] := by
  simp [sortItems, List.mergeSort, List.MergeSort.Internal.splitInTwo, h]

/-! ### trees consistent with a table, daughters in any order -/

mutual
  /-- like `Cons`, with the daughters of the tree in any order: the mode of the table is what
      `DecayMode.from_dict` makes of the flat dictionary, and it carries the same information -/
  def ConsP (D : List (String × Mode)) : Chain Info → Prop
    | .mk m modes => match modes with
      | [(i, fs)] => ∃ md, dget D m = some md ∧ Mode.fromDict (flatModeDict i fs) = .ok md ∧
          ({ bf := md.bf, rest := md.toDict.rest } : Info) = i ∧ ConsFsP D fs
      | _ => False
  def ConsFsP (D : List (String × Mode)) : List (Item Info) → Prop
    | [] => True
    | .inl p :: r => dhas D p = false ∧ ConsFsP D r
    | .inr c :: r => ConsP D c ∧ ConsFsP D r
end

theorem flatP_ds {i : Info} {fs : List (Item Info)} {md : Mode}
    (h : Mode.fromDict (flatModeDict i fs) = .ok md) : md.ds = ssort (fs.map Item.name) := by
  simp only [Mode.fromDict, flatModeDict, Mode.new, Except.ok.injEq] at h
  subst h
  rfl

theorem flatP_mem {i : Info} {fs : List (Item Info)} {md : Mode}
    (h : Mode.fromDict (flatModeDict i fs) = .ok md) (d : String) :
    d ∈ md.ds ↔ d ∈ fs.map Item.name := by
  rw [flatP_ds h]
  exact (ssort_perm _).mem_iff

theorem ConsP_dhas (D : List (String × Mode)) : ∀ t : Chain Info, ConsP D t → dhas D t.mother = true
  | .mk m modes, hc => by
    match modes, hc with
    | [(i, fs)], hc =>
      simp only [ConsP] at hc
      obtain ⟨md, hD, _, _⟩ := hc
      simp [Chain.mother, dhas, hD]

mutual
  theorem closed_namesP (D acc : List (String × Mode)) (hcl : Closed D acc) :
      ∀ t : Chain Info, ConsP D t → dhas acc t.mother = true → ∀ k ∈ t.names, dhas acc k = true
    | .mk m modes, hc, hm => by
      match modes, hc with
      | [(i, fs)], hc =>
        simp only [ConsP] at hc
        obtain ⟨md, hD, hflat, _, hfs⟩ := hc
        simp only [Chain.mother] at hm
        intro k hk
        simp only [Chain.names, List.mem_cons] at hk
        rcases hk with hk | hk
        · subst hk; exact hm
        · refine closed_namesP_fs D acc hcl fs hfs ?_ k hk
          intro d hd hDd
          exact hcl m md hm hD d ((flatP_mem hflat d).2 hd) hDd
  theorem closed_namesP_fs (D acc : List (String × Mode)) (hcl : Closed D acc) :
      ∀ fs : List (Item Info), ConsFsP D fs →
        (∀ d ∈ fs.map Item.name, dhas D d = true → dhas acc d = true) →
        ∀ k ∈ namesFs fs, dhas acc k = true
    | [], _, _ => by simp [namesFs]
    | .inl p :: r, hc, hd => by
      simp only [ConsFsP] at hc
      simp only [namesFs]
      exact closed_namesP_fs D acc hcl r hc.2 (fun d h => hd d (by simp [h]))
    | .inr c :: r, hc, hd => by
      simp only [ConsFsP] at hc
      simp only [namesFs, List.mem_append]
      intro k hk
      rcases hk with hk | hk
      · refine closed_namesP D acc hcl c hc.1 ?_ k hk
        exact hd c.mother (by simp [Item.name]) (ConsP_dhas D c hc.1)
      · exact closed_namesP_fs D acc hcl r hc.2 (fun d h => hd d (by simp [h])) k hk
end

/-! ### `_build_decay_modes` on a consistent tree with daughters in any order -/

mutual
  theorem build_chainP (D : List (String × Mode))
      (hD : ∀ k md, dget D k = some md → modeDictEq (Mode.toDict md) (Mode.toDict md) = true) :
      ∀ t : Chain Info, ConsP D t → ∀ acc, Sub acc D → Closed D acc →
        ∃ acc', buildModes acc t = .ok acc' ∧ BuildOK D acc acc' t.names ∧ dhas acc' t.mother = true
    | .mk m modes, hc, acc, hs, hcl => by
      match modes, hc with
      | [(i, fs)], hc =>
        have hcons := hc
        simp only [ConsP] at hc
        obtain ⟨md, hm, hflat, _, hfs⟩ := hc
        -- one pass over the (single) mode, from any admissible accumulator
        have step : ∀ a, Sub a D → Closed D a →
            ∃ a', buildModeList a m [(i, fs)] = .ok a' ∧ BuildOK D a a' (m :: namesFs fs) ∧
              dhas a' m = true := by
          intro a has hacl
          obtain ⟨a1, hb, hok, hall⟩ := build_fsP D hD fs hfs a has hacl
          refine ⟨dset a1 m md, ?_, ?_, ?_⟩
          · simp only [buildModeList, hb, hflat]
          · constructor
            · intro k v hkv
              rcases mem_dset a1 m md (k, v) hkv with h | h
              · exact hok.sub k v h
              · obtain ⟨e1, e2⟩ := Prod.mk.inj h
                subst e1; subst e2; exact hm
            · intro k md' hk hDk d hd hDd
              rw [dhas_dset]
              rw [dhas_dset] at hk
              rcases hk with hk | hk
              · subst hk
                rw [hm] at hDk
                obtain rfl := Option.some.inj hDk
                right
                exact hall d ((flatP_mem hflat d).1 hd) hDd
              · right
                exact hok.closed k md' hk hDk d hd hDd
            · intro k hk
              rw [dhas_dset]; right; exact hok.mono k hk
            · intro k v hkv
              rcases mem_dset a1 m md (k, v) hkv with h | h
              · rcases hok.fresh k v h with h | h
                · exact Or.inl h
                · exact Or.inr (List.mem_cons_of_mem _ h)
              · obtain ⟨e1, _⟩ := Prod.mk.inj h
                subst e1; exact Or.inr (by simp)
          · rw [dhas_dset]; exact Or.inl rfl
        have hnames : (Chain.mk m [(i, fs)]).names = m :: namesFs fs := by simp [Chain.names]
        rw [hnames]
        simp only [Chain.mother]
        by_cases hin : dhas acc m = true
        · -- the particle was met before: the sub-dictionary is rebuilt and compared
          obtain ⟨again, hb, hok, _⟩ := step [] (Sub_nil D) (Closed_nil D)
          refine ⟨acc, ?_, ⟨hs, hcl, fun _ h => h, fun _ _ h => Or.inl h⟩, hin⟩
          simp only [buildModes, List.length_cons, List.length_nil, hin, hb]
          rw [if_neg (by simp), if_pos (by simp), if_neg]
          intro hbad
          rw [List.any_eq_true] at hbad
          obtain ⟨⟨k, dm⟩, hkv, hbad⟩ := hbad
          have hDk : dget D k = some dm := hok.sub k dm hkv
          have hkn : k ∈ (Chain.mk m [(i, fs)]).names := by
            rw [hnames]
            rcases hok.fresh k dm hkv with h | h
            · simp at h
            · exact h
          have hacc : dhas acc k = true :=
            closed_namesP D acc hcl _ hcons (by simpa [Chain.mother] using hin) k hkn
          obtain ⟨old, hold⟩ := (dhas_iff acc k).1 hacc
          have : old = dm := by
            have := Sub_dget hs k old hold
            rw [hDk] at this
            exact (Option.some.inj this).symm
          subst this
          simp [hold, hD k old hDk] at hbad
        · obtain ⟨a', hb, hok, hha⟩ := step acc hs hcl
          refine ⟨a', ?_, hok, hha⟩
          simp only [buildModes, List.length_cons, List.length_nil, hin, hb]
          simp
  theorem build_fsP (D : List (String × Mode))
      (hD : ∀ k md, dget D k = some md → modeDictEq (Mode.toDict md) (Mode.toDict md) = true) :
      ∀ fs : List (Item Info), ConsFsP D fs → ∀ acc, Sub acc D → Closed D acc →
        ∃ acc', buildFs acc fs = .ok acc' ∧ BuildOK D acc acc' (namesFs fs) ∧
          (∀ d ∈ fs.map Item.name, dhas D d = true → dhas acc' d = true)
    | [], _, acc, hs, hcl => by
      refine ⟨acc, by simp [buildFs], ⟨hs, hcl, fun _ h => h, fun _ _ h => Or.inl h⟩, by simp⟩
    | .inl p :: r, hc, acc, hs, hcl => by
      simp only [ConsFsP] at hc
      obtain ⟨a', hb, hok, hall⟩ := build_fsP D hD r hc.2 acc hs hcl
      refine ⟨a', by simp [buildFs, hb], ⟨hok.sub, hok.closed, hok.mono, ?_⟩, ?_⟩
      · simpa [namesFs] using hok.fresh
      · intro d hd hDd
        simp only [List.map_cons, List.mem_cons, Item.name] at hd
        rcases hd with hd | hd
        · subst hd; rw [hc.1] at hDd; exact absurd hDd (by simp)
        · exact hall d hd hDd
    | .inr c :: r, hc, acc, hs, hcl => by
      simp only [ConsFsP] at hc
      obtain ⟨a1, hb1, hok1, hc1⟩ := build_chainP D hD c hc.1 acc hs hcl
      obtain ⟨a2, hb2, hok2, hall⟩ := build_fsP D hD r hc.2 a1 hok1.sub hok1.closed
      refine ⟨a2, by simp [buildFs, hb1, hb2], ⟨hok2.sub, hok2.closed, ?_, ?_⟩, ?_⟩
      · intro k hk; exact hok2.mono k (hok1.mono k hk)
      · intro k v hkv
        simp only [namesFs, List.mem_append]
        rcases hok2.fresh k v hkv with h | h
        · rcases hok1.fresh k v h with h | h
          · exact Or.inl h
          · exact Or.inr (Or.inl h)
        · exact Or.inr (Or.inr h)
      · intro d hd hDd
        simp only [List.map_cons, List.mem_cons, Item.name] at hd
        rcases hd with hd | hd
        · subst hd; exact hok2.mono _ hc1
        · exact hall d hd hDd
end

/-! ### `to_dict` of a table against a consistent tree: the canonical form of the tree -/

mutual
  /-- number of nested levels below the root -/
  def Chain.depth : Chain Info → Nat
    | .mk _ modes => depthModes modes
  def depthModes : List (CMode Info) → Nat
    | [] => 0
    | (_, fs) :: r => max (depthFs fs) (depthModes r)
  def depthFs : List (Item Info) → Nat
    | [] => 0
    | .inl _ :: r => depthFs r
    | .inr c :: r => max (c.depth + 1) (depthFs r)
end

theorem mapM_tdItem_names (A : List (String × Mode)) (f : Nat) :
    ∀ L : List (Item Info), (∀ x ∈ L, tdItem A f x.name = some x) →
      (L.map Item.name).mapM (tdItem A f) = some L
  | [], _ => by simp
  | x :: r, h => by
    rw [List.map_cons, mapM_opt_cons]
    exact ⟨x, r, h x (by simp), mapM_tdItem_names A f r (fun y hy => h y (by simp [hy])), rfl⟩

mutual
  theorem toDictF_canon (D A : List (String × Mode))
      (hAD : ∀ k, dhas D k = false → dhas A k = false) :
      ∀ t : Chain Info, ConsP D t → (∀ k ∈ t.names, dget A k = dget D k) →
        ∀ f, t.depth < f → toDictF A f t.mother = some (canonChain t)
    | .mk m modes, hc, hn, f, hf => by
      match modes, hc with
      | [(i, fs)], hc =>
        simp only [ConsP] at hc
        obtain ⟨md, hm, hflat, hinfo, hfs⟩ := hc
        have hnames : (Chain.mk m [(i, fs)]).names = m :: namesFs fs := by simp [Chain.names]
        rw [hnames] at hn
        simp only [Chain.depth, depthModes, Nat.max_zero] at hf
        obtain ⟨f', rfl⟩ : ∃ f', f = f' + 1 := ⟨f - 1, by omega⟩
        have hAm : dget A m = some md := by rw [hn m (by simp), hm]
        have hitems := toDictF_canon_fs D A hAD fs hfs
          (fun k hk => hn k (List.mem_cons_of_mem _ hk)) f' (by omega)
        have hds : md.ds = (sortItems (canonFs fs)).map Item.name := by
          rw [flatP_ds hflat, sortItems_names, canonFs_names]
        have hmap : md.ds.mapM (tdItem A f') = some (sortItems (canonFs fs)) := by
          rw [hds]
          apply mapM_tdItem_names
          intro x hx
          exact hitems x ((sortItems_perm _).mem_iff.1 hx)
        simp only [Chain.mother]
        rw [toDictF_succ]
        simp only [hAm, hmap, Option.map_some, hinfo, canonChain, canonModes]
  theorem toDictF_canon_fs (D A : List (String × Mode))
      (hAD : ∀ k, dhas D k = false → dhas A k = false) :
      ∀ fs : List (Item Info), ConsFsP D fs → (∀ k ∈ namesFs fs, dget A k = dget D k) →
        ∀ f, depthFs fs ≤ f → ∀ x ∈ canonFs fs, tdItem A f x.name = some x
    | [], _, _, _, _ => by simp [canonFs]
    | .inl p :: r, hc, hn, f, hf => by
      simp only [ConsFsP] at hc
      simp only [namesFs] at hn
      simp only [depthFs] at hf
      intro x hx
      simp only [canonFs, List.mem_cons] at hx
      rcases hx with hx | hx
      · subst hx
        simp [tdItem, Item.name, hAD p hc.1]
      · exact toDictF_canon_fs D A hAD r hc.2 hn f hf x hx
    | .inr c :: r, hc, hn, f, hf => by
      simp only [ConsFsP] at hc
      simp only [namesFs, List.mem_append] at hn
      simp only [depthFs] at hf
      intro x hx
      simp only [canonFs, List.mem_cons] at hx
      rcases hx with hx | hx
      · subst hx
        have hA : dhas A c.mother = true := by
          have h1 := hn c.mother (Or.inl c.mother_mem_names)
          have h2 := ConsP_dhas D c hc.1
          unfold dhas at h2 ⊢
          rw [h1]; exact h2
        have := toDictF_canon D A hAD c hc.1 (fun k hk => hn k (Or.inl hk)) f (by omega)
        simp [tdItem, Item.name, canonChain_mother, hA, this]
      · exact toDictF_canon_fs D A hAD r hc.2 (fun k hk => hn k (Or.inr hk)) f (by omega) x hx
end

/-! ### what the parser produces -/

mutual
  /-- every dictionary of the tree: the tree itself and all sub-dictionaries, at any depth -/
  def Chain.nodes : Chain Info → List (Chain Info)
    | .mk m modes => .mk m modes :: nodesModes modes
  def nodesModes : List (CMode Info) → List (Chain Info)
    | [] => []
    | (_, fs) :: r => nodesFs fs ++ nodesModes r
  def nodesFs : List (Item Info) → List (Chain Info)
    | [] => []
    | .inl _ :: r => nodesFs r
    | .inr c :: r => c.nodes ++ nodesFs r
end

mutual
  /-- every daughter given as a bare name (a particle without decay), at any depth -/
  def Chain.leaves : Chain Info → List String
    | .mk _ modes => leavesModes modes
  def leavesModes : List (CMode Info) → List String
    | [] => []
    | (_, fs) :: r => leavesFs fs ++ leavesModes r
  def leavesFs : List (Item Info) → List String
    | [] => []
    | .inl p :: r => p :: leavesFs r
    | .inr c :: r => c.leaves ++ leavesFs r
end

theorem Chain.self_mem_nodes : ∀ t : Chain Info, t ∈ t.nodes
  | .mk m modes => by simp [Chain.nodes]

/-- the output of `DecFileParser.build_decay_chains` (an unfolded table of single decay lines):
    every dictionary has exactly one mode, whose metadata are `model` and `model_params` (not `None`);
    a particle carries the same sub-dictionary (up to the order of daughters) wherever it occurs;
    a particle that decays somewhere is never given as a bare name -/
structure ParserChain (pd : Chain Info) : Prop where
  single : ∀ t ∈ pd.nodes, ∃ i fs a b, t.modes = [(i, fs)] ∧
    i.rest = [("model", a), ("model_params", b)] ∧ b ≠ jsonNull
  same : ∀ t ∈ pd.nodes, ∀ t' ∈ pd.nodes, t.mother = t'.mother → canonChain t = canonChain t'
  bare : ∀ t ∈ pd.nodes, ∀ p ∈ pd.leaves, t.mother ≠ p

/-- the decay mode `from_dict` makes of the (single) mode of a dictionary -/
def modeOf : Chain Info → Mode
  | .mk _ modes => match modes with
    | [(i, fs)] => Mode.new i.bf (fs.map Item.name) i.rest
    | _ => default

/-- the table of decay modes a dictionary unfolds -/
def table (pd : Chain Info) : List (String × Mode) := pd.nodes.map fun t => (t.mother, modeOf t)

theorem modeOf_canon : ∀ t : Chain Info, modeOf (canonChain t) = modeOf t
  | .mk m modes => by
    match modes with
    | [] => simp [canonChain, canonModes, modeOf]
    | [(i, fs)] =>
      simp only [canonChain, canonModes, modeOf, Mode.new, ddOfList]
      rw [sortItems_names, canonFs_names, ssort_idem]
    | _ :: _ :: _ => simp [canonChain, canonModes, modeOf]

theorem parser_mode (bf : String) (l : List String) (a b : String) :
    Mode.new bf l [("model", a), ("model_params", b)] =
      { bf := bf, ds := ssort l, mdat := [("model", a), ("model_params", b)] } := by
  simp [Mode.new, ddOfList, dupdate, defaultMeta, dset]

theorem parser_mode_rest (bf : String) (l : List String) (a b : String) (hb : b ≠ jsonNull) :
    (Mode.new bf l [("model", a), ("model_params", b)]).toDict.rest =
      [("model", a), ("model_params", b)] := by
  rw [parser_mode]
  simp [Mode.toDict, dget, hb]

theorem parser_mode_eqv (bf : String) (l : List String) (a b : String) (hb : b ≠ jsonNull) :
    modeDictEq (Mode.new bf l [("model", a), ("model_params", b)]).toDict
      (Mode.new bf l [("model", a), ("model_params", b)]).toDict = true := by
  have h := parser_mode_rest bf l a b hb
  unfold modeDictEq
  rw [h]
  simp [dictEqUnordered, dget]

theorem table_get {pd : Chain Info} {k : String} {md : Mode} (h : dget (table pd) k = some md) :
    ∃ t ∈ pd.nodes, t.mother = k ∧ modeOf t = md := by
  have := dget_mem _ _ _ h
  simp only [table, List.mem_map, Prod.mk.injEq] at this
  obtain ⟨t, ht, h1, h2⟩ := this
  exact ⟨t, ht, h1, h2⟩

theorem table_has {pd t : Chain Info} (ht : t ∈ pd.nodes) : dhas (table pd) t.mother = true :=
  dhas_of_mem _ _ (modeOf t) (List.mem_map.2 ⟨t, ht, rfl⟩)

mutual
  theorem consP_of (pd : Chain Info) (h : ParserChain pd) :
      ∀ t : Chain Info, (∀ t' ∈ t.nodes, t' ∈ pd.nodes) → (∀ p ∈ t.leaves, p ∈ pd.leaves) →
        ConsP (table pd) t
    | .mk m modes, hn, hl => by
      have hin : Chain.mk m modes ∈ pd.nodes := hn _ (Chain.self_mem_nodes _)
      obtain ⟨i, fs, a, b, hm, hr, hb⟩ := h.single _ hin
      simp only [Chain.modes] at hm
      subst hm
      obtain ⟨md, hmd⟩ := (dhas_iff _ _).1 (table_has hin)
      simp only [Chain.mother] at hmd
      obtain ⟨t', ht', hmo, hmode⟩ := table_get hmd
      have hsame := h.same t' ht' _ hin (by simpa [Chain.mother] using hmo)
      have hmd' : md = Mode.new i.bf (fs.map Item.name) i.rest := by
        rw [← hmode, ← modeOf_canon t', hsame, modeOf_canon]
        rfl
      simp only [ConsP]
      refine ⟨md, hmd, ?_, ?_, ?_⟩
      · rw [hmd']; rfl
      · rw [hmd', hr, parser_mode_rest _ _ _ _ hb, parser_mode]
        cases i
        simp only at hr
        simp [hr]
      · refine consP_of_fs pd h fs ?_ ?_
        · intro t'' ht''
          exact hn t'' (by simp [Chain.nodes, nodesModes, ht''])
        · intro p hp
          exact hl p (by simp [Chain.leaves, leavesModes, hp])
  theorem consP_of_fs (pd : Chain Info) (h : ParserChain pd) :
      ∀ fs : List (Item Info), (∀ t' ∈ nodesFs fs, t' ∈ pd.nodes) → (∀ p ∈ leavesFs fs, p ∈ pd.leaves) →
        ConsFsP (table pd) fs
    | [], _, _ => by simp [ConsFsP]
    | .inl p :: r, hn, hl => by
      simp only [ConsFsP]
      refine ⟨?_, consP_of_fs pd h r (fun t ht => hn t (by simpa [nodesFs] using ht))
        (fun q hq => hl q (by simp [leavesFs, hq]))⟩
      cases hp : dhas (table pd) p with
      | false => rfl
      | true =>
        obtain ⟨md, hmd⟩ := (dhas_iff _ _).1 hp
        obtain ⟨t, ht, hmo, _⟩ := table_get hmd
        exact absurd hmo (h.bare t ht p (hl p (by simp [leavesFs])))
    | .inr c :: r, hn, hl => by
      simp only [ConsFsP]
      refine ⟨consP_of pd h c (fun t ht => hn t (by simp [nodesFs, ht]))
        (fun q hq => hl q (by simp [leavesFs, hq])),
        consP_of_fs pd h r (fun t ht => hn t (by simp [nodesFs, ht]))
        (fun q hq => hl q (by simp [leavesFs, hq]))⟩
end

/-- the decay modes of the table of a parser dictionary compare equal to themselves -/
theorem table_eqv (pd : Chain Info) (h : ParserChain pd) :
    ∀ k md, dget (table pd) k = some md → modeDictEq (Mode.toDict md) (Mode.toDict md) = true := by
  intro k md hmd
  obtain ⟨t, ht, _, hmode⟩ := table_get hmd
  obtain ⟨i, fs, a, b, hm, hr, hb⟩ := h.single t ht
  cases t with
  | mk m modes =>
    simp only [Chain.modes] at hm
    subst hm
    simp only [modeOf, hr] at hmode
    rw [← hmode]
    exact parser_mode_eqv _ _ _ _ hb

/-! ### the round trip of a parser dictionary -/

theorem parser_roundtrip (pd : Chain Info) (h : ParserChain pd) (fuel : Nat) (hf : pd.depth < fuel) :
    ∃ c, DChain.fromDict pd = .ok c ∧ c.mother = pd.mother ∧ c.toDict fuel = .ok (canonChain pd) := by
  have hcons : ConsP (table pd) pd := consP_of pd h pd (fun _ h => h) (fun _ h => h)
  obtain ⟨acc', hb, hok, hhas⟩ :=
    build_chainP (table pd) (table_eqv pd h) pd hcons [] (Sub_nil _) (Closed_nil _)
  have hsub : ∀ k m, dget acc' k = some m → dget (table pd) k = some m :=
    fun k m h => Sub_dget hok.sub k m h
  refine ⟨{ mother := pd.mother, decays := acc' }, ?_, rfl, ?_⟩
  · simp [DChain.fromDict, hb, hhas]
  · have hAD : ∀ k, dhas (table pd) k = false → dhas acc' k = false := by
      intro k hk
      cases h : dhas acc' k with
      | false => rfl
      | true =>
        obtain ⟨v, hv⟩ := (dhas_iff acc' k).1 h
        have := hsub k v hv
        simp [dhas, this] at hk
    have hagree : ∀ k ∈ pd.names, dget acc' k = dget (table pd) k := by
      intro k hk
      have := closed_namesP (table pd) acc' hok.closed pd hcons hhas k hk
      obtain ⟨v, hv⟩ := (dhas_iff acc' k).1 this
      rw [hv, hsub k v hv]
    have := toDictF_canon (table pd) acc' hAD pd hcons hagree fuel hf
    simp [DChain.toDict, this]

end DL
