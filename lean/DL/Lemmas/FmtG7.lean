/-
`%.7g` on an exact rational (DL/Model/Num.lean): the seven significant digits `sig7 x = (n, e)` are a correct rounding,
`10^6 ≤ n < 10^7` and `|x - n·10^(e-6)| ≤ ½·10^(e-6)`.  Helper lemmas for C16_sig7.
-/
import Mathlib.Tactic
import DL.Model.Num
namespace DL

theorem length_toString_nat (n : Nat) : (toString n).length = (Nat.toDigits 10 n).length := by
  have h : (toString n).toList = Nat.toDigits 10 n := by
    rw [show toString n = Nat.repr n from rfl]; exact Nat.toList_repr
  rw [← h, String.length_toList]

/-- a positive natural number with `L` decimal digits lies in `[10^(L-1), 10^L)` -/
theorem digits_bounds (n : Nat) (hn : 0 < n) :
    10 ^ ((toString n).length - 1) ≤ n ∧ n < 10 ^ (toString n).length := by
  rw [length_toString_nat]
  set L := (Nat.toDigits 10 n).length with hL
  have hpos : 0 < L := Nat.length_toDigits_pos
  constructor
  · by_cases h1 : L = 1
    · rw [h1]; simp only [Nat.sub_self, pow_zero]; omega
    · have hk : 0 < L - 1 := by omega
      by_contra hlt
      rw [not_le] at hlt
      have := (Nat.length_toDigits_le_iff (b := 10) (n := n) (k := L - 1) (by decide) hk).2 hlt
      omega
  · exact (Nat.length_toDigits_le_iff (b := 10) (n := n) (k := L) (by decide) hpos).1 (le_refl _)


theorem pow10_cast (k : Nat) : ((pow10 k : Nat) : ℚ) = (10 : ℚ) ^ k := by
  simp [pow10]

theorem ten_zpow_pos (e : ℤ) : (0 : ℚ) < (10 : ℚ) ^ e := zpow_pos (by norm_num) e

/-- the comparison `floorLog10` makes with powers of ten -/
def geP10 (x : ℚ) (e : ℤ) : Bool :=
  if e ≥ 0 then decide ((pow10 e.toNat : ℚ) ≤ x) else decide ((1 : ℚ) ≤ x * (pow10 (-e).toNat : ℚ))

theorem geP10_iff (x : ℚ) (e : ℤ) : geP10 x e = true ↔ (10 : ℚ) ^ e ≤ x := by
  unfold geP10
  split
  · rename_i he
    rw [decide_eq_true_eq, pow10_cast]
    have : (10 : ℚ) ^ e = (10 : ℚ) ^ e.toNat := by
      conv_lhs => rw [← Int.toNat_of_nonneg he]
      exact zpow_natCast _ _
    rw [this]
  · rename_i he
    rw [decide_eq_true_eq, pow10_cast]
    have hneg : e = -(((-e).toNat : ℕ) : ℤ) := by
      have : 0 ≤ -e := by omega
      rw [Int.toNat_of_nonneg this]; ring
    have hp : (0 : ℚ) < (10 : ℚ) ^ (-e).toNat := pow_pos (by norm_num) _
    conv_rhs => rw [hneg, zpow_neg, zpow_natCast]
    rw [inv_le_iff_one_le_mul₀ hp, mul_comm]

theorem floorLog10_eq (x : ℚ) : floorLog10 x =
    (let e0 : ℤ := ((toString x.num.toNat).length : ℤ) - ((toString x.den).length : ℤ)
     if geP10 x e0 then e0 else e0 - 1) := rfl

theorem rat_eq_div (x : ℚ) (hx : 0 < x) : x = (x.num.toNat : ℚ) / (x.den : ℚ) := by
  have hn : 0 < x.num := Rat.num_pos.2 hx
  have : ((x.num.toNat : ℕ) : ℚ) = (x.num : ℚ) := by
    have := Int.toNat_of_nonneg hn.le
    exact_mod_cast congrArg (fun z : ℤ => (z : ℚ)) this
  rw [this]
  exact (Rat.num_div_den x).symm

/-- `floorLog10 x` is the decimal exponent of `x`: `10^e ≤ x < 10^(e+1)` -/
theorem floorLog10_spec (x : ℚ) (hx : 0 < x) :
    (10 : ℚ) ^ (floorLog10 x) ≤ x ∧ x < (10 : ℚ) ^ (floorLog10 x + 1) := by
  have hnpos : 0 < x.num.toNat := by
    have : 0 < x.num := Rat.num_pos.2 hx
    omega
  have hdpos : 0 < x.den := x.den_pos
  obtain ⟨hn1, hn2⟩ := digits_bounds x.num.toNat hnpos
  obtain ⟨hd1, hd2⟩ := digits_bounds x.den hdpos
  set n := x.num.toNat with hn
  set d := x.den with hd
  set ln := (toString n).length with hln
  set ld := (toString d).length with hld
  have hlnpos : 0 < ln := by rw [hln, length_toString_nat]; exact Nat.length_toDigits_pos
  have hldpos : 0 < ld := by rw [hld, length_toString_nat]; exact Nat.length_toDigits_pos
  have hxe : x = (n : ℚ) / (d : ℚ) := rat_eq_div x hx
  have h10 : (10 : ℚ) ≠ 0 := by norm_num
  have hdq : (0 : ℚ) < (d : ℚ) := by exact_mod_cast hdpos
  have hn1q : (10 : ℚ) ^ (ln - 1) ≤ (n : ℚ) := by exact_mod_cast hn1
  have hn2q : (n : ℚ) < (10 : ℚ) ^ ln := by exact_mod_cast hn2
  have hd1q : (10 : ℚ) ^ (ld - 1) ≤ (d : ℚ) := by exact_mod_cast hd1
  have hd2q : (d : ℚ) < (10 : ℚ) ^ ld := by exact_mod_cast hd2
  -- 10^(ln - ld - 1) < x < 10^(ln - ld + 1)
  have hup : x < (10 : ℚ) ^ ((ln : ℤ) - (ld : ℤ) + 1) := by
    have he : ((ln : ℤ) - (ld : ℤ) + 1) = (ln : ℤ) - ((ld - 1 : ℕ) : ℤ) := by omega
    rw [he, zpow_sub₀ h10, zpow_natCast, zpow_natCast, hxe]
    have hQ : (0 : ℚ) < (10 : ℚ) ^ (ld - 1) := pow_pos (by norm_num) _
    rw [div_lt_div_iff₀ hdq hQ]
    calc (n : ℚ) * (10 : ℚ) ^ (ld - 1) < (10 : ℚ) ^ ln * (10 : ℚ) ^ (ld - 1) := by
          exact mul_lt_mul_of_pos_right hn2q hQ
      _ ≤ (10 : ℚ) ^ ln * (d : ℚ) := by
          exact mul_le_mul_of_nonneg_left hd1q (pow_pos (by norm_num) _).le
  have hlo : (10 : ℚ) ^ ((ln : ℤ) - (ld : ℤ) - 1) < x := by
    have he : ((ln : ℤ) - (ld : ℤ) - 1) = ((ln - 1 : ℕ) : ℤ) - (ld : ℤ) := by omega
    rw [he, zpow_sub₀ h10, zpow_natCast, zpow_natCast, hxe]
    have hQ : (0 : ℚ) < (10 : ℚ) ^ ld := pow_pos (by norm_num) _
    rw [div_lt_div_iff₀ hQ hdq]
    calc (10 : ℚ) ^ (ln - 1) * (d : ℚ) < (10 : ℚ) ^ (ln - 1) * (10 : ℚ) ^ ld := by
          exact mul_lt_mul_of_pos_left hd2q (pow_pos (by norm_num) _)
      _ ≤ (n : ℚ) * (10 : ℚ) ^ ld := by
          exact mul_le_mul_of_nonneg_right hn1q hQ.le
  rw [floorLog10_eq]
  simp only
  split
  · rename_i hge
    exact ⟨(geP10_iff x _).1 hge, hup⟩
  · rename_i hge
    have hnot : ¬ (10 : ℚ) ^ ((ln : ℤ) - (ld : ℤ)) ≤ x := fun h => hge ((geP10_iff x _).2 h)
    refine ⟨hlo.le, ?_⟩
    have : ((ln : ℤ) - (ld : ℤ) - 1 + 1) = (ln : ℤ) - (ld : ℤ) := by ring
    rw [this]
    exact lt_of_not_ge hnot


/-! ### rounding to the nearest integer -/

theorem roundHalfEven_eq (x : ℚ) : roundHalfEven x =
    (let fl := (x.num / x.den).toNat
     let rem : ℚ := x - (fl : ℚ)
     if rem < (1 : ℚ) / 2 then fl else if rem > (1 : ℚ) / 2 then fl + 1 else if fl % 2 == 0 then fl else fl + 1) := rfl

theorem floor_cast_toNat (x : ℚ) (hx : 0 ≤ x) :
    (((x.num / (x.den : ℤ)).toNat : ℕ) : ℚ) ≤ x ∧ x < (((x.num / (x.den : ℤ)).toNat : ℕ) : ℚ) + 1 := by
  have hfl : ⌊x⌋ = x.num / (x.den : ℤ) := Rat.floor_def'
  have h0 : 0 ≤ ⌊x⌋ := Int.floor_nonneg.2 hx
  have hc : (((x.num / (x.den : ℤ)).toNat : ℕ) : ℚ) = ((⌊x⌋ : ℤ) : ℚ) := by
    rw [← hfl]
    have := Int.toNat_of_nonneg h0
    exact_mod_cast congrArg (fun z : ℤ => (z : ℚ)) this
  rw [hc]
  exact ⟨Int.floor_le x, Int.lt_floor_add_one x⟩

/-- `roundHalfEven` is a nearest integer -/
theorem roundHalfEven_spec (x : ℚ) (hx : 0 ≤ x) : |x - (roundHalfEven x : ℚ)| ≤ 1 / 2 := by
  obtain ⟨h1, h2⟩ := floor_cast_toNat x hx
  rw [roundHalfEven_eq]
  simp only
  set fl := (x.num / (x.den : ℤ)).toNat with hfl
  split
  · rename_i h
    rw [abs_le]; constructor <;> linarith
  · split
    · rename_i _ h
      push_cast
      rw [abs_le]; constructor <;> linarith
    · rename_i hlt hgt
      have heq : x - (fl : ℚ) = 1 / 2 := le_antisymm (not_lt.1 hgt) (not_lt.1 hlt)
      split
      · rw [abs_le]; constructor <;> linarith
      · push_cast
        rw [abs_le]; constructor <;> linarith

/-- rounding is monotone enough: it stays within the integers that bound the argument -/
theorem roundHalfEven_bounds (x : ℚ) (hx : 0 ≤ x) (a b : ℕ) (ha : (a : ℚ) ≤ x) (hb : x < (b : ℚ)) :
    a ≤ roundHalfEven x ∧ roundHalfEven x ≤ b := by
  have h := roundHalfEven_spec x hx
  rw [abs_le] at h
  obtain ⟨hl, hu⟩ := h
  constructor
  · by_contra hc
    rw [not_le] at hc
    have : (roundHalfEven x : ℚ) + 1 ≤ (a : ℚ) := by exact_mod_cast hc
    linarith
  · by_contra hc
    rw [not_le] at hc
    have : (b : ℚ) + 1 ≤ (roundHalfEven x : ℚ) := by exact_mod_cast hc
    linarith


/-! ### seven significant digits -/

theorem scaled_eq (x : ℚ) (sc : ℤ) :
    (if sc ≥ 0 then x * (pow10 sc.toNat : ℚ) else x / (pow10 (-sc).toNat : ℚ)) = x * (10 : ℚ) ^ sc := by
  split
  · rename_i h
    rw [pow10_cast]
    conv_rhs => rw [← Int.toNat_of_nonneg h, zpow_natCast]
  · rename_i h
    rw [pow10_cast]
    have hneg : sc = -(((-sc).toNat : ℕ) : ℤ) := by
      have : 0 ≤ -sc := by omega
      rw [Int.toNat_of_nonneg this]; ring
    conv_rhs => rw [hneg, zpow_neg, zpow_natCast]
    rw [div_eq_mul_inv]

theorem sig7_eq (x : ℚ) : sig7 x =
    (let e := floorLog10 x
     let n0 := roundHalfEven (x * (10 : ℚ) ^ (6 - e))
     if n0 ≥ 10000000 then (n0 / 10, e + 1) else (n0, e)) := by
  unfold sig7
  simp only [scaled_eq]

/-- the seven significant digits are a correct rounding of `x`: `10^6 ≤ n < 10^7` and `x` differs from `n · 10^(e-6)` by at
    most half a unit of the last digit -/
theorem sig7_spec (x : ℚ) (hx : 0 < x) :
    10 ^ 6 ≤ (sig7 x).1 ∧ (sig7 x).1 < 10 ^ 7 ∧
    |x - ((sig7 x).1 : ℚ) * (10 : ℚ) ^ ((sig7 x).2 - 6)| ≤ 1 / 2 * (10 : ℚ) ^ ((sig7 x).2 - 6) := by
  obtain ⟨hlo, hhi⟩ := floorLog10_spec x hx
  set e := floorLog10 x with he
  have h10 : (10 : ℚ) ≠ 0 := by norm_num
  set scaled := x * (10 : ℚ) ^ (6 - e) with hsc
  have hp : (0 : ℚ) < (10 : ℚ) ^ (6 - e) := ten_zpow_pos _
  have hq : (0 : ℚ) < (10 : ℚ) ^ (e - 6) := ten_zpow_pos _
  have hinv : (10 : ℚ) ^ (6 - e) * (10 : ℚ) ^ (e - 6) = 1 := by
    rw [← zpow_add₀ h10]; simp
  have hx_eq : x = scaled * (10 : ℚ) ^ (e - 6) := by
    rw [hsc, mul_assoc, hinv, mul_one]
  have hs_lo : ((10 ^ 6 : ℕ) : ℚ) ≤ scaled := by
    have : (10 : ℚ) ^ e * (10 : ℚ) ^ (6 - e) = (10 : ℚ) ^ (6 : ℤ) := by
      rw [← zpow_add₀ h10]; congr 1; ring
    have h6 : (10 : ℚ) ^ (6 : ℤ) = ((10 ^ 6 : ℕ) : ℚ) := by norm_num
    rw [← h6, ← this, hsc]
    exact mul_le_mul_of_nonneg_right hlo hp.le
  have hs_hi : scaled < ((10 ^ 7 : ℕ) : ℚ) := by
    have : (10 : ℚ) ^ (e + 1) * (10 : ℚ) ^ (6 - e) = (10 : ℚ) ^ (7 : ℤ) := by
      rw [← zpow_add₀ h10]; congr 1; ring
    have h7 : (10 : ℚ) ^ (7 : ℤ) = ((10 ^ 7 : ℕ) : ℚ) := by norm_num
    rw [← h7, ← this, hsc]
    exact mul_lt_mul_of_pos_right hhi hp
  have hs0 : 0 ≤ scaled := le_trans (by positivity) hs_lo
  obtain ⟨hn_lo, hn_hi⟩ := roundHalfEven_bounds scaled hs0 (10 ^ 6) (10 ^ 7) hs_lo hs_hi
  have hround := roundHalfEven_spec scaled hs0
  set n0 := roundHalfEven scaled with hn0
  have hdiff : x - (n0 : ℚ) * (10 : ℚ) ^ (e - 6) = (scaled - (n0 : ℚ)) * (10 : ℚ) ^ (e - 6) := by
    linear_combination hx_eq
  rw [sig7_eq]
  simp only
  rw [← he, ← hsc, ← hn0]
  split
  · rename_i hge
    have hn0eq : n0 = 10 ^ 7 := le_antisymm hn_hi (by simpa using hge)
    refine ⟨by rw [hn0eq]; norm_num, by rw [hn0eq]; norm_num, ?_⟩
    have hval : (((n0 / 10 : ℕ)) : ℚ) * (10 : ℚ) ^ (e + 1 - 6) = (n0 : ℚ) * (10 : ℚ) ^ (e - 6) := by
      rw [hn0eq]
      have : (e + 1 - 6 : ℤ) = (e - 6) + 1 := by ring
      rw [this, zpow_add₀ h10]; norm_num; ring
    rw [hval, hdiff, abs_mul, abs_of_pos hq]
    have hmono : (10 : ℚ) ^ (e - 6) ≤ (10 : ℚ) ^ (e + 1 - 6) := by
      apply zpow_le_zpow_right₀ (by norm_num); omega
    calc |scaled - (n0 : ℚ)| * (10 : ℚ) ^ (e - 6) ≤ 1 / 2 * (10 : ℚ) ^ (e - 6) :=
          mul_le_mul_of_nonneg_right hround hq.le
      _ ≤ 1 / 2 * (10 : ℚ) ^ (e + 1 - 6) := by
          exact mul_le_mul_of_nonneg_left hmono (by norm_num)
  · rename_i hge
    refine ⟨hn_lo, by simpa using hge, ?_⟩
    rw [hdiff, abs_mul, abs_of_pos hq]
    exact mul_le_mul_of_nonneg_right hround hq.le

end DL
