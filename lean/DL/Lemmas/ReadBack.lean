/-
Reading a decay descriptor back by matching its brackets.

* closed forms of the two default patterns (`render_top`, `render_sub`);
* a character-level reader: `splitTop` cuts at the blanks of parenthesis depth 0, `readBody`
  reads "M -> a (B -> c d) e" recursively;
* the depth-0 splitter lemma `splitTop_joinSp`.
Core Lean only.
-/
import DL.Lemmas.Sort
import DL.Model.Descriptor
namespace DL

/-! ### closed forms of the default patterns -/

/-- decidable equality on the results of the pattern parser (local, for evaluation only) -/
@[instance_reducible] private def decPat : (a b : Except FmtErr (List Piece)) → Decidable (a = b)
  | .ok x, .ok y => if h : x = y then isTrue (congrArg _ h) else isFalse (fun e => h (Except.ok.inj e))
  | .error x, .error y => if h : x = y then isTrue (congrArg _ h) else isFalse (fun e => h (Except.error.inj e))
  | .ok _, .error _ => isFalse (fun e => nomatch e)
  | .error _, .ok _ => isFalse (fun e => nomatch e)

attribute [local instance] decPat in
theorem parsePat_top : parsePat "{mother} -> {daughters}" =
    .ok [{ lit := "", field := some "mother" }, { lit := " -> ", field := some "daughters" }] := by
  decide

attribute [local instance] decPat in
theorem parsePat_sub : parsePat "({mother} -> {daughters})" =
    .ok [{ lit := "(", field := some "mother" }, { lit := " -> ", field := some "daughters" },
         { lit := ")", field := none }] := by
  decide

/-- the first default pattern -/
theorem render_top (m ds : String) : Fmt.default.render m ds true = m ++ " -> " ++ ds := by
  simp [Fmt.render, Fmt.default, renderPat, parsePat_top]

/-- the second default pattern -/
theorem render_sub (m ds : String) :
    Fmt.default.render m ds false = "(" ++ m ++ " -> " ++ ds ++ ")" := by
  simp [Fmt.render, Fmt.default, renderPat, parsePat_sub]

/-! ### parenthesis depth -/

/-- depth after one character (closing at depth 0 stays at 0) -/
def stepDepth (d : Nat) (c : Char) : Nat :=
  if c = '(' then d + 1 else if c = ')' then d - 1 else d

/-- depth after a run of characters -/
def endDepth : Nat → List Char → Nat
  | d, [] => d
  | d, c :: r => endDepth (stepDepth d c) r

/-- reading `cs` from depth `d`: no blank at depth 0 and no closing parenthesis at depth 0 -/
def tokOK : Nat → List Char → Bool
  | _, [] => true
  | d, c :: r => !(d == 0 && (c == ' ' || c == ')')) && tokOK (stepDepth d c) r

/-- a token: non-empty, balanced, never closing below depth 0, blanks only inside parentheses -/
def Tok (t : List Char) : Prop := t ≠ [] ∧ tokOK 0 t = true ∧ endDepth 0 t = 0

theorem endDepth_append (d : Nat) (a b : List Char) :
    endDepth d (a ++ b) = endDepth (endDepth d a) b := by
  induction a generalizing d with
  | nil => rfl
  | cons c r ih => simp [endDepth, ih]

theorem tokOK_append (d : Nat) (a b : List Char) :
    tokOK d (a ++ b) = (tokOK d a && tokOK (endDepth d a) b) := by
  induction a generalizing d with
  | nil => simp [tokOK, endDepth]
  | cons c r ih => simp [tokOK, endDepth, ih, Bool.and_assoc]

/-- a well-formed run can be read at any greater depth, and ends that much higher -/
theorem tokOK_shift (k : Nat) : ∀ (t : List Char) (d : Nat), tokOK d t = true →
    tokOK (d + k) t = true ∧ endDepth (d + k) t = endDepth d t + k
  | [], d, _ => by simp [tokOK, endDepth]
  | c :: r, d, h => by
    simp only [tokOK, Bool.and_eq_true, Bool.not_eq_true', Bool.and_eq_false_iff, Bool.or_eq_false_iff,
      beq_eq_false_iff_ne, ne_eq] at h
    have hstep : stepDepth (d + k) c = stepDepth d c + k := by
      unfold stepDepth
      by_cases h1 : c = '('
      · simp [h1]; omega
      · by_cases h2 : c = ')'
        · have : d ≠ 0 := by
            rcases h.1 with h0 | h0
            · exact h0
            · exact absurd h2 h0.2
          simp [h2]; omega
        · simp [h1, h2]
    have ih := tokOK_shift k r (stepDepth d c) h.2
    simp only [tokOK, endDepth, hstep, ih.1, ih.2, Bool.and_true, Bool.not_eq_true', Bool.and_eq_false_iff,
      Bool.or_eq_false_iff, beq_eq_false_iff_ne, ne_eq, and_true]
    rcases h.1 with h0 | h0
    · left; omega
    · right; exact h0

/-! ### splitting at the blanks of depth 0 -/

/-- cut at every blank of depth 0; empty pieces are dropped (`cur` is the current piece, reversed) -/
def splitAux : List Char → Nat → List Char → List (List Char)
  | [], _, cur => if cur.isEmpty then [] else [cur.reverse]
  | c :: r, d, cur =>
    if c = ' ' ∧ d = 0 then
      (if cur.isEmpty then splitAux r 0 [] else cur.reverse :: splitAux r 0 [])
    else splitAux r (stepDepth d c) (c :: cur)

def splitTop (cs : List Char) : List (List Char) := splitAux cs 0 []

/-- join with single blanks -/
def joinSp : List (List Char) → List Char
  | [] => []
  | [t] => t
  | t :: t' :: r => t ++ ' ' :: joinSp (t' :: r)

theorem splitAux_tok (t rest : List Char) : ∀ (d : Nat) (cur : List Char), tokOK d t = true →
    splitAux (t ++ rest) d cur = splitAux rest (endDepth d t) (t.reverse ++ cur) := by
  induction t with
  | nil => intro d cur _; rfl
  | cons c r ih =>
    intro d cur h
    simp only [tokOK, Bool.and_eq_true, Bool.not_eq_true', Bool.and_eq_false_iff, Bool.or_eq_false_iff,
      beq_eq_false_iff_ne, ne_eq] at h
    have hno : ¬ (c = ' ' ∧ d = 0) := by
      rintro ⟨h1, h2⟩
      rcases h.1 with h0 | h0
      · exact h0 h2
      · exact h0.1 h1
    simp only [List.cons_append, splitAux, hno, if_false, endDepth, List.reverse_cons, List.append_assoc]
    rw [ih _ _ h.2]
    simp

/-- the depth-0 splitter: cutting the blank-joined tokens gives the tokens back -/
theorem splitTop_joinSp : ∀ toks : List (List Char), (∀ t ∈ toks, Tok t) → splitTop (joinSp toks) = toks
  | [], _ => by simp [splitTop, joinSp, splitAux]
  | [t], h => by
    obtain ⟨hne, hok, hend⟩ := h t (by simp)
    have := splitAux_tok t [] 0 [] hok
    simp only [List.append_nil] at this
    simp [splitTop, joinSp, this, splitAux, hne]
  | t :: t' :: r, h => by
    obtain ⟨hne, hok, hend⟩ := h t (by simp)
    have ih := splitTop_joinSp (t' :: r) (fun x hx => h x (List.mem_cons_of_mem _ hx))
    simp only [splitTop] at ih ⊢
    simp only [joinSp]
    rw [splitAux_tok t _ 0 [] hok, hend]
    simp [splitAux, hne, ih]

/-- a run without blanks is one piece -/
theorem splitAux_noBlank : ∀ (cs : List Char) (d : Nat) (cur : List Char), (∀ c ∈ cs, c ≠ ' ') →
    splitAux cs d cur = if (cs.reverse ++ cur).isEmpty then [] else [(cs.reverse ++ cur).reverse]
  | [], d, cur, _ => by simp [splitAux]
  | c :: r, d, cur, h => by
    have hc : c ≠ ' ' := h c (by simp)
    simp only [splitAux, hc, false_and, if_false]
    rw [splitAux_noBlank r _ _ (fun x hx => h x (List.mem_cons_of_mem _ hx))]
    simp

theorem splitTop_noBlank_length (cs : List Char) (h : ∀ c ∈ cs, c ≠ ' ') : (splitTop cs).length ≤ 1 := by
  rw [splitTop, splitAux_noBlank cs 0 [] h]
  split <;> simp

/-- the character form of a decay "M -> d1 d2 …" -/
def bodyL (m : List Char) (items : List (List Char)) : List Char :=
  m ++ ' ' :: '-' :: '>' :: ' ' :: joinSp items

theorem splitTop_body (m : List Char) (items : List (List Char)) (hm : Tok m)
    (hi : ∀ t ∈ items, Tok t) : splitTop (bodyL m items) = m :: ['-', '>'] :: items := by
  obtain ⟨hne, hok, hend⟩ := hm
  have ih := splitTop_joinSp items hi
  simp only [splitTop, bodyL] at ih ⊢
  rw [splitAux_tok m _ 0 [] hok, hend]
  simp [splitAux, hne, stepDepth, ih]

theorem joinSp_inner : ∀ items : List (List Char), (∀ t ∈ items, Tok t) →
    tokOK 1 (joinSp items) = true ∧ endDepth 1 (joinSp items) = 1
  | [], _ => by simp [joinSp, tokOK, endDepth]
  | [t], h => by
    obtain ⟨_, hok, hend⟩ := h t (by simp)
    have := tokOK_shift 1 t 0 hok
    simpa [joinSp, hend] using this
  | t :: t' :: r, h => by
    obtain ⟨_, hok, hend⟩ := h t (by simp)
    have h1 := tokOK_shift 1 t 0 hok
    simp only [Nat.zero_add, hend] at h1
    have ih := joinSp_inner (t' :: r) (fun x hx => h x (List.mem_cons_of_mem _ hx))
    simp only [joinSp, tokOK_append, endDepth_append, h1.1, h1.2, Bool.true_and]
    simpa [tokOK, endDepth, stepDepth] using ih

/-- a bracketed decay is a token again -/
theorem tok_wrap (m : List Char) (items : List (List Char)) (hm : Tok m) (hi : ∀ t ∈ items, Tok t) :
    Tok ('(' :: (bodyL m items ++ [')'])) := by
  obtain ⟨_, hok, hend⟩ := hm
  have h1 := tokOK_shift 1 m 0 hok
  simp only [Nat.zero_add, hend] at h1
  have h2 := joinSp_inner items hi
  refine ⟨by simp, ?_, ?_⟩
  · simp [bodyL, tokOK, stepDepth, tokOK_append, h1.1, h1.2, h2.1, h2.2]
  · simp [bodyL, endDepth, stepDepth, endDepth_append, h1.2, h2.2]

theorem length_le_joinSp : ∀ (items : List (List Char)) (t : List Char), t ∈ items →
    t.length ≤ (joinSp items).length
  | [], t, h => by simp at h
  | [a], t, h => by simp at h; simp [joinSp, h]
  | a :: a' :: r, t, h => by
    simp only [joinSp, List.length_append, List.length_cons]
    rcases List.mem_cons.1 h with e | h'
    · subst e; omega
    · have := length_le_joinSp (a' :: r) t h'; omega

theorem joinSp_eq_intercalate (items : List (List Char)) :
    [' '].intercalate items = joinSp items := by
  induction items with
  | nil => rfl
  | cons a r ih =>
    cases r with
    | nil => simp [joinSp]
    | cons a' r' => simp only [joinSp, ← ih]; simp

/-! ### the reader -/

/-- what a descriptor says: a final-state name, or a decaying particle with its daughters -/
inductive Shape where
  | leaf (name : String)
  | node (mother : String) (items : List Shape)
  deriving Inhabited

/-- "( … )" without its outer pair of parentheses -/
def unparen : List Char → Option (List Char)
  | '(' :: r => if r.getLast? = some ')' then some r.dropLast else none
  | _ => none

theorem unparen_wrap (b : List Char) : unparen ('(' :: (b ++ [')'])) = some b := by
  simp [unparen]

/-- "M -> a (B -> c d) e": cut at the blanks of depth 0; the first piece is the mother, the second
    must be the arrow, every further piece is a daughter; a daughter "( … )" whose content reads as
    a decay is a sub-decay, any other daughter is a name -/
def readBody : Nat → List Char → Option Shape
  | 0, _ => none
  | f + 1, cs =>
    match splitTop cs with
    | m :: arrow :: items =>
      if arrow = ['-', '>'] then
        some (.node (String.ofList m) (items.map fun t =>
          match unparen t with
          | some inner => (readBody f inner).getD (.leaf (String.ofList t))
          | none => .leaf (String.ofList t)))
      else none
    | _ => none

/-- one daughter piece -/
def readItem (f : Nat) (t : List Char) : Shape :=
  match unparen t with
  | some inner => (readBody f inner).getD (.leaf (String.ofList t))
  | none => .leaf (String.ofList t)

theorem readBody_succ (f : Nat) (cs : List Char) : readBody (f + 1) cs =
    match splitTop cs with
    | m :: arrow :: items =>
      if arrow = ['-', '>'] then some (.node (String.ofList m) (items.map (readItem f))) else none
    | _ => none := by
  rw [readBody]; rfl

/-- the bracket reader (the fuel bounds the nesting depth) -/
def readDescriptor (cs : List Char) : Option Shape := readBody (cs.length + 1) cs

/-- a piece without blanks is a name -/
theorem readItem_noBlank (f : Nat) (t : List Char) (h : ∀ c ∈ t, c ≠ ' ') :
    readItem f t = .leaf (String.ofList t) := by
  unfold readItem
  cases hu : unparen t with
  | none => rfl
  | some inner =>
    have hin : ∀ c ∈ inner, c ≠ ' ' := by
      intro c hc
      cases t with
      | nil => simp [unparen] at hu
      | cons a r =>
        unfold unparen at hu
        split at hu
        · rename_i r' heq
          split at hu
          · cases hu
            cases heq
            exact h c (List.mem_cons_of_mem _ (List.dropLast_subset _ hc))
          · cases hu
        · cases hu
    have hlen := splitTop_noBlank_length inner hin
    have hnone : readBody f inner = none := by
      cases f with
      | zero => simp [readBody]
      | succ f =>
        rw [readBody_succ]
        split
        · rename_i heq; rw [heq] at hlen; simp at hlen
        · rfl
    simp [hnone]

/-! ### equality of shapes up to the order of the items, at every level -/

/-- the least equivalence relation that is compatible with `node` and identifies permuted items -/
inductive Shape.Equiv : Shape → Shape → Prop
  | refl (s : Shape) : Equiv s s
  | symm {s t : Shape} : Equiv s t → Equiv t s
  | trans {s t u : Shape} : Equiv s t → Equiv t u → Equiv s u
  | perm (m : String) {is js : List Shape} : is.Perm js → Equiv (.node m is) (.node m js)
  | cons (m : String) {a b : Shape} {is js : List Shape} :
      Equiv a b → Equiv (.node m is) (.node m js) → Equiv (.node m (a :: is)) (.node m (b :: js))

infix:50 " ≈ₛ " => Shape.Equiv

/-! the relation is not coarser than intended: equivalent shapes have the same root and the same
    labels (mother / final-state names, with multiplicity) -/

def Shape.root : Shape → String
  | .leaf n => n
  | .node m _ => m

def Shape.isNode : Shape → Bool
  | .leaf _ => false
  | .node _ _ => true

mutual
  /-- all names of the tree, marked `true` for a decaying particle and `false` for a final-state one -/
  def Shape.labels : Shape → List (Bool × String)
    | .leaf n => [(false, n)]
    | .node m is => (true, m) :: Shape.labelsL is
  def Shape.labelsL : List Shape → List (Bool × String)
    | [] => []
    | a :: r => a.labels ++ Shape.labelsL r
end

theorem Shape.labelsL_perm {is js : List Shape} (h : is.Perm js) :
    (Shape.labelsL is).Perm (Shape.labelsL js) := by
  induction h with
  | nil => exact .refl _
  | cons a _ ih => simp only [Shape.labelsL]; exact ih.append_left _
  | swap a b l =>
    simp only [Shape.labelsL, ← List.append_assoc]
    exact List.Perm.append_right _ List.perm_append_comm
  | trans _ _ ih1 ih2 => exact ih1.trans ih2

theorem Shape.Equiv.sound {s t : Shape} (h : s ≈ₛ t) :
    s.root = t.root ∧ s.isNode = t.isNode ∧ s.labels.Perm t.labels := by
  induction h with
  | refl s => exact ⟨rfl, rfl, .refl _⟩
  | symm _ ih => exact ⟨ih.1.symm, ih.2.1.symm, ih.2.2.symm⟩
  | trans _ _ ih1 ih2 => exact ⟨ih1.1.trans ih2.1, ih1.2.1.trans ih2.2.1, ih1.2.2.trans ih2.2.2⟩
  | perm m hp => exact ⟨rfl, rfl, by simp only [Shape.labels]; exact (Shape.labelsL_perm hp).cons _⟩
  | cons m _ _ ih1 ih2 =>
    refine ⟨rfl, rfl, ?_⟩
    simp only [Shape.labels, Shape.labelsL] at ih2 ⊢
    exact ((ih1.2.2).append (List.Perm.cons_inv ih2.2.2)).cons _

end DL
