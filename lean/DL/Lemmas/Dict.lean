/-
Ordered dictionaries: look-up after `dset`, and `pairsToDict` (a Python dict comprehension over
statements in file order) as "the last declaration of a name wins".  Core Lean only.
-/
import DL.Model.DecSem
namespace DL

variable {V : Type}

theorem dget_dset_same (d : List (String × V)) (k : String) (v : V) : dget (dset d k v) k = some v := by
  induction d with
  | nil => simp [dset, dget]
  | cons p r ih =>
    obtain ⟨k', v'⟩ := p
    by_cases h : k' = k
    · simp [dset, dget, h]
    · simp [dset, dget, h, ih]

theorem dget_dset_other (d : List (String × V)) (k k' : String) (v : V) (h : k ≠ k') :
    dget (dset d k v) k' = dget d k' := by
  induction d with
  | nil => simp [dset, dget, h]
  | cons p r ih =>
    obtain ⟨k₀, v₀⟩ := p
    by_cases h0 : k₀ = k
    · subst h0; simp [dset, dget, h]
    · by_cases h1 : k₀ = k'
      · subst h1; simp [dset, dget, h0]
      · simp [dset, dget, h0, h1, ih]

/-- the value a name has after all declarations: that of its last declaration -/
def lastOf (l : List (String × V)) (k : String) : Option V :=
  (l.reverse.find? (fun p => p.1 == k)).map (·.2)

theorem lastOf_cons (p : String × V) (r : List (String × V)) (k : String) :
    lastOf (p :: r) k = match lastOf r k with
      | some v => some v
      | none => if p.1 = k then some p.2 else none := by
  unfold lastOf
  simp only [List.reverse_cons, List.find?_append]
  cases h : List.find? (fun q => q.1 == k) r.reverse with
  | some q => simp
  | none =>
    by_cases hk : p.1 = k
    · simp [hk]
    · have : (p.1 == k) = false := by simpa using hk
      simp [hk, this]

theorem dget_foldl_dset (l : List (String × V)) (acc : List (String × V)) (k : String) :
    dget (l.foldl (fun a (kv : String × V) => dset a kv.1 kv.2) acc) k =
      match lastOf l k with
      | some v => some v
      | none => dget acc k := by
  induction l generalizing acc with
  | nil => simp [lastOf]
  | cons p r ih =>
    rw [List.foldl_cons, ih, lastOf_cons]
    cases h : lastOf r k with
    | some v => simp
    | none =>
      by_cases hk : p.1 = k
      · subst hk; simp [dget_dset_same]
      · simp [hk, dget_dset_other _ _ _ _ hk]

/-- C07 core: a dictionary built from the declarations in file order reports, for every name, the
    value of its last declaration; names never declared are absent -/
theorem dget_pairsToDict (l : List (String × V)) (k : String) : dget (pairsToDict l) k = lastOf l k := by
  have h := dget_foldl_dset l [] k
  have e : pairsToDict l = l.foldl (fun a (kv : String × V) => dset a kv.1 kv.2) [] := by
    unfold pairsToDict; congr 1
  rw [e, h]
  cases lastOf l k <;> simp [dget]

theorem lastOf_none_iff (l : List (String × V)) (k : String) : lastOf l k = none ↔ k ∉ l.map (·.1) := by
  unfold lastOf
  simp only [Option.map_eq_none_iff, List.find?_eq_none, List.mem_reverse, beq_iff_eq, List.mem_map, not_exists, not_and]

end DL
