/-
`DaughtersDict.charge_conjugate` / `DecayMode.charge_conjugate`: for a conjugation that is injective
on the particles of the final state, conjugating the final state conjugates every particle and keeps
its multiplicity.  Core Lean only.
-/
import DL.Model.Conj
import DL.Lemmas.Sort
import DL.Lemmas.Dedup
import DL.Props.C11
namespace DL

theorem nodup_eraseDups (l : List String) : l.eraseDups.Nodup := by
  rw [List.nodup_iff_count]
  intro a
  rw [count_eraseDups]
  split <;> omega

theorem nodup_map_of_injOn {α β : Type} (f : α → β) (l : List α) (hn : l.Nodup)
    (hinj : ∀ a ∈ l, ∀ b ∈ l, f a = f b → a = b) : (l.map f).Nodup := by
  unfold List.Nodup at hn ⊢
  rw [List.pairwise_map]
  exact List.Pairwise.imp_of_mem (fun {a b} ha hb hab e => hab (hinj a ha b hb e)) hn

/-- the distinct names, each repeated as often as it occurs, are a rearrangement of the list -/
theorem flatMap_eraseDups_perm (ds : List String) :
    (ds.eraseDups.flatMap fun k => List.replicate (ds.count k) k).Perm ds := by
  rw [List.perm_iff_count]
  intro x
  rw [List.count_flatMap]
  have hf : (List.count x ∘ fun k => List.replicate (ds.count k) k) =
      fun n => if n = x then ds.count x else 0 := by
    funext n
    simp only [Function.comp, List.count_replicate]
    by_cases h : n = x
    · subst h; simp
    · have hb : (n == x) = false := by simpa using h
      simp [hb, h]
  rw [hf, sum_map_ite_eq, count_eraseDups]
  by_cases hx : x ∈ ds
  · simp [hx]
  · simp [hx, List.count_eq_zero_of_not_mem hx]

/-- the dictionary the comprehension builds when no two particles share a conjugate -/
theorem ddConj_counts (conj : String → String) (ds : List String)
    (hinj : ∀ a ∈ ds, ∀ b ∈ ds, conj a = conj b → a = b) :
    ds.eraseDups.foldl (fun acc k => dset acc (conj k) (ds.count k : Int)) ([] : List (String × Int))
      = ds.eraseDups.map (fun k => (conj k, (ds.count k : Int))) := by
  have h := foldl_dset_fresh (ds.eraseDups.map (fun k => (conj k, (ds.count k : Int)))) []
    (by
      have : dkeys (ds.eraseDups.map (fun k => (conj k, (ds.count k : Int)))) = ds.eraseDups.map conj := by
        simp [dkeys]
      rw [this]
      apply nodup_map_of_injOn conj _ (nodup_eraseDups ds)
      intro a ha b hb
      exact hinj a (List.mem_eraseDups.mp ha) b (List.mem_eraseDups.mp hb))
    (by intro k _; simp [dkeys])
  rw [List.foldl_map] at h
  simpa using h

/-- conjugating a final state conjugates each particle, with its multiplicity -/
theorem ddConj_eq (conj : String → String) (ds : List String)
    (hinj : ∀ a ∈ ds, ∀ b ∈ ds, conj a = conj b → a = b) :
    ddConj conj ds = ssort (ds.map conj) := by
  unfold ddConj
  simp only
  rw [ddConj_counts conj ds hinj]
  unfold ddOfCounts
  apply ssort_eq_of_perm
  rw [List.flatMap_map]
  have e : (ds.eraseDups.flatMap fun a => List.replicate (Int.toNat (ds.count a : Int)) (conj a))
      = (ds.eraseDups.flatMap fun k => List.replicate (ds.count k) k).map conj := by
    rw [List.map_flatMap]
    simp [List.map_replicate]
  exact e ▸ (flatMap_eraseDups_perm ds).map conj

theorem count_map_of_injOn (conj : String → String) (ds : List String)
    (hinj : ∀ a ∈ ds, ∀ b ∈ ds, conj a = conj b → a = b) (p : String) (hp : p ∈ ds) :
    (ds.map conj).count (conj p) = ds.count p := by
  rw [List.count_eq_countP, List.countP_map, List.count_eq_countP]
  apply List.countP_congr
  intro x hx
  simp only [Function.comp, beq_iff_eq]
  exact ⟨fun e => hinj x hx p hp e, fun e => by rw [e]⟩

theorem dupdate_default_of_wf (m : Mode) (h : WFMode m) : dupdate defaultMeta m.mdat = m.mdat := by
  have := C11_mode m h
  obtain ⟨_, a, b, others, hm, _, _, _, hb⟩ := h
  have hmp : dget m.mdat "model_params" = some b := by rw [hm]; simp [dget]
  have htd : Mode.toDict m = { bf := some m.bf, fs := some m.ds, rest := m.mdat } := by
    unfold Mode.toDict; simp [hmp, hb]
  rw [htd] at this
  simp only [Mode.fromDict, Mode.new, Except.ok.injEq] at this
  have := congrArg Mode.mdat this
  simpa using this

/-- `DecayMode.charge_conjugate`: `DecayMode(self.bf, self.daughters.charge_conjugate(), **self.metadata)` -/
def modeConj (conj : String → String) (m : Mode) : Mode := Mode.new m.bf (ddConj conj m.ds) m.mdat

theorem ddOfList_ddConj (conj : String → String) (ds : List String) :
    ddOfList (ddConj conj ds) = ddConj conj ds := by
  unfold ddConj ddOfCounts ddOfList
  exact ssort_idem _

theorem modeConj_spec (conj : String → String) (m : Mode) (h : WFMode m) :
    (modeConj conj m).bf = m.bf ∧ (modeConj conj m).mdat = m.mdat ∧ (modeConj conj m).ds = ddConj conj m.ds := by
  refine ⟨rfl, ?_, ?_⟩
  · exact dupdate_default_of_wf m h
  · exact ddOfList_ddConj conj m.ds

theorem matchCC_nil (db : DB) (p : String) : matchCC db [] p = db.conjName p := by
  simp [matchCC, dget]

end DL
