/-
Lemmas about the declaration / use programs of `DL/Model/GooFitProg.lean`: the closure checker and its
specification, composition of closed programs, where the symbols used by the lineshapes of an amplitude
come from, and what `make_pars` declares.  Core Lean only.
-/
import DL.Model.GooFitProg
import DL.Lemmas.AmpNodes
namespace DL

/-! ### closure: specification and checker -/

/-- every symbol a statement uses is declared by a statement before it -/
def ProgClosed (p : List PStmt) : Prop :=
  ∀ pre s post, p = pre ++ s :: post → ∀ u ∈ s.uses, ∃ t ∈ pre, u ∈ t.declares

/-- the same, relative to symbols `env` known beforehand -/
def ProgClosedFrom (env : List String) (p : List PStmt) : Prop :=
  ∀ pre s post, p = pre ++ s :: post → ∀ u ∈ s.uses, u ∈ env ∨ ∃ t ∈ pre, u ∈ t.declares

theorem closedFromB_iff : ∀ (p : List PStmt) (env : List String), closedFromB env p = true ↔ ProgClosedFrom env p
  | [], env => by
    simp only [closedFromB, true_iff]
    intro pre s post h
    cases pre <;> simp at h
  | s :: r, env => by
    simp only [closedFromB, Bool.and_eq_true, List.all_eq_true, List.contains_iff_mem]
    rw [closedFromB_iff r (env ++ s.declares)]
    constructor
    · rintro ⟨h1, h2⟩ pre s' post he u hu
      cases pre with
      | nil =>
        simp only [List.nil_append, List.cons.injEq] at he
        obtain ⟨rfl, rfl⟩ := he
        exact Or.inl (h1 u hu)
      | cons t pre' =>
        simp only [List.cons_append, List.cons.injEq] at he
        obtain ⟨rfl, rfl⟩ := he
        rcases h2 pre' s' post rfl u hu with h | ⟨t', ht', hu'⟩
        · rcases List.mem_append.mp h with h | h
          · exact Or.inl h
          · exact Or.inr ⟨_, List.mem_cons_self, h⟩
        · exact Or.inr ⟨t', List.mem_cons_of_mem _ ht', hu'⟩
    · intro h
      refine ⟨fun u hu => ?_, ?_⟩
      · rcases h [] s r rfl u hu with h | ⟨t, ht, _⟩
        · exact h
        · cases ht
      · intro pre s' post he u hu
        rcases h (s :: pre) s' post (by rw [he]; rfl) u hu with h | ⟨t, ht, hu'⟩
        · exact Or.inl (List.mem_append_left _ h)
        · rcases List.mem_cons.mp ht with rfl | ht
          · exact Or.inl (List.mem_append_right _ hu')
          · exact Or.inr ⟨t, ht, hu'⟩

/-- the checker decides closure -/
theorem closedB_iff (p : List PStmt) : closedB p = true ↔ ProgClosed p := by
  unfold closedB
  rw [closedFromB_iff]
  simp [ProgClosedFrom, ProgClosed]

instance (p : List PStmt) : Decidable (ProgClosed p) := decidable_of_iff _ (closedB_iff p)

theorem mem_declsOf (p : List PStmt) (u : String) : u ∈ declsOf p ↔ ∃ s ∈ p, u ∈ s.declares := by
  simp [declsOf, List.mem_flatMap]

theorem declsOf_append (a b : List PStmt) : declsOf (a ++ b) = declsOf a ++ declsOf b := by
  simp [declsOf]

theorem closedFromB_append : ∀ (a b : List PStmt) (env : List String),
    closedFromB env (a ++ b) = (closedFromB env a && closedFromB (env ++ declsOf a) b)
  | [], b, env => by simp [closedFromB, declsOf]
  | s :: a, b, env => by
    simp only [List.cons_append, closedFromB, closedFromB_append a b (env ++ s.declares)]
    simp [declsOf, Bool.and_assoc, List.append_assoc]

theorem closedFromB_mono : ∀ (p : List PStmt) (e1 e2 : List String), (∀ x ∈ e1, x ∈ e2) →
    closedFromB e1 p = true → closedFromB e2 p = true
  | [], _, _, _, _ => rfl
  | s :: r, e1, e2, hsub, h => by
    simp only [closedFromB, Bool.and_eq_true, List.all_eq_true, List.contains_iff_mem] at h ⊢
    refine ⟨fun u hu => hsub u (h.1 u hu), closedFromB_mono r (e1 ++ s.declares) (e2 ++ s.declares) ?_ h.2⟩
    intro x hx
    rcases List.mem_append.mp hx with hx | hx
    · exact List.mem_append_left _ (hsub x hx)
    · exact List.mem_append_right _ hx

/-- statements that only use symbols known beforehand form a closed block -/
theorem closedFromB_of_uses : ∀ (p : List PStmt) (env : List String), (∀ s ∈ p, ∀ u ∈ s.uses, u ∈ env) →
    closedFromB env p = true
  | [], _, _ => rfl
  | s :: r, env, h => by
    simp only [closedFromB, Bool.and_eq_true, List.all_eq_true, List.contains_iff_mem]
    refine ⟨h s List.mem_cons_self, ?_⟩
    apply closedFromB_mono r env _ (fun x hx => List.mem_append_left _ hx)
    exact closedFromB_of_uses r env (fun t ht => h t (List.mem_cons_of_mem _ ht))

/-! ### `List.mapM` in `Except`, forward direction and maps -/

theorem mapM_except_fwd {ε α β : Type} (f : α → Except ε β) :
    ∀ (l : List α) (r : List β), l.mapM f = .ok r → ∀ a ∈ l, ∃ b ∈ r, f a = .ok b
  | [], _, _, a, ha => by cases ha
  | a0 :: l, r, h, a, ha => by
    rw [mapM_except_cons] at h
    cases h0 : f a0 with
    | error e => simp [h0] at h
    | ok b0 =>
      simp only [h0] at h
      cases hl : l.mapM f with
      | error e => simp [hl] at h
      | ok bs =>
        simp only [hl, Except.ok.injEq] at h
        subst h
        rcases List.mem_cons.mp ha with rfl | ha
        · exact ⟨b0, List.mem_cons_self, h0⟩
        · obtain ⟨b, hb, hfb⟩ := mapM_except_fwd f l bs hl a ha
          exact ⟨b, List.mem_cons_of_mem _ hb, hfb⟩

/-- apply a function to a successful result -/
def exMap {ε β γ : Type} (g : β → γ) : Except ε β → Except ε γ
  | .error e => .error e
  | .ok b => .ok (g b)

/-- mapping the successful results of every call is mapping the successful result of the whole -/
theorem mapM_except_map {ε α β γ : Type} (f : α → Except ε β) (g : β → γ) :
    ∀ (l : List α), l.mapM (fun a => exMap g (f a)) = exMap (List.map g) (l.mapM f)
  | [] => by simp [List.mapM_nil, pure, Except.pure, exMap]
  | a :: l => by
    rw [mapM_except_cons, mapM_except_cons, mapM_except_map f g l]
    cases f a with
    | error e => rfl
    | ok b => cases l.mapM f <;> rfl

/-! ### sorting keeps the elements -/

theorem mem_insertByKey (k : Int) (v : String) : ∀ (l : List (Int × String)) (x : Int × String),
    x ∈ insertByKey k v l → x = (k, v) ∨ x ∈ l
  | [], x, h => by simp [insertByKey] at h; exact Or.inl h
  | (k', v') :: r, x, h => by
    simp only [insertByKey] at h
    split at h
    · rcases List.mem_cons.mp h with h | h
      · exact Or.inl h
      · exact Or.inr h
    · rcases List.mem_cons.mp h with h | h
      · exact Or.inr (h ▸ List.mem_cons_self)
      · rcases mem_insertByKey k v r x h with h | h
        · exact Or.inl h
        · exact Or.inr (List.mem_cons_of_mem _ h)

theorem mem_sortByKey : ∀ (l : List (Int × String)) (x : Int × String), x ∈ sortByKey l → x ∈ l
  | [], x, h => by simp [sortByKey] at h
  | kv :: r, x, h => by
    have h' : x ∈ insertByKey kv.1 kv.2 (sortByKey r) := by simpa [sortByKey] using h
    rcases mem_insertByKey _ _ _ _ h' with h'' | h''
    · exact h'' ▸ List.mem_cons_self
    · exact List.mem_cons_of_mem _ (mem_sortByKey r x h'')

/-- an array only lists parameter variables -/
theorem stripParArray_sub (names : List String) (begin : String) (conv : List Char → Option Int)
    (us : List String) (h : stripParArray names begin conv = .ok us) :
    ∀ u ∈ us, u ∈ names.map progName := by
  unfold stripParArray at h
  split at h
  · cases h
  · rename_i kvs hk
    simp only [Except.ok.injEq] at h
    subst h
    intro u hu
    obtain ⟨kv, hkv, rfl⟩ := List.mem_map.mp hu
    have hkv' := mem_sortByKey kvs kv hkv
    obtain ⟨n, hn, hfn⟩ := mapM_except_mem _ _ _ hk kv hkv'
    have hn' : n ∈ names := (List.mem_filter.mp hn).1
    split at hfn
    · simp only [Except.ok.injEq] at hfn
      subst hfn
      exact List.mem_map.mpr ⟨n, hn', rfl⟩
    · cases hfn

/-! ### what `make_pars` declares and uses -/

theorem parDecls_uses (i : ProgIn) : ∀ s ∈ parDecls i, s.uses = [] := by
  intro s hs
  obtain ⟨n, _, rfl⟩ := List.mem_map.mp hs
  rfl

theorem declsOf_parDecls (i : ProgIn) : declsOf (parDecls i) = (parNames i).map progName := by
  unfold parDecls declsOf
  induction parNames i with
  | nil => rfl
  | cons n r ih => simp [List.flatMap_cons, ih]

theorem splineArrays_uses (i : ProgIn) (a : List PStmt) (h : splineArrays i = .ok a) :
    ∀ s ∈ a, ∀ u ∈ s.uses, u ∈ (parNames i).map progName := by
  unfold splineArrays at h
  split at h
  · simp only [Except.ok.injEq] at h
    subst h
    intro s hs
    cases hs
  · intro s hs u hu
    obtain ⟨b, _, hfb⟩ := mapM_except_mem _ _ _ h s hs
    split at hfb
    · cases hfb
    · rename_i us hus
      simp only [Except.ok.injEq] at hfb
      subst hfb
      exact stripParArray_sub _ _ _ us hus u hu

theorem splineArrays_declares (i : ProgIn) (a : List PStmt) (h : splineArrays i = .ok a) :
    ∀ b ∈ splineBases (constNames i), progName b ++ "_SplineArr" ∈ declsOf a := by
  intro b hb
  unfold splineArrays at h
  split at h
  · rename_i he
    have : constNames i = [] := by
      unfold constNames
      cases hc : i.consts with
      | nil => rfl
      | cons x r => simp [hc] at he
    rw [this] at hb
    simp [splineBases] at hb
  · obtain ⟨s, hs, hfs⟩ := mapM_except_fwd _ _ _ h b hb
    split at hfs
    · cases hfs
    · simp only [Except.ok.injEq] at hfs
      subst hfs
      exact (mem_declsOf a _).mpr ⟨_, hs, List.mem_singleton.mpr rfl⟩

theorem fScattArray_uses (i : ProgIn) (a : List PStmt) (h : fScattArray i = .ok a) :
    ∀ s ∈ a, ∀ u ∈ s.uses, u ∈ (parNames i).map progName := by
  unfold fScattArray at h
  split at h
  · split at h
    · cases h
    · rename_i us hus
      simp only [Except.ok.injEq] at h
      subst h
      intro s hs u hu
      rw [List.mem_singleton] at hs
      subst hs
      exact stripParArray_sub _ _ _ us hus u hu
  · simp only [Except.ok.injEq] at h
    subst h
    intro s hs
    cases hs

theorem fScattArray_declares (i : ProgIn) (a : List PStmt) (h : fScattArray i = .ok a)
    (hc : (parNames i).any (strContains · "f_scatt") = true) : "f_scatt" ∈ declsOf a := by
  unfold fScattArray at h
  rw [if_pos hc] at h
  split at h
  · cases h
  · simp only [Except.ok.injEq] at h
    subst h
    simp [declsOf]

theorem isPolesArray_uses (i : ProgIn) (a : List PStmt) (h : isPolesArray i = .ok a) :
    ∀ s ∈ a, ∀ u ∈ s.uses, u ∈ (parNames i).map progName := by
  unfold isPolesArray at h
  split at h
  · split at h
    · cases h
    · rename_i us hus
      simp only [Except.ok.injEq] at h
      subst h
      intro s hs u hu
      rw [List.mem_singleton] at hs
      subst hs
      exact stripParArray_sub _ _ _ us hus u hu
  · simp only [Except.ok.injEq] at h
    subst h
    intro s hs
    cases hs

theorem isPolesArray_declares (i : ProgIn) (a : List PStmt) (h : isPolesArray i = .ok a)
    (hc : (parNames i).any (strContains · "IS_p") = true) : "IS_poles" ∈ declsOf a := by
  unfold isPolesArray at h
  rw [if_pos hc] at h
  split at h
  · cases h
  · simp only [Except.ok.injEq] at h
    subst h
    simp [declsOf]

/-- the parts of a successful `make_pars` -/
theorem parsStmts_ok (i : ProgIn) (ps : List PStmt) (h : parsStmts i = .ok ps) :
    ∃ a b c, splineArrays i = .ok a ∧ fScattArray i = .ok b ∧ isPolesArray i = .ok c ∧
      ps = parDecls i ++ a ++ b ++ c := by
  unfold parsStmts at h
  split at h
  · rename_i a b c ha hb hc
    simp only [Except.ok.injEq] at h
    exact ⟨a, b, c, ha, hb, hc, h.symm⟩
  · cases h
  · cases h
  · cases h

/-- the parameter section is closed whatever was known before -/
theorem parsStmts_closed (i : ProgIn) (ps : List PStmt) (h : parsStmts i = .ok ps) (env : List String) :
    closedFromB env ps = true := by
  obtain ⟨a, b, c, ha, hb, hc, rfl⟩ := parsStmts_ok i ps h
  rw [List.append_assoc, List.append_assoc, closedFromB_append]
  rw [Bool.and_eq_true]
  refine ⟨closedFromB_of_uses _ _ (fun s hs u hu => ?_), ?_⟩
  · rw [parDecls_uses i s hs] at hu
    cases hu
  · apply closedFromB_mono _ (declsOf (parDecls i)) _ (fun x hx => List.mem_append_right _ hx)
    apply closedFromB_of_uses
    intro s hs u hu
    rw [declsOf_parDecls]
    rcases List.mem_append.mp hs with hs | hs
    · exact splineArrays_uses i a ha s hs u hu
    · rcases List.mem_append.mp hs with hs | hs
      · exact fScattArray_uses i b hb s hs u hu
      · exact isPolesArray_uses i c hc s hs u hu

/-! ### the introduction -/

theorem containers_declared (i : ProgIn) : ∀ c ∈ containers, c ∈ declsOf (introStmts i) := by
  intro c hc
  rw [mem_declsOf]
  refine ⟨{ sect := "intro.container", declares := [c], uses := [] }, ?_, List.mem_singleton.mpr rfl⟩
  unfold introStmts
  simp only [List.mem_append, List.mem_map]
  exact Or.inl (Or.inl (Or.inl ⟨c, hc, rfl⟩))

theorem resonance_declared (i : ProgIn) (p : PartInfo) (hp : p ∈ i.allParts) (he : inEvent i p = false) :
    p.prog ++ "_M" ∈ declsOf (introStmts i) ∧ p.prog ++ "_W" ∈ declsOf (introStmts i) := by
  have hr : p ∈ resonances i := by
    unfold resonances
    exact List.mem_filter.mpr ⟨hp, by simp [he]⟩
  constructor
  · rw [mem_declsOf]
    refine ⟨{ sect := "intro.res", declares := [p.prog ++ "_M"], uses := [] }, ?_, List.mem_singleton.mpr rfl⟩
    unfold introStmts
    simp only [List.mem_append, List.mem_flatMap]
    exact Or.inl (Or.inr ⟨p, hr, by simp [resDecls]⟩)
  · rw [mem_declsOf]
    refine ⟨{ sect := "intro.res", declares := [p.prog ++ "_W"], uses := [] }, ?_, List.mem_singleton.mpr rfl⟩
    unfold introStmts
    simp only [List.mem_append, List.mem_flatMap]
    exact Or.inl (Or.inr ⟨p, hr, by simp [resDecls]⟩)

/-- the introduction is closed: the masses handed to the decay information are the constants written
    just before -/
theorem introStmts_closed (i : ProgIn) : closedFromB [] (introStmts i) = true := by
  unfold introStmts
  rw [closedFromB_append, Bool.and_eq_true]
  constructor
  · apply closedFromB_of_uses
    intro s hs u hu
    simp only [List.mem_append, List.mem_map, List.mem_flatMap] at hs
    rcases hs with (⟨c, _, rfl⟩ | ⟨p, _, rfl⟩) | ⟨p, _, hs⟩
    · cases hu
    · cases hu
    · simp only [resDecls, List.mem_cons, List.not_mem_nil, or_false] at hs
      rcases hs with rfl | rfl <;> cases hu
  · simp only [closedFromB, Bool.and_true, List.all_eq_true, List.contains_iff_mem, List.nil_append]
    intro u hu
    obtain ⟨p, hp, rfl⟩ := List.mem_map.mp hu
    rw [declsOf_append, declsOf_append]
    apply List.mem_append_left
    apply List.mem_append_right
    rw [mem_declsOf]
    refine ⟨{ sect := "intro.const", declares := [strUpper p.prog], uses := [] }, ?_, List.mem_singleton.mpr rfl⟩
    exact List.mem_map.mpr ⟨p, by unfold eventSet; exact List.mem_eraseDups.mpr hp, rfl⟩

/-! ### the lineshapes of an amplitude come from its resonances -/

theorem linesFor_mem (top : Topology) (verts : List GNodeA) (p : List Nat) (blk : List LsOut)
    (h : linesFor top verts p = .ok blk) :
    ∀ lo ∈ blk, ∃ v ∈ verts, lo.prog = v.prog ∧ lo.name = v.name ∧ lsKind v.ls = .ok lo.kind := by
  unfold linesFor at h
  split at h
  · cases h
  · intro lo hlo
    obtain ⟨iv, hiv, hf⟩ := mapM_except_mem _ _ _ h lo hlo
    have hv : iv.2 ∈ verts := (List.of_mem_zip hiv).2
    refine ⟨iv.2, hv, ?_⟩
    split at hf
    · rename_i kind L m hk _ _
      simp only [Except.ok.injEq] at hf
      subst hf
      exact ⟨rfl, rfl, hk⟩
    · cases hf
    · cases hf
    · cases hf

theorem emitAmp_lineBlock (table : List (String × List String)) (n : GNodeA) (fs : List String) (a : AmpOut)
    (h : emitAmp table n fs = .ok a) :
    ∀ lo ∈ a.lineBlock, ∃ v ∈ vertexes n, lo.prog = v.prog ∧ lo.name = v.name ∧ lsKind v.ls = .ok lo.kind := by
  unfold emitAmp at h
  split at h
  · cases h
  · rename_i perms _
    split at h
    · cases h
    · cases h
    · rename_i sfs top _ _
      split at h
      · cases h
      · rename_i blocks hb
        simp only [Except.ok.injEq] at h
        subst h
        intro lo hlo
        obtain ⟨blk, hblk, hlo'⟩ := List.mem_flatten.mp hlo
        obtain ⟨p, _, hp⟩ := mapM_except_mem _ _ _ hb blk hblk
        exact linesFor_mem top (vertexes n) p blk hp lo hlo'

end DL
