/-
Helper lemmas on `ssort` (Python `sorted` on strings) and on ordered dictionaries.  Core Lean only.
-/
import DL.Model.Chain
namespace DL

theorem sleb_trans (a b c : String) : sleb a b = true → sleb b c = true → sleb a c = true := by
  simp only [sleb, decide_eq_true_eq]; exact String.le_trans

theorem sleb_total (a b : String) : (sleb a b || sleb b a) = true := by
  simp only [sleb, Bool.or_eq_true, decide_eq_true_eq]; exact String.le_total a b

theorem ssort_perm (l : List String) : (ssort l).Perm l := List.mergeSort_perm l sleb

theorem ssort_sorted (l : List String) : List.Pairwise (fun a b => sleb a b = true) (ssort l) :=
  List.pairwise_mergeSort sleb_trans sleb_total l

/-- sorting depends only on the multiset -/
theorem ssort_eq_of_perm {l₁ l₂ : List String} (h : l₁.Perm l₂) : ssort l₁ = ssort l₂ := by
  apply List.Perm.eq_of_pairwise (le := fun a b => sleb a b = true)
  · intro a b _ _ hab hba
    simp only [sleb, decide_eq_true_eq] at hab hba
    exact String.le_antisymm hab hba
  · exact ssort_sorted l₁
  · exact ssort_sorted l₂
  · exact (ssort_perm l₁).trans (h.trans (ssort_perm l₂).symm)

theorem ssort_idem (l : List String) : ssort (ssort l) = ssort l :=
  ssort_eq_of_perm (ssort_perm l)

theorem ssort_length (l : List String) : (ssort l).length = l.length := (ssort_perm l).length_eq

theorem ssort_count (l : List String) (a : String) : (ssort l).count a = l.count a :=
  (ssort_perm l).count_eq a

/-! ### ordered dictionaries -/

theorem dset_of_not_mem {V : Type} (d : List (String × V)) (k : String) (v : V)
    (h : k ∉ dkeys d) : dset d k v = d ++ [(k, v)] := by
  induction d with
  | nil => rfl
  | cons p r ih =>
    obtain ⟨k', v'⟩ := p
    simp only [dkeys, List.map_cons, List.mem_cons, not_or] at h
    have hne : ¬ k' = k := fun e => h.1 e.symm
    simp only [dset, hne, if_false, List.cons_append]
    rw [ih]; simpa [dkeys] using h.2

theorem dkeys_append {V : Type} (a b : List (String × V)) : dkeys (a ++ b) = dkeys a ++ dkeys b := by
  simp [dkeys]

/-- `dict.update` with fresh, pairwise different keys appends them in order -/
theorem foldl_dset_fresh {V : Type} (u base : List (String × V))
    (hn : (dkeys u).Nodup) (hd : ∀ k ∈ dkeys u, k ∉ dkeys base) :
    u.foldl (fun acc (kv : String × V) => dset acc kv.1 kv.2) base = base ++ u := by
  induction u generalizing base with
  | nil => simp
  | cons p r ih =>
    obtain ⟨k, v⟩ := p
    simp only [dkeys, List.map_cons, List.nodup_cons] at hn
    simp only [List.foldl_cons]
    rw [dset_of_not_mem base k v (hd k (by simp [dkeys]))]
    rw [ih]
    · simp
    · simpa [dkeys] using hn.2
    · intro k' hk'
      rw [dkeys_append]
      simp only [List.mem_append, not_or]
      refine ⟨hd k' (by simp [dkeys] at hk' ⊢; exact Or.inr hk'), ?_⟩
      simp only [dkeys, List.map_cons, List.map_nil, List.mem_singleton]
      intro e; subst e
      exact hn.1 (by simpa [dkeys] using hk')

end DL
