/-
A seeded generator of document layouts (`ReadRT.DocLayoutD`) for the correspondence check of the
reader round-trip theorems (`C02_read_layout_decay`): the driver renders a document under the layout
drawn from a seed and reports whether the hypotheses of the theorem hold; the harness gives the very
same text to the real parser.  Executable, import-free apart from the lemma files that define the
layout types; no theorems here.
-/
import DL.Lemmas.ReadRTDecay
namespace DL
namespace LayoutGen
open ReadRT

abbrev G := StateM Nat

/-- a 64-bit linear congruential step; the high bits are returned -/
def next : G Nat := do
  let s ← get
  let s' := (s * 6364136223846793005 + 1442695040888963407) % 18446744073709551616
  set s'
  pure (s' / 4294967296)

def below (n : Nat) : G Nat := do
  let x ← next
  pure (if n == 0 then 0 else x % n)

def chance (num den : Nat) : G Bool := do
  let x ← below den
  pure (decide (x < num))

def listOf {α : Type} (n : Nat) (g : G α) : G (List α) :=
  match n with
  | 0 => pure []
  | k + 1 => do
    let x ← g
    let r ← listOf k g
    pure (x :: r)

def blankChar : G Char := do
  let t ← chance 1 4
  pure (if t then '\t' else ' ')

def blanks (lo hi : Nat) : G (List Char) := do
  let n ← below (hi - lo + 1)
  listOf (lo + n) blankChar

def commentChars : List Char := "abc XYZ 019 #;,:=.-+*'\"()\t".toList

def comment : G (Option (List Char)) := do
  let yes ← chance 1 3
  if yes then
    let n ← below 8
    let cs ← listOf n (do let i ← below commentChars.length; pure (commentChars.getD i 'c'))
    pure (some cs)
  else pure none

def bline : G BLine := do
  let ind ← blanks 0 2
  let c ← comment
  let crlf ← chance 1 4
  pure { ind := ind, comment := c, crlf := crlf }

def slayout : G SLayout := do
  let plain ← chance 1 3
  if plain then pure {} else
  let indent ← blanks 0 3
  let ng ← below 7
  let gaps ← listOf ng (blanks 1 3)
  let trail ← blanks 0 2
  let c ← comment
  let crlf ← chance 1 4
  let nf ← below 3
  let follow ← listOf nf bline
  let no ← below 5
  let opGaps ← listOf no (blanks 0 2)
  pure { indent := indent, gaps := gaps, trail := trail, comment := c, crlf := crlf, follow := follow, opGaps := opGaps }

def sepItem : G SepItem := do
  let k ← below 10
  if k < 5 then do
    let c ← blankChar
    pure (.blank c)
  else if k < 7 then pure .comma
  else do
    let c ← comment
    let crlf ← chance 1 4
    pure (.newline c crlf)

def sepNonEmpty : G Sep := do
  let n ← below 3
  listOf (n + 1) sepItem

def llayout : G LLayout := do
  let s ← slayout
  let plain ← chance 1 3
  if plain then pure { toSLayout := s } else
  let semiGap ← blanks 0 2
  let np ← below 5
  let pseps ← listOf np sepNonEmpty
  let ne ← below 3
  let pend ← listOf ne sepItem
  let ns ← below 3
  let semis ← listOf ns (blanks 0 2)
  pure { toSLayout := s, semiGap := semiGap, pseps := pseps, pend := pend, semis := semis }

def dlayout (s : Stmt) : G DLayout := do
  let main ← llayout
  let n := match s with
    | .decay _ lns => lns.length
    | _ => 0
  let lines ← listOf n llayout
  let close ← slayout
  pure { main := main, lines := lines, close := close }

def dlayouts : Doc → G (List DLayout)
  | [] => pure []
  | s :: d => do
    let x ← dlayout s
    let r ← dlayouts d
    pure (x :: r)

def docLayout (d : Doc) : G DocLayoutD := do
  let np ← below 3
  let pre ← listOf np bline
  let stmts ← dlayouts d
  let e ← chance 1 4
  let endLine ← if e then (do let s ← slayout; pure (some s)) else pure none
  pure { pre := pre, stmts := stmts, endLine := endLine }

/-- the layout drawn from a seed for a document -/
def layoutOf (seed : Nat) (d : Doc) : DocLayoutD := (docLayout d |>.run seed).1

/-- the text of `d` under the layout of `seed`, and whether the hypotheses of
    `C02_read_layout_decay` hold for it (grammar, layout, every statement) -/
def renderSeeded (g : RGrammar) (seed : Nat) (d : Doc) : String × Bool × Bool × Bool :=
  let ℓ := layoutOf seed d
  (String.ofList (renderD ℓ d), decide (GoodDecayGrammar g), decide (GoodLayoutD ℓ), decide (∀ s ∈ d, StmtOK g s))

end LayoutGen
end DL
