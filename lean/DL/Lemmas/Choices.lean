/-
Decay paths as *choices*: a specification of `_expand_decay_modes` (`expand`,
DL/Model/Descriptor.lean).  A choice picks one decay line for a particle and, recursively, one
choice for every daughter of that line that itself decays.

* `allChoices c`   : the enumeration (lines in file order, first daughter varying slowest);
* `IsChoice c x`   : the declarative description of a well-formed choice;
* `renderChoice`   : the descriptor a choice spells out.

Proved here: `expand = map renderChoice allChoices`, `IsChoice ↔ ∈ allChoices`, `allChoices` has no
repeats.  The final theorems are restated in DL/Props/C10.lean.
-/
import Mathlib.Data.List.Nodup
import DL.Model.Descriptor
import DL.Lemmas.Cartesian
namespace DL

/-- the line chosen for a particle and, for every daughter of that line, `none` (stable: a plain
    name or a sub-chain with an empty table) or `some` choice for the daughter -/
inductive Choice where
  | mk (line : Nat) (subs : List (Option Choice))
  deriving Inhabited

def Choice.line : Choice → Nat
  | .mk i _ => i
def Choice.subs : Choice → List (Option Choice)
  | .mk _ s => s

/-- the same choice seen from a table with one more line in front -/
def Choice.bump : Choice → Choice
  | .mk i s => .mk (i + 1) s

theorem Choice.bump_injective : Function.Injective Choice.bump := by
  intro a b h
  cases a; cases b
  simp only [Choice.bump, Choice.mk.injEq] at h
  obtain ⟨h1, h2⟩ := h
  simp only [Choice.mk.injEq]
  exact ⟨by omega, h2⟩

variable {β : Type}

/-! ### the enumeration -/

mutual
  /-- all choices for a particle: for each line (in order) all combinations of the daughters'
      choices, first daughter varying slowest -/
  def allChoices : Chain β → List Choice
    | .mk _ modes => choicesModes modes
  /-- line 0 is the head of the list; the choices of the remaining lines are shifted by one -/
  def choicesModes : List (CMode β) → List Choice
    | [] => []
    | (_, fs) :: ms => (choicesFs fs).map (Choice.mk 0) ++ (choicesModes ms).map Choice.bump
  /-- the product of the per-daughter options; a plain name or a sub-chain without lines has the
      single option `none` -/
  def choicesFs : List (Item β) → List (List (Option Choice))
    | [] => [[]]
    | .inl _ :: r => (choicesFs r).map (none :: ·)
    | .inr c :: r =>
      let opts := allChoices c
      let opts := if opts.isEmpty then [none] else opts.map some
      opts.flatMap (fun d => (choicesFs r).map (d :: ·))
end

/-- the options of one daughter -/
def daughterOpts : Item β → List (Option Choice)
  | .inl _ => [none]
  | .inr c => if (allChoices c).isEmpty then [none] else (allChoices c).map some

/-- `choicesFs` is `itertools.product` of the per-daughter options -/
theorem choicesFs_eq_cartesian : ∀ fs : List (Item β), choicesFs fs = cartesian (fs.map daughterOpts)
  | [] => by simp [choicesFs, cartesian]
  | .inl _ :: r => by
    simp [choicesFs, cartesian, daughterOpts, choicesFs_eq_cartesian r]
  | .inr c :: r => by
    simp only [choicesFs, cartesian, daughterOpts, List.map_cons, choicesFs_eq_cartesian r]

/-! ### the declarative description -/

mutual
  /-- `x` is a complete decay path of `c` -/
  def IsChoice : Chain β → Choice → Prop
    | .mk _ modes, x => IsChoiceModes modes x.line x.subs
  /-- the line index is in range, and the sub-choices fit the daughters of that line -/
  def IsChoiceModes : List (CMode β) → Nat → List (Option Choice) → Prop
    | [], _, _ => False
    | (_, fs) :: _, 0, subs => IsChoiceFs fs subs
    | _ :: ms, i + 1, subs => IsChoiceModes ms i subs
  /-- one entry per daughter: `none` exactly for the stable ones (plain names, sub-chains without
      lines), `some s` with `s` a choice of the daughter for the decaying ones -/
  def IsChoiceFs : List (Item β) → List (Option Choice) → Prop
    | [], ss => ss = []
    | .inl _ :: r, ss => ∃ t, ss = none :: t ∧ IsChoiceFs r t
    | .inr c :: r, ss =>
      ∃ o t, ss = o :: t ∧ IsChoiceFs r t ∧
        (match o with
         | none => c.modes = []
         | some s => c.modes ≠ [] ∧ IsChoice c s)
end

/-- what is asked of one daughter -/
def DaughterOK : Item β → Option Choice → Prop
  | .inl _, o => o = none
  | .inr c, none => c.modes = []
  | .inr c, some s => c.modes ≠ [] ∧ IsChoice c s

/-! ### the descriptor of a choice -/

mutual
  /-- the descriptor a choice spells out: the chosen line of the particle under its aliased name,
      every decaying daughter replaced by its own (sub-pattern) descriptor -/
  def renderChoice (fmt : Fmt) (al : List (String × String)) (top : Bool) : Chain β → Choice → String
    | .mk m modes, x => renderModes fmt al top (aliasOf al m) modes x.line x.subs
  def renderModes (fmt : Fmt) (al : List (String × String)) (top : Bool) (m : String) :
      List (CMode β) → Nat → List (Option Choice) → String
    | [], _, _ => ""
    | (_, fs) :: _, 0, subs => fmt.render m (" ".intercalate (ssort (renderFs fmt al fs subs))) top
    | _ :: ms, i + 1, subs => renderModes fmt al top m ms i subs
  /-- the daughters of the line: a plain name as it is, a stable sub-chain under its aliased name,
      a decaying sub-chain as the descriptor of its choice -/
  def renderFs (fmt : Fmt) (al : List (String × String)) : List (Item β) → List (Option Choice) → List String
    | [], _ => []
    | .inl s :: r, ss => s :: renderFs fmt al r ss.tail
    | .inr c :: r, ss =>
      (match ss.head? with
       | some (some x) => renderChoice fmt al false c x
       | _ => aliasOf al c.mother) :: renderFs fmt al r ss.tail
end

/-! ### `expand` is the enumeration, rendered -/

mutual
  theorem expand_eq_choices (fmt : Fmt) (al : List (String × String)) (top : Bool) :
      ∀ c : Chain β, expand fmt al top c = (allChoices c).map (renderChoice fmt al top c)
    | .mk m modes => by
      simp only [expand, allChoices]
      rw [expandModes_eq_choices fmt al top (aliasOf al m) modes]
      apply List.map_congr_left
      intro x _
      simp only [renderChoice]
  theorem expandModes_eq_choices (fmt : Fmt) (al : List (String × String)) (top : Bool) (m : String) :
      ∀ ms : List (CMode β), expandModes fmt al top m ms =
        (choicesModes ms).map (fun x => renderModes fmt al top m ms x.line x.subs)
    | [] => by simp [expandModes, choicesModes]
    | (b, fs) :: ms => by
      simp only [expandModes, choicesModes, List.map_append, List.map_map]
      rw [expandFs_eq_choices fmt al fs, expandModes_eq_choices fmt al top m ms, List.map_map]
      congr 1
      apply List.map_congr_left
      intro x _
      cases x with
      | mk i s => simp only [Function.comp, Choice.bump, Choice.line, Choice.subs, renderModes]
  theorem expandFs_eq_choices (fmt : Fmt) (al : List (String × String)) :
      ∀ fs : List (Item β), expandFs fmt al fs = (choicesFs fs).map (renderFs fmt al fs)
    | [] => by simp [expandFs, choicesFs, renderFs]
    | .inl s :: r => by
      simp only [expandFs, choicesFs, List.map_map]
      rw [expandFs_eq_choices fmt al r, List.map_map]
      apply List.map_congr_left
      intro ss _
      simp only [Function.comp, renderFs, List.tail_cons]
    | .inr c :: r => by
      simp only [expandFs, choicesFs]
      rw [expandFs_eq_choices fmt al r, expand_eq_choices fmt al false c]
      cases hc : allChoices c with
      | nil =>
        simp only [List.map_nil, List.isEmpty_nil, if_true, List.flatMap_cons, List.flatMap_nil,
          List.append_nil, List.map_map]
        apply List.map_congr_left
        intro ss _
        simp only [Function.comp, renderFs, List.head?_cons, List.tail_cons]
      | cons x xs =>
        have h1 : ((x :: xs).map (renderChoice fmt al false c)).isEmpty = false := rfl
        have h2 : (x :: xs).isEmpty = false := rfl
        simp only [h1, h2, Bool.false_eq_true, if_false]
        simp only [List.flatMap_map, List.map_flatMap]
        apply List.flatMap_congr
        intro y _
        simp only [List.map_map]
        apply List.map_congr_left
        intro ss _
        simp only [Function.comp, renderFs, List.head?_cons, List.tail_cons]
end

/-! ### emptiness -/

theorem choicesFs_ne_nil : ∀ fs : List (Item β), choicesFs fs ≠ []
  | [] => by simp [choicesFs]
  | .inl _ :: r => by
    simp only [choicesFs, ne_eq, List.map_eq_nil_iff]
    exact choicesFs_ne_nil r
  | .inr c :: r => by
    have hr := choicesFs_ne_nil r
    obtain ⟨t, ts, ht⟩ := List.exists_cons_of_ne_nil hr
    simp only [choicesFs, ht]
    cases allChoices c with
    | nil => simp
    | cons x xs => simp

/-- a particle has no choice exactly when its table has no lines -/
theorem allChoices_eq_nil (c : Chain β) : allChoices c = [] ↔ c.modes = [] := by
  cases c with
  | mk m modes =>
    cases modes with
    | nil => simp [allChoices, choicesModes, Chain.modes]
    | cons md ms =>
      obtain ⟨b, fs⟩ := md
      have := choicesFs_ne_nil fs
      simp [allChoices, choicesModes, Chain.modes, this]

/-! ### completeness -/

mutual
  theorem isChoice_iff_mem : ∀ (c : Chain β) (x : Choice), IsChoice c x ↔ x ∈ allChoices c
    | .mk m modes, .mk i s => by
      simp only [IsChoice, allChoices, Choice.line, Choice.subs]
      exact isChoiceModes_iff_mem modes i s
  theorem isChoiceModes_iff_mem : ∀ (ms : List (CMode β)) (i : Nat) (s : List (Option Choice)),
      IsChoiceModes ms i s ↔ Choice.mk i s ∈ choicesModes ms
    | [], _, _ => by simp [IsChoiceModes, choicesModes]
    | (_, fs) :: ms, 0, s => by
      simp only [IsChoiceModes, choicesModes, List.mem_append, List.mem_map]
      rw [isChoiceFs_iff_mem fs s]
      constructor
      · intro h; exact Or.inl ⟨s, h, rfl⟩
      · rintro (⟨a, ha, h⟩ | ⟨a, -, ha⟩)
        · cases h; exact ha
        · cases a; simp [Choice.bump] at ha
    | (_, fs) :: ms, i + 1, s => by
      simp only [IsChoiceModes, choicesModes, List.mem_append, List.mem_map]
      rw [isChoiceModes_iff_mem ms i s]
      constructor
      · intro h; exact Or.inr ⟨_, h, rfl⟩
      · rintro (⟨a, -, h0⟩ | ⟨a, ha, hb⟩)
        · cases h0
        · cases a with
          | mk j t =>
            simp only [Choice.bump, Choice.mk.injEq] at hb
            obtain ⟨hj, rfl⟩ := hb
            have : j = i := by omega
            subst this; exact ha
  theorem isChoiceFs_iff_mem : ∀ (fs : List (Item β)) (s : List (Option Choice)),
      IsChoiceFs fs s ↔ s ∈ choicesFs fs
    | [], s => by simp [IsChoiceFs, choicesFs]
    | .inl _ :: r, s => by
      simp only [IsChoiceFs, choicesFs, List.mem_map]
      constructor
      · rintro ⟨t, rfl, ht⟩; exact ⟨t, (isChoiceFs_iff_mem r t).mp ht, rfl⟩
      · rintro ⟨t, ht, rfl⟩; exact ⟨t, rfl, (isChoiceFs_iff_mem r t).mpr ht⟩
    | .inr c :: r, s => by
      simp only [IsChoiceFs, choicesFs, List.mem_flatMap, List.mem_map]
      have hnil := allChoices_eq_nil c
      constructor
      · rintro ⟨o, t, rfl, ht, ho⟩
        refine ⟨o, ?_, t, (isChoiceFs_iff_mem r t).mp ht, rfl⟩
        cases o with
        | none =>
          simp only at ho
          simp [hnil.mpr ho]
        | some x =>
          simp only at ho
          have hx := (isChoice_iff_mem c x).mp ho.2
          have hne : (allChoices c).isEmpty = false := by
            cases h : allChoices c with
            | nil => exact absurd (hnil.mp h) ho.1
            | cons _ _ => rfl
          simp only [hne, Bool.false_eq_true, if_false, List.mem_map]
          exact ⟨x, hx, rfl⟩
      · rintro ⟨o, ho, t, ht, rfl⟩
        refine ⟨o, t, rfl, (isChoiceFs_iff_mem r t).mpr ht, ?_⟩
        cases h : allChoices c with
        | nil =>
          simp only [h, List.isEmpty_nil, if_true, List.mem_singleton] at ho
          subst ho
          exact hnil.mp h
        | cons y ys =>
          have hne : (y :: ys).isEmpty = false := rfl
          simp only [h, hne, Bool.false_eq_true, if_false, List.mem_map] at ho
          obtain ⟨x, hx, rfl⟩ := ho
          refine ⟨fun h0 => ?_, (isChoice_iff_mem c x).mpr (h ▸ hx)⟩
          rw [hnil.mpr h0] at h; cases h
end

/-! ### no repeats -/

mutual
  theorem allChoices_nodup : ∀ c : Chain β, (allChoices c).Nodup
    | .mk _ modes => by
      simp only [allChoices]; exact choicesModes_nodup modes
  theorem choicesModes_nodup : ∀ ms : List (CMode β), (choicesModes ms).Nodup
    | [] => by simp [choicesModes]
    | (_, fs) :: ms => by
      simp only [choicesModes]
      rw [List.nodup_append]
      refine ⟨?_, ?_, ?_⟩
      · rw [choicesFs_eq_cartesian]
        refine (cartesian_nodup _ (daughterOpts_nodup fs)).map ?_
        intro a b h; simpa using h
      · exact (choicesModes_nodup ms).map Choice.bump_injective
      · intro a ha b hb hab
        simp only [List.mem_map] at ha hb
        obtain ⟨s, -, rfl⟩ := ha
        obtain ⟨y, -, rfl⟩ := hb
        cases y; simp [Choice.bump] at hab
  theorem daughterOpts_nodup : ∀ fs : List (Item β), ∀ l ∈ fs.map daughterOpts, l.Nodup
    | [] => by simp
    | .inl _ :: r => by
      intro l hl
      simp only [List.map_cons, List.mem_cons] at hl
      rcases hl with rfl | hl
      · simp [daughterOpts]
      · exact daughterOpts_nodup r l hl
    | .inr c :: r => by
      intro l hl
      simp only [List.map_cons, List.mem_cons] at hl
      rcases hl with rfl | hl
      · simp only [daughterOpts]
        split
        · simp
        · exact (allChoices_nodup c).map (fun _ _ h => Option.some.inj h)
      · exact daughterOpts_nodup r l hl
end

theorem choicesFs_nodup (fs : List (Item β)) : (choicesFs fs).Nodup := by
  rw [choicesFs_eq_cartesian]; exact cartesian_nodup _ (daughterOpts_nodup fs)

/-! ### the declarative description, position by position -/

theorem isChoiceFs_iff_pointwise : ∀ (fs : List (Item β)) (s : List (Option Choice)),
    IsChoiceFs fs s ↔ Pointwise DaughterOK fs s
  | [], s => by cases s <;> simp [IsChoiceFs, Pointwise]
  | .inl _ :: r, [] => by simp [IsChoiceFs, Pointwise]
  | .inl _ :: r, o :: t => by
    simp only [IsChoiceFs, Pointwise, DaughterOK, List.cons.injEq]
    rw [← isChoiceFs_iff_pointwise r t]
    constructor
    · rintro ⟨t', ⟨rfl, rfl⟩, h⟩; exact ⟨rfl, h⟩
    · rintro ⟨rfl, h⟩; exact ⟨t, ⟨rfl, rfl⟩, h⟩
  | .inr c :: r, [] => by simp [IsChoiceFs, Pointwise]
  | .inr c :: r, o :: t => by
    simp only [IsChoiceFs, Pointwise, List.cons.injEq]
    rw [← isChoiceFs_iff_pointwise r t]
    constructor
    · rintro ⟨o', t', ⟨rfl, rfl⟩, h, ho⟩
      refine ⟨?_, h⟩
      cases o <;> simpa [DaughterOK] using ho
    · rintro ⟨ho, h⟩
      refine ⟨o, t, ⟨rfl, rfl⟩, h, ?_⟩
      cases o <;> simpa [DaughterOK] using ho

theorem isChoiceModes_iff_get : ∀ (ms : List (CMode β)) (i : Nat) (s : List (Option Choice)),
    IsChoiceModes ms i s ↔ ∃ md, ms[i]? = some md ∧ IsChoiceFs md.2 s
  | [], _, _ => by simp [IsChoiceModes]
  | (_, fs) :: ms, 0, s => by simp [IsChoiceModes]
  | (_, fs) :: ms, i + 1, s => by
    simp only [IsChoiceModes, List.getElem?_cons_succ]
    exact isChoiceModes_iff_get ms i s

/-- `IsChoice` read position by position: the line index points at a line of the table, and the
    sub-choices match the daughters of that line one by one (same number, `none` exactly for the
    stable daughters, a choice of the daughter for the decaying ones) -/
theorem isChoice_iff (m : String) (modes : List (CMode β)) (i : Nat) (s : List (Option Choice)) :
    IsChoice (.mk m modes) (.mk i s) ↔
      ∃ b fs, modes[i]? = some (b, fs) ∧ Pointwise DaughterOK fs s := by
  simp only [IsChoice, Choice.line, Choice.subs]
  rw [isChoiceModes_iff_get]
  constructor
  · rintro ⟨⟨b, fs⟩, h, hs⟩; exact ⟨b, fs, h, (isChoiceFs_iff_pointwise fs s).mp hs⟩
  · rintro ⟨b, fs, h, hs⟩; exact ⟨(b, fs), h, (isChoiceFs_iff_pointwise fs s).mpr hs⟩

end DL
