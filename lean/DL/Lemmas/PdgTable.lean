/-
Tools for deciding facts about the regenerated name maps (`PDG2EvtGenNameMap`, `EvtGen2PDGNameMap`)
cheaply in the kernel.

Measured on this toolchain: `String.toList` (hence `<` on strings) costs the kernel ≈ 30 ms per
string, string equality and the UTF-8 bytes of a string ≈ 1 ms, and one step of a structural
recursion ≈ 50 µs.  So every name is turned ONCE into a natural number (`skey`, from its bytes),
the numbers are put into a binary search tree (`KTree`), and
* lookups go through the tree (≈ 20 steps instead of ≈ 500); the entry found is only a candidate:
  it is confirmed by one string equality and by `KTree.find_build_mem` (it is a member of the
  original list), so no invariant of the tree is needed for soundness;
* "the keys of the map are pairwise different" is decided by flattening the tree in order and
  checking that adjacent numbers increase strictly (`distinctKeys`), which is linear; the flattened
  tree is a permutation of the list (`KTree.build_perm`).
* lookups of rows by PDG ID (`rowOfId`, a linear `find?` over Int comparisons in the model, which
  alone cost the kernel ≈ 50 s and 5 GB over the table) go through a tree over `ikey id` and are
  exact: with strictly sorted in-order contents a failed lookup proves absence
  (`KTree.find_none_of_sorted`), a successful one returns the only row with that ID
  (`rowOfId_eq_find`; `ikey` is injective).
Nothing here needs `skey` to be injective: different numbers mean different names, and if two names
ever got the same number the checks would fail (loudly), not lie.
Import-free (core only).
-/
import DL.Model.Conj
namespace DL

/-- a number computed from the UTF-8 bytes of a name (cheap for the kernel, unlike `String.toList`);
    the scrambled high part only serves to keep the search trees balanced -/
def skey (s : String) : Nat :=
  let k := s.toByteArray.data.toList.foldl (fun a b => a * 256 + b.toNat) 0
  ((k * 2654435761) % 4294967296) * 2 ^ 512 + k

inductive KTree (α : Type) where
  | leaf : KTree α
  | node : KTree α → Nat → α → KTree α → KTree α

namespace KTree
variable {α : Type}

def insert : KTree α → Nat → α → KTree α
  | .leaf, q, x => .node .leaf q x .leaf
  | .node l k v r, q, x =>
    bif Nat.blt q k then .node (l.insert q x) k v r else .node l k v (r.insert q x)

def find : KTree α → Nat → Option α
  | .leaf, _ => none
  | .node l k v r, q =>
    bif Nat.blt q k then l.find q else bif Nat.blt k q then r.find q else some v

/-- in-order contents, in front of `acc` -/
def toListAcc : KTree α → List (Nat × α) → List (Nat × α)
  | .leaf, acc => acc
  | .node l k v r, acc => l.toListAcc ((k, v) :: r.toListAcc acc)

def toList : KTree α → List (Nat × α)
  | .leaf => []
  | .node l k v r => l.toList ++ (k, v) :: r.toList

def build (f : α → Nat) (l : List α) : KTree α := l.foldl (fun t x => t.insert (f x) x) .leaf

theorem toListAcc_eq (t : KTree α) : ∀ acc, t.toListAcc acc = t.toList ++ acc := by
  induction t with
  | leaf => intro acc; rfl
  | node l k v r ihl ihr =>
    intro acc
    simp only [toListAcc, toList, ihl, ihr, List.append_assoc, List.cons_append]

theorem toList_insert_perm (t : KTree α) (q : Nat) (x : α) :
    (t.insert q x).toList.Perm ((q, x) :: t.toList) := by
  induction t with
  | leaf => simp [insert, toList]
  | node l k v r ihl ihr =>
    simp only [insert]
    cases Nat.blt q k with
    | true =>
      simp only [cond_true, toList]
      exact (ihl.append_right _).trans (by simp)
    | false =>
      simp only [cond_false, toList]
      have h1 : (l.toList ++ (k, v) :: (r.insert q x).toList).Perm
          (l.toList ++ (k, v) :: (q, x) :: r.toList) :=
        List.Perm.append_left _ (List.Perm.cons _ ihr)
      refine h1.trans ?_
      have h2 : (l.toList ++ (k, v) :: (q, x) :: r.toList).Perm
          (l.toList ++ (q, x) :: (k, v) :: r.toList) :=
        List.Perm.append_left _ (List.Perm.swap _ _ _)
      exact h2.trans List.perm_middle

theorem foldl_insert_perm (f : α → Nat) : ∀ (l : List α) (t : KTree α),
    (l.foldl (fun t x => t.insert (f x) x) t).toList.Perm (l.map (fun x => (f x, x)) ++ t.toList)
  | [], t => by simp
  | x :: xs, t => by
    simp only [List.foldl_cons, List.map_cons, List.cons_append]
    refine (foldl_insert_perm f xs (t.insert (f x) x)).trans ?_
    refine (List.Perm.append_left _ (toList_insert_perm t (f x) x)).trans ?_
    exact List.perm_middle

theorem build_perm (f : α → Nat) (l : List α) :
    (build f l).toList.Perm (l.map (fun x => (f x, x))) := by
  have h := foldl_insert_perm f l .leaf
  simpa [build, toList] using h

/-- a lookup returns an entry stored under exactly the key asked for -/
theorem find_key : ∀ (t : KTree α) (q : Nat) (v : α), t.find q = some v → (q, v) ∈ t.toList
  | .leaf, _, _, h => by simp [find] at h
  | .node l k w r, q, v, h => by
    simp only [find] at h
    cases h1 : Nat.blt q k with
    | true =>
      rw [h1] at h; simp only [cond_true] at h
      have := find_key l q v h
      simp [toList, this]
    | false =>
      rw [h1] at h; simp only [cond_false] at h
      cases h2 : Nat.blt k q with
      | true =>
        rw [h2] at h; simp only [cond_true] at h
        have := find_key r q v h
        simp [toList, this]
      | false =>
        rw [h2] at h; simp only [cond_false, Option.some.injEq] at h
        subst h
        have e : q = k := by
          have a : ¬ q < k := by rw [← Nat.blt_eq]; simp [h1]
          have b : ¬ k < q := by rw [← Nat.blt_eq]; simp [h2]
          omega
        subst e
        simp [toList]

theorem find_mem_toList (t : KTree α) (q : Nat) (v : α) (h : t.find q = some v) :
    ∃ k, (k, v) ∈ t.toList := ⟨q, find_key t q v h⟩

/-- in a tree whose in-order contents are strictly sorted, a failed lookup proves absence -/
theorem find_none_of_sorted : ∀ (t : KTree α) (q : Nat),
    t.toList.Pairwise (fun a b => a.1 < b.1) → t.find q = none → ∀ x ∈ t.toList, x.1 ≠ q
  | .leaf, _, _, _ => by simp [toList]
  | .node l k w r, q, hs, h => by
    simp only [toList] at hs ⊢
    rw [List.pairwise_append] at hs
    obtain ⟨hl, hkr, hlr⟩ := hs
    rw [List.pairwise_cons] at hkr
    obtain ⟨hk, hr⟩ := hkr
    simp only [find] at h
    intro x hx
    cases h1 : Nat.blt q k with
    | true =>
      rw [h1] at h; simp only [cond_true] at h
      have a : q < k := by rw [← Nat.blt_eq]; exact h1
      rcases List.mem_append.mp hx with hx | hx
      · exact find_none_of_sorted l q hl h x hx
      · rcases List.mem_cons.mp hx with rfl | hx
        · show k ≠ q; omega
        · have := hk x hx
          simp only at this
          omega
    | false =>
      rw [h1] at h; simp only [cond_false] at h
      cases h2 : Nat.blt k q with
      | true =>
        rw [h2] at h; simp only [cond_true] at h
        have a : k < q := by rw [← Nat.blt_eq]; exact h2
        rcases List.mem_append.mp hx with hx | hx
        · have := hlr x hx (k, w) (by simp)
          simp only at this
          omega
        · rcases List.mem_cons.mp hx with rfl | hx
          · show k ≠ q; omega
          · exact find_none_of_sorted r q hr h x hx
      | false =>
        rw [h2] at h; simp at h

/-- whatever a lookup in the tree built from `l` returns is a member of `l` -/
theorem find_build_mem (f : α → Nat) (l : List α) (q : Nat) (v : α)
    (h : (build f l).find q = some v) : v ∈ l := by
  obtain ⟨k, hk⟩ := find_mem_toList _ q v h
  have hm := (build_perm f l).mem_iff.mp hk
  simp only [List.mem_map, Prod.mk.injEq] at hm
  obtain ⟨a, ha, _, rfl⟩ := hm
  exact ha

end KTree

/-- adjacent keys increase strictly -/
def sortedKeys {α : Type} : List (Nat × α) → Bool
  | [] => true
  | [_] => true
  | a :: b :: r => Nat.blt a.1 b.1 && sortedKeys (b :: r)

theorem pairwise_of_sortedKeys {α : Type} : ∀ (l : List (Nat × α)), sortedKeys l = true →
    List.Pairwise (fun a b => a.1 < b.1) l
  | [], _ => List.Pairwise.nil
  | [_], _ => by simp
  | a :: b :: r, h => by
    simp only [sortedKeys, Bool.and_eq_true, Nat.blt_eq] at h
    have ih := pairwise_of_sortedKeys (b :: r) h.2
    rw [List.pairwise_cons]
    refine ⟨?_, ih⟩
    intro x hx
    rcases List.mem_cons.mp hx with rfl | hx
    · exact h.1
    · exact Nat.lt_trans h.1 ((List.pairwise_cons.mp ih).1 x hx)

/-- the numbers `f x` of the members of `l` are pairwise different (decided in `n log n`) -/
def distinctKeys {α : Type} (f : α → Nat) (l : List α) : Bool :=
  sortedKeys ((KTree.build f l).toListAcc [])

theorem distinctKeys_spec {α : Type} (f : α → Nat) (l : List α) (h : distinctKeys f l = true) :
    l.Pairwise (fun x y => f x ≠ f y) := by
  unfold distinctKeys at h
  rw [KTree.toListAcc_eq, List.append_nil] at h
  have h1 : List.Pairwise (fun a b : Nat × α => a.1 ≠ b.1) (KTree.build f l).toList :=
    (pairwise_of_sortedKeys _ h).imp (fun hlt => Nat.ne_of_lt hlt)
  have h2 := (List.Perm.pairwise_iff (R := fun a b : Nat × α => a.1 ≠ b.1)
    (fun hxy => Ne.symm hxy) (KTree.build_perm f l)).mp h1
  exact (List.pairwise_map (f := fun x => (f x, x))
    (R := fun a b : Nat × α => a.1 ≠ b.1)).mp h2

/-- with pairwise different keys the tree answers membership questions exactly -/
theorem find_build_spec {α : Type} (f : α → Nat) (l : List α) (h : distinctKeys f l = true)
    (q : Nat) :
    (∀ v, (KTree.build f l).find q = some v → v ∈ l ∧ f v = q) ∧
    ((KTree.build f l).find q = none → ∀ x ∈ l, f x ≠ q) := by
  constructor
  · intro v hv
    have hk := KTree.find_key _ q v hv
    have hm := (KTree.build_perm f l).mem_iff.mp hk
    simp only [List.mem_map, Prod.mk.injEq] at hm
    obtain ⟨a, ha, h1, rfl⟩ := hm
    exact ⟨ha, h1⟩
  · intro hn x hx
    unfold distinctKeys at h
    rw [KTree.toListAcc_eq, List.append_nil] at h
    have hs := pairwise_of_sortedKeys _ h
    have hm : (f x, x) ∈ (KTree.build f l).toList :=
      (KTree.build_perm f l).mem_iff.mpr (List.mem_map.mpr ⟨x, hx, rfl⟩)
    exact KTree.find_none_of_sorted _ q hs hn _ hm

/-- `find?` for a field with pairwise different values -/
theorem find?_of_mem_distinct {α β : Type} [DecidableEq β] (g : α → β) :
    ∀ (l : List α), l.Pairwise (fun x y => g x ≠ g y) → ∀ v ∈ l,
    l.find? (fun x => g x == g v) = some v
  | [], _, _, h => by cases h
  | x :: xs, hp, v, h => by
    rcases List.mem_cons.mp h with rfl | h
    · simp
    · have hne : g x ≠ g v := (List.pairwise_cons.mp hp).1 v h
      simp only [List.find?_cons, beq_eq_false_iff_ne.mpr hne]
      exact find?_of_mem_distinct g xs (List.pairwise_cons.mp hp).2 v h

/-- an injective code of the integers (cheap for the kernel) -/
def ikey : Int → Nat
  | .ofNat n => 2 * n
  | .negSucc n => 2 * n + 1

theorem ikey_inj (a b : Int) (h : ikey a = ikey b) : a = b := by
  cases a <;> cases b <;> simp only [ikey] at h <;> first | (congr 1; omega) | omega

/-- `rowOfId` through the search tree over the IDs -/
theorem rowOfId_eq_find (db : DB) (h : distinctKeys (fun r : PRow => ikey r.id) db.rows = true)
    (i : Int) : db.rowOfId i = (KTree.build (fun r : PRow => ikey r.id) db.rows).find (ikey i) := by
  have hs := find_build_spec _ db.rows h (ikey i)
  unfold DB.rowOfId
  cases hf : (KTree.build (fun r : PRow => ikey r.id) db.rows).find (ikey i) with
  | none =>
    rw [List.find?_eq_none]
    intro x hx
    have := hs.2 hf x hx
    simp only [beq_iff_eq]
    intro e; exact this (by rw [e])
  | some v =>
    obtain ⟨hv, hk⟩ := hs.1 v hf
    have e : v.id = i := ikey_inj _ _ hk
    subst e
    have hp : db.rows.Pairwise (fun x y : PRow => x.id ≠ y.id) :=
      (distinctKeys_spec _ _ h).imp (fun hne e => hne (by rw [e]))
    exact find?_of_mem_distinct (fun r : PRow => r.id) db.rows hp v hv

/-- the keys of a dictionary are pairwise different -/
def KeysDistinct {V : Type} (d : List (String × V)) : Prop :=
  d.Pairwise (fun x y => x.1 ≠ y.1)

theorem keysDistinct_of_distinctKeys {V : Type} (d : List (String × V))
    (h : distinctKeys (fun x : String × V => skey x.1) d = true) : KeysDistinct d :=
  (distinctKeys_spec _ d h).imp (fun hne e => hne (by rw [e]))

theorem dget_of_mem {V : Type} : ∀ (d : List (String × V)), KeysDistinct d →
    ∀ k v, (k, v) ∈ d → dget d k = some v
  | [], _, _, _, h => by cases h
  | (k', v') :: r, hd, k, v, h => by
    unfold dget
    rcases List.mem_cons.mp h with e | h
    · cases e; simp
    · have hne : k' ≠ k := (List.pairwise_cons.mp hd).1 (k, v) h
      simp only [hne, if_false]
      exact dget_of_mem r (List.pairwise_cons.mp hd).2 k v h

theorem dget_mem {V : Type} : ∀ (d : List (String × V)) k v, dget d k = some v → (k, v) ∈ d
  | [], _, _, h => by simp [dget] at h
  | (k', v') :: r, k, v, h => by
    unfold dget at h
    by_cases e : k' = k
    · simp only [e, if_true, Option.some.injEq] at h; subst h; subst e; simp
    · simp only [e, if_false] at h
      exact List.mem_cons_of_mem _ (dget_mem r k v h)

theorem dget_none_of_forall {V : Type} : ∀ (d : List (String × V)) k,
    (∀ x ∈ d, x.1 ≠ k) → dget d k = none
  | [], _, _ => rfl
  | (k', v') :: r, k, h => by
    unfold dget
    have hne : k' ≠ k := h (k', v') (by simp)
    simp only [hne, if_false]
    exact dget_none_of_forall r k (fun x hx => h x (List.mem_cons_of_mem _ hx))

/-! ### the wrapper `ChargeConj(...)` seen on bytes -/

def sbytes (s : String) : List UInt8 := s.toByteArray.data.toList

/-- the name starts with `ChargeConj(` -/
def hasWrapPrefix (s : String) : Bool := (sbytes "ChargeConj(").isPrefixOf (sbytes s)

theorem hasWrapPrefix_wrapUnknown (n : String) : hasWrapPrefix (wrapUnknown n) = true := by
  unfold hasWrapPrefix wrapUnknown sbytes
  rw [List.isPrefixOf_iff_prefix]
  simp only [String.toByteArray_append, ByteArray.data_append, Array.toList_append,
    List.append_assoc]
  exact List.prefix_append _ _

theorem ne_wrapUnknown_of_noPrefix (c n : String) (h : hasWrapPrefix c = false) :
    c ≠ wrapUnknown n := by
  intro e
  rw [e, hasWrapPrefix_wrapUnknown] at h
  cases h

end DL
