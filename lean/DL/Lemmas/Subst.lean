/-
Textual substitution of Define'd names and ModelAlias labels (C05, whole-file form).
Core Lean only.
-/
import DL.Lemmas.Dict
import DL.Lemmas.Dedup
import DL.Lemmas.ExceptList
namespace DL

/-! ### 1. textual negation of a numeric literal -/

/-- `"-x" ↦ "x"`, `"+x" ↦ "-x"`, `"x" ↦ "-x"` -/
def negLitChars : List Char → List Char
  | '-' :: r => r
  | '+' :: r => '-' :: r
  | cs => '-' :: cs

def negLit (s : String) : String := String.ofList (negLitChars s.toList)

/-- the part of `readNumber` after the sign has been taken off -/
def readUnsigned (hasSign neg : Bool) (r : List Char) : Option (NumLit × List Char) :=
  let (d, r1) := takeDigits r
  if !d.isEmpty then
    match takeExp r1 with
    | some (ex, rest) => some ({ neg, hasSign, int := d, frac := none, exp := some ex }, rest)
    | none =>
      match r1 with
      | '.' :: r2 =>
        let (f, r3) := takeDigits r2
        match takeExp r3 with
        | some (ex, rest) => some ({ neg, hasSign, int := d, frac := some f, exp := some ex }, rest)
        | none => some ({ neg, hasSign, int := d, frac := some f, exp := none }, r3)
      | _ => some ({ neg, hasSign, int := d, frac := none, exp := none }, r1)
  else
    match r with
    | '.' :: r2 =>
      let (f, r3) := takeDigits r2
      if f.isEmpty then none
      else match takeExp r3 with
        | some (ex, rest) => some ({ neg, hasSign, int := [], frac := some f, exp := some ex }, rest)
        | none => some ({ neg, hasSign, int := [], frac := some f, exp := none }, r3)
    | _ => none

theorem readNumber_plus (t : List Char) : readNumber ('+' :: t) = readUnsigned true false t := rfl
theorem readNumber_minus (t : List Char) : readNumber ('-' :: t) = readUnsigned true true t := rfl
theorem readNumber_nil : readNumber [] = readUnsigned false false [] := rfl
def signSplit (cs : List Char) : Bool × Bool × List Char :=
  match cs with
    | '+' :: t => (true, false, t)
    | '-' :: t => (true, true, t)
    | _ => (false, false, cs)
theorem readNumber_eq (cs : List Char) :
    readNumber cs = readUnsigned (signSplit cs).1 (signSplit cs).2.1 (signSplit cs).2.2 := rfl
theorem signSplit_other (c : Char) (t : List Char) (h1 : c ≠ '+') (h2 : c ≠ '-') :
    signSplit (c :: t) = (false, false, c :: t) := by
  unfold signSplit
  split
  · next h => simp at h; exact absurd h.1 h1
  · next h => simp at h; exact absurd h.1 h2
  · rfl

def setSign (hs ng : Bool) (p : NumLit × List Char) : NumLit × List Char :=
  ({ p.1 with neg := ng, hasSign := hs }, p.2)

theorem readUnsigned_setSign (hs ng hs' ng' : Bool) (r : List Char) :
    readUnsigned hs ng r = (readUnsigned hs' ng' r).map (setSign hs ng) := by
  unfold readUnsigned
  cases takeDigits r with
  | mk d r1 =>
    simp only
    repeat' split
    all_goals simp_all [setSign]

theorem readUnsigned_head (hs ng : Bool) (r : List Char) (x : NumLit × List Char)
    (h : readUnsigned hs ng r = some x) : ∃ c t, r = c :: t ∧ c ≠ '+' ∧ c ≠ '-' := by
  cases r with
  | nil => simp [readUnsigned, takeDigits] at h
  | cons c t =>
    refine ⟨c, t, rfl, ?_, ?_⟩
    · rintro rfl
      simp [readUnsigned, takeDigits, isDigit] at h
    · rintro rfl
      simp [readUnsigned, takeDigits, isDigit] at h

theorem value_neg_true (n : NumLit) (hs hs' : Bool) :
    ({ n with neg := true, hasSign := hs } : NumLit).value = -({ n with neg := false, hasSign := hs' } : NumLit).value := by
  simp [NumLit.value]
theorem value_neg_false (n : NumLit) (hs hs' : Bool) :
    ({ n with neg := false, hasSign := hs } : NumLit).value = -({ n with neg := true, hasSign := hs' } : NumLit).value := by
  simp [NumLit.value]


/-- value of a character list that is entirely one unsigned-part reading -/
def uval (hs ng : Bool) (r : List Char) : Option Rat :=
  match readUnsigned hs ng r with
  | some (n, []) => some n.value
  | _ => none

theorem uval_flip (hs ng hs' : Bool) (r : List Char) (q : Rat) (h : uval hs ng r = some q) :
    uval hs' (!ng) r = some (-q) := by
  unfold uval at h ⊢
  rw [readUnsigned_setSign hs' (!ng) hs ng]
  cases hr : readUnsigned hs ng r with
  | none => simp [hr] at h
  | some p =>
    obtain ⟨n, rest⟩ := p
    cases rest with
    | cons a b => simp [hr] at h
    | nil =>
      simp only [hr, Option.some.injEq] at h
      subst h
      have hn : n.neg = ng := by
        have := readUnsigned_setSign hs ng hs ng r
        rw [hr] at this
        simp only [Option.map_some, setSign, Option.some.injEq, Prod.mk.injEq, and_true] at this
        rw [this]
      cases ng
      · simp [setSign, NumLit.value, hn]
      · simp [setSign, NumLit.value, hn]

theorem numValue_eq_uval (s : String) :
    numValue s = uval (signSplit s.toList).1 (signSplit s.toList).2.1 (signSplit s.toList).2.2 := rfl

theorem uval_head (hs ng : Bool) (r : List Char) (q : Rat)
    (h : uval hs ng r = some q) : ∃ c t, r = c :: t ∧ c ≠ '+' ∧ c ≠ '-' := by
  unfold uval at h
  cases hr : readUnsigned hs ng r with
  | none => simp [hr] at h
  | some p => exact readUnsigned_head hs ng r p hr

theorem numValue_negLit (s : String) (q : Rat) (h : numValue s = some q) :
    numValue (negLit s) = some (-q) := by
  rw [numValue_eq_uval] at h ⊢
  simp only [negLit, String.toList_ofList]
  cases hs : s.toList with
  | nil => rw [hs] at h; simp [signSplit, uval, readUnsigned, takeDigits] at h
  | cons c t =>
    rw [hs] at h
    by_cases hm : c = '-'
    · subst hm
      have h' : uval true true t = some q := h
      obtain ⟨c', t', rfl, h1, h2⟩ := uval_head _ _ _ _ h'
      show uval (signSplit (c' :: t')).1 (signSplit (c' :: t')).2.1 (signSplit (c' :: t')).2.2 = _
      rw [signSplit_other c' t' h1 h2]
      exact uval_flip _ _ _ _ _ h'
    · by_cases hp : c = '+'
      · subst hp
        have h' : uval true false t = some q := h
        exact uval_flip _ _ true _ _ h'
      · rw [signSplit_other c t hp hm] at h
        have e : negLitChars (c :: t) = '-' :: c :: t := by
          unfold negLitChars
          split
          · next h => simp at h; exact absurd h.1 hm
          · next h => simp at h; exact absurd h.1 hp
          · rfl
        rw [e]
        exact uval_flip _ _ true _ _ h
example : negLit "-1.5e3" = "1.5e3" := by decide
example : negLit "+1.5e3" = "-1.5e3" := by decide
example : negLit ".5" = "-.5" := by decide


/-! ### 2. the text of the last definition -/

/-- a `Define` whose text is a numeral (the only ones `dict_definitions` keeps), as (name, text) -/
def stDefineText : Stmt → Option (String × String)
  | .define n v => if (numValue v).isSome then some (n, v) else none
  | _ => none
def defineTextPairs (d : Doc) : List (String × String) := d.filterMap stDefineText
/-- name ↦ literal text of its last `Define` -/
def defineTexts (d : Doc) : List (String × String) := pairsToDict (defineTextPairs d)

theorem lastOf_mem {V : Type} (l : List (String × V)) (k : String) (v : V) (h : lastOf l k = some v) :
    (k, v) ∈ l := by
  unfold lastOf at h
  simp only [Option.map_eq_some_iff] at h
  obtain ⟨p, hp, rfl⟩ := h
  have h1 := List.find?_some hp
  have h2 := List.mem_of_find?_eq_some hp
  simp only [beq_iff_eq] at h1
  subst h1
  simpa using h2

theorem defineTextPairs_numeral (d : Doc) (w t : String) (h : (w, t) ∈ defineTextPairs d) :
    ∃ q, numValue t = some q := by
  unfold defineTextPairs at h
  simp only [List.mem_filterMap] at h
  obtain ⟨s, _, hs⟩ := h
  cases s <;> simp only [stDefineText, reduceCtorEq] at hs
  next n v =>
    split at hs
    · next hv =>
      simp only [Option.some.injEq, Prod.mk.injEq] at hs
      obtain ⟨_, rfl⟩ := hs
      exact Option.isSome_iff_exists.mp hv
    · simp at hs

theorem lastOf_definePairs (d : Doc) (w : String) :
    lastOf (definePairs d) w = (lastOf (defineTextPairs d) w).bind numValue := by
  induction d with
  | nil => simp [definePairs, defineTextPairs, lastOf]
  | cons s r ih =>
    have hnum : ∀ t, lastOf (defineTextPairs r) w = some t → ∃ q, numValue t = some q :=
      fun t ht => defineTextPairs_numeral r w t (lastOf_mem _ _ _ ht)
    unfold definePairs defineTextPairs at *
    cases s
    case define n v =>
      cases hv : numValue v with
      | none => simpa [List.filterMap_cons, stDefine, stDefineText, hv] using ih
      | some q =>
        simp only [List.filterMap_cons, stDefine, stDefineText, hv, Option.map_some, Option.isSome_some, if_true]
        rw [lastOf_cons, lastOf_cons, ih]
        cases ht : lastOf (List.filterMap stDefineText r) w with
        | none => by_cases hk : n = w <;> simp [hk, hv]
        | some t =>
          obtain ⟨q', hq'⟩ := hnum t ht
          simp [hq']
    all_goals simpa [List.filterMap_cons, stDefine, stDefineText] using ih

/-- the value of a defined name is the value of the text of its last `Define` -/
theorem dictDefinitions_eq_texts (d : Doc) (w : String) :
    dget (dictDefinitions d) w = (dget (defineTexts d) w).bind numValue := by
  unfold dictDefinitions defineTexts
  rw [dget_pairsToDict, dget_pairsToDict, lastOf_definePairs]

theorem defineTexts_numeral (d : Doc) (w t : String) (h : dget (defineTexts d) w = some t) :
    ∃ q, numValue t = some q := by
  unfold defineTexts at h
  rw [dget_pairsToDict] at h
  exact defineTextPairs_numeral d w t (lastOf_mem _ _ _ h)



/-! ### 3. the substitution -/

/-- `resolveParam` reads a leading minus sign of a word as a negation -/
def wordNeg (w : String) : Bool := w.toList.head? == some '-'
/-- the name `resolveParam` looks up for the word `w` -/
def wordName (w : String) : String := if wordNeg w then String.ofList w.toList.tail else w

theorem resolveParam_word (defs : List (String × Rat)) (w : String) :
    resolveParam defs (.word w) = match dget defs (wordName w) with
      | some q => .ok (.num (if wordNeg w then -q else q))
      | none => .ok (.word w) := rfl

/-- a word that is a defined name (possibly negated) becomes the literal text it stands for -/
def substParam (txt : List (String × String)) : Param → Param
  | .num l => .num l
  | .word w => match dget txt (wordName w) with
    | some t => .num (if wordNeg w then negLit t else t)
    | none => .word w

def substOpts (txt : List (String × String)) (o : Option (List Param)) : Option (List Param) :=
  o.map (List.map (substParam txt))

/-- an alias label defined by a written-out model becomes that model; parameters are substituted -/
def substModel (aliases : List (String × ModelRef)) (txt : List (String × String)) : ModelRef → ModelRef
  | .named n o => .named n (substOpts txt o)
  | .alias l => match dget aliases l with
    | some (.named n o) => .named n (substOpts txt o)
    | _ => .alias l

def substLine (aliases : List (String × ModelRef)) (txt : List (String × String)) (ln : DLine) : DLine :=
  { ln with model := substModel aliases txt ln.model }

def substStmt (aliases : List (String × ModelRef)) (txt : List (String × String)) : Stmt → Stmt
  | .decay m ls => .decay m (ls.map (substLine aliases txt))
  | s => s

/-- every decay line rewritten with the dictionaries of the document; all other statements kept -/
def substDoc (d : Doc) : Doc := d.map (substStmt (dictModelAliasesRaw d) (defineTexts d))

/-- `txt` gives the texts of the values `defs` -/
structure TextsOf (txt : List (String × String)) (defs : List (String × Rat)) : Prop where
  link : ∀ w, dget defs w = (dget txt w).bind numValue
  numeral : ∀ w t, dget txt w = some t → ∃ q, numValue t = some q

theorem textsOf_doc (d : Doc) : TextsOf (defineTexts d) (dictDefinitions d) :=
  ⟨dictDefinitions_eq_texts d, defineTexts_numeral d⟩

/-- `a` has no entries that `b` lacks -/
def SubDict {V : Type} (a b : List (String × V)) : Prop := ∀ k v, dget a k = some v → dget b k = some v

theorem subDict_refl {V : Type} (a : List (String × V)) : SubDict a a := fun _ _ h => h
theorem subDict_nil {V : Type} (b : List (String × V)) : SubDict [] b := fun _ _ h => by simp [dget] at h

theorem resolveParam_subst (txt : List (String × String)) (defs defs' : List (String × Rat))
    (ht : TextsOf txt defs) (hs : SubDict defs' defs) (p : Param) :
    resolveParam defs' (substParam txt p) = resolveParam defs p := by
  cases p with
  | num l => rfl
  | word w =>
    rw [resolveParam_word defs]
    cases hw : dget txt (wordName w) with
    | none =>
      have h1 : dget defs (wordName w) = none := by rw [ht.link, hw]; rfl
      have h2 : dget defs' (wordName w) = none := by
        cases h : dget defs' (wordName w) with
        | none => rfl
        | some q => rw [hs _ _ h] at h1; cases h1
      have e : substParam txt (.word w) = .word w := by simp only [substParam, hw]
      rw [e, resolveParam_word, h1, h2]
    | some t =>
      obtain ⟨q, hq⟩ := ht.numeral _ _ hw
      have h1 : dget defs (wordName w) = some q := by rw [ht.link, hw]; exact hq
      have e : substParam txt (.word w) = .num (if wordNeg w then negLit t else t) := by
        simp only [substParam, hw]
      rw [e, h1]
      cases hn : wordNeg w
      · simp [resolveParam, hq]
      · simp [resolveParam, numValue_negLit t q hq]

theorem mapM_except_congr {ε α β : Type} (f g : α → Except ε β) (l : List α)
    (h : ∀ x ∈ l, f x = g x) : l.mapM f = l.mapM g := by
  induction l with
  | nil => rfl
  | cons a r ih =>
    rw [mapM_except_cons, mapM_except_cons, h a (by simp), ih (fun x hx => h x (by simp [hx]))]

theorem mapM_except_map {ε α β γ : Type} (f : β → Except ε γ) (g : α → β) (l : List α) :
    (l.map g).mapM f = l.mapM (fun x => f (g x)) := by
  induction l with
  | nil => rfl
  | cons a r ih => rw [List.map_cons, mapM_except_cons, mapM_except_cons, ih]

/-- the part of `resolveLine` after the model has been found -/
def finishLine (defs : List (String × Rat)) (bf : Rat) (ds : List String) (ph : Bool) (n : String)
    (o : Option (List Param)) : Except SemErr Line :=
  match o with
  | none => .ok { bf := bf, ds := ds, photos := ph, model := n, params := none }
  | some l => match l.mapM (resolveParam defs) with
    | .error e => .error e
    | .ok ps => .ok { bf := bf, ds := ds, photos := ph, model := n, params := some ps }

theorem resolveLine_eq (aliases : List (String × ModelRef)) (defs : List (String × Rat)) (ln : DLine) :
    resolveLine aliases defs ln = match numValue ln.bf with
      | none => .error (.badNumber ln.bf)
      | some bf => match resolveModel aliases ln.model with
        | .error e => .error e
        | .ok (.alias l) => .error (.aliasOfAlias l)
        | .ok (.named n o) => finishLine defs bf ln.ds ln.photos n o := by
  unfold resolveLine
  cases numValue ln.bf with
  | none => rfl
  | some bf =>
    cases resolveModel aliases ln.model with
    | error e => rfl
    | ok m =>
      cases m with
      | alias l => rfl
      | named n o =>
        cases o with
        | none => rfl
        | some l =>
          simp only [finishLine, bind, Except.bind, pure, Except.pure, Except.map]
          cases l.mapM (resolveParam defs) <;> rfl

theorem finishLine_subst (txt : List (String × String)) (defs defs' : List (String × Rat))
    (ht : TextsOf txt defs) (hs : SubDict defs' defs) (bf : Rat) (ds : List String) (ph : Bool) (n : String)
    (o : Option (List Param)) :
    finishLine defs' bf ds ph n (substOpts txt o) = finishLine defs bf ds ph n o := by
  cases o with
  | none => rfl
  | some l =>
    simp only [finishLine, substOpts, Option.map_some]
    rw [mapM_except_map, mapM_except_congr _ (resolveParam defs) l (fun p _ => resolveParam_subst txt defs defs' ht hs p)]

/-- a rewritten line read with smaller (e.g. empty) dictionaries is the original line read with the
    full ones; `hal`: an alias of an alias used by the line must still be visible (it is an error) -/
theorem resolveLine_subst (aliases aliases' : List (String × ModelRef)) (txt : List (String × String))
    (defs defs' : List (String × Rat)) (ht : TextsOf txt defs) (hs : SubDict defs' defs)
    (hsa : SubDict aliases' aliases) (ln : DLine)
    (hal : ∀ l l', ln.model = .alias l → dget aliases l = some (.alias l') → dget aliases' l = some (.alias l')) :
    resolveLine aliases' defs' (substLine aliases txt ln) = resolveLine aliases defs ln := by
  rw [resolveLine_eq, resolveLine_eq]
  obtain ⟨bfs, ds, ph, m⟩ := ln
  simp only [substLine]
  cases numValue bfs with
  | none => rfl
  | some bf =>
    simp only
    cases m with
    | named n o =>
      simp only [substModel, resolveModel]
      exact finishLine_subst txt defs defs' ht hs bf ds ph n o
    | alias l =>
      cases ha : dget aliases l with
      | none =>
        have h2 : dget aliases' l = none := by
          cases h : dget aliases' l with
          | none => rfl
          | some q => rw [hsa _ _ h] at ha; cases ha
        simp only [substModel, resolveModel, ha, h2]
      | some m' =>
        cases m' with
        | named n o =>
          simp only [substModel, resolveModel, ha]
          exact finishLine_subst txt defs defs' ht hs bf ds ph n o
        | alias l' =>
          have h2 := hal l l' rfl ha
          simp only [substModel, resolveModel, ha, h2]



/-! ### 4. whole documents -/

theorem filterMap_substStmt {α : Type} (f : Stmt → Option α) (a : List (String × ModelRef))
    (t : List (String × String)) (hf : ∀ s, f (substStmt a t s) = f s) (d : Doc) :
    (d.map (substStmt a t)).filterMap f = d.filterMap f := by
  rw [List.filterMap_map]
  congr 1
  funext s
  exact hf s

theorem modelAliasPairs_substDoc (d : Doc) : modelAliasPairs (substDoc d) = modelAliasPairs d :=
  filterMap_substStmt _ _ _ (fun s => by cases s <;> rfl) d
theorem definePairs_substDoc (d : Doc) : definePairs (substDoc d) = definePairs d :=
  filterMap_substStmt _ _ _ (fun s => by cases s <;> rfl) d
theorem defineTextPairs_substDoc (d : Doc) : defineTextPairs (substDoc d) = defineTextPairs d :=
  filterMap_substStmt _ _ _ (fun s => by cases s <;> rfl) d
theorem copyPairs_substDoc (d : Doc) : copyPairs (substDoc d) = copyPairs d :=
  filterMap_substStmt _ _ _ (fun s => by cases s <;> rfl) d
theorem chargeConjPairs_substDoc (d : Doc) : chargeConjPairs (substDoc d) = chargeConjPairs d :=
  filterMap_substStmt _ _ _ (fun s => by cases s <;> rfl) d
theorem aliasPairs_substDoc (d : Doc) : aliasPairs (substDoc d) = aliasPairs d :=
  filterMap_substStmt _ _ _ (fun s => by cases s <;> rfl) d
theorem cdecayNames_substDoc (d : Doc) : cdecayNames (substDoc d) = cdecayNames d := by
  unfold cdecayNames
  rw [show (substDoc d).filterMap stCDecay = d.filterMap stCDecay from
    filterMap_substStmt _ _ _ (fun s => by cases s <;> rfl) d]

theorem dictModelAliasesRaw_substDoc (d : Doc) : dictModelAliasesRaw (substDoc d) = dictModelAliasesRaw d := by
  unfold dictModelAliasesRaw; rw [modelAliasPairs_substDoc]
theorem dictDefinitions_substDoc (d : Doc) : dictDefinitions (substDoc d) = dictDefinitions d := by
  unfold dictDefinitions; rw [definePairs_substDoc]
theorem defineTexts_substDoc (d : Doc) : defineTexts (substDoc d) = defineTexts d := by
  unfold defineTexts; rw [defineTextPairs_substDoc]
theorem dictDecays2Copy_substDoc (d : Doc) : dictDecays2Copy (substDoc d) = dictDecays2Copy d := by
  unfold dictDecays2Copy; rw [copyPairs_substDoc]
theorem dictChargeConj_substDoc (d : Doc) : dictChargeConj (substDoc d) = dictChargeConj d := by
  unfold dictChargeConj; rw [chargeConjPairs_substDoc]

/-- a decay block with every line rewritten -/
def substBlock (a : List (String × ModelRef)) (t : List (String × String)) (b : String × List DLine) :
    String × List DLine := (b.1, b.2.map (substLine a t))

theorem decayBlocks_map_substStmt (a : List (String × ModelRef)) (t : List (String × String)) (d : Doc) :
    decayBlocks (d.map (substStmt a t)) = (decayBlocks d).map (substBlock a t) := by
  unfold decayBlocks
  induction d with
  | nil => rfl
  | cons s r ih =>
    cases s <;> simp [List.filterMap_cons, substStmt, stDecay, substBlock, ih]

theorem decayBlocks_substDoc (d : Doc) :
    decayBlocks (substDoc d) = (decayBlocks d).map (substBlock (dictModelAliasesRaw d) (defineTexts d)) :=
  decayBlocks_map_substStmt _ _ d

theorem dedupGo_map {V W : Type} (g : V → W) (seen : List String) (l : List (String × V)) :
    dedupKeepFirst.go seen (l.map (fun b => (b.1, g b.2))) =
      (dedupKeepFirst.go seen l).map (fun b => (b.1, g b.2)) := by
  induction l generalizing seen with
  | nil => rfl
  | cons p r ih =>
    obtain ⟨k, v⟩ := p
    simp only [List.map_cons, dedupKeepFirst.go]
    split
    · exact ih seen
    · simp only [List.map_cons]; rw [ih]

theorem dedupGo_subset {V : Type} (seen : List String) (l : List (String × V)) :
    ∀ x ∈ dedupKeepFirst.go seen l, x ∈ l := by
  induction l generalizing seen with
  | nil => intro x hx; simp [dedupKeepFirst.go] at hx
  | cons p r ih =>
    obtain ⟨k, v⟩ := p
    intro x hx
    simp only [dedupKeepFirst.go] at hx
    split at hx
    · exact List.mem_cons_of_mem _ (ih seen x hx)
    · rcases List.mem_cons.mp hx with h | h
      · rw [h]; exact List.mem_cons_self
      · exact List.mem_cons_of_mem _ (ih _ x h)

theorem dedupLoop_map {V W : Type} (g : V → W) (l : List (String × V)) :
    dedupLoop (l.map (fun b => (b.1, g b.2))) = (dedupLoop l).map (fun b => (b.1, g b.2)) := by
  rw [dedupLoop_eq, dedupLoop_eq]; exact dedupGo_map g [] l

theorem dedupLoop_subset {V : Type} (l : List (String × V)) : ∀ x ∈ dedupLoop l, x ∈ l := by
  rw [dedupLoop_eq]; exact dedupGo_subset [] l

/-- the line does not use an alias that stands for another alias -/
def lineAliasOK (aliases : List (String × ModelRef)) (ln : DLine) : Bool :=
  match ln.model with
  | .named _ _ => true
  | .alias l => match dget aliases l with
    | some (.alias _) => false
    | _ => true

theorem resolveBlock_subst (aliases aliases' : List (String × ModelRef)) (txt : List (String × String))
    (defs defs' : List (String × Rat)) (ht : TextsOf txt defs) (hs : SubDict defs' defs)
    (hsa : SubDict aliases' aliases) (b : String × List DLine)
    (hal : aliases' = aliases ∨ ∀ ln ∈ b.2, lineAliasOK aliases ln = true) :
    resolveBlock aliases' defs' (substBlock aliases txt b) = resolveBlock aliases defs b := by
  unfold resolveBlock substBlock
  simp only
  rw [mapM_except_map, mapM_except_congr _ (resolveLine aliases defs) b.2]
  intro ln hln
  apply resolveLine_subst aliases aliases' txt defs defs' ht hs hsa ln
  intro l l' hm ha
  rcases hal with rfl | hal
  · exact ha
  · have := hal ln hln
    simp [lineAliasOK, hm, ha] at this

theorem tables_subst_gen (d : Doc) (aliases' : List (String × ModelRef)) (defs' : List (String × Rat))
    (hs : SubDict defs' (dictDefinitions d)) (hsa : SubDict aliases' (dictModelAliasesRaw d))
    (hal : aliases' = dictModelAliasesRaw d ∨
      ∀ b ∈ dedupLoop (decayBlocks d), ∀ ln ∈ b.2, lineAliasOK (dictModelAliasesRaw d) ln = true) :
    (dedupLoop (decayBlocks (substDoc d))).mapM (resolveBlock aliases' defs') = tablesDecay d := by
  unfold tablesDecay
  rw [decayBlocks_substDoc]
  have e := dedupLoop_map (List.map (substLine (dictModelAliasesRaw d) (defineTexts d))) (decayBlocks d)
  have e' : (fun b : String × List DLine => (b.1, List.map (substLine (dictModelAliasesRaw d) (defineTexts d)) b.2))
      = substBlock (dictModelAliasesRaw d) (defineTexts d) := rfl
  rw [e'] at e
  rw [e, mapM_except_map]
  apply mapM_except_congr
  intro b hb
  apply resolveBlock_subst _ _ _ _ _ (textsOf_doc d) hs hsa b
  rcases hal with h | h
  · exact Or.inl h
  · exact Or.inr (h b hb)



/-! ### 5. the rewritten lines use no definitions -/

/-- the parameter is a word that `resolveParam` would replace -/
def paramUses (defs : List (String × Rat)) : Param → Bool
  | .num _ => false
  | .word w => (dget defs (wordName w)).isSome

/-- the line uses a ModelAlias that stands for a written-out model, or a Define'd parameter word -/
def lineUses (aliases : List (String × ModelRef)) (defs : List (String × Rat)) (ln : DLine) : Bool :=
  match ln.model with
  | .named _ o => (o.getD []).any (paramUses defs)
  | .alias l => match dget aliases l with
    | some (.named _ _) => true
    | _ => false

theorem lineUses_false_iff (aliases : List (String × ModelRef)) (defs : List (String × Rat)) (ln : DLine) :
    lineUses aliases defs ln = false ↔
      (∀ l, ln.model = .alias l → ∀ n o, dget aliases l ≠ some (.named n o)) ∧
      (∀ n ps, ln.model = .named n (some ps) → ∀ w, Param.word w ∈ ps → dget defs (wordName w) = none) := by
  obtain ⟨bf, ds, ph, m⟩ := ln
  cases m with
  | alias l =>
    simp only [lineUses, ModelRef.alias.injEq, reduceCtorEq, false_implies, implies_true, and_true]
    constructor
    · intro h l' hl n o ho
      subst hl
      simp [ho] at h
    · intro h
      cases ha : dget aliases l with
      | none => rfl
      | some m' =>
        cases m' with
        | alias _ => rfl
        | named n o => exact absurd ha (h l rfl n o)
  | named n o =>
    simp only [lineUses, reduceCtorEq, false_implies, implies_true, true_and, ModelRef.named.injEq, and_imp]
    constructor
    · intro h n' ps _ ho w hw
      subst ho
      simp only [Option.getD_some, List.any_eq_false] at h
      have := h _ hw
      simpa [paramUses] using this
    · intro h
      cases o with
      | none => rfl
      | some ps =>
        simp only [Option.getD_some, List.any_eq_false]
        intro p hp
        cases p with
        | num _ => simp [paramUses]
        | word w => simpa [paramUses] using h n ps rfl rfl w hp

theorem textsOf_none {txt : List (String × String)} {defs : List (String × Rat)} (ht : TextsOf txt defs)
    (k : String) (h : dget txt k = none) : dget defs k = none := by rw [ht.link, h]; rfl

theorem paramUses_substParam (txt : List (String × String)) (defs : List (String × Rat))
    (ht : TextsOf txt defs) (p : Param) : paramUses defs (substParam txt p) = false := by
  cases p with
  | num l => rfl
  | word w =>
    cases hw : dget txt (wordName w) with
    | none =>
      have e : substParam txt (.word w) = .word w := by simp only [substParam, hw]
      rw [e]; simp [paramUses, textsOf_none ht _ hw]
    | some t =>
      have e : substParam txt (.word w) = .num (if wordNeg w then negLit t else t) := by
        simp only [substParam, hw]
      rw [e]; rfl

theorem any_paramUses_substOpts (txt : List (String × String)) (defs : List (String × Rat))
    (ht : TextsOf txt defs) (o : Option (List Param)) :
    ((substOpts txt o).getD []).any (paramUses defs) = false := by
  cases o with
  | none => rfl
  | some ps =>
    simp only [substOpts, Option.map_some, Option.getD_some, List.any_eq_false, List.mem_map]
    rintro p ⟨p0, _, rfl⟩
    simp [paramUses_substParam txt defs ht p0]

theorem lineUses_substLine (aliases : List (String × ModelRef)) (txt : List (String × String))
    (defs : List (String × Rat)) (ht : TextsOf txt defs) (ln : DLine) :
    lineUses aliases defs (substLine aliases txt ln) = false := by
  obtain ⟨bf, ds, ph, m⟩ := ln
  cases m with
  | named n o => exact any_paramUses_substOpts txt defs ht o
  | alias l =>
    cases ha : dget aliases l with
    | none => simp [lineUses, substLine, substModel, ha]
    | some m' =>
      cases m' with
      | alias l' => simp [lineUses, substLine, substModel, ha]
      | named n o =>
        have e : substLine aliases txt ⟨bf, ds, ph, .alias l⟩ = ⟨bf, ds, ph, .named n (substOpts txt o)⟩ := by
          simp only [substLine, substModel, ha]
        rw [e]
        exact any_paramUses_substOpts txt defs ht o

theorem mem_lines_substDoc (d : Doc) (b : String × List DLine) (hb : b ∈ decayBlocks (substDoc d))
    (ln : DLine) (hl : ln ∈ b.2) :
    ∃ b0 ∈ decayBlocks d, b.1 = b0.1 ∧ ∃ ln0 ∈ b0.2,
      ln = substLine (dictModelAliasesRaw d) (defineTexts d) ln0 := by
  rw [decayBlocks_substDoc, List.mem_map] at hb
  obtain ⟨b0, hb0, rfl⟩ := hb
  simp only [substBlock, List.mem_map] at hl
  obtain ⟨ln0, h0, rfl⟩ := hl
  exact ⟨b0, hb0, rfl, ln0, h0, rfl⟩

/-! ### 6. deleting the Define and ModelAlias statements -/

def isDefStmt : Stmt → Bool
  | .define _ _ => true
  | .modelAlias _ _ => true
  | _ => false

/-- the document without its Define and ModelAlias statements -/
def dropDefs (d : Doc) : Doc := d.filter (fun s => !isDefStmt s)

theorem filterMap_dropDefs_keep {α : Type} (f : Stmt → Option α) (hf : ∀ s, isDefStmt s = true → f s = none)
    (d : Doc) : (dropDefs d).filterMap f = d.filterMap f := by
  unfold dropDefs
  rw [List.filterMap_filter]
  congr 1
  funext s
  by_cases h : isDefStmt s = true
  · simp [h, hf s h]
  · simp [h]

theorem filterMap_dropDefs_gone {α : Type} (f : Stmt → Option α) (hf : ∀ s, isDefStmt s = false → f s = none)
    (d : Doc) : (dropDefs d).filterMap f = [] := by
  unfold dropDefs
  rw [List.filterMap_filter, List.filterMap_eq_nil_iff]
  intro s _
  by_cases h : isDefStmt s = true
  · simp [h]
  · simp [h, hf s (by simpa using h)]

theorem decayBlocks_dropDefs (d : Doc) : decayBlocks (dropDefs d) = decayBlocks d :=
  filterMap_dropDefs_keep _ (fun s h => by cases s <;> first | rfl | cases h) d
theorem copyPairs_dropDefs (d : Doc) : copyPairs (dropDefs d) = copyPairs d :=
  filterMap_dropDefs_keep _ (fun s h => by cases s <;> first | rfl | cases h) d
theorem dictDefinitions_dropDefs (d : Doc) : dictDefinitions (dropDefs d) = [] := by
  unfold dictDefinitions definePairs
  rw [filterMap_dropDefs_gone _ (fun s h => by cases s <;> first | rfl | cases h) d]; rfl
theorem dictModelAliasesRaw_dropDefs (d : Doc) : dictModelAliasesRaw (dropDefs d) = [] := by
  unfold dictModelAliasesRaw modelAliasPairs
  rw [filterMap_dropDefs_gone _ (fun s h => by cases s <;> first | rfl | cases h) d]; rfl

/-! ### hypotheses on a document, as decidable predicates -/

/-- no decay line that is read (first block of each mother) uses an alias standing for another alias -/
def usedAliasesOK (d : Doc) : Bool :=
  (dedupLoop (decayBlocks d)).all fun b => b.2.all (lineAliasOK (dictModelAliasesRaw d))

/-- every alias label used in a decay line is defined by a ModelAlias with a written-out model -/
def lineAliasNamed (aliases : List (String × ModelRef)) (ln : DLine) : Bool :=
  match ln.model with
  | .named _ _ => true
  | .alias l => match dget aliases l with
    | some (.named _ _) => true
    | _ => false

def allAliasesNamed (d : Doc) : Bool :=
  (decayBlocks d).all fun b => b.2.all (lineAliasNamed (dictModelAliasesRaw d))

theorem lineAliasOK_of_named (aliases : List (String × ModelRef)) (ln : DLine)
    (h : lineAliasNamed aliases ln = true) : lineAliasOK aliases ln = true := by
  unfold lineAliasNamed at h
  unfold lineAliasOK
  cases hm : ln.model with
  | named n o => rfl
  | alias l =>
    simp only [hm] at h ⊢
    cases ha : dget aliases l with
    | none => rfl
    | some m' =>
      cases m' with
      | named _ _ => rfl
      | alias _ => simp [ha] at h

theorem usedAliasesOK_of_allNamed (d : Doc) (h : allAliasesNamed d = true) : usedAliasesOK d = true := by
  unfold allAliasesNamed at h
  unfold usedAliasesOK
  simp only [List.all_eq_true] at h ⊢
  intro b hb ln hl
  exact lineAliasOK_of_named _ _ (h b (dedupLoop_subset _ b hb) ln hl)

theorem substLine_named_of_aliasNamed (aliases : List (String × ModelRef)) (txt : List (String × String))
    (ln : DLine) (h : lineAliasNamed aliases ln = true) :
    ∃ n o, (substLine aliases txt ln).model = .named n o := by
  obtain ⟨bf, ds, ph, m⟩ := ln
  cases m with
  | named n o => exact ⟨n, _, rfl⟩
  | alias l =>
    cases ha : dget aliases l with
    | none => simp [lineAliasNamed, ha] at h
    | some m' =>
      cases m' with
      | alias _ => simp [lineAliasNamed, ha] at h
      | named n o => exact ⟨n, substOpts txt o, by simp only [substLine, substModel, ha]⟩


end DL
