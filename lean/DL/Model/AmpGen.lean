/-
L7: reading AmpGen option files (`modeling/amplitudechain.py`, `ampgentransform.py`): statements,
`from_matched_line`, `expand_lines`, `read_ampgen`, and the class-level reader state.
Particles are looked up through an oracle (`particle_from_string_name` of the real code, sent with
each operation): a name is mapped to a key identifying the particle.  Import-free.
-/
import DL.Model.Chain
import DL.Model.Perm
namespace DL

/-- `decay : particle (decaytype? subdecay)?` after the transformer -/
inductive ADecay where
  | mk (name : String) (spin : Option String) (ls : Option String) (ds : List ADecay)
  deriving Inhabited

def ADecay.name : ADecay → String | .mk n _ _ _ => n
def ADecay.spin : ADecay → Option String | .mk _ s _ _ => s
def ADecay.ls : ADecay → Option String | .mk _ _ l _ => l
def ADecay.ds : ADecay → List ADecay | .mk _ _ _ d => d

/-- a `cplx_decay_line`: the tree, the two fix flags (integers as written) and four numerals -/
structure ALine where
  tree : ADecay
  flag1 : Int
  val1 : String
  err1 : String
  flag2 : Int
  val2 : String
  err2 : String
  deriving Inhabited

inductive AStmt where
  | eventType (names : List String)
  | constant (name val : String)
  | variable (name : String) (flag : Int) (val err : String)
  | line (l : ALine)
  | cartLine            -- `cart_decay_line`: parsed, ignored by the reader
  | invertLine          -- `invert_line`: parsed, ignored
  | fastCoherentSum (n : Nat)
  | output (s : String)
  | nEvents (n : Nat)
  deriving Inhabited

/-- an amplitude chain (one node): written name, particle key, tags, daughters; the coupling of a
    main line stays symbolic -/
inductive AChain where
  | mk (name : String) (particle : String) (spin : Option String) (ls : Option String)
       (coupling : Option (Bool × Bool × String × String × String × String))  -- (fix, cartesian, v1, v2, e1, e2)
       (ds : List AChain)
  deriving Inhabited

def AChain.name : AChain → String | .mk n _ _ _ _ _ => n
def AChain.particle : AChain → String | .mk _ p _ _ _ _ => p
def AChain.ds : AChain → List AChain | .mk _ _ _ _ _ d => d
def AChain.withDs : AChain → List AChain → AChain | .mk n p s l c _, d => .mk n p s l c d

inductive AmpErr where
  | particleNotFound (name : String)
  | noEventType
  | fuel
  deriving Repr, DecidableEq, Inhabited

/-- `checkfixed`: the flag is "set" when the integer is > 0; a line is fixed unless both are set -/
def lineFix (f1 f2 : Int) : Bool := !(decide (f1 > 0) && decide (f2 > 0))

mutual
  /-- `from_matched_line` on a sub-tree (no coupling); also returns the particles seen, in order -/
  def chainOfDecay (lookup : String → Option String) : ADecay → Except AmpErr (AChain × List String)
    | .mk n s l ds =>
      match lookup n with
      | none => .error (.particleNotFound n)
      | some p =>
        match chainsOfDecays lookup ds with
        | .error e => .error e
        | .ok (cs, seen) => .ok (.mk n p s l none cs, p :: seen)
  def chainsOfDecays (lookup : String → Option String) : List ADecay → Except AmpErr (List AChain × List String)
    | [] => .ok ([], [])
    | d :: r =>
      match chainOfDecay lookup d, chainsOfDecays lookup r with
      | .ok (c, s1), .ok (cs, s2) => .ok (c :: cs, s1 ++ s2)
      | .error e, _ => .error e
      | _, .error e => .error e
end

/-- `from_matched_line` on a main line -/
def chainOfLine (lookup : String → Option String) (cartesian : Bool) (l : ALine) : Except AmpErr (AChain × List String) :=
  match chainOfDecay lookup l.tree with
  | .error e => .error e
  | .ok (.mk n p s ls _ ds, seen) =>
    .ok (.mk n p s ls (some (lineFix l.flag1 l.flag2, cartesian, l.val1, l.val2, l.err1, l.err2)) ds, seen)

/-- `expand_lines(linelist)`: dead-end daughters are replaced by every expansion of the lines written
    separately under that name; returns the expansions and the final particles met (in order) -/
def expandLines (linelist : List AChain) : Nat → AChain → Except AmpErr (List AChain × List String)
  | 0, _ => .error .fuel
  | f + 1, c =>
    if !c.ds.isEmpty then
      match c.ds.mapM (expandLines linelist f) with
      | .error e => .error e
      | .ok rs =>
        .ok ((cartesian (rs.map (·.1))).map c.withDs, (rs.map (·.2)).flatten)
    else
      match (linelist.filter (fun ln => ln.name == c.name)).mapM (expandLines linelist f) with
      | .error e => .error e
      | .ok rs =>
        let trees := (rs.map (·.1)).flatten
        if trees.isEmpty then .ok ([c], [c.particle]) else .ok (trees, (rs.map (·.2)).flatten)

/-- the class-level state of a reader class -/
structure RState where
  allParticles : List String       -- set, kept in first-seen order without repeats
  finalParticles : List String
  cartesian : Bool
  deriving Repr, DecidableEq, Inhabited

def RState.init : RState := { allParticles := [], finalParticles := [], cartesian := false }

def addSet (s : List String) (xs : List String) : List String :=
  xs.foldl (fun acc x => if acc.contains x then acc else acc ++ [x]) s

structure ReadOut where
  eventType : List String                              -- particle keys, in order
  parameters : List (String × Bool × String × String)  -- (name, fix, value, error) one row per line
  constants : List (String × String)
  lines : List AChain
  deriving Inhabited

/-- whether the reader resets its class-level state at the start of a read (read from the source by
    the translator: `DL/Gen/ClassState.lean`) -/
structure ResetPolicy where
  allParticles : Bool
  finalParticles : Bool
  cartesian : Bool
  deriving Repr, DecidableEq, Inhabited

def stEvent : AStmt → Option (List String)
  | .eventType ns => some ns
  | _ => none
def stFcs : AStmt → Option Nat
  | .fastCoherentSum n => some n
  | _ => none
def stVariable : AStmt → Option (String × Bool × String × String)
  | .variable n f v e => some (n, decide (f > 0), v, e)
  | _ => none
def stConstant : AStmt → Option (String × String)
  | .constant n v => some (n, v)
  | _ => none
def stLine : AStmt → Option ALine
  | .line l => some l
  | _ => none

/-- the parameter table: one row per parameter line, in order -/
def parsOf (stmts : List AStmt) : List (String × Bool × String × String) := stmts.filterMap stVariable
/-- the constants table: one row per constant line, in order -/
def constsOf (stmts : List AStmt) : List (String × String) := stmts.filterMap stConstant

/-- the state a read starts from: what the reset policy leaves of the previous state -/
def startState (pol : ResetPolicy) (st : RState) : RState :=
  { allParticles := if pol.allParticles then [] else st.allParticles,
    finalParticles := if pol.finalParticles then [] else st.finalParticles,
    cartesian := if pol.cartesian then false else st.cartesian }

/-- the coupling interpretation: set by the coherent-sum option when present, else whatever the
    class-level switch is at that moment -/
def cartOf (st0 : RState) (stmts : List AStmt) : Bool :=
  match stmts.filterMap stFcs with
  | [n] => n != 0
  | _ => st0.cartesian

/-- `AmplitudeChain.read_ampgen` on the statement list -/
def readAmpgen (pol : ResetPolicy) (lookup : String → Option String) (st : RState) (stmts : List AStmt) :
    Except AmpErr (ReadOut × RState) :=
  match stmts.filterMap stEvent with
  | [ev] =>
    match ev.mapM (fun n => match lookup n with | some p => Except.ok p | none => Except.error (AmpErr.particleNotFound n)) with
    | .error e => .error e
    | .ok states =>
      let st0 := startState pol st
      let cart := cartOf st0 stmts
      match (stmts.filterMap stLine).mapM (chainOfLine lookup cart) with
      | .error e => .error e
      | .ok built =>
        let lineArr := built.map (·.1)
        let tops := lineArr.filter (fun l => some l.particle == states.head?)
        match tops.mapM (expandLines lineArr 64) with
        | .error e => .error e
        | .ok expanded =>
          .ok ({ eventType := states, parameters := parsOf stmts, constants := constsOf stmts,
                 lines := (expanded.map (·.1)).flatten },
               { allParticles := addSet st0.allParticles (built.map (·.2)).flatten,
                 finalParticles := addSet st0.finalParticles (expanded.map (·.2)).flatten,
                 cartesian := cart })
  | _ => .error .noEventType

end DL
