/-
L4: `DecayChain.flatten` (decay.py) as the loop the code runs, over an arbitrary type of branching
fractions with a multiplication.  Import-free.
-/
import DL.Model.Chain
namespace DL

/-- what `flatten` uses of a `DecayMode` -/
structure FMode (α : Type) where
  bf : α
  ds : List String
  deriving Repr, Inhabited

def mpow {α : Type} [Mul α] [One α] (a : α) : Nat → α
  | 0 => 1
  | n + 1 => mpow a n * a

/-- state of the loop: visible branching fraction and the final state as a multiset (list) -/
abbrev FSt (α : Type) := α × List String

/-- body of `for k in keys` for one key: with `n = fs[k]`, `bf *= b_k ** n`, the daughters of `k`
    are added `n` times and `k` is removed `n` times (for `n = 0` nothing changes) -/
def fstep {α : Type} [Mul α] [One α] (decays : List (String × FMode α)) (st : FSt α) (k : String) : FSt α :=
  match dget decays k with
  | none => st
  | some md =>
    let n := st.2.count k
    (st.1 * mpow md.bf n, st.2.filter (· != k) ++ (List.replicate n md.ds).flatten)

def fpass {α : Type} [Mul α] [One α] (decays : List (String × FMode α)) (keys : List String) (st : FSt α) : FSt α :=
  keys.foldl (fstep decays) st

/-- `while further_to_replace`: one pass, then again while some key is still present -/
def floop {α : Type} [Mul α] [One α] (decays : List (String × FMode α)) (keys : List String) :
    Nat → FSt α → Option (FSt α)
  | 0, _ => none
  | f + 1, st =>
    let st' := fpass decays keys st
    if keys.any (fun k => st'.2.count k > 0) then floop decays keys f st' else some st'

inductive FlatErr where
  | motherStable      -- ValueError of `keys.index(self.mother)`
  | noMother
  | fuel              -- the loop did not end (cyclic chain: Python loops for ever)
  deriving Repr, DecidableEq, Inhabited

/-- the key list: the decaying particles not declared stable, the mother first -/
def flattenKeys (allKeys stable : List String) (mother : String) : Option (List String) :=
  let keys := allKeys.filter (fun k => !stable.contains k)
  if keys.contains mother then some (mother :: keys.erase mother) else none

/-- `DecayChain.flatten(stable_particles)`: (bf, final state sorted) -/
def flatten {α : Type} [Mul α] [One α] (decays : List (String × FMode α)) (mother : String)
    (stable : List String) (fuel : Nat) : Except FlatErr (α × List String) :=
  match dget decays mother with
  | none => .error .noMother
  | some top =>
    match flattenKeys (dkeys decays) stable mother with
    | none => .error .motherStable
    | some keys =>
      match floop decays keys fuel (top.bf, top.ds) with
      | none => .error .fuel
      | some (bf, fs) => .ok (bf, ssort fs)

end DL
