/-
Wire encodings (S-expressions) of the model's values, for the driver.  Import-free.
-/
import DL.Model.Sexp
import DL.Model.Print
import DL.Model.Descriptor
import DL.Model.Flatten
import DL.Model.Viewer
import DL.Model.AmpGen
import DL.Model.AmpRead
import DL.Model.Perm
import DL.Model.ModelLex
import DL.Model.GooFit
import DL.Model.DecRead
namespace DL
open Sexp

/-! ### decoding -/

def decPairs (x : Sexp) : Option (List (String × String)) := do
  let l ← x.asList
  l.mapM fun p => match p with
    | .list [.atom k, .atom v] => some (k, v)
    | _ => none

def decRat (s : String) : Option Rat :=
  match s.splitOn "/" with
  | [n, d] => do
    let n ← n.toInt?
    let d ← d.toNat?
    if d == 0 then none else some ((n : Rat) / (d : Rat))
  | [n] => n.toInt?.map (fun (i : Int) => (i : Rat))
  | _ => none

def decParam : Sexp → Option Param
  | .list [.atom "num", .atom l] => some (.num l)
  | .list [.atom "word", .atom w] => some (.word w)
  | _ => none

def decModelRef : Sexp → Option ModelRef
  | .list [.atom "alias", .atom l] => some (.alias l)
  | .list [.atom "named", .atom n, .atom "N"] => some (.named n none)
  | .list [.atom "named", .atom n, .list ps] => (ps.mapM decParam).map fun l => .named n (some l)
  | _ => none

def decDLine : Sexp → Option DLine
  | .list [.atom bf, ds, ph, m] => do
    let ds ← ds.asStrs
    let ph ← ph.asBool
    let m ← decModelRef m
    some { bf := bf, ds := ds, photos := ph, model := m }
  | _ => none

def decStmt : Sexp → Option Stmt
  | .list [.atom "define", .atom n, .atom v] => some (.define n v)
  | .list [.atom "particle_def", .atom n, .atom m, .atom "N"] => some (.particleDef n m none)
  | .list [.atom "particle_def", .atom n, .atom m, .list [.atom w]] => some (.particleDef n m (some w))
  | .list [.atom "pythia", .atom k, .atom a, .atom b, v] => (decParam v).map (.pythia k a b)
  | .list [.atom "jetset", .atom l, .atom v] => some (.jetset l v)
  | .list [.atom "ls_def", .atom k, .atom n] => some (.lsDef k n)
  | .list [.atom "inc_factor", .atom k, .atom n, y] => y.asBool.map (.incFactor k n)
  | .list [.atom "setlsbw", .atom n, .atom v] => some (.setLsBW n v)
  | .list [.atom "setlspw", .atom a, .atom b, .atom c, .atom v] => some (.setLsPW a b c v)
  | .list [.atom "cdecay", .atom n] => some (.cdecay n)
  | .list [.atom "alias", .atom a, .atom b] => some (.alias a b)
  | .list [.atom "chargeconj", .atom a, .atom b] => some (.chargeConj a b)
  | .list [.atom "changemasslimit", .atom k, .atom n, .atom v] => some (.changeMass k n v)
  | .list [.atom "global_photos", y] => y.asBool.map .globalPhotos
  | .list [.atom "decay", .atom m, .list ls] => (ls.mapM decDLine).map (.decay m)
  | .list [.atom "copydecay", .atom a, .atom b] => some (.copyDecay a b)
  | .list [.atom "model_alias", .atom n, m] => (decModelRef m).map (.modelAlias n)
  | _ => none

def decDoc (x : Sexp) : Option Doc := x.asList.bind (·.mapM decStmt)

/-- chains: `(C mother (M payload (item…)) …)`, item = `(L name)` | `(S chain)` -/
partial def decChain {β : Type} (pay : Sexp → Option β) : Sexp → Option (Chain β)
  | .list (.atom "C" :: .atom m :: modes) => do
    let ms ← modes.mapM fun md => match md with
      | .list [.atom "M", p, .list items] => do
        let p ← pay p
        let its ← items.mapM fun it => match it with
          | .list [.atom "L", .atom n] => some (Sum.inl n)
          | .list [.atom "S", c] => (decChain pay c).map Sum.inr
          | _ => none
        some (p, its)
      | _ => none
    some (.mk m ms)
  | _ => none

def decInfo : Sexp → Option Info
  | .list [.atom bf, rest] => (decPairs rest).map fun r => { bf := bf, rest := r }
  | _ => none

def decMode : Sexp → Option Mode
  | .list [.atom bf, ds, md] => do
    let ds ← ds.asStrs
    let md ← decPairs md
    some { bf := bf, ds := ds, mdat := md }
  | _ => none

def decModeDict : Sexp → Option ModeDict
  | .list [bf, fs, rest] => do
    let bf ← match bf with
      | .atom "N" => some none
      | .list [.atom b] => some (some b)
      | _ => none
    let fs ← match fs with
      | .atom "N" => some none
      | .list [l] => l.asStrs.map some
      | _ => none
    let rest ← decPairs rest
    some { bf := bf, fs := fs, rest := rest }
  | _ => none

/-! ### encoding -/

def encPairs (l : List (String × String)) : Sexp := .list (l.map fun (k, v) => .list [.atom k, .atom v])

def encRat (q : Rat) : Sexp := .atom (ratText q)

def encPVal : PVal → Sexp
  | .num q => .list [.atom "num", encRat q]
  | .word w => .list [.atom "word", .atom w]

def encParams : Option (List PVal) → Sexp
  | none => .atom "N"
  | some l => .list (l.map encPVal)

def encLine (l : Line) : Sexp :=
  .list [encRat l.bf, strs l.ds, bool l.photos, .atom l.model, encParams l.params]

def encTables (t : Tables) : Sexp := .list (t.map fun (m, ls) => .list [.atom m, .list (ls.map encLine)])

def encSemErr : SemErr → Sexp
  | .undefinedModel w => tag "err" [.atom "UndefinedModel", .atom w]
  | .aliasOfAlias w => tag "err" [.atom "AliasOfAlias", .atom w]
  | .badNumber s => tag "err" [.atom "BadNumber", .atom s]
  | .decayNotFound m => tag "err" [.atom "DecayNotFound", .atom m]
  | .runtime w => tag "err" [.atom "RuntimeError", .atom w]
  | .fuel => tag "err" [.atom "Fuel"]

partial def encChain {β : Type} (pay : β → Sexp) : Chain β → Sexp
  | .mk m modes => .list (.atom "C" :: .atom m :: modes.map fun (p, its) =>
      .list [.atom "M", pay p, .list (its.map fun it => match it with
        | .inl n => .list [.atom "L", .atom n]
        | .inr c => .list [.atom "S", encChain pay c])])

def encInfo (i : Info) : Sexp := .list [.atom i.bf, encPairs i.rest]
def encLInfo (i : LInfo) : Sexp := .list [encRat i.bf, .atom i.model, encParams i.params]

def encMode (m : Mode) : Sexp := .list [.atom m.bf, strs m.ds, encPairs m.mdat]

def encModeDict (d : ModeDict) : Sexp :=
  .list [match d.bf with | none => .atom "N" | some b => .list [.atom b],
         match d.fs with | none => .atom "N" | some l => .list [strs l],
         encPairs d.rest]

def encChainErr : ChainErr → Sexp
  | .badFormat => tag "err" [.atom "BadFormat"]
  | .notSingle => tag "err" [.atom "NotSingle"]
  | .noMother => tag "err" [.atom "NoMother"]
  | .recursion => tag "err" [.atom "Recursion"]

def encSVal : SVal → Sexp
  | .int n => .list [.atom "int", .atom (toString n)]
  | .num q => .list [.atom "num", encRat q]
  | .special s => .list [.atom "special", .atom s]
  | .word w => .list [.atom "word", .atom w]

def encLVal : LVal → Sexp
  | .name s => .list [.atom "name", .atom s]
  | .num q => .list [.atom "num", encRat q]
  | .flag b => .list [.atom "flag", bool b]

def encDict2 {V : Type} (f : V → Sexp) (d : List (String × List (String × V))) : Sexp :=
  .list (d.map fun (k, inner) => .list [.atom k, .list (inner.map fun (k2, v) => .list [.atom k2, f v])])

def encGraph (g : Graph) : Sexp :=
  .list [.list (.list [.atom "mother", strs [g.root], bool true] ::
           g.nodes.map fun n => .list [.atom ("dec" ++ toString n.id), strs n.cells, bool n.ports]),
         .list (g.edges.map fun e => .list [.atom (match e.src with
             | none => "mother"
             | some (k, i) => "dec" ++ toString k ++ ":p" ++ toString i),
           .atom ("dec" ++ toString e.dst), .atom e.label])]

/-! ### AmpGen -/

def decOptStr : Sexp → Option (Option String)
  | .atom "N" => some none
  | .atom s => some (some s)
  | _ => none

partial def decADecay : Sexp → Option ADecay
  | .list [.atom "D", .atom n, sp, ls, .list ds] => do
    let sp ← decOptStr sp
    let ls ← decOptStr ls
    let ds ← ds.mapM decADecay
    some (.mk n sp ls ds)
  | _ => none

def decAStmt : Sexp → Option AStmt
  | .list [.atom "event_type", ns] => ns.asStrs.map .eventType
  | .list [.atom "constant", .atom n, .atom v] => some (.constant n v)
  | .list [.atom "variable", .atom n, f, .atom v, .atom e] => f.asInt.map fun f => .variable n f v e
  | .list [.atom "line", d, f1, .atom v1, .atom e1, f2, .atom v2, .atom e2] => do
    let d ← decADecay d
    let f1 ← f1.asInt
    let f2 ← f2.asInt
    some (.line { tree := d, flag1 := f1, val1 := v1, err1 := e1, flag2 := f2, val2 := v2, err2 := e2 })
  | .list [.atom "cart_line"] => some .cartLine
  | .list [.atom "invert_line"] => some .invertLine
  | .list [.atom "fcs", n] => n.asNat.map .fastCoherentSum
  | .list [.atom "output", .atom s] => some (.output s)
  | .list [.atom "nevents", n] => n.asNat.map .nEvents
  | _ => none

def decRState : Sexp → Option RState
  | .list [a, f, c] => do
    let a ← a.asStrs; let f ← f.asStrs; let c ← c.asBool
    some { allParticles := a, finalParticles := f, cartesian := c }
  | _ => none

def decPolicy : Sexp → Option ResetPolicy
  | .list [a, f, c] => do
    let a ← a.asBool; let f ← f.asBool; let c ← c.asBool
    some { allParticles := a, finalParticles := f, cartesian := c }
  | _ => none

def encOptStr : Option String → Sexp
  | none => .atom "N"
  | some s => .list [.atom s]

partial def encAChain : AChain → Sexp
  | .mk n p sp ls cp ds =>
    .list [.atom n, .atom p, encOptStr sp, encOptStr ls,
      (match cp with
       | none => .atom "N"
       | some (fix, cart, v1, v2, e1, e2) => .list [bool fix, bool cart, .atom v1, .atom v2, .atom e1, .atom e2]),
      .list (ds.map encAChain)]

def encRState (s : RState) : Sexp := .list [strs s.allParticles, strs s.finalParticles, bool s.cartesian]

def encReadOut (r : ReadOut) : Sexp :=
  .list [strs r.eventType,
         .list (r.parameters.map fun (n, f, v, e) => .list [.atom n, bool f, .atom v, .atom e]),
         .list (r.constants.map fun (n, v) => .list [.atom n, .atom v]),
         .list (r.lines.map encAChain)]

def encAmpErr : AmpErr → Sexp
  | .particleNotFound n => tag "err" [.atom "ParticleNotFound", .atom n]
  | .noEventType => tag "err" [.atom "NoEventType"]
  | .fuel => tag "err" [.atom "Fuel"]

/-! ### GooFit emission -/

partial def decGNodeA : Sexp → Option GNodeA
  | .list [.atom n, .atom st, j, c, .atom prog, sp, ls, .list ds] => do
    let j ← j.asNat
    let c ← c.asBool
    let sp ← decOptStr sp
    let ls ← decOptStr ls
    let ds ← ds.mapM decGNodeA
    some (.mk n st j c prog sp ls ds)
  | _ => none

def encLsKind : LsKind → Sexp
  | .rbw => .list [.atom "RBW"]
  | .gspline => .list [.atom "GSpline"]
  | .kmatrix p pole => .list [.atom "kMatrix", .atom p, bool pole]
  | .focus m => .list [.atom "FOCUS", .atom m]

def encAmpOut (a : AmpOut) : Sexp :=
  .list [.list (a.spinBlock.map fun s => .list [.atom s.sf, .list (s.perm.map nat)]),
         .list (a.lineBlock.map fun l => .list [encLsKind l.kind, .atom l.name, .atom l.prog, nat l.L, .atom l.mass, nat l.radius10]),
         nat a.nPerms]

def encEmitErr : EmitErr → Sexp
  | .shape w => tag "err" [.atom "Shape", .atom w]
  | .unknownSpin d => tag "err" [.atom "LineFailure", .atom d]
  | .unknownLineshape l => tag "err" [.atom "UnknownLineshape", .atom l]
  | .perms => tag "err" [.atom "RuntimeError"]
  | .lTooLarge => tag "err" [.atom "NotImplementedError"]

/-! ### statements back to the wire -/

def encParam : Param → Sexp
  | .num l => .list [.atom "num", .atom l]
  | .word w => .list [.atom "word", .atom w]

def encModelRef : ModelRef → Sexp
  | .alias l => .list [.atom "alias", .atom l]
  | .named n none => .list [.atom "named", .atom n, .atom "N"]
  | .named n (some ps) => .list [.atom "named", .atom n, .list (ps.map encParam)]

def encDLine (l : DLine) : Sexp := .list [.atom l.bf, strs l.ds, bool l.photos, encModelRef l.model]

def encStmt : Stmt → Sexp
  | .define n v => .list [.atom "define", .atom n, .atom v]
  | .particleDef n m none => .list [.atom "particle_def", .atom n, .atom m, .atom "N"]
  | .particleDef n m (some w) => .list [.atom "particle_def", .atom n, .atom m, .list [.atom w]]
  | .pythia k a b v => .list [.atom "pythia", .atom k, .atom a, .atom b, encParam v]
  | .jetset l v => .list [.atom "jetset", .atom l, .atom v]
  | .lsDef k n => .list [.atom "ls_def", .atom k, .atom n]
  | .incFactor k n y => .list [.atom "inc_factor", .atom k, .atom n, bool y]
  | .setLsBW n v => .list [.atom "setlsbw", .atom n, .atom v]
  | .setLsPW a b c v => .list [.atom "setlspw", .atom a, .atom b, .atom c, .atom v]
  | .cdecay n => .list [.atom "cdecay", .atom n]
  | .alias a b => .list [.atom "alias", .atom a, .atom b]
  | .chargeConj a b => .list [.atom "chargeconj", .atom a, .atom b]
  | .changeMass k n v => .list [.atom "changemasslimit", .atom k, .atom n, .atom v]
  | .globalPhotos y => .list [.atom "global_photos", bool y]
  | .decay m ls => .list [.atom "decay", .atom m, .list (ls.map encDLine)]
  | .copyDecay a b => .list [.atom "copydecay", .atom a, .atom b]
  | .modelAlias n m => .list [.atom "model_alias", .atom n, encModelRef m]

/-- L7 reader: a decay tree and the statements with the numerals as written (the `conv_amp_tree` form) -/
partial def encADecay : ADecay → Sexp
  | .mk n s l ds => .list [.atom "D", .atom n, encOptStr s, encOptStr l, .list (ds.map encADecay)]

def encAStmtT : Amp.AStmtT → Sexp
  | .eventType ns => .list [.atom "event_type", strs ns]
  | .constant n v => .list [.atom "constant", .atom n, .atom v]
  | .variable n f v e => .list [.atom "variable", .atom n, .atom f, .atom v, .atom e]
  | .line d f1 v1 e1 f2 v2 e2 => .list [.atom "line", encADecay d, .atom f1, .atom v1, .atom e1, .atom f2, .atom v2, .atom e2]
  | .cartLine => .list [.atom "cart_line"]
  | .invertLine => .list [.atom "invert_line"]
  | .fastCoherentSum n => .list [.atom "fcs", .atom n]
  | .output s => .list [.atom "output", .atom s]
  | .nEvents n => .list [.atom "nevents", .atom n]

def decAStmtT : Sexp → Option Amp.AStmtT
  | .list [.atom "event_type", ns] => ns.asStrs.map .eventType
  | .list [.atom "constant", .atom n, .atom v] => some (.constant n v)
  | .list [.atom "variable", .atom n, .atom f, .atom v, .atom e] => some (.variable n f v e)
  | .list [.atom "line", d, .atom f1, .atom v1, .atom e1, .atom f2, .atom v2, .atom e2] =>
    (decADecay d).map fun d => .line d f1 v1 e1 f2 v2 e2
  | .list [.atom "cart_line"] => some .cartLine
  | .list [.atom "invert_line"] => some .invertLine
  | .list [.atom "fcs", .atom n] => some (.fastCoherentSum n)
  | .list [.atom "output", .atom s] => some (.output s)
  | .list [.atom "nevents", .atom n] => some (.nEvents n)
  | _ => none

end DL
