/-
`DecFileParser.__init__` on files (dec.py): decoding (UTF-8 with optional byte order mark, universal
newlines), dropping lone `End` lines, one line feed appended after each file.  Import-free.
-/
namespace DL

/-- `open(encoding="utf_8_sig")` with universal newlines, on the decoded characters: a leading byte
    order mark is dropped, `\r\n` and `\r` become `\n` -/
def translateNewlinesAux (afterCR : Bool) : List Char → List Char
  | [] => []
  | c :: r =>
    if afterCR && c == '\n' then translateNewlinesAux false r      -- the line feed of a CR LF pair (already emitted)
    else if c == '\r' then '\n' :: translateNewlinesAux true r
    else c :: translateNewlinesAux false r

def translateNewlines (cs : List Char) : List Char := translateNewlinesAux false cs

def decodeFile : List Char → List Char
  | '﻿' :: r => translateNewlines r
  | cs => translateNewlines cs

/-- `for line in file`: lines with their line feed (the last one possibly without) -/
def splitLines : List Char → List Char → List (List Char)
  | [], cur => if cur.isEmpty then [] else [cur.reverse]
  | '\n' :: r, cur => ('\n' :: cur).reverse :: splitLines r []
  | c :: r, cur => splitLines r (c :: cur)

def isSpaceRe (c : Char) : Bool := c == ' ' || c == '\t' || c == '\n' || c == '\r' || c == '\x0b' || c == '\x0c'

def dropSpaces : List Char → List Char
  | c :: r => if isSpaceRe c then dropSpaces r else c :: r
  | [] => []

def lstripBom : List Char → List Char
  | '﻿' :: r => lstripBom r
  | cs => cs

/-- `re.match(r"^\s*End\s*(#.*)?$", line.lstrip("﻿"))` on one line (which ends with at most one line feed) -/
def isLoneEnd (line : List Char) : Bool :=
  match dropSpaces (lstripBom line) with
  | 'E' :: 'n' :: 'd' :: r =>
    match dropSpaces r with
    | [] => true
    | '#' :: c => !(c.dropLast.contains '\n')      -- `.` does not match a line feed; `$` may sit before a final one
    | _ => false
  | _ => false

/-- the text handed to the parser -/
def concatFiles (files : List (List Char)) : List Char :=
  files.flatMap fun f => ((splitLines f []).filter (fun l => !isLoneEnd l)).flatten ++ ['\n']

end DL
