/-
`DecFileParser.print_decay_modes` (dec.py) on exact rationals: which rows are printed, in which
order, with which value.  Import-free.
-/
import DL.Model.DecSem
namespace DL

structure PrintOpts where
  pdgName : Bool := false
  printModel : Bool := true
  displayPhotos : Bool := true
  ascending : Bool := false
  normalize : Bool := false
  scale : Option Rat := none
  deriving Repr, Inhabited

structure PRowOut where
  shown : String            -- `%.7g` of the exact value
  exact : Rat               -- bf / norm, exactly
  ds : List String
  model : Option String     -- `none` when the model is not printed
  params : List PVal
  deriving Repr, Inhabited

inductive PrintErr where
  | sem (e : SemErr)
  | options         -- RuntimeError: normalize together with scale, or scale outside ]0, 1]
  | unknownPdgName
  | zeroDivision
  deriving Repr, Inhabited

def sortRows (asc : Bool) (ls : List Line) : List Line :=
  ls.mergeSort (fun a b => if asc then decide (a.bf ≤ b.bf) else decide (b.bf ≤ a.bf))

/-- the option check at the top of `print_decay_modes` -/
def optsRefused (o : PrintOpts) : Bool :=
  match o.scale with
  | some s => o.normalize || !(decide (0 < s) && decide (s ≤ 1))
  | none => false

def sumBf (ls : List Line) : Rat := (ls.map (·.bf)).sum

/-- the divisor: the sum when normalising; (largest bf)/scale when scaling (the largest is the last row
    when ascending, else the first); 1 otherwise.  `none`: scaling an empty table (IndexError) -/
def normOf (o : PrintOpts) (sorted : List Line) : Option Rat :=
  if o.normalize then some (sumBf sorted)
  else match o.scale with
    | some s => ((if o.ascending then sorted.getLast? else sorted.head?).map fun l => l.bf / s)
    | none => some 1

def rowOut (o : PrintOpts) (norm : Rat) (l : Line) : PRowOut :=
  let v := l.bf / norm
  { shown := fmtG7 v, exact := v, ds := l.ds,
    model := if o.printModel then some (l.modelShown o.displayPhotos) else none,
    params := if o.printModel then l.params.getD [] else [] }

def printRows (pdg2evt : List (String × String)) (t : Tables) (mother : String) (o : PrintOpts) :
    Except PrintErr (List PRowOut) :=
  if optsRefused o then .error .options else
  match (if o.pdgName then dget pdg2evt mother else some mother) with
  | none => .error .unknownPdgName
  | some m =>
    match findModes t m with
    | .error e => .error (.sem e)
    | .ok ls =>
      let sorted := sortRows o.ascending ls
      match normOf o sorted with
      | none => .error (.sem (.runtime "IndexError"))
      | some norm =>
        if norm == 0 && !sorted.isEmpty then .error .zeroDivision
        else .ok (sorted.map (rowOut o norm))

end DL
