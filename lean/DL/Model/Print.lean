/-
`DecFileParser.print_decay_modes` (dec.py) on exact rationals: which rows are printed, in which
order, with which value.  Import-free.
-/
import DL.Model.DecSem
namespace DL

structure PrintOpts where
  pdgName : Bool := false
  printModel : Bool := true
  displayPhotos : Bool := true
  ascending : Bool := false
  normalize : Bool := false
  scale : Option Rat := none
  deriving Repr, Inhabited

structure PRowOut where
  shown : String            -- `%.7g` of the exact value
  exact : Rat               -- bf / norm, exactly
  ds : List String
  model : Option String     -- `none` when the model is not printed
  params : List PVal
  deriving Repr, Inhabited

inductive PrintErr where
  | sem (e : SemErr)
  | options         -- RuntimeError: normalize together with scale, or scale outside ]0, 1]
  | unknownPdgName
  | zeroDivision
  deriving Repr, Inhabited

def sortRows (asc : Bool) (ls : List Line) : List Line :=
  ls.mergeSort (fun a b => if asc then decide (a.bf ≤ b.bf) else decide (b.bf ≤ a.bf))

def printRows (pdg2evt : List (String × String)) (t : Tables) (mother : String) (o : PrintOpts) :
    Except PrintErr (List PRowOut) := do
  match o.scale with
  | some s =>
    if o.normalize then throw .options
    if !(0 < s && s ≤ 1) then throw .options
  | none => pure ()
  let m ← if o.pdgName then
      match dget pdg2evt mother with
      | some e => pure e
      | none => throw .unknownPdgName
    else pure mother
  let ls ← match findModes t m with
    | .ok ls => pure ls
    | .error e => throw (.sem e)
  let sorted := sortRows o.ascending ls
  let norm : Rat ←
    if o.normalize then pure (sorted.foldl (fun acc l => acc + l.bf) 0)
    else match o.scale with
      | some s =>
        -- the largest branching fraction: last row when ascending, else the first
        match (if o.ascending then sorted.getLast? else sorted.head?) with
        | some l => pure (l.bf / s)
        | none => throw (.sem (.runtime "IndexError"))
      | none => pure 1
  if norm == 0 && !sorted.isEmpty then throw .zeroDivision
  pure (sorted.map fun l =>
    let v := l.bf / norm
    { shown := fmtG7 v, exact := v, ds := l.ds,
      model := if o.printModel then some (l.modelShown o.displayPhotos) else none,
      params := if o.printModel then l.params.getD [] else [] })

end DL
