/-
The MODEL_NAME terminal of decfile.lark after `edit_terminals` (dec.py): the alternation of all
registered model names, longest first, followed by the boundary "not followed by a word character".
A regular-expression alternation tries the alternatives in order and keeps the first one for which
the rest of the pattern (here the look-ahead) succeeds.  Import-free.
-/
namespace DL

def isWordChar (c : Char) : Bool :=
  ('a' ≤ c && c ≤ 'z') || ('A' ≤ c && c ≤ 'Z') || ('0' ≤ c && c ≤ '9') || c == '_'

/-- `sorted(models, key=len, reverse=True)`: stable, longer names first -/
def sortModels (names : List String) : List String :=
  names.mergeSort (fun a b => decide (b.length ≤ a.length))

/-- is `p` a prefix of `cs`; returns the rest -/
def stripPrefix : List Char → List Char → Option (List Char)
  | [], cs => some cs
  | _ :: _, [] => none
  | a :: p, c :: cs => if a = c then stripPrefix p cs else none

/-- the look-ahead `(?![a-zA-Z0-9_])` -/
def boundaryOK : List Char → Bool
  | [] => true
  | c :: _ => !isWordChar c

/-- first alternative (in the given order) that matches with its boundary -/
def firstMatch : List String → List Char → Option (String × List Char)
  | [], _ => none
  | m :: ms, cs =>
    match stripPrefix m.toList cs with
    | some rest => if boundaryOK rest then some (m, rest) else firstMatch ms cs
    | none => firstMatch ms cs

/-- MODEL_NAME at the head of the input -/
def lexModel (names : List String) (cs : List Char) : Option (String × List Char) :=
  firstMatch (sortModels names) cs

/-- `_generate_edit_terminals_callback`: the published list followed by the user's names -/
def registered (known user : List String) : List String := known ++ user

end DL
