/-
L8: what `GooFitChain` / `GooFitPyChain` (modeling/goofit.py) emit for one amplitude, as structure:
the spin-factor block, the line-factor block and the declared number of permutations.  Particle
attributes (spin type, J, charm content) come with each node from the harness (oracle: the
`particle` package); the table of known spin structures is regenerated from the source.  Import-free.
-/
import DL.Model.Perm
namespace DL

/-- a node of an amplitude with the attributes the emitters use -/
inductive GNodeA where
  | mk (name : String) (spinType : String) (twoJ : Nat) (charm : Bool) (prog : String)
       (spin : Option String) (ls : Option String) (ds : List GNodeA)
  deriving Inhabited

namespace GNodeA
def name : GNodeA → String | .mk n _ _ _ _ _ _ _ => n
def spinType : GNodeA → String | .mk _ s _ _ _ _ _ _ => s
def twoJ : GNodeA → Nat | .mk _ _ j _ _ _ _ _ => j
def charm : GNodeA → Bool | .mk _ _ _ c _ _ _ _ => c
def prog : GNodeA → String | .mk _ _ _ _ p _ _ _ => p
def spin : GNodeA → Option String | .mk _ _ _ _ _ s _ _ => s
def ls : GNodeA → Option String | .mk _ _ _ _ _ _ l _ => l
def ds : GNodeA → List GNodeA | .mk _ _ _ _ _ _ _ d => d
end GNodeA

mutual
  /-- `structure` flattened: the final-state names in tree order -/
  def flatNames : GNodeA → List String
    | .mk n _ _ _ _ _ _ ds => if ds.isEmpty then [n] else flatNamesL ds
  def flatNamesL : List GNodeA → List String
    | [] => []
    | d :: r => flatNames d ++ flatNamesL r
end

mutual
  /-- `vertexes`: the two-body sub-decays, depth first -/
  def vertexes : GNodeA → List GNodeA
    | .mk _ _ _ _ _ _ _ ds => vertexesL ds
  def vertexesL : List GNodeA → List GNodeA
    | [] => []
    | d :: r => (if d.ds.length == 2 then d :: vertexes d else []) ++ vertexesL r
end

/-- `sprint(spin_type)` -/
def sprint (t : String) : String :=
  if t == "PseudoTensor" || t == "PseudoScalar" then String.ofList ((t.toList.drop 6).take 1 |>.map Char.toLower)
  else String.ofList (t.toList.take 1)

inductive Topology where
  | ff1234     -- FF_12_34 : two two-body resonances
  | ff1_2_34   -- FF_1_2_34 : cascade
  deriving Repr, DecidableEq, Inhabited

inductive EmitErr where
  | shape (why : String)        -- IndexError / LineFailure on a tree that is not a four-body line
  | unknownSpin (details : String)
  | unknownLineshape (ls : String)
  | perms
  | lTooLarge
  deriving Repr, DecidableEq, Inhabited

def topology (n : GNodeA) : Except EmitErr Topology :=
  match n.ds with
  | a :: b :: _ => .ok (if a.ds.length == 2 && b.ds.length == 2 then .ff1234 else .ff1_2_34)
  | _ => .error (.shape "fewer than two daughters")

/-- `spindetails()` -/
def spinDetails (n : GNodeA) : Except EmitErr String :=
  match n.ds with
  | a :: b :: _ =>
    if a.ds.length == 2 && b.ds.length == 2 then
      let sa := sprint a.spinType ++ "1"
      let sb := sprint b.spinType ++ "2"
      let suffix := match n.spin with
        | some s => if s != "S" && s != "" then "_" ++ s else ""
        | none => ""
      .ok ("Dto" ++ sa ++ sb ++ "_" ++ sa ++ "toP1P2_" ++ sb ++ "toP3P4" ++ suffix)
    else
      match a.ds with
      | c :: _ =>
        let sa := sprint a.spinType ++ "1"
        let sb := sprint c.spinType ++ "2"
        let wave := match a.spin with
          | some s => if s != "S" && s != "" then s ++ "wave" else ""
          | none => ""
        .ok ("Dto" ++ sa ++ "P1_" ++ sa ++ "to" ++ sb ++ "P2" ++ wave ++ "_" ++ sb ++ "toP3P4")
      | [] => .error (.shape "no daughters")
  | _ => .error (.shape "fewer than two daughters")

def natAbsDiff (a b : Int) : Nat := (a - b).natAbs

/-- `L`: from the spin tag when written, else the smallest orbital momentum allowed by the spins -/
def orbitalL (n : GNodeA) : Except EmitErr Nat :=
  match n.spin with
  | some s =>
    if s == "S" then .ok 0 else if s == "P" then .ok 1 else if s == "D" then .ok 2 else if s == "F" then .ok 3
    else if s == "" then minL n else .error (.shape "spin tag")
  | none => minL n
where
  minL (n : GNodeA) : Except EmitErr Nat :=
    match n.ds with
    | a :: b :: _ =>
      let S : Int := n.twoJ
      let s1 : Int := a.twoJ
      let s2 : Int := b.twoJ
      let m := min (min ((S - s1 - s2).natAbs) ((S + s1 - s2).natAbs)) ((S - s1 + s2).natAbs)
      .ok (m / 2)      -- all J integral for the particles in play; halves are rounded down
    | _ => .error (.shape "fewer than two daughters")

/-- `formfactor` -/
def formFactor (top : Topology) (L : Nat) : Except EmitErr (Option String) :=
  match L with
  | 0 => .ok none
  | 1 => .ok (some (if top == .ff1234 then "FF_12_34_L1" else "FF_123_4_L1"))
  | 2 => .ok (some (if top == .ff1234 then "FF_12_34_L2" else "FF_123_4_L2"))
  | _ => .error .lTooLarge

/-- `spinfactors`: the table entry for the spin structure, plus the form factor when L > 0 -/
def spinFactors (table : List (String × List String)) (n : GNodeA) : Except EmitErr (List String) := do
  let d ← spinDetails n
  match table.find? (·.1 == d) with
  | none => throw (.unknownSpin d)
  | some (_, sfs) =>
    let L ← orbitalL n
    if L > 0 then
      let top ← topology n
      match ← formFactor top L with
      | some ff => pure (sfs ++ [ff])
      | none => pure sfs
    else pure sfs

inductive LsKind where
  | rbw | gspline | kmatrix (pterm : String) (isPole : Bool) | focus (mod : String)
  deriving Repr, DecidableEq, Inhabited

/-- `ls_enum` with the pieces `make_lineshape` takes from the tag -/
def lsKind (tag : Option String) : Except EmitErr LsKind :=
  match tag with
  | none => .ok .rbw
  | some t =>
    if t == "" then .ok .rbw
    else if t == "GSpline.EFF" then .ok .gspline
    else if t.startsWith "kMatrix" then
      match t.splitOn "." with
      | [_, pp, pterm] => .ok (.kmatrix pterm (pp == "pole"))
      | _ => .error (.unknownLineshape t)
    else if t.startsWith "FOCUS" then
      match t.splitOn "." with
      | [_, m] => .ok (.focus m)
      | _ => .error (.unknownLineshape t)
    else .error (.unknownLineshape t)

/-- one emitted lineshape: kind, resonance name as written, programmatic name, L, mass symbol, radius x 10 -/
structure LsOut where
  kind : LsKind
  name : String
  prog : String
  L : Nat
  mass : String
  radius10 : Nat
  deriving Repr, DecidableEq, Inhabited

/-- one emitted spin factor: the SF_4Body name and the permutation it carries -/
structure SfOut where
  sf : String
  perm : List Nat
  deriving Repr, DecidableEq, Inhabited

def massSymbols (top : Topology) (p : List Nat) : Except EmitErr (String × String) :=
  match p with
  | [a, b, c, d] =>
    let s (n : Nat) := toString (n + 1)
    match top with
    | .ff1234 => .ok ("M_" ++ s a ++ s b, "M_" ++ s c ++ s d)
    | .ff1_2_34 => .ok ("M_" ++ s a ++ s b ++ "_" ++ s c, "M_" ++ s a ++ s b)
  | _ => .error (.shape "not a four-body permutation")

structure AmpOut where
  spinBlock : List SfOut
  lineBlock : List LsOut
  nPerms : Nat
  deriving Repr, DecidableEq, Inhabited

/-- the lineshapes emitted for one permutation: one per vertex, with the mass symbol built from
    that same permutation -/
def linesFor (top : Topology) (verts : List GNodeA) (p : List Nat) : Except EmitErr (List LsOut) :=
  match massSymbols top p with
  | .error e => .error e
  | .ok (m1, m2) =>
    (List.zip (List.range verts.length) verts).mapM fun (iv : Nat × GNodeA) =>
      match lsKind iv.2.ls, orbitalL iv.2, [m1, m2][iv.1]? with
      | .ok kind, .ok L, some m =>
        .ok ({ kind := kind, name := iv.2.name, prog := iv.2.prog, L := L, mass := m, radius10 := if iv.2.charm then 50 else 15 } : LsOut)
      | .error e, _, _ => .error e
      | _, .error e, _ => .error e
      | _, _, none => .error (.shape "more than two vertexes")

/-- `to_goofit(final_states)` as structure -/
def emitAmp (table : List (String × List String)) (n : GNodeA) (fs : List String) : Except EmitErr AmpOut :=
  match listStructure (flatNames n) fs with
  | .error _ => .error .perms
  | .ok perms =>
    match spinFactors table n, topology n with
    | .error e, _ => .error e
    | _, .error e => .error e
    | .ok sfs, .ok top =>
      match perms.mapM (linesFor top (vertexes n)) with
      | .error e => .error e
      | .ok blocks =>
        .ok { spinBlock := perms.flatMap fun p => sfs.map fun sf => ({ sf := sf, perm := p } : SfOut),
              lineBlock := blocks.flatten, nPerms := perms.length }

end DL
