/-
L6: `DecayChainViewer._build_decay_graph` (decay/viewer.py): the nodes and edges added to the
graph, with the process-wide counter threaded as state.  Node `k` is the DOT node `dec<k>`; the root
node is `mother`.  Import-free.
-/
import DL.Model.Chain
namespace DL

structure GNode where
  id : Nat                 -- `dec<id>`
  cells : List String      -- names shown, in order
  ports : Bool             -- table with PORT tags p0, p1, … (a line with at least one sub-chain)
  deriving Repr, DecidableEq, Inhabited

structure GEdge where
  src : Option (Nat × Nat) -- `none`: from the root `mother`; `some (k, i)`: from `dec<k>:p<i>`
  dst : Nat
  label : String
  deriving Repr, DecidableEq, Inhabited

def hasSub {β : Type} (fs : List (Item β)) : Bool := fs.any fun | .inr _ => true | .inl _ => false

mutual
  /-- `iterate_chain(subchain, top_node, link_pos)`: the nodes and edges created, in creation order,
      and the counter afterwards; `lbl` gives the edge label `str(bf)` -/
  def iterChain {β : Type} (lbl : β → String) (src : Option (Nat × Nat)) :
      List (CMode β) → Nat → (List GNode × List GEdge) × Nat
    | [], n => (([], []), n)
    | (i, fs) :: rest, n =>
      let node : GNode := { id := n, cells := fs.map Item.name, ports := hasSub fs }
      let edge : GEdge := { src := src, dst := n, label := lbl i }
      let ((ns1, es1), n1) := iterFs lbl n fs 0 (n + 1)
      let ((ns2, es2), n2) := iterChain lbl src rest n1
      ((node :: ns1 ++ ns2, edge :: es1 ++ es2), n2)
  /-- the loop over the daughters of the line drawn as node `ref`, `pos` = position of the daughter -/
  def iterFs {β : Type} (lbl : β → String) (ref : Nat) :
      List (Item β) → Nat → Nat → (List GNode × List GEdge) × Nat
    | [], _, n => (([], []), n)
    | .inl _ :: r, pos, n => iterFs lbl ref r (pos + 1) n
    | .inr c :: r, pos, n =>
      let ((ns1, es1), n1) := iterSub lbl (some (ref, pos)) c n
      let ((ns2, es2), n2) := iterFs lbl ref r (pos + 1) n1
      ((ns1 ++ ns2, es1 ++ es2), n2)
  def iterSub {β : Type} (lbl : β → String) (src : Option (Nat × Nat)) :
      Chain β → Nat → (List GNode × List GEdge) × Nat
    | .mk _ modes, n => iterChain lbl src modes n
end

/-! ### the HTML-like label of a node (`html_table_label`, `safe_html_name`)

`safe_html_name(n)` is the HTML spelling the `particle` package gives for an EvtGen name and, for any
other name, the name with the three markup characters escaped.  The table of HTML spellings is an
oracle (`tbl`, sent by the harness for the names of the chain). -/

def escapeHtmlChars : List Char → List Char
  | [] => []
  | c :: r =>
    if c = '&' then '&' :: 'a' :: 'm' :: 'p' :: ';' :: escapeHtmlChars r
    else if c = '<' then '&' :: 'l' :: 't' :: ';' :: escapeHtmlChars r
    else if c = '>' then '&' :: 'g' :: 't' :: ';' :: escapeHtmlChars r
    else c :: escapeHtmlChars r

def safeHtml (tbl : List (String × String)) (n : String) : List Char :=
  match dget tbl n with
  | some h => h.toList
  | none => escapeHtmlChars n.toList

/-- `<TD BORDER="0" CELLPADDING="2">text</TD>` -/
def tdPlain (text : List Char) : List Char :=
  "<TD".toList ++ " BORDER=\"0\" CELLPADDING=\"2\"".toList ++ ['>'] ++ text ++ "</TD>".toList

/-- `<TD BORDER="1" CELLPADDING="5" PORT="p<i>">text</TD>` -/
def tdPort (i : Nat) (text : List Char) : List Char :=
  "<TD".toList ++ (" BORDER=\"1\" CELLPADDING=\"5\" PORT=\"p".toList ++ (toString i).toList ++ ['"']) ++ ['>']
    ++ text ++ "</TD>".toList

def trOf (cells : List (List Char)) : List Char := "<TR>".toList ++ cells.flatten ++ "</TR>".toList

/-- the cells shown: a line without daughters still gets one (empty) cell -/
def shownNames (names : List String) : List String := if names.isEmpty then [""] else names

def portRows (safe : String → List Char) : List String → Nat → List (List Char)
  | [], _ => []
  | n :: r, i => trOf [tdPort i (safe n)] :: portRows safe r (i + 1)

def tableAttrs (addTags : Bool) (bg : String) : List Char :=
  (if addTags then " BORDER=\"0\" CELLSPACING=\"0\" BGCOLOR=\"".toList
   else " BORDER=\"0\" CELLSPACING=\"0\" CELLPADDING=\"0\" BGCOLOR=\"".toList) ++ bg.toList ++ ['"']

/-- the rows of the table: one row per name with a PORT tag, or a single row of plain cells -/
def labelRows (safe : String → List Char) (names : List String) (addTags : Bool) : List (List Char) :=
  if addTags then portRows safe (shownNames names) 0
  else [trOf ((shownNames names).map fun n => tdPlain (safe n))]

/-- `html_table_label(names, add_tags, bgcolor)` -/
def htmlTableLabel (safe : String → List Char) (names : List String) (addTags : Bool) (bg : String) : List Char :=
  "<<TABLE".toList ++ tableAttrs addTags bg ++ ['>'] ++ (labelRows safe names addTags).flatten ++ "</TABLE>>".toList

/-- the label of a decay-line node: PORT rows on the darker background when a daughter decays,
    else one row of plain cells on the light background -/
def GNode.label (safe : String → List Char) (nd : GNode) : List Char :=
  if nd.ports then htmlTableLabel safe nd.cells true "#9abad6"
  else htmlTableLabel safe nd.cells false "#eef3f8"

/-- the label of the root node -/
def rootLabel (safe : String → List Char) (mother : String) : List Char :=
  htmlTableLabel safe [mother] true "#568dba"

structure Graph where
  root : String            -- the cell of the root node `mother`
  nodes : List GNode
  edges : List GEdge
  deriving Repr, DecidableEq, Inhabited

/-- the whole graph of one viewer; counter in, counter out -/
def viewerGraph {β : Type} (lbl : β → String) (c : Chain β) (counter : Nat) : Graph × Nat :=
  let ((ns, es), n) := iterChain lbl none c.modes counter
  ({ root := c.mother, nodes := ns, edges := es }, n)

end DL
