/-
L6: `DecayChainViewer._build_decay_graph` (decay/viewer.py): the nodes and edges added to the
graph, with the process-wide counter threaded as state.  Import-free.
-/
import DL.Model.Chain
namespace DL

structure GNode where
  id : String
  cells : List String      -- names shown, in order
  ports : Bool             -- table with PORT tags (node with sub-chains, or the root)
  deriving Repr, DecidableEq, Inhabited

structure GEdge where
  src : String             -- "mother", "decN" or "decN:pI"
  dst : String
  label : String
  deriving Repr, DecidableEq, Inhabited

structure Graph where
  nodes : List GNode
  edges : List GEdge
  deriving Repr, DecidableEq, Inhabited

def hasSub {β : Type} (fs : List (Item β)) : Bool := fs.any fun | .inr _ => true | .inl _ => false

mutual
  /-- `iterate_chain(subchain, top_node, link_pos)`; `β → String` gives the edge label `str(bf)` -/
  def iterChain {β : Type} (lbl : β → String) (src : String) :
      List (CMode β) → Nat → Graph → Graph × Nat
    | [], n, g => (g, n)
    | (i, fs) :: rest, n, g =>
      let ref := "dec" ++ toString n
      let node : GNode := { id := ref, cells := fs.map Item.name, ports := hasSub fs }
      let g1 : Graph := { nodes := g.nodes ++ [node], edges := g.edges ++ [{ src := src, dst := ref, label := lbl i }] }
      let (g2, n2) := iterFs lbl ref fs 0 (n + 1) g1
      iterChain lbl src rest n2 g2
  def iterFs {β : Type} (lbl : β → String) (ref : String) :
      List (Item β) → Nat → Nat → Graph → Graph × Nat
    | [], _, n, g => (g, n)
    | .inl _ :: r, pos, n, g => iterFs lbl ref r (pos + 1) n g
    | .inr c :: r, pos, n, g =>
      let (g1, n1) := iterSub lbl (ref ++ ":p" ++ toString pos) c n g
      iterFs lbl ref r (pos + 1) n1 g1
  def iterSub {β : Type} (lbl : β → String) (src : String) : Chain β → Nat → Graph → Graph × Nat
    | .mk _ modes, n, g => iterChain lbl src modes n g
end

/-- the whole graph of one viewer: the root node `mother`, then the lines; counter in, counter out -/
def viewerGraph {β : Type} (lbl : β → String) (c : Chain β) (counter : Nat) : Graph × Nat :=
  let root : GNode := { id := "mother", cells := [c.mother], ports := true }
  iterChain lbl "mother" c.modes counter { nodes := [root], edges := [] }

end DL
