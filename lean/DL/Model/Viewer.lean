/-
L6: `DecayChainViewer._build_decay_graph` (decay/viewer.py): the nodes and edges added to the
graph, with the process-wide counter threaded as state.  Node `k` is the DOT node `dec<k>`; the root
node is `mother`.  Import-free.
-/
import DL.Model.Chain
namespace DL

structure GNode where
  id : Nat                 -- `dec<id>`
  cells : List String      -- names shown, in order
  ports : Bool             -- table with PORT tags p0, p1, … (a line with at least one sub-chain)
  deriving Repr, DecidableEq, Inhabited

structure GEdge where
  src : Option (Nat × Nat) -- `none`: from the root `mother`; `some (k, i)`: from `dec<k>:p<i>`
  dst : Nat
  label : String
  deriving Repr, DecidableEq, Inhabited

def hasSub {β : Type} (fs : List (Item β)) : Bool := fs.any fun | .inr _ => true | .inl _ => false

mutual
  /-- `iterate_chain(subchain, top_node, link_pos)`: the nodes and edges created, in creation order,
      and the counter afterwards; `lbl` gives the edge label `str(bf)` -/
  def iterChain {β : Type} (lbl : β → String) (src : Option (Nat × Nat)) :
      List (CMode β) → Nat → (List GNode × List GEdge) × Nat
    | [], n => (([], []), n)
    | (i, fs) :: rest, n =>
      let node : GNode := { id := n, cells := fs.map Item.name, ports := hasSub fs }
      let edge : GEdge := { src := src, dst := n, label := lbl i }
      let ((ns1, es1), n1) := iterFs lbl n fs 0 (n + 1)
      let ((ns2, es2), n2) := iterChain lbl src rest n1
      ((node :: ns1 ++ ns2, edge :: es1 ++ es2), n2)
  /-- the loop over the daughters of the line drawn as node `ref`, `pos` = position of the daughter -/
  def iterFs {β : Type} (lbl : β → String) (ref : Nat) :
      List (Item β) → Nat → Nat → (List GNode × List GEdge) × Nat
    | [], _, n => (([], []), n)
    | .inl _ :: r, pos, n => iterFs lbl ref r (pos + 1) n
    | .inr c :: r, pos, n =>
      let ((ns1, es1), n1) := iterSub lbl (some (ref, pos)) c n
      let ((ns2, es2), n2) := iterFs lbl ref r (pos + 1) n1
      ((ns1 ++ ns2, es1 ++ es2), n2)
  def iterSub {β : Type} (lbl : β → String) (src : Option (Nat × Nat)) :
      Chain β → Nat → (List GNode × List GEdge) × Nat
    | .mk _ modes, n => iterChain lbl src modes n
end

structure Graph where
  root : String            -- the cell of the root node `mother`
  nodes : List GNode
  edges : List GEdge
  deriving Repr, DecidableEq, Inhabited

/-- the whole graph of one viewer; counter in, counter out -/
def viewerGraph {β : Type} (lbl : β → String) (c : Chain β) (counter : Nat) : Graph × Nat :=
  let ((ns, es), n) := iterChain lbl none c.modes counter
  ({ root := c.mother, nodes := ns, edges := es }, n)

end DL
