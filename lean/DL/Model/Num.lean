/-
L0: numbers.  `SIGNED_NUMBER` literals (lark `common.SIGNED_NUMBER`) with their exact value as a
rational, and Python's `%.7g` rendering of an exact rational.  Import-free.

SIGNED_NUMBER = ["+"|"-"] ( INT EXP | (INT "." INT? | "." INT) EXP? | INT ),  EXP = ("e"|"E") ["+"|"-"] INT
-/
namespace DL

def isDigit (c : Char) : Bool := '0' ≤ c && c ≤ '9'

def takeDigits : List Char → List Char × List Char
  | [] => ([], [])
  | c :: r => if isDigit c then let (d, rest) := takeDigits r; (c :: d, rest) else ([], c :: r)

def digitsVal (ds : List Char) : Nat := ds.foldl (fun acc c => acc * 10 + (c.toNat - '0'.toNat)) 0

/-- exponent as written: the letter, the optional sign character, the digits -/
structure ExpLit where
  letter : Char
  sign : Option Char
  digits : List Char
  deriving Repr, DecidableEq, Inhabited

def ExpLit.neg (e : ExpLit) : Bool := e.sign == some '-'

/-- exponent part `(e|E)[+-]?d+`; returns (exponent, rest) -/
def takeExp : List Char → Option (ExpLit × List Char)
  | c :: r =>
    if c == 'e' || c == 'E' then
      let (sg, r') := match r with
        | '+' :: t => (some '+', t)
        | '-' :: t => (some '-', t)
        | _ => (none, r)
      let (d, rest) := takeDigits r'
      if d.isEmpty then none else some ({ letter := c, sign := sg, digits := d }, rest)
    else none
  | [] => none

/-- a numeric literal, structurally -/
structure NumLit where
  neg : Bool
  hasSign : Bool
  int : List Char
  frac : Option (List Char)          -- digits after the point, when a point is written
  exp : Option ExpLit
  deriving Repr, DecidableEq, Inhabited

/-- the first-match reading of a `SIGNED_NUMBER` at the head of the input, as lark's regexp does -/
def readNumber (cs : List Char) : Option (NumLit × List Char) :=
  let (hasSign, neg, r) := match cs with
    | '+' :: t => (true, false, t)
    | '-' :: t => (true, true, t)
    | _ => (false, false, cs)
  let (d, r1) := takeDigits r
  if !d.isEmpty then
    match takeExp r1 with
    | some (ex, rest) => some ({ neg, hasSign, int := d, frac := none, exp := some ex }, rest)
    | none =>
      match r1 with
      | '.' :: r2 =>
        let (f, r3) := takeDigits r2
        match takeExp r3 with
        | some (ex, rest) => some ({ neg, hasSign, int := d, frac := some f, exp := some ex }, rest)
        | none => some ({ neg, hasSign, int := d, frac := some f, exp := none }, r3)
      | _ => some ({ neg, hasSign, int := d, frac := none, exp := none }, r1)
  else
    match r with
    | '.' :: r2 =>
      let (f, r3) := takeDigits r2
      if f.isEmpty then none
      else match takeExp r3 with
        | some (ex, rest) => some ({ neg, hasSign, int := [], frac := some f, exp := some ex }, rest)
        | none => some ({ neg, hasSign, int := [], frac := some f, exp := none }, r3)
    | _ => none

def NumLit.show (n : NumLit) : List Char :=
  (if n.hasSign then [if n.neg then '-' else '+'] else []) ++ n.int ++
  (match n.frac with | some f => '.' :: f | none => []) ++
  (match n.exp with | some ex => ex.letter :: ((match ex.sign with | some c => [c] | none => []) ++ ex.digits) | none => [])

def pow10 (n : Nat) : Nat := 10 ^ n

/-- exact value of the literal -/
def NumLit.value (n : NumLit) : Rat :=
  let f := n.frac.getD []
  let mant : Nat := digitsVal n.int * pow10 f.length + digitsVal f
  let base : Rat := (mant : Rat) / (pow10 f.length : Rat)
  let scaled : Rat := match n.exp with
    | none => base
    | some ex => if ex.neg then base / (pow10 (digitsVal ex.digits) : Rat) else base * (pow10 (digitsVal ex.digits) : Rat)
  if n.neg then -scaled else scaled

/-- value of a text that is entirely one literal (what `float(text)` computes, exactly) -/
def numValue (s : String) : Option Rat :=
  match readNumber s.toList with
  | some (n, []) => some n.value
  | _ => none

/-- `int(text)` succeeds exactly for an optionally signed run of digits -/
def intValue (s : String) : Option Int :=
  match readNumber s.toList with
  | some (n, []) =>
    if n.frac.isNone && n.exp.isNone then
      some (if n.neg then -(digitsVal n.int : Int) else (digitsVal n.int : Int))
    else none
  | _ => none

def ratText (q : Rat) : String := toString q.num ++ "/" ++ toString q.den

/-! ### `%.7g` -/

/-- largest `e` (searched downwards from `hi`) with `10^e ≤ x`, as an integer exponent; x > 0 -/
def floorLog10 (x : Rat) : Int :=
  -- x = n/d ; compare digit counts, then fix up
  let n := x.num.toNat
  let d := x.den
  let ln := (toString n).length
  let ld := (toString d).length
  let e0 : Int := (ln : Int) - (ld : Int)
  -- 10^(e0-1) < x < 10^(e0+1)
  let ge (e : Int) : Bool :=   -- 10^e ≤ x
    if e ≥ 0 then decide ((pow10 e.toNat : Rat) ≤ x) else decide ((1 : Rat) ≤ x * (pow10 (-e).toNat : Rat))
  if ge e0 then e0 else e0 - 1

/-- round to nearest integer, ties to even; x ≥ 0 -/
def roundHalfEven (x : Rat) : Nat :=
  let fl := (x.num / x.den).toNat
  let rem : Rat := x - (fl : Rat)
  if rem < (1 : Rat) / 2 then fl
  else if rem > (1 : Rat) / 2 then fl + 1
  else if fl % 2 == 0 then fl else fl + 1

def stripZerosRev : List Char → List Char
  | '0' :: r => stripZerosRev r
  | l => l

def padLeft (s : String) (n : Nat) (c : Char) : String :=
  String.ofList (List.replicate (n - s.length) c) ++ s

/-- the seven significant digits and the decimal exponent of a positive rational: `x ≈ n · 10^(e-6)` with `10^6 ≤ n < 10^7`,
    `n` the nearest integer to `x · 10^(6-e)` (ties to even), one digit passed up when rounding reaches `10^7` -/
def sig7 (x : Rat) : Nat × Int :=
  let e := floorLog10 x
  let sc : Int := 6 - e
  let scaled : Rat := if sc ≥ 0 then x * (pow10 sc.toNat : Rat) else x / (pow10 (-sc).toNat : Rat)
  let n0 := roundHalfEven scaled
  if n0 ≥ 10000000 then (n0 / 10, e + 1) else (n0, e)

/-- the `%g` layout of seven significant digits `n` with decimal exponent `e`: scientific notation below `1e-4` and from
    `1e7` on, else positional; trailing zeros and a trailing point removed -/
def renderSig7 (n : Nat) (e : Int) : String :=
  let digs := (toString n).toList     -- exactly 7 digits
  if e < -4 || e ≥ 7 then
    -- scientific
    let head := digs.take 1
    let tail := (stripZerosRev (digs.drop 1).reverse).reverse
    let mant := String.ofList (head ++ (if tail.isEmpty then [] else '.' :: tail))
    let ea := e.natAbs
    mant ++ "e" ++ (if e < 0 then "-" else "+") ++ padLeft (toString ea) 2 '0'
  else if e ≥ 0 then
    let ip := digs.take (e.toNat + 1)
    let fp := (stripZerosRev (digs.drop (e.toNat + 1)).reverse).reverse
    String.ofList (ip ++ (if fp.isEmpty then [] else '.' :: fp))
  else
    let lead := List.replicate ((-e).toNat - 1) '0'
    let fp := (stripZerosRev digs.reverse).reverse
    String.ofList ('0' :: '.' :: (lead ++ fp))

/-- Python `format(x, ".7g")` for an exact non-negative rational -/
def fmtG7Pos (x : Rat) : String :=
  if x == 0 then "0" else
  let (n, e) := sig7 x
  renderSig7 n e

def fmtG7 (x : Rat) : String :=
  if x < 0 then "-" ++ fmtG7Pos (-x) else fmtG7Pos x

end DL
