/-
L7: a scannerless reader for AmpGen option files, mirroring what the Lark LALR parser with its
contextual lexer (`Lark(grammar, parser="lalr")`) accepts for `data/ampgen.lark`, and the statement
list `conv_amp_tree` makes of Lark's tree.  Total (every loop carries fuel bounded by the input
length); imports other model files only.

Measured behaviours of lark 1.3.1 on this grammar that are encoded here (each scanner of the
contextual lexer is ONE Python alternation, tried in the order priority, maximal width, length of
the pattern, name: the first alternative that matches wins, not the longest):

* the four keywords are whole `LABEL`s re-typed by a callback, and only at the start of a line (the
  only parser states that accept them): `EventTypeX`, `nEvents5` are particles; after `EventType`,
  `=`, `{`, `,` a keyword is an ordinary label.
* every `LABEL` leads to one LALR state (`particle : LABEL .`) whose merged look-ahead set makes the
  scanner `SIGNED_NUMBER | LABEL | _NEWLINE | , = { [ }` in this order: right after a label a word
  that starts like a number is cut as a number (`EventType D0 2pi` is a parse error, `EventType 2pi D0`
  is not: after the keyword only `LABEL` is acceptable).
* `_NEWLINE` is one token for a whole run of `\r?\n[\t ]*` and comments; it precedes `COMMENT` in
  every scanner that has it, so where a line may end a comment IS a line end (a text may end in a
  comment without a line feed); where a line may not end, a comment is skipped (`%ignore`) and what
  follows it (a line feed or the end of the text) is then an error.  The text must end with one
  `_NEWLINE` after the last line, a leading one is optional, at least one line is needed.
* a bare particle followed by a number: the shift/reduce conflict `decay : particle .` against
  `constant : particle . SIGNED_NUMBER` / `fix : . SIGNED_NUMBER` is resolved as shift, so it is a
  constant (one number) or a variable (three numbers), never a decay line; a decay line needs `{..}`.
* `[`: the scanner is `LINESHAPE | SPIN`; `LINESHAPE` needs two characters, so `[D]` is a spin and
  `[DD]`, `[D.]`, `[GSpline.EFF]` are lineshapes; after `;` only `LINESHAPE`.  `[ls1;ls2]` is accepted
  by the grammar and `conv_amp_tree` keeps the last one.  A decay type must be followed by `{`.
* tokens need no blanks between them: `x 2-1+0` is a variable, `Output"f"` an option.
-/
import DL.Model.Num
import DL.Model.AmpGen
namespace DL
namespace Amp

abbrev Inp := List Char
abbrev R := Except String

/-- the statements with every numeral as written (what `conv_amp_tree` returns) -/
inductive AStmtT where
  | eventType (names : List String)
  | constant (name val : String)
  | variable (name flag val err : String)
  | line (tree : ADecay) (f1 v1 e1 f2 v2 e2 : String)
  | cartLine
  | invertLine
  | fastCoherentSum (n : String)
  | output (s : String)          -- with its quotes, as the token is
  | nEvents (n : String)
  deriving Inhabited

/-! ### terminals -/

/-- `WS_INLINE` characters -/
def isBlank (c : Char) : Bool := c == ' ' || c == '\t'

def skipWs : Inp → Inp
  | c :: r => if isBlank c then skipWs r else c :: r
  | [] => []

/-- `[^\n]*` -/
def dropLine : Inp → Inp
  | c :: r => if c == '\n' then c :: r else dropLine r
  | [] => []

/-- one round of the `_NEWLINE` loop: `\r?\n[\t ]*` or a comment -/
def newlineUnit : Inp → Option Inp
  | '#' :: r => some (dropLine r)
  | '\r' :: '\n' :: r => some (skipWs r)
  | '\n' :: r => some (skipWs r)
  | _ => none

def newlineRun : Nat → Inp → Inp
  | 0, cs => cs
  | f + 1, cs =>
    match newlineUnit cs with
    | some r => newlineRun f r
    | none => cs

/-- `_NEWLINE` at the head of the input -/
def takeNewline (cs : Inp) : Option Inp :=
  match newlineUnit cs with
  | some r => some (newlineRun (r.length + 1) r)
  | none => none

/-- the ignored tokens in a state that does not accept `_NEWLINE`: blanks and comments -/
def skipIgnored : Nat → Inp → Inp
  | 0, cs => cs
  | f + 1, cs =>
    match skipWs cs with
    | '#' :: r => skipIgnored f (dropLine r)
    | cs' => cs'

def skipIgn (cs : Inp) : Inp := skipIgnored (cs.length + 1) cs

/-- `CHAR : LETTER | DIGIT | "_" | "/"` (ASCII letters) -/
def isCharC (c : Char) : Bool := c.isAlpha || isDigit c || c == '_' || c == '/'

/-- the one-character alternatives of `LABEL` -/
def isLabelC (c : Char) : Bool :=
  isCharC c || c == '\'' || c == '*' || c == '+' || c == '-' || c == '(' || c == ')'

def takeLabelChars : Inp → List Char × Inp
  | ':' :: ':' :: r => let (a, b) := takeLabelChars r; (':' :: ':' :: a, b)
  | c :: r => if isLabelC c then let (a, b) := takeLabelChars r; (c :: a, b) else ([], c :: r)
  | [] => ([], [])

/-- `LABEL` at the head of the input -/
def takeLabel (cs : Inp) : Option (String × Inp) :=
  let (a, b) := takeLabelChars cs
  if a.isEmpty then none else some (String.ofList a, b)

def takeWhileC (p : Char → Bool) : Inp → List Char × Inp
  | c :: r => if p c then let (a, b) := takeWhileC p r; (c :: a, b) else ([], c :: r)
  | [] => ([], [])

/-- `LINESHAPE : CHAR (CHAR | ".")+` -/
def takeLineshape : Inp → Option (String × Inp)
  | c :: r =>
    if isCharC c then
      let (a, b) := takeWhileC (fun x => isCharC x || x == '.') r
      if a.isEmpty then none else some (String.ofList (c :: a), b)
    else none
  | [] => none

/-- `SPIN : "S" | "P" | "D"` -/
def takeSpin : Inp → Option (String × Inp)
  | c :: r => if c == 'S' || c == 'P' || c == 'D' then some (String.singleton c, r) else none
  | [] => none

/-- `SIGNED_NUMBER`, as written -/
def takeNumber (cs : Inp) : Option (String × Inp) :=
  (readNumber cs).map fun (n, rest) => (String.ofList n.show, rest)

/-- `INT` -/
def takeInt (cs : Inp) : Option (String × Inp) :=
  let (d, r) := takeDigits cs
  if d.isEmpty then none else some (String.ofList d, r)

/-- the rest of `ESCAPED_STRING = ".*?(?<!\\)(\\\\)*?"` after the opening quote: up to the first quote
    preceded by an even number of backslashes, on one line.  `even`: parity of the backslash run so far -/
def strBody : Inp → Bool → List Char → Option (List Char × Inp)
  | [], _, _ => none
  | c :: r, even, acc =>
    if c == '\n' then none
    else if c == '"' && even then some (acc.reverse, r)
    else strBody r (if c == '\\' then !even else true) (c :: acc)

def takeString : Inp → Option (String × Inp)
  | '"' :: r =>
    match strBody r true [] with
    | some (body, rest) => some (String.ofList ('"' :: body ++ ['"']), rest)
    | none => none
  | _ => none

/-! ### the token after a `LABEL` -/

inductive Tok where
  | num (s : String)
  | label (s : String)
  | newline
  | punct (c : Char)        -- one of `, = { [ }`
  | other                   -- end of the text, or a character no alternative matches
  deriving Inhabited

/-- the scanner of the state `particle : LABEL .`; returns the token and the input after it -/
def afterLabel (cs : Inp) : Tok × Inp :=
  let j := skipWs cs
  match takeNumber j with
  | some (n, r) => (.num n, r)
  | none =>
    match takeLabel j with
    | some (w, r) => (.label w, r)
    | none =>
      match takeNewline j with
      | some r => (.newline, r)
      | none =>
        match j with
        | c :: r => if c == ',' || c == '=' || c == '{' || c == '[' || c == '}' then (.punct c, r) else (.other, j)
        | [] => (.other, j)

/-! ### the rules -/

def rLabel (cs : Inp) : R (String × Inp) :=
  match takeLabel (skipIgn cs) with
  | some x => .ok x
  | none => .error "label"

def rNumber (cs : Inp) : R (String × Inp) :=
  match takeNumber (skipIgn cs) with
  | some x => .ok x
  | none => .error "number"

def rChar (c : Char) (cs : Inp) : R Inp :=
  match skipIgn cs with
  | d :: r => if c == d then .ok r else .error ("expected " ++ String.singleton c)
  | [] => .error ("expected " ++ String.singleton c)

/-- `decaytype` after its `[`: (spin, lineshape) as `conv_decay` reads them (the last lineshape wins) -/
def rDecayType (cs : Inp) : R ((Option String × Option String) × Inp) := do
  let j := skipIgn cs
  match takeLineshape j with
  | some (l1, r) =>
    match skipIgn r with
    | ']' :: r' => pure ((none, some l1), r')
    | ';' :: r' =>
      match takeLineshape (skipIgn r') with
      | some (l2, r2) => let r3 ← rChar ']' r2; pure ((none, some l2), r3)
      | none => throw "lineshape"
    | _ => throw "decay type"
  | none =>
    match takeSpin j with
    | some (s, r) =>
      match skipIgn r with
      | ']' :: r' => pure ((some s, none), r')
      | ';' :: r' =>
        match takeLineshape (skipIgn r') with
        | some (l2, r2) => let r3 ← rChar ']' r2; pure ((some s, some l2), r3)
        | none => throw "lineshape"
      | _ => throw "decay type"
    | none => throw "spin or lineshape"

mutual
  /-- what follows the name of a decay: `(decaytype? subdecay)?`.  `none`: a bare particle (the input is
      returned untouched, the caller looks at the token after the label) -/
  def rDecayTail : Nat → String → Inp → R (Option ADecay × Inp)
    | 0, _, _ => .error "fuel"
    | f + 1, name, cs =>
      match afterLabel cs with
      | (.punct '[', r) =>
        match rDecayType r with
        | .error e => .error e
        | .ok ((sp, ls), r1) =>
          match rChar '{' r1 with
          | .error e => .error e
          | .ok r2 =>
            match rSub f r2 with
            | .error e => .error e
            | .ok (ds, r3) => .ok (some (.mk name sp ls ds), r3)
      | (.punct '{', r) =>
        match rSub f r with
        | .error e => .error e
        | .ok (ds, r3) => .ok (some (.mk name none none ds), r3)
      | _ => .ok (none, cs)
  /-- `subdecay` after its `{` -/
  def rSub : Nat → Inp → R (List ADecay × Inp)
    | 0, _ => .error "fuel"
    | f + 1, cs =>
      match rDecay f cs with
      | .error e => .error e
      | .ok (d1, r1) =>
        match rChar ',' r1 with
        | .error e => .error e
        | .ok r2 =>
          match rDecay f r2 with
          | .error e => .error e
          | .ok (d2, r3) =>
            match rChar '}' r3 with
            | .error e => .error e
            | .ok r4 => .ok ([d1, d2], r4)
  /-- a nested `decay` -/
  def rDecay : Nat → Inp → R (ADecay × Inp)
    | 0, _ => .error "fuel"
    | f + 1, cs =>
      match rLabel cs with
      | .error e => .error e
      | .ok (name, r) =>
        match rDecayTail f name r with
        | .error e => .error e
        | .ok (some d, r1) => .ok (d, r1)
        | .ok (none, _) =>
          -- a bare particle: the token after the label must be `,` or `}` (left to the caller)
          match afterLabel r with
          | (.punct ',', _) => .ok (.mk name none none [], r)
          | (.punct '}', _) => .ok (.mk name none none [], r)
          | _ => .error "after a daughter"
end

/-- the names of an `event_type` after the first one; each is lexed by the scanner after a label -/
def rEventNames : Nat → Inp → List String → R (List String × Inp)
  | 0, _, _ => .error "fuel"
  | f + 1, cs, acc =>
    match afterLabel cs with
    | (.label w, r) => rEventNames f r (w :: acc)
    | (.newline, _) => if acc.length ≥ 2 then .ok (acc.reverse, cs) else .error "event type needs two particles"
    | _ => .error "event type"

/-- `fixed_cplx` -/
def rThree (cs : Inp) : R ((String × String × String) × Inp) := do
  let (a, r) ← rNumber cs
  let (b, r) ← rNumber r
  let (c, r) ← rNumber r
  pure ((a, b, c), r)

/-- a line may end here (`_NEWLINE` is the next token) -/
def atNewline (cs : Inp) : Bool := (takeNewline (skipWs cs)).isSome

def keywords : List String := ["FastCoherentSum::UseCartesian", "Output", "nEvents", "EventType"]

/-- one `line`, from its first label; returns the input before the closing `_NEWLINE` -/
def rLine (cs : Inp) : R (AStmtT × Inp) := do
  let (w, r) ← rLabel cs
  if w == "EventType" then
    let (p1, r1) ← rLabel r
    let (ns, r2) ← rEventNames (r1.length + 2) r1 [p1]
    pure (.eventType ns, r2)
  else if w == "Output" then
    match takeString (skipIgn r) with
    | some (s, r1) => pure (.output s, r1)
    | none => throw "string"
  else if w == "nEvents" then
    match takeInt (skipIgn r) with
    | some (n, r1) => pure (.nEvents n, r1)
    | none => throw "integer"
  else if w == "FastCoherentSum::UseCartesian" then
    match takeInt (skipIgn r) with
    | some (n, r1) => pure (.fastCoherentSum n, r1)
    | none => throw "integer"
  else
    match afterLabel r with
    | (.num n1, r1) =>
      -- shift: a constant or a variable, never a decay
      if atNewline r1 then pure (.constant w n1, r1)
      else
        match takeNumber (skipWs r1) with
        | none => throw "number or end of line"
        | some (n2, r2) =>
          let (n3, r3) ← rNumber r2
          pure (.variable w n1 n2 n3, r3)
    | (.punct '=', r1) =>
      let (_, r2) ← rLabel r1
      pure (.invertLine, r2)
    | _ =>
      match ← rDecayTail (3 * r.length + 3) w r with
      | (none, _) => throw "after a particle"
      | (some d, r1) =>
        let ((f1, v1, e1), r2) ← rThree r1
        if atNewline r2 then pure (.cartLine, r2)
        else
          match takeNumber (skipWs r2) with
          | none => throw "number or end of line"
          | some (f2, r3) =>
            let (v2, r4) ← rNumber r3
            let (e2, r5) ← rNumber r4
            pure (.line d f1 v1 e1 f2 v2 e2, r5)

/-- `(line _NEWLINE)+` then the end of the text -/
def rLines : Nat → Inp → List AStmtT → R (List AStmtT)
  | 0, _, _ => .error "fuel"
  | f + 1, cs, acc =>
    match skipIgn cs with
    | [] => if acc.isEmpty then .error "no line" else .ok acc.reverse
    | j =>
      match rLine j with
      | .error e => .error e
      | .ok (st, r) =>
        match takeNewline (skipWs r) with
        | none => .error "end of line"
        | some r' => rLines f r' (st :: acc)

/-- the whole text, numerals as written -/
def readAmpText (text : String) : R (List AStmtT) :=
  let cs := skipWs text.toList
  let cs := match takeNewline cs with
    | some r => r
    | none => cs
  rLines (cs.length + 2) cs []

/-- the fix flags and the option values as integers (`int(..)` of the token: fails for `2.0`, `1e0`) -/
def AStmtT.toStmt : AStmtT → R AStmt
  | .eventType ns => .ok (.eventType ns)
  | .constant n v => .ok (.constant n v)
  | .variable n f v e =>
    match intValue f with
    | some k => .ok (.variable n k v e)
    | none => .error ("fix flag " ++ f)
  | .line d f1 v1 e1 f2 v2 e2 =>
    match intValue f1, intValue f2 with
    | some k1, some k2 => .ok (.line { tree := d, flag1 := k1, val1 := v1, err1 := e1, flag2 := k2, val2 := v2, err2 := e2 })
    | none, _ => .error ("fix flag " ++ f1)
    | _, none => .error ("fix flag " ++ f2)
  | .cartLine => .ok .cartLine
  | .invertLine => .ok .invertLine
  | .fastCoherentSum n => .ok (.fastCoherentSum (digitsVal n.toList))
  | .output s => .ok (.output s)
  | .nEvents n => .ok (.nEvents (digitsVal n.toList))

end Amp

/-- the statements of an option file: the text is read as Lark reads it, then the fix flags of the
    parameter and amplitude lines are read as integers (a flag that is not an integer is an error,
    as `int(..)` of it is) -/
def readAmp (text : String) : Except String (List AStmt) :=
  match Amp.readAmpText text with
  | .error e => .error e
  | .ok sts => sts.mapM Amp.AStmtT.toStmt

end DL
