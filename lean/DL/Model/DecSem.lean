/-
L2: what `DecFileParser.parse()` and the queries of `dec/dec.py` compute from the statement list.
Algorithm models: they follow the Python control flow (dictionary comprehensions = last wins,
de-duplication, alias/Define replacement, CopyDecay, CDecay).  Import-free.
-/
import DL.Model.Stmt
import DL.Model.Conj
namespace DL

/-- a model parameter after `parse()`: a float, or a word left verbatim -/
inductive PVal where
  | num (q : Rat)
  | word (w : String)
  deriving Repr, DecidableEq, Inhabited

/-- a decay line after `parse()` -/
structure Line where
  bf : Rat
  ds : List String
  photos : Bool
  model : String
  params : Option (List PVal)     -- `none`: no parameter list written (reported as "")
  deriving Repr, DecidableEq, Inhabited

/-- `_parsed_decays`: the decay tables in order -/
abbrev Tables := List (String × List Line)

inductive SemErr where
  | undefinedModel (w : String)     -- ValueError of DecayModelAliasReplacement
  | aliasOfAlias (w : String)       -- a ModelAlias naming another alias: queries fail (outside the properties)
  | badNumber (s : String)          -- cannot happen for texts the grammar accepts
  | decayNotFound (m : String)
  | runtime (what : String)         -- RuntimeError of a query
  | fuel
  deriving Repr, DecidableEq, Inhabited

/-! ### dictionary-valued global queries (dict comprehensions: last declaration wins) -/

def pairsToDict {V : Type} (l : List (String × V)) : List (String × V) :=
  l.foldl (fun acc (k, v) => dset acc k v) []

def stAlias : Stmt → Option (String × String)
  | .alias a b => some (a, b)
  | _ => none
def aliasPairs (d : Doc) : List (String × String) := d.filterMap stAlias
def dictAliases (d : Doc) : List (String × String) := pairsToDict (aliasPairs d)

def stChargeConj : Stmt → Option (String × String)
  | .chargeConj a b => some (a, b)
  | _ => none
def chargeConjPairs (d : Doc) : List (String × String) := d.filterMap stChargeConj
def dictChargeConj (d : Doc) : List (String × String) := pairsToDict (chargeConjPairs d)

def stCopy : Stmt → Option (String × String)
  | .copyDecay a b => some (a, b)
  | _ => none
def copyPairs (d : Doc) : List (String × String) := d.filterMap stCopy
def dictDecays2Copy (d : Doc) : List (String × String) := pairsToDict (copyPairs d)

def stDefine : Stmt → Option (String × Rat)
  | .define n v => (numValue v).map (n, ·)
  | _ => none
def definePairs (d : Doc) : List (String × Rat) := d.filterMap stDefine
def dictDefinitions (d : Doc) : List (String × Rat) := pairsToDict (definePairs d)

def stModelAlias : Stmt → Option (String × ModelRef)
  | .modelAlias n m => some (n, m)
  | _ => none
def modelAliasPairs (d : Doc) : List (String × ModelRef) := d.filterMap stModelAlias
def dictModelAliasesRaw (d : Doc) : List (String × ModelRef) := pairsToDict (modelAliasPairs d)

/-- `dict_model_aliases()`: `[MODEL_NAME, option, …]` as the token texts -/
def modelRefTokens : ModelRef → List String
  | .named n opts => n :: (opts.getD []).map fun | .num l => l | .word w => w
  | .alias l => [l]
def dictModelAliases (d : Doc) : List (String × List String) :=
  (dictModelAliasesRaw d).map fun (k, m) => (k, modelRefTokens m)

/-- `list_charge_conjugate_decays()`: sorted -/
def stCDecay : Stmt → Option String
  | .cdecay n => some n
  | _ => none
def cdecayNames (d : Doc) : List String := ssort (d.filterMap stCDecay)

def photosOf : Stmt → Option Bool
  | .globalPhotos y => some y
  | _ => none

/-- `global_photos_flag()`: the last flag, off when absent -/
def globalPhotos (d : Doc) : Bool := ((d.filterMap photosOf).getLast?).getD false

/-- `list_lineshapePW_definitions()` -/
def stLsPW : Stmt → Option (List String × Nat)
  | .setLsPW a b c v => some ([a, b, c], digitsVal v.toList)
  | _ => none
def lineshapePW (d : Doc) : List (List String × Nat) := d.filterMap stLsPW

/-- Python `float(word)` also accepts these words (any case, optional sign) -/
def floatWord (w : String) : Option String :=
  let cs := w.toList
  let (sg, body) := match cs with
    | '+' :: r => ("", r)
    | '-' :: r => ("-", r)
    | _ => ("", cs)
  let low := String.ofList (body.map Char.toLower)
  if low == "inf" || low == "infinity" then some (sg ++ "inf")
  else if low == "nan" then some "nan" else none

/-- value of a Pythia or JetSet setting -/
inductive SVal where
  | int (n : Int)
  | num (q : Rat)
  | special (s : String)     -- inf / -inf / nan
  | word (w : String)
  deriving Repr, DecidableEq, Inhabited

/-- `_str_or_float` -/
def strOrFloat : Param → SVal
  | .num l => match numValue l with | some q => .num q | none => .word l
  | .word w => match floatWord w with | some s => .special s | none => .word w

/-- nested `d[a][b] = v` -/
def dset2 {V : Type} (d : List (String × List (String × V))) (a b : String) (v : V) :
    List (String × List (String × V)) :=
  dset d a (dset ((dget d a).getD []) b v)

/-- `dict_pythia_definitions()` -/
def dictPythia (d : Doc) : List (String × List (String × SVal)) :=
  d.foldl (fun acc s => match s with
    | .pythia k a b v => dset2 acc k (a ++ ":" ++ b) (strOrFloat v)
    | _ => acc) []

def isAlpha (c : Char) : Bool := ('a' ≤ c && c ≤ 'z') || ('A' ≤ c && c ≤ 'Z')

/-- the regular expression `^([a-zA-Z]+?)\((\d+)\)` of `get_jetset_definitions` -/
def jetsetLabel (s : String) : Option (String × Nat) :=
  let cs := s.toList
  let letters := cs.takeWhile isAlpha
  let rest := cs.dropWhile isAlpha
  if letters.isEmpty then none else
  match rest with
  | '(' :: r =>
    let (ds, r') := takeDigits r
    if ds.isEmpty then none else
    match r' with
    | ')' :: _ => some (String.ofList letters, digitsVal ds)
    | _ => none
  | _ => none

/-- `to_int_or_float` -/
def intOrFloat (s : String) : SVal :=
  match intValue s with
  | some n => .int n
  | none => match numValue s with
    | some q => .num q
    | none => .word s

/-- `dict_jetset_definitions()`; the inner keys are integers (kept as text of the number) -/
def dictJetset (d : Doc) : Except SemErr (List (String × List (String × SVal))) :=
  d.foldlM (fun acc s => match s with
    | .jetset l v => match jetsetLabel l with
      | some (m, n) => .ok (dset2 acc m (toString n) (intOrFloat v))
      | none => .error (.runtime "jetset label")
    | _ => .ok acc) []

/-- value of one lineshape setting -/
inductive LVal where
  | name (s : String)
  | num (q : Rat)
  | flag (b : Bool)
  deriving Repr, DecidableEq, Inhabited

/-- add one setting; a repeated setting for the same particle is an error -/
def lsAdd (acc : List (String × List (String × LVal))) (p key : String) (v : LVal) (lsDefRule : Bool) :
    Except SemErr (List (String × List (String × LVal))) :=
  match dget acc p with
  | none => .ok (dset acc p [(key, v)])
  | some cur =>
    if lsDefRule then .error (.runtime "lineshape redefined")   -- LS* : the particle may not be present at all
    else if dhas cur key then .error (.runtime (key ++ " redefined"))
    else .ok (dset acc p (dset cur key v))

/-- `dict_lineshape_settings()`: four passes, in this order -/
def dictLineshape (d : Doc) : Except SemErr (List (String × List (String × LVal))) := do
  let a1 ← d.foldlM (fun acc s => match s with
    | .lsDef k n => lsAdd acc n "lineshape" (.name k) true
    | _ => .ok acc) []
  let a2 ← d.foldlM (fun acc s => match s with
    | .setLsBW n v => match numValue v with
      | some q => lsAdd acc n "BlattWeisskopf" (.num q) false
      | none => .error (.badNumber v)
    | _ => .ok acc) a1
  let a3 ← d.foldlM (fun acc s => match s with
    | .changeMass k n v => match numValue v with
      | some q => lsAdd acc n k (.num q) false
      | none => .error (.badNumber v)
    | _ => .ok acc) a2
  d.foldlM (fun acc s => match s with
    | .incFactor k n y => lsAdd acc n k (.flag y) false
    | _ => .ok acc) a3

/-- one Particle statement: mass as written; width as written, else the reference width (MeV) of the
    aliased particle divided by 1000; an unknown name is the RuntimeError of the query -/
def particleStep (refWidth : String → Option Rat) (aliases : List (String × String))
    (acc : List (String × Rat × Rat)) (n m : String) (w : Option String) : Except SemErr (List (String × Rat × Rat)) :=
  match numValue m with
  | none => .error (.badNumber m)
  | some mass =>
    match w with
    | some wt => match numValue wt with
      | some width => .ok (dset acc n (mass, width))
      | none => .error (.badNumber wt)
    | none =>
      match refWidth ((dget aliases n).getD n) with
      | some wd => .ok (dset acc n (mass, wd / 1000))
      | none => .error (.runtime ("Particle name/alias not found: " ++ n))

/-- `get_particle_property_definitions()`; `refWidth` is the reference width (in MeV, exact value of
    the float) of an EvtGen name in the particle table, `none` when the name is unknown -/
def particleDefs (refWidth : String → Option Rat) (d : Doc) :
    Except SemErr (List (String × Rat × Rat)) :=
  d.foldlM (fun acc s => match s with
    | .particleDef n m w => particleStep refWidth (dictAliases d) acc n m w
    | _ => .ok acc) []

/-! ### `parse()` -/

def stDecay : Stmt → Option (String × List DLine)
  | .decay m ls => some (m, ls)
  | _ => none
def decayBlocks (d : Doc) : List (String × List DLine) := d.filterMap stDecay

/-- `_check_parsed_decays`: walking backwards, every block of a mother that still has a later
    duplicate to drop is dropped: all but the first block of each mother survive -/
def dedupKeepFirst {V : Type} (l : List (String × V)) : List (String × V) :=
  let rec go (seen : List String) : List (String × V) → List (String × V)
    | [] => []
    | (k, v) :: r => if seen.contains k then go seen r else (k, v) :: go (k :: seen) r
  go [] l

/-- the de-duplication loop as written (reverse traversal with a to-remove list) -/
def dedupLoop {V : Type} (l : List (String × V)) : List (String × V) :=
  let names := l.map (·.1)
  let dupNames := names.eraseDups.filter (fun n => names.count n > 1)
  let toRemove : List String := dupNames.flatMap (fun n => List.replicate (names.count n - 1) n)
  let (kept, _) := l.reverse.foldl (fun (st : List (String × V) × List String) (kv : String × V) =>
    if st.2.contains kv.1 then (st.1, st.2.erase kv.1) else (kv :: st.1, st.2)) ([], toRemove)
  kept

/-- `DecayModelAliasReplacement` on one `model` node -/
def resolveModel (aliases : List (String × ModelRef)) : ModelRef → Except SemErr ModelRef
  | .named n o => .ok (.named n o)
  | .alias l => match dget aliases l with
    | some m => .ok m
    | none => .error (.undefinedModel l)

/-- `DecayModelParamValueReplacement._replacement` on one item -/
def resolveParam (defs : List (String × Rat)) : Param → Except SemErr PVal
  | .num l => match numValue l with
    | some q => .ok (.num q)
    | none => .error (.badNumber l)
  | .word w =>
    let cs := w.toList
    let negative := cs.head? == some '-'
    let name := if negative then String.ofList cs.tail else w
    match dget defs name with
    | some q => .ok (.num (if negative then -q else q))
    | none => .ok (.word w)

def resolveLine (aliases : List (String × ModelRef)) (defs : List (String × Rat)) (ln : DLine) :
    Except SemErr Line := do
  let bf ← match numValue ln.bf with
    | some q => pure q
    | none => throw (.badNumber ln.bf)
  let m ← resolveModel aliases ln.model
  match m with
  | .alias l => throw (.aliasOfAlias l)
  | .named n opts =>
    let ps ← match opts with
      | none => pure none
      | some l => (l.mapM (resolveParam defs)).map some
    pure { bf := bf, ds := ln.ds, photos := ln.photos, model := n, params := ps }

/-- position of the table `_parsed_decays[name2treepos[name]]`: the last table of that name -/
def lastTable (t : Tables) (n : String) : Option (List Line) :=
  (t.reverse.find? (·.1 == n)).map (·.2)

/-- `_add_decays_to_be_copied` -/
def addCopies (t : Tables) (copies : List (String × String)) : Tables :=
  t ++ copies.filterMap fun (new, old) => (lastTable t old).map fun ls => (new, ls)

/-- the names of one table in the order the visitor meets them: daughters line by line, then the mother -/
def visitOrder (src : String) (ls : List Line) : List String :=
  ls.flatMap (·.ds) ++ [src]

def rebuildLines : List Line → List String → List Line
  | [], _ => []
  | ln :: r, names =>
    { ln with ds := names.take ln.ds.length } :: rebuildLines r (names.drop ln.ds.length)

/-- conjugate one copied table with the shared, growing dictionary -/
def conjTable (db : DB) (defs : List (String × String)) (src : String) (ls : List Line) :
    (String × List Line) × List (String × String) :=
  let (names, defs') := visitNames db defs (visitOrder src ls)
  let nd := (ls.flatMap (·.ds)).length
  ((names.getD nd src, rebuildLines ls (names.take nd)), defs')

/-- the CDecay names still to treat: those that already have a table (Decay or CopyDecay) are
    removed, one occurrence each -/
def ccTodo (d : Doc) (t : Tables) : List String :=
  ((cdecayNames d).filter ((motherNames' t).contains ·)).foldl (fun acc x => acc.erase x) (cdecayNames d)
where motherNames' (t : Tables) : List String := t.map (·.1)

/-- the tables to conjugate: for each remaining CDecay name the table of its conjugate, when there is one -/
def ccSources (db : DB) (d : Doc) (t : Tables) : List (String × List Line) :=
  (ccTodo d t).filterMap fun x =>
    (lastTable t (matchCC db (dictChargeConj d) x)).map fun ls => (matchCC db (dictChargeConj d) x, ls)

/-- conjugate the copies one after the other with the shared, growing dictionary -/
def conjAll (db : DB) : List (String × String) → List (String × List Line) → Tables
  | _, [] => []
  | defs, (src, ls) :: r =>
    let (tb, defs') := conjTable db defs src ls
    tb :: conjAll db defs' r

/-- `_add_charge_conjugate_decays` -/
def addCC (db : DB) (d : Doc) (t : Tables) : Tables :=
  t ++ conjAll db (dictChargeConj d) (ccSources db d t)

structure Opts where
  includeCC : Bool := true
  deriving Repr, Inhabited

/-- one Decay block after alias and Define replacement -/
def resolveBlock (aliases : List (String × ModelRef)) (defs : List (String × Rat)) (b : String × List DLine) :
    Except SemErr (String × List Line) :=
  (b.2.mapM (resolveLine aliases defs)).map fun r => (b.1, r)

/-- the tables from Decay blocks: de-duplication, ModelAlias and Define replacement -/
def tablesDecay (d : Doc) : Except SemErr Tables :=
  (dedupLoop (decayBlocks d)).mapM (resolveBlock (dictModelAliasesRaw d) (dictDefinitions d))

/-- ... plus the copies requested by CopyDecay -/
def tablesNoCC (d : Doc) : Except SemErr Tables :=
  (tablesDecay d).map fun t => if (dictDecays2Copy d).isEmpty then t else addCopies t (dictDecays2Copy d)

/-- `parse()`: the decay tables -/
def tables (db : DB) (o : Opts) (d : Doc) : Except SemErr Tables :=
  (tablesNoCC d).map fun t => if o.includeCC then addCC db d t else t

/-! ### queries on the tables -/

def motherNames (t : Tables) : List String := t.map (·.1)

/-- `_find_decay_modes`: the first table of that name -/
def findModes (t : Tables) (m : String) : Except SemErr (List Line) :=
  match t.find? (·.1 == m) with
  | some (_, ls) => .ok ls
  | none => .error (.decayNotFound m)

/-- `_decay_mode_details(dm, display_photos_keyword)`: the model string -/
def Line.modelShown (ln : Line) (displayPhotos : Bool) : String :=
  if displayPhotos && ln.photos then "PHOTOS " ++ ln.model else ln.model

/-- payload of a chain-dictionary mode built from a table line -/
structure LInfo where
  bf : Rat
  model : String
  params : Option (List PVal)
  deriving Repr, DecidableEq, Inhabited

def infoOf (ln : Line) : LInfo := { bf := ln.bf, model := ln.model, params := ln.params }

/-- the loop over the daughters of one line: a daughter in the stable set stays a name; else the
    chain of the daughter is built (`rec`), and `DecayNotFound` leaves the bare name -/
def buildItems (rec : String → Except SemErr (Chain LInfo)) (stable : List String) :
    List String → Except SemErr (List (Item LInfo))
  | [] => .ok []
  | p :: r =>
    if stable.contains p then (buildItems rec stable r).map (Sum.inl p :: ·)
    else match rec p with
      | .ok c => (buildItems rec stable r).map (Sum.inr c :: ·)
      | .error (.decayNotFound _) => (buildItems rec stable r).map (Sum.inl p :: ·)
      | .error e => .error e

/-- the loop over the decay lines of the mother -/
def buildLines (rec : String → Except SemErr (Chain LInfo)) (stable : List String) :
    List Line → Except SemErr (List (CMode LInfo))
  | [] => .ok []
  | ln :: r =>
    match buildItems rec stable ln.ds with
    | .error e => .error e
    | .ok fs => (buildLines rec stable r).map ((infoOf ln, fs) :: ·)

/-- `build_decay_chains(mother, stable_particles)`; `fuel` bounds the recursion depth (Python
    recurses freely and only stops on `DecayNotFound`) -/
def buildChains (t : Tables) (stable : List String) : Nat → String → Except SemErr (Chain LInfo)
  | 0, m => if (t.find? (·.1 == m)).isNone then .error (.decayNotFound m) else .error .fuel
  | f + 1, m =>
    match t.find? (·.1 == m) with
    | none => .error (.decayNotFound m)
    | some (_, ls) => (buildLines (fun p => buildChains t stable f p) stable ls).map (.mk m)

end DL
