/-
Statements of a `.dec` file, as the parse tree of `decfile.lark` presents them to `dec.py`.
Import-free.
-/
import DL.Model.Num
namespace DL

/-- an item of a model parameter list: a numeric literal (as written) or a word -/
inductive Param where
  | num (lit : String)
  | word (w : String)
  deriving Repr, DecidableEq, Inhabited

/-- `model : (model_label | MODEL_NAME model_options?) ;` -/
inductive ModelRef where
  | named (name : String) (opts : Option (List Param))
  | alias (label : String)
  deriving Repr, DecidableEq, Inhabited

/-- `decayline : value particle* photos? model` -/
structure DLine where
  bf : String
  ds : List String
  photos : Bool
  model : ModelRef
  deriving Repr, DecidableEq, Inhabited

inductive Stmt where
  | define (name val : String)
  | particleDef (name mass : String) (width : Option String)
  | pythia (kind a b : String) (val : Param)
  | jetset (label val : String)
  | lsDef (kind name : String)
  | incFactor (kind name : String) (yes : Bool)
  | setLsBW (name val : String)
  | setLsPW (a b c val : String)
  | cdecay (name : String)
  | alias (a b : String)
  | chargeConj (a b : String)
  | changeMass (kind name val : String)
  | globalPhotos (yes : Bool)
  | decay (mother : String) (lines : List DLine)
  | copyDecay (new old : String)
  | modelAlias (name : String) (model : ModelRef)
  deriving Repr, DecidableEq, Inhabited

abbrev Doc := List Stmt

end DL
