/-
L8b: the *declaration / use* structure of a whole conversion (`ampgen2goofit` / `ampgen2goofitpy` in
modeling/ampgen2goofit.py, `make_intro`, `make_pars`, `to_goofit` of both classes in modeling/goofit.py).
The output text is abstracted to a list of statements, in emission order; a statement records the
symbols it declares and the symbols it uses.  Symbols are the model symbols: the three containers, the
mass constants, the `<prog>_M` / `<prog>_W` variables, the parameter variables, the parameter arrays and
the (string) names of the two coefficient variables of an amplitude.  Names provided by the GooFit API
or by the surrounding code (`DK3P_DI`, `Lineshapes`, `FF`, `SF_4Body`, `M_12`, `mkvar`, ...) are not
symbols of the model.

Particle attributes (key, name, programmatic name) are data from the caller; `programmatic_name` for
parameter names is modelled here (`progName`).  All string work is done on `List Char`.  Import-free
apart from other model files; every function is total.
-/
import DL.Model.GooFit
namespace DL

structure PStmt where
  sect : String
  declares : List String
  uses : List String
  deriving Repr, DecidableEq, Inhabited

/-! ### strings -/

/-- `str.replace(pat, rep)` (left to right, non-overlapping); the counter is the number of characters of
    a match still to be skipped -/
def replGo (pat rep : List Char) : Nat → List Char → List Char
  | _, [] => []
  | k + 1, _ :: cs => replGo pat rep k cs
  | 0, c :: cs =>
    if pat.isPrefixOf (c :: cs) then rep ++ replGo pat rep (pat.length - 1) cs
    else c :: replGo pat rep 0 cs

def replC (pat rep : String) (s : List Char) : List Char := replGo pat.toList rep.toList 0 s

def strReplace (s pat rep : String) : String := String.ofList (replC pat rep s.toList)

/-- `pat in s` -/
def hasInfix (pat : List Char) : List Char → Bool
  | [] => pat.isEmpty
  | c :: cs => pat.isPrefixOf (c :: cs) || hasInfix pat cs

def strContains (s pat : String) : Bool := hasInfix pat.toList s.toList

/-- `s[n:]` -/
def strDrop (s : String) (n : Nat) : String := String.ofList (s.toList.drop n)

/-- `str.upper()` (ASCII) -/
def strUpper (s : String) : String := String.ofList (s.toList.map Char.toUpper)

/-- `particle.particle.utilities.programmatic_name(name, False)` as called by goofit.py -/
def progNameC (cs : List Char) : List Char :=
  -- re.sub("0$", "_0", name)
  let cs := match cs.reverse with
    | '0' :: r => r.reverse ++ ['_', '0']
    | _ => cs
  -- re.sub("^~", "tilde_", name)
  let cs := match cs with
    | '~' :: r => "tilde_".toList ++ r
    | _ => cs
  -- name if "~" not in name else "".join(name.split("~")) + "_bar"
  let cs := if cs.contains '~' then cs.filter (· != '~') ++ "_bar".toList else cs
  let cs := replC ")(" "_" cs
  let cs := replC "(" "_" cs
  let cs := replC ")" "" cs
  let cs := replC "*" "st" cs
  let cs := replC "'" "p" cs
  let cs := replC "::" "_" cs
  let cs := replC "/" "" cs
  let cs := replC "--" "_mm" cs
  let cs := replC "++" "_pp" cs
  let cs := replC "-" "_minus" cs
  let cs := replC "+" "_plus" cs
  -- name.lstrip("_")
  cs.dropWhile (· == '_')

def progName (name : String) : String := String.ofList (progNameC name.toList)

/-- `int(s)` for a sign and decimal digits (blanks and digit-group underscores are not modelled) -/
def parseIntC (cs : List Char) : Option Int :=
  let digits (ds : List Char) : Option Nat :=
    if ds.isEmpty || !ds.all Char.isDigit then none
    else some (ds.foldl (fun acc d => acc * 10 + (d.toNat - '0'.toNat)) 0)
  match cs with
  | '-' :: r => (digits r).map fun n => - (Int.ofNat n)
  | '+' :: r => (digits r).map Int.ofNat
  | _ => (digits cs).map Int.ofNat

/-- split at every `sep` -/
def splitC (sep : Char) : List Char → List (List Char)
  | [] => [[]]
  | c :: cs =>
    match splitC sep cs with
    | [] => [[]]        -- not reached
    | h :: t => if c == sep then [] :: h :: t else (c :: h) :: t

/-- stable insertion in a list sorted by key -/
def insertByKey (k : Int) (v : String) : List (Int × String) → List (Int × String)
  | [] => [(k, v)]
  | (k', v') :: r => if k < k' then (k, v) :: (k', v') :: r else (k', v') :: insertByKey k v r

/-- `pd.Series(names, keys).sort_index()`: stable sort by key -/
def sortByKey (l : List (Int × String)) : List (Int × String) :=
  l.foldr (fun kv acc => insertByKey kv.1 kv.2 acc) []

/-! ### inputs -/

/-- a particle as the emitters see it: identity, `str(particle)`, `particle.programmatic_name` -/
structure PartInfo where
  key : String
  name : String
  prog : String
  deriving Repr, DecidableEq, Inhabited

/-- an expanded line: `str(line)` and the tree with the attributes -/
structure LineIn where
  label : String
  tree : GNodeA
  deriving Inhabited

structure ProgIn where
  table : List (String × List String)                  -- `known_spinfactors`
  event : List PartInfo                                -- `all_states`, mother first
  allParts : List PartInfo                             -- `cls.all_particles` (a set: order irrelevant)
  pars : List (String × Bool × String × String)        -- `cls.pars` rows (name, fix, value, error)
  consts : List (String × String)                      -- `cls.consts` rows (name, value)
  lines : List LineIn
  deriving Inhabited

/-- membership in `set(all_states)` (particles are compared by identity) -/
def inEvent (i : ProgIn) (p : PartInfo) : Bool := i.event.any (·.key == p.key)

/-- names of the final states handed to `to_goofit` (`all_states[1:]`) -/
def finalNames (i : ProgIn) : List String := (i.event.drop 1).map (·.name)

def parNames (i : ProgIn) : List String := i.pars.map (·.1)
def constNames (i : ProgIn) : List String := i.consts.map (·.1)

/-! ### intro -/

def containers : List String := ["line_factor_list", "spin_factor_list", "amplitudes_list"]

/-- the particles of `set(all_states)`, once each -/
def eventSet (i : ProgIn) : List PartInfo := i.event.eraseDups

/-- `cls.all_particles - final_particles` -/
def resonances (i : ProgIn) : List PartInfo := i.allParts.filter (fun p => !inEvent i p)

def resDecls (p : PartInfo) : List PStmt :=
  [{ sect := "intro.res", declares := [p.prog ++ "_M"], uses := [] },
   { sect := "intro.res", declares := [p.prog ++ "_W"], uses := [] }]

/-- `make_intro(all_states)` -/
def introStmts (i : ProgIn) : List PStmt :=
  containers.map (fun c => { sect := "intro.container", declares := [c], uses := [] })
  ++ (eventSet i).map (fun p => { sect := "intro.const", declares := [strUpper p.prog], uses := [] })
  ++ (resonances i).flatMap resDecls
  ++ [{ sect := "intro.masses", declares := [], uses := i.event.map (fun p => strUpper p.prog) }]

/-! ### parameters -/

/-- `strip_pararray(pars, begin, convert)`: the rows whose name contains `begin`, sorted by the integer
    read from the name after its first `len(begin)` characters -/
def stripParArray (names : List String) (begin : String) (convert : List Char → Option Int) :
    Except EmitErr (List String) :=
  match (names.filter (strContains · begin)).mapM
      (fun n => match convert (n.toList.drop begin.length) with
        | some k => Except.ok (k, n)
        | none => Except.error (EmitErr.shape ("ValueError: array index of " ++ n))) with
  | .error e => .error e
  | .ok kvs => .ok ((sortByKey kvs).map fun kv => progName kv.2)

/-- the names the spline arrays are made for: constants whose name contains "Spline", with the three
    suffixes removed, once each -/
def splineBases (consts : List String) : List String :=
  ((consts.filter (strContains · "Spline")).map fun n =>
    strReplace (strReplace (strReplace n "::Spline::N" "") "::Spline::Min" "") "::Spline::Max" "").eraseDups

def isNames : List String := ["pipi", "KK", "4pi", "EtaEta", "EtapEta", "mass"]

/-- the `convert` of the `IS_poles` array: `"<i>_<name>..."` -> `i * 6 + names.index(name)` -/
def isConvert (cs : List Char) : Option Int :=
  match splitC '_' cs with
  | a :: b :: _ =>
    match parseIntC a, isNames.idxOf? (String.ofList b) with
    | some i, some j => some (i * 6 + Int.ofNat j)
    | _, _ => none
  | _ => none

def splineArrays (i : ProgIn) : Except EmitErr (List PStmt) :=
  if i.consts.isEmpty then .ok []
  else (splineBases (constNames i)).mapM fun s =>
    match stripParArray (parNames i) (s ++ "::Spline::Gamma::") parseIntC with
    | .error e => .error e
    | .ok us => .ok { sect := "pars.spline", declares := [progName s ++ "_SplineArr"], uses := us }

def fScattArray (i : ProgIn) : Except EmitErr (List PStmt) :=
  if (parNames i).any (strContains · "f_scatt") then
    match stripParArray (parNames i) "f_scatt" parseIntC with
    | .error e => .error e
    | .ok us => .ok [{ sect := "pars.f_scatt", declares := ["f_scatt"], uses := us }]
  else .ok []

def isPolesArray (i : ProgIn) : Except EmitErr (List PStmt) :=
  if (parNames i).any (strContains · "IS_p") then
    match stripParArray (parNames i) "IS_p" isConvert with
    | .error e => .error e
    | .ok us => .ok [{ sect := "pars.IS_poles", declares := ["IS_poles"], uses := us }]
  else .ok []

def parDecls (i : ProgIn) : List PStmt :=
  (parNames i).map fun n => { sect := "pars.var", declares := [progName n], uses := [] }

/-- `make_pars()` -/
def parsStmts (i : ProgIn) : Except EmitErr (List PStmt) :=
  match splineArrays i, fScattArray i, isPolesArray i with
  | .ok a, .ok b, .ok c => .ok (parDecls i ++ a ++ b ++ c)
  | .error e, _, _ => .error e
  | _, .error e, _ => .error e
  | _, _, .error e => .error e

/-! ### lines -/

def kMatrixSyms : List String := ["sA_0", "sA", "s0_prod", "s0_scatt", "f_scatt", "IS_poles"]

/-- the model symbols one emitted lineshape mentions, in text order (`make_lineshape`) -/
def lsUses (l : LsOut) : List String :=
  match l.kind with
  | .rbw => [l.prog ++ "_M", l.prog ++ "_W"]
  | .gspline => [l.prog ++ "_M", l.prog ++ "_W", progName l.name ++ "_SplineArr"]
  | .kmatrix _ _ => kMatrixSyms ++ [l.prog ++ "_M", l.prog ++ "_W"]
  | .focus _ => [l.prog ++ "_M", l.prog ++ "_W"]

def splineConstsOf (name : String) : List String :=
  [name ++ "::Spline::Min", name ++ "::Spline::Max", name ++ "::Spline::N"]

/-- `consts.loc[...]` in the GSpline branch: a KeyError when one of the three constants is missing; a
    TypeError from `int(N)` when the row of `N` is there more than once (then `.loc` gives a Series) -/
def lsConstsOk (consts : List String) (l : LsOut) : Bool :=
  match l.kind with
  | .gspline => (splineConstsOf l.name).all (consts.contains ·)
      && (consts.filter (· == l.name ++ "::Spline::N")).length == 1
  | _ => true

/-- spin-factor block, line-factor block and amplitude of one line (`to_goofit`), common part -/
def lineCore (i : ProgIn) (ln : LineIn) : Except EmitErr (List PStmt) :=
  match emitAmp i.table ln.tree (finalNames i) with
  | .error e => .error e
  | .ok a =>
    if a.lineBlock.all (lsConstsOk (constNames i)) then
      .ok [{ sect := "line.spin", declares := [], uses := ["spin_factor_list"] },
           { sect := "line.ls", declares := [], uses := "line_factor_list" :: a.lineBlock.flatMap lsUses },
           { sect := "line.amp", declares := [ln.label ++ "_r", ln.label ++ "_i"],
             uses := ["amplitudes_list", "line_factor_list", "spin_factor_list"] }]
    else .error (.shape "KeyError / TypeError: spline constants")

/-- C++: the amplitude is also registered with the decay information, line by line -/
def lineCpp (i : ProgIn) (ln : LineIn) : Except EmitErr (List PStmt) :=
  match lineCore i ln with
  | .error e => .error e
  | .ok ss => .ok (ss ++ [{ sect := "line.register", declares := [], uses := ["amplitudes_list"] }])

def linePy (i : ProgIn) (ln : LineIn) : Except EmitErr (List PStmt) := lineCore i ln

/-- `ampgen2goofit(file)`: intro, parameters, lines -/
def progCpp (i : ProgIn) : Except EmitErr (List PStmt) :=
  match parsStmts i, i.lines.mapM (lineCpp i) with
  | .ok ps, .ok ls => .ok (introStmts i ++ ps ++ ls.flatten)
  | .error e, _ => .error e
  | _, .error e => .error e

/-- `ampgen2goofitpy(file)`: intro, parameters, lines, and the amplitudes handed over at the end -/
def progPy (i : ProgIn) : Except EmitErr (List PStmt) :=
  match parsStmts i, i.lines.mapM (linePy i) with
  | .ok ps, .ok ls =>
    .ok (introStmts i ++ ps ++ ls.flatten ++ [{ sect := "outro", declares := [], uses := ["amplitudes_list"] }])
  | .error e, _ => .error e
  | _, .error e => .error e

/-! ### closure -/

/-- every statement only uses symbols of `env` or symbols declared by a statement before it -/
def closedFromB (env : List String) : List PStmt → Bool
  | [] => true
  | s :: r => s.uses.all (env.contains ·) && closedFromB (env ++ s.declares) r

def closedB (p : List PStmt) : Bool := closedFromB [] p

/-- the symbols declared anywhere in a program, in order -/
def declsOf (p : List PStmt) : List String := p.flatMap (·.declares)

/-- the statements written for the lines that both languages have -/
def lineStmts (p : List PStmt) : List PStmt :=
  p.filter fun s => s.sect == "line.spin" || s.sect == "line.ls" || s.sect == "line.amp"

/-! ### the premise under which an output is self-contained -/

def vertsOfLines (i : ProgIn) : List GNodeA := i.lines.flatMap fun l => vertexes l.tree

def isKMatrix (v : GNodeA) : Bool :=
  match lsKind v.ls with
  | .ok (.kmatrix _ _) => true
  | _ => false

def isGSpline (v : GNodeA) : Bool :=
  match lsKind v.ls with
  | .ok .gspline => true
  | _ => false

/-- every resonance of a line has been recorded in the all-particles set and is not one of the
    event-type particles -/
def resonancesKnown (i : ProgIn) : Bool :=
  (vertsOfLines i).all fun v => i.allParts.any fun p => p.prog == v.prog && !inEvent i p

/-- a spline resonance has its spline constants (its name is one of the names arrays are made for) -/
def splinesKnown (i : ProgIn) : Bool :=
  (vertsOfLines i).all fun v => !isGSpline v || (splineBases (constNames i)).contains v.name

/-- when a K-matrix lineshape occurs, the K-matrix parameter rows exist -/
def kMatrixKnown (i : ProgIn) : Bool :=
  !(vertsOfLines i).any isKMatrix ||
    (["sA_0", "sA", "s0_prod", "s0_scatt"].all (((parNames i).map progName).contains ·)
      && (parNames i).any (strContains · "f_scatt") && (parNames i).any (strContains · "IS_p"))

def supportedB (i : ProgIn) : Bool := resonancesKnown i && splinesKnown i && kMatrixKnown i

end DL
