/-
L4/L5: decay descriptors.  `_expand_decay_modes` (decay.py) with `DescriptorFormat`
(utils/utilities.py): patterns, their validation (`string.Formatter().parse`), the class-level
format state with context objects.  Import-free.
-/
import DL.Model.Chain
namespace DL

/-! ### patterns -/

/-- one piece of a format string as `string.Formatter().parse` yields it:
    literal text, then optionally a replacement field (name, conversion, spec) -/
structure Piece where
  lit : String
  field : Option String      -- field_name (`none`: no replacement field follows)
  conv : Option Char := none
  spec : String := ""
  deriving Repr, DecidableEq, Inhabited

inductive FmtErr where
  | singleClose       -- "Single '}' encountered in format string"
  | singleOpen        -- "Single '{' encountered in format string"
  | unmatched         -- "expected '}' before end of string"
  | badConv
  | wildcards         -- the ValueError of `set_config`
  deriving Repr, DecidableEq, Inhabited

/-- read a replacement field body up to its closing brace (nested braces are allowed inside the
    format spec); returns (name, conversion, spec, rest) -/
def readField (cs : List Char) : Except FmtErr (String × Option Char × String × List Char) :=
  -- collect the whole field text up to the matching '}'
  let rec body (cs : List Char) (depth : Nat) (acc : List Char) (fuel : Nat) : Option (List Char × List Char) :=
    match fuel, cs with
    | 0, _ => none
    | _, [] => none
    | f + 1, '{' :: r => body r (depth + 1) ('{' :: acc) f
    | f + 1, '}' :: r => if depth = 0 then some (acc.reverse, r) else body r (depth - 1) ('}' :: acc) f
    | f + 1, c :: r => body r depth (c :: acc) f
  match body cs 0 [] (cs.length + 1) with
  | none => .error .unmatched
  | some (txt, rest) =>
    -- field name: up to the first '!' or ':' outside square brackets
    let rec name (cs : List Char) (inBr : Bool) (acc : List Char) : List Char × List Char :=
      match cs with
      | [] => (acc.reverse, [])
      | c :: r =>
        if c == '[' then name r true (c :: acc)
        else if c == ']' then name r false (c :: acc)
        else if (c == '!' || c == ':') && !inBr then (acc.reverse, c :: r)
        else name r inBr (c :: acc)
    let (nm, after) := name txt false []
    match after with
    | [] => .ok (String.ofList nm, none, "", rest)
    | '!' :: c :: ':' :: sp => .ok (String.ofList nm, some c, String.ofList sp, rest)
    | '!' :: c :: [] => .ok (String.ofList nm, some c, "", rest)
    | '!' :: _ => .error .badConv
    | ':' :: sp => .ok (String.ofList nm, none, String.ofList sp, rest)
    | _ => .error .badConv

/-- `list(string.Formatter().parse(pattern))` -/
def parsePattern (cs : List Char) (lit : List Char) (acc : List Piece) (fuel : Nat) : Except FmtErr (List Piece) :=
  match fuel, cs with
  | 0, _ => .error .unmatched
  | _, [] => .ok (if lit.isEmpty then acc.reverse else ({ lit := String.ofList lit.reverse, field := none } :: acc).reverse)
  | f + 1, '{' :: '{' :: r => parsePattern r ('{' :: lit) acc f
  | f + 1, '}' :: '}' :: r => parsePattern r ('}' :: lit) acc f
  | _, '}' :: _ => .error .singleClose
  | _, '{' :: [] => .error .singleOpen
  | f + 1, '{' :: r =>
    match readField r with
    | .error e => .error e
    | .ok (nm, cv, sp, rest) =>
      parsePattern rest [] ({ lit := String.ofList lit.reverse, field := some nm, conv := cv, spec := sp } :: acc) f
  | f + 1, c :: r => parsePattern r (c :: lit) acc f

def parsePat (p : String) : Except FmtErr (List Piece) := parsePattern p.toList [] [] (p.length + 1)

/-- the wildcard check of `set_config` for one pattern -/
def patternOK (p : String) : Except FmtErr Unit :=
  match parsePat p with
  | .error e => .error e
  | .ok ps =>
    let names := ps.filterMap (·.field)
    if names.contains "mother" && names.contains "daughters" && names.all (fun n => n == "mother" || n == "daughters")
    then .ok () else .error .wildcards

/-- `pattern.format(mother=…, daughters=…)` for validated patterns whose fields carry neither a
    conversion nor a format spec (the harness only renders with such patterns) -/
def renderPat (p : String) (mother daughters : String) : String :=
  match parsePat p with
  | .error _ => ""
  | .ok ps => ps.foldl (fun acc pc => acc ++ pc.lit ++ (match pc.field with
      | some "mother" => mother
      | some "daughters" => daughters
      | _ => "")) ""

/-- `DescriptorFormat.config` -/
structure Fmt where
  top : String
  sub : String
  deriving Repr, DecidableEq, Inhabited

def Fmt.default : Fmt := { top := "{mother} -> {daughters}", sub := "({mother} -> {daughters})" }

/-- `DescriptorFormat.format_descriptor` -/
def Fmt.render (f : Fmt) (mother daughters : String) (top : Bool) : String :=
  renderPat (if top then f.top else f.sub) mother daughters

/-! ### expansion -/

def aliasOf (aliases : List (String × String)) (n : String) : String := (dget aliases n).getD n

mutual
  /-- `_expand_decay_modes(chain, top, aliases)` -/
  def expand {β : Type} (fmt : Fmt) (aliases : List (String × String)) (top : Bool) : Chain β → List String
    | .mk m modes => expandModes fmt aliases top (aliasOf aliases m) modes
  def expandModes {β : Type} (fmt : Fmt) (aliases : List (String × String)) (top : Bool) (m : String) :
      List (CMode β) → List String
    | [] => []
    | (_, fs) :: ms =>
      (expandFs fmt aliases fs).map (fun ds => fmt.render m (" ".intercalate (ssort ds)) top)
        ++ expandModes fmt aliases top m ms
  /-- the cartesian product of the per-daughter options, first daughter varying slowest -/
  def expandFs {β : Type} (fmt : Fmt) (aliases : List (String × String)) : List (Item β) → List (List String)
    | [] => [[]]
    | .inl s :: r => (expandFs fmt aliases r).map (s :: ·)
    | .inr c :: r =>
      let opts := expand fmt aliases false c
      -- a daughter with an empty Decay block is stable
      let opts := if opts.isEmpty then [aliasOf aliases c.mother] else opts
      opts.flatMap (fun d => (expandFs fmt aliases r).map (d :: ·))
end

/-- `DecayChain.to_string()` given the dictionary form -/
def chainToString {β : Type} (fmt : Fmt) (c : Chain β) : Option String :=
  match expand fmt [] true c with
  | [d] => some d
  | _ => none

/-! ### the format state machine -/

/-- process-wide state: the format in force, and for every context object created so far its
    patterns and its stack of saved formats -/
structure FState where
  cur : Fmt
  objs : List (Fmt × List Fmt)
  deriving Repr, DecidableEq, Inhabited

def FState.init : FState := { cur := Fmt.default, objs := [] }

inductive FOp where
  | create (top sub : String)     -- `DescriptorFormat(top, sub)`: the new object gets the next index
  | enter (i : Nat)               -- `__enter__`
  | leave (i : Nat)               -- `__exit__` (normal or by exception: same code path)
  | set (top sub : String)        -- `DescriptorFormat.set_config`
  | render                        -- format one descriptor with the format in force
  deriving Repr, DecidableEq, Inhabited

inductive FOut where
  | ok
  | rejected
  | badIndex
  | shown (top sub : String)
  deriving Repr, DecidableEq, Inhabited

def validPair (top sub : String) : Bool :=
  (patternOK top).toBool && (patternOK sub).toBool

def setNth {α : Type} : List α → Nat → α → List α
  | [], _, _ => []
  | _ :: r, 0, a => a :: r
  | x :: r, n + 1, a => x :: setNth r n a

def FState.step (s : FState) : FOp → FState × FOut
  | .create t u => ({ s with objs := s.objs ++ [({ top := t, sub := u }, [])] }, .ok)
  | .enter i =>
    match s.objs[i]? with
    | none => (s, .badIndex)
    | some (f, saved) =>
      if validPair f.top f.sub then
        ({ cur := f, objs := setNth s.objs i (f, s.cur :: saved) }, .ok)
      else (s, .rejected)
  | .leave i =>
    match s.objs[i]? with
    | none => (s, .badIndex)
    | some (f, saved) =>
      match saved with
      | [] => (s, .badIndex)
      | old :: rest => ({ cur := old, objs := setNth s.objs i (f, rest) }, .ok)
  | .set t u =>
    if validPair t u then ({ s with cur := { top := t, sub := u } }, .ok) else (s, .rejected)
  | .render => (s, .shown (s.cur.render "M" "a b" true) (s.cur.render "M" "a b" false))

end DL
