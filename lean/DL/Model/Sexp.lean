/-
S-expressions: the wire format between the Python harness and the Lean driver.
One expression per line.  Atoms are written as double-quoted strings with the
escapes \" \\ \n \t \r, or as bare words (no blank, parenthesis or quote).
Import-free.
-/
namespace DL

inductive Sexp where
  | atom (s : String)
  | list (xs : List Sexp)
  deriving Inhabited, Repr

namespace Sexp

def escape (s : String) : String :=
  s.foldl (fun acc c =>
    if c == '"' then acc ++ "\\\""
    else if c == '\\' then acc ++ "\\\\"
    else if c == '\n' then acc ++ "\\n"
    else if c == '\t' then acc ++ "\\t"
    else if c == '\r' then acc ++ "\\r"
    else acc.push c) ""

mutual
  partial def render : Sexp → String
    | .atom s => "\"" ++ escape s ++ "\""
    | .list xs => "(" ++ " ".intercalate (renderList xs) ++ ")"
  partial def renderList : List Sexp → List String
    | [] => []
    | x :: r => render x :: renderList r
end

/-- read a quoted string body; returns (string, rest after closing quote) -/
partial def readQuoted (cs : List Char) (acc : String) : Option (String × List Char) :=
  match cs with
  | [] => none
  | '"' :: r => some (acc, r)
  | '\\' :: 'n' :: r => readQuoted r (acc.push '\n')
  | '\\' :: 't' :: r => readQuoted r (acc.push '\t')
  | '\\' :: 'r' :: r => readQuoted r (acc.push '\r')
  | '\\' :: c :: r => readQuoted r (acc.push c)
  | c :: r => readQuoted r (acc.push c)

partial def readBare (cs : List Char) (acc : String) : String × List Char :=
  match cs with
  | [] => (acc, [])
  | c :: r =>
    if c == ' ' || c == '(' || c == ')' || c == '"' || c == '\n' || c == '\t' || c == '\r' then (acc, cs)
    else readBare r (acc.push c)

mutual
  partial def parseOne (cs : List Char) : Option (Sexp × List Char) :=
    match cs with
    | [] => none
    | ' ' :: r | '\n' :: r | '\t' :: r | '\r' :: r => parseOne r
    | '(' :: r => (parseMany r []).map fun (xs, rest) => (Sexp.list xs, rest)
    | ')' :: _ => none
    | '"' :: r => (readQuoted r "").map fun (s, rest) => (Sexp.atom s, rest)
    | _ => let (s, rest) := readBare cs ""; some (Sexp.atom s, rest)
  partial def parseMany (cs : List Char) (acc : List Sexp) : Option (List Sexp × List Char) :=
    match cs with
    | [] => none
    | ' ' :: r | '\n' :: r | '\t' :: r | '\r' :: r => parseMany r acc
    | ')' :: r => some (acc.reverse, r)
    | _ => match parseOne cs with
      | none => none
      | some (x, rest) => parseMany rest (x :: acc)
end

def parse (s : String) : Option Sexp := (parseOne s.toList).map (·.1)

-- helpers to build / take apart
def str (s : String) : Sexp := .atom s
def nat (n : Nat) : Sexp := .atom (toString n)
def int (n : Int) : Sexp := .atom (toString n)
def bool (b : Bool) : Sexp := .atom (if b then "T" else "F")
def strs (l : List String) : Sexp := .list (l.map .atom)
def tag (t : String) (xs : List Sexp) : Sexp := .list (.atom t :: xs)

def asStr : Sexp → Option String
  | .atom s => some s
  | _ => none
def asList : Sexp → Option (List Sexp)
  | .list xs => some xs
  | _ => none
def asNat (x : Sexp) : Option Nat := x.asStr.bind String.toNat?
def asInt (x : Sexp) : Option Int := x.asStr.bind String.toInt?
def asBool : Sexp → Option Bool
  | .atom "T" => some true
  | .atom "F" => some false
  | _ => none
def asStrs (x : Sexp) : Option (List String) := x.asList.bind (·.mapM asStr)

end Sexp
end DL
