/-
L4: decay objects (`decaylanguage/decay/decay.py`): DaughtersDict, DecayMode, DecayChain,
the chain dictionary produced by `DecayChain.to_dict` / `DecFileParser.build_decay_chains`,
and the conversions between them.  Import-free, executable, total.

Conventions
* Python dictionaries are association lists in insertion order; `dset` is `d[k] = v`.
* Opaque values (branching fractions in the conversion functions, metadata values) are carried
  as canonical text produced by the harness (JSON with sorted keys); the model never looks
  inside, except for the `model_params = None -> ""` normalisation of `DecayMode.to_dict`.
* A final state (`DaughtersDict`) is kept as the sorted list `to_list()` returns.
-/
namespace DL

/-! ### ordered dictionaries -/

def dget {V : Type} (d : List (String × V)) (k : String) : Option V :=
  match d with
  | [] => none
  | (k', v) :: r => if k' = k then some v else dget r k

def dhas {V : Type} (d : List (String × V)) (k : String) : Bool := (dget d k).isSome

/-- `d[k] = v`: replace in place when the key exists, else append -/
def dset {V : Type} (d : List (String × V)) (k : String) (v : V) : List (String × V) :=
  match d with
  | [] => [(k, v)]
  | (k', v') :: r => if k' = k then (k, v) :: r else (k', v') :: dset r k v

def dkeys {V : Type} (d : List (String × V)) : List String := d.map (·.1)

/-! ### final states -/

def sleb (a b : String) : Bool := decide (a ≤ b)

/-- Python `sorted` on a list of `str` (code-point order) -/
def ssort (l : List String) : List String := l.mergeSort sleb

/-- `DaughtersDict(list).to_list()` -/
def ddOfList (l : List String) : List String := ssort l

def isBlank (c : Char) : Bool := c == ' ' || c == '\t' || c == '\n' || c == '\r' || c == '\x0b' || c == '\x0c'

/-- Python `str.split()` (no argument) restricted to ASCII white space -/
def splitWs (cs : List Char) (cur : List Char) (acc : List String) : List String :=
  match cs with
  | [] => (if cur.isEmpty then acc else String.ofList cur.reverse :: acc).reverse
  | c :: r =>
    if isBlank c then splitWs r [] (if cur.isEmpty then acc else String.ofList cur.reverse :: acc)
    else splitWs r (c :: cur) acc

/-- `DaughtersDict("K+ K- pi0").to_list()` -/
def ddOfString (s : String) : List String := ssort (splitWs s.toList [] [])

/-- `DaughtersDict({name: count}).to_list()`: entries with a count `<= 0` are dropped;
    a repeated key cannot occur in a Python dict, the harness never sends one -/
def ddOfCounts (l : List (String × Int)) : List String :=
  ssort (l.flatMap fun (k, n) => List.replicate n.toNat k)

/-- `len(DaughtersDict)` -/
def ddLen (l : List String) : Nat := l.length

/-! ### decay modes -/

/-- `DecayMode`: branching fraction (opaque), daughters (sorted), metadata in dict order -/
structure Mode where
  bf : String
  ds : List String
  mdat : List (String × String)
  deriving Repr, DecidableEq, Inhabited

/-- dictionary form of a mode: `{'bf':…, 'fs':[…], **metadata}`; `none` = key absent -/
structure ModeDict where
  bf : Option String
  fs : Option (List String)
  rest : List (String × String)
  deriving Repr, DecidableEq, Inhabited

def jsonNull : String := "null"
def jsonEmptyStr : String := "\"\""

/-- the metadata every `DecayMode` starts with -/
def defaultMeta : List (String × String) := [("model", jsonEmptyStr), ("model_params", jsonEmptyStr)]

/-- `dict.update` -/
def dupdate (d : List (String × String)) (u : List (String × String)) : List (String × String) :=
  u.foldl (fun acc (k, v) => dset acc k v) d

/-- `DecayMode(bf, daughters, **info)` with daughters given as a list of names -/
def Mode.new (bf : String) (daughters : List String) (info : List (String × String)) : Mode :=
  { bf := bf, ds := ddOfList daughters, mdat := dupdate defaultMeta info }

inductive ChainErr where
  | badFormat        -- "Input not in the expected format"
  | notSingle        -- "Input is not a single decay chain!"
  | noMother         -- "Input decay modes do not include the mother particle!"
  | recursion        -- Python would hit its recursion limit (cyclic chain)
  deriving Repr, DecidableEq, Inhabited

/-- `DecayMode.from_dict` -/
def Mode.fromDict (d : ModeDict) : Except ChainErr Mode :=
  match d.bf, d.fs with
  | some bf, some fs => .ok (Mode.new bf fs d.rest)
  | _, _ => .error .badFormat

/-- `DecayMode.to_dict` -/
def Mode.toDict (m : Mode) : ModeDict :=
  let mdat := match dget m.mdat "model_params" with
    | some v => if v = jsonNull then dset m.mdat "model_params" jsonEmptyStr else m.mdat
    | none => m.mdat
  { bf := some m.bf, fs := some m.ds, rest := mdat }

/-! ### chain dictionaries -/

/-- `{mother: [ {bf, fs:[name | {…}], model, …}, … ]}`; `β` is what a mode carries besides `fs` -/
inductive Chain (β : Type) where
  | mk (mother : String) (modes : List (β × List (String ⊕ Chain β)))
  deriving Inhabited

abbrev Item (β : Type) := String ⊕ Chain β
abbrev CMode (β : Type) := β × List (Item β)

def Chain.mother {β : Type} : Chain β → String
  | .mk m _ => m
def Chain.modes {β : Type} : Chain β → List (CMode β)
  | .mk _ ms => ms

/-- key under which an item of `fs` is shown (`next(iter(p.keys()))` for a sub-chain) -/
def Item.name {β : Type} : Item β → String
  | .inl s => s
  | .inr c => c.mother

/-- what a mode carries in the conversion functions: bf and the remaining entries (opaque text) -/
structure Info where
  bf : String
  rest : List (String × String)
  deriving Repr, DecidableEq, Inhabited

/-- `DecayChain`: the mother and the (ordered) dictionary of decay modes -/
structure DChain where
  mother : String
  decays : List (String × Mode)
  deriving Repr, DecidableEq, Inhabited

/-- `DecayChain.to_dict` (`recursively_replace`); `fuel` bounds the depth, Python recurses freely -/
def toDictF (decays : List (String × Mode)) : Nat → String → Option (Chain Info)
  | 0, _ => none
  | f + 1, m =>
    match dget decays m with
    | none => none
    | some md =>
      let d := md.toDict
      let fs := (d.fs.getD []).mapM (fun p =>
        if dhas decays p then (toDictF decays f p).map Sum.inr else some (Sum.inl p))
      fs.map fun fs => .mk m [({ bf := d.bf.getD "", rest := d.rest }, fs)]

def DChain.toDict (c : DChain) (fuel : Nat) : Except ChainErr (Chain Info) :=
  match toDictF c.decays fuel c.mother with
  | some d => .ok d
  | none => .error .recursion

/-- the mode dictionary with every sub-chain replaced by its key -/
def flatModeDict (i : Info) (fs : List (Item Info)) : ModeDict :=
  { bf := some i.bf, fs := some (fs.map Item.name), rest := i.rest }

/-- two `DecayMode`s are "the same" for `_build_decay_modes` when their dictionaries are equal
    as Python dicts (key order irrelevant) -/
def dictEqUnordered (a b : List (String × String)) : Bool :=
  a.length == b.length && a.all (fun (k, v) => dget b k == some v)

def modeDictEq (a b : ModeDict) : Bool :=
  a.bf == b.bf && a.fs == b.fs && dictEqUnordered a.rest b.rest

mutual
  /-- `_build_decay_modes(decay_modes, dc_dict)`; returns the updated `decay_modes` -/
  def buildModes (acc : List (String × Mode)) : Chain Info → Except ChainErr (List (String × Mode))
    | .mk m dms =>
      if dms.length > 1 then .error .notSingle
      else if dhas acc m && !dms.isEmpty then
        match buildModeList [] m dms with
        | .error e => .error e
        | .ok again =>
          if again.any (fun (k, dm) => match dget acc k with
              | none => true
              | some old => !modeDictEq dm.toDict old.toDict)
          then .error .notSingle else .ok acc
      else buildModeList acc m dms
  def buildModeList (acc : List (String × Mode)) (m : String) :
      List (CMode Info) → Except ChainErr (List (String × Mode))
    | [] => .ok acc
    | (i, fs) :: rest =>
      match buildFs acc fs with
      | .error e => .error e
      | .ok acc' =>
        match Mode.fromDict (flatModeDict i fs) with
        | .error e => .error e
        | .ok md => buildModeList (dset acc' m md) m rest
  def buildFs (acc : List (String × Mode)) : List (Item Info) → Except ChainErr (List (String × Mode))
    | [] => .ok acc
    | .inl _ :: r => buildFs acc r
    | .inr c :: r =>
      match buildModes acc c with
      | .error e => .error e
      | .ok acc' => buildFs acc' r
end

/-- `DecayChain.from_dict` -/
def DChain.fromDict (c : Chain Info) : Except ChainErr DChain :=
  match buildModes [] c with
  | .error e => .error e
  | .ok modes => if dhas modes c.mother then .ok { mother := c.mother, decays := modes } else .error .noMother

end DL
