/-
L8 (text): the text `GooFitChain.to_goofit` / `GooFitPyChain.to_goofit` (modeling/goofit.py) write
for one amplitude, character for character, as a rendering of the structural emission `emitAmp`
(DL/Model/GooFit.lean).  Numbers are not computed here: the coupling (`{:.6}` of floats) and the
spline constants (`str` of a float) come as the texts the harness formats from the values the
reader returned (they are compared numerically under C17).  Import-free.
-/
import DL.Model.GooFit
namespace DL

/-- what `to_goofit` needs besides the tree: `str(self)`, the fix flag, the four coupling numerals
    (real, real error, imaginary, imaginary error) and, per spline resonance, `(Min, Max, int(N))` -/
structure AmpTextIn where
  tree : String
  fix : Bool
  re : String
  reErr : String
  im : String
  imErr : String
  splines : List (String × String × String × String)
  deriving Repr, Inhabited

def truthy (o : Option String) : Option String :=
  match o with
  | some s => if s.isEmpty then none else some s
  | none => none

mutual
  /-- `AmplitudeChain.__str__`: the particle's name (`pn` of the name as written; a final-state node
      carries the particle name already), the bracket `[spin;lineshape]`, the daughters in braces -/
  def nodeStr (pn : String → String) : GNodeA → String
    | .mk n _ _ _ _ spin ls ds =>
      let base := if ds.isEmpty then n else pn n
      let tag := match truthy ls, truthy spin with
        | some l, some s => "[" ++ s ++ ";" ++ l ++ "]"
        | some l, none => "[" ++ l ++ "]"
        | none, some s => "[" ++ s ++ "]"
        | none, none => ""
      base ++ tag ++ (if ds.isEmpty then "" else "{" ++ ",".intercalate (nodeStrL pn ds) ++ "}")
  def nodeStrL (pn : String → String) : List GNodeA → List String
    | [] => []
    | d :: r => nodeStr pn d :: nodeStrL pn r
end

def padRight (s : String) (n : Nat) : String := s ++ String.ofList (List.replicate (n - s.length) ' ')

def permText (p : List Nat) : String := ", ".intercalate (p.map toString)

def radiusText (r10 : Nat) : String := if r10 == 50 then "5.0" else "1.5"

/-- the symbol a resonance name becomes (`programmatic_name` of the *name as written* is an oracle
    value carried by the node for the particle; for the spline array the name as written is used) -/
def splineOf (splines : List (String × String × String × String)) (name : String) : String × String × String :=
  match splines.find? (·.1 == name) with
  | some (_, v) => v
  | none => ("?", "?", "?")

/-- `make_lineshape`, C++ -/
def lsCpp (splArr : String → String) (i : AmpTextIn) (l : LsOut) : String :=
  let head := "\"" ++ l.name ++ "\""
  let mw := l.prog ++ "_M, " ++ l.prog ++ "_W, " ++ toString l.L ++ ", " ++ l.mass
  match l.kind with
  | .rbw => "new Lineshapes::RBW(" ++ head ++ ", " ++ mw ++ ", FF::BL2)"
  | .gspline =>
    let (mn, mx, n) := splineOf i.splines l.name
    "new Lineshapes::GSpline(" ++ head ++ ", " ++ mw ++ ", FF::BL2,\n            " ++ radiusText l.radius10 ++ ", " ++
      splArr l.name ++ "_SplineArr, Lineshapes::spline_t(" ++ mn ++ "," ++ mx ++ "," ++ n ++ "))"
  | .kmatrix pterm pole =>
    "new Lineshapes::kMatrix(" ++ head ++ ", " ++ pterm ++ ", " ++ (if pole then "true" else "false") ++
      ",\n            sA_0, sA, s0_prod, s0_scatt,\n            f_scatt, IS_poles,\n            " ++ mw ++ ", FF::BL2, " ++ radiusText l.radius10 ++ ")"
  | .focus mod =>
    "new Lineshapes::FOCUS(" ++ head ++ ", Lineshapes::FOCUS::Mod::" ++ mod ++ ", " ++ mw ++ ", FF::BL2, " ++ radiusText l.radius10 ++ ")"

/-- `make_lineshape`, Python -/
def lsPy (splArr : String → String) (i : AmpTextIn) (l : LsOut) : String :=
  let head := "\"" ++ l.name ++ "\""
  let mw := l.prog ++ "_M, " ++ l.prog ++ "_W, " ++ toString l.L ++ ", " ++ l.mass
  match l.kind with
  | .rbw => "Lineshapes.RBW(" ++ head ++ ", " ++ mw ++ ", FF.BL2)"
  | .gspline =>
    let (mn, mx, n) := splineOf i.splines l.name
    "Lineshapes.GSpline(" ++ head ++ ", " ++ mw ++ ", FF.BL2,\n            " ++ radiusText l.radius10 ++ ", " ++
      splArr l.name ++ "_SplineArr, (" ++ mn ++ "," ++ mx ++ "," ++ n ++ "))"
  | .kmatrix pterm pole =>
    "Lineshapes.kMatrix(" ++ head ++ ", " ++ pterm ++ ", " ++ (if pole then "True" else "False") ++
      ",\n            sA_0, sA, s0_prod, s0_scatt,\n            f_scatt, IS_poles,\n            " ++ mw ++ ", FF.BL2, " ++ radiusText l.radius10 ++ ")"
  | .focus mod =>
    "Lineshapes.FOCUS(" ++ head ++ ", Lineshapes.FocusMod." ++ mod ++ ", " ++ mw ++ ", FF.BL2, " ++ radiusText l.radius10 ++ ")"

def sfCpp (s : SfOut) : String :=
  "        new SpinFactor(\"SF\", SF_4Body::" ++ padRight s.sf 37 ++ ", " ++ permText s.perm ++ ")"

def sfPy (s : SfOut) : String :=
  "        SpinFactor(\"SF\", SF_4Body." ++ padRight s.sf 37 ++ ", " ++ permText s.perm ++ ")"

/-- `GooFitChain.to_goofit` -/
def ampTextCpp (splArr : String → String) (i : AmpTextIn) (a : AmpOut) : String :=
  let fix := if i.fix then "true" else "false"
  "    // " ++ i.tree ++ "\n\n" ++
  "    spin_factor_list.push_back(std::vector<SpinFactor*>({\n" ++ ",\n".intercalate (a.spinBlock.map sfCpp) ++ "\n    }));\n" ++
  "\n" ++
  "    line_factor_list.push_back(std::vector<Lineshape*>{\n" ++
    ",\n".intercalate (a.lineBlock.map fun l => "        " ++ lsCpp splArr i l) ++ "\n    });\n" ++
  "\n" ++
  "    amplitudes_list.push_back(new Amplitude{\n" ++
  "        \"" ++ i.tree ++ "\",\n" ++
  "        mkvar(\"" ++ i.tree ++ "_r\", " ++ fix ++ ", " ++ i.re ++ ", " ++ i.reErr ++ "),\n" ++
  "        mkvar(\"" ++ i.tree ++ "_i\", " ++ fix ++ ", " ++ i.im ++ ", " ++ i.imErr ++ "),\n" ++
  "        line_factor_list.back(),\n" ++
  "        spin_factor_list.back(),\n" ++
  "        " ++ toString a.nPerms ++ "});\n\n" ++
  "    DK3P_DI.amplitudes_B.push_back(amplitudes_list.back());"

def coeffPy (i : AmpTextIn) (suffix v e : String) : String :=
  if i.fix then "Variable(\"" ++ i.tree ++ suffix ++ "\", " ++ v ++ ")"
  else "Variable(\"" ++ i.tree ++ suffix ++ "\", " ++ v ++ "," ++ e ++ ", 0., 1000.)"

/-- `GooFitPyChain.to_goofit` -/
def ampTextPy (splArr : String → String) (i : AmpTextIn) (a : AmpOut) : String :=
  "#" ++ i.tree ++ "\n\n" ++
  "spin_factor_list.append((\n" ++ ",\n".intercalate (a.spinBlock.map sfPy) ++ "))\n" ++
  "\n" ++
  "line_factor_list.append((\n" ++ ",\n".intercalate (a.lineBlock.map fun l => "        " ++ lsPy splArr i l) ++ "))\n" ++
  "\n" ++
  "amplitudes_list.append(Amplitude(\n" ++
  "        \"" ++ i.tree ++ "\",\n" ++
  "        " ++ coeffPy i "_r" i.re i.reErr ++ ",\n" ++
  "        " ++ coeffPy i "_i" i.im i.imErr ++ ",\n" ++
  "        line_factor_list[-1],\n" ++
  "        spin_factor_list[-1],\n" ++
  "        " ++ toString a.nPerms ++ "))\n\n" ++
  "\n"

end DL
