/-
L7: `ModelDecay.list_structure` (modeling/decay.py): the index permutations used for Bose
symmetrisation.  Import-free.
-/
namespace DL

/-- positions of `name` in the event-type final state -/
def positionsOf (fs : List String) (name : String) : List Nat :=
  (List.range fs.length).filter (fun i => fs[i]? == some name)

/-- `itertools.product(*possibilities)`: first factor varying slowest -/
def cartesian {α : Type} : List (List α) → List (List α)
  | [] => [[]]
  | l :: ls => l.flatMap (fun a => (cartesian ls).map (a :: ·))

def allDistinct : List Nat → Bool
  | [] => true
  | a :: r => !r.contains a && allDistinct r

inductive PermErr where
  | notEncompassed    -- "The final states must encompass all particles in final states!"
  deriving Repr, DecidableEq, Inhabited

/-- `list_structure(final_states)` for the flattened structure `s` of the amplitude -/
def listStructure (s fs : List String) : Except PermErr (List (List Nat)) :=
  if s.all (fs.contains ·) then
    .ok ((cartesian (s.map (positionsOf fs))).filter allDistinct)
  else .error .notEncompassed

end DL
