/-
`ampgen2goofit` / `ampgen2goofitpy` (modeling/ampgen2goofit.py) as a sequence of output calls: every
piece of text goes either through `printer` (the returned string when `ret_output`, else the
terminal) or through a bare `print` (always the terminal).  Import-free.
-/
namespace DL

/-- where the pieces end up: (returned string pieces, terminal pieces) -/
def runSinks (retOutput : Bool) : List (String × String) → List String × List String
  | [] => ([], [])
  | (sink, piece) :: r =>
    let (ret, out) := runSinks retOutput r
    if sink == "printer" && retOutput then (piece :: ret, out) else (ret, piece :: out)

end DL
