/-
L3: charge conjugation of names (`utils/particleutils.py: charge_conjugate_name`,
`dec.py: find_charge_conjugate_match`, `ChargeConjugateReplacement`).

The particle database is a parameter: the rows of `EvtGenName2PDGIDBiMap` with, for each PDG ID,
whether the ID is in the particle table and whether `Particle.invert()` negates it.  The concrete
tables are regenerated from the installed `particle` package into `DL/Gen/Particles.lean`.
Import-free.
-/
import DL.Model.Chain
namespace DL

structure PRow where
  name : String
  id : Int
  inTable : Bool    -- `Particle.from_pdgid(id)` succeeds
  invNeg : Bool     -- `invert()` gives the particle with ID `-id` (not self-conjugate)
  deriving Repr, DecidableEq, Inhabited

structure DB where
  rows : List PRow
  pdg2evt : List (String × String)   -- PDG2EvtGenNameMap
  evt2pdg : List (String × String)   -- EvtGen2PDGNameMap
  deriving Inhabited

def DB.rowOfName (db : DB) (n : String) : Option PRow := db.rows.find? (·.name == n)
def DB.rowOfId (db : DB) (i : Int) : Option PRow := db.rows.find? (·.id == i)

def wrapUnknown (n : String) : String := "ChargeConj(" ++ n ++ ")"

/-- route 1: `Particle.from_evtgen_name(name).invert().evtgen_name` (`none` = it raises) -/
def DB.route1 (db : DB) (r : PRow) : Option String :=
  if r.inTable then
    if r.invNeg then
      match db.rowOfId (-r.id) with
      | some r' => if r'.inTable then some r'.name else none
      | none => none
    else some r.name
  else none

/-- route 2: `EvtGenName2PDGIDBiMap[-EvtGenName2PDGIDBiMap[name]]` -/
def DB.route2 (db : DB) (r : PRow) : Option String := (db.rowOfId (-r.id)).map (·.name)

/-- `charge_conjugate_name(name)` for EvtGen names -/
def DB.conjName (db : DB) (n : String) : String :=
  match db.rowOfName n with
  | none => wrapUnknown n
  | some r =>
    match db.route1 r with
    | some c => c
    | none => match db.route2 r with
      | some c => c
      | none => wrapUnknown n

/-- `charge_conjugate_name(name, pdg_name=True)` -/
def DB.conjPdg (db : DB) (n : String) : String :=
  match dget db.pdg2evt n with
  | none => wrapUnknown n
  | some e => match dget db.evt2pdg (db.conjName e) with
    | some p => p
    | none => wrapUnknown n

/-- `find_charge_conjugate_match(pname, dict_cc_names)` -/
def matchCC (db : DB) (defs : List (String × String)) (p : String) : String :=
  match dget defs p with
  | some m => m
  | none => match defs.find? (·.2 == p) with
    | some (k, _) => k
    | none => db.conjName p

/-- the `ChargeConjugateReplacement` visitor over a list of names in visiting order, threading the
    growing dictionary (`self.charge_conj_defs[pname] = ccpname`) -/
def visitNames (db : DB) : List (String × String) → List String → List String × List (String × String)
  | defs, [] => ([], defs)
  | defs, p :: r =>
    let c := matchCC db defs p
    let (rest, defs') := visitNames db (dset defs p c) r
    (c :: rest, defs')

/-- `DaughtersDict.charge_conjugate`: `{conj(p): n for p, n in items}`; a dict comprehension, so
    when two particles have the same conjugate the later count wins -/
def ddConj (conj : String → String) (ds : List String) : List String :=
  let keys := ds.eraseDups
  let counts : List (String × Int) := keys.foldl (fun acc k => dset acc (conj k) (ds.count k : Int)) []
  ddOfCounts counts

end DL
