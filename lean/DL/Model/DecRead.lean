/-
L1: a scannerless reader for the `.dec` statement language, mirroring what the Lark LALR parser
with its contextual lexer accepts for `data/decfile.lark` (see DESIGN.md section 4.1 for the measured
behaviours it encodes).  `readDoc` returns the statement list or an error.  Import-free, total
(every loop carries fuel bounded by the input length).
-/
import DL.Model.Stmt
import DL.Model.ModelLex
namespace DL

structure RGrammar where
  labelChars : List Char
  models : List String      -- registered model names (published ++ user), any order
  deriving Inhabited

abbrev Inp := List Char

def isBlankC (c : Char) : Bool := c == ' ' || c == '\t'

def skipWs : Inp → Inp
  | c :: r => if isBlankC c then skipWs r else c :: r
  | [] => []

def dropLine : Inp → Inp      -- up to, not including, the line feed
  | c :: r => if c == '\n' then c :: r else dropLine r
  | [] => []

/-- one `_NEWLINE` token: a comment `#[^\n]*`, or `\r?\n[\t ]*` -/
def takeNewline : Inp → Option Inp
  | '#' :: r => some (dropLine r)
  | '\r' :: '\n' :: r => some (skipWs r)
  | '\n' :: r => some (skipWs r)
  | _ => none

/-- skip blanks, and comments too where a newline token is not acceptable (`%ignore COMMENT`) -/
def skipIgnored (newlineOk : Bool) : Nat → Inp → Inp
  | 0, cs => cs
  | f + 1, cs =>
    match skipWs cs with
    | '#' :: r => if newlineOk then '#' :: r else skipIgnored newlineOk f (dropLine r)
    | cs' => cs'

def takeWhileC (p : Char → Bool) : Inp → List Char × Inp
  | c :: r => if p c then let (a, b) := takeWhileC p r; (c :: a, b) else ([], c :: r)
  | [] => ([], [])

def takeLabel (g : RGrammar) (cs : Inp) : Option (String × Inp) :=
  let (a, b) := takeWhileC (g.labelChars.contains ·) cs
  if a.isEmpty then none else some (String.ofList a, b)

def takeNumberText (cs : Inp) : Option (String × Inp) :=
  (readNumber cs).map fun (n, rest) => (String.ofList n.show, rest)

def hasPrefix (p : String) (cs : Inp) : Option Inp := stripPrefix p.toList cs

abbrev R := Except String

def rLabel (g : RGrammar) (cs : Inp) : R (String × Inp) :=
  match takeLabel g (skipIgnored false (cs.length + 1) cs) with
  | some x => .ok x
  | none => .error "label"

def rNumber (cs : Inp) : R (String × Inp) :=
  match takeNumberText (skipIgnored false (cs.length + 1) cs) with
  | some x => .ok x
  | none => .error "number"

def rLit (t : String) (cs : Inp) : R Inp :=
  match hasPrefix t (skipIgnored false (cs.length + 1) cs) with
  | some r => .ok r
  | none => .error ("literal " ++ t)

/-- `_NEWLINE*` -/
def newlines0 : Nat → Inp → Inp
  | 0, cs => cs
  | f + 1, cs =>
    match takeNewline (skipWs cs) with
    | some r => newlines0 f r
    | none => skipWs cs

/-- `_NEWLINE+` -/
def newlines1 (cs : Inp) : R Inp :=
  match takeNewline (skipWs cs) with
  | some r => .ok (newlines0 (r.length + 1) r)
  | none => .error "newline"

def takeModel (g : RGrammar) (cs : Inp) : Option (String × Inp) := lexModel g.models cs

/-- `_SEMICOLON+` (one or more, separated by blanks only) after the ignored tokens -/
def semicolons (cs : Inp) : R Inp :=
  match skipIgnored true (cs.length + 1) cs with
  | ';' :: r =>
    let rec more : Nat → Inp → Inp
      | 0, cs => cs
      | f + 1, cs => match skipWs cs with
        | ';' :: r' => more f r'
        | _ => cs
    .ok (more (r.length + 1) r)
  | _ => .error "semicolon"

/-- the parameter list of a model: values, labels, newline tokens and commas up to the semicolon -/
def modelOptions (g : RGrammar) : Nat → Inp → List Param → Bool → R (List Param × Bool × Inp)
  | 0, _, _, _ => .error "fuel"
  | f + 1, cs, acc, has =>
    let j := skipIgnored true (cs.length + 1) cs
    match j with
    | ';' :: _ => .ok (acc.reverse, has, j)
    | _ =>
      match takeNewline j with
      | some r => modelOptions g f r acc true
      | none =>
        match j with
        | ',' :: r => modelOptions g f r acc true
        | _ =>
          match takeNumberText j with
          | some (n, r) =>
            -- LALR-merged accept set right after a numeric literal: a model name or PHOTOS there is a parse error
            let k := skipIgnored true (r.length + 1) r
            if (takeModel g k).isSome then .error "model name after a number in the parameter list"
            else match takeLabel g k with
              | some (w, _) => if (takeNumberText k).isNone && w == "PHOTOS" then .error "PHOTOS after a number in the parameter list"
                               else modelOptions g f r (.num n :: acc) true
              | none => modelOptions g f r (.num n :: acc) true
          | none =>
            match takeLabel g j with
            | some (w, r) => modelOptions g f r (.word w :: acc) true
            | none => .error "model options"

/-- `model : (model_label | MODEL_NAME model_options?) _SEMICOLON+` -/
def rModel (g : RGrammar) (cs : Inp) : R (ModelRef × Inp) :=
  let i := skipIgnored false (cs.length + 1) cs
  match takeModel g i with
  | some (name, r) =>
    match modelOptions g (r.length + 2) r [] false with
    | .error e => .error e
    | .ok (opts, has, j) =>
      match semicolons j with
      | .error e => .error e
      | .ok k => .ok (.named name (if has then some opts else none), k)
  | none =>
    match takeLabel g i with
    | none => .error "model"
    | some (l, r) =>
      match semicolons r with
      | .error e => .error e
      | .ok k => .ok (.alias l, k)

/-- the rest of a decay line after the branching fraction; `first`: right after it -/
def decayLineRest (g : RGrammar) (bf : String) : Nat → Inp → List String → Bool → R (DLine × Inp)
  | 0, _, _, _ => .error "fuel"
  | f + 1, cs, parts, first =>
    let j := skipIgnored first (cs.length + 1) cs
    match takeModel g j with
    | some _ =>
      match rModel g j with
      | .error e => .error e
      | .ok (m, r) => match newlines1 r with
        | .error e => .error e
        | .ok r' => .ok ({ bf := bf, ds := parts.reverse, photos := false, model := m }, r')
    | none =>
      if first && (takeNumberText j).isSome then .error "number after the branching fraction"
      else match takeLabel g j with
        | none => .error "decay line"
        | some (w, l) =>
          if w == "PHOTOS" then
            match rModel g l with
            | .error e => .error e
            | .ok (m, r) => match newlines1 r with
              | .error e => .error e
              | .ok r' => .ok ({ bf := bf, ds := parts.reverse, photos := true, model := m }, r')
          else
            match skipIgnored false (l.length + 1) l with
            | ';' :: _ =>
              -- a label directly followed by the semicolon is a model alias
              match rModel g j with
              | .error e => .error e
              | .ok (m, r) => match newlines1 r with
                | .error e => .error e
                | .ok r' => .ok ({ bf := bf, ds := parts.reverse, photos := false, model := m }, r')
            | _ => decayLineRest g bf f l (w :: parts) false

def decayLine (g : RGrammar) (cs : Inp) : R (DLine × Inp) :=
  match takeNumberText cs with
  | none => .error "branching fraction"
  | some (bf, r) => decayLineRest g bf (r.length + 2) r [] true

def decayBody (g : RGrammar) : Nat → Inp → List DLine → R (List DLine × Inp)
  | 0, _, _ => .error "fuel"
  | f + 1, cs, acc =>
    let j := skipWs cs
    match hasPrefix "Enddecay" j with
    | some r => .ok (acc.reverse, r)
    | none =>
      match decayLine g j with
      | .error e => .error e
      | .ok (ln, r) => decayBody g f r (ln :: acc)

def firstPrefix (ks : List String) (cs : Inp) : Option (String × Inp) :=
  match ks with
  | [] => none
  | k :: r => match hasPrefix k cs with
    | some rest => some (k, rest)
    | none => firstPrefix r cs

def rStmt (g : RGrammar) (cs : Inp) : R (Stmt × Inp) :=
  match firstPrefix ["PythiaGenericParam", "PythiaAliasParam", "PythiaBothParam"] cs with
  | some (k, r) => do
    let (a, r) ← rLabel g r
    let r ← rLit ":" r
    let (b, r) ← rLabel g r
    let r ← rLit "=" r
    let j := skipIgnored false (r.length + 1) r
    match takeNumberText j with
    | some (n, r') => pure (.pythia k a b (.num n), r')
    | none => match takeLabel g j with
      | some (w, r') => pure (.pythia k a b (.word w), r')
      | none => throw "pythia value"
  | none =>
  match hasPrefix "JetSetPar" cs with
  | some r => do
    let (a, r) ← rLabel g r
    let r ← rLit "=" r
    let (n, r) ← rNumber r
    pure (.jetset a n, r)
  | none =>
  match firstPrefix ["LSMANYDELTAFUNC", "LSNONRELBW", "LSFLAT"] cs with
  | some (k, r) => do let (a, r) ← rLabel g r; pure (.lsDef k a, r)
  | none =>
  match firstPrefix ["IncludeBirthFactor", "IncludeDecayFactor"] cs with
  | some (k, r) => do
    let (a, r) ← rLabel g r
    let j := skipIgnored false (r.length + 1) r
    match hasPrefix "yes" j with
    | some r' => pure (.incFactor k a true, r')
    | none => match hasPrefix "no" j with
      | some r' => pure (.incFactor k a false, r')
      | none => throw "yes/no"
  | none =>
  match hasPrefix "BlattWeisskopf" cs with
  | some r => do let (a, r) ← rLabel g r; let (n, r) ← rNumber r; pure (.setLsBW a n, r)
  | none =>
  match hasPrefix "SetLineshapePW" cs with
  | some r => do
    let (a, r) ← rLabel g r
    let (b, r) ← rLabel g r
    let (c, r) ← rLabel g r
    let j := skipIgnored false (r.length + 1) r
    let (ds, r') := takeDigits j
    if ds.isEmpty then throw "integer" else pure (.setLsPW a b c (String.ofList ds), r')
  | none =>
  match hasPrefix "CDecay" cs with
  | some r => do let (a, r) ← rLabel g r; pure (.cdecay a, r)
  | none =>
  match hasPrefix "Define" cs with
  | some r => do let (a, r) ← rLabel g r; let (n, r) ← rNumber r; pure (.define a n, r)
  | none =>
  match hasPrefix "Particle" cs with
  | some r => do
    let (a, r) ← rLabel g r
    let (n, r) ← rNumber r
    let k := skipIgnored true (r.length + 1) r
    match takeNumberText k with
    | some (m, r') => pure (.particleDef a n (some m), r')
    | none => pure (.particleDef a n none, r)
  | none =>
  match hasPrefix "Alias" cs with
  | some r => do let (a, r) ← rLabel g r; let (b, r) ← rLabel g r; pure (.alias a b, r)
  | none =>
  match hasPrefix "ChargeConj" cs with
  | some r => do let (a, r) ← rLabel g r; let (b, r) ← rLabel g r; pure (.chargeConj a b, r)
  | none =>
  match firstPrefix ["ChangeMassMin", "ChangeMassMax"] cs with
  | some (k, r) => do let (a, r) ← rLabel g r; let (n, r) ← rNumber r; pure (.changeMass k a n, r)
  | none =>
  match hasPrefix "yesPhotos" cs with
  | some r => pure (.globalPhotos true, r)
  | none =>
  match hasPrefix "noPhotos" cs with
  | some r => pure (.globalPhotos false, r)
  | none =>
  match hasPrefix "CopyDecay" cs with
  | some r => do let (a, r) ← rLabel g r; let (b, r) ← rLabel g r; pure (.copyDecay a b, r)
  | none =>
  match hasPrefix "ModelAlias" cs with
  | some r => do
    let (a, r) ← rLabel g r
    let (m, r) ← rModel g r
    pure (.modelAlias a m, r)
  | none =>
  match hasPrefix "Decay" cs with
  | some r => do
    let (a, r) ← rLabel g r
    let r ← newlines1 r
    let (lines, r) ← decayBody g (r.length + 2) r []
    pure (.decay a lines, r)
  | none => throw "statement"

def readStmts (g : RGrammar) : Nat → Inp → List Stmt → R (List Stmt)
  | 0, _, _ => .error "fuel"
  | f + 1, cs, acc =>
    match skipWs cs with
    | [] => .ok acc.reverse
    | j =>
      match hasPrefix "End" j, hasPrefix "Enddecay" j with
      | some r, none =>
        match newlines1 r with
        | .error e => .error e
        | .ok r' => if (skipWs r').isEmpty then .ok acc.reverse else .error "text after End"
      | _, _ =>
        match rStmt g j with
        | .error e => .error e
        | .ok (st, r) =>
          match newlines1 r with
          | .error e => .error e
          | .ok r' => readStmts g f r' (st :: acc)

/-- the whole text -/
def readDoc (g : RGrammar) (text : String) : R Doc :=
  let cs := text.toList
  readStmts g (cs.length + 2) (newlines0 (cs.length + 1) cs) []

end DL
