/-
C15 — the chain graph has one node and one labelled edge per decay line.
`iterChain` follows `DecayChainViewer._build_decay_graph`.  `flatLines` is the specification: the
decay lines at every depth, depth first, each with the cells it shows and its branching fraction.
-/
import DL.Model.Viewer
namespace DL

variable {β : Type}

mutual
  /-- number of decay lines at every depth (a repeated decaying daughter counts each time) -/
  def lineCount : List (CMode β) → Nat
    | [] => 0
    | (_, fs) :: rest => 1 + lineCountFs fs + lineCount rest
  def lineCountFs : List (Item β) → Nat
    | [] => 0
    | .inl _ :: r => lineCountFs r
    | .inr c :: r => lineCountSub c + lineCountFs r
  def lineCountSub : Chain β → Nat
    | .mk _ modes => lineCount modes
end

mutual
  /-- the decay lines, depth first: (daughters shown in order, label) -/
  def flatLines (lbl : β → String) : List (CMode β) → List (List String × String)
    | [] => []
    | (i, fs) :: rest => (fs.map Item.name, lbl i) :: flatLinesFs lbl fs ++ flatLines lbl rest
  def flatLinesFs (lbl : β → String) : List (Item β) → List (List String × String)
    | [] => []
    | .inl _ :: r => flatLinesFs lbl r
    | .inr c :: r => flatLinesSub lbl c ++ flatLinesFs lbl r
  def flatLinesSub (lbl : β → String) : Chain β → List (List String × String)
    | .mk _ modes => flatLines lbl modes
end

/-- what one traversal is claimed to produce -/
structure GraphOK (lbl : β → String) (k : Nat) (lines : List (List String × String)) (n : Nat)
    (r : (List GNode × List GEdge) × Nat) : Prop where
  counter : r.2 = n + k
  ids : r.1.1.map (·.id) = List.range' n k
  dsts : r.1.2.map (·.dst) = List.range' n k
  cells : r.1.1.map (·.cells) = lines.map (·.1)
  labels : r.1.2.map (·.label) = lines.map (·.2)

theorem range'_append_add (n a b : Nat) : List.range' n a ++ List.range' (n + a) b = List.range' n (a + b) := by
  rw [List.range'_append_1]

theorem cons_range' (n a b : Nat) :
    n :: (List.range' (n + 1) a ++ List.range' (n + 1 + a) b) = List.range' n (1 + a + b) := by
  rw [List.range'_append_1, show 1 + a + b = (a + b) + 1 by omega, List.range'_succ]

mutual
  theorem iterChain_ok (lbl : β → String) (src : Option (Nat × Nat)) :
      ∀ (modes : List (CMode β)) (n : Nat),
        GraphOK lbl (lineCount modes) (flatLines lbl modes) n (iterChain lbl src modes n)
    | [], n => by
      simp only [iterChain, lineCount, flatLines]
      exact ⟨by simp, by simp, by simp, by simp, by simp⟩
    | (i, fs) :: rest, n => by
      have h1 := iterFs_ok lbl n fs 0 (n + 1)
      have h2 := iterChain_ok lbl src rest (iterFs lbl n fs 0 (n + 1)).2
      simp only [iterChain, lineCount, flatLines]
      obtain ⟨c1, i1, d1, ce1, l1⟩ := h1
      obtain ⟨c2, i2, d2, ce2, l2⟩ := h2
      refine ⟨?_, ?_, ?_, ?_, ?_⟩
      · simp only; rw [c2, c1]; omega
      · simp only [List.map_cons, List.map_append]
        rw [i1, i2, c1]; exact cons_range' n _ _
      · simp only [List.map_cons, List.map_append]
        rw [d1, d2, c1]; exact cons_range' n _ _
      · simp only [List.map_cons, List.map_append, ce1, ce2]
      · simp only [List.map_cons, List.map_append, l1, l2]
  theorem iterFs_ok (lbl : β → String) (ref : Nat) :
      ∀ (fs : List (Item β)) (pos n : Nat),
        GraphOK lbl (lineCountFs fs) (flatLinesFs lbl fs) n (iterFs lbl ref fs pos n)
    | [], pos, n => by
      simp only [iterFs, lineCountFs, flatLinesFs]
      exact ⟨by simp, by simp, by simp, by simp, by simp⟩
    | .inl _ :: r, pos, n => by
      simp only [iterFs, lineCountFs, flatLinesFs]
      exact iterFs_ok lbl ref r (pos + 1) n
    | .inr c :: r, pos, n => by
      have h1 := iterSub_ok lbl (some (ref, pos)) c n
      have h2 := iterFs_ok lbl ref r (pos + 1) (iterSub lbl (some (ref, pos)) c n).2
      simp only [iterFs, lineCountFs, flatLinesFs]
      obtain ⟨c1, i1, d1, ce1, l1⟩ := h1
      obtain ⟨c2, i2, d2, ce2, l2⟩ := h2
      refine ⟨?_, ?_, ?_, ?_, ?_⟩
      · simp only; rw [c2, c1]; omega
      · simp only [List.map_append]; rw [i1, i2, c1, List.range'_append_1]
      · simp only [List.map_append]; rw [d1, d2, c1, List.range'_append_1]
      · simp only [List.map_append, ce1, ce2]
      · simp only [List.map_append, l1, l2]
  theorem iterSub_ok (lbl : β → String) (src : Option (Nat × Nat)) :
      ∀ (c : Chain β) (n : Nat),
        GraphOK lbl (lineCountSub c) (flatLinesSub lbl c) n (iterSub lbl src c n)
    | .mk _ modes, n => by
      simp only [iterSub, lineCountSub, flatLinesSub]
      exact iterChain_ok lbl src modes n
end

/-- C15 (one node and one labelled edge per decay line, no others): besides the root the graph has
    exactly one node per decay line at every depth, in depth-first order, listing that line's
    daughters in order, and exactly one edge per line, ending in that line's node and labelled with
    the line's branching fraction -/
theorem C15_bijection (lbl : β → String) (c : Chain β) (n : Nat) :
    let g := (viewerGraph lbl c n).1
    g.root = c.mother ∧
    g.nodes.length = lineCount c.modes ∧ g.edges.length = lineCount c.modes ∧
    g.nodes.map (·.cells) = (flatLines lbl c.modes).map (·.1) ∧
    g.edges.map (·.label) = (flatLines lbl c.modes).map (·.2) ∧
    g.edges.map (·.dst) = g.nodes.map (·.id) := by
  have h := iterChain_ok lbl none c.modes n
  obtain ⟨_, i1, d1, ce1, l1⟩ := h
  simp only [viewerGraph]
  refine ⟨by first | rfl | trivial, ?_, ?_, ce1, l1, by rw [d1, i1]⟩
  · have := congrArg List.length i1; simpa using this
  · have := congrArg List.length d1; simpa using this

/-- C15 (identifiers): the node numbers of one graph are the consecutive counter values, hence
    pairwise different, and the counter moves past them -/
theorem C15_ids (lbl : β → String) (c : Chain β) (n : Nat) :
    let r := viewerGraph lbl c n
    r.1.nodes.map (·.id) = List.range' n (lineCount c.modes) ∧
    (r.1.nodes.map (·.id)).Nodup ∧ r.2 = n + lineCount c.modes := by
  have h := iterChain_ok lbl none c.modes n
  simp only [viewerGraph]
  exact ⟨h.ids, by rw [h.ids]; exact List.nodup_range', h.counter⟩

/-- C15 (across graphs): a graph made later in the session (the counter only moves forward) shares
    no node number with an earlier one -/
theorem C15_ids_across (lbl : β → String) (c₁ c₂ : Chain β) (n m : Nat)
    (hm : (viewerGraph lbl c₁ n).2 ≤ m) :
    ∀ i, i ∈ (viewerGraph lbl c₁ n).1.nodes.map (·.id) → i ∉ (viewerGraph lbl c₂ m).1.nodes.map (·.id) := by
  intro i h1 h2
  obtain ⟨e1, _, k1⟩ := C15_ids lbl c₁ n
  obtain ⟨e2, _, _⟩ := C15_ids lbl c₂ m
  rw [e1] at h1; rw [e2] at h2
  rw [k1] at hm
  simp only [List.mem_range'_1] at h1 h2
  omega

/-- an empty table adds nothing -/
theorem C15_empty (lbl : β → String) (m : String) (n : Nat) :
    viewerGraph lbl (.mk m []) n = ({ root := m, nodes := [], edges := [] }, n) := by
  rfl

mutual
  /-- where the edges start: every line of the mother starts at `src`; the lines of a decaying
      daughter at position `i` of the line drawn as node `k` start at `dec<k>:p<i>` -/
  def srcsOK (src : Option (Nat × Nat)) : List (CMode β) → Nat → List (Option (Nat × Nat))
    | [], _ => []
    | (_, fs) :: rest, n => src :: srcsFs n fs 0 (n + 1) ++ srcsOK src rest (n + 1 + lineCountFs fs)
  def srcsFs (ref : Nat) : List (Item β) → Nat → Nat → List (Option (Nat × Nat))
    | [], _, _ => []
    | .inl _ :: r, pos, n => srcsFs ref r (pos + 1) n
    | .inr c :: r, pos, n => srcsSub (some (ref, pos)) c n ++ srcsFs ref r (pos + 1) (n + lineCountSub c)
  def srcsSub (src : Option (Nat × Nat)) : Chain β → Nat → List (Option (Nat × Nat))
    | .mk _ modes, n => srcsOK src modes n
end

mutual
  theorem iterChain_srcs (lbl : β → String) (src : Option (Nat × Nat)) :
      ∀ (modes : List (CMode β)) (n : Nat),
        (iterChain lbl src modes n).1.2.map (·.src) = srcsOK src modes n
    | [], n => by simp [iterChain, srcsOK]
    | (i, fs) :: rest, n => by
      simp only [iterChain, srcsOK, List.map_cons, List.map_append]
      rw [iterFs_srcs lbl n fs 0 (n + 1), iterChain_srcs lbl src rest, (iterFs_ok lbl n fs 0 (n + 1)).counter]
  theorem iterFs_srcs (lbl : β → String) (ref : Nat) :
      ∀ (fs : List (Item β)) (pos n : Nat),
        (iterFs lbl ref fs pos n).1.2.map (·.src) = srcsFs ref fs pos n
    | [], pos, n => by simp [iterFs, srcsFs]
    | .inl _ :: r, pos, n => by simp only [iterFs, srcsFs]; exact iterFs_srcs lbl ref r (pos + 1) n
    | .inr c :: r, pos, n => by
      simp only [iterFs, srcsFs, List.map_append]
      rw [iterSub_srcs lbl (some (ref, pos)) c n, iterFs_srcs lbl ref r, (iterSub_ok lbl (some (ref, pos)) c n).counter]
  theorem iterSub_srcs (lbl : β → String) (src : Option (Nat × Nat)) :
      ∀ (c : Chain β) (n : Nat), (iterSub lbl src c n).1.2.map (·.src) = srcsSub src c n
    | .mk _ modes, n => by simp only [iterSub, srcsSub]; exact iterChain_srcs lbl src modes n
end

/-- C15 (edge origins): the edges start from the root or from the slot of the decaying daughter in
    its parent node, as `srcsOK` spells out -/
theorem C15_sources (lbl : β → String) (c : Chain β) (n : Nat) :
    (viewerGraph lbl c n).1.edges.map (·.src) = srcsOK none c.modes n := by
  simp only [viewerGraph]; exact iterChain_srcs lbl none c.modes n

/-- non-vacuity: D0 -> K_S0 pi0 pi0 with K_S0 and pi0 decaying: 1 + 1 + 2 lines -/
def exG : Chain String :=
  .mk "D0" [("0.5", [.inr (.mk "K_S0" [("0.3", [.inl "pi+", .inl "pi-"])]),
                     .inr (.mk "pi0" [("1.0", [.inl "gamma", .inl "gamma"])]),
                     .inr (.mk "pi0" [("1.0", [.inl "gamma", .inl "gamma"])])])]
example : lineCount exG.modes = 4 := by decide
example : (viewerGraph id exG 7).1.edges.map (·.src) = [none, some (7, 0), some (7, 1), some (7, 2)] := by decide

end DL
