/-
C15 — the chain graph has one node and one labelled edge per decay line.
`iterChain` follows `DecayChainViewer._build_decay_graph`.  `flatLines` is the specification: the
decay lines at every depth, depth first, each with the cells it shows and its branching fraction.
-/
import DL.Model.Viewer
namespace DL

variable {β : Type}

mutual
  /-- number of decay lines at every depth (a repeated decaying daughter counts each time) -/
  def lineCount : List (CMode β) → Nat
    | [] => 0
    | (_, fs) :: rest => 1 + lineCountFs fs + lineCount rest
  def lineCountFs : List (Item β) → Nat
    | [] => 0
    | .inl _ :: r => lineCountFs r
    | .inr c :: r => lineCountSub c + lineCountFs r
  def lineCountSub : Chain β → Nat
    | .mk _ modes => lineCount modes
end

mutual
  /-- the decay lines, depth first: (daughters shown in order, label) -/
  def flatLines (lbl : β → String) : List (CMode β) → List (List String × String)
    | [] => []
    | (i, fs) :: rest => (fs.map Item.name, lbl i) :: flatLinesFs lbl fs ++ flatLines lbl rest
  def flatLinesFs (lbl : β → String) : List (Item β) → List (List String × String)
    | [] => []
    | .inl _ :: r => flatLinesFs lbl r
    | .inr c :: r => flatLinesSub lbl c ++ flatLinesFs lbl r
  def flatLinesSub (lbl : β → String) : Chain β → List (List String × String)
    | .mk _ modes => flatLines lbl modes
end

/-- what one traversal is claimed to produce -/
structure GraphOK (lbl : β → String) (k : Nat) (lines : List (List String × String)) (n : Nat)
    (r : (List GNode × List GEdge) × Nat) : Prop where
  counter : r.2 = n + k
  ids : r.1.1.map (·.id) = List.range' n k
  dsts : r.1.2.map (·.dst) = List.range' n k
  cells : r.1.1.map (·.cells) = lines.map (·.1)
  labels : r.1.2.map (·.label) = lines.map (·.2)

theorem range'_append_add (n a b : Nat) : List.range' n a ++ List.range' (n + a) b = List.range' n (a + b) := by
  rw [List.range'_append_1]

theorem cons_range' (n a b : Nat) :
    n :: (List.range' (n + 1) a ++ List.range' (n + 1 + a) b) = List.range' n (1 + a + b) := by
  rw [List.range'_append_1, show 1 + a + b = (a + b) + 1 by omega, List.range'_succ]

mutual
  theorem iterChain_ok (lbl : β → String) (src : Option (Nat × Nat)) :
      ∀ (modes : List (CMode β)) (n : Nat),
        GraphOK lbl (lineCount modes) (flatLines lbl modes) n (iterChain lbl src modes n)
    | [], n => by
      simp only [iterChain, lineCount, flatLines]
      exact ⟨by simp, by simp, by simp, by simp, by simp⟩
    | (i, fs) :: rest, n => by
      have h1 := iterFs_ok lbl n fs 0 (n + 1)
      have h2 := iterChain_ok lbl src rest (iterFs lbl n fs 0 (n + 1)).2
      simp only [iterChain, lineCount, flatLines]
      obtain ⟨c1, i1, d1, ce1, l1⟩ := h1
      obtain ⟨c2, i2, d2, ce2, l2⟩ := h2
      refine ⟨?_, ?_, ?_, ?_, ?_⟩
      · simp only; rw [c2, c1]; omega
      · simp only [List.map_cons, List.map_append]
        rw [i1, i2, c1]; exact cons_range' n _ _
      · simp only [List.map_cons, List.map_append]
        rw [d1, d2, c1]; exact cons_range' n _ _
      · simp only [List.map_cons, List.map_append, ce1, ce2]
      · simp only [List.map_cons, List.map_append, l1, l2]
  theorem iterFs_ok (lbl : β → String) (ref : Nat) :
      ∀ (fs : List (Item β)) (pos n : Nat),
        GraphOK lbl (lineCountFs fs) (flatLinesFs lbl fs) n (iterFs lbl ref fs pos n)
    | [], pos, n => by
      simp only [iterFs, lineCountFs, flatLinesFs]
      exact ⟨by simp, by simp, by simp, by simp, by simp⟩
    | .inl _ :: r, pos, n => by
      simp only [iterFs, lineCountFs, flatLinesFs]
      exact iterFs_ok lbl ref r (pos + 1) n
    | .inr c :: r, pos, n => by
      have h1 := iterSub_ok lbl (some (ref, pos)) c n
      have h2 := iterFs_ok lbl ref r (pos + 1) (iterSub lbl (some (ref, pos)) c n).2
      simp only [iterFs, lineCountFs, flatLinesFs]
      obtain ⟨c1, i1, d1, ce1, l1⟩ := h1
      obtain ⟨c2, i2, d2, ce2, l2⟩ := h2
      refine ⟨?_, ?_, ?_, ?_, ?_⟩
      · simp only; rw [c2, c1]; omega
      · simp only [List.map_append]; rw [i1, i2, c1, List.range'_append_1]
      · simp only [List.map_append]; rw [d1, d2, c1, List.range'_append_1]
      · simp only [List.map_append, ce1, ce2]
      · simp only [List.map_append, l1, l2]
  theorem iterSub_ok (lbl : β → String) (src : Option (Nat × Nat)) :
      ∀ (c : Chain β) (n : Nat),
        GraphOK lbl (lineCountSub c) (flatLinesSub lbl c) n (iterSub lbl src c n)
    | .mk _ modes, n => by
      simp only [iterSub, lineCountSub, flatLinesSub]
      exact iterChain_ok lbl src modes n
end

/-- C15 (one node and one labelled edge per decay line, no others): besides the root the graph has
    exactly one node per decay line at every depth, in depth-first order, listing that line's
    daughters in order, and exactly one edge per line, ending in that line's node and labelled with
    the line's branching fraction -/
theorem C15_bijection (lbl : β → String) (c : Chain β) (n : Nat) :
    let g := (viewerGraph lbl c n).1
    g.root = c.mother ∧
    g.nodes.length = lineCount c.modes ∧ g.edges.length = lineCount c.modes ∧
    g.nodes.map (·.cells) = (flatLines lbl c.modes).map (·.1) ∧
    g.edges.map (·.label) = (flatLines lbl c.modes).map (·.2) ∧
    g.edges.map (·.dst) = g.nodes.map (·.id) := by
  have h := iterChain_ok lbl none c.modes n
  obtain ⟨_, i1, d1, ce1, l1⟩ := h
  simp only [viewerGraph]
  refine ⟨by first | rfl | trivial, ?_, ?_, ce1, l1, by rw [d1, i1]⟩
  · have := congrArg List.length i1; simpa using this
  · have := congrArg List.length d1; simpa using this

/-- C15 (identifiers): the node numbers of one graph are the consecutive counter values, hence
    pairwise different, and the counter moves past them -/
theorem C15_ids (lbl : β → String) (c : Chain β) (n : Nat) :
    let r := viewerGraph lbl c n
    r.1.nodes.map (·.id) = List.range' n (lineCount c.modes) ∧
    (r.1.nodes.map (·.id)).Nodup ∧ r.2 = n + lineCount c.modes := by
  have h := iterChain_ok lbl none c.modes n
  simp only [viewerGraph]
  exact ⟨h.ids, by rw [h.ids]; exact List.nodup_range', h.counter⟩

/-- C15 (across graphs): a graph made later in the session (the counter only moves forward) shares
    no node number with an earlier one -/
theorem C15_ids_across (lbl : β → String) (c₁ c₂ : Chain β) (n m : Nat)
    (hm : (viewerGraph lbl c₁ n).2 ≤ m) :
    ∀ i, i ∈ (viewerGraph lbl c₁ n).1.nodes.map (·.id) → i ∉ (viewerGraph lbl c₂ m).1.nodes.map (·.id) := by
  intro i h1 h2
  obtain ⟨e1, _, k1⟩ := C15_ids lbl c₁ n
  obtain ⟨e2, _, _⟩ := C15_ids lbl c₂ m
  rw [e1] at h1; rw [e2] at h2
  rw [k1] at hm
  simp only [List.mem_range'_1] at h1 h2
  omega

/-- an empty table adds nothing -/
theorem C15_empty (lbl : β → String) (m : String) (n : Nat) :
    viewerGraph lbl (.mk m []) n = ({ root := m, nodes := [], edges := [] }, n) := by
  rfl

mutual
  /-- where the edges start: every line of the mother starts at `src`; the lines of a decaying
      daughter at position `i` of the line drawn as node `k` start at `dec<k>:p<i>` -/
  def srcsOK (src : Option (Nat × Nat)) : List (CMode β) → Nat → List (Option (Nat × Nat))
    | [], _ => []
    | (_, fs) :: rest, n => src :: srcsFs n fs 0 (n + 1) ++ srcsOK src rest (n + 1 + lineCountFs fs)
  def srcsFs (ref : Nat) : List (Item β) → Nat → Nat → List (Option (Nat × Nat))
    | [], _, _ => []
    | .inl _ :: r, pos, n => srcsFs ref r (pos + 1) n
    | .inr c :: r, pos, n => srcsSub (some (ref, pos)) c n ++ srcsFs ref r (pos + 1) (n + lineCountSub c)
  def srcsSub (src : Option (Nat × Nat)) : Chain β → Nat → List (Option (Nat × Nat))
    | .mk _ modes, n => srcsOK src modes n
end

mutual
  theorem iterChain_srcs (lbl : β → String) (src : Option (Nat × Nat)) :
      ∀ (modes : List (CMode β)) (n : Nat),
        (iterChain lbl src modes n).1.2.map (·.src) = srcsOK src modes n
    | [], n => by simp [iterChain, srcsOK]
    | (i, fs) :: rest, n => by
      simp only [iterChain, srcsOK, List.map_cons, List.map_append]
      rw [iterFs_srcs lbl n fs 0 (n + 1), iterChain_srcs lbl src rest, (iterFs_ok lbl n fs 0 (n + 1)).counter]
  theorem iterFs_srcs (lbl : β → String) (ref : Nat) :
      ∀ (fs : List (Item β)) (pos n : Nat),
        (iterFs lbl ref fs pos n).1.2.map (·.src) = srcsFs ref fs pos n
    | [], pos, n => by simp [iterFs, srcsFs]
    | .inl _ :: r, pos, n => by simp only [iterFs, srcsFs]; exact iterFs_srcs lbl ref r (pos + 1) n
    | .inr c :: r, pos, n => by
      simp only [iterFs, srcsFs, List.map_append]
      rw [iterSub_srcs lbl (some (ref, pos)) c n, iterFs_srcs lbl ref r, (iterSub_ok lbl (some (ref, pos)) c n).counter]
  theorem iterSub_srcs (lbl : β → String) (src : Option (Nat × Nat)) :
      ∀ (c : Chain β) (n : Nat), (iterSub lbl src c n).1.2.map (·.src) = srcsSub src c n
    | .mk _ modes, n => by simp only [iterSub, srcsSub]; exact iterChain_srcs lbl src modes n
end

/-- C15 (edge origins): the edges start from the root or from the slot of the decaying daughter in
    its parent node, as `srcsOK` spells out -/
theorem C15_sources (lbl : β → String) (c : Chain β) (n : Nat) :
    (viewerGraph lbl c n).1.edges.map (·.src) = srcsOK none c.modes n := by
  simp only [viewerGraph]; exact iterChain_srcs lbl none c.modes n

/-- non-vacuity: D0 -> K_S0 pi0 pi0 with K_S0 and pi0 decaying: 1 + 1 + 2 lines -/
def exG : Chain String :=
  .mk "D0" [("0.5", [.inr (.mk "K_S0" [("0.3", [.inl "pi+", .inl "pi-"])]),
                     .inr (.mk "pi0" [("1.0", [.inl "gamma", .inl "gamma"])]),
                     .inr (.mk "pi0" [("1.0", [.inl "gamma", .inl "gamma"])])])]
example : lineCount exG.modes = 4 := by decide
example : (viewerGraph id exG 7).1.edges.map (·.src) = [none, some (7, 0), some (7, 1), some (7, 2)] := by decide


/-! ### edge origins exist: every edge that does not start at the root starts at a PORT of a node of
the same graph, and that slot shows the decaying daughter -/

/-- the slot `dec<k>:p<i>` exists in `nodes` and shows `name` -/
def SlotIn (nodes : List GNode) (k i : Nat) : Prop :=
  ∃ nd ∈ nodes, nd.id = k ∧ nd.ports = true ∧ i < nd.cells.length

def EdgeSrcOK (nodes : List GNode) (e : GEdge) : Prop :=
  match e.src with
  | none => True
  | some (k, i) => SlotIn nodes k i

theorem SlotIn.mono {ns ms : List GNode} {k i : Nat} (h : SlotIn ns k i) (hsub : ∀ x ∈ ns, x ∈ ms) :
    SlotIn ms k i := by
  obtain ⟨nd, hm, h1, h2, h3⟩ := h
  exact ⟨nd, hsub nd hm, h1, h2, h3⟩

theorem EdgeSrcOK.mono {ns ms : List GNode} {e : GEdge} (h : EdgeSrcOK ns e) (hsub : ∀ x ∈ ns, x ∈ ms) :
    EdgeSrcOK ms e := by
  unfold EdgeSrcOK at *
  cases hs : e.src with
  | none => trivial
  | some p => obtain ⟨k, i⟩ := p; rw [hs] at h; exact SlotIn.mono h hsub

theorem hasSub_of_mem_inr {fs : List (Item β)} {c : Chain β} (h : Sum.inr c ∈ fs) : hasSub fs = true := by
  simp only [hasSub, List.any_eq_true]
  exact ⟨_, h, rfl⟩

mutual
  theorem iterChain_slots (lbl : β → String) (src : Option (Nat × Nat)) :
      ∀ (modes : List (CMode β)) (n : Nat), ∀ e ∈ (iterChain lbl src modes n).1.2,
        e.src = src ∨ EdgeSrcOK (iterChain lbl src modes n).1.1 e
    | [], n => by simp [iterChain]
    | (i, fs) :: rest, n => by
      intro e he
      simp only [iterChain, List.mem_cons, List.mem_append] at he ⊢
      rcases he with (rfl | he) | he
      · exact Or.inl rfl
      · right
        rcases iterFs_slots lbl n fs 0 (n + 1) e he with ⟨j, hj, hlt, hs⟩ | h
        · unfold EdgeSrcOK; rw [hj]
          exact ⟨_, List.mem_cons_self, rfl, hs, by simpa using hlt⟩
        · exact h.mono (fun x hx => by simp [hx])
      · rcases iterChain_slots lbl src rest _ e he with h | h
        · exact Or.inl h
        · exact Or.inr (h.mono (fun x hx => by simp [hx]))
  /-- edges made below the line drawn as node `ref`: they start at a slot `pos ≤ j < pos + |fs|` of
      `ref` (and then the line has a decaying daughter), or at a slot of a node made here -/
  theorem iterFs_slots (lbl : β → String) (ref : Nat) :
      ∀ (fs : List (Item β)) (pos n : Nat), ∀ e ∈ (iterFs lbl ref fs pos n).1.2,
        (∃ j, e.src = some (ref, j) ∧ j < pos + fs.length ∧ hasSub fs = true) ∨
        EdgeSrcOK (iterFs lbl ref fs pos n).1.1 e
    | [], pos, n => by simp [iterFs]
    | .inl s :: r, pos, n => by
      intro e he
      simp only [iterFs] at he ⊢
      rcases iterFs_slots lbl ref r (pos + 1) n e he with ⟨j, hj, hlt, hs⟩ | h
      · exact Or.inl ⟨j, hj, by simp only [List.length_cons]; omega, by simpa [hasSub] using hs⟩
      · exact Or.inr h
    | .inr c :: r, pos, n => by
      intro e he
      simp only [iterFs, List.mem_append] at he ⊢
      rcases he with he | he
      · rcases iterSub_slots lbl (some (ref, pos)) c n e he with h | h
        · exact Or.inl ⟨pos, h, by simp only [List.length_cons]; omega, by simp [hasSub]⟩
        · exact Or.inr (h.mono (fun x hx => by simp [hx]))
      · rcases iterFs_slots lbl ref r (pos + 1) _ e he with ⟨j, hj, hlt, _⟩ | h
        · exact Or.inl ⟨j, hj, by simp only [List.length_cons]; omega, by simp [hasSub]⟩
        · exact Or.inr (h.mono (fun x hx => by simp [hx]))
  theorem iterSub_slots (lbl : β → String) (src : Option (Nat × Nat)) :
      ∀ (c : Chain β) (n : Nat), ∀ e ∈ (iterSub lbl src c n).1.2,
        e.src = src ∨ EdgeSrcOK (iterSub lbl src c n).1.1 e
    | .mk _ modes, n => by simp only [iterSub]; exact iterChain_slots lbl src modes n
end

/-- C15 (edge origins exist): every edge starts at the root or at a PORT slot of a node of the same
    graph — a node that carries PORT tags and has that many cells -/
theorem C15_slots (lbl : β → String) (c : Chain β) (n : Nat) :
    ∀ e ∈ (viewerGraph lbl c n).1.edges, EdgeSrcOK (viewerGraph lbl c n).1.nodes e := by
  intro e he
  simp only [viewerGraph] at he ⊢
  rcases iterChain_slots lbl none c.modes n e he with h | h
  · unfold EdgeSrcOK; rw [h]; trivial
  · exact h

/-! ### the label text is well formed

A subset of Graphviz's grammar of HTML-like labels, as derivation rules on characters: a label is a
`<TABLE …>` of at least one row `<TR>…</TR>`, a row has at least one cell `<TD …>text</TD>`, and `text`
is made of plain characters (no `<`, `>`, `&`), character entities `&…;` and `<SUB>` / `<SUP>` spans.
(A row without a cell is what finding F16 produced; a raw `<` or `&` in a name is what finding F17
produced.) -/

def NoAngle (l : List Char) : Prop := ∀ c ∈ l, c ≠ '<' ∧ c ≠ '>'

instance (l : List Char) : Decidable (NoAngle l) := by unfold NoAngle; infer_instance

inductive TextOK : List Char → Prop
  | nil : TextOK []
  | chr {c : Char} {r : List Char} : c ≠ '<' → c ≠ '>' → c ≠ '&' → TextOK r → TextOK (c :: r)
  | ent {name r : List Char} : name ≠ [] → (∀ c ∈ name, c ≠ '<' ∧ c ≠ '>' ∧ c ≠ '&' ∧ c ≠ ';') →
      TextOK r → TextOK ('&' :: (name ++ ';' :: r))
  | sub {inner r : List Char} : TextOK inner → TextOK r →
      TextOK ("<SUB>".toList ++ inner ++ "</SUB>".toList ++ r)
  | sup {inner r : List Char} : TextOK inner → TextOK r →
      TextOK ("<SUP>".toList ++ inner ++ "</SUP>".toList ++ r)

def CellOK (cell : List Char) : Prop :=
  ∃ attrs text, NoAngle attrs ∧ TextOK text ∧ cell = "<TD".toList ++ attrs ++ ['>'] ++ text ++ "</TD>".toList

def RowOK (row : List Char) : Prop :=
  ∃ cells, cells ≠ [] ∧ (∀ c ∈ cells, CellOK c) ∧ row = "<TR>".toList ++ cells.flatten ++ "</TR>".toList

def LabelOK (l : List Char) : Prop :=
  ∃ attrs rows, NoAngle attrs ∧ rows ≠ [] ∧ (∀ r ∈ rows, RowOK r) ∧
    l = "<<TABLE".toList ++ attrs ++ ['>'] ++ rows.flatten ++ "</TABLE>>".toList

/-- escaping makes any name a well-formed text -/
theorem escape_textOK : ∀ l : List Char, TextOK (escapeHtmlChars l)
  | [] => TextOK.nil
  | c :: r => by
    have ih := escape_textOK r
    simp only [escapeHtmlChars]
    have h1 : ∀ c ∈ ['a', 'm', 'p'], c ≠ '<' ∧ c ≠ '>' ∧ c ≠ '&' ∧ c ≠ ';' := by decide
    have h2 : ∀ c ∈ ['l', 't'], c ≠ '<' ∧ c ≠ '>' ∧ c ≠ '&' ∧ c ≠ ';' := by decide
    have h3 : ∀ c ∈ ['g', 't'], c ≠ '<' ∧ c ≠ '>' ∧ c ≠ '&' ∧ c ≠ ';' := by decide
    split
    · exact TextOK.ent (name := ['a', 'm', 'p']) (by simp) h1 ih
    · split
      · exact TextOK.ent (name := ['l', 't']) (by simp) h2 ih
      · split
        · exact TextOK.ent (name := ['g', 't']) (by simp) h3 ih
        · exact TextOK.chr (by assumption) (by assumption) (by assumption) ih

/-- and leaves a name without markup characters (every name the .dec grammar can produce) as it is -/
theorem escape_plain : ∀ l : List Char, (∀ c ∈ l, c ≠ '&' ∧ c ≠ '<' ∧ c ≠ '>') → escapeHtmlChars l = l
  | [], _ => rfl
  | c :: r, h => by
    have hc := h c List.mem_cons_self
    simp only [escapeHtmlChars, hc.1, hc.2.1, hc.2.2, if_false]
    rw [escape_plain r (fun x hx => h x (List.mem_cons_of_mem _ hx))]

/-- `safe_html_name`: well-formed text whenever the HTML spellings of the table are -/
theorem safeHtml_textOK (tbl : List (String × String)) (htbl : ∀ n h, dget tbl n = some h → TextOK h.toList)
    (n : String) : TextOK (safeHtml tbl n) := by
  unfold safeHtml
  split
  · exact htbl _ _ (by assumption)
  · exact escape_textOK _

theorem noAngle_append {a b : List Char} (ha : NoAngle a) (hb : NoAngle b) : NoAngle (a ++ b) := by
  intro c hc; rcases List.mem_append.mp hc with h | h
  · exact ha c h
  · exact hb c h

theorem noAngle_digits (i : Nat) : NoAngle (toString i).toList := by
  intro c hc
  have : c.isDigit = true := Nat.isDigit_of_mem_toDigits (b := 10) (by decide) (by decide) (by simpa [toString, Nat.repr] using hc)
  constructor <;> (intro h; rw [h] at this; exact absurd this (by decide))

theorem tdPlain_ok {text : List Char} (h : TextOK text) : CellOK (tdPlain text) :=
  ⟨_, text, by decide, h, rfl⟩

theorem tdPort_ok (i : Nat) {text : List Char} (h : TextOK text) : CellOK (tdPort i text) :=
  ⟨_, text, noAngle_append (noAngle_append (by decide) (noAngle_digits i)) (by decide), h, rfl⟩

theorem portRows_ok (safe : String → List Char) (hs : ∀ n, TextOK (safe n)) :
    ∀ (names : List String) (i : Nat), ∀ r ∈ portRows safe names i, RowOK r
  | [], _ => by simp [portRows]
  | n :: rest, i => by
    intro r hr
    simp only [portRows, List.mem_cons] at hr
    rcases hr with rfl | hr
    · exact ⟨[tdPort i (safe n)], by simp, by simpa using tdPort_ok i (hs n), rfl⟩
    · exact portRows_ok safe hs rest (i + 1) r hr

theorem portRows_length (safe : String → List Char) : ∀ (names : List String) (i : Nat),
    (portRows safe names i).length = names.length
  | [], _ => rfl
  | _ :: rest, i => by simp [portRows, portRows_length safe rest (i + 1)]

theorem shownNames_ne_nil (names : List String) : shownNames names ≠ [] := by
  unfold shownNames; split
  · simp
  · intro h; simp_all

/-- C15 (the label is well formed): whatever the names, the label of a node is a table of at least
    one row, every row with at least one cell, every cell holding well-formed text -/
theorem C15_label_wellformed (safe : String → List Char) (hs : ∀ n, TextOK (safe n))
    (names : List String) (addTags : Bool) (bg : String) (hbg : NoAngle bg.toList) :
    LabelOK (htmlTableLabel safe names addTags bg) := by
  refine ⟨tableAttrs addTags bg, labelRows safe names addTags, ?_, ?_, ?_, rfl⟩
  · unfold tableAttrs
    cases addTags <;> exact noAngle_append (noAngle_append (by decide) hbg) (by decide)
  · unfold labelRows
    cases addTags
    · simp
    · simp only [if_true]
      intro h
      have := congrArg List.length h
      rw [portRows_length] at this
      exact shownNames_ne_nil names (List.eq_nil_of_length_eq_zero (by simpa using this))
  · unfold labelRows
    cases addTags
    · simp only [Bool.false_eq_true, if_false, List.mem_singleton]
      rintro r rfl
      refine ⟨(shownNames names).map fun n => tdPlain (safe n), ?_, ?_, rfl⟩
      · simpa using shownNames_ne_nil names
      · intro c hc
        obtain ⟨n, _, rfl⟩ := List.mem_map.mp hc
        exact tdPlain_ok (hs n)
    · simp only [if_true]
      exact portRows_ok safe hs _ 0

/-- C15 (every label of a graph): the root label and the label of every decay-line node of the graph
    of any chain are well formed — for names of any spelling, given well-formed HTML spellings in the
    particle table -/
theorem C15_graph_labels (tbl : List (String × String)) (htbl : ∀ n h, dget tbl n = some h → TextOK h.toList)
    (lbl : β → String) (c : Chain β) (n : Nat) :
    LabelOK (rootLabel (safeHtml tbl) (viewerGraph lbl c n).1.root) ∧
    ∀ nd ∈ (viewerGraph lbl c n).1.nodes, LabelOK (nd.label (safeHtml tbl)) := by
  have hs := safeHtml_textOK tbl htbl
  refine ⟨C15_label_wellformed _ hs _ _ _ (by decide), fun nd _ => ?_⟩
  unfold GNode.label
  split
  · exact C15_label_wellformed _ hs _ _ _ (by decide)
  · exact C15_label_wellformed _ hs _ _ _ (by decide)

/-- the PORT tags of a node with sub-chains are `p0`, `p1`, … in cell order -/
theorem C15_ports (safe : String → List Char) : ∀ (names : List String) (i : Nat),
    portRows safe names i = (names.zipIdx i).map fun p => trOf [tdPort p.2 (safe p.1)]
  | [], _ => rfl
  | n :: rest, i => by simp [portRows, List.zipIdx_cons, C15_ports safe rest (i + 1)]

/-- non-vacuity: a name with markup characters, an empty line, an HTML spelling from the table -/
example : String.ofList (escapeHtmlChars "a<b&c".toList) = "a&lt;b&amp;c" := by decide
example : String.ofList (htmlTableLabel (safeHtml []) [] false "#eef3f8") =
    "<<TABLE BORDER=\"0\" CELLSPACING=\"0\" CELLPADDING=\"0\" BGCOLOR=\"#eef3f8\"><TR><TD BORDER=\"0\" CELLPADDING=\"2\"></TD></TR></TABLE>>" := by
  decide
example : TextOK "B&#773;<SUP>0</SUP>".toList :=
  TextOK.chr (by decide) (by decide) (by decide)
    (TextOK.ent (name := "#773".toList) (r := "<SUP>0</SUP>".toList) (by decide) (by decide)
      (TextOK.sup (inner := ['0']) (r := []) (TextOK.chr (by decide) (by decide) (by decide) TextOK.nil) TextOK.nil))

end DL
