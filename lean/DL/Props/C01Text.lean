/-
C01 from the text: the statement-level theorems of DL/Props/C01.lean composed with the reader
round trip of DL/Props/C02.lean (`C02_read_layout_decay`).  For every document `d` meeting the
decidable predicate `StmtOK` and every layout meeting `GoodLayoutD`, what the reader and `parse()`
make of the *text* `renderD ℓ d` is what the statement-level theorems say about `d`.
-/
import DL.Props.C01
import DL.Props.C02
namespace DL
open ReadRT

/-- the decay tables computed from the text are those of the document it renders -/
theorem C01_text_tables (g : RGrammar) (hG : GoodDecayGrammar g) (db : DB) (o : Opts)
    (ℓ : DocLayoutD) (hℓ : GoodLayoutD ℓ) (d : Doc) (hd : ∀ s ∈ d, StmtOK g s) :
    (readDoc g (String.ofList (renderD ℓ d))).map (tables db o) = .ok (tables db o d) := by
  rw [C02_read_layout_decay g hG ℓ hℓ d hd]; rfl

/-- mothers, from the text: when the text is read as `d'` and its tables exist, the mothers reported
    are the distinct mothers of the Decay blocks written in the text, in file order, the first block
    of each kept -/
theorem C01_text_mothers (g : RGrammar) (hG : GoodDecayGrammar g)
    (ℓ : DocLayoutD) (hℓ : GoodLayoutD ℓ) (d : Doc) (hd : ∀ s ∈ d, StmtOK g s) (d' : Doc) (t : Tables)
    (hr : readDoc g (String.ofList (renderD ℓ d)) = .ok d') (h : tablesDecay d' = .ok t) :
    motherNames t = (dedupKeepFirst (decayBlocks d)).map (·.1) := by
  rw [C02_read_layout_decay g hG ℓ hℓ d hd] at hr
  cases hr
  exact C01_mother_names d t h

/-- every statement of the text is accounted for: the reader returns exactly the statements written,
    in order, none dropped, none invented -/
theorem C01_text_complete (g : RGrammar) (hG : GoodDecayGrammar g)
    (ℓ : DocLayoutD) (hℓ : GoodLayoutD ℓ) (d : Doc) (hd : ∀ s ∈ d, StmtOK g s) :
    (readDoc g (String.ofList (renderD ℓ d))).map List.length = .ok d.length := by
  rw [C02_read_layout_decay g hG ℓ hℓ d hd]; rfl

/-- every query at once: whatever is computed from the statements (`dict_*`, `list_*`, the lineshape
    and Pythia / JetSet tables, the PHOTOS flag, …) is, computed from the text, what it is for the
    document written — so the statement-level theorems of C05 and C07 hold of the text as well -/
theorem C02_text_any {α : Type} (f : Doc → α) (g : RGrammar) (hG : GoodDecayGrammar g)
    (ℓ : DocLayoutD) (hℓ : GoodLayoutD ℓ) (d : Doc) (hd : ∀ s ∈ d, StmtOK g s) :
    (readDoc g (String.ofList (renderD ℓ d))).map f = .ok (f d) := by
  rw [C02_read_layout_decay g hG ℓ hℓ d hd]; rfl

end DL
