/-
C11 — class, dictionary and parser forms of a decay convert into each other losslessly.
Property theorems only; helper lemmas are in DL/Lemmas.
-/
import DL.Lemmas.Sort
namespace DL

/-- what every `DecayMode` object satisfies: the daughters are kept in canonical order, the metadata
    starts with the two entries the constructor always creates, followed by user entries with
    pairwise different keys; `model_params` is not `None` (which `to_dict` normalises to "" by design) -/
structure WFMode (m : Mode) : Prop where
  sorted : ∃ l, m.ds = ddOfList l
  shape : ∃ a b others, m.mdat = ("model", a) :: ("model_params", b) :: others ∧
    "model" ∉ dkeys others ∧ "model_params" ∉ dkeys others ∧ (dkeys others).Nodup ∧ b ≠ jsonNull

theorem dupdate_eq (d u : List (String × String)) :
    dupdate d u = u.foldl (fun acc (kv : String × String) => dset acc kv.1 kv.2) d := by
  unfold dupdate
  congr 1

/-- a decay mode converted to its dictionary form and back is the original mode -/
theorem C11_mode (m : Mode) (h : WFMode m) : Mode.fromDict (Mode.toDict m) = .ok m := by
  obtain ⟨⟨l, hl⟩, a, b, others, hm, h1, h2, h3, hb⟩ := h
  have hmp : dget m.mdat "model_params" = some b := by
    rw [hm]; simp [dget]
  have htd : Mode.toDict m = { bf := some m.bf, fs := some m.ds, rest := m.mdat } := by
    unfold Mode.toDict; simp [hmp, hb]
  rw [htd]
  simp only [Mode.fromDict, Mode.new]
  have hds : ddOfList m.ds = m.ds := by rw [hl]; exact ssort_idem l
  have hmeta : dupdate defaultMeta m.mdat = m.mdat := by
    rw [dupdate_eq, hm]
    simp only [List.foldl_cons, defaultMeta]
    have e1 : dset [("model", jsonEmptyStr), ("model_params", jsonEmptyStr)] "model" a
        = [("model", a), ("model_params", jsonEmptyStr)] := by simp [dset]
    have e2 : dset [("model", a), ("model_params", jsonEmptyStr)] "model_params" b
        = [("model", a), ("model_params", b)] := by simp [dset]
    rw [e1, e2]
    rw [foldl_dset_fresh others _ h3]
    · rfl
    · intro k hk
      simp only [dkeys, List.map_cons, List.map_nil, List.mem_cons, List.not_mem_nil, or_false, not_or]
      constructor
      · intro e; subst e; exact h1 hk
      · intro e; subst e; exact h2 hk
  rw [hds, hmeta]

/-- non-vacuity: a mode with model information and two user entries is well formed -/
def exampleMode : Mode :=
  { bf := "0.5", ds := ddOfList ["pi+", "K-", "K-"],
    mdat := [("model", "\"PHSP\""), ("model_params", "\"\""), ("study", "\"toy\""), ("year", "2019")] }
example : WFMode exampleMode :=
  ⟨⟨_, rfl⟩, _, _, _, rfl, by decide, by decide, by decide, by decide⟩

/-- the mode dictionary carries the branching fraction, the daughters and every metadata entry -/
theorem C11_mode_dict (m : Mode) (h : WFMode m) :
    (Mode.toDict m).bf = some m.bf ∧ (Mode.toDict m).fs = some m.ds ∧ (Mode.toDict m).rest = m.mdat := by
  obtain ⟨_, a, b, others, hm, _, _, _, hb⟩ := h
  have hmp : dget m.mdat "model_params" = some b := by rw [hm]; simp [dget]
  unfold Mode.toDict; simp [hmp, hb]

/-- a dictionary without `bf` or without `fs` is rejected -/
theorem C11_mode_needs_keys (d : ModeDict) (h : d.bf = none ∨ d.fs = none) :
    Mode.fromDict d = .error .badFormat := by
  rcases h with h | h <;> simp [Mode.fromDict, h] <;> cases d.bf <;> simp

/-! ### final states -/

/-- a final state is insensitive to the order given -/
theorem C11_daughters_order {l₁ l₂ : List String} (h : l₁.Perm l₂) : ddOfList l₁ = ddOfList l₂ :=
  ssort_eq_of_perm h

/-- it counts multiplicities: every name occurs as often as it was given -/
theorem C11_daughters_count (l : List String) (a : String) : (ddOfList l).count a = l.count a :=
  ssort_count l a

/-- `len` is the number of particles -/
theorem C11_daughters_len (l : List String) : ddLen (ddOfList l) = l.length := ssort_length l

/-- daughters are reported in one canonical (sorted) order -/
theorem C11_daughters_canonical (l : List String) :
    List.Pairwise (fun a b => a ≤ b) (ddOfList l) := by
  have := ssort_sorted l
  simpa [sleb, ddOfList] using this

/-- building from a string is building from the list of its blank-separated words -/
theorem C11_daughters_string (s : String) : ddOfString s = ddOfList (splitWs s.toList [] []) := rfl

/-- building from a name-to-count mapping (entries with a count `≤ 0` dropped) is building from the list -/
theorem C11_daughters_counts (c : List (String × Int)) :
    ddOfCounts c = ddOfList (c.flatMap fun (kn : String × Int) => List.replicate kn.2.toNat kn.1) := by
  unfold ddOfCounts ddOfList
  congr 1

theorem C11_daughters_counts_drop (k : String) (n : Int) (hn : n ≤ 0) (c : List (String × Int)) :
    ddOfCounts ((k, n) :: c) = ddOfCounts c := by
  unfold ddOfCounts
  have : n.toNat = 0 := by omega
  simp [List.flatMap_cons, this]

end DL
