/-
C11 — class, dictionary and parser forms of a decay convert into each other losslessly.
Property theorems only; helper lemmas are in DL/Lemmas.
-/
import DL.Lemmas.Sort
import DL.Lemmas.ChainRT
namespace DL

/-- what every `DecayMode` object satisfies: the daughters are kept in canonical order, the metadata
    starts with the two entries the constructor always creates, followed by user entries with
    pairwise different keys; `model_params` is not `None` (which `to_dict` normalises to "" by design) -/
structure WFMode (m : Mode) : Prop where
  sorted : ∃ l, m.ds = ddOfList l
  shape : ∃ a b others, m.mdat = ("model", a) :: ("model_params", b) :: others ∧
    "model" ∉ dkeys others ∧ "model_params" ∉ dkeys others ∧ (dkeys others).Nodup ∧ b ≠ jsonNull

theorem dupdate_eq (d u : List (String × String)) :
    dupdate d u = u.foldl (fun acc (kv : String × String) => dset acc kv.1 kv.2) d := by
  unfold dupdate
  congr 1

/-- a decay mode converted to its dictionary form and back is the original mode -/
theorem C11_mode (m : Mode) (h : WFMode m) : Mode.fromDict (Mode.toDict m) = .ok m := by
  obtain ⟨⟨l, hl⟩, a, b, others, hm, h1, h2, h3, hb⟩ := h
  have hmp : dget m.mdat "model_params" = some b := by
    rw [hm]; simp [dget]
  have htd : Mode.toDict m = { bf := some m.bf, fs := some m.ds, rest := m.mdat } := by
    unfold Mode.toDict; simp [hmp, hb]
  rw [htd]
  simp only [Mode.fromDict, Mode.new]
  have hds : ddOfList m.ds = m.ds := by rw [hl]; exact ssort_idem l
  have hmeta : dupdate defaultMeta m.mdat = m.mdat := by
    rw [dupdate_eq, hm]
    simp only [List.foldl_cons, defaultMeta]
    have e1 : dset [("model", jsonEmptyStr), ("model_params", jsonEmptyStr)] "model" a
        = [("model", a), ("model_params", jsonEmptyStr)] := by simp [dset]
    have e2 : dset [("model", a), ("model_params", jsonEmptyStr)] "model_params" b
        = [("model", a), ("model_params", b)] := by simp [dset]
    rw [e1, e2]
    rw [foldl_dset_fresh others _ h3]
    · rfl
    · intro k hk
      simp only [dkeys, List.map_cons, List.map_nil, List.mem_cons, List.not_mem_nil, or_false, not_or]
      constructor
      · intro e; subst e; exact h1 hk
      · intro e; subst e; exact h2 hk
  rw [hds, hmeta]

/-- non-vacuity: a mode with model information and two user entries is well formed -/
def exampleMode : Mode :=
  { bf := "0.5", ds := ddOfList ["pi+", "K-", "K-"],
    mdat := [("model", "\"PHSP\""), ("model_params", "\"\""), ("study", "\"toy\""), ("year", "2019")] }
example : WFMode exampleMode :=
  ⟨⟨_, rfl⟩, _, _, _, rfl, by decide, by decide, by decide, by decide⟩

/-- the mode dictionary carries the branching fraction, the daughters and every metadata entry -/
theorem C11_mode_dict (m : Mode) (h : WFMode m) :
    (Mode.toDict m).bf = some m.bf ∧ (Mode.toDict m).fs = some m.ds ∧ (Mode.toDict m).rest = m.mdat := by
  obtain ⟨_, a, b, others, hm, _, _, _, hb⟩ := h
  have hmp : dget m.mdat "model_params" = some b := by rw [hm]; simp [dget]
  unfold Mode.toDict; simp [hmp, hb]

/-- a dictionary without `bf` or without `fs` is rejected -/
theorem C11_mode_needs_keys (d : ModeDict) (h : d.bf = none ∨ d.fs = none) :
    Mode.fromDict d = .error .badFormat := by
  rcases h with h | h <;> simp [Mode.fromDict, h] <;> cases d.bf <;> simp

/-! ### final states -/

/-- a final state is insensitive to the order given -/
theorem C11_daughters_order {l₁ l₂ : List String} (h : l₁.Perm l₂) : ddOfList l₁ = ddOfList l₂ :=
  ssort_eq_of_perm h

/-- it counts multiplicities: every name occurs as often as it was given -/
theorem C11_daughters_count (l : List String) (a : String) : (ddOfList l).count a = l.count a :=
  ssort_count l a

/-- `len` is the number of particles -/
theorem C11_daughters_len (l : List String) : ddLen (ddOfList l) = l.length := ssort_length l

/-- daughters are reported in one canonical (sorted) order -/
theorem C11_daughters_canonical (l : List String) :
    List.Pairwise (fun a b => a ≤ b) (ddOfList l) := by
  have := ssort_sorted l
  simpa [sleb, ddOfList] using this

/-- building from a string is building from the list of its blank-separated words -/
theorem C11_daughters_string (s : String) : ddOfString s = ddOfList (splitWs s.toList [] []) := rfl

/-- building from a name-to-count mapping (entries with a count `≤ 0` dropped) is building from the list -/
theorem C11_daughters_counts (c : List (String × Int)) :
    ddOfCounts c = ddOfList (c.flatMap fun (kn : String × Int) => List.replicate kn.2.toNat kn.1) := by
  unfold ddOfCounts ddOfList
  congr 1

theorem C11_daughters_counts_drop (k : String) (n : Int) (hn : n ≤ 0) (c : List (String × Int)) :
    ddOfCounts ((k, n) :: c) = ddOfCounts c := by
  unfold ddOfCounts
  have : n.toNat = 0 := by omega
  simp [List.flatMap_cons, this]

/-! ### decay chains: class form ↔ dictionary form -/

/-- a well-formed mode has what the chain round trip needs: it survives `to_dict`/`from_dict`, and
    its dictionary compares equal to itself (the metadata keys are pairwise different) -/
theorem WFMode.good {m : Mode} (h : WFMode m) : GoodMode m := by
  refine ⟨C11_mode m h, ?_⟩
  obtain ⟨_, _, hrest⟩ := C11_mode_dict m h
  obtain ⟨_, a, b, others, hm, h1, h2, h3, _⟩ := h
  have hn : (dkeys m.mdat).Nodup := by
    rw [hm]
    simp only [dkeys, List.map_cons, List.nodup_cons, List.mem_cons, not_or]
    exact ⟨⟨by decide, h1⟩, h2, h3⟩
  unfold modeDictEq
  rw [hrest, dictEqUnordered_refl m.mdat hn]
  simp

/-- a decay chain converted to its dictionary form and back: the same mother, every decay is an
    original one, the mother decays, and the dictionary form of the result is the same dictionary
    again — also when the same decaying particle occurs several times in the chain -/
theorem C11_chain (c : DChain) (fuel : Nat) (t : Chain Info)
    (hwf : ∀ k m, dget c.decays k = some m → WFMode m)
    (ht : c.toDict fuel = .ok t) :
    ∃ c', DChain.fromDict t = .ok c' ∧ c'.mother = c.mother ∧
          (∀ k m, dget c'.decays k = some m → dget c.decays k = some m) ∧
          dhas c'.decays c.mother = true ∧
          c'.toDict fuel = .ok t := by
  obtain ⟨c', h1, h2, h3, h4, h5, _⟩ :=
    chain_roundtrip c fuel t (fun k m h => (hwf k m h).good) ht
  exact ⟨c', h1, h2, h3, h4, h5⟩

/-- nothing reachable is lost: every particle reached from the mother through decaying daughters
    (`Reach`, DL/Lemmas/ChainRT.lean) has its decay in the rebuilt chain — and by `C11_chain` it is
    the original decay -/
theorem C11_chain_reachable (c : DChain) (fuel : Nat) (t : Chain Info)
    (hwf : ∀ k m, dget c.decays k = some m → WFMode m)
    (ht : c.toDict fuel = .ok t) :
    ∃ c', DChain.fromDict t = .ok c' ∧
          ∀ k, Reach c.decays c.mother k → dget c'.decays k = dget c.decays k ∧ dhas c'.decays k = true := by
  obtain ⟨c', h1, _, h3, _, _, h6⟩ :=
    chain_roundtrip c fuel t (fun k m h => (hwf k m h).good) ht
  refine ⟨c', h1, fun k hr => ?_⟩
  have hk := h6 k hr
  obtain ⟨v, hv⟩ := (dhas_iff c'.decays k).1 hk
  exact ⟨by rw [hv, h3 k v hv], hk⟩

/-- non-vacuity: D0 -> pi0 pi0, pi0 -> gamma gamma (the decaying pi0 occurs twice) -/
def exampleChain : DChain :=
  { mother := "D0",
    decays := [("D0", Mode.new "1.0" ["pi0", "pi0"] []), ("pi0", Mode.new "0.9" ["gamma", "gamma"] [])] }

def examplePi0Dict : Chain Info :=
  .mk "pi0" [({ bf := "0.9", rest := defaultMeta }, [.inl "gamma", .inl "gamma"])]
def exampleChainDict : Chain Info :=
  .mk "D0" [({ bf := "1.0", rest := defaultMeta }, [.inr examplePi0Dict, .inr examplePi0Dict])]

theorem Mode.new_wf (bf : String) (l : List String) : WFMode (Mode.new bf l []) :=
  ⟨⟨l, rfl⟩, jsonEmptyStr, jsonEmptyStr, [], rfl, by decide, by decide, by decide, by decide⟩

theorem ssort_pair_same (a : String) : ssort [a, a] = [a, a] := by
  unfold ssort
  apply List.mergeSort_of_pairwise
  simp [sleb]

theorem exampleChain_wf : ∀ k m, dget exampleChain.decays k = some m → WFMode m := by
  intro k m h
  simp only [exampleChain, dget] at h
  split at h
  · obtain rfl := Option.some.inj h; exact Mode.new_wf _ _
  · split at h
    · obtain rfl := Option.some.inj h; exact Mode.new_wf _ _
    · simp at h

theorem exampleChain_toDict : exampleChain.toDict 3 = .ok exampleChainDict := by
  have e1 : Mode.new "1.0" ["pi0", "pi0"] [] = { bf := "1.0", ds := ["pi0", "pi0"], mdat := defaultMeta } := by
    simp only [Mode.new, ddOfList, ssort_pair_same]; rfl
  have e2 : Mode.new "0.9" ["gamma", "gamma"] [] = { bf := "0.9", ds := ["gamma", "gamma"], mdat := defaultMeta } := by
    simp only [Mode.new, ddOfList, ssort_pair_same]; rfl
  unfold exampleChain
  rw [e1, e2]
  rfl

example : (∀ k m, dget exampleChain.decays k = some m → WFMode m) ∧
    exampleChain.toDict 3 = .ok exampleChainDict ∧
    ∃ c', DChain.fromDict exampleChainDict = .ok c' ∧ c'.mother = "D0" ∧
      dhas c'.decays "pi0" = true ∧ c'.toDict 3 = .ok exampleChainDict := by
  refine ⟨exampleChain_wf, exampleChain_toDict, ?_⟩
  obtain ⟨c', h1, h2, _, _, h5⟩ := C11_chain exampleChain 3 _ exampleChain_wf exampleChain_toDict
  obtain ⟨c'', h1', h6⟩ := C11_chain_reachable exampleChain 3 _ exampleChain_wf exampleChain_toDict
  rw [h1] at h1'
  obtain rfl := Except.ok.inj h1'
  refine ⟨c', h1, h2, ?_, h5⟩
  refine (h6 "pi0" ?_).2
  exact Reach.step (md := Mode.new "1.0" ["pi0", "pi0"] []) Reach.root rfl
    (by simp [Mode.new, ddOfList, ssort_pair_same]) rfl

end DL
