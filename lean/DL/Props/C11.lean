/-
C11 — class, dictionary and parser forms of a decay convert into each other losslessly.
Property theorems only; helper lemmas are in DL/Lemmas.
-/
import DL.Lemmas.Sort
import DL.Lemmas.ChainRT
import DL.Lemmas.ChainParser
namespace DL

/-- what every `DecayMode` object satisfies: the daughters are kept in canonical order, the metadata
    starts with the two entries the constructor always creates, followed by user entries with
    pairwise different keys; `model_params` is not `None` (which `to_dict` normalises to "" by design) -/
structure WFMode (m : Mode) : Prop where
  sorted : ∃ l, m.ds = ddOfList l
  shape : ∃ a b others, m.mdat = ("model", a) :: ("model_params", b) :: others ∧
    "model" ∉ dkeys others ∧ "model_params" ∉ dkeys others ∧ (dkeys others).Nodup ∧ b ≠ jsonNull

theorem dupdate_eq (d u : List (String × String)) :
    dupdate d u = u.foldl (fun acc (kv : String × String) => dset acc kv.1 kv.2) d := by
  unfold dupdate
  congr 1

/-- a decay mode converted to its dictionary form and back is the original mode -/
theorem C11_mode (m : Mode) (h : WFMode m) : Mode.fromDict (Mode.toDict m) = .ok m := by
  obtain ⟨⟨l, hl⟩, a, b, others, hm, h1, h2, h3, hb⟩ := h
  have hmp : dget m.mdat "model_params" = some b := by
    rw [hm]; simp [dget]
  have htd : Mode.toDict m = { bf := some m.bf, fs := some m.ds, rest := m.mdat } := by
    unfold Mode.toDict; simp [hmp, hb]
  rw [htd]
  simp only [Mode.fromDict, Mode.new]
  have hds : ddOfList m.ds = m.ds := by rw [hl]; exact ssort_idem l
  have hmeta : dupdate defaultMeta m.mdat = m.mdat := by
    rw [dupdate_eq, hm]
    simp only [List.foldl_cons, defaultMeta]
    have e1 : dset [("model", jsonEmptyStr), ("model_params", jsonEmptyStr)] "model" a
        = [("model", a), ("model_params", jsonEmptyStr)] := by simp [dset]
    have e2 : dset [("model", a), ("model_params", jsonEmptyStr)] "model_params" b
        = [("model", a), ("model_params", b)] := by simp [dset]
    rw [e1, e2]
    rw [foldl_dset_fresh others _ h3]
    · rfl
    · intro k hk
      simp only [dkeys, List.map_cons, List.map_nil, List.mem_cons, List.not_mem_nil, or_false, not_or]
      constructor
      · intro e; subst e; exact h1 hk
      · intro e; subst e; exact h2 hk
  rw [hds, hmeta]

/-- non-vacuity: a mode with model information and two user entries is well formed -/
def exampleMode : Mode :=
  { bf := "0.5", ds := ddOfList ["pi+", "K-", "K-"],
    mdat := [("model", "\"PHSP\""), ("model_params", "\"\""), ("study", "\"toy\""), ("year", "2019")] }
example : WFMode exampleMode :=
  ⟨⟨_, rfl⟩, _, _, _, rfl, by decide, by decide, by decide, by decide⟩

/-- the mode dictionary carries the branching fraction, the daughters and every metadata entry -/
theorem C11_mode_dict (m : Mode) (h : WFMode m) :
    (Mode.toDict m).bf = some m.bf ∧ (Mode.toDict m).fs = some m.ds ∧ (Mode.toDict m).rest = m.mdat := by
  obtain ⟨_, a, b, others, hm, _, _, _, hb⟩ := h
  have hmp : dget m.mdat "model_params" = some b := by rw [hm]; simp [dget]
  unfold Mode.toDict; simp [hmp, hb]

/-- a dictionary without `bf` or without `fs` is rejected -/
theorem C11_mode_needs_keys (d : ModeDict) (h : d.bf = none ∨ d.fs = none) :
    Mode.fromDict d = .error .badFormat := by
  rcases h with h | h <;> simp [Mode.fromDict, h] <;> cases d.bf <;> simp

/-! ### final states -/

/-- a final state is insensitive to the order given -/
theorem C11_daughters_order {l₁ l₂ : List String} (h : l₁.Perm l₂) : ddOfList l₁ = ddOfList l₂ :=
  ssort_eq_of_perm h

/-- it counts multiplicities: every name occurs as often as it was given -/
theorem C11_daughters_count (l : List String) (a : String) : (ddOfList l).count a = l.count a :=
  ssort_count l a

/-- `len` is the number of particles -/
theorem C11_daughters_len (l : List String) : ddLen (ddOfList l) = l.length := ssort_length l

/-- daughters are reported in one canonical (sorted) order -/
theorem C11_daughters_canonical (l : List String) :
    List.Pairwise (fun a b => a ≤ b) (ddOfList l) := by
  have := ssort_sorted l
  simpa [sleb, ddOfList] using this

/-- building from a string is building from the list of its blank-separated words -/
theorem C11_daughters_string (s : String) : ddOfString s = ddOfList (splitWs s.toList [] []) := rfl

/-- building from a name-to-count mapping (entries with a count `≤ 0` dropped) is building from the list -/
theorem C11_daughters_counts (c : List (String × Int)) :
    ddOfCounts c = ddOfList (c.flatMap fun (kn : String × Int) => List.replicate kn.2.toNat kn.1) := by
  unfold ddOfCounts ddOfList
  congr 1

theorem C11_daughters_counts_drop (k : String) (n : Int) (hn : n ≤ 0) (c : List (String × Int)) :
    ddOfCounts ((k, n) :: c) = ddOfCounts c := by
  unfold ddOfCounts
  have : n.toNat = 0 := by omega
  simp [List.flatMap_cons, this]

/-! ### decay chains: class form ↔ dictionary form -/

/-- a well-formed mode has what the chain round trip needs: it survives `to_dict`/`from_dict`, and
    its dictionary compares equal to itself (the metadata keys are pairwise different) -/
theorem WFMode.good {m : Mode} (h : WFMode m) : GoodMode m := by
  refine ⟨C11_mode m h, ?_⟩
  obtain ⟨_, _, hrest⟩ := C11_mode_dict m h
  obtain ⟨_, a, b, others, hm, h1, h2, h3, _⟩ := h
  have hn : (dkeys m.mdat).Nodup := by
    rw [hm]
    simp only [dkeys, List.map_cons, List.nodup_cons, List.mem_cons, not_or]
    exact ⟨⟨by decide, h1⟩, h2, h3⟩
  unfold modeDictEq
  rw [hrest, dictEqUnordered_refl m.mdat hn]
  simp

/-- a decay chain converted to its dictionary form and back: the same mother, every decay is an
    original one, the mother decays, and the dictionary form of the result is the same dictionary
    again — also when the same decaying particle occurs several times in the chain -/
theorem C11_chain (c : DChain) (fuel : Nat) (t : Chain Info)
    (hwf : ∀ k m, dget c.decays k = some m → WFMode m)
    (ht : c.toDict fuel = .ok t) :
    ∃ c', DChain.fromDict t = .ok c' ∧ c'.mother = c.mother ∧
          (∀ k m, dget c'.decays k = some m → dget c.decays k = some m) ∧
          dhas c'.decays c.mother = true ∧
          c'.toDict fuel = .ok t := by
  obtain ⟨c', h1, h2, h3, h4, h5, _⟩ :=
    chain_roundtrip c fuel t (fun k m h => (hwf k m h).good) ht
  exact ⟨c', h1, h2, h3, h4, h5⟩

/-- nothing reachable is lost: every particle reached from the mother through decaying daughters
    (`Reach`, DL/Lemmas/ChainRT.lean) has its decay in the rebuilt chain — and by `C11_chain` it is
    the original decay -/
theorem C11_chain_reachable (c : DChain) (fuel : Nat) (t : Chain Info)
    (hwf : ∀ k m, dget c.decays k = some m → WFMode m)
    (ht : c.toDict fuel = .ok t) :
    ∃ c', DChain.fromDict t = .ok c' ∧
          ∀ k, Reach c.decays c.mother k → dget c'.decays k = dget c.decays k ∧ dhas c'.decays k = true := by
  obtain ⟨c', h1, _, h3, _, _, h6⟩ :=
    chain_roundtrip c fuel t (fun k m h => (hwf k m h).good) ht
  refine ⟨c', h1, fun k hr => ?_⟩
  have hk := h6 k hr
  obtain ⟨v, hv⟩ := (dhas_iff c'.decays k).1 hk
  exact ⟨by rw [hv, h3 k v hv], hk⟩

/-- non-vacuity: D0 -> pi0 pi0, pi0 -> gamma gamma (the decaying pi0 occurs twice) -/
def exampleChain : DChain :=
  { mother := "D0",
    decays := [("D0", Mode.new "1.0" ["pi0", "pi0"] []), ("pi0", Mode.new "0.9" ["gamma", "gamma"] [])] }

def examplePi0Dict : Chain Info :=
  .mk "pi0" [({ bf := "0.9", rest := defaultMeta }, [.inl "gamma", .inl "gamma"])]
def exampleChainDict : Chain Info :=
  .mk "D0" [({ bf := "1.0", rest := defaultMeta }, [.inr examplePi0Dict, .inr examplePi0Dict])]

theorem Mode.new_wf (bf : String) (l : List String) : WFMode (Mode.new bf l []) :=
  ⟨⟨l, rfl⟩, jsonEmptyStr, jsonEmptyStr, [], rfl, by decide, by decide, by decide, by decide⟩

theorem ssort_pair_same (a : String) : ssort [a, a] = [a, a] := by
  unfold ssort
  apply List.mergeSort_of_pairwise
  simp [sleb]

theorem exampleChain_wf : ∀ k m, dget exampleChain.decays k = some m → WFMode m := by
  intro k m h
  simp only [exampleChain, dget] at h
  split at h
  · obtain rfl := Option.some.inj h; exact Mode.new_wf _ _
  · split at h
    · obtain rfl := Option.some.inj h; exact Mode.new_wf _ _
    · simp at h

theorem exampleChain_toDict : exampleChain.toDict 3 = .ok exampleChainDict := by
  have e1 : Mode.new "1.0" ["pi0", "pi0"] [] = { bf := "1.0", ds := ["pi0", "pi0"], mdat := defaultMeta } := by
    simp only [Mode.new, ddOfList, ssort_pair_same]; rfl
  have e2 : Mode.new "0.9" ["gamma", "gamma"] [] = { bf := "0.9", ds := ["gamma", "gamma"], mdat := defaultMeta } := by
    simp only [Mode.new, ddOfList, ssort_pair_same]; rfl
  unfold exampleChain
  rw [e1, e2]
  rfl

example : (∀ k m, dget exampleChain.decays k = some m → WFMode m) ∧
    exampleChain.toDict 3 = .ok exampleChainDict ∧
    ∃ c', DChain.fromDict exampleChainDict = .ok c' ∧ c'.mother = "D0" ∧
      dhas c'.decays "pi0" = true ∧ c'.toDict 3 = .ok exampleChainDict := by
  refine ⟨exampleChain_wf, exampleChain_toDict, ?_⟩
  obtain ⟨c', h1, h2, _, _, h5⟩ := C11_chain exampleChain 3 _ exampleChain_wf exampleChain_toDict
  obtain ⟨c'', h1', h6⟩ := C11_chain_reachable exampleChain 3 _ exampleChain_wf exampleChain_toDict
  rw [h1] at h1'
  obtain rfl := Except.ok.inj h1'
  refine ⟨c', h1, h2, ?_, h5⟩
  refine (h6 "pi0" ?_).2
  exact Reach.step (md := Mode.new "1.0" ["pi0", "pi0"] []) Reach.root rfl
    (by simp [Mode.new, ddOfList, ssort_pair_same]) rfl

/-! ### decay chains: parser form → class form → dictionary form

`DecFileParser.build_decay_chains` writes the daughters in file order, `DecayChain.to_dict` in sorted
order.  `ParserChain`, `sortItems`, `canonChain`, `Chain.depth`, `EqvChain` are defined in
DL/Lemmas/ChainParser.lean. -/

/-- a single-line chain produced by the parser converts to the class form, and the dictionary form
    of that is the parser dictionary with the daughters of every level in canonical order — also
    when the same decaying particle occurs several times -/
theorem C11_parser (pd : Chain Info) (h : ParserChain pd) (fuel : Nat) (hf : pd.depth < fuel) :
    ∃ c, DChain.fromDict pd = .ok c ∧ c.mother = pd.mother ∧ c.toDict fuel = .ok (canonChain pd) :=
  parser_roundtrip pd h fuel hf

/-- the canonical order is a rearrangement: the same items, sorted by the name they are shown under -/
theorem C11_sortItems (fs : List (Item Info)) :
    (sortItems fs).Perm fs ∧
    List.Pairwise (fun a b => a.name ≤ b.name) (sortItems fs) ∧
    (sortItems fs).map Item.name = ddOfList (fs.map Item.name) := by
  refine ⟨sortItems_perm fs, ?_, sortItems_names fs⟩
  have := sortItems_sorted fs
  simpa [itemLe, sleb] using this

/-- `canonChain` keeps the mother and the information of every mode, and at every level the
    daughters are a rearrangement of the (canonicalised) daughters -/
theorem C11_canon_level (m : String) (modes : List (CMode Info)) :
    canonChain (.mk m modes) = .mk m (modes.map fun ifs => (ifs.1, sortItems (ifs.2.map canonItem))) ∧
    ∀ ifs ∈ modes, (sortItems (ifs.2.map canonItem)).Perm (ifs.2.map canonItem) := by
  refine ⟨?_, fun ifs _ => sortItems_perm _⟩
  simp only [canonChain, canonModes_eq_map]

/-- the canonical form is the same dictionary up to the order of daughters at every level -/
theorem C11_canon_eqv (pd : Chain Info) : EqvChain pd (canonChain pd) := canonChain_eqv pd

/-- canonicalising twice changes nothing -/
theorem C11_canon_idem (pd : Chain Info) : canonChain (canonChain pd) = canonChain pd :=
  canonChain_idem pd

/-- non-vacuity: D*+ -> D0 pi+, D0 -> K- pi+, daughters written in unsorted order -/
def exampleD0 : Chain Info :=
  .mk "D0" [({ bf := "0.0389", rest := [("model", "\"PHSP\""), ("model_params", "[]")] },
    [.inl "pi+", .inl "K-"])]
def exampleDst : Chain Info :=
  .mk "D*+" [({ bf := "0.677", rest := [("model", "\"VSS\""), ("model_params", "[]")] },
    [.inl "pi+", .inr exampleD0])]
def exampleD0Canon : Chain Info :=
  .mk "D0" [({ bf := "0.0389", rest := [("model", "\"PHSP\""), ("model_params", "[]")] },
    [.inl "K-", .inl "pi+"])]
def exampleDstCanon : Chain Info :=
  .mk "D*+" [({ bf := "0.677", rest := [("model", "\"VSS\""), ("model_params", "[]")] },
    [.inr exampleD0Canon, .inl "pi+"])]

theorem exampleDst_parser : ParserChain exampleDst := by
  have hn : exampleDst.nodes = [exampleDst, exampleD0] := by
    simp [exampleDst, exampleD0, Chain.nodes, nodesModes, nodesFs]
  have hl : exampleDst.leaves = ["pi+", "pi+", "K-"] := by
    simp [exampleDst, exampleD0, Chain.leaves, leavesModes, leavesFs]
  constructor
  · intro t ht
    rw [hn] at ht
    simp only [List.mem_cons, List.not_mem_nil, or_false] at ht
    rcases ht with rfl | rfl
    · exact ⟨_, _, _, _, rfl, rfl, by decide⟩
    · exact ⟨_, _, _, _, rfl, rfl, by decide⟩
  · intro t ht t' ht' hm
    rw [hn] at ht ht'
    simp only [List.mem_cons, List.not_mem_nil, or_false] at ht ht'
    rcases ht with rfl | rfl <;> rcases ht' with rfl | rfl
    · rfl
    · exact absurd hm (by decide)
    · exact absurd hm (by decide)
    · rfl
  · intro t ht p hp
    rw [hn] at ht
    rw [hl] at hp
    simp only [List.mem_cons, List.not_mem_nil, or_false] at ht hp
    rcases ht with rfl | rfl <;> rcases hp with rfl | rfl | rfl <;> decide

theorem exampleDst_canon : canonChain exampleDst = exampleDstCanon := by
  simp only [exampleDst, exampleD0, canonChain, canonModes, canonFs]
  rw [sortItems_swap _ _ (by decide), sortItems_swap _ _ (by decide)]
  rfl

example : ParserChain exampleDst ∧ exampleDst.depth < 2 ∧
    ∃ c, DChain.fromDict exampleDst = .ok c ∧ c.mother = "D*+" ∧ c.toDict 2 = .ok exampleDstCanon := by
  have hd : exampleDst.depth < 2 := by decide
  refine ⟨exampleDst_parser, hd, ?_⟩
  obtain ⟨c, h1, h2, h3⟩ := C11_parser exampleDst exampleDst_parser 2 hd
  exact ⟨c, h1, h2, exampleDst_canon ▸ h3⟩

/-- non-vacuity of the general case: D0 -> pi0 pi0 with the decaying pi0 written out twice -/
def examplePi0Twice : Chain Info :=
  .mk "D0" [({ bf := "1.0", rest := [("model", "\"PHSP\""), ("model_params", "[]")] },
    [.inr examplePi0Dict, .inr examplePi0Dict])]

example : ParserChain examplePi0Twice ∧
    ∃ c, DChain.fromDict examplePi0Twice = .ok c ∧ c.mother = "D0" ∧
      c.toDict 2 = .ok (canonChain examplePi0Twice) := by
  have hp : ParserChain examplePi0Twice := by
    have hn : examplePi0Twice.nodes = [examplePi0Twice, examplePi0Dict, examplePi0Dict] := by
      simp [examplePi0Twice, examplePi0Dict, Chain.nodes, nodesModes, nodesFs]
    have hl : examplePi0Twice.leaves = ["gamma", "gamma", "gamma", "gamma"] := by
      simp [examplePi0Twice, examplePi0Dict, Chain.leaves, leavesModes, leavesFs]
    constructor
    · intro t ht
      rw [hn] at ht
      simp only [List.mem_cons, List.not_mem_nil, or_false, or_self] at ht
      rcases ht with rfl | rfl
      · exact ⟨_, _, _, _, rfl, rfl, by decide⟩
      · exact ⟨_, _, _, _, rfl, rfl, by decide⟩
    · intro t ht t' ht' hm
      rw [hn] at ht ht'
      simp only [List.mem_cons, List.not_mem_nil, or_false, or_self] at ht ht'
      rcases ht with rfl | rfl <;> rcases ht' with rfl | rfl
      · rfl
      · exact absurd hm (by decide)
      · exact absurd hm (by decide)
      · rfl
    · intro t ht p hp
      rw [hn] at ht
      rw [hl] at hp
      simp only [List.mem_cons, List.not_mem_nil, or_false, or_self] at ht hp
      rcases ht with rfl | rfl <;> subst hp <;> decide
  exact ⟨hp, C11_parser _ hp 2 (by decide)⟩

end DL
