/-
The regenerated particle table satisfies the involution hypothesis of the cache theorems
(`DL/Lemmas/CCache.lean`, `DL/Props/C03.lean`): corollaries of C03 for `Gen.db` without `hinv`.
Imports `DL.Props.C04` (the kernel decides the whole table there).
-/
import DL.Props.C03
import DL.Props.C04
namespace DL

/-- on the regenerated table, `charge_conjugate_name` is an involution on every name it does not
    wrap as unknown -/
theorem gen_db_involutive :
    ∀ n, Gen.db.conjName n ≠ wrapUnknown n → Gen.db.conjName (Gen.db.conjName n) = n := by
  intro n hn
  cases hrow : Gen.db.rowOfName n with
  | none => exact absurd (by simp [DB.conjName, hrow]) hn
  | some r =>
    have hmem : r ∈ Gen.db.rows := List.mem_of_find?_eq_some hrow
    have hname : r.name = n := by
      have := List.find?_some hrow
      simpa using this
    subst hname
    have h := C04_table r hmem
    cases hc : Gen.db.conjRow r with
    | none => exact absurd (h.2 hc) hn
    | some r' => exact (h.1 r' hc).2.2.2

/-- C03 (cache) for the regenerated table -/
theorem C03_cache_gen (defs : List (String × String)) (ns : List String)
    (hwrap : ∀ p ∈ ns, ∀ q ∈ ns, q ≠ wrapUnknown p) :
    (visitNames Gen.db defs ns).1 = ns.map (matchCC Gen.db defs) :=
  C03_cache Gen.db gen_db_involutive defs ns hwrap

/-- C03 (the conjugate table) for the regenerated table -/
theorem C03_table_gen (defs : List (String × String)) (src : String) (ls : List Line)
    (hwrap : ∀ p ∈ visitOrder src ls, ∀ q ∈ visitOrder src ls, q ≠ wrapUnknown p) :
    (conjTable Gen.db defs src ls).1 =
      (matchCC Gen.db defs src,
        ls.map (fun ln => { ln with ds := ln.ds.map (matchCC Gen.db defs) })) :=
  C03_table Gen.db gen_db_involutive defs src ls hwrap

/-- C03 (all CDecay tables of a parse, one shared dictionary) for the regenerated table -/
theorem C03_tables_gen (defs : List (String × String)) (srcs : List (String × List Line))
    (hwrap : ∀ p ∈ srcs.flatMap (fun s => visitOrder s.1 s.2),
      ∀ q ∈ srcs.flatMap (fun s => visitOrder s.1 s.2), q ≠ wrapUnknown p) :
    conjAll Gen.db defs srcs = srcs.map (fun s =>
      (matchCC Gen.db defs s.1,
        s.2.map (fun ln => { ln with ds := ln.ds.map (matchCC Gen.db defs) }))) :=
  C03_tables Gen.db gen_db_involutive defs srcs hwrap

/-- the hypotheses are satisfiable: a table `MyD+ -> K- pi+ pi+` with the alias pair
    `ChargeConj MyD+ MyD-` -/
example :
    let ls : List Line := [{ bf := 1, ds := ["K-", "pi+", "pi+"], photos := false, model := "PHSP", params := none }]
    ∀ p ∈ visitOrder "MyD+" ls, ∀ q ∈ visitOrder "MyD+" ls, q ≠ wrapUnknown p := by
  decide

example :
    (conjTable Gen.db [("MyD+", "MyD-")] "MyD+"
      [{ bf := 1, ds := ["K-", "pi+", "pi+"], photos := false, model := "PHSP", params := none }]).1 =
    (matchCC Gen.db [("MyD+", "MyD-")] "MyD+",
      [{ bf := 1, ds := ["K-", "pi+", "pi+"].map (matchCC Gen.db [("MyD+", "MyD-")]),
         photos := false, model := "PHSP", params := none }]) :=
  C03_table_gen _ _ _ (by decide)

end DL
