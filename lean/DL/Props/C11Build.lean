/-
C11 ∘ C09 — the dictionaries `build_decay_chains` writes meet the hypothesis of `C11_parser`.

`C11_parser` (DL/Props/C11.lean) is stated for dictionaries meeting `ParserChain`: every decaying
particle has one line whose metadata are `model` and `model_params`; a particle carries the same
sub-dictionary wherever it occurs; a particle that decays somewhere is never given as a bare name.
Here these three facts are *proved* for every chain the model of `build_decay_chains` (C09) returns
whose decaying particles all have one decay line: the second and third follow from the unfolding
specification `isUnfold` and its uniqueness.  So the conversion theorem holds for everything the
parser produces for single-line tables, with no hypothesis left to the correspondence.
-/
import DL.Props.C09
import DL.Props.C11
namespace DL

variable {β : Type}

/-! ### nodes and leaves of a chain over any line information -/

mutual
  def gnodes : Chain β → List (Chain β)
    | .mk m modes => .mk m modes :: gnodesModes modes
  def gnodesModes : List (CMode β) → List (Chain β)
    | [] => []
    | (_, fs) :: r => gnodesFs fs ++ gnodesModes r
  def gnodesFs : List (Item β) → List (Chain β)
    | [] => []
    | .inl _ :: r => gnodesFs r
    | .inr c :: r => gnodes c ++ gnodesFs r
end

mutual
  def gleaves : Chain β → List String
    | .mk _ modes => gleavesModes modes
  def gleavesModes : List (CMode β) → List String
    | [] => []
    | (_, fs) :: r => gleavesFs fs ++ gleavesModes r
  def gleavesFs : List (Item β) → List String
    | [] => []
    | .inl p :: r => p :: gleavesFs r
    | .inr c :: r => gleaves c ++ gleavesFs r
end

/-! ### the dictionary as `from_dict` reads it -/

mutual
  def mapChain (g : β → Info) : Chain β → Chain Info
    | .mk m modes => .mk m (mapModes g modes)
  def mapModes (g : β → Info) : List (CMode β) → List (CMode Info)
    | [] => []
    | (i, fs) :: r => (g i, mapFs g fs) :: mapModes g r
  def mapFs (g : β → Info) : List (Item β) → List (Item Info)
    | [] => []
    | .inl p :: r => .inl p :: mapFs g r
    | .inr c :: r => .inr (mapChain g c) :: mapFs g r
end

theorem mapChain_mother (g : β → Info) : ∀ c : Chain β, (mapChain g c).mother = c.mother
  | .mk _ _ => rfl

mutual
  theorem nodes_map (g : β → Info) : ∀ c : Chain β, (mapChain g c).nodes = (gnodes c).map (mapChain g)
    | .mk m modes => by simp [mapChain, Chain.nodes, gnodes, nodesModes_map g modes]
  theorem nodesModes_map (g : β → Info) : ∀ ms : List (CMode β),
      nodesModes (mapModes g ms) = (gnodesModes ms).map (mapChain g)
    | [] => rfl
    | (_, fs) :: r => by simp [mapModes, nodesModes, gnodesModes, nodesFs_map g fs, nodesModes_map g r]
  theorem nodesFs_map (g : β → Info) : ∀ fs : List (Item β),
      nodesFs (mapFs g fs) = (gnodesFs fs).map (mapChain g)
    | [] => rfl
    | .inl _ :: r => by simp [mapFs, nodesFs, gnodesFs, nodesFs_map g r]
    | .inr c :: r => by simp [mapFs, nodesFs, gnodesFs, nodes_map g c, nodesFs_map g r]
end

mutual
  theorem leaves_map (g : β → Info) : ∀ c : Chain β, (mapChain g c).leaves = gleaves c
    | .mk m modes => by simp [mapChain, Chain.leaves, gleaves, leavesModes_map g modes]
  theorem leavesModes_map (g : β → Info) : ∀ ms : List (CMode β),
      leavesModes (mapModes g ms) = gleavesModes ms
    | [] => rfl
    | (_, fs) :: r => by simp [mapModes, leavesModes, gleavesModes, leavesFs_map g fs, leavesModes_map g r]
  theorem leavesFs_map (g : β → Info) : ∀ fs : List (Item β), leavesFs (mapFs g fs) = gleavesFs fs
    | [] => rfl
    | .inl _ :: r => by simp [mapFs, leavesFs, gleavesFs, leavesFs_map g r]
    | .inr c :: r => by simp [mapFs, leavesFs, gleavesFs, leaves_map g c, leavesFs_map g r]
end

/-! ### what the unfolding specification says about nodes and leaves -/

/-- a particle shown as a bare name below `M` is in `S` or has no table; a particle shown with a
    sub-dictionary has a table, is not in `S`, and its sub-dictionary is again an unfolding -/
structure NodeOK (t : Tables) (S : List String) (c : Chain LInfo) : Prop where
  unfold : isUnfold t S c = true
  notStable : S.contains c.mother = false

mutual
  theorem unfold_nodes (t : Tables) (S : List String) :
      ∀ c : Chain LInfo, isUnfold t S c = true →
        (∀ x ∈ gnodesModes c.modes, NodeOK t S x) ∧ (∀ p ∈ gleaves c, (S.contains p || !hasTable t p) = true)
    | .mk m modes, h => by
      simp only [isUnfold] at h
      split at h
      · simp at h
      · rename_i m' ls _
        simpa [Chain.modes, gleaves] using unfoldModes_nodes t S ls modes h
  theorem unfoldModes_nodes (t : Tables) (S : List String) :
      ∀ (ls : List Line) (ms : List (CMode LInfo)), unfoldModes t S ls ms = true →
        (∀ x ∈ gnodesModes ms, NodeOK t S x) ∧ (∀ p ∈ gleavesModes ms, (S.contains p || !hasTable t p) = true)
    | [], [], _ => by simp [gnodesModes, gleavesModes]
    | [], _ :: _, h => by simp [unfoldModes] at h
    | _ :: _, [], h => by simp [unfoldModes] at h
    | ln :: lr, (i, fs) :: mr, h => by
      simp only [unfoldModes, Bool.and_eq_true] at h
      obtain ⟨⟨_, hfs⟩, hr⟩ := h
      have h1 := unfoldFs_nodes t S ln.ds fs hfs
      have h2 := unfoldModes_nodes t S lr mr hr
      constructor
      · intro x hx
        simp only [gnodesModes, List.mem_append] at hx
        rcases hx with hx | hx
        · exact h1.1 x hx
        · exact h2.1 x hx
      · intro p hp
        simp only [gleavesModes, List.mem_append] at hp
        rcases hp with hp | hp
        · exact h1.2 p hp
        · exact h2.2 p hp
  theorem unfoldFs_nodes (t : Tables) (S : List String) :
      ∀ (ds : List String) (fs : List (Item LInfo)), unfoldFs t S ds fs = true →
        (∀ x ∈ gnodesFs fs, NodeOK t S x) ∧ (∀ p ∈ gleavesFs fs, (S.contains p || !hasTable t p) = true)
    | [], [], _ => by simp [gnodesFs, gleavesFs]
    | [], _ :: _, h => by simp [unfoldFs] at h
    | _ :: _, [], h => by simp [unfoldFs] at h
    | p :: pr, .inl q :: fr, h => by
      simp only [unfoldFs, Bool.and_eq_true, decide_eq_true_eq] at h
      obtain ⟨⟨hpq, hleaf⟩, hr⟩ := h
      subst hpq
      have ih := unfoldFs_nodes t S pr fr hr
      constructor
      · intro x hx
        simp only [gnodesFs] at hx
        exact ih.1 x hx
      · intro p' hp'
        simp only [gleavesFs, List.mem_cons] at hp'
        rcases hp' with rfl | hp'
        · exact hleaf
        · exact ih.2 p' hp'
    | p :: pr, .inr c :: fr, h => by
      simp only [unfoldFs, Bool.and_eq_true, decide_eq_true_eq, Bool.not_eq_true'] at h
      obtain ⟨⟨⟨⟨hm, hS⟩, _⟩, hu⟩, hr⟩ := h
      have ih := unfoldFs_nodes t S pr fr hr
      have hc := unfold_nodes t S c hu
      constructor
      · intro x hx
        simp only [gnodesFs, List.mem_append] at hx
        rcases hx with hx | hx
        · cases c with
          | mk cm cmodes =>
            simp only [gnodes, List.mem_cons] at hx
            rcases hx with rfl | hx
            · exact ⟨hu, by rw [hm]; exact hS⟩
            · exact hc.1 x (by simpa [Chain.modes] using hx)
        · exact ih.1 x hx
      · intro p' hp'
        simp only [gleavesFs, List.mem_append] at hp'
        rcases hp' with hp' | hp'
        · exact hc.2 p' hp'
        · exact ih.2 p' hp'
end

/-- every node of a built chain is an unfolding of a particle outside `S` (the mother by hypothesis) -/
theorem unfold_all_nodes (t : Tables) (S : List String) (c : Chain LInfo) (h : isUnfold t S c = true)
    (hS : S.contains c.mother = false) : ∀ x ∈ gnodes c, NodeOK t S x := by
  intro x hx
  cases c with
  | mk m modes =>
    simp only [gnodes, List.mem_cons] at hx
    rcases hx with rfl | hx
    · exact ⟨h, hS⟩
    · exact (unfold_nodes t S _ h).1 x (by simpa [Chain.modes] using hx)

theorem unfold_hasTable (t : Tables) (S : List String) (c : Chain LInfo) (h : isUnfold t S c = true) :
    hasTable t c.mother = true := by
  cases c with
  | mk m modes =>
    simp only [isUnfold] at h
    split at h
    · simp at h
    · rename_i hf; simp [hasTable, Chain.mother, hf]

/-! ### the theorem -/

/-- every decaying particle of the chain has exactly one decay line -/
def SingleLine (c : Chain LInfo) : Prop := ∀ x ∈ gnodes c, ∃ i fs, x.modes = [(i, fs)]

/-- how a line's details are written into the dictionary: `bf`, then `model` and `model_params`
    (`enc` gives the three JSON texts; `model_params` is `''` or a list, never `None`) -/
def infoJson (enc : LInfo → String × String × String) (i : LInfo) : Info :=
  { bf := (enc i).1, rest := [("model", (enc i).2.1), ("model_params", (enc i).2.2)] }

/-- C11 ∘ C09: a chain returned by `build_decay_chains(M, S)` (M not in S) in which every decaying
    particle has one decay line meets `ParserChain` -/
theorem C11_build_parserChain (t : Tables) (S : List String) (f : Nat) (m : String) (c : Chain LInfo)
    (hb : buildChains t S f m = .ok c) (hS : S.contains m = false) (h1 : SingleLine c)
    (enc : LInfo → String × String × String) (henc : ∀ i, (enc i).2.2 ≠ jsonNull) :
    ParserChain (mapChain (infoJson enc) c) := by
  obtain ⟨hu, hm⟩ := C09_spec t S f m c hb
  have hnodes := unfold_all_nodes t S c hu (by rw [hm]; exact hS)
  have hleaves := (unfold_nodes t S c hu).2
  constructor
  · intro x hx
    rw [nodes_map] at hx
    obtain ⟨y, hy, rfl⟩ := List.mem_map.mp hx
    obtain ⟨i, fs, hmodes⟩ := h1 y hy
    cases y with
    | mk ym ymodes =>
      simp only [Chain.modes] at hmodes
      subst hmodes
      exact ⟨infoJson enc i, mapFs (infoJson enc) fs, (enc i).2.1, (enc i).2.2,
        by simp [mapChain, mapModes, Chain.modes], rfl, henc i⟩
  · intro x hx x' hx' hmo
    rw [nodes_map] at hx hx'
    obtain ⟨y, hy, rfl⟩ := List.mem_map.mp hx
    obtain ⟨y', hy', rfl⟩ := List.mem_map.mp hx'
    rw [mapChain_mother, mapChain_mother] at hmo
    rw [isUnfold_unique t S y y' (hnodes y hy).unfold (hnodes y' hy').unfold hmo]
  · intro x hx p hp
    rw [nodes_map] at hx
    rw [leaves_map] at hp
    obtain ⟨y, hy, rfl⟩ := List.mem_map.mp hx
    rw [mapChain_mother]
    intro heq
    have hN := hnodes y hy
    have hT := unfold_hasTable t S y hN.unfold
    have hL := hleaves p hp
    rw [← heq, hN.notStable, hT] at hL
    simp at hL

/-- hence the conversion theorem holds for it outright: the dictionary converts to the class form, and
    the dictionary form of that is the same dictionary with the daughters of every level in canonical
    order -/
theorem C11_build_roundtrip (t : Tables) (S : List String) (f : Nat) (m : String) (c : Chain LInfo)
    (hb : buildChains t S f m = .ok c) (hS : S.contains m = false) (h1 : SingleLine c)
    (enc : LInfo → String × String × String) (henc : ∀ i, (enc i).2.2 ≠ jsonNull)
    (fuel : Nat) (hf : (mapChain (infoJson enc) c).depth < fuel) :
    ∃ d, DChain.fromDict (mapChain (infoJson enc) c) = .ok d ∧ d.mother = m ∧
      d.toDict fuel = .ok (canonChain (mapChain (infoJson enc) c)) := by
  obtain ⟨d, h1', h2, h3⟩ := C11_parser _ (C11_build_parserChain t S f m c hb hS h1 enc henc) fuel hf
  refine ⟨d, h1', ?_, h3⟩
  rw [h2, mapChain_mother, (C09_spec t S f m c hb).2]

/-! ### non-vacuity: D0 -> K_S0 pi0 pi0 (pi0 twice), all tables with one line, pi+ kept stable -/

def exTablesB : Tables :=
  [("D0", [{ bf := 1/2, ds := ["K_S0", "pi0", "pi0"], photos := false, model := "PHSP", params := none }]),
   ("K_S0", [{ bf := 7/10, ds := ["pi+", "pi-"], photos := false, model := "PHSP", params := none }]),
   ("pi0", [{ bf := 99/100, ds := ["gamma", "gamma"], photos := true, model := "PHSP", params := none }]),
   ("pi+", [{ bf := 1, ds := ["mu+", "nu_mu"], photos := false, model := "PHSP", params := none }])]

def exBuilt : Chain LInfo :=
  let i (bf : Rat) : LInfo := { bf := bf, model := "PHSP", params := none }
  let pi0 : Chain LInfo := .mk "pi0" [(i (99/100), [.inl "gamma", .inl "gamma"])]
  .mk "D0" [(i (1/2), [.inr (.mk "K_S0" [(i (7/10), [.inl "pi+", .inl "pi-"])]), .inr pi0, .inr pi0])]

example : buildChains exTablesB ["pi+"] 5 "D0" = .ok exBuilt := by rfl

example : SingleLine exBuilt := by
  intro x hx
  simp only [exBuilt, gnodes, gnodesModes, gnodesFs, List.append_nil, List.mem_cons, List.mem_append,
    List.not_mem_nil, or_false] at hx
  rcases hx with rfl | rfl | rfl | rfl <;> exact ⟨_, _, rfl⟩

end DL
