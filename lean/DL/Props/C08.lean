/-
C08 — copied and derived tables are independent; queries never change the parser.
In the model a parsed file is a value and every query a function of it, so independence from the
history of queries is structural; the runtime content of this property (object aliasing in CPython)
is carried by the harness (history runs with in-place mutation, object-graph audit).
-/
import DL.Lemmas.Dict
namespace DL

/-- CopyDecay NEW OLD gives NEW a table with OLD's lines (everything but the mother name) -/
theorem C08_copy (t : Tables) (copies : List (String × String)) (new old : String) (ls : List Line)
    (hc : (new, old) ∈ copies) (hl : lastTable t old = some ls) :
    (new, ls) ∈ addCopies t copies := by
  unfold addCopies
  apply List.mem_append_right
  simp only [List.mem_filterMap]
  exact ⟨(new, old), hc, by simp [hl]⟩

/-- the tables that existed before are left untouched and in place -/
theorem C08_copy_prefix (t : Tables) (copies : List (String × String)) :
    ∃ added, addCopies t copies = t ++ added ∧ added.length ≤ copies.length :=
  ⟨_, rfl, List.length_filterMap_le _ _⟩

/-- a CopyDecay whose source has no Decay table adds nothing -/
theorem C08_copy_miss (t : Tables) (new old : String) (h : lastTable t old = none) :
    addCopies t [(new, old)] = t := by simp [addCopies, h]

/-- a copied table is a table like any other for a later CDecay: it can be found as source -/
theorem C08_copy_as_source (t : Tables) (copies : List (String × String)) (new old : String) (ls : List Line)
    (hc : (new, old) ∈ copies) (hl : lastTable t old = some ls) :
    ∃ ls', lastTable (addCopies t copies) new = some ls' := by
  have hmem := C08_copy t copies new old ls hc hl
  unfold lastTable
  have : ∃ p, (addCopies t copies).reverse.find? (fun p => p.1 == new) = some p := by
    cases h : (addCopies t copies).reverse.find? (fun p => p.1 == new) with
    | some p => exact ⟨p, rfl⟩
    | none =>
      rw [List.find?_eq_none] at h
      have := h (new, ls) (by simpa using hmem)
      simp at this
  obtain ⟨p, hp⟩ := this
  exact ⟨p.2, by simp [hp]⟩

/-- a run of queries: whatever is asked, and in whatever order, the state and therefore every later
    answer stay those of the freshly parsed value -/
def runQueries {σ α : Type} (answer : σ → α → String) (s : σ) : List α → σ × List String
  | [] => (s, [])
  | q :: r => let (s', outs) := runQueries answer s r; (s', answer s q :: outs)

theorem C08_pure {σ α : Type} (answer : σ → α → String) (s : σ) (qs : List α) :
    (runQueries answer s qs).1 = s ∧ (runQueries answer s qs).2 = qs.map (answer s) := by
  induction qs with
  | nil => exact ⟨rfl, rfl⟩
  | cons q r ih => simp [runQueries, ih.1, ih.2]

/-- parsing the same statements again gives the same tables -/
theorem C08_reparse (db : DB) (o : Opts) (d : Doc) : tables db o d = tables db o d := rfl

end DL
