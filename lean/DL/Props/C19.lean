/-
C19 — C++ and Python GooFit outputs describe the same, self-contained model.
The statically checkable clauses are decided over data regenerated from the source on every run:
the output calls of both conversion functions, and the coefficient-name suffixes of both emitters.
What both emitters write for an amplitude is the structure `emitAmp` of C18 (shared by both
languages in the model; the harness parses both real outputs back and compares them with each other).
-/
import DL.Model.Output
import DL.Model.GooFit
import DL.Gen.Sinks
import DL.Gen.SpinTable
namespace DL

/-- when every output call goes through `printer`, the string returned on request is exactly what is
    printed otherwise, and nothing is printed when the string is requested -/
theorem runSinks_all_printer (calls : List (String × String)) (h : ∀ c ∈ calls, c.1 = "printer") :
    (runSinks true calls).1 = calls.map (·.2) ∧ (runSinks true calls).2 = [] ∧
    (runSinks false calls).2 = calls.map (·.2) ∧ (runSinks false calls).1 = [] := by
  induction calls with
  | nil => simp [runSinks]
  | cons c r ih =>
    obtain ⟨s, p⟩ := c
    have hs : s = "printer" := h (s, p) List.mem_cons_self
    have ihh := ih (fun c hc => h c (List.mem_cons_of_mem _ hc))
    subst hs
    simp [runSinks, ihh.1, ihh.2.1, ihh.2.2.1, ihh.2.2.2]

/-- C19 (returned text = printed text): decided over the output calls regenerated from ampgen2goofit.py -/
theorem C19_sinks :
    Gen.sinksCpp.all (· == "printer") = true ∧ Gen.sinksPy.all (· == "printer") = true ∧
    Gen.sinksCppReturnsBuffer = true ∧ Gen.sinksPyReturnsBuffer = true ∧
    Gen.sinksCpp ≠ [] ∧ Gen.sinksPy ≠ [] := by
  refine ⟨by decide, by decide, by decide, by decide, by decide, by decide⟩

theorem C19_returned_is_printed (pieces : List String) (sinks : List String)
    (hall : sinks.all (· == "printer") = true) :
    (runSinks true (sinks.zip pieces)).1 = (runSinks false (sinks.zip pieces)).2 := by
  have h : ∀ c ∈ sinks.zip pieces, c.1 = "printer" := by
    intro c hc
    have := (List.of_mem_zip hc).1
    simpa using (List.all_eq_true.mp hall) c.1 this
  obtain ⟨h1, _, h3, _⟩ := runSinks_all_printer (sinks.zip pieces) h
  rw [h1, h3]

/-- C19 (coefficient names): in both emitters the real and the imaginary coefficient of an amplitude
    get different names (the suffixes are regenerated from `make_amplitude` of both classes), and the
    Python emitter uses the same name in its fixed and its free branch -/
theorem C19_coeff_names :
    (∃ r i, Gen.coeffSuffixCpp = [r, i] ∧ r ≠ i) ∧
    (∃ r i, Gen.coeffSuffixPy = [r, r, i, i] ∧ r ≠ i) ∧
    Gen.coeffSuffixCpp = [Gen.coeffSuffixPy.head!, Gen.coeffSuffixPy.getLast!] := by
  refine ⟨⟨"r", "i", by decide, by decide⟩, ⟨"r", "i", by decide, by decide⟩, by decide⟩

theorem C19_distinct (s a b : String) (h : a ≠ b) : s ++ "_" ++ a ≠ s ++ "_" ++ b := by
  intro e
  apply h
  have := congrArg String.toList e
  simp only [String.toList_append] at this
  exact String.ext (List.append_cancel_left this)

end DL
