/-
C19 — C++ and Python GooFit outputs describe the same, self-contained model.
The statically checkable clauses are decided over data regenerated from the source on every run:
the output calls of both conversion functions, and the coefficient-name suffixes of both emitters.
What both emitters write for an amplitude is the structure `emitAmp` of C18 (shared by both
languages in the model; the harness parses both real outputs back and compares them with each other).
-/
import DL.Model.Output
import DL.Model.GooFit
import DL.Gen.Sinks
import DL.Gen.SpinTable
import DL.Lemmas.AmpNodes
namespace DL

/-- when every output call goes through `printer`, the string returned on request is exactly what is
    printed otherwise, and nothing is printed when the string is requested -/
theorem runSinks_all_printer (calls : List (String × String)) (h : ∀ c ∈ calls, c.1 = "printer") :
    (runSinks true calls).1 = calls.map (·.2) ∧ (runSinks true calls).2 = [] ∧
    (runSinks false calls).2 = calls.map (·.2) ∧ (runSinks false calls).1 = [] := by
  induction calls with
  | nil => simp [runSinks]
  | cons c r ih =>
    obtain ⟨s, p⟩ := c
    have hs : s = "printer" := h (s, p) List.mem_cons_self
    have ihh := ih (fun c hc => h c (List.mem_cons_of_mem _ hc))
    subst hs
    simp [runSinks, ihh.1, ihh.2.1, ihh.2.2.1, ihh.2.2.2]

/-- C19 (returned text = printed text): decided over the output calls regenerated from ampgen2goofit.py -/
theorem C19_sinks :
    Gen.sinksCpp.all (· == "printer") = true ∧ Gen.sinksPy.all (· == "printer") = true ∧
    Gen.sinksCppReturnsBuffer = true ∧ Gen.sinksPyReturnsBuffer = true ∧
    Gen.sinksCpp ≠ [] ∧ Gen.sinksPy ≠ [] := by
  refine ⟨by decide, by decide, by decide, by decide, by decide, by decide⟩

theorem C19_returned_is_printed (pieces : List String) (sinks : List String)
    (hall : sinks.all (· == "printer") = true) :
    (runSinks true (sinks.zip pieces)).1 = (runSinks false (sinks.zip pieces)).2 := by
  have h : ∀ c ∈ sinks.zip pieces, c.1 = "printer" := by
    intro c hc
    have := (List.of_mem_zip hc).1
    simpa using (List.all_eq_true.mp hall) c.1 this
  obtain ⟨h1, _, h3, _⟩ := runSinks_all_printer (sinks.zip pieces) h
  rw [h1, h3]

/-- C19 (coefficient names): in both emitters the real and the imaginary coefficient of an amplitude
    get different names (the suffixes are regenerated from `make_amplitude` of both classes), and the
    Python emitter uses the same name in its fixed and its free branch -/
theorem C19_coeff_names :
    (∃ r i, Gen.coeffSuffixCpp = [r, i] ∧ r ≠ i) ∧
    (∃ r i, Gen.coeffSuffixPy = [r, r, i, i] ∧ r ≠ i) ∧
    Gen.coeffSuffixCpp = [Gen.coeffSuffixPy.head!, Gen.coeffSuffixPy.getLast!] := by
  refine ⟨⟨"r", "i", by decide, by decide⟩, ⟨"r", "i", by decide, by decide⟩, by decide⟩

theorem C19_distinct (s a b : String) (h : a ≠ b) : s ++ "_" ++ a ≠ s ++ "_" ++ b := by
  intro e
  apply h
  have := congrArg String.toList e
  simp only [String.toList_append] at this
  exact String.ext (List.append_cancel_left this)

/-- C19 (self-contained): every particle that occurs anywhere in an amplitude returned by a read -
    in particular every resonance whose mass and width symbols the emitted lineshapes use - has been
    recorded by that same read in the class-level set from which the declarations are written -/
theorem C19_declared (pol : ResetPolicy) (lookup : String → Option String) (st : RState) (stmts : List AStmt)
    (out : ReadOut) (st' : RState) (h : readAmpgen pol lookup st stmts = .ok (out, st')) :
    ∀ line ∈ out.lines, ∀ p ∈ nodesOf line, p ∈ st'.allParticles := by
  unfold readAmpgen at h
  split at h
  · split at h
    · cases h
    · simp only at h
      split at h
      · cases h
      · rename_i built hb
        split at h
        · cases h
        · rename_i expanded he
          simp only [Except.ok.injEq, Prod.mk.injEq] at h
          obtain ⟨rfl, rfl⟩ := h
          intro line hl p hp
          simp only [List.mem_flatten, List.mem_map] at hl
          obtain ⟨o, ⟨r, hr, rfl⟩, hlo⟩ := hl
          obtain ⟨top, htop, hftop⟩ := mapM_except_mem _ _ _ he r hr
          obtain ⟨o', fi⟩ := r
          have htop' : top ∈ built.map (·.1) := (List.mem_filter.mp htop).1
          -- p is a particle of one of the chains built from the lines of this file
          have hsrc : ∃ l ∈ built.map (·.1), p ∈ nodesOf l := by
            rcases expandLines_nodes _ 64 top o' fi hftop line hlo p hp with h1 | h1
            · exact ⟨top, htop', h1⟩
            · exact h1
          obtain ⟨l, hlm, hpl⟩ := hsrc
          simp only [List.mem_map] at hlm
          obtain ⟨b, hbm, rfl⟩ := hlm
          obtain ⟨aline, _, hfa⟩ := mapM_except_mem _ _ _ hb b hbm
          obtain ⟨bc, bs⟩ := b
          have hnodes := chainOfLine_nodes lookup _ aline bc bs hfa
          apply mem_addSet
          simp only [List.mem_flatten, List.mem_map]
          exact ⟨bs, ⟨(bc, bs), hbm, rfl⟩, by rw [← hnodes]; exact hpl⟩
  · cases h

end DL
