/-
C19 — C++ and Python GooFit outputs describe the same, self-contained model.
The statically checkable clauses are decided over data regenerated from the source on every run:
the output calls of both conversion functions, and the coefficient-name suffixes of both emitters.
What both emitters write for an amplitude is the structure `emitAmp` of C18 (shared by both
languages in the model; the harness parses both real outputs back and compares them with each other).
-/
import DL.Model.Output
import DL.Model.GooFit
import DL.Gen.Sinks
import DL.Gen.SpinTable
import DL.Lemmas.AmpNodes
import DL.Model.GooFitProg
import DL.Lemmas.GooFitProg
namespace DL

/-- when every output call goes through `printer`, the string returned on request is exactly what is
    printed otherwise, and nothing is printed when the string is requested -/
theorem runSinks_all_printer (calls : List (String × String)) (h : ∀ c ∈ calls, c.1 = "printer") :
    (runSinks true calls).1 = calls.map (·.2) ∧ (runSinks true calls).2 = [] ∧
    (runSinks false calls).2 = calls.map (·.2) ∧ (runSinks false calls).1 = [] := by
  induction calls with
  | nil => simp [runSinks]
  | cons c r ih =>
    obtain ⟨s, p⟩ := c
    have hs : s = "printer" := h (s, p) List.mem_cons_self
    have ihh := ih (fun c hc => h c (List.mem_cons_of_mem _ hc))
    subst hs
    simp [runSinks, ihh.1, ihh.2.1, ihh.2.2.1, ihh.2.2.2]

/-- C19 (returned text = printed text): decided over the output calls regenerated from ampgen2goofit.py -/
theorem C19_sinks :
    Gen.sinksCpp.all (· == "printer") = true ∧ Gen.sinksPy.all (· == "printer") = true ∧
    Gen.sinksCppReturnsBuffer = true ∧ Gen.sinksPyReturnsBuffer = true ∧
    Gen.sinksCpp ≠ [] ∧ Gen.sinksPy ≠ [] := by
  refine ⟨by decide, by decide, by decide, by decide, by decide, by decide⟩

theorem C19_returned_is_printed (pieces : List String) (sinks : List String)
    (hall : sinks.all (· == "printer") = true) :
    (runSinks true (sinks.zip pieces)).1 = (runSinks false (sinks.zip pieces)).2 := by
  have h : ∀ c ∈ sinks.zip pieces, c.1 = "printer" := by
    intro c hc
    have := (List.of_mem_zip hc).1
    simpa using (List.all_eq_true.mp hall) c.1 this
  obtain ⟨h1, _, h3, _⟩ := runSinks_all_printer (sinks.zip pieces) h
  rw [h1, h3]

/-- C19 (coefficient names): in both emitters the real and the imaginary coefficient of an amplitude
    get different names (the suffixes are regenerated from `make_amplitude` of both classes), and the
    Python emitter uses the same name in its fixed and its free branch -/
theorem C19_coeff_names :
    (∃ r i, Gen.coeffSuffixCpp = [r, i] ∧ r ≠ i) ∧
    (∃ r i, Gen.coeffSuffixPy = [r, r, i, i] ∧ r ≠ i) ∧
    Gen.coeffSuffixCpp = [Gen.coeffSuffixPy.head!, Gen.coeffSuffixPy.getLast!] := by
  refine ⟨⟨"r", "i", by decide, by decide⟩, ⟨"r", "i", by decide, by decide⟩, by decide⟩

theorem C19_distinct (s a b : String) (h : a ≠ b) : s ++ "_" ++ a ≠ s ++ "_" ++ b := by
  intro e
  apply h
  have := congrArg String.toList e
  simp only [String.toList_append] at this
  exact String.ext (List.append_cancel_left this)

/-- C19 (self-contained): every particle that occurs anywhere in an amplitude returned by a read -
    in particular every resonance whose mass and width symbols the emitted lineshapes use - has been
    recorded by that same read in the class-level set from which the declarations are written -/
theorem C19_declared (pol : ResetPolicy) (lookup : String → Option String) (st : RState) (stmts : List AStmt)
    (out : ReadOut) (st' : RState) (h : readAmpgen pol lookup st stmts = .ok (out, st')) :
    ∀ line ∈ out.lines, ∀ p ∈ nodesOf line, p ∈ st'.allParticles := by
  unfold readAmpgen at h
  split at h
  · split at h
    · cases h
    · simp only at h
      split at h
      · cases h
      · rename_i built hb
        split at h
        · cases h
        · rename_i expanded he
          simp only [Except.ok.injEq, Prod.mk.injEq] at h
          obtain ⟨rfl, rfl⟩ := h
          intro line hl p hp
          simp only [List.mem_flatten, List.mem_map] at hl
          obtain ⟨o, ⟨r, hr, rfl⟩, hlo⟩ := hl
          obtain ⟨top, htop, hftop⟩ := mapM_except_mem _ _ _ he r hr
          obtain ⟨o', fi⟩ := r
          have htop' : top ∈ built.map (·.1) := (List.mem_filter.mp htop).1
          -- p is a particle of one of the chains built from the lines of this file
          have hsrc : ∃ l ∈ built.map (·.1), p ∈ nodesOf l := by
            rcases expandLines_nodes _ 64 top o' fi hftop line hlo p hp with h1 | h1
            · exact ⟨top, htop', h1⟩
            · exact h1
          obtain ⟨l, hlm, hpl⟩ := hsrc
          simp only [List.mem_map] at hlm
          obtain ⟨b, hbm, rfl⟩ := hlm
          obtain ⟨aline, _, hfa⟩ := mapM_except_mem _ _ _ hb b hbm
          obtain ⟨bc, bs⟩ := b
          have hnodes := chainOfLine_nodes lookup _ aline bc bs hfa
          apply mem_addSet
          simp only [List.mem_flatten, List.mem_map]
          exact ⟨bs, ⟨(bc, bs), hbm, rfl⟩, by rw [← hnodes]; exact hpl⟩
  · cases h

/-! ### the whole conversion as a program of declarations and uses (`DL/Model/GooFitProg.lean`)

`progCpp` / `progPy` abstract the text returned by `ampgen2goofit` / `ampgen2goofitpy` to the list of its
statements with the model symbols each declares and uses.  `ProgClosed` (in `DL/Lemmas/GooFitProg.lean`) says
that every symbol a statement uses is declared by a statement before it; `closedB` decides it
(`closedB_iff`). -/

/-- the premise under which an output is self-contained, a decidable condition on the input alone:
    every resonance of a line is in the all-particles set under its programmatic name and is not an
    event-type particle; the name of a spline resonance is one of the names spline arrays are made for
    (its `::Spline::` constants are there); when a K-matrix lineshape occurs, parameter rows with the
    programmatic names `sA_0, sA, s0_prod, s0_scatt` exist and so do rows containing `f_scatt` and `IS_p` -/
def Supported (i : ProgIn) : Prop := supportedB i = true

instance (i : ProgIn) : Decidable (Supported i) := inferInstanceAs (Decidable (supportedB i = true))

theorem Supported_iff (i : ProgIn) :
    Supported i ↔ resonancesKnown i = true ∧ splinesKnown i = true ∧ kMatrixKnown i = true := by
  simp [Supported, supportedB, Bool.and_eq_true, and_assoc]

/-- every model symbol used by the statements of a line is declared in the introduction or in the
    parameter section -/
theorem lineCore_uses (i : ProgIn) (hs : Supported i) (ps : List PStmt) (hps : parsStmts i = .ok ps)
    (ln : LineIn) (hln : ln ∈ i.lines) (ss : List PStmt) (h : lineCore i ln = .ok ss) :
    ∀ s ∈ ss, ∀ u ∈ s.uses, u ∈ declsOf (introStmts i) ++ declsOf ps := by
  obtain ⟨hres, hspl, hkm⟩ := (Supported_iff i).mp hs
  obtain ⟨a, b, c, ha, hb, hc, rfl⟩ := parsStmts_ok i ps hps
  have hcont : ∀ x ∈ containers, x ∈ declsOf (introStmts i) ++ declsOf (parDecls i ++ a ++ b ++ c) :=
    fun x hx => List.mem_append_left _ (containers_declared i x hx)
  unfold lineCore at h
  split at h
  · cases h
  · rename_i amp hamp
    split at h
    · simp only [Except.ok.injEq] at h
      subst h
      intro s hs' u hu
      simp only [List.mem_cons, List.not_mem_nil, or_false] at hs'
      rcases hs' with rfl | rfl | rfl
      · -- spin-factor block
        simp only [List.mem_singleton] at hu
        subst hu
        exact hcont _ (by decide)
      · -- line-factor block
        simp only [List.mem_cons, List.mem_flatMap] at hu
        rcases hu with rfl | ⟨lo, hlo, hu⟩
        · exact hcont _ (by decide)
        · obtain ⟨v, hv, hprog, hname, hkind⟩ := emitAmp_lineBlock _ _ _ _ hamp lo hlo
          have hvl : v ∈ vertsOfLines i := List.mem_flatMap.mpr ⟨ln, hln, hv⟩
          -- mass and width variables of the resonance
          have hMW : lo.prog ++ "_M" ∈ declsOf (introStmts i) ∧ lo.prog ++ "_W" ∈ declsOf (introStmts i) := by
            have := (List.all_eq_true.mp hres) v hvl
            obtain ⟨p, hp, hpp⟩ := List.any_eq_true.mp this
            simp only [Bool.and_eq_true, beq_iff_eq, Bool.not_eq_true'] at hpp
            rw [hprog, ← hpp.1]
            exact resonance_declared i p hp hpp.2
          have hM := List.mem_append_left (declsOf (parDecls i ++ a ++ b ++ c)) hMW.1
          have hW := List.mem_append_left (declsOf (parDecls i ++ a ++ b ++ c)) hMW.2
          cases hk : lo.kind with
          | rbw =>
            simp only [lsUses, hk, List.mem_cons, List.not_mem_nil, or_false] at hu
            rcases hu with rfl | rfl
            · exact hM
            · exact hW
          | focus m =>
            simp only [lsUses, hk, List.mem_cons, List.not_mem_nil, or_false] at hu
            rcases hu with rfl | rfl
            · exact hM
            · exact hW
          | gspline =>
            simp only [lsUses, hk, List.mem_cons, List.not_mem_nil, or_false] at hu
            rcases hu with rfl | rfl | rfl
            · exact hM
            · exact hW
            · have hg : isGSpline v = true := by simp [isGSpline, hkind, hk]
              have := (List.all_eq_true.mp hspl) v hvl
              simp only [hg, Bool.not_true, Bool.false_or, List.contains_iff_mem] at this
              rw [hname]
              apply List.mem_append_right
              rw [declsOf_append, declsOf_append, declsOf_append]
              exact List.mem_append_left _ (List.mem_append_left _ (List.mem_append_right _
                (splineArrays_declares i a ha v.name this)))
          | kmatrix pt pole =>
            have hkv : isKMatrix v = true := by simp [isKMatrix, hkind, hk]
            have hany : (vertsOfLines i).any isKMatrix = true := List.any_eq_true.mpr ⟨v, hvl, hkv⟩
            simp only [kMatrixKnown, hany, Bool.not_true, Bool.false_or, Bool.and_eq_true, List.all_eq_true,
              List.contains_iff_mem] at hkm
            obtain ⟨⟨h4, hf⟩, hi⟩ := hkm
            have hpar : ∀ x ∈ ["sA_0", "sA", "s0_prod", "s0_scatt"],
                x ∈ declsOf (introStmts i) ++ declsOf (parDecls i ++ a ++ b ++ c) := by
              intro x hx
              apply List.mem_append_right
              rw [declsOf_append, declsOf_append, declsOf_append, declsOf_parDecls]
              exact List.mem_append_left _ (List.mem_append_left _ (List.mem_append_left _ (h4 x hx)))
            have hfs : "f_scatt" ∈ declsOf (introStmts i) ++ declsOf (parDecls i ++ a ++ b ++ c) := by
              apply List.mem_append_right
              rw [declsOf_append, declsOf_append]
              exact List.mem_append_left _ (List.mem_append_right _ (fScattArray_declares i b hb hf))
            have his : "IS_poles" ∈ declsOf (introStmts i) ++ declsOf (parDecls i ++ a ++ b ++ c) := by
              apply List.mem_append_right
              rw [declsOf_append]
              exact List.mem_append_right _ (isPolesArray_declares i c hc hi)
            simp only [lsUses, hk, kMatrixSyms, List.cons_append, List.nil_append, List.mem_cons,
              List.not_mem_nil, or_false] at hu
            rcases hu with rfl | rfl | rfl | rfl | rfl | rfl | rfl | rfl
            · exact hpar _ (by decide)
            · exact hpar _ (by decide)
            · exact hpar _ (by decide)
            · exact hpar _ (by decide)
            · exact hfs
            · exact his
            · exact hM
            · exact hW
      · -- amplitude
        simp only [List.mem_cons, List.not_mem_nil, or_false] at hu
        rcases hu with rfl | rfl | rfl <;> exact hcont _ (by decide)
    · cases h

/-- introduction, parameter section and a tail that only uses what those two declare: closed -/
theorem closed_of_parts (i : ProgIn) (ps : List PStmt) (hps : parsStmts i = .ok ps) (tail : List PStmt)
    (htail : ∀ s ∈ tail, ∀ u ∈ s.uses, u ∈ declsOf (introStmts i) ++ declsOf ps) :
    closedB (introStmts i ++ ps ++ tail) = true := by
  unfold closedB
  rw [closedFromB_append, closedFromB_append, introStmts_closed i, parsStmts_closed i ps hps]
  simp only [Bool.true_and, List.nil_append]
  apply closedFromB_of_uses
  intro s hs u hu
  rw [declsOf_append]
  exact htail s hs u hu

/-- C19 (self-contained, C++): whenever the conversion of a supported input succeeds, every symbol a
    statement of the output uses is declared by an earlier statement of the same output -/
theorem C19_closed_cpp (i : ProgIn) (prog : List PStmt) (h : progCpp i = .ok prog) (hs : Supported i) :
    ProgClosed prog := by
  rw [← closedB_iff]
  unfold progCpp at h
  split at h
  · rename_i ps ls hps hls
    simp only [Except.ok.injEq] at h
    subst h
    apply closed_of_parts i ps hps
    intro s hsm u hu
    obtain ⟨l, hl, hsl⟩ := List.mem_flatten.mp hsm
    obtain ⟨ln, hln, hfl⟩ := mapM_except_mem _ _ _ hls l hl
    unfold lineCpp at hfl
    split at hfl
    · cases hfl
    · rename_i ss hss
      simp only [Except.ok.injEq] at hfl
      subst hfl
      rcases List.mem_append.mp hsl with hsl | hsl
      · exact lineCore_uses i hs ps hps ln hln ss hss s hsl u hu
      · rw [List.mem_singleton] at hsl
        subst hsl
        simp only [List.mem_singleton] at hu
        subst hu
        exact List.mem_append_left _ (containers_declared i _ (by decide))
  · cases h
  · cases h

/-- C19 (self-contained, Python) -/
theorem C19_closed_py (i : ProgIn) (prog : List PStmt) (h : progPy i = .ok prog) (hs : Supported i) :
    ProgClosed prog := by
  rw [← closedB_iff]
  unfold progPy at h
  split at h
  · rename_i ps ls hps hls
    simp only [Except.ok.injEq] at h
    subst h
    rw [List.append_assoc]
    apply closed_of_parts i ps hps
    intro s hsm u hu
    rcases List.mem_append.mp hsm with hsm | hsm
    · obtain ⟨l, hl, hsl⟩ := List.mem_flatten.mp hsm
      obtain ⟨ln, hln, hfl⟩ := mapM_except_mem _ _ _ hls l hl
      exact lineCore_uses i hs ps hps ln hln l hfl s hsl u hu
    · rw [List.mem_singleton] at hsm
      subst hsm
      simp only [List.mem_singleton] at hu
      subst hu
      exact List.mem_append_left _ (containers_declared i _ (by decide))
  · cases h
  · cases h

/-! ### both languages declare the same model -/

theorem lineCpp_eq (i : ProgIn) (ln : LineIn) :
    lineCpp i ln = exMap (· ++ [({ sect := "line.register", declares := [], uses := ["amplitudes_list"] } : PStmt)]) (lineCore i ln) := by
  unfold lineCpp exMap
  cases lineCore i ln <;> rfl

theorem lineStmts_append (a b : List PStmt) : lineStmts (a ++ b) = lineStmts a ++ lineStmts b := by
  simp [lineStmts]

theorem declsOf_registered (r : PStmt) (hr : r.declares = []) : ∀ (ls : List (List PStmt)),
    declsOf ((ls.map (· ++ [r])).flatten) = declsOf ls.flatten
  | [] => rfl
  | l :: ls => by
    simp only [List.map_cons, List.flatten_cons, declsOf_append, declsOf_registered r hr ls]
    simp [declsOf, hr]

theorem lineStmts_registered (r : PStmt) (hr : lineStmts [r] = []) : ∀ (ls : List (List PStmt)),
    lineStmts ((ls.map (· ++ [r])).flatten) = lineStmts ls.flatten
  | [] => rfl
  | l :: ls => by
    simp only [List.map_cons, List.flatten_cons, lineStmts_append, lineStmts_registered r hr ls, hr,
      List.append_nil]

/-- the two conversions succeed on the same inputs; the symbols they declare are the same, in the same
    order (as lists, so also as multisets); and the statements written for the lines - spin-factor
    block, line-factor block, amplitude - are the same statement by statement, in particular they use
    the same symbols in the same order.  (In the model the groups that the real code writes while
    iterating a Python `set` are in a fixed order.) -/
theorem C19_same_decls (i : ProgIn) :
    (∀ e, progCpp i = .error e ↔ progPy i = .error e) ∧
    ∀ c p, progCpp i = .ok c → progPy i = .ok p →
      declsOf c = declsOf p ∧ lineStmts c = lineStmts p ∧
      (lineStmts c).map (·.uses) = (lineStmts p).map (·.uses) := by
  have e1 : i.lines.mapM (lineCpp i) =
      exMap (List.map (· ++ [({ sect := "line.register", declares := [], uses := ["amplitudes_list"] } : PStmt)]))
        (i.lines.mapM (lineCore i)) := by
    have : lineCpp i = fun ln => exMap (· ++ [({ sect := "line.register", declares := [], uses := ["amplitudes_list"] } : PStmt)]) (lineCore i ln) :=
      funext (lineCpp_eq i)
    rw [this, mapM_except_map]
  have e2 : i.lines.mapM (linePy i) = i.lines.mapM (lineCore i) := rfl
  unfold progCpp progPy
  rw [e1, e2]
  cases hps : parsStmts i with
  | error e0 =>
    refine ⟨fun e => ?_, fun c p hc => ?_⟩
    · cases i.lines.mapM (lineCore i) <;> simp
    · cases hl : i.lines.mapM (lineCore i) <;> simp at hc
  | ok ps =>
    cases hl : i.lines.mapM (lineCore i) with
    | error e0 =>
      refine ⟨fun e => by simp [exMap], fun c p hc => ?_⟩
      simp [exMap] at hc
    | ok ls =>
      refine ⟨fun e => by simp [exMap], fun c p hc hp => ?_⟩
      simp only [exMap, Except.ok.injEq] at hc hp
      subst hc
      subst hp
      have hd : declsOf (introStmts i ++ ps ++ (ls.map (· ++ [({ sect := "line.register", declares := [], uses := ["amplitudes_list"] } : PStmt)])).flatten)
          = declsOf (introStmts i ++ ps ++ ls.flatten ++ [({ sect := "outro", declares := [], uses := ["amplitudes_list"] } : PStmt)]) := by
        rw [declsOf_append, declsOf_append _ [_], declsOf_append _ ls.flatten, declsOf_registered _ rfl]
        simp [declsOf]
      have hl' : lineStmts (introStmts i ++ ps ++ (ls.map (· ++ [({ sect := "line.register", declares := [], uses := ["amplitudes_list"] } : PStmt)])).flatten)
          = lineStmts (introStmts i ++ ps ++ ls.flatten ++ [({ sect := "outro", declares := [], uses := ["amplitudes_list"] } : PStmt)]) := by
        rw [lineStmts_append, lineStmts_append _ [_], lineStmts_append _ ls.flatten,
          lineStmts_registered _ (by decide)]
        have : lineStmts [({ sect := "outro", declares := [], uses := ["amplitudes_list"] } : PStmt)] = [] := by decide
        rw [this, List.append_nil]
      exact ⟨hd, hl', by rw [hl']⟩

/-! ### non-vacuity and necessity of the premise, on concrete inputs

`D0 -> K- pi+ pi+ pi-` with a cascade line through a spline resonance,
`D0{K(1)(1270)bar-[GSpline.EFF]{K*(892)bar0{K-,pi+},pi-},pi+}`, and a two-resonance line,
`D0{K*(892)bar0{K-,pi+},rho(770)0{pi+,pi-}}`; particle attributes as the `particle` package gives them. -/

theorem not_closed_of_undeclared (p : List PStmt) (s : PStmt) (hs : s ∈ p) (u : String) (hu : u ∈ s.uses)
    (hn : u ∉ declsOf p) : ¬ ProgClosed p := by
  intro hc
  obtain ⟨pre, post, rfl⟩ := List.append_of_mem hs
  obtain ⟨t, ht, hut⟩ := hc pre s post rfl u hu
  exact hn ((mem_declsOf _ _).mpr ⟨t, List.mem_append_left _ ht, hut⟩)

theorem ok_of_toOption {ε α : Type} (e : Except ε α) (a : α) (h : e.toOption = some a) : e = .ok a := by
  cases e with
  | error _ => cases h
  | ok b =>
    simp only [Except.toOption, Option.some.injEq] at h
    rw [h]

/-- from the evaluated verdict of the checker to the statement about the program -/
theorem not_closed_of_eval (e : Except EmitErr (List PStmt)) (h : e.toOption.map closedB = some false) :
    ∃ prog, e = .ok prog ∧ ¬ ProgClosed prog := by
  cases e with
  | error _ => cases h
  | ok prog =>
    refine ⟨prog, rfl, fun hc => ?_⟩
    have := (closedB_iff prog).mpr hc
    simp [Except.toOption, this] at h

namespace C19Ex

def leaf (n prog : String) : GNodeA := .mk n "PseudoScalar" 0 false prog none none []
def kst : GNodeA := .mk "K*(892)bar0" "Vector" 2 false "Kst_892_0_bar" none none [leaf "K-" "K_minus", leaf "pi+" "pi_plus"]
def rho : GNodeA := .mk "rho(770)0" "Vector" 2 false "rho_770_0" none none [leaf "pi+" "pi_plus", leaf "pi-" "pi_minus"]
def k1 : GNodeA := .mk "K(1)(1270)bar-" "Axial" 2 false "K_1_1270_minus" none (some "GSpline.EFF") [kst, leaf "pi-" "pi_minus"]
def cascade : GNodeA := .mk "D0" "PseudoScalar" 0 true "D_0" none none [k1, leaf "pi+" "pi_plus"]
def vv : GNodeA := .mk "D0" "PseudoScalar" 0 true "D_0" none none [kst, rho]

def stable : List PartInfo :=
  [⟨"421", "D0", "D_0"⟩, ⟨"-321", "K-", "K_minus"⟩, ⟨"211", "pi+", "pi_plus"⟩, ⟨"-211", "pi-", "pi_minus"⟩]

def input : ProgIn :=
  { table := Gen.knownSpinFactors,
    event := [⟨"421", "D0", "D_0"⟩, ⟨"-321", "K-", "K_minus"⟩, ⟨"211", "pi+", "pi_plus"⟩, ⟨"211", "pi+", "pi_plus"⟩, ⟨"-211", "pi-", "pi_minus"⟩],
    allParts := stable ++ [⟨"-10323", "K(1)(1270)-", "K_1_1270_minus"⟩, ⟨"-313", "K*(892)~0", "Kst_892_0_bar"⟩, ⟨"113", "rho(770)0", "rho_770_0"⟩],
    pars := [("K(1)(1270)bar-::Spline::Gamma::1", true, "1.0", "0.0"), ("K(1)(1270)bar-::Spline::Gamma::0", false, "0.5", "0.1"),
             ("D0_radius", true, "0.0037559", "0.0")],
    consts := [("K(1)(1270)bar-::Spline::Min", "0.6"), ("K(1)(1270)bar-::Spline::Max", "3.0"), ("K(1)(1270)bar-::Spline::N", "4.0")],
    lines := [⟨"D0{K(1)(1270)-[GSpline.EFF]{K*(892)~0{K-,pi+},pi-},pi+}", cascade⟩, ⟨"D0{K*(892)~0{K-,pi+},rho(770)0{pi+,pi-}}", vv⟩] }

/-- the C++ program of `input` -/
def progOfInput : List PStmt :=
  [⟨"intro.container", ["line_factor_list"], []⟩, ⟨"intro.container", ["spin_factor_list"], []⟩,
   ⟨"intro.container", ["amplitudes_list"], []⟩,
   ⟨"intro.const", ["D_0"], []⟩, ⟨"intro.const", ["K_MINUS"], []⟩, ⟨"intro.const", ["PI_PLUS"], []⟩, ⟨"intro.const", ["PI_MINUS"], []⟩,
   ⟨"intro.res", ["K_1_1270_minus_M"], []⟩, ⟨"intro.res", ["K_1_1270_minus_W"], []⟩,
   ⟨"intro.res", ["Kst_892_0_bar_M"], []⟩, ⟨"intro.res", ["Kst_892_0_bar_W"], []⟩,
   ⟨"intro.res", ["rho_770_0_M"], []⟩, ⟨"intro.res", ["rho_770_0_W"], []⟩,
   ⟨"intro.masses", [], ["D_0", "K_MINUS", "PI_PLUS", "PI_PLUS", "PI_MINUS"]⟩,
   ⟨"pars.var", ["K_1_1270bar_minus_Spline_Gamma_1"], []⟩, ⟨"pars.var", ["K_1_1270bar_minus_Spline_Gamma__0"], []⟩,
   ⟨"pars.var", ["D0_radius"], []⟩,
   ⟨"pars.spline", ["K_1_1270bar_minus_SplineArr"], ["K_1_1270bar_minus_Spline_Gamma__0", "K_1_1270bar_minus_Spline_Gamma_1"]⟩,
   ⟨"line.spin", [], ["spin_factor_list"]⟩,
   ⟨"line.ls", [], ["line_factor_list", "K_1_1270_minus_M", "K_1_1270_minus_W", "K_1_1270bar_minus_SplineArr",
      "Kst_892_0_bar_M", "Kst_892_0_bar_W", "K_1_1270_minus_M", "K_1_1270_minus_W", "K_1_1270bar_minus_SplineArr",
      "Kst_892_0_bar_M", "Kst_892_0_bar_W"]⟩,
   ⟨"line.amp", ["D0{K(1)(1270)-[GSpline.EFF]{K*(892)~0{K-,pi+},pi-},pi+}_r", "D0{K(1)(1270)-[GSpline.EFF]{K*(892)~0{K-,pi+},pi-},pi+}_i"],
      ["amplitudes_list", "line_factor_list", "spin_factor_list"]⟩,
   ⟨"line.register", [], ["amplitudes_list"]⟩,
   ⟨"line.spin", [], ["spin_factor_list"]⟩,
   ⟨"line.ls", [], ["line_factor_list", "Kst_892_0_bar_M", "Kst_892_0_bar_W", "rho_770_0_M", "rho_770_0_W",
      "Kst_892_0_bar_M", "Kst_892_0_bar_W", "rho_770_0_M", "rho_770_0_W"]⟩,
   ⟨"line.amp", ["D0{K*(892)~0{K-,pi+},rho(770)0{pi+,pi-}}_r", "D0{K*(892)~0{K-,pi+},rho(770)0{pi+,pi-}}_i"],
      ["amplitudes_list", "line_factor_list", "spin_factor_list"]⟩,
   ⟨"line.register", [], ["amplitudes_list"]⟩]

/-- the input meets the premise -/
example : Supported input := by decide +kernel

/-- its C++ program, evaluated -/
theorem progCpp_input : progCpp input = .ok progOfInput := ok_of_toOption _ _ (by decide +kernel)

/-- the Python program: the same without the per-line registration, plus the hand-over at the end -/
theorem progPy_input : progPy input =
    .ok (progOfInput.filter (·.sect != "line.register") ++ [⟨"outro", [], ["amplitudes_list"]⟩]) :=
  ok_of_toOption _ _ (by decide +kernel)

/-- it is closed (evaluated; also an instance of `C19_closed_cpp`) -/
example : ProgClosed progOfInput := by decide +kernel
example : ProgClosed progOfInput := C19_closed_cpp input _ progCpp_input (by decide +kernel)

/-! each clause of the premise is needed: inputs that violate exactly one clause, convert, and whose
    output is not closed -/

/-- (1a) the resonance `rho(770)0` was not recorded in the all-particles set: `rho_770_0_M` is used,
    never declared -/
def noRho : ProgIn := { input with allParts := stable ++ [⟨"-10323", "K(1)(1270)-", "K_1_1270_minus"⟩, ⟨"-313", "K*(892)~0", "Kst_892_0_bar"⟩] }

example : resonancesKnown noRho = false ∧ splinesKnown noRho = true ∧ kMatrixKnown noRho = true := by decide +kernel
example : ∃ prog, progCpp noRho = .ok prog ∧ ¬ ProgClosed prog := not_closed_of_eval _ (by decide +kernel)
example : ∃ prog, progPy noRho = .ok prog ∧ ¬ ProgClosed prog := not_closed_of_eval _ (by decide +kernel)

/-- (1b) the event type names the resonance `K*(892)~0` (it is then written as a mass constant, and
    no `Kst_892_0_bar_M` / `_W` variable is written) -/
def kstInEvent : ProgIn := { input with event := input.event ++ [⟨"-313", "K*(892)~0", "Kst_892_0_bar"⟩] }

example : resonancesKnown kstInEvent = false ∧ splinesKnown kstInEvent = true ∧ kMatrixKnown kstInEvent = true := by decide +kernel
example : ∃ prog, progCpp kstInEvent = .ok prog ∧ ¬ ProgClosed prog := not_closed_of_eval _ (by decide +kernel)

/-- (2) in the model the spline clause does not follow from the presence of the three constants: for a
    resonance written `R::Spline::Max` the three constants exist, the conversion succeeds, but the array
    is made for `R` (the suffix is removed from the constant names wherever it occurs).  Real particle
    names contain no `::`, so this input cannot come out of `read_ampgen`. -/
def oddK1 : GNodeA := .mk "R::Spline::Max" "Axial" 2 false "K_1_1270_minus" none (some "GSpline.EFF") [kst, leaf "pi-" "pi_minus"]
def oddSpline : ProgIn :=
  { input with
    consts := [("R::Spline::Max::Spline::Min", "0.6"), ("R::Spline::Max::Spline::Max", "3.0"), ("R::Spline::Max::Spline::N", "4.0")],
    lines := [⟨"odd", .mk "D0" "PseudoScalar" 0 true "D_0" none none [oddK1, leaf "pi+" "pi_plus"]⟩] }

example : resonancesKnown oddSpline = true ∧ splinesKnown oddSpline = false ∧ kMatrixKnown oddSpline = true := by decide +kernel
example : ∃ prog, progCpp oddSpline = .ok prog ∧ ¬ ProgClosed prog := not_closed_of_eval _ (by decide +kernel)

/-! (3) the K-matrix clause.  `lsKind` reads the tag with `String.splitOn`, which the kernel does not
    unfold; the tag is evaluated once by rewriting and the rest by the kernel. -/

theorem splitOn_kMatrix : "kMatrix.pole.1".splitOn "." = ["kMatrix", "pole", "1"] := by
  simp only [String.splitOn]
  repeat (rw [String.splitOnAux]; simp (config := { decide := true }))

theorem lsKind_kMatrix : lsKind (some "kMatrix.pole.1") = .ok (.kmatrix "1" true) := by
  simp [lsKind, splitOn_kMatrix]

def pipi : GNodeA := .mk "PiPi00" "Scalar" 0 false "PiPi_0" none (some "kMatrix.pole.1") [leaf "pi+" "pi_plus", leaf "pi-" "pi_minus"]
def vs : GNodeA := .mk "D0" "PseudoScalar" 0 true "D_0" none none [kst, pipi]

/-- one line `D0{K*(892)bar0{K-,pi+},PiPi00[kMatrix.pole.1]{pi+,pi-}}`, no parameter rows at all -/
def noKRows : ProgIn :=
  { input with
    allParts := stable ++ [⟨"-313", "K*(892)~0", "Kst_892_0_bar"⟩, ⟨"998100", "PiPi0", "PiPi_0"⟩],
    pars := [], consts := [],
    lines := [⟨"vs", vs⟩] }

def lsKst (m : String) : LsOut := { kind := .rbw, name := "K*(892)bar0", prog := "Kst_892_0_bar", L := 1, mass := m, radius10 := 15 }
def lsPiPi (m : String) : LsOut := { kind := .kmatrix "1" true, name := "PiPi00", prog := "PiPi_0", L := 0, mass := m, radius10 := 15 }

theorem linesFor_vs (p : List Nat) (m1 m2 : String) (h : massSymbols .ff1234 p = .ok (m1, m2)) :
    linesFor .ff1234 [kst, pipi] p = .ok [lsKst m1, lsPiPi m2] := by
  have e1 : kst.ls = none := rfl
  have e2 : pipi.ls = some "kMatrix.pole.1" := rfl
  have e3 : lsKind none = .ok .rbw := rfl
  have h5 : orbitalL kst = .ok 1 := ok_of_toOption _ _ (by decide +kernel)
  have h6 : orbitalL pipi = .ok 0 := ok_of_toOption _ _ (by decide +kernel)
  unfold linesFor
  rw [h]
  simp only [List.length_cons, List.length_nil, List.range, List.range.loop, List.zip_cons_cons,
    List.zip_nil_right, mapM_except_cons, List.mapM_nil]
  simp [e1, e2, e3, lsKind_kMatrix, h5, h6, pure, Except.pure, lsKst, lsPiPi]
  exact ⟨⟨rfl, rfl, rfl⟩, rfl, rfl, rfl⟩

theorem emitAmp_vs : ∃ sb, emitAmp Gen.knownSpinFactors vs ["K-", "pi+", "pi+", "pi-"] =
    .ok { spinBlock := sb, lineBlock := [lsKst "M_12", lsPiPi "M_34", lsKst "M_13", lsPiPi "M_24"], nPerms := 2 } := by
  have h1 : listStructure (flatNames vs) ["K-", "pi+", "pi+", "pi-"] = .ok [[0, 1, 2, 3], [0, 2, 1, 3]] :=
    ok_of_toOption _ _ (by decide +kernel)
  have h2 : spinFactors Gen.knownSpinFactors vs = .ok ["DtoVS_VtoP1P2_StoP3P4", "FF_12_34_L1"] :=
    ok_of_toOption _ _ (by decide +kernel)
  have h3 : topology vs = .ok .ff1234 := ok_of_toOption _ _ (by decide +kernel)
  have h4 : vertexes vs = [kst, pipi] := rfl
  have m1 : massSymbols .ff1234 [0, 1, 2, 3] = .ok ("M_12", "M_34") := ok_of_toOption _ _ (by decide +kernel)
  have m2 : massSymbols .ff1234 [0, 2, 1, 3] = .ok ("M_13", "M_24") := ok_of_toOption _ _ (by decide +kernel)
  unfold emitAmp
  rw [h1]
  simp only [h2, h3, h4, mapM_except_cons, List.mapM_nil, linesFor_vs _ _ _ m1, linesFor_vs _ _ _ m2, pure, Except.pure]
  exact ⟨_, rfl⟩


def vsStmts : List PStmt :=
  [⟨"line.spin", [], ["spin_factor_list"]⟩,
   ⟨"line.ls", [], ["line_factor_list", "Kst_892_0_bar_M", "Kst_892_0_bar_W",
      "sA_0", "sA", "s0_prod", "s0_scatt", "f_scatt", "IS_poles", "PiPi_0_M", "PiPi_0_W",
      "Kst_892_0_bar_M", "Kst_892_0_bar_W",
      "sA_0", "sA", "s0_prod", "s0_scatt", "f_scatt", "IS_poles", "PiPi_0_M", "PiPi_0_W"]⟩,
   ⟨"line.amp", ["vs_r", "vs_i"], ["amplitudes_list", "line_factor_list", "spin_factor_list"]⟩]

theorem lineCore_vs (i : ProgIn) (ht : i.table = Gen.knownSpinFactors)
    (hf : finalNames i = ["K-", "pi+", "pi+", "pi-"]) : lineCore i ⟨"vs", vs⟩ = .ok vsStmts := by
  obtain ⟨sb, h⟩ := emitAmp_vs
  unfold lineCore
  simp only [ht, hf, h]
  rw [if_pos (by simp [lsConstsOk, lsKst, lsPiPi])]
  exact ok_of_toOption _ _ (by decide +kernel)

theorem flags_noKRows : resonancesKnown noKRows = true ∧ splinesKnown noKRows = true ∧ kMatrixKnown noKRows = false := by
  have hv : vertsOfLines noKRows = [kst, pipi] := rfl
  have e1 : kst.ls = none := rfl
  have e2 : pipi.ls = some "kMatrix.pole.1" := rfl
  have e3 : lsKind none = .ok .rbw := rfl
  refine ⟨by decide +kernel, ?_, ?_⟩
  · unfold splinesKnown
    rw [hv]
    simp [isGSpline, e1, e2, e3, lsKind_kMatrix]
  · unfold kMatrixKnown
    rw [hv]
    have : parNames noKRows = [] := rfl
    simp [isKMatrix, e1, e2, e3, lsKind_kMatrix, this]

theorem progCpp_noKRows :
    progCpp noKRows = .ok (introStmts noKRows ++ vsStmts ++ [⟨"line.register", [], ["amplitudes_list"]⟩]) := by
  have hps : parsStmts noKRows = .ok [] := ok_of_toOption _ _ (by decide +kernel)
  have hl : noKRows.lines = [⟨"vs", vs⟩] := rfl
  unfold progCpp
  rw [hps, hl]
  simp only [mapM_except_cons, List.mapM_nil, lineCpp, lineCore_vs noKRows rfl (by decide +kernel), pure, Except.pure, List.append_nil,
    List.flatten_cons, List.flatten_nil, List.append_assoc]

/-- (3) a K-matrix lineshape without the K-matrix parameter rows: the conversion succeeds and the
    lineshape uses `sA_0` (and `sA`, `s0_prod`, `s0_scatt`, `f_scatt`, `IS_poles`), which nothing declares -/
theorem noKRows_not_closed : ∃ prog, progCpp noKRows = .ok prog ∧ ¬ ProgClosed prog :=
  ⟨_, progCpp_noKRows, by decide +kernel⟩

/-- the same line with the K-matrix rows: supported, converts, closed -/
def withKRows : ProgIn :=
  { noKRows with
    pars := [("sA0", true, "-0.15", "0.0"), ("sA", true, "1.0", "0.0"), ("s0_prod", true, "-1.0", "0.0"), ("s0_scatt", true, "-3.9", "0.0"),
             ("f_scatt1", true, "0.1", "0.0"), ("f_scatt0", true, "0.2", "0.0"), ("IS_p1_KK", true, "-0.5", "0.0"), ("IS_p1_pipi", true, "0.2", "0.0")] }

theorem supported_withKRows : Supported withKRows := by
  have hv : vertsOfLines withKRows = [kst, pipi] := rfl
  have e1 : kst.ls = none := rfl
  have e2 : pipi.ls = some "kMatrix.pole.1" := rfl
  have e3 : lsKind none = .ok .rbw := rfl
  rw [Supported_iff]
  refine ⟨by decide +kernel, ?_, ?_⟩
  · unfold splinesKnown
    rw [hv]
    simp [isGSpline, e1, e2, e3, lsKind_kMatrix]
  · unfold kMatrixKnown
    rw [Bool.or_eq_true]
    exact Or.inr (by decide +kernel)

def kRowStmts : List PStmt :=
  [⟨"pars.var", ["sA_0"], []⟩, ⟨"pars.var", ["sA"], []⟩, ⟨"pars.var", ["s0_prod"], []⟩, ⟨"pars.var", ["s0_scatt"], []⟩,
   ⟨"pars.var", ["f_scatt1"], []⟩, ⟨"pars.var", ["f_scatt_0"], []⟩, ⟨"pars.var", ["IS_p1_KK"], []⟩, ⟨"pars.var", ["IS_p1_pipi"], []⟩,
   ⟨"pars.f_scatt", ["f_scatt"], ["f_scatt_0", "f_scatt1"]⟩, ⟨"pars.IS_poles", ["IS_poles"], ["IS_p1_pipi", "IS_p1_KK"]⟩]

theorem progCpp_withKRows : progCpp withKRows =
    .ok (introStmts withKRows ++ kRowStmts ++ vsStmts ++ [⟨"line.register", [], ["amplitudes_list"]⟩]) := by
  have hps : parsStmts withKRows = .ok kRowStmts := ok_of_toOption _ _ (by decide +kernel)
  have hl : withKRows.lines = [⟨"vs", vs⟩] := rfl
  unfold progCpp
  rw [hps, hl]
  simp only [mapM_except_cons, List.mapM_nil, lineCpp, lineCore_vs withKRows rfl (by decide +kernel), pure,
    Except.pure, List.append_nil, List.flatten_cons, List.flatten_nil, List.append_assoc]

example : ∃ prog, progCpp withKRows = .ok prog ∧ ProgClosed prog :=
  ⟨_, progCpp_withKRows, C19_closed_cpp _ _ progCpp_withKRows supported_withKRows⟩

end C19Ex

end DL
