/-
C20 — conversion output depends only on the input file.
`readAmpgen` is `read_ampgen` with the class-level state threaded explicitly; which attributes a read
resets is regenerated from the source (`DL/Gen/ClassState.lean`).  Hash-seed independence and
fresh-process reproducibility are runtime behaviour (harness).
-/
import DL.Model.AmpGen
import DL.Gen.ClassState
namespace DL

def fullReset : ResetPolicy := { allParticles := true, finalParticles := true, cartesian := true }

theorem startState_fullReset (st : RState) : startState fullReset st = RState.init := rfl

/-- C20 (one call): with every class-level attribute reset, a read gives the same amplitudes,
    tables and the same resulting class state whatever was read before -/
theorem C20_history (lookup : String → Option String) (st : RState) (stmts : List AStmt) :
    readAmpgen fullReset lookup st stmts = readAmpgen fullReset lookup RState.init stmts := by
  unfold readAmpgen
  simp only [startState_fullReset]

/-- the policy regenerated from the source is the full reset -/
theorem C20_policy : Gen.resetPolicy = fullReset := by decide

/-- a history of reads, each possibly by a different reader class (the classes share nothing but the
    code): the state is threaded, the outputs collected -/
def runReads (pol : ResetPolicy) (lookup : String → Option String) : RState → List (List AStmt) → List (Except AmpErr ReadOut)
  | _, [] => []
  | st, f :: r =>
    match readAmpgen pol lookup st f with
    | .ok (out, st') => .ok out :: runReads pol lookup st' r
    | .error e => .error e :: runReads pol lookup st r

/-- C20 (sequences): the outputs of any sequence of reads are the outputs of each read from the
    initial state -/
theorem C20_sequence (lookup : String → Option String) (st : RState) (files : List (List AStmt)) :
    runReads fullReset lookup st files =
      files.map (fun f => (readAmpgen fullReset lookup RState.init f).map (·.1)) := by
  induction files generalizing st with
  | nil => rfl
  | cons f r ih =>
    simp only [runReads, List.map_cons]
    rw [C20_history lookup st f]
    cases h : readAmpgen fullReset lookup RState.init f with
    | error e => simp [Except.map, ih]
    | ok p => obtain ⟨out, st'⟩ := p; simp [Except.map, ih]

/-- without the reset of the cartesian switch a read would depend on the history: the model
    exhibits the dependence the reset removes (non-vacuity of the policy hypothesis) -/
theorem C20_needs_reset :
    cartOf (startState { allParticles := true, finalParticles := true, cartesian := false }
      { allParticles := [], finalParticles := [], cartesian := true }) [] = true ∧
    cartOf (startState fullReset { allParticles := [], finalParticles := [], cartesian := true }) [] = false := by
  decide

end DL
