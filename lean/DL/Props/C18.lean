/-
C18 — each amplitude is emitted with exactly its Bose-symmetrised permutations.
`listStructure` is `ModelDecay.list_structure` (DL/Model/Perm.lean).
-/
import DL.Lemmas.Cartesian
import DL.Lemmas.ExceptList
import DL.Model.GooFit
import DL.Gen.SpinTable
namespace DL

theorem mem_positionsOf (fs : List String) (name : String) (i : Nat) :
    i ∈ positionsOf fs name ↔ fs[i]? = some name := by
  simp only [positionsOf, List.mem_filter, List.mem_range, beq_iff_eq]
  constructor
  · exact fun h => h.2
  · intro h
    refine ⟨?_, h⟩
    rcases Nat.lt_or_ge i fs.length with hl | hl
    · exact hl
    · rw [List.getElem?_eq_none hl] at h; cases h

theorem positionsOf_nodup (fs : List String) (name : String) : (positionsOf fs name).Nodup :=
  List.Nodup.filter _ List.nodup_range

theorem allDistinct_iff (a : List Nat) : allDistinct a = true ↔ a.Nodup := by
  induction a with
  | nil => simp [allDistinct]
  | cons x r ih => simp [allDistinct, ih, List.nodup_cons]

theorem pointwise_map {α β γ : Type} (R : α → γ → Prop) (f : β → γ) (a : List α) (s : List β) :
    Pointwise R a (s.map f) ↔ Pointwise (fun x y => R x (f y)) a s := by
  induction s generalizing a with
  | nil => cases a <;> simp [Pointwise]
  | cons y s ih => cases a <;> simp [Pointwise, ih]

/-- C18 (permutations): the index tuples used for an amplitude are exactly the one-to-one
    assignments of its final-state particles (in the order of the flattened tree) to positions of
    identical particles in the event type — soundness and completeness -/
theorem C18_perms (s fs : List String) (L : List (List Nat)) (h : listStructure s fs = .ok L) (a : List Nat) :
    a ∈ L ↔ (Pointwise (fun i name => fs[i]? = some name) a s ∧ a.Nodup) := by
  unfold listStructure at h
  split at h
  · simp only [Except.ok.injEq] at h
    subst h
    simp only [List.mem_filter, mem_cartesian, allDistinct_iff, pointwise_map, mem_positionsOf]
  · cases h

/-- each assignment occurs once -/
theorem C18_perms_nodup (s fs : List String) (L : List (List Nat)) (h : listStructure s fs = .ok L) : L.Nodup := by
  unfold listStructure at h
  split at h
  · simp only [Except.ok.injEq] at h
    subst h
    apply List.Nodup.filter
    apply cartesian_nodup
    intro l hl
    simp only [List.mem_map] at hl
    obtain ⟨n, _, rfl⟩ := hl
    exact positionsOf_nodup fs n
  · cases h

/-- an amplitude naming a particle that is not in the event type is refused -/
theorem C18_perms_error (s fs : List String) (x : String) (hx : x ∈ s) (hn : x ∉ fs) :
    listStructure s fs = .error .notEncompassed := by
  unfold listStructure
  have : s.all (fs.contains ·) = false := by
    rw [List.all_eq_false]
    exact ⟨x, hx, by simpa using hn⟩
  rw [if_neg (by rw [this]; simp)]

/-- the declared number of permutations is the number of assignments -/
theorem C18_count (s fs : List String) (L : List (List Nat)) (h : listStructure s fs = .ok L) :
    L.length = ((cartesian (s.map (positionsOf fs))).filter allDistinct).length := by
  unfold listStructure at h
  split at h
  · simp only [Except.ok.injEq] at h; rw [← h]
  · cases h

/-- non-vacuity: K- pi+ pi+ pi- with the amplitude's particles pi+ K- pi+ pi-: two assignments -/
example : listStructure ["pi+", "K-", "pi+", "pi-"] ["K-", "pi+", "pi+", "pi-"] = .ok [[1, 0, 2, 3], [2, 0, 1, 3]] := by
  decide

/-- C18 (emitted code): whatever is emitted for an amplitude declares the number of its
    permutations, carries in the spin-factor block every spin factor once per permutation (permutation
    by permutation), and has one block of lineshapes per permutation, built from that permutation -/
theorem C18_emit (table : List (String × List String)) (n : GNodeA) (fs : List String) (a : AmpOut)
    (h : emitAmp table n fs = .ok a) :
    ∃ perms sfs top blocks, listStructure (flatNames n) fs = .ok perms ∧ spinFactors table n = .ok sfs ∧
      topology n = .ok top ∧ perms.mapM (linesFor top (vertexes n)) = .ok blocks ∧
      a.nPerms = perms.length ∧
      a.spinBlock = perms.flatMap (fun p => sfs.map fun sf => ({ sf := sf, perm := p } : SfOut)) ∧
      a.lineBlock = blocks.flatten ∧ blocks.length = perms.length := by
  unfold emitAmp at h
  split at h
  · cases h
  · rename_i perms hp
    split at h
    · cases h
    · cases h
    · rename_i sfs top hs ht
      split at h
      · cases h
      · rename_i blocks hb
        simp only [Except.ok.injEq] at h
        subst h
        exact ⟨perms, sfs, top, blocks, hp, hs, ht, hb, rfl, rfl, rfl, mapM_except_length _ _ _ hb⟩

/-- the spin-factor block has (number of permutations) x (number of spin factors) entries -/
theorem C18_emit_sf_count (table : List (String × List String)) (n : GNodeA) (fs : List String) (a : AmpOut)
    (h : emitAmp table n fs = .ok a) :
    ∃ sfs, spinFactors table n = .ok sfs ∧ a.spinBlock.length = a.nPerms * sfs.length := by
  obtain ⟨perms, sfs, _, _, _, hs, _, _, hn, hsb, _, _⟩ := C18_emit table n fs a h
  refine ⟨sfs, hs, ?_⟩
  rw [hsb, hn]
  clear hsb hn
  induction perms with
  | nil => simp
  | cons p r ih => simp [List.flatMap_cons, ih, Nat.add_mul, Nat.add_comm]

/-- the invariant-mass symbols of a permutation are built from that permutation and the topology -/
theorem C18_masses (a b c d : Nat) :
    massSymbols .ff1234 [a, b, c, d] = .ok ("M_" ++ toString (a + 1) ++ toString (b + 1), "M_" ++ toString (c + 1) ++ toString (d + 1)) ∧
    massSymbols .ff1_2_34 [a, b, c, d] = .ok ("M_" ++ toString (a + 1) ++ toString (b + 1) ++ "_" ++ toString (c + 1), "M_" ++ toString (a + 1) ++ toString (b + 1)) := by
  simp [massSymbols]

/-- every supported spin structure of the property has an entry in the regenerated table -/
theorem C18_table_total :
    ["DtoV1V2_V1toP1P2_V2toP3P4", "DtoV1V2_V1toP1P2_V2toP3P4_P", "DtoV1V2_V1toP1P2_V2toP3P4_D", "DtoV1S2_V1toP1P2_S2toP3P4",
     "DtoS1S2_S1toP1P2_S2toP3P4", "DtoA1P1_A1toV2P2_V2toP3P4", "DtoA1P1_A1toV2P2Dwave_V2toP3P4", "DtoA1P1_A1toS2P2_S2toP3P4",
     "DtoT1P1_T1toV2P2_V2toP3P4", "Dtos1P1_s1toS2P2_S2toP3P4", "Dtos1P1_s1toV2P2_V2toP3P4"].all
      (fun k => (Gen.knownSpinFactors.find? (·.1 == k)).isSome) = true ∧
    Gen.knownSpinFactors.all (fun kv => kv.2.all (Gen.sf4Body.contains ·) && !kv.2.isEmpty) = true := by
  constructor <;> decide

end DL
