/-
C18 — each amplitude is emitted with exactly its Bose-symmetrised permutations.
`listStructure` is `ModelDecay.list_structure` (DL/Model/Perm.lean).
-/
import Mathlib.Data.List.Nodup
import DL.Model.Perm
namespace DL

/-- position-wise relation between two lists of equal length -/
def Pointwise {α β : Type} (R : α → β → Prop) : List α → List β → Prop
  | [], [] => True
  | a :: as, b :: bs => R a b ∧ Pointwise R as bs
  | _, _ => False

theorem mem_positionsOf (fs : List String) (name : String) (i : Nat) :
    i ∈ positionsOf fs name ↔ fs[i]? = some name := by
  simp only [positionsOf, List.mem_filter, List.mem_range, beq_iff_eq]
  constructor
  · exact fun h => h.2
  · intro h
    refine ⟨?_, h⟩
    rcases Nat.lt_or_ge i fs.length with hl | hl
    · exact hl
    · rw [List.getElem?_eq_none hl] at h; cases h

theorem positionsOf_nodup (fs : List String) (name : String) : (positionsOf fs name).Nodup :=
  List.Nodup.filter _ List.nodup_range

theorem mem_cartesian {α : Type} (ls : List (List α)) (a : List α) :
    a ∈ cartesian ls ↔ Pointwise (fun x l => x ∈ l) a ls := by
  induction ls generalizing a with
  | nil => cases a <;> simp [cartesian, Pointwise]
  | cons l ls ih =>
    cases a with
    | nil => simp [cartesian, Pointwise]
    | cons x a =>
      simp only [cartesian, List.mem_flatMap, List.mem_map, Pointwise]
      constructor
      · rintro ⟨y, hy, b, hb, heq⟩
        simp only [List.cons.injEq] at heq
        obtain ⟨rfl, rfl⟩ := heq
        exact ⟨hy, (ih b).mp hb⟩
      · rintro ⟨hx, ha⟩
        exact ⟨x, hx, a, (ih a).mpr ha, rfl⟩

theorem cartesian_nodup {α : Type} (ls : List (List α)) (h : ∀ l ∈ ls, l.Nodup) : (cartesian ls).Nodup := by
  induction ls with
  | nil => simp [cartesian]
  | cons l ls ih =>
    have hl : l.Nodup := h l List.mem_cons_self
    have hr : (cartesian ls).Nodup := ih (fun l' hl' => h l' (List.mem_cons_of_mem _ hl'))
    simp only [cartesian]
    rw [List.nodup_flatMap]
    constructor
    · intro x _
      exact hr.map (fun a b hab => by simpa using hab)
    · have hp : List.Pairwise (fun a b => a ≠ b) l := hl
      refine hp.imp ?_
      intro a b hne
      simp only [Function.onFun]
      intro z hz1 hz2
      simp only [List.mem_map] at hz1 hz2
      obtain ⟨u, _, rfl⟩ := hz1
      obtain ⟨w, _, hw⟩ := hz2
      simp only [List.cons.injEq] at hw
      exact hne hw.1.symm

theorem allDistinct_iff (a : List Nat) : allDistinct a = true ↔ a.Nodup := by
  induction a with
  | nil => simp [allDistinct]
  | cons x r ih => simp [allDistinct, ih, List.nodup_cons]

theorem pointwise_map {α β γ : Type} (R : α → γ → Prop) (f : β → γ) (a : List α) (s : List β) :
    Pointwise R a (s.map f) ↔ Pointwise (fun x y => R x (f y)) a s := by
  induction s generalizing a with
  | nil => cases a <;> simp [Pointwise]
  | cons y s ih => cases a <;> simp [Pointwise, ih]

/-- C18 (permutations): the index tuples used for an amplitude are exactly the one-to-one
    assignments of its final-state particles (in the order of the flattened tree) to positions of
    identical particles in the event type — soundness and completeness -/
theorem C18_perms (s fs : List String) (L : List (List Nat)) (h : listStructure s fs = .ok L) (a : List Nat) :
    a ∈ L ↔ (Pointwise (fun i name => fs[i]? = some name) a s ∧ a.Nodup) := by
  unfold listStructure at h
  split at h
  · simp only [Except.ok.injEq] at h
    subst h
    simp only [List.mem_filter, mem_cartesian, allDistinct_iff, pointwise_map, mem_positionsOf]
  · cases h

/-- each assignment occurs once -/
theorem C18_perms_nodup (s fs : List String) (L : List (List Nat)) (h : listStructure s fs = .ok L) : L.Nodup := by
  unfold listStructure at h
  split at h
  · simp only [Except.ok.injEq] at h
    subst h
    apply List.Nodup.filter
    apply cartesian_nodup
    intro l hl
    simp only [List.mem_map] at hl
    obtain ⟨n, _, rfl⟩ := hl
    exact positionsOf_nodup fs n
  · cases h

/-- an amplitude naming a particle that is not in the event type is refused -/
theorem C18_perms_error (s fs : List String) (x : String) (hx : x ∈ s) (hn : x ∉ fs) :
    listStructure s fs = .error .notEncompassed := by
  unfold listStructure
  have : s.all (fs.contains ·) = false := by
    rw [List.all_eq_false]
    exact ⟨x, hx, by simpa using hn⟩
  rw [if_neg (by rw [this]; simp)]

/-- the declared number of permutations is the number of assignments -/
theorem C18_count (s fs : List String) (L : List (List Nat)) (h : listStructure s fs = .ok L) :
    L.length = ((cartesian (s.map (positionsOf fs))).filter allDistinct).length := by
  unfold listStructure at h
  split at h
  · simp only [Except.ok.injEq] at h; rw [← h]
  · cases h

/-- non-vacuity: K- pi+ pi+ pi- with the amplitude's particles pi+ K- pi+ pi-: two assignments -/
example : listStructure ["pi+", "K-", "pi+", "pi-"] ["K-", "pi+", "pi+", "pi-"] = .ok [[1, 0, 2, 3], [2, 0, 1, 3]] := by
  decide

end DL
