/-
C16 — printed decay-mode tables show every mode once, correctly ordered and scaled.
`printRows` follows `DecFileParser.print_decay_modes` on exact rationals (float rounding is outside
the model: the harness compares the printed 7-digit strings).
-/
import Mathlib.Algebra.Order.Field.Rat
import DL.Model.Print
import DL.Lemmas.FmtG7
import DL.Lemmas.FmtG7Str
import DL.Lemmas.FmtG7Mono
namespace DL

def leB (asc : Bool) (a b : Line) : Bool := if asc then decide (a.bf ≤ b.bf) else decide (b.bf ≤ a.bf)

theorem sortRows_eq (asc : Bool) (ls : List Line) : sortRows asc ls = ls.mergeSort (leB asc) := rfl

theorem leB_trans (asc : Bool) (a b c : Line) : leB asc a b = true → leB asc b c = true → leB asc a c = true := by
  cases asc <;> simp only [leB, if_true, if_false, Bool.false_eq_true, decide_eq_true_eq]
  · intro h1 h2; exact le_trans h2 h1
  · intro h1 h2; exact le_trans h1 h2

theorem leB_total (asc : Bool) (a b : Line) : (leB asc a b || leB asc b a) = true := by
  cases asc <;> simp only [leB, if_true, if_false, Bool.false_eq_true, Bool.or_eq_true, decide_eq_true_eq]
  · exact le_total b.bf a.bf
  · exact le_total a.bf b.bf

/-- every decay line gives exactly one row -/
theorem C16_rows (asc : Bool) (ls : List Line) :
    (sortRows asc ls).Perm ls ∧ (sortRows asc ls).length = ls.length :=
  ⟨List.mergeSort_perm ls _, (List.mergeSort_perm ls _).length_eq⟩

/-- rows are ordered by branching fraction in the requested direction -/
theorem C16_order (asc : Bool) (ls : List Line) :
    List.Pairwise (fun a b => if asc then a.bf ≤ b.bf else b.bf ≤ a.bf) (sortRows asc ls) := by
  have h := List.pairwise_mergeSort (leB_trans asc) (leB_total asc) ls
  rw [sortRows_eq]
  refine h.imp ?_
  intro a b hab
  cases asc <;> simpa [leB] using hab

/-- file order among equal values: two lines with equal branching fractions keep their relative order -/
theorem C16_stable (asc : Bool) (a b : Line) (ls : List Line) (he : a.bf = b.bf)
    (h : [a, b].Sublist ls) : [a, b].Sublist (sortRows asc ls) := by
  rw [sortRows_eq]
  refine List.pair_sublist_mergeSort (leB_trans asc) (leB_total asc) ?_ h
  cases asc <;> simp [leB, he]

/-- a printed table is: the lines of the mother, sorted, each divided by one common divisor -/
theorem C16_shape (pdg2evt : List (String × String)) (t : Tables) (mother : String) (o : PrintOpts)
    (rows : List PRowOut) (h : printRows pdg2evt t mother o = .ok rows) :
    optsRefused o = false ∧ ∃ m ls norm, (if o.pdgName then dget pdg2evt mother else some mother) = some m ∧
      findModes t m = .ok ls ∧ normOf o (sortRows o.ascending ls) = some norm ∧
      rows = (sortRows o.ascending ls).map (rowOut o norm) ∧ rows.length = ls.length := by
  unfold printRows at h
  split at h
  · cases h
  · rename_i hr
    refine ⟨by simpa using hr, ?_⟩
    split at h
    · cases h
    · rename_i m hm
      split at h
      · cases h
      · rename_i ls hls
        simp only at h
        split at h
        · cases h
        · rename_i norm hn
          split at h
          · cases h
          · simp only [Except.ok.injEq] at h
            exact ⟨m, ls, norm, hm, hls, hn, h.symm, by rw [← h]; simp [(C16_rows o.ascending ls).2]⟩

/-- by default the values are shown unchanged -/
theorem C16_default (o : PrintOpts) (sorted : List Line) (hn : o.normalize = false) (hs : o.scale = none)
    (l : Line) : normOf o sorted = some 1 ∧ (rowOut o 1 l).exact = l.bf := by
  simp [normOf, hn, hs, rowOut]

theorem sum_map_div (l : List Rat) (d : Rat) : (l.map (· / d)).sum = l.sum / d := by
  induction l with
  | nil => simp
  | cons a r ih => simp [ih, add_div]

/-- under normalisation the shown values are `bf / Σ bf` and sum to 1 -/
theorem C16_normalize (o : PrintOpts) (sorted : List Line) (hn : o.normalize = true)
    (hz : sumBf sorted ≠ 0) :
    normOf o sorted = some (sumBf sorted) ∧
    ((sorted.map (rowOut o (sumBf sorted))).map (·.exact)).sum = 1 := by
  refine ⟨by simp [normOf, hn], ?_⟩
  have : (sorted.map (rowOut o (sumBf sorted))).map (·.exact) = (sorted.map (·.bf)).map (· / sumBf sorted) := by
    simp [rowOut, List.map_map, Function.comp_def]
  rw [this, sum_map_div]
  exact div_self hz

/-- the first row of a descending table / the last row of an ascending one carries the largest value -/
theorem C16_largest (asc : Bool) (ls : List Line) (top : Line)
    (ht : (if asc then (sortRows asc ls).getLast? else (sortRows asc ls).head?) = some top) :
    ∀ l ∈ sortRows asc ls, l.bf ≤ top.bf := by
  have hp := C16_order asc ls
  cases asc with
  | false =>
    simp only [Bool.false_eq_true, if_false] at ht hp
    cases hs : sortRows false ls with
    | nil => simp [hs] at ht
    | cons x xs =>
      rw [hs] at ht hp
      simp only [List.head?_cons, Option.some.injEq] at ht
      subst ht
      intro l hl
      rcases List.mem_cons.mp hl with rfl | hl
      · exact le_refl _
      · exact (List.pairwise_cons.mp hp).1 l hl
  | true =>
    simp only [if_true] at ht hp
    obtain ⟨ys, hys⟩ := List.getLast?_eq_some_iff.mp ht
    rw [hys] at hp ⊢
    intro l hl
    rcases List.mem_append.mp hl with hl | hl
    · exact (List.pairwise_append.mp hp).2.2 l hl top (by simp)
    · simp only [List.mem_singleton] at hl; subst hl; exact le_refl _

/-- under scaling every value is multiplied by one common factor, which makes the largest equal to
    the requested scale -/
theorem C16_scale (o : PrintOpts) (ls : List Line) (s : Rat) (top : Line)
    (hn : o.normalize = false) (hs : o.scale = some s)
    (ht : (if o.ascending then (sortRows o.ascending ls).getLast? else (sortRows o.ascending ls).head?) = some top)
    (hz : top.bf ≠ 0) :
    normOf o (sortRows o.ascending ls) = some (top.bf / s) ∧
    (∀ l, (rowOut o (top.bf / s) l).exact = l.bf * (s / top.bf)) ∧
    (rowOut o (top.bf / s) top).exact = s ∧
    ∀ l ∈ sortRows o.ascending ls, l.bf ≤ top.bf := by
  refine ⟨by simp [normOf, hn, hs, ht], ?_, ?_, C16_largest o.ascending ls top ht⟩
  · intro l
    simp only [rowOut]
    rw [div_div_eq_mul_div, mul_div_assoc]
  · simp only [rowOut]
    rw [div_div_eq_mul_div, mul_comm, mul_div_assoc, div_self hz, mul_one]

/-- contradictory or out-of-range options are refused -/
theorem C16_refuse (pdg2evt : List (String × String)) (t : Tables) (mother : String) (o : PrintOpts) :
    (optsRefused o = true ↔ ∃ s, o.scale = some s ∧ (o.normalize = true ∨ ¬ (0 < s ∧ s ≤ 1))) ∧
    (optsRefused o = true → printRows pdg2evt t mother o = .error .options) := by
  constructor
  · unfold optsRefused
    cases o.scale with
    | none => simp
    | some s =>
      simp only [Option.some.injEq, exists_eq_left', Bool.or_eq_true, Bool.not_eq_true', Bool.and_eq_false_iff,
        decide_eq_false_iff_not, not_and_or]
  · intro h; simp [printRows, h]

/-- the model column: shown iff requested; the PHOTOS keyword iff requested and present on the line -/
theorem C16_columns (o : PrintOpts) (norm : Rat) (l : Line) :
    (rowOut o norm l).ds = l.ds ∧
    (o.printModel = false → (rowOut o norm l).model = none ∧ (rowOut o norm l).params = []) ∧
    (o.printModel = true → (rowOut o norm l).model =
        some (if o.displayPhotos && l.photos then "PHOTOS " ++ l.model else l.model) ∧
      (rowOut o norm l).params = l.params.getD []) := by
  refine ⟨rfl, ?_, ?_⟩ <;> intro h <;> simp [rowOut, h, Line.modelShown]

/-- printing is a function of the tables: it returns rows and cannot alter the stored values
    (in the model the tables are a value; the runtime clause is checked by the harness) -/
theorem C16_pure (pdg2evt : List (String × String)) (t : Tables) (m : String) (o o' : PrintOpts) :
    (printRows pdg2evt t m o, t).2 = (printRows pdg2evt t m o', t).2 := rfl

/-! ### "shown to 7 significant digits"

`fmtG7 v` (the model of `'%.7g' % v` on the exact value) is `renderSig7 n e` for `(n, e) = sig7 v`.  The digits are a correct
rounding: seven of them, and the value differs from `n · 10^(e-6)` by at most half a unit of the seventh digit
(`DL/Lemmas/FmtG7.lean`: the decimal exponent from digit counts, `floorLog10_spec`; round-half-even, `roundHalfEven_spec`).
How the digits are laid out (`renderSig7`: positional below `1e7` and from `1e-4`, else scientific; trailing zeros and a trailing point
dropped) is proved too: read back as a number (`numValue`, the exact value of a numeric literal), the text denotes exactly
`n · 10^(e-6)` (`renderSig7_value`, DL/Lemmas/FmtG7Str.lean), so the number a reader takes from the value column differs from
the stored, scaled number by at most half a unit of its seventh significant digit (`C16_value_read_back`). -/

theorem C16_sig7 (v : Rat) (hv : 0 < v) :
    10 ^ 6 ≤ (sig7 v).1 ∧ (sig7 v).1 < 10 ^ 7 ∧
    |v - ((sig7 v).1 : Rat) * (10 : Rat) ^ ((sig7 v).2 - 6)| ≤ 1 / 2 * (10 : Rat) ^ ((sig7 v).2 - 6) :=
  sig7_spec v hv

/-- the value column of a printed row is that rendering of the exact quotient -/
theorem C16_shown (o : PrintOpts) (norm : Rat) (l : Line) (h : 0 < l.bf / norm) :
    (rowOut o norm l).shown = renderSig7 (sig7 (l.bf / norm)).1 (sig7 (l.bf / norm)).2 := by
  have hne : ¬ (l.bf / norm < 0) := not_lt.2 h.le
  have hz : (l.bf / norm == 0) = false := by
    rw [beq_eq_false_iff_ne]; exact ne_of_gt h
  simp [rowOut, fmtG7, fmtG7Pos, hne, hz]

/-- the value column, read back as a number, is the stored scaled value up to half a unit of the seventh significant digit
    (for every value, negative and zero included: zero is shown as a text that reads back as zero) -/
theorem C16_value_read_back (o : PrintOpts) (norm : Rat) (l : Line) :
    ∃ v : Rat, numValue (rowOut o norm l).shown = some v ∧
      (l.bf / norm = 0 → v = 0) ∧
      (l.bf / norm ≠ 0 → |l.bf / norm - v| ≤ 1 / 2 * (10 : Rat) ^ ((sig7 |l.bf / norm|).2 - 6)) := by
  have : (rowOut o norm l).shown = fmtG7 (l.bf / norm) := by simp [rowOut]
  rw [this]
  exact fmtG7_value (l.bf / norm)

/-- the layout alone: seven digits `n` at decimal exponent `e` are written as a text that denotes `n · 10^(e-6)` exactly -/
theorem C16_layout_exact (n : Nat) (e : Int) (hlo : 10 ^ 6 ≤ n) (hhi : n < 10 ^ 7) :
    numValue (renderSig7 n e) = some ((n : Rat) * (10 : Rat) ^ (e - 6)) := by
  have := renderSig7_value n e hlo hhi false (renderSig7 n e) (by simp [sgnPre])
  simpa using this

/-- for a positive value the text shown reads back as `shownVal`, the seven digits at their exponent -/
theorem C16_shown_value (x : Rat) (hx : 0 < x) : numValue (fmtG7 x) = some (shownVal x) := by
  obtain ⟨hlo, hhi, _⟩ := sig7_spec x hx
  have hne : (x == 0) = false := by
    simp only [beq_eq_false_iff_ne, ne_eq]; exact hx.ne'
  have := renderSig7_value (sig7 x).1 (sig7 x).2 hlo hhi false (fmtG7 x)
    (by simp [fmtG7, not_lt.mpr hx.le, fmtG7Pos, hne, sgnPre])
  simpa [shownVal] using this

/-- rounding to seven significant digits is monotone: of two positive values the larger one is shown as a text that reads back
    as the larger (or an equal) number - rows printed in the order of their values are in the order of the numbers shown -/
theorem C16_shown_monotone (x y : Rat) (hx : 0 < x) (hxy : x ≤ y) :
    ∃ vx vy : Rat, numValue (fmtG7 x) = some vx ∧ numValue (fmtG7 y) = some vy ∧ vx ≤ vy :=
  ⟨shownVal x, shownVal y, C16_shown_value x hx, C16_shown_value y (lt_of_lt_of_le hx hxy), shownVal_mono x y hx hxy⟩

/-- non-vacuity: the read-back of a shown text -/
example : numValue (fmtG7 (1 / 3)) = some (3333333 / 10000000) := by decide +kernel
example : numValue (fmtG7 (-12345678 / 1)) = some (-12345680) := by decide +kernel
example : numValue (fmtG7 (271 / 69430000)) = some (3903212 / 1000000000000) := by decide +kernel

/-- non-vacuity: 1/3 is shown with the digits 3333333 at exponent -1, 0.0271 / 0.6943 as 3.903212e-02 -/
example : sig7 (1 / 3) = (3333333, -1) := by decide +kernel
example : fmtG7 (1 / 3) = "0.3333333" := by decide +kernel
example : fmtG7 (271 / 6943) = "0.03903212" := by decide +kernel
example : fmtG7 (12345678 / 1) = "1.234568e+07" := by decide +kernel

end DL
