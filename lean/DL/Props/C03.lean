/-
C03 — CDecay yields the exact charge conjugate of the referenced decay table.
`addCC` follows `_add_charge_conjugate_decays` (with the shared, growing dictionary of the
`ChargeConjugateReplacement` visitor); `conjLine` is the specification of one conjugated line.
-/
import DL.Lemmas.Dict
namespace DL

/-- parsing with charge-conjugate decays disabled adds no table -/
theorem C03_switch_off (db : DB) (d : Doc) : tables db { includeCC := false } d = tablesNoCC d := by
  unfold tables
  cases tablesNoCC d <;> simp [Except.map]

/-- with the switch on, the tables before conjugation are left untouched and in place: everything
    CDecay creates is appended after them -/
theorem C03_source_untouched (db : DB) (d : Doc) (t : Tables) :
    addCC db d t = t ++ conjAll db (dictChargeConj d) (ccSources db d t) := rfl

theorem foldl_erase_not_mem (x : String) (rem acc : List String) (hn : acc.count x ≤ rem.count x) :
    x ∉ rem.foldl (fun a y => a.erase y) acc := by
  induction rem generalizing acc with
  | nil =>
    simp only [List.count_nil, Nat.le_zero] at hn
    simpa using List.count_eq_zero.mp hn
  | cons y r ih =>
    simp only [List.foldl_cons]
    apply ih
    by_cases h : y = x
    · subst h
      rw [List.count_erase_self]
      simp only [List.count_cons, beq_self_eq_true, if_true] at hn
      omega
    · rw [List.count_erase_of_ne (Ne.symm h)]
      have : (y == x) = false := by simpa using h
      simpa [List.count_cons, this] using hn

/-- a Decay (or CopyDecay) table for X takes precedence over CDecay X: X is not conjugated -/
theorem C03_precedence (d : Doc) (t : Tables) (x : String) (hx : x ∈ t.map (·.1)) :
    x ∉ ccTodo d t := by
  unfold ccTodo
  apply foldl_erase_not_mem
  have hc : (ccTodo.motherNames' t).contains x = true := List.contains_iff_mem.mpr hx
  rw [List.count_filter hc]
  exact Nat.le_refl _

/-- a CDecay whose conjugate has no table adds nothing -/
theorem C03_miss (db : DB) (d : Doc) (t : Tables) (todo : List String)
    (h : ∀ x ∈ todo, lastTable t (matchCC db (dictChargeConj d) x) = none) :
    (todo.filterMap fun x => (lastTable t (matchCC db (dictChargeConj d) x)).map
      fun ls => (matchCC db (dictChargeConj d) x, ls)) = [] := by
  rw [List.filterMap_eq_nil_iff]
  intro x hx
  simp [h x hx]

/-- specification of a conjugated line: only the daughters change -/
def sameButDaughters (a b : Line) : Prop :=
  a.bf = b.bf ∧ a.photos = b.photos ∧ a.model = b.model ∧ a.params = b.params ∧ a.ds.length = b.ds.length

theorem rebuildLines_spec : ∀ (ls : List Line) (names : List String),
    (ls.flatMap (·.ds)).length ≤ names.length →
    (rebuildLines ls names).length = ls.length ∧
    ∀ i (h : i < ls.length) (h' : i < (rebuildLines ls names).length),
      sameButDaughters ((rebuildLines ls names)[i]'h') (ls[i]'h)
  | [], names, _ => by simp [rebuildLines]
  | ln :: r, names, hlen => by
    simp only [List.flatMap_cons, List.length_append] at hlen
    have ih := rebuildLines_spec r (names.drop ln.ds.length) (by rw [List.length_drop]; omega)
    refine ⟨by simp [rebuildLines, ih.1], ?_⟩
    intro i h h'
    cases i with
    | zero =>
      simp only [rebuildLines, List.getElem_cons_zero, sameButDaughters, List.length_take, true_and]
      omega
    | succ i =>
      simp only [rebuildLines, List.getElem_cons_succ]
      exact ih.2 i (by simpa using h) (by simpa [rebuildLines] using h')

theorem visitNames_length (db : DB) : ∀ (defs : List (String × String)) (ns : List String),
    (visitNames db defs ns).1.length = ns.length
  | _, [] => rfl
  | defs, p :: r => by simp [visitNames, visitNames_length db _ r]

/-- C03 (shape of the conjugate table): the table created for a CDecay has the lines of its source
    in the same order with identical branching fractions, PHOTOS flags, models and parameters and as
    many daughters per line -/
theorem C03_shape (db : DB) (defs : List (String × String)) (src : String) (ls : List Line) :
    let tb := (conjTable db defs src ls).1
    tb.2.length = ls.length ∧
    ∀ i (h : i < ls.length) (h' : i < tb.2.length), sameButDaughters (tb.2[i]'h') (ls[i]'h) := by
  simp only [conjTable]
  apply rebuildLines_spec
  simp only [List.length_take, visitNames_length, visitOrder, List.length_append, List.length_cons, List.length_nil]
  omega

/-- C03 (daughters, without aliases): with no ChargeConj statement at all, the first daughter met is
    replaced by its conjugate under the database rule -/
theorem C03_first_daughter (db : DB) (p : String) (r : List String) :
    (visitNames db [] (p :: r)).1.head? = some (db.conjName p) := by
  simp [visitNames, matchCC, dget]

/-- ChargeConj statements are read in either direction -/
theorem C03_orientation (db : DB) (defs : List (String × String)) (a b : String)
    (hab : dget defs a = some b) (hb : dget defs b = none)
    (hfirst : defs.find? (·.2 == b) = some (a, b)) :
    matchCC db defs a = b ∧ matchCC db defs b = a := by
  simp [matchCC, hab, hb, hfirst]

/-- names without ChargeConj statement follow the database: self-conjugate names are unchanged,
    names with no known conjugate are marked as such, never guessed -/
theorem C03_database_rule (db : DB) (defs : List (String × String)) (p : String)
    (h1 : dget defs p = none) (h2 : defs.find? (·.2 == p) = none) :
    matchCC db defs p = db.conjName p := by
  simp [matchCC, h1, h2]

theorem C03_unknown_marked (db : DB) (n : String) (h : db.rowOfName n = none) :
    db.conjName n = "ChargeConj(" ++ n ++ ")" := by
  simp [DB.conjName, h, wrapUnknown]

theorem C03_selfconj (db : DB) (n : String) (r : PRow) (h : db.rowOfName n = some r)
    (ht : r.inTable = true) (hs : r.invNeg = false) : db.conjName n = r.name := by
  simp [DB.conjName, h, DB.route1, ht, hs]

end DL
