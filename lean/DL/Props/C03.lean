/-
C03 — CDecay yields the exact charge conjugate of the referenced decay table.
`addCC` follows `_add_charge_conjugate_decays` (with the shared, growing dictionary of the
`ChargeConjugateReplacement` visitor); `conjLine` is the specification of one conjugated line.
-/
import DL.Lemmas.Dict
import DL.Lemmas.CCache
namespace DL

/-- parsing with charge-conjugate decays disabled adds no table -/
theorem C03_switch_off (db : DB) (d : Doc) : tables db { includeCC := false } d = tablesNoCC d := by
  unfold tables
  cases tablesNoCC d <;> simp [Except.map]

/-- with the switch on, the tables before conjugation are left untouched and in place: everything
    CDecay creates is appended after them -/
theorem C03_source_untouched (db : DB) (d : Doc) (t : Tables) :
    addCC db d t = t ++ conjAll db (dictChargeConj d) (ccSources db d t) := rfl

theorem foldl_erase_not_mem (x : String) (rem acc : List String) (hn : acc.count x ≤ rem.count x) :
    x ∉ rem.foldl (fun a y => a.erase y) acc := by
  induction rem generalizing acc with
  | nil =>
    simp only [List.count_nil, Nat.le_zero] at hn
    simpa using List.count_eq_zero.mp hn
  | cons y r ih =>
    simp only [List.foldl_cons]
    apply ih
    by_cases h : y = x
    · subst h
      rw [List.count_erase_self]
      simp only [List.count_cons, beq_self_eq_true, if_true] at hn
      omega
    · rw [List.count_erase_of_ne (Ne.symm h)]
      have : (y == x) = false := by simpa using h
      simpa [List.count_cons, this] using hn

/-- a Decay (or CopyDecay) table for X takes precedence over CDecay X: X is not conjugated -/
theorem C03_precedence (d : Doc) (t : Tables) (x : String) (hx : x ∈ t.map (·.1)) :
    x ∉ ccTodo d t := by
  unfold ccTodo
  apply foldl_erase_not_mem
  have hc : (ccTodo.motherNames' t).contains x = true := List.contains_iff_mem.mpr hx
  rw [List.count_filter hc]
  exact Nat.le_refl _

/-- a CDecay whose conjugate has no table adds nothing -/
theorem C03_miss (db : DB) (d : Doc) (t : Tables) (todo : List String)
    (h : ∀ x ∈ todo, lastTable t (matchCC db (dictChargeConj d) x) = none) :
    (todo.filterMap fun x => (lastTable t (matchCC db (dictChargeConj d) x)).map
      fun ls => (matchCC db (dictChargeConj d) x, ls)) = [] := by
  rw [List.filterMap_eq_nil_iff]
  intro x hx
  simp [h x hx]

/-- specification of a conjugated line: only the daughters change -/
def sameButDaughters (a b : Line) : Prop :=
  a.bf = b.bf ∧ a.photos = b.photos ∧ a.model = b.model ∧ a.params = b.params ∧ a.ds.length = b.ds.length

theorem rebuildLines_spec : ∀ (ls : List Line) (names : List String),
    (ls.flatMap (·.ds)).length ≤ names.length →
    (rebuildLines ls names).length = ls.length ∧
    ∀ i (h : i < ls.length) (h' : i < (rebuildLines ls names).length),
      sameButDaughters ((rebuildLines ls names)[i]'h') (ls[i]'h)
  | [], names, _ => by simp [rebuildLines]
  | ln :: r, names, hlen => by
    simp only [List.flatMap_cons, List.length_append] at hlen
    have ih := rebuildLines_spec r (names.drop ln.ds.length) (by rw [List.length_drop]; omega)
    refine ⟨by simp [rebuildLines, ih.1], ?_⟩
    intro i h h'
    cases i with
    | zero =>
      simp only [rebuildLines, List.getElem_cons_zero, sameButDaughters, List.length_take, true_and]
      omega
    | succ i =>
      simp only [rebuildLines, List.getElem_cons_succ]
      exact ih.2 i (by simpa using h) (by simpa [rebuildLines] using h')

theorem visitNames_length (db : DB) : ∀ (defs : List (String × String)) (ns : List String),
    (visitNames db defs ns).1.length = ns.length
  | _, [] => rfl
  | defs, p :: r => by simp [visitNames, visitNames_length db _ r]

/-- C03 (shape of the conjugate table): the table created for a CDecay has the lines of its source
    in the same order with identical branching fractions, PHOTOS flags, models and parameters and as
    many daughters per line -/
theorem C03_shape (db : DB) (defs : List (String × String)) (src : String) (ls : List Line) :
    let tb := (conjTable db defs src ls).1
    tb.2.length = ls.length ∧
    ∀ i (h : i < ls.length) (h' : i < tb.2.length), sameButDaughters (tb.2[i]'h') (ls[i]'h) := by
  simp only [conjTable]
  apply rebuildLines_spec
  simp only [List.length_take, visitNames_length, visitOrder, List.length_append, List.length_cons, List.length_nil]
  omega

/-- C03 (daughters, without aliases): with no ChargeConj statement at all, the first daughter met is
    replaced by its conjugate under the database rule -/
theorem C03_first_daughter (db : DB) (p : String) (r : List String) :
    (visitNames db [] (p :: r)).1.head? = some (db.conjName p) := by
  simp [visitNames, matchCC, dget]

/-- ChargeConj statements are read in either direction -/
theorem C03_orientation (db : DB) (defs : List (String × String)) (a b : String)
    (hab : dget defs a = some b) (hb : dget defs b = none)
    (hfirst : defs.find? (·.2 == b) = some (a, b)) :
    matchCC db defs a = b ∧ matchCC db defs b = a := by
  simp [matchCC, hab, hb, hfirst]

/-- names without ChargeConj statement follow the database: self-conjugate names are unchanged,
    names with no known conjugate are marked as such, never guessed -/
theorem C03_database_rule (db : DB) (defs : List (String × String)) (p : String)
    (h1 : dget defs p = none) (h2 : defs.find? (·.2 == p) = none) :
    matchCC db defs p = db.conjName p := by
  simp [matchCC, h1, h2]

theorem C03_unknown_marked (db : DB) (n : String) (h : db.rowOfName n = none) :
    db.conjName n = "ChargeConj(" ++ n ++ ")" := by
  simp [DB.conjName, h, wrapUnknown]

theorem C03_selfconj (db : DB) (n : String) (r : PRow) (h : db.rowOfName n = some r)
    (ht : r.inTable = true) (hs : r.invNeg = false) : db.conjName n = r.name := by
  simp [DB.conjName, h, DB.route1, ht, hs]

/-! ### the growing dictionary of the visitor never changes an answer -/

/-- C03 (cache): the visitor with its growing dictionary gives exactly what conjugating every name
    independently with the original ChargeConj dictionary gives.  `hinv`: the database conjugation
    is an involution on the names it does not wrap (discharged for the regenerated table in
    `DL/Lemmas/CCacheGen.lean`); `hwrap`: no visited name is the wrapped form `ChargeConj(p)` of a
    visited name -/
theorem C03_cache (db : DB)
    (hinv : ∀ n, db.conjName n ≠ wrapUnknown n → db.conjName (db.conjName n) = n)
    (defs : List (String × String)) (ns : List String)
    (hwrap : ∀ p ∈ ns, ∀ q ∈ ns, q ≠ wrapUnknown p) :
    (visitNames db defs ns).1 = ns.map (matchCC db defs) :=
  visitNames_eq_map db hinv defs ns hwrap

/-- C03 (the conjugate table): the table created for a CDecay has the lines of its source in the
    same order with identical branching fractions, PHOTOS flags, models and parameters, every
    daughter replaced by its conjugate under the original dictionary, and is named by the conjugate
    of the source's name -/
theorem C03_table (db : DB)
    (hinv : ∀ n, db.conjName n ≠ wrapUnknown n → db.conjName (db.conjName n) = n)
    (defs : List (String × String)) (src : String) (ls : List Line)
    (hwrap : ∀ p ∈ visitOrder src ls, ∀ q ∈ visitOrder src ls, q ≠ wrapUnknown p) :
    (conjTable db defs src ls).1 =
      (matchCC db defs src, ls.map (fun ln => { ln with ds := ln.ds.map (matchCC db defs) })) := by
  simp only [conjTable]
  rw [C03_cache db hinv defs _ hwrap]
  simp only [visitOrder, List.map_append, List.map_cons, List.map_nil]
  have hlen : ((ls.flatMap (·.ds)).map (matchCC db defs)).length = (ls.flatMap (·.ds)).length := by
    simp
  congr 1
  · rw [List.getD_eq_getElem?_getD, List.getElem?_append_right (by rw [hlen]; exact Nat.le_refl _)]
    simp
  · rw [List.take_append_of_le_length (by rw [hlen]; exact Nat.le_refl _),
      List.take_of_length_le (by rw [hlen]; exact Nat.le_refl _)]
    exact rebuildLines_map _ ls

/-- the dictionary left behind by the visitor answers like the original one -/
theorem C03_cache_defs (db : DB)
    (hinv : ∀ n, db.conjName n ≠ wrapUnknown n → db.conjName (db.conjName n) = n) :
    ∀ (defs : List (String × String)) (ns : List String) (q : String),
      (∀ p ∈ ns, q ≠ wrapUnknown p) →
      matchCC db (visitNames db defs ns).2 q = matchCC db defs q
  | _, [], _, _ => rfl
  | defs, p :: r, q, h => by
    simp only [visitNames]
    rw [C03_cache_defs db hinv _ r q (fun a ha => h a (List.mem_cons_of_mem _ ha))]
    exact matchCC_dset_cache db hinv defs p q (h p List.mem_cons_self)

/-- C03 (all CDecay tables of a parse, ONE shared dictionary): every created table is the
    conjugate of its source under the original ChargeConj dictionary, whatever was conjugated
    before it -/
theorem C03_tables (db : DB)
    (hinv : ∀ n, db.conjName n ≠ wrapUnknown n → db.conjName (db.conjName n) = n) :
    ∀ (defs : List (String × String)) (srcs : List (String × List Line)),
      (∀ p ∈ srcs.flatMap (fun s => visitOrder s.1 s.2),
        ∀ q ∈ srcs.flatMap (fun s => visitOrder s.1 s.2), q ≠ wrapUnknown p) →
      conjAll db defs srcs = srcs.map (fun s =>
        (matchCC db defs s.1, s.2.map (fun ln => { ln with ds := ln.ds.map (matchCC db defs) })))
  | _, [], _ => rfl
  | defs, (src, ls) :: r, hwrap => by
    simp only [List.flatMap_cons, List.mem_append] at hwrap
    have h1 := C03_table db hinv defs src ls
      (fun p hp q hq => hwrap p (Or.inl hp) q (Or.inl hq))
    have ih := C03_tables db hinv (conjTable db defs src ls).2 r
      (fun p hp q hq => hwrap p (Or.inr hp) q (Or.inr hq))
    have hdefs : ∀ q ∈ r.flatMap (fun s => visitOrder s.1 s.2),
        matchCC db (conjTable db defs src ls).2 q = matchCC db defs q := by
      intro q hq
      simp only [conjTable]
      exact C03_cache_defs db hinv defs _ q (fun p hp => hwrap p (Or.inl hp) q (Or.inr hq))
    simp only [conjAll, List.map_cons]
    rw [h1, ih]
    congr 1
    apply List.map_congr_left
    intro s hs
    have hsrc : s.1 ∈ r.flatMap (fun s => visitOrder s.1 s.2) :=
      List.mem_flatMap.mpr ⟨s, hs, by simp [visitOrder]⟩
    rw [hdefs s.1 hsrc]
    congr 1
    apply List.map_congr_left
    intro ln hln
    congr 1
    apply List.map_congr_left
    intro d hd
    exact hdefs d (List.mem_flatMap.mpr ⟨s, hs, by
      simp only [visitOrder, List.mem_append, List.mem_flatMap]
      exact Or.inl ⟨ln, hln, hd⟩⟩)

/-- the name hypothesis `hwrap` is satisfiable on a concrete case (an alias pair and database
    names), and both sides of `C03_cache` evaluate to the expected names on a small database; the
    same example over the regenerated table, where `hinv` is a theorem, is in
    `DL/Lemmas/CCacheGen.lean` -/
example :
    let db : DB := { rows := [⟨"K+", 321, true, true⟩, ⟨"K-", -321, true, true⟩,
                              ⟨"pi+", 211, true, true⟩, ⟨"pi-", -211, true, true⟩],
                     pdg2evt := [], evt2pdg := [] }
    let defs := [("MyD+", "MyD-")]
    let ns := ["K-", "pi+", "MyD+"]
    (∀ p ∈ ns, ∀ q ∈ ns, q ≠ wrapUnknown p) ∧
    (visitNames db defs ns).1 = ["K+", "pi-", "MyD-"] ∧
    ns.map (matchCC db defs) = ["K+", "pi-", "MyD-"] := by
  decide

end DL
