/-
C05 — Define'd parameters and ModelAlias'd models mean exactly their expansion.
-/
import DL.Lemmas.Dict
namespace DL

/-- the last definition of a name wins, wherever in the file the definitions are placed -/
theorem C05_last_define (d : Doc) (k : String) : dget (dictDefinitions d) k = lastOf (definePairs d) k :=
  dget_pairsToDict _ k
theorem C05_last_model_alias (d : Doc) (k : String) :
    dget (dictModelAliasesRaw d) k = lastOf (modelAliasPairs d) k := dget_pairsToDict _ k

/-- a Define'd name in a parameter list means its value -/
theorem C05_define_use (defs : List (String × Rat)) (w : String) (q : Rat)
    (hw : w.toList.head? ≠ some '-') (hd : dget defs w = some q) :
    resolveParam defs (.word w) = .ok (.num q) := by
  unfold resolveParam
  simp [hw, hd]

/-- ... negated when written with a leading minus sign -/
theorem C05_define_minus (defs : List (String × Rat)) (w : String) (q : Rat)
    (hd : dget defs w = some q) :
    resolveParam defs (.word ("-" ++ w)) = .ok (.num (-q)) := by
  unfold resolveParam
  have h1 : ("-" ++ w).toList = '-' :: w.toList := by simp
  simp [h1, hd]

/-- hence writing the literal instead of the name gives the same parameter (whatever is defined) -/
theorem C05_define_expand (defs defs' : List (String × Rat)) (w lit : String) (q : Rat)
    (hw : w.toList.head? ≠ some '-') (hd : dget defs w = some q) (hl : numValue lit = some q) :
    resolveParam defs (.word w) = resolveParam defs' (.num lit) := by
  rw [C05_define_use defs w q hw hd]; simp [resolveParam, hl]

theorem C05_define_minus_expand (defs defs' : List (String × Rat)) (w lit : String) (q : Rat)
    (hd : dget defs w = some q) (hl : numValue lit = some (-q)) :
    resolveParam defs (.word ("-" ++ w)) = resolveParam defs' (.num lit) := by
  rw [C05_define_minus defs w q hd]; simp [resolveParam, hl]

/-- words that are not defined names stay verbatim -/
theorem C05_verbatim (defs : List (String × Rat)) (w : String)
    (h1 : dget defs w = none) (h2 : dget defs (String.ofList w.toList.tail) = none) :
    resolveParam defs (.word w) = .ok (.word w) := by
  unfold resolveParam
  simp only
  by_cases hneg : w.toList.head? = some '-'
  · simp [hneg, h2]
  · simp [hneg, h1]

/-- a ModelAlias name in model position means the model and parameters it stands for: the line is
    read exactly as if the model had been written out -/
theorem C05_alias_expand (aliases : List (String × ModelRef)) (defs : List (String × Rat)) (ln : DLine)
    (a n : String) (o : Option (List Param)) (hm : ln.model = .alias a) (ha : dget aliases a = some (.named n o)) :
    resolveLine aliases defs ln = resolveLine aliases defs { ln with model := .named n o } := by
  unfold resolveLine
  simp only [hm, resolveModel, ha]

/-- every use of a definition is expanded on its own: k lines using one alias give k equal,
    independent expansions (a line's table entry depends on that line only) -/
theorem C05_shared (aliases : List (String × ModelRef)) (defs : List (String × Rat)) (l₁ l₂ : DLine)
    (h : l₁.model = l₂.model) (hbf : l₁.bf = l₂.bf) (hds : l₁.ds = l₂.ds) (hp : l₁.photos = l₂.photos) :
    resolveLine aliases defs l₁ = resolveLine aliases defs l₂ := by
  cases l₁; cases l₂; simp_all

/-- position in the file is irrelevant: the tables depend on the Decay blocks, the Define, ModelAlias
    and CopyDecay statements, each kind in its own order -/
theorem C05_position_free (d d' : Doc) (h1 : decayBlocks d = decayBlocks d')
    (h2 : definePairs d = definePairs d') (h3 : modelAliasPairs d = modelAliasPairs d')
    (h4 : copyPairs d = copyPairs d') : tablesNoCC d = tablesNoCC d' := by
  unfold tablesNoCC tablesDecay dictDefinitions dictModelAliasesRaw dictDecays2Copy
  rw [h1, h2, h3, h4]

end DL
