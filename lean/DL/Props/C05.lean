/-
C05 — Define'd parameters and ModelAlias'd models mean exactly their expansion.
-/
import DL.Lemmas.Dict
import DL.Lemmas.Subst
namespace DL

/-- the last definition of a name wins, wherever in the file the definitions are placed -/
theorem C05_last_define (d : Doc) (k : String) : dget (dictDefinitions d) k = lastOf (definePairs d) k :=
  dget_pairsToDict _ k
theorem C05_last_model_alias (d : Doc) (k : String) :
    dget (dictModelAliasesRaw d) k = lastOf (modelAliasPairs d) k := dget_pairsToDict _ k

/-- a Define'd name in a parameter list means its value -/
theorem C05_define_use (defs : List (String × Rat)) (w : String) (q : Rat)
    (hw : w.toList.head? ≠ some '-') (hd : dget defs w = some q) :
    resolveParam defs (.word w) = .ok (.num q) := by
  unfold resolveParam
  simp [hw, hd]

/-- ... negated when written with a leading minus sign -/
theorem C05_define_minus (defs : List (String × Rat)) (w : String) (q : Rat)
    (hd : dget defs w = some q) :
    resolveParam defs (.word ("-" ++ w)) = .ok (.num (-q)) := by
  unfold resolveParam
  have h1 : ("-" ++ w).toList = '-' :: w.toList := by simp
  simp [h1, hd]

/-- hence writing the literal instead of the name gives the same parameter (whatever is defined) -/
theorem C05_define_expand (defs defs' : List (String × Rat)) (w lit : String) (q : Rat)
    (hw : w.toList.head? ≠ some '-') (hd : dget defs w = some q) (hl : numValue lit = some q) :
    resolveParam defs (.word w) = resolveParam defs' (.num lit) := by
  rw [C05_define_use defs w q hw hd]; simp [resolveParam, hl]

theorem C05_define_minus_expand (defs defs' : List (String × Rat)) (w lit : String) (q : Rat)
    (hd : dget defs w = some q) (hl : numValue lit = some (-q)) :
    resolveParam defs (.word ("-" ++ w)) = resolveParam defs' (.num lit) := by
  rw [C05_define_minus defs w q hd]; simp [resolveParam, hl]

/-- words that are not defined names stay verbatim -/
theorem C05_verbatim (defs : List (String × Rat)) (w : String)
    (h1 : dget defs w = none) (h2 : dget defs (String.ofList w.toList.tail) = none) :
    resolveParam defs (.word w) = .ok (.word w) := by
  unfold resolveParam
  simp only
  by_cases hneg : w.toList.head? = some '-'
  · simp [hneg, h2]
  · simp [hneg, h1]

/-- a ModelAlias name in model position means the model and parameters it stands for: the line is
    read exactly as if the model had been written out -/
theorem C05_alias_expand (aliases : List (String × ModelRef)) (defs : List (String × Rat)) (ln : DLine)
    (a n : String) (o : Option (List Param)) (hm : ln.model = .alias a) (ha : dget aliases a = some (.named n o)) :
    resolveLine aliases defs ln = resolveLine aliases defs { ln with model := .named n o } := by
  unfold resolveLine
  simp only [hm, resolveModel, ha]

/-- every use of a definition is expanded on its own: k lines using one alias give k equal,
    independent expansions (a line's table entry depends on that line only) -/
theorem C05_shared (aliases : List (String × ModelRef)) (defs : List (String × Rat)) (l₁ l₂ : DLine)
    (h : l₁.model = l₂.model) (hbf : l₁.bf = l₂.bf) (hds : l₁.ds = l₂.ds) (hp : l₁.photos = l₂.photos) :
    resolveLine aliases defs l₁ = resolveLine aliases defs l₂ := by
  cases l₁; cases l₂; simp_all

/-- position in the file is irrelevant: the tables depend on the Decay blocks, the Define, ModelAlias
    and CopyDecay statements, each kind in its own order -/
theorem C05_position_free (d d' : Doc) (h1 : decayBlocks d = decayBlocks d')
    (h2 : definePairs d = definePairs d') (h3 : modelAliasPairs d = modelAliasPairs d')
    (h4 : copyPairs d = copyPairs d') : tablesNoCC d = tablesNoCC d' := by
  unfold tablesNoCC tablesDecay dictDefinitions dictModelAliasesRaw dictDecays2Copy
  rw [h1, h2, h3, h4]


/-! ### whole-file form: replacing every use of a Define'd name / ModelAlias label by its text -/

/-- the textual negation of a numeral reads to the negated value -/
theorem C05_negLit (s : String) (q : Rat) (h : numValue s = some q) : numValue (negLit s) = some (-q) :=
  numValue_negLit s q h

/-- the value of a defined name is the value of the literal text of its last `Define` -/
theorem C05_define_text (d : Doc) (w : String) :
    dget (dictDefinitions d) w = (dget (defineTexts d) w).bind numValue :=
  dictDefinitions_eq_texts d w

/-- the rewriting leaves the Define and ModelAlias statements (hence the dictionaries) as they are -/
theorem C05_expand_dicts (d : Doc) :
    dictDefinitions (substDoc d) = dictDefinitions d ∧
    dictModelAliasesRaw (substDoc d) = dictModelAliasesRaw d ∧
    dictDecays2Copy (substDoc d) = dictDecays2Copy d ∧
    dictChargeConj (substDoc d) = dictChargeConj d ∧
    dictAliases (substDoc d) = dictAliases d ∧
    cdecayNames (substDoc d) = cdecayNames d :=
  ⟨dictDefinitions_substDoc d, dictModelAliasesRaw_substDoc d, dictDecays2Copy_substDoc d,
   dictChargeConj_substDoc d, by unfold dictAliases; rw [aliasPairs_substDoc], cdecayNames_substDoc d⟩

/-- MAIN: writing, in every decay line, the model and parameters an alias label stands for, and the
    literal text (negated for `-w`) a Define'd word stands for, gives the same decay tables
    (errors included).  No hypothesis on the document. -/
theorem C05_expand (d : Doc) : tablesDecay (substDoc d) = tablesDecay d := by
  have h := tables_subst_gen d (dictModelAliasesRaw d) (dictDefinitions d) (subDict_refl _) (subDict_refl _)
    (Or.inl rfl)
  unfold tablesDecay at h ⊢
  rw [dictModelAliasesRaw_substDoc, dictDefinitions_substDoc]
  exact h

theorem C05_expand_noCC (d : Doc) : tablesNoCC (substDoc d) = tablesNoCC d := by
  unfold tablesNoCC
  rw [C05_expand, dictDecays2Copy_substDoc]

theorem C05_expand_tables (db : DB) (o : Opts) (d : Doc) : tables db o (substDoc d) = tables db o d := by
  unfold tables
  rw [C05_expand_noCC]
  congr 1
  funext t
  unfold addCC ccSources ccTodo
  rw [dictChargeConj_substDoc, cdecayNames_substDoc]

/-- the rewritten lines no longer use the definitions: no line of `substDoc d` has an alias label
    that stands for a written-out model, nor a parameter word `w` / `-w` with `w` Define'd -/
theorem C05_no_uses (d : Doc) (b : String × List DLine) (hb : b ∈ decayBlocks (substDoc d))
    (ln : DLine) (hl : ln ∈ b.2) :
    (∀ l, ln.model = .alias l → ∀ n o, dget (dictModelAliasesRaw (substDoc d)) l ≠ some (.named n o)) ∧
    (∀ n ps, ln.model = .named n (some ps) → ∀ w, Param.word w ∈ ps →
      dget (dictDefinitions (substDoc d)) (wordName w) = none) := by
  rw [dictModelAliasesRaw_substDoc, dictDefinitions_substDoc, ← lineUses_false_iff]
  obtain ⟨b0, _, _, ln0, _, rfl⟩ := mem_lines_substDoc d b hb ln hl
  exact lineUses_substLine _ _ _ (textsOf_doc d) ln0

/-- the same as a Boolean check -/
theorem C05_no_uses_bool (d : Doc) :
    ((decayBlocks (substDoc d)).all fun b => b.2.all fun ln =>
      !lineUses (dictModelAliasesRaw (substDoc d)) (dictDefinitions (substDoc d)) ln) = true := by
  simp only [List.all_eq_true, Bool.not_eq_true']
  intro b hb ln hl
  rw [lineUses_false_iff]
  exact C05_no_uses d b hb ln hl

/-- when every alias label used is defined by a written-out model, every rewritten line has a
    written-out model -/
theorem C05_all_named (d : Doc) (h : allAliasesNamed d = true) (b : String × List DLine)
    (hb : b ∈ decayBlocks (substDoc d)) (ln : DLine) (hl : ln ∈ b.2) : ∃ n o, ln.model = .named n o := by
  obtain ⟨b0, hb0, _, ln0, h0, rfl⟩ := mem_lines_substDoc d b hb ln hl
  unfold allAliasesNamed at h
  simp only [List.all_eq_true] at h
  exact substLine_named_of_aliasNamed _ _ ln0 (h b0 hb0 ln0 h0)

/-- stronger form: the rewritten lines read with EMPTY dictionaries give the tables of `d`, provided
    no line that is read uses an alias of an alias (`usedAliasesOK`, decidable); undefined aliases are
    allowed: both sides are then the same error -/
theorem C05_expand_standalone (d : Doc) (h : usedAliasesOK d = true) :
    (dedupLoop (decayBlocks (substDoc d))).mapM (resolveBlock [] []) = tablesDecay d := by
  apply tables_subst_gen d [] [] (subDict_nil _) (subDict_nil _)
  right
  unfold usedAliasesOK at h
  simp only [List.all_eq_true] at h
  exact h

/-- ... hence the Define and ModelAlias statements can be deleted after the rewriting -/
theorem C05_expand_dropDefs (d : Doc) (h : usedAliasesOK d = true) :
    tablesDecay (dropDefs (substDoc d)) = tablesDecay d := by
  rw [← C05_expand_standalone d h]
  unfold tablesDecay
  rw [decayBlocks_dropDefs, dictDefinitions_dropDefs, dictModelAliasesRaw_dropDefs]

theorem C05_expand_dropDefs_noCC (d : Doc) (h : usedAliasesOK d = true) :
    tablesNoCC (dropDefs (substDoc d)) = tablesNoCC d := by
  unfold tablesNoCC
  rw [C05_expand_dropDefs d h]
  unfold dictDecays2Copy
  rw [copyPairs_dropDefs, copyPairs_substDoc]

/-- the hypothesis in the form "every alias label used in a decay line is defined by a ModelAlias
    with a written-out model" is sufficient -/
theorem C05_expand_dropDefs_of_allNamed (d : Doc) (h : allAliasesNamed d = true) :
    tablesDecay (dropDefs (substDoc d)) = tablesDecay d :=
  C05_expand_dropDefs d (usedAliasesOK_of_allNamed d h)

/-- more generally, any sub-dictionaries will do for the rewritten lines -/
theorem C05_expand_subdict (d : Doc) (aliases' : List (String × ModelRef)) (defs' : List (String × Rat))
    (hs : SubDict defs' (dictDefinitions d)) (hsa : SubDict aliases' (dictModelAliasesRaw d))
    (h : usedAliasesOK d = true) :
    (dedupLoop (decayBlocks (substDoc d))).mapM (resolveBlock aliases' defs') = tablesDecay d := by
  apply tables_subst_gen d aliases' defs' hs hsa
  right
  unfold usedAliasesOK at h
  simp only [List.all_eq_true] at h
  exact h

/-! a concrete document: `x` defined twice (last wins), used as `x` and `-x`; a ModelAlias with a
    Define'd parameter used in two lines; an undefined word `y` stays -/
def c05Doc : Doc :=
  [ .define "x" "0.5",
    .define "x" "+1.5e1",
    .define "z" "-2",
    .modelAlias "MA" (.named "SVS" (some [.word "x", .num "3", .word "-z"])),
    .decay "B0" [
      { bf := "0.6", ds := ["K+", "pi-"], photos := false, model := .alias "MA" },
      { bf := "0.3", ds := ["pi+", "pi-"], photos := true, model := .alias "MA" },
      { bf := "0.1", ds := ["D-", "pi+"], photos := false,
        model := .named "HELAMP" (some [.word "x", .word "-x", .word "y", .num "1.0"]) } ],
    .copyDecay "B0bar" "B0" ]

example : usedAliasesOK c05Doc = true := by decide
example : allAliasesNamed c05Doc = true := by decide
example : substDoc c05Doc =
  [ .define "x" "0.5",
    .define "x" "+1.5e1",
    .define "z" "-2",
    .modelAlias "MA" (.named "SVS" (some [.word "x", .num "3", .word "-z"])),
    .decay "B0" [
      { bf := "0.6", ds := ["K+", "pi-"], photos := false,
        model := .named "SVS" (some [.num "+1.5e1", .num "3", .num "2"]) },
      { bf := "0.3", ds := ["pi+", "pi-"], photos := true,
        model := .named "SVS" (some [.num "+1.5e1", .num "3", .num "2"]) },
      { bf := "0.1", ds := ["D-", "pi+"], photos := false,
        model := .named "HELAMP" (some [.num "+1.5e1", .num "-1.5e1", .word "y", .num "1.0"]) } ],
    .copyDecay "B0bar" "B0" ] := by decide
/-- and the example is read without error (so the equalities above are between proper tables) -/
example : (tablesDecay c05Doc).isOk = true := by decide

end DL
