/-
C07 — global declarations are reported completely, later declarations winning.
The queries are those of DL/Model/DecSem.lean (they follow the `get_*` functions of dec.py).
-/
import DL.Lemmas.Dict
namespace DL

/-- Alias, ChargeConj, CopyDecay, Define: for every name the query reports the value of its last
    declaration, and nothing for names never declared -/
theorem C07_aliases (d : Doc) (k : String) : dget (dictAliases d) k = lastOf (aliasPairs d) k :=
  dget_pairsToDict _ k
theorem C07_charge_conjugates (d : Doc) (k : String) : dget (dictChargeConj d) k = lastOf (chargeConjPairs d) k :=
  dget_pairsToDict _ k
theorem C07_decays2copy (d : Doc) (k : String) : dget (dictDecays2Copy d) k = lastOf (copyPairs d) k :=
  dget_pairsToDict _ k
theorem C07_definitions (d : Doc) (k : String) : dget (dictDefinitions d) k = lastOf (definePairs d) k :=
  dget_pairsToDict _ k
theorem C07_model_aliases (d : Doc) (k : String) :
    dget (dictModelAliasesRaw d) k = lastOf (modelAliasPairs d) k := dget_pairsToDict _ k

/-- every statement is accounted for: a declared name is present in the query -/
theorem C07_alias_complete (d : Doc) (a b : String) (h : Stmt.alias a b ∈ d) :
    (dget (dictAliases d) a).isSome = true := by
  rw [C07_aliases]
  cases hl : lastOf (aliasPairs d) a with
  | some v => rfl
  | none =>
    rw [lastOf_none_iff] at hl
    exfalso; apply hl
    simp only [aliasPairs, List.mem_map, List.mem_filterMap]
    exact ⟨(a, b), ⟨.alias a b, h, rfl⟩, rfl⟩

/-- the global PHOTOS flag is the last one given, and off when absent -/
theorem C07_photos_absent (d : Doc) (h : ∀ y, Stmt.globalPhotos y ∉ d) : globalPhotos d = false := by
  unfold globalPhotos
  have : d.filterMap photosOf = [] := by
    rw [List.filterMap_eq_nil_iff]
    intro s hs
    cases s <;> simp [photosOf]
    exact h _ hs
  rw [this]; rfl

theorem C07_photos_last (d₁ d₂ : Doc) (y : Bool) (h : ∀ z, Stmt.globalPhotos z ∉ d₂) :
    globalPhotos (d₁ ++ [.globalPhotos y] ++ d₂) = y := by
  unfold globalPhotos
  have : d₂.filterMap photosOf = [] := by
    rw [List.filterMap_eq_nil_iff]
    intro s hs
    cases s <;> simp [photosOf]
    exact h _ hs
  rw [List.filterMap_append, List.filterMap_append, this]
  simp [photosOf]

/-- CDecay names are reported all, sorted -/
theorem C07_cdecays (d : Doc) :
    (cdecayNames d).Perm (d.filterMap stCDecay) ∧
    List.Pairwise (fun a b => a ≤ b) (cdecayNames d) := by
  constructor
  · exact List.mergeSort_perm _ _
  · have := List.pairwise_mergeSort (le := sleb)
      (fun a b c => by simp only [sleb, decide_eq_true_eq]; exact String.le_trans)
      (fun a b => by simp only [sleb, Bool.or_eq_true, decide_eq_true_eq]; exact String.le_total a b)
      (d.filterMap stCDecay)
    simpa [sleb, cdecayNames, ssort] using this

/-- SetLineshapePW statements are reported all, in order, with repeats -/
theorem C07_lineshape_pw (d₁ d₂ : Doc) (a b c v : String) :
    lineshapePW (d₁ ++ [.setLsPW a b c v] ++ d₂) =
      lineshapePW d₁ ++ [([a, b, c], digitsVal v.toList)] ++ lineshapePW d₂ := by
  simp [lineshapePW, List.filterMap_append, stLsPW]

/-- a repeated lineshape setting is reported as an error, never overwritten -/
theorem C07_lineshape_repeat (acc : List (String × List (String × LVal))) (p key : String) (v : LVal)
    (cur : List (String × LVal)) (h : dget acc p = some cur) (hk : dhas cur key = true) :
    ∃ e, lsAdd acc p key v false = .error e := by
  simp [lsAdd, h, hk]

theorem C07_lsdef_repeat (acc : List (String × List (String × LVal))) (p key : String) (v : LVal)
    (cur : List (String × LVal)) (h : dget acc p = some cur) :
    ∃ e, lsAdd acc p key v true = .error e := by
  simp [lsAdd, h]

/-- a setting that is new for its particle is stored, and the particle's other settings are kept -/
theorem C07_lineshape_new (acc : List (String × List (String × LVal))) (p key : String) (v : LVal)
    (cur : List (String × LVal)) (h : dget acc p = some cur) (hk : dhas cur key = false) :
    lsAdd acc p key v false = .ok (dset acc p (dset cur key v)) := by
  simp [lsAdd, h, hk]

/-- position relative to Decay blocks is irrelevant: every global query is a function of the
    statements that are not Decay blocks, in their own order -/
def globalsOf (d : Doc) : Doc := d.filter fun | .decay _ _ => false | _ => true

theorem filterMap_globalsOf {β : Type} (f : Stmt → Option β) (hf : ∀ m ls, f (.decay m ls) = none) (d : Doc) :
    (globalsOf d).filterMap f = d.filterMap f := by
  induction d with
  | nil => rfl
  | cons s r ih =>
    cases s <;> simp_all [globalsOf, List.filterMap_cons, List.filter_cons]

theorem C07_position_free (d d' : Doc) (h : globalsOf d = globalsOf d') :
    dictAliases d = dictAliases d' ∧ dictChargeConj d = dictChargeConj d' ∧
    dictDecays2Copy d = dictDecays2Copy d' ∧ dictDefinitions d = dictDefinitions d' ∧
    cdecayNames d = cdecayNames d' ∧ globalPhotos d = globalPhotos d' ∧ lineshapePW d = lineshapePW d' := by
  have key : ∀ {β : Type} (f : Stmt → Option β), (∀ m ls, f (.decay m ls) = none) → d.filterMap f = d'.filterMap f := by
    intro β f hf
    rw [← filterMap_globalsOf f hf d, ← filterMap_globalsOf f hf d', h]
  refine ⟨?_, ?_, ?_, ?_, ?_, ?_, ?_⟩
  · simp only [dictAliases, aliasPairs]; rw [key _ (fun _ _ => rfl)]
  · simp only [dictChargeConj, chargeConjPairs]; rw [key _ (fun _ _ => rfl)]
  · simp only [dictDecays2Copy, copyPairs]; rw [key _ (fun _ _ => rfl)]
  · simp only [dictDefinitions, definePairs]; rw [key _ (fun _ _ => rfl)]
  · simp only [cdecayNames]; rw [key _ (fun _ _ => rfl)]
  · simp only [globalPhotos]; rw [key _ (fun _ _ => rfl)]
  · simp only [lineshapePW]; rw [key _ (fun _ _ => rfl)]

/-- a Particle statement with a width reports it -/
theorem C07_width_given (refWidth : String → Option Rat) (aliases : List (String × String))
    (acc : List (String × Rat × Rat)) (n m wt : String) (mass width : Rat)
    (hm : numValue m = some mass) (hw : numValue wt = some width) :
    particleStep refWidth aliases acc n m (some wt) = .ok (dset acc n (mass, width)) := by
  simp [particleStep, hm, hw]

/-- without a width it reports the reference width of the (aliased) particle, converted MeV -> GeV -/
theorem C07_width_default (refWidth : String → Option Rat) (aliases : List (String × String))
    (acc : List (String × Rat × Rat)) (n m : String) (mass wd : Rat)
    (hm : numValue m = some mass) (hr : refWidth ((dget aliases n).getD n) = some wd) :
    particleStep refWidth aliases acc n m none = .ok (dset acc n (mass, wd / 1000)) := by
  simp [particleStep, hm, hr]

/-- ... and an unknown name is an error of the query -/
theorem C07_width_unknown (refWidth : String → Option Rat) (aliases : List (String × String))
    (acc : List (String × Rat × Rat)) (n m : String) (mass : Rat)
    (hm : numValue m = some mass) (hr : refWidth ((dget aliases n).getD n) = none) :
    ∃ e, particleStep refWidth aliases acc n m none = .error e := by
  simp [particleStep, hm, hr]

/-- numbers are reported as numbers: a JetSet value written as an integer stays an integer, any other
    numeral is a float; a Pythia value is numeric when it is written as a numeral, a word stays a word -/
theorem C07_jetset_int (s : String) (n : Int) (h : intValue s = some n) : intOrFloat s = .int n := by
  simp [intOrFloat, h]
theorem C07_jetset_float (s : String) (q : Rat) (h1 : intValue s = none) (h2 : numValue s = some q) :
    intOrFloat s = .num q := by simp [intOrFloat, h1, h2]
theorem C07_pythia_num (l : String) (q : Rat) (h : numValue l = some q) : strOrFloat (.num l) = .num q := by
  simp [strOrFloat, h]
theorem C07_pythia_word (w : String) (h : floatWord w = none) : strOrFloat (.word w) = .word w := by
  simp [strOrFloat, h]

/-- non-vacuity -/
def exDoc : Doc := [.alias "MyD" "D+", .decay "A" [], .alias "MyD" "D-", .globalPhotos true, .cdecay "b", .cdecay "a", .globalPhotos false]
example : dget (dictAliases exDoc) "MyD" = some "D-" := by decide
example : globalPhotos exDoc = false := by decide

end DL
