/-
C04 — charge conjugation is a PDG-consistent involution at every layer.
The particle tables (`DL/Gen/Particles.lean`) are regenerated from the installed `particle` package
on every run.  The facts about the whole table are decided by the kernel at the level of PDG IDs
(fast), and lifted to names by lemmas that need the names and the IDs of the table to be unique
(also decided by the kernel: names sorted strictly, IDs pairwise different).
-/
import DL.Model.Conj
import DL.Gen.Particles
import DL.Lemmas.DDConj
namespace DL

/-- the row of the conjugate, computed on IDs only (routes 1 and 2 of `charge_conjugate_name`) -/
def DB.conjRow (db : DB) (r : PRow) : Option PRow :=
  let r1 : Option PRow :=
    if r.inTable then
      if r.invNeg then
        match db.rowOfId (-r.id) with
        | some r' => if r'.inTable then some r' else none
        | none => none
      else some r
    else none
  match r1 with
  | some x => some x
  | none => db.rowOfId (-r.id)

def NamesSorted (db : DB) : Prop := List.Pairwise (fun a b : PRow => a.name < b.name) db.rows

theorem find_name_of_mem (rows : List PRow) (hs : List.Pairwise (fun a b : PRow => a.name < b.name) rows)
    (r : PRow) (hr : r ∈ rows) : rows.find? (·.name == r.name) = some r := by
  induction rows with
  | nil => cases hr
  | cons x xs ih =>
    rcases List.mem_cons.mp hr with h | h
    · subst h; simp
    · have hlt := (List.pairwise_cons.mp hs).1 r h
      have hne : (x.name == r.name) = false := by
        simp only [beq_eq_false_iff_ne, ne_eq]
        intro e; rw [e] at hlt; exact absurd hlt (String.lt_irrefl _)
      simp only [List.find?_cons, hne]
      exact ih (List.pairwise_cons.mp hs).2 h

theorem rowOfName_of_mem (db : DB) (hs : NamesSorted db) (r : PRow) (hr : r ∈ db.rows) :
    db.rowOfName r.name = some r := find_name_of_mem db.rows hs r hr

theorem rowOfId_mem (db : DB) (i : Int) (r : PRow) (h : db.rowOfId i = some r) : r ∈ db.rows ∧ r.id = i := by
  unfold DB.rowOfId at h
  exact ⟨List.mem_of_find?_eq_some h, by simpa using List.find?_some h⟩

theorem conjRow_mem (db : DB) (r r' : PRow) (hr : r ∈ db.rows) (h : db.conjRow r = some r') : r' ∈ db.rows := by
  unfold DB.conjRow at h
  simp only at h
  split at h
  · rename_i x hx
    simp only [Option.some.injEq] at h; subst h
    split at hx
    · split at hx
      · split at hx
        · rename_i r'' hr''
          split at hx
          · simp only [Option.some.injEq] at hx; subst hx; exact (rowOfId_mem db _ _ hr'').1
          · cases hx
        · cases hx
      · simp only [Option.some.injEq] at hx; subst hx; exact hr
    · cases hx
  · exact (rowOfId_mem db _ _ h).1

/-- on a table with unique names and IDs, `charge_conjugate_name` of a table name is the name of the
    ID-level conjugate row, or the name wrapped as unknown -/
theorem conjName_eq (db : DB) (hs : NamesSorted db) (r : PRow) (hr : r ∈ db.rows) :
    db.conjName r.name = match db.conjRow r with
      | some r' => r'.name
      | none => wrapUnknown r.name := by
  unfold DB.conjName
  rw [rowOfName_of_mem db hs r hr]
  simp only [DB.route1, DB.route2, DB.conjRow]
  by_cases ht : r.inTable = true
  · by_cases hi : r.invNeg = true
    · simp only [ht, hi, if_true]
      cases h1 : db.rowOfId (-r.id) with
      | none => simp
      | some r' =>
        by_cases ht' : r'.inTable = true
        · simp [ht']
        · simp [ht']
    · simp only [ht, hi, if_true, if_false, Bool.false_eq_true]
  · simp only [ht, if_false, Bool.false_eq_true]
    cases h1 : db.rowOfId (-r.id) <;> simp

/-- the check of one row: the conjugate carries the negated ID (or the same ID), and its own
    conjugate is the original row -/
def rowOK (db : DB) (r : PRow) : Bool :=
  match db.conjRow r with
  | none => true
  | some r' => (r'.id == -r.id || r'.id == r.id) &&
    (match db.conjRow r' with
     | some r'' => r''.name == r.name
     | none => false)

def sortedAdj : List PRow → Bool
  | [] => true
  | [_] => true
  | a :: b :: r => decide (a.name < b.name) && sortedAdj (b :: r)

theorem pairwise_of_sortedAdj : ∀ (l : List PRow), sortedAdj l = true →
    List.Pairwise (fun a b : PRow => a.name < b.name) l
  | [], _ => List.Pairwise.nil
  | [_], _ => by simp
  | a :: b :: r, h => by
    simp only [sortedAdj, Bool.and_eq_true, decide_eq_true_eq] at h
    have ih := pairwise_of_sortedAdj (b :: r) h.2
    rw [List.pairwise_cons]
    refine ⟨?_, ih⟩
    intro x hx
    rcases List.mem_cons.mp hx with rfl | hx
    · exact h.1
    · exact String.lt_trans h.1 ((List.pairwise_cons.mp ih).1 x hx)

/-! ### decided by the kernel over the regenerated table -/

set_option maxRecDepth 100000 in
theorem table_rows_ok : Gen.db.rows.all (rowOK Gen.db) = true := by
  decide +kernel

set_option maxRecDepth 100000 in
theorem table_sorted_adj : sortedAdj Gen.db.rows = true := by
  decide +kernel

theorem table_names_sorted : NamesSorted Gen.db := pairwise_of_sortedAdj _ table_sorted_adj

/-! ### the property, for every name of the table -/

/-- C04 (EvtGen names): for every name of the table with a known antiparticle, conjugation returns
    the name whose PDG ID is the negated one (the same ID only for a self-conjugate particle), and
    conjugating twice returns the original -/
theorem C04_table (r : PRow) (hr : r ∈ Gen.db.rows) :
    (∀ r', Gen.db.conjRow r = some r' →
      Gen.db.conjName r.name = r'.name ∧ r' ∈ Gen.db.rows ∧ (r'.id = -r.id ∨ r'.id = r.id) ∧
      Gen.db.conjName (Gen.db.conjName r.name) = r.name) ∧
    (Gen.db.conjRow r = none → Gen.db.conjName r.name = wrapUnknown r.name) := by
  have hs := table_names_sorted
  have hok : rowOK Gen.db r = true := (List.all_eq_true.mp table_rows_ok) r hr
  have hname := conjName_eq Gen.db hs r hr
  constructor
  · intro r' hc
    have hr' : r' ∈ Gen.db.rows := conjRow_mem Gen.db r r' hr hc
    rw [hc] at hname
    simp only at hname
    unfold rowOK at hok
    rw [hc] at hok
    simp only [Bool.and_eq_true, Bool.or_eq_true, beq_iff_eq] at hok
    refine ⟨hname, hr', hok.1, ?_⟩
    rw [hname]
    have hname' := conjName_eq Gen.db hs r' hr'
    cases hc' : Gen.db.conjRow r' with
    | none => rw [hc'] at hok; simp at hok
    | some r'' =>
      rw [hc'] at hok hname'
      simp only [beq_iff_eq] at hok
      rw [hname']; exact hok.2
  · intro hc
    rw [hc] at hname
    exact hname

/-- self-conjugate particles of the particle table conjugate to themselves (general) -/
theorem C04_selfconj (db : DB) (n : String) (r : PRow) (h : db.rowOfName n = some r)
    (ht : r.inTable = true) (hs : r.invNeg = false) : db.conjName n = r.name := by
  simp [DB.conjName, h, DB.route1, ht, hs]

/-- names without known conjugate are returned wrapped as unknown, never altered (general) -/
theorem C04_unknown (db : DB) (n : String) (h : db.rowOfName n = none) :
    db.conjName n = "ChargeConj(" ++ n ++ ")" := by
  simp [DB.conjName, h, wrapUnknown]

theorem C04_unknown_pdg (db : DB) (n : String) (h : dget db.pdg2evt n = none) :
    db.conjPdg n = "ChargeConj(" ++ n ++ ")" := by
  simp [DB.conjPdg, h, wrapUnknown]

end DL

/-! ### final states and decay modes -/
namespace DL

/-- C04 (final states): when no two particles of the final state share a conjugate,
    `DaughtersDict.charge_conjugate` conjugates every particle and keeps its multiplicity -/
theorem C04_daughters (conj : String → String) (ds : List String)
    (hinj : ∀ a ∈ ds, ∀ b ∈ ds, conj a = conj b → a = b) :
    ddConj conj ds = ssort (ds.map conj) := ddConj_eq conj ds hinj

/-- the number of particles is kept -/
theorem C04_daughters_length (conj : String → String) (ds : List String)
    (hinj : ∀ a ∈ ds, ∀ b ∈ ds, conj a = conj b → a = b) :
    (ddConj conj ds).length = ds.length := by
  rw [C04_daughters conj ds hinj, ssort_length, List.length_map]

/-- every multiplicity is kept -/
theorem C04_daughters_count (conj : String → String) (ds : List String)
    (hinj : ∀ a ∈ ds, ∀ b ∈ ds, conj a = conj b → a = b) (p : String) (hp : p ∈ ds) :
    (ddConj conj ds).count (conj p) = ds.count p := by
  rw [C04_daughters conj ds hinj, ssort_count, count_map_of_injOn conj ds hinj p hp]

/-- C04 (decay modes): `DecayMode.charge_conjugate` keeps the branching fraction and all metadata,
    and conjugates the daughters -/
theorem C04_mode (conj : String → String) (m : Mode) (h : WFMode m) :
    (modeConj conj m).bf = m.bf ∧ (modeConj conj m).mdat = m.mdat ∧
    (modeConj conj m).ds = ddConj conj m.ds := modeConj_spec conj m h

/-- C04 (agreement of the layers): the conjugated final state is what the `.dec` visitor
    (`find_charge_conjugate_match`, no `ChargeConj` statements) produces for the same daughters -/
theorem C04_agree (db : DB) (ds : List String)
    (hinj : ∀ a ∈ ds, ∀ b ∈ ds, db.conjName a = db.conjName b → a = b) :
    ddConj db.conjName ds = ssort (ds.map (matchCC db [])) := by
  have e : ds.map (matchCC db []) = ds.map db.conjName :=
    List.map_congr_left (fun p _ => matchCC_nil db p)
  rw [e]
  exact C04_daughters db.conjName ds hinj

/-- non-vacuity: a conjugation swapping `K+` and `K-` and fixing everything else -/
def swapKK (p : String) : String := if p = "K+" then "K-" else if p = "K-" then "K+" else p

example : ∀ a ∈ ["K+", "K+", "pi0"], ∀ b ∈ ["K+", "K+", "pi0"], swapKK a = swapKK b → a = b := by
  decide

example : ddConj swapKK ["K+", "K+", "pi0"] = ["K-", "K-", "pi0"] := by
  rw [C04_daughters swapKK _ (by decide)]
  show ssort ["K-", "K-", "pi0"] = _
  exact List.mergeSort_of_pairwise (by decide)

example : (ddConj swapKK ["K+", "K+", "pi0"]).count (swapKK "K+") = 2 :=
  C04_daughters_count swapKK _ (by decide) "K+" (by decide)

end DL
