/-
C09 — decay chains are the faithful recursive unfolding of the decay tables.
`buildChains` follows `DecFileParser.build_decay_chains`; `isUnfold` is the specification, a
structural recursion over the *result*: one entry per decay line of the mother, in order, with that
line's branching fraction, model and parameters; every daughter either as its bare name (when it is
in S or has no table) or as the chain of that daughter with the same S.
-/
import DL.Model.DecSem
namespace DL

def hasTable (t : Tables) (p : String) : Bool := (t.find? (·.1 == p)).isSome

mutual
  def isUnfold (t : Tables) (S : List String) : Chain LInfo → Bool
    | .mk m modes => match t.find? (·.1 == m) with
      | none => false
      | some (_, ls) => unfoldModes t S ls modes
  def unfoldModes (t : Tables) (S : List String) : List Line → List (CMode LInfo) → Bool
    | [], [] => true
    | ln :: lr, (i, fs) :: mr => decide (i = infoOf ln) && unfoldFs t S ln.ds fs && unfoldModes t S lr mr
    | _, _ => false
  def unfoldFs (t : Tables) (S : List String) : List String → List (Item LInfo) → Bool
    | [], [] => true
    | p :: pr, .inl q :: fr => decide (p = q) && (S.contains p || !hasTable t p) && unfoldFs t S pr fr
    | p :: pr, .inr c :: fr => decide (c.mother = p) && !S.contains p && hasTable t p && isUnfold t S c && unfoldFs t S pr fr
    | _, _ => false
end

/-- what the recursive call is known to satisfy (the induction hypothesis on the fuel) -/
structure RecOK (t : Tables) (S : List String) (rec : String → Except SemErr (Chain LInfo)) : Prop where
  ok : ∀ p c, rec p = .ok c → isUnfold t S c = true ∧ c.mother = p
  nf : ∀ p x, rec p = .error (.decayNotFound x) → hasTable t p = false
  tb : ∀ p c, rec p = .ok c → hasTable t p = true

theorem buildItems_spec (t : Tables) (S : List String) (rec : String → Except SemErr (Chain LInfo))
    (h : RecOK t S rec) : ∀ ds fs, buildItems rec S ds = .ok fs → unfoldFs t S ds fs = true
  | [], fs, hb => by
    simp only [buildItems, Except.ok.injEq] at hb; subst hb; simp [unfoldFs]
  | p :: r, fs, hb => by
    simp only [buildItems] at hb
    split at hb
    · rename_i hS
      cases hr : buildItems rec S r with
      | error e => simp [hr, Except.map] at hb
      | ok fr =>
        simp only [hr, Except.map, Except.ok.injEq] at hb; subst hb
        have hmem : p ∈ S := by simpa using hS
        simp [unfoldFs, hmem, buildItems_spec t S rec h r fr hr]
    · rename_i hS
      split at hb
      · rename_i c hc
        cases hr : buildItems rec S r with
        | error e => simp [hr, Except.map] at hb
        | ok fr =>
          simp only [hr, Except.map, Except.ok.injEq] at hb; subst hb
          obtain ⟨hu, hm⟩ := h.ok p c hc
          have hS' : ¬ p ∈ S := by simpa using hS
          simp [unfoldFs, hS', hu, hm, h.tb p c hc, buildItems_spec t S rec h r fr hr]
      · rename_i x hc
        cases hr : buildItems rec S r with
        | error e => simp [hr, Except.map] at hb
        | ok fr =>
          simp only [hr, Except.map, Except.ok.injEq] at hb; subst hb
          simp [unfoldFs, h.nf p x hc, buildItems_spec t S rec h r fr hr]
      · simp at hb

theorem buildLines_spec (t : Tables) (S : List String) (rec : String → Except SemErr (Chain LInfo))
    (h : RecOK t S rec) : ∀ ls ms, buildLines rec S ls = .ok ms → unfoldModes t S ls ms = true
  | [], ms, hb => by
    simp only [buildLines, Except.ok.injEq] at hb; subst hb; simp [unfoldModes]
  | ln :: r, ms, hb => by
    simp only [buildLines] at hb
    split at hb
    · simp at hb
    · rename_i fs hfs
      cases hr : buildLines rec S r with
      | error e => simp [hr, Except.map] at hb
      | ok mr =>
        simp only [hr, Except.map, Except.ok.injEq] at hb; subst hb
        simp [unfoldModes, buildItems_spec t S rec h ln.ds fs hfs, buildLines_spec t S rec h r mr hr]

/-- errors other than `DecayNotFound` are the only ones the loops pass on -/
theorem buildItems_not_nf (S : List String) (rec : String → Except SemErr (Chain LInfo)) :
    ∀ ds x, buildItems rec S ds ≠ .error (.decayNotFound x)
  | [], x => by simp [buildItems]
  | p :: r, x => by
    have ih := buildItems_not_nf S rec r x
    simp only [buildItems]
    split
    · cases hr : buildItems rec S r <;> simp_all [Except.map]
    · split
      · cases hr : buildItems rec S r <;> simp_all [Except.map]
      · cases hr : buildItems rec S r <;> simp_all [Except.map]
      · rename_i e hne _
        intro he
        simp only [Except.error.injEq] at he
        subst he
        exact hne x rfl

theorem buildLines_not_nf (S : List String) (rec : String → Except SemErr (Chain LInfo)) :
    ∀ ls x, buildLines rec S ls ≠ .error (.decayNotFound x)
  | [], x => by simp [buildLines]
  | ln :: r, x => by
    have ih := buildLines_not_nf S rec r x
    simp only [buildLines]
    split
    · rename_i e he
      intro h
      simp only [Except.error.injEq] at h
      subst h
      exact buildItems_not_nf S rec ln.ds x he
    · cases hr : buildLines rec S r <;> simp_all [Except.map]

theorem buildChains_recOK (t : Tables) (S : List String) :
    ∀ f, RecOK t S (fun p => buildChains t S f p)
  | 0 => by
    constructor
    · intro p c h; simp only [buildChains] at h; split at h <;> simp at h
    · intro p x h
      simp only [buildChains] at h
      split at h
      · rename_i hn; simpa [hasTable] using hn
      · simp at h
    · intro p c h; simp only [buildChains] at h; split at h <;> simp at h
  | f + 1 => by
    have ih := buildChains_recOK t S f
    constructor
    · intro p c h
      simp only [buildChains] at h
      split at h
      · simp at h
      · rename_i m' ls hfind
        cases hb : buildLines (fun p => buildChains t S f p) S ls with
        | error e => simp [hb, Except.map] at h
        | ok ms =>
          simp only [hb, Except.map, Except.ok.injEq] at h; subst h
          exact ⟨by simp [isUnfold, hfind, buildLines_spec t S _ ih ls ms hb], rfl⟩
    · intro p x h
      simp only [buildChains] at h
      split at h
      · rename_i hn; simp [hasTable, hn]
      · rename_i m' ls hfind
        cases hb : buildLines (fun p => buildChains t S f p) S ls with
        | error e =>
          simp only [hb, Except.map, Except.error.injEq] at h
          subst h
          exact absurd hb (buildLines_not_nf S _ ls x)
        | ok ms => simp [hb, Except.map] at h
    · intro p c h
      simp only [buildChains] at h
      split at h
      · simp at h
      · rename_i m' ls hfind; simp [hasTable, hfind]

/-- C09 (unfolding): whatever `build_decay_chains` returns for M and S is the recursive unfolding
    of the tables: one entry per decay line of M in order with its branching fraction, model and
    parameters; each daughter bare when in S or without table, else the chain of that daughter
    with the same S -/
theorem C09_spec (t : Tables) (S : List String) (f : Nat) (m : String) (c : Chain LInfo)
    (h : buildChains t S f m = .ok c) : isUnfold t S c = true ∧ c.mother = m :=
  (buildChains_recOK t S f).ok m c h

/-- asking for a particle without a table raises the documented not-found error -/
theorem C09_notfound (t : Tables) (S : List String) (f : Nat) (m : String)
    (h : hasTable t m = false) : buildChains t S f m = .error (.decayNotFound m) := by
  have hn : t.find? (·.1 == m) = none := by simpa [hasTable] using h
  cases f <;> simp [buildChains, hn]

/-- a particle with a table never yields the not-found error -/
theorem C09_found (t : Tables) (S : List String) (f : Nat) (m x : String)
    (h : hasTable t m = true) : buildChains t S f m ≠ .error (.decayNotFound x) := by
  intro he
  have := (buildChains_recOK t S f).nf m x he
  rw [h] at this; cases this

mutual
  /-- the unfolding is unique: the tables, M and S determine the chain -/
  theorem isUnfold_unique (t : Tables) (S : List String) :
      ∀ c c' : Chain LInfo, isUnfold t S c = true → isUnfold t S c' = true → c.mother = c'.mother → c = c'
    | .mk m modes, .mk m' modes', h, h', hm => by
      simp only [Chain.mother] at hm; subst hm
      simp only [isUnfold] at h h'
      split at h
      · simp at h
      · rename_i _ ls hfind
        simp only [hfind] at h'
        rw [unfoldModes_unique t S ls modes modes' h h']
  theorem unfoldModes_unique (t : Tables) (S : List String) :
      ∀ ls (ms ms' : List (CMode LInfo)), unfoldModes t S ls ms = true → unfoldModes t S ls ms' = true → ms = ms'
    | [], [], [], _, _ => rfl
    | [], [], _ :: _, _, h' => by simp [unfoldModes] at h'
    | [], _ :: _, _, h, _ => by simp [unfoldModes] at h
    | _ :: _, [], _, h, _ => by simp [unfoldModes] at h
    | _ :: _, _ :: _, [], _, h' => by simp [unfoldModes] at h'
    | ln :: lr, (i, fs) :: mr, (i', fs') :: mr', h, h' => by
      simp only [unfoldModes, Bool.and_eq_true, decide_eq_true_eq] at h h'
      obtain ⟨⟨hi, hf⟩, hr⟩ := h
      obtain ⟨⟨hi', hf'⟩, hr'⟩ := h'
      rw [hi, hi', unfoldFs_unique t S ln.ds fs fs' hf hf', unfoldModes_unique t S lr mr mr' hr hr']
  theorem unfoldFs_unique (t : Tables) (S : List String) :
      ∀ ds (fs fs' : List (Item LInfo)), unfoldFs t S ds fs = true → unfoldFs t S ds fs' = true → fs = fs'
    | [], [], [], _, _ => rfl
    | [], [], _ :: _, _, h' => by simp [unfoldFs] at h'
    | [], _ :: _, _, h, _ => by simp [unfoldFs] at h
    | _ :: _, [], _, h, _ => by simp [unfoldFs] at h
    | _ :: _, _ :: _, [], _, h' => by simp [unfoldFs] at h'
    | p :: pr, .inl q :: fr, .inl q' :: fr', h, h' => by
      simp only [unfoldFs, Bool.and_eq_true, decide_eq_true_eq] at h h'
      rw [← h.1.1, ← h'.1.1, unfoldFs_unique t S pr fr fr' h.2 h'.2]
    | p :: pr, .inl q :: fr, .inr c' :: fr', h, h' => by
      simp only [unfoldFs, Bool.and_eq_true, decide_eq_true_eq, Bool.or_eq_true, Bool.not_eq_true'] at h h'
      obtain ⟨⟨_, hor⟩, _⟩ := h
      obtain ⟨⟨⟨⟨_, hs⟩, ht⟩, _⟩, _⟩ := h'
      rcases hor with hor | hor <;> simp_all
    | p :: pr, .inr c :: fr, .inl q' :: fr', h, h' => by
      simp only [unfoldFs, Bool.and_eq_true, decide_eq_true_eq, Bool.or_eq_true, Bool.not_eq_true'] at h h'
      obtain ⟨⟨_, hor⟩, _⟩ := h'
      obtain ⟨⟨⟨⟨_, hs⟩, ht⟩, _⟩, _⟩ := h
      rcases hor with hor | hor <;> simp_all
    | p :: pr, .inr c :: fr, .inr c' :: fr', h, h' => by
      simp only [unfoldFs, Bool.and_eq_true, decide_eq_true_eq] at h h'
      obtain ⟨⟨⟨⟨hm, _⟩, _⟩, hu⟩, hr⟩ := h
      obtain ⟨⟨⟨⟨hm', _⟩, _⟩, hu'⟩, hr'⟩ := h'
      rw [isUnfold_unique t S c c' hu hu' (hm.trans hm'.symm), unfoldFs_unique t S pr fr fr' hr hr']
end

/-- C09 (determinacy): two successful builds for the same M and S (any fuel) give the same chain -/
theorem C09_unique (t : Tables) (S : List String) (f f' : Nat) (m : String) (c c' : Chain LInfo)
    (h : buildChains t S f m = .ok c) (h' : buildChains t S f' m = .ok c') : c = c' := by
  obtain ⟨hu, hm⟩ := C09_spec t S f m c h
  obtain ⟨hu', hm'⟩ := C09_spec t S f' m c' h'
  exact isUnfold_unique t S c c' hu hu' (hm.trans hm'.symm)

/-! ### existence: acyclic tables always unfold -/

/-- acyclicity witnessed by a rank: a daughter that has a table has a smaller rank than the mother -/
def AcyclicT (t : Tables) (rank : String → Nat) : Prop :=
  ∀ m m' ls, t.find? (·.1 == m) = some (m', ls) → ∀ ln ∈ ls, ∀ p ∈ ln.ds, hasTable t p = true → rank p < rank m

theorem buildItems_ok (rec : String → Except SemErr (Chain LInfo)) (S : List String) :
    ∀ ds, (∀ p ∈ ds, S.contains p = true ∨ (∃ c, rec p = .ok c) ∨ (∃ x, rec p = .error (.decayNotFound x))) →
      ∃ fs, buildItems rec S ds = .ok fs
  | [], _ => ⟨[], rfl⟩
  | p :: r, h => by
    obtain ⟨fr, hfr⟩ := buildItems_ok rec S r (fun q hq => h q (List.mem_cons_of_mem _ hq))
    simp only [buildItems, hfr, Except.map]
    by_cases hS : S.contains p = true
    · exact ⟨_, by rw [if_pos hS]⟩
    · rw [if_neg hS]
      rcases h p List.mem_cons_self with hS' | ⟨c, hc⟩ | ⟨x, hx⟩
      · exact absurd hS' hS
      · exact ⟨_, by rw [hc]⟩
      · exact ⟨_, by rw [hx]⟩

theorem buildLines_ok (rec : String → Except SemErr (Chain LInfo)) (S : List String) :
    ∀ ls : List Line, (∀ ln ∈ ls, ∃ fs, buildItems rec S ln.ds = .ok fs) → ∃ ms, buildLines rec S ls = .ok ms
  | [], _ => ⟨[], rfl⟩
  | ln :: r, h => by
    obtain ⟨fs, hfs⟩ := h ln List.mem_cons_self
    obtain ⟨mr, hmr⟩ := buildLines_ok rec S r (fun l hl => h l (List.mem_cons_of_mem _ hl))
    exact ⟨(infoOf ln, fs) :: mr, by simp [buildLines, hfs, hmr, Except.map]⟩

/-- C09 (existence): for acyclic tables the chain of every particle with a table exists, for every
    stable set, as soon as the fuel exceeds the particle's rank -/
theorem C09_exists (t : Tables) (S : List String) (rank : String → Nat) (hac : AcyclicT t rank) :
    ∀ (f : Nat) (m : String), hasTable t m = true → rank m < f → ∃ c, buildChains t S f m = .ok c
  | 0, m, _, hr => absurd hr (Nat.not_lt_zero _)
  | f + 1, m, ht, hr => by
    simp only [buildChains]
    cases hfind : t.find? (·.1 == m) with
    | none => simp [hasTable, hfind] at ht
    | some p =>
      obtain ⟨m', ls⟩ := p
      simp only
      have hlines : ∃ ms, buildLines (fun p => buildChains t S f p) S ls = .ok ms := by
        apply buildLines_ok
        intro ln hln
        apply buildItems_ok
        intro p hp
        by_cases hS : S.contains p = true
        · exact Or.inl hS
        · by_cases htp : hasTable t p = true
          · have hrk := hac m m' ls hfind ln hln p hp htp
            obtain ⟨c, hc⟩ := C09_exists t S rank hac f p htp (by omega)
            exact Or.inr (Or.inl ⟨c, hc⟩)
          · have hnt : hasTable t p = false := by simpa using htp
            exact Or.inr (Or.inr ⟨p, C09_notfound t S f p hnt⟩)
      obtain ⟨ms, hms⟩ := hlines
      exact ⟨.mk m ms, by rw [hms]; rfl⟩

/-- total correctness: for acyclic tables `build_decay_chains` returns the one chain that is the
    recursive unfolding of the tables -/
theorem C09_total (t : Tables) (S : List String) (rank : String → Nat) (hac : AcyclicT t rank)
    (m : String) (ht : hasTable t m = true) :
    ∃ c, isUnfold t S c = true ∧ c.mother = m ∧ ∀ f, rank m < f → buildChains t S f m = .ok c := by
  obtain ⟨c, hc⟩ := C09_exists t S rank hac (rank m + 1) m ht (Nat.lt_succ_self _)
  obtain ⟨hu, hm⟩ := C09_spec t S _ m c hc
  refine ⟨c, hu, hm, ?_⟩
  intro f hf
  obtain ⟨c', hc'⟩ := C09_exists t S rank hac f m ht hf
  rw [hc', C09_unique t S f (rank m + 1) m c' c hc' hc]

/-- non-vacuity: A -> B c | c c ; B -> c d ; c -> e e, with S = [c] -/
def exTables : Tables :=
  [("A", [⟨1, ["B", "c"], false, "PHSP", none⟩, ⟨1, ["c", "c"], true, "VSS", some [.num 1]⟩]),
   ("B", [⟨1, ["c", "d"], false, "PHSP", none⟩]), ("c", [⟨1, ["e", "e"], false, "PHSP", none⟩])]
example : ∃ c, buildChains exTables ["c"] 5 "A" = .ok c ∧ isUnfold exTables ["c"] c = true := by
  refine ⟨_, rfl, ?_⟩
  decide

end DL
