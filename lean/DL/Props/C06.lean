/-
C06 — every supported model name is recognised as itself; unknown models are rejected.
`lexModel` is the MODEL_NAME terminal after `edit_terminals` (DL/Model/ModelLex.lean); the
published list is regenerated from `dec/enums.py` (DL/Gen/Models.lean).
-/
import DL.Model.ModelLex
import DL.Model.DecSem
import DL.Gen.Models
import DL.Gen.Grammar
namespace DL

theorem stripPrefix_append (p cs : List Char) : stripPrefix p (p ++ cs) = some cs := by
  induction p with
  | nil => rfl
  | cons a p ih => simp [stripPrefix, ih]

/-- if `p` matches at the head of `a ++ b` and is at least as long as `a`, then `p` is `a` followed by a prefix of `b` -/
theorem stripPrefix_long (p a b r : List Char) (h : stripPrefix p (a ++ b) = some r) (hl : a.length ≤ p.length) :
    ∃ q, p = a ++ q ∧ stripPrefix q b = some r := by
  induction a generalizing p with
  | nil => exact ⟨p, rfl, h⟩
  | cons x a ih =>
    cases p with
    | nil => simp at hl
    | cons y p =>
      simp only [List.cons_append, stripPrefix] at h
      split at h
      · rename_i hxy
        subst hxy
        obtain ⟨q, hq, hr⟩ := ih p h (by simpa using hl)
        exact ⟨q, by rw [hq]; rfl, hr⟩
      · cases h

/-- if `p` matches at the head of `a ++ b` and is shorter than `a`, the rest starts inside `a` -/
theorem stripPrefix_short (p a b r : List Char) (h : stripPrefix p (a ++ b) = some r) (hl : p.length < a.length) :
    ∃ c t, r = c :: t ∧ c ∈ a := by
  induction a generalizing p with
  | nil => simp at hl
  | cons x a ih =>
    cases p with
    | nil =>
      simp only [stripPrefix, Option.some.injEq] at h
      exact ⟨x, a ++ b, h.symm, List.mem_cons_self⟩
    | cons y p =>
      simp only [List.cons_append, stripPrefix] at h
      split at h
      · obtain ⟨c, t, hr, hc⟩ := ih p h (by simpa using hl)
        exact ⟨c, t, hr, List.mem_cons_of_mem _ hc⟩
      · cases h

theorem sortModels_perm (names : List String) : (sortModels names).Perm names := List.mergeSort_perm _ _

theorem sortModels_sorted (names : List String) :
    List.Pairwise (fun a b => b.length ≤ a.length) (sortModels names) := by
  have := List.pairwise_mergeSort (le := fun (a b : String) => decide (b.length ≤ a.length))
    (fun a b c h1 h2 => by simp only [decide_eq_true_eq] at *; omega)
    (fun a b => by simp only [Bool.or_eq_true, decide_eq_true_eq]; omega) names
  simpa [sortModels] using this

/-- a listed name written in the text and followed by a separator is found, whatever other names
    are listed: among the names before it in the longest-first order none can match -/
theorem firstMatch_self (L : List String) (n : String) (sep : Char) (rest : List Char)
    (hsorted : List.Pairwise (fun a b => b.length ≤ a.length) L) (hn : n ∈ L)
    (hsep : ∀ m ∈ L, sep ∉ m.toList) (hb : isWordChar sep = false) :
    firstMatch L (n.toList ++ sep :: rest) = some (n, sep :: rest) := by
  induction L with
  | nil => cases hn
  | cons m ms ih =>
    by_cases hmn : m = n
    · subst hmn
      simp [firstMatch, stripPrefix_append, boundaryOK, hb]
    · have hn' : n ∈ ms := by
        rcases List.mem_cons.mp hn with h | h
        · exact absurd h.symm hmn
        · exact h
      have hlen : n.length ≤ m.length := (List.pairwise_cons.mp hsorted).1 n hn'
      have hnone : stripPrefix m.toList (n.toList ++ sep :: rest) = none := by
        cases hs : stripPrefix m.toList (n.toList ++ sep :: rest) with
        | none => rfl
        | some r =>
          exfalso
          obtain ⟨q, hq, _⟩ := stripPrefix_long _ _ _ _ hs (by simpa [String.length_toList] using hlen)
          cases q with
          | nil =>
            apply hmn
            have : m.toList = n.toList := by simpa using hq
            exact String.ext this
          | cons c q =>
            -- then `m` is longer than `n` and must contain the separator
            rename_i hs'
            have hq' := hq
            have hsq : stripPrefix (c :: q) (sep :: rest) = some r := by assumption
            simp only [stripPrefix] at hsq
            split at hsq
            · rename_i hc
              apply hsep m List.mem_cons_self
              rw [hq', ← hc]
              simp
            · cases hsq
      simp only [firstMatch, hnone]
      exact ih (List.pairwise_cons.mp hsorted).2 hn' (fun m' hm' => hsep m' (List.mem_cons_of_mem _ hm'))

/-- C06 (recognition): every listed name — published or registered by the user — is recognised as
    itself when followed by a separator (a character that is neither a word character nor part of
    any listed name: blank, `;`, line end), irrespective of other names that are its prefixes or
    extensions -/
theorem C06_self (names : List String) (n : String) (sep : Char) (rest : List Char)
    (hn : n ∈ names) (hsep : ∀ m ∈ names, sep ∉ m.toList) (hb : isWordChar sep = false) :
    lexModel names (n.toList ++ sep :: rest) = some (n, sep :: rest) := by
  unfold lexModel
  have hp := sortModels_perm names
  exact firstMatch_self _ n sep rest (sortModels_sorted names) (hp.mem_iff.mpr hn)
    (fun m hm => hsep m (hp.mem_iff.mp hm)) hb

/-- C06 (labels extending a model name): a word of word characters that is not itself a listed name
    is never taken for a model, even when listed names are its prefixes -/
theorem firstMatch_word (L : List String) (w : List Char) (sep : Char) (rest : List Char)
    (hw : ∀ c ∈ w, isWordChar c = true) (hnot : ∀ m ∈ L, m.toList ≠ w)
    (hsep : ∀ m ∈ L, sep ∉ m.toList) :
    firstMatch L (w ++ sep :: rest) = none := by
  induction L with
  | nil => rfl
  | cons m ms ih =>
    have ihh := ih (fun m' hm' => hnot m' (List.mem_cons_of_mem _ hm')) (fun m' hm' => hsep m' (List.mem_cons_of_mem _ hm'))
    simp only [firstMatch]
    cases hs : stripPrefix m.toList (w ++ sep :: rest) with
    | none => exact ihh
    | some r =>
      simp only
      have hbad : boundaryOK r = false := by
        rcases Nat.lt_or_ge m.toList.length w.length with hl | hl
        · obtain ⟨c, t, hr, hc⟩ := stripPrefix_short _ _ _ _ hs hl
          simp [hr, boundaryOK, hw c hc]
        · exfalso
          obtain ⟨q, hq, hsq⟩ := stripPrefix_long _ _ _ _ hs hl
          cases q with
          | nil => exact hnot m List.mem_cons_self (by simpa using hq)
          | cons c q =>
            simp only [stripPrefix] at hsq
            split at hsq
            · rename_i hc
              apply hsep m List.mem_cons_self
              rw [hq, ← hc]; simp
            · cases hsq
      simp [hbad, ihh]

theorem C06_extension (names : List String) (w : List Char) (sep : Char) (rest : List Char)
    (hw : ∀ c ∈ w, isWordChar c = true) (hnot : ∀ m ∈ names, m.toList ≠ w)
    (hsep : ∀ m ∈ names, sep ∉ m.toList) :
    lexModel names (w ++ sep :: rest) = none := by
  unfold lexModel
  have hp := sortModels_perm names
  exact firstMatch_word _ w sep rest hw (fun m hm => hnot m (hp.mem_iff.mp hm)) (fun m hm => hsep m (hp.mem_iff.mp hm))

/-- the names in use are the published list followed by everything the user registered -/
theorem C06_merge (known user : List String) (n : String) :
    n ∈ registered known user ↔ n ∈ known ∨ n ∈ user := by simp [registered]

/-- the published names (regenerated from the source) consist of word characters and `-` only, so
    the separators of the grammar (blank, tab, `;`, line end, `#`, `,`) occur in none of them -/
def nameCharsOK (n : String) : Bool := n.toList.all (fun c => isWordChar c || c == '-') && !n.toList.isEmpty

theorem C06_published : Gen.knownModels.all nameCharsOK = true := by decide

theorem C06_published_separators (sep : Char) (h : sep ∈ [' ', '\t', ';', '\n', '\r', '#', ',']) :
    ∀ m ∈ Gen.knownModels, nameCharsOK m = true → sep ∉ m.toList := by
  intro m _ hok hmem
  simp only [nameCharsOK, Bool.and_eq_true, List.all_eq_true, Bool.or_eq_true, beq_iff_eq] at hok
  have := hok.1 sep hmem
  simp only [List.mem_cons, List.not_mem_nil, or_false] at h
  rcases h with rfl | rfl | rfl | rfl | rfl | rfl | rfl <;> simp [isWordChar] at this

/-- the boundary after a model name, as regenerated from the grammar, is "not followed by a word character" -/
theorem C06_boundary : Gen.modelBoundary = "notFollowedByWord" := by decide

/-- C06 (rejection): a decay line whose model word is a label that is no defined ModelAlias makes
    `parse()` fail -/
theorem C06_reject (aliases : List (String × ModelRef)) (defs : List (String × Rat)) (ln : DLine) (w : String)
    (hm : ln.model = .alias w) (hu : dget aliases w = none) (bf : Rat) (hbf : numValue ln.bf = some bf) :
    resolveLine aliases defs ln = .error (.undefinedModel w) := by
  simp [resolveLine, hbf, hm, resolveModel, hu, bind, Except.bind, pure, Except.pure]

/-- non-vacuity: `PHSP`, `VSS`, `VSS_BMIX`, a user name extending a published one with `-` -/
example : firstMatch ["PHSP-CUT", "VSS_BMIX", "PHSP", "VSS"] "PHSP-CUT 0.5;".toList
    = some ("PHSP-CUT", " 0.5;".toList) := by decide

end DL
