/-
C10 — expanding decay modes enumerates every complete decay path exactly once.
`expand` is `_expand_decay_modes` (DL/Model/Descriptor.lean).
-/
import DL.Model.Descriptor
import DL.Lemmas.Choices
namespace DL

variable {β : Type}

theorem sum_replicate_nat (n a : Nat) : (List.replicate n a).sum = n * a := by
  induction n with
  | zero => simp
  | succ n ih => simp [List.replicate_succ, ih, Nat.succ_mul, Nat.add_comm]

mutual
  /-- number of complete decay paths: one line for the mother and, recursively, one for every
      daughter that has decay lines; a daughter whose table is empty is stable (counts 1) -/
  def pathCount : Chain β → Nat
    | .mk _ modes => pathModes modes
  def pathModes : List (CMode β) → Nat
    | [] => 0
    | (_, fs) :: ms => pathFs fs + pathModes ms
  def pathFs : List (Item β) → Nat
    | [] => 1
    | .inl _ :: r => pathFs r
    | .inr c :: r => (if pathCount c = 0 then 1 else pathCount c) * pathFs r
end

mutual
  theorem expand_length (fmt : Fmt) (al : List (String × String)) (top : Bool) :
      ∀ c : Chain β, (expand fmt al top c).length = pathCount c
    | .mk m modes => by
      simp only [expand, pathCount]
      exact expandModes_length fmt al top _ modes
  theorem expandModes_length (fmt : Fmt) (al : List (String × String)) (top : Bool) (m : String) :
      ∀ ms : List (CMode β), (expandModes fmt al top m ms).length = pathModes ms
    | [] => by simp [expandModes, pathModes]
    | (_, fs) :: ms => by
      simp only [expandModes, pathModes, List.length_append, List.length_map]
      rw [expandFs_length fmt al fs, expandModes_length fmt al top m ms]
  theorem expandFs_length (fmt : Fmt) (al : List (String × String)) :
      ∀ fs : List (Item β), (expandFs fmt al fs).length = pathFs fs
    | [] => by simp [expandFs, pathFs]
    | .inl _ :: r => by simp [expandFs, pathFs, expandFs_length fmt al r]
    | .inr c :: r => by
      simp only [expandFs, pathFs]
      have hc := expand_length fmt al false c
      have hr := expandFs_length fmt al r
      by_cases h0 : pathCount c = 0
      · have : (expand fmt al false c) = [] := List.eq_nil_of_length_eq_zero (by rw [hc, h0])
        simp [this, h0, hr]
      · have hne : (expand fmt al false c).isEmpty = false := by
          cases he : expand fmt al false c with
          | nil => rw [he] at hc; simp at hc; exact absurd hc.symm h0
          | cons _ _ => rfl
        simp only [hne, h0, if_false, Bool.false_eq_true]
        rw [List.length_flatMap]
        simp only [List.length_map, hr, List.map_const', hc]
        exact sum_replicate_nat _ _
end

/-- every line contributes at least one path: a product of positive counts -/
theorem pathFs_pos : ∀ fs : List (Item β), 0 < pathFs fs
  | [] => by simp [pathFs]
  | .inl _ :: r => by simpa [pathFs] using pathFs_pos r
  | .inr c :: r => by
    simp only [pathFs]
    have := pathFs_pos r
    by_cases h0 : pathCount c = 0
    · simpa [h0] using this
    · simp only [h0, if_false]; exact Nat.mul_pos (Nat.pos_of_ne_zero h0) this

/-- a particle has no decay path exactly when its table has no lines -/
theorem pathCount_eq_zero (c : Chain β) : pathCount c = 0 ↔ c.modes = [] := by
  cases c with
  | mk m modes =>
    cases modes with
    | nil => simp [pathCount, pathModes, Chain.modes]
    | cons md ms =>
      obtain ⟨b, fs⟩ := md
      have := pathFs_pos fs
      simp only [pathCount, pathModes, Chain.modes]
      constructor
      · intro h; omega
      · intro h; cases h

/-- C10 (length): the number of descriptors returned for a mother is the sum over its lines of the
    product over daughters of the daughters' own counts -/
theorem C10_count (fmt : Fmt) (al : List (String × String)) (c : Chain β) :
    (expand fmt al true c).length = pathCount c := expand_length fmt al true c

/-- the count formula spelled out: a daughter counts 1 when it has no decay lines (stable name, or an
    empty Decay block), else its own count -/
theorem C10_count_formula (b : β) (fs : List (Item β)) (ms : List (CMode β)) (m : String) :
    pathCount (.mk m ((b, fs) :: ms)) = pathFs fs + pathCount (.mk m ms) ∧
    pathFs ([] : List (Item β)) = 1 ∧
    (∀ s r, pathFs (Sum.inl s :: r : List (Item β)) = pathFs r) ∧
    (∀ (c : Chain β) r, pathFs (Sum.inr c :: r) = (if c.modes = [] then 1 else pathCount c) * pathFs r) := by
  refine ⟨by simp [pathCount, pathModes], by simp [pathFs], fun s r => by simp [pathFs], fun c r => ?_⟩
  simp only [pathFs]
  by_cases h : c.modes = []
  · simp [h, (pathCount_eq_zero c).mpr h]
  · have : pathCount c ≠ 0 := fun h0 => h ((pathCount_eq_zero c).mp h0)
    simp [h, this]

/-- every decaying node is printed under the particle it aliases, at every depth: each descriptor
    produced for a node is the pattern applied to the aliased name -/
theorem C10_alias (fmt : Fmt) (al : List (String × String)) (top : Bool) (m : String) (modes : List (CMode β)) :
    ∀ d ∈ expand fmt al top (.mk m modes), ∃ ds, d = fmt.render (aliasOf al m) ds top := by
  simp only [expand]
  induction modes with
  | nil => simp [expandModes]
  | cons md ms ih =>
    obtain ⟨b, fs⟩ := md
    intro d hd
    simp only [expandModes, List.mem_append, List.mem_map] at hd
    rcases hd with ⟨ds, _, rfl⟩ | hd
    · exact ⟨_, rfl⟩
    · exact ih d hd

/-- non-vacuity: A -> B C | B B ; B -> x | y ; C has an empty table: 1*2*1 + 2*2 = 6 paths -/
def exChain : Chain Unit :=
  .mk "A" [((), [.inr (.mk "B" [((), [.inl "x"]), ((), [.inl "y"])]), .inr (.mk "C" [])]),
           ((), [.inr (.mk "B" [((), [.inl "x"]), ((), [.inl "y"])]), .inr (.mk "B" [((), [.inl "x"]), ((), [.inl "y"])])])]
example : pathCount exChain = 6 := by decide

/-! ### the enumeration theorem: decay paths as choices (definitions in DL/Lemmas/Choices.lean)

`Choice.mk i subs` picks line `i` of a particle's table and, for every daughter of that line, `none`
(stable: a plain name or a sub-chain with an empty table) or `some` choice of the daughter.
`allChoices c` enumerates them (lines in file order, first daughter varying slowest), `IsChoice c x`
describes them, `renderChoice fmt al top c x` spells one out. -/

/-- C10 (enumeration): the descriptors returned are exactly the complete decay paths, each rendered
    once, in file order -/
theorem C10_enum (fmt : Fmt) (al : List (String × String)) (top : Bool) (c : Chain β) :
    expand fmt al top c = (allChoices c).map (renderChoice fmt al top c) :=
  expand_eq_choices fmt al top c

/-- the enumeration contains exactly the well-formed choices -/
theorem C10_choices_complete (c : Chain β) (x : Choice) : IsChoice c x ↔ x ∈ allChoices c :=
  isChoice_iff_mem c x

/-- and every one of them exactly once -/
theorem C10_choices_nodup (c : Chain β) : (allChoices c).Nodup := allChoices_nodup c

/-- link with the count theorem: there are `pathCount c` choices -/
theorem C10_choices_length (c : Chain β) : (allChoices c).length = pathCount c := by
  rw [← expand_length Fmt.default [] true c, expand_eq_choices, List.length_map]

/-- `IsChoice` read position by position: the line index points at a line of the table and the
    sub-choices match the daughters of that line one by one -/
theorem C10_isChoice_iff (m : String) (modes : List (CMode β)) (i : Nat) (s : List (Option Choice)) :
    IsChoice (.mk m modes) (.mk i s) ↔
      ∃ b fs, modes[i]? = some (b, fs) ∧ Pointwise DaughterOK fs s := isChoice_iff m modes i s

/-- what `renderChoice` spells out, equation by equation: the chosen line under the aliased name of
    the particle; a plain name as it is, a stable sub-chain under its aliased name, a decaying
    sub-chain as the (sub-pattern) descriptor of its own choice -/
theorem C10_render_formula (fmt : Fmt) (al : List (String × String)) (top : Bool) :
    (∀ (m : String) (b : β) fs ms s, renderChoice fmt al top (.mk m ((b, fs) :: ms)) (.mk 0 s) =
        fmt.render (aliasOf al m) (" ".intercalate (ssort (renderFs fmt al fs s))) top) ∧
    (∀ (m : String) (md : CMode β) ms i s, renderChoice fmt al top (.mk m (md :: ms)) (.mk (i + 1) s) =
        renderChoice fmt al top (.mk m ms) (.mk i s)) ∧
    (∀ s, renderFs fmt al ([] : List (Item β)) s = []) ∧
    (∀ (n : String) (r : List (Item β)) o t, renderFs fmt al (.inl n :: r) (o :: t) = n :: renderFs fmt al r t) ∧
    (∀ (c : Chain β) r t, renderFs fmt al (.inr c :: r) (none :: t) = aliasOf al c.mother :: renderFs fmt al r t) ∧
    (∀ (c : Chain β) r x t, renderFs fmt al (.inr c :: r) (some x :: t) =
        renderChoice fmt al false c x :: renderFs fmt al r t) := by
  refine ⟨?_, ?_, ?_, ?_, ?_, ?_⟩
  · intros; simp [renderChoice, renderModes, Choice.line, Choice.subs]
  · intro m md ms i s; obtain ⟨b, fs⟩ := md
    simp [renderChoice, renderModes, Choice.line, Choice.subs]
  · intros; simp [renderFs]
  · intros; simp [renderFs]
  · intros; simp [renderFs]
  · intros; simp [renderFs]

/-- non-vacuity: the six choices of `exChain`, in order -/
example : allChoices exChain =
    [.mk 0 [some (.mk 0 [none]), none], .mk 0 [some (.mk 1 [none]), none],
     .mk 1 [some (.mk 0 [none]), some (.mk 0 [none])], .mk 1 [some (.mk 0 [none]), some (.mk 1 [none])],
     .mk 1 [some (.mk 1 [none]), some (.mk 0 [none])], .mk 1 [some (.mk 1 [none]), some (.mk 1 [none])]] := by
  simp [exChain, allChoices, choicesModes, choicesFs, Choice.bump]
example : (allChoices exChain).length = 6 := by rw [C10_choices_length]; decide
example : IsChoice exChain (.mk 0 [some (.mk 1 [none]), none]) := by
  simp [exChain, IsChoice, IsChoiceModes, IsChoiceFs, Choice.line, Choice.subs, Chain.modes]
example : ¬ IsChoice exChain (.mk 0 [some (.mk 1 [none]), some (.mk 0 [none])]) := by
  simp [exChain, IsChoice, IsChoiceModes, IsChoiceFs, Choice.line, Choice.subs, Chain.modes]
/-- A -> B C with B -> y: the nested descriptor, B under the sub-pattern, C (empty table) by name -/
example (fmt : Fmt) : renderChoice fmt [] true exChain (.mk 0 [some (.mk 1 [none]), none]) =
    fmt.render "A" (" ".intercalate (ssort [fmt.render "B" (" ".intercalate (ssort ["y"])) false, "C"])) true := by
  simp [exChain, renderChoice, renderModes, renderFs, Choice.line, Choice.subs, aliasOf, dget, Chain.mother]

end DL
