/-
C01 — decay tables read from a .dec file are exactly what the file states.
Statement level: `Doc` is the list of statements the grammar yields (the reading of the text into
statements is tied to the real parser by the correspondence check); `tablesDecay` is what
`parse()` makes of the Decay blocks.
-/
import DL.Lemmas.Dedup
import DL.Lemmas.Dict
import DL.Gen.Grammar
namespace DL

/-- C01 (mothers): the de-duplication loop of `parse()` keeps one table per distinct mother named
    in a Decay block, in file order, keeping the first block when a mother is repeated; an empty
    block counts as a table -/
theorem C01_mothers (d : Doc) : dedupLoop (decayBlocks d) = dedupKeepFirst (decayBlocks d) :=
  dedupLoop_eq _

theorem mapM_keys (aliases : List (String × ModelRef)) (defs : List (String × Rat)) :
    ∀ (bs : List (String × List DLine)) (t : Tables),
      bs.mapM (resolveBlock aliases defs) = .ok t → t.map (·.1) = bs.map (·.1)
  | [], t, h => by simp [List.mapM_nil, pure, Except.pure] at h; subst h; rfl
  | b :: bs, t, h => by
    rw [List.mapM_cons] at h
    simp only [bind, Except.bind] at h
    cases hb : resolveBlock aliases defs b with
    | error e => simp [hb] at h
    | ok r =>
      simp only [hb] at h
      cases hr : bs.mapM (resolveBlock aliases defs) with
      | error e => simp [hr] at h
      | ok rs =>
        simp only [hr, pure, Except.pure, Except.ok.injEq] at h
        subst h
        have : r.1 = b.1 := by
          unfold resolveBlock at hb
          cases hl : b.2.mapM (resolveLine aliases defs) with
          | error e => simp [hl, Except.map] at hb
          | ok ls => simp [hl, Except.map] at hb; rw [← hb]
        simp [this, mapM_keys aliases defs bs rs hr]

/-- the mothers reported are the distinct mothers of the Decay blocks in file order -/
theorem C01_mother_names (d : Doc) (t : Tables) (h : tablesDecay d = .ok t) :
    motherNames t = (dedupKeepFirst (decayBlocks d)).map (·.1) := by
  unfold tablesDecay at h
  rw [C01_mothers] at h
  exact mapM_keys _ _ _ _ h

/-- C01 (lines): a decay line that uses no ModelAlias and no Define'd word is reported field by
    field as written: branching fraction = value of the literal, daughters verbatim and in order,
    the PHOTOS flag, the model name, the parameters in order (numerals as values, words verbatim),
    an absent list as absent -/
theorem C01_line (aliases : List (String × ModelRef)) (defs : List (String × Rat)) (ln : DLine)
    (name : String) (opts : Option (List Param)) (bf : Rat)
    (hm : ln.model = .named name opts) (hbf : numValue ln.bf = some bf)
    (ps : Option (List PVal))
    (hps : (match opts with
            | none => (pure none : Except SemErr (Option (List PVal)))
            | some l => (l.mapM (resolveParam defs)).map some) = .ok ps) :
    resolveLine aliases defs ln = .ok { bf := bf, ds := ln.ds, photos := ln.photos, model := name, params := ps } := by
  unfold resolveLine
  simp only [hbf, hm, resolveModel, bind, Except.bind, pure, Except.pure]
  cases opts with
  | none =>
    simp only [pure, Except.pure, Except.ok.injEq] at hps
    subst hps; rfl
  | some l =>
    simp only at hps
    cases hl : l.mapM (resolveParam defs) with
    | error e => simp [hl, Except.map] at hps
    | ok r =>
      simp only [hl, Except.map, Except.ok.injEq] at hps
      subst hps
      simp [hl, Except.map]

/-- a numeric parameter is reported as the value of its literal; a word that is no Define'd name
    (also after a leading minus) is reported verbatim -/
theorem C01_param_num (defs : List (String × Rat)) (l : String) (q : Rat) (h : numValue l = some q) :
    resolveParam defs (.num l) = .ok (.num q) := by simp [resolveParam, h]

theorem C01_param_word (defs : List (String × Rat)) (w : String)
    (h1 : dget defs w = none) (h2 : dget defs (String.ofList w.toList.tail) = none) :
    resolveParam defs (.word w) = .ok (.word w) := by
  unfold resolveParam
  simp only
  by_cases hneg : w.toList.head? = some '-'
  · simp [hneg, h2]
  · simp [hneg, h1]

/-- every numeric literal form the grammar accepts has the intended value -/
theorem C01_numforms :
    numValue "1" = some 1 ∧ numValue "1." = some 1 ∧ numValue ".5" = some (1/2) ∧
    numValue "-0.8" = some (-4/5) ∧ numValue "+3" = some 3 ∧ numValue "20.e12" = some 20000000000000 ∧
    numValue "2E-4" = some (1/5000) := by
  refine ⟨?_, ?_, ?_, ?_, ?_, ?_, ?_⟩ <;> decide +kernel

/-- the label alphabet of the grammar (regenerated from decfile.lark) contains the whole alphabet the
    property names: letters, digits and / - + * _ ( ) . ' ~ -/
def specLabelAlphabet : List Char :=
  "abcdefghijklmnopqrstuvwxyzABCDEFGHIJKLMNOPQRSTUVWXYZ0123456789/-+*_().'~".toList

theorem C01_alphabet : specLabelAlphabet.all (Gen.labelChars.contains ·) = true := by decide

end DL
