/-
C06 from the text: recognition of model names as a consequence of the reader round trip
(`C02_read_layout_decay`).  The grammar `g` is arbitrary: `g.models` is any list of registered names
(published ++ user), with no condition relating the names to one another — one may be a prefix or
an extension of another — beyond `GoodModels` (a name is non-empty and contains no blank, line end,
`#`, `;` or `,`).
-/
import DL.Props.C02
import DL.Props.C06
namespace DL
open ReadRT

/-- C06 (recognition, from the text): a decay line whose model word is a registered name `n` — bare
    or with parameters, with or without `PHOTOS`, under any good layout — is read with exactly that
    name, whatever other names are registered, and with daughters that may extend model names by
    word characters (`DaughterOK` only asks that a daughter is not itself lexed as a model) -/
theorem C06_text (g : RGrammar) (hG : GoodDecayGrammar g) (ℓ : DocLayoutD) (hℓ : GoodLayoutD ℓ)
    (mother : String) (hm : GoodLabel g mother) (bf : String) (ds : List String) (photos : Bool)
    (n : String) (opts : Option (List Param))
    (hline : LineOK g { bf := bf, ds := ds, photos := photos, model := .named n opts }) :
    readDoc g (String.ofList (renderD ℓ [.decay mother [{ bf := bf, ds := ds, photos := photos, model := .named n opts }]])) =
      .ok [.decay mother [{ bf := bf, ds := ds, photos := photos, model := .named n opts }]] := by
  apply C02_read_layout_decay g hG ℓ hℓ
  intro s hs
  simp only [List.mem_singleton] at hs
  subst hs
  exact ⟨hm, by intro ln hln; simp only [List.mem_singleton] at hln; subst hln; exact hline⟩

/-- what `LineOK` asks of the model word: it is registered (and its parameters are well formed) -/
theorem C06_text_needs (g : RGrammar) (bf : String) (ds : List String) (photos : Bool) (n : String) (opts : Option (List Param))
    (h : LineOK g { bf := bf, ds := ds, photos := photos, model := .named n opts }) : n ∈ g.models := by
  have hm := h.2.2.2.1
  cases opts with
  | none => exact hm
  | some ps => exact hm.1

/-- non-vacuity with names that are prefixes / extensions of one another and of a daughter: the
    grammar registers `SVV`, `SVV_HELAMP`, `SVV_CP` and `SV`; the line uses `SVV` with parameters and
    a daughter spelled `SVV_x` -/
def c06G : RGrammar := { labelChars := "abcdefghijklmnopqrstuvwxyzABCDEFGHIJKLMNOPQRSTUVWXYZ0123456789/-+*_().'~".toList,
                         models := ["SVV_HELAMP", "SVV_CP", "SVV", "SV", "PHSP"] }

example : GoodDecayGrammar c06G ∧
    LineOK c06G { bf := "0.5", ds := ["SVV_x", "K+"], photos := true, model := .named "SVV" (some [.num "1.0", .word "-dm"]) } ∧
    LineOK c06G { bf := "0.5", ds := ["SVV_x", "K+"], photos := false, model := .named "SV" none } ∧
    LineOK c06G { bf := "0.5", ds := ["SVV_x", "K+"], photos := false, model := .named "SVV_CP" none } ∧
    ¬ LineOK c06G { bf := "0.5", ds := ["K+"], photos := false, model := .named "SVV_NEW" none } := by decide

end DL
