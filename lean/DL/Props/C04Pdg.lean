/-
C04 for PDG names — `charge_conjugate_name(name, pdg_name=True)` (`DB.conjPdg`) over the whole
regenerated `PDG2EvtGenNameMap` / `EvtGen2PDGNameMap`.

What holds for the data (and is proved below for every key `p` of `PDG2EvtGenNameMap`, with `e` its
EvtGen name):
* the keys of both maps are pairwise different (so the `dget` lookups of the model see every entry);
* the answer is the wrapped form `ChargeConj(p)` exactly when `e` has no known conjugate
  (`DB.noConj e`): `e` is not a row of the EvtGen table (this is the placeholder `unknown`, 208 PDG
  names) or its row has no conjugate row (38 PDG names, `pdgNoAnti`: not in the particle table and
  no row with the negated ID);
* otherwise the answer `c` is again a key of the map, never looks wrapped, conjugates back to `p`,
  and agrees with the EvtGen route: `evt c = conjName (evt p)`, whose row carries the negated (or,
  for a self-conjugate particle, the same) PDG ID.

How it is made cheap for the kernel: see `DL/Lemmas/PdgTable.lean` (one number per name, search
trees for the lookups, every candidate confirmed by one string equality; adjacent-order check for
"keys pairwise different").  Nothing is precomputed by hand except the list `pdgNoAnti`, which only
the last theorem mentions.
-/
import DL.Props.C04
import DL.Lemmas.PdgTable
namespace DL

/-- search trees over the three tables (candidates only; see `PdgIdx.Sound`) -/
structure PdgIdx where
  rowsT : KTree PRow
  idT : KTree PRow
  p2eT : KTree (String × String)
  e2pT : KTree (String × String)

def DB.idx (db : DB) : PdgIdx :=
  { rowsT := KTree.build (fun r => skey r.name) db.rows
    idT := KTree.build (fun r => ikey r.id) db.rows
    p2eT := KTree.build (fun x => skey x.1) db.pdg2evt
    e2pT := KTree.build (fun x => skey x.1) db.evt2pdg }

/-- the EvtGen name has no known conjugate: it is not in the table, or its row has no conjugate row -/
def DB.noConj (db : DB) (e : String) : Bool :=
  match db.rowOfName e with
  | none => true
  | some r => (db.conjRow r).isNone

/-- `conjRow` gives nothing exactly when the table has no row with the negated ID and the particle is
    not a self-conjugate member of the particle table -/
theorem conjRow_eq_none_iff (db : DB) (r : PRow) :
    db.conjRow r = none ↔ db.rowOfId (-r.id) = none ∧ (r.inTable = false ∨ r.invNeg = true) := by
  unfold DB.conjRow
  cases h1 : db.rowOfId (-r.id) <;> cases ht : r.inTable <;> cases hi : r.invNeg <;> simp
  rename_i r'
  cases r'.inTable <;> simp

/-- `DB.conjRow` with the lookups by ID going through a search tree -/
def conjRowT (idT : KTree PRow) (r : PRow) : Option PRow :=
  let r1 : Option PRow :=
    if r.inTable then
      if r.invNeg then
        match idT.find (ikey (-r.id)) with
        | some r' => if r'.inTable then some r' else none
        | none => none
      else some r
    else none
  match r1 with
  | some x => some x
  | none => idT.find (ikey (-r.id))

/-- when the IDs of the table are pairwise different, the tree gives the same rows as `find?` -/
theorem conjRowT_eq (db : DB) (h : distinctKeys (fun r : PRow => ikey r.id) db.rows = true)
    (r : PRow) : conjRowT db.idx.idT r = db.conjRow r := by
  unfold conjRowT DB.conjRow
  rw [rowOfId_eq_find db h]
  rfl

/-- the check of one entry `(p, e)` of `PDG2EvtGenNameMap`; O(1) name equalities -/
def entryOK (ix : PdgIdx) (noRow : List String) (pe : String × String) : Bool :=
  match ix.rowsT.find (skey pe.2) with
  | none => noRow.contains pe.2
  | some r =>
    r.name == pe.2 &&
    match conjRowT ix.idT r with
    | none => true
    | some r' =>
      match ix.e2pT.find (skey r'.name) with
      | none => false
      | some ec =>
        ec.1 == r'.name &&
        (match ix.p2eT.find (skey ec.2) with
         | some ce => ce.1 == ec.2 && ce.2 == r'.name
         | none => false) &&
        (match ix.e2pT.find (skey pe.2) with
         | some ep => ep.1 == pe.2 && ep.2 == pe.1
         | none => false)

/-- the names of `noRow` are not names of the EvtGen table -/
def noRowOK (db : DB) (noRow : List String) : Bool :=
  noRow.all (fun m => db.rows.all (fun r => r.name != m))

/-- no key and no value of `EvtGen2PDGNameMap` starts with `ChargeConj(` -/
def noWrapOK (db : DB) : Bool :=
  db.evt2pdg.all (fun x => !hasWrapPrefix x.1 && !hasWrapPrefix x.2)

/-- everything the theorem needs to know about the tables -/
structure TableFacts (db : DB) (noRow : List String) : Prop where
  sorted : NamesSorted db
  ids : distinctKeys (fun r : PRow => ikey r.id) db.rows = true
  inv : ∀ r ∈ db.rows, ∀ r', db.conjRow r = some r' →
    r' ∈ db.rows ∧ (r'.id = -r.id ∨ r'.id = r.id) ∧ db.conjName r'.name = r.name
  pk : KeysDistinct db.pdg2evt
  ek : KeysDistinct db.evt2pdg
  hNoRow : noRowOK db noRow = true
  hNoWrap : noWrapOK db = true
  entries : db.pdg2evt.all (entryOK db.idx noRow) = true

theorem rowOfName_none_of_noRowOK (db : DB) (noRow : List String) (h : noRowOK db noRow = true)
    (m : String) (hm : m ∈ noRow) : db.rowOfName m = none := by
  unfold noRowOK at h
  have h1 := (List.all_eq_true.mp h) m hm
  unfold DB.rowOfName
  rw [List.find?_eq_none]
  intro r hr
  have h2 := (List.all_eq_true.mp h1) r hr
  simpa using h2

theorem conjPdg_wrapped (db : DB) (hw : noWrapOK db = true) (p e : String)
    (hd : dget db.pdg2evt p = some e) (hc : db.conjName e = wrapUnknown e) :
    db.conjPdg p = wrapUnknown p := by
  have hn : dget db.evt2pdg (wrapUnknown e) = none := by
    apply dget_none_of_forall
    intro x hx
    have h1 := (List.all_eq_true.mp hw) x hx
    simp only [Bool.and_eq_true, Bool.not_eq_true'] at h1
    exact ne_wrapUnknown_of_noPrefix _ _ h1.1
  unfold DB.conjPdg
  rw [hd]; simp only
  rw [hc, hn]

/-- the statement about one PDG name `p` -/
def PdgSpec (db : DB) (p : String) : Prop :=
  let c := db.conjPdg p
  ∃ e, dget db.pdg2evt p = some e ∧
    (c = wrapUnknown p ↔ db.noConj e = true) ∧
    (db.noConj e = false →
      c ∈ db.pdg2evt.map (·.1) ∧ hasWrapPrefix c = false ∧
      db.conjPdg c = p ∧
      dget db.pdg2evt c = some (db.conjName e) ∧
      dget db.evt2pdg (db.conjName e) = some c ∧
      ∃ r r', db.rowOfName e = some r ∧ db.rowOfName (db.conjName e) = some r' ∧
        (r'.id = -r.id ∨ r'.id = r.id))

theorem pdgSpec_of_facts (db : DB) (noRow : List String) (F : TableFacts db noRow) :
    ∀ p ∈ db.pdg2evt.map (·.1), PdgSpec db p := by
  intro p hp
  obtain ⟨⟨p', e⟩, hmem, rfl⟩ := List.mem_map.mp hp
  show PdgSpec db p'
  have hd : dget db.pdg2evt p' = some e := dget_of_mem _ F.pk _ _ hmem
  have hok := (List.all_eq_true.mp F.entries) _ hmem
  unfold entryOK at hok
  simp only [conjRowT_eq db F.ids] at hok
  -- the two wrapped cases
  have wrapped : db.rowOfName e = none ∨ (∃ r, db.rowOfName e = some r ∧ db.conjRow r = none) →
      PdgSpec db p' := by
    intro hcase
    have hnc : db.noConj e = true := by
      unfold DB.noConj
      rcases hcase with h | ⟨r, h, hc⟩
      · rw [h]
      · rw [h]; simp [hc]
    have hcn : db.conjName e = wrapUnknown e := by
      unfold DB.conjName
      rcases hcase with h | ⟨r, h, hc⟩
      · rw [h]
      · rw [h]; simp only
        have h1 : db.route1 r = none := by
          have := hc; unfold DB.conjRow at this; unfold DB.route1
          cases ht : r.inTable <;> cases hi : r.invNeg <;> simp [ht, hi] at this ⊢
          cases h1 : db.rowOfId (-r.id) with
          | none => simp
          | some r' => rw [h1] at this; cases h2 : r'.inTable <;> simp [h2] at this ⊢
        have h2 : db.route2 r = none := by
          unfold DB.route2
          rw [((conjRow_eq_none_iff db r).mp hc).1]; rfl
        rw [h1]; simp only; rw [h2]
    refine ⟨e, hd, ?_, ?_⟩
    · simp only [hnc, iff_true]
      exact conjPdg_wrapped db F.hNoWrap p' e hd hcn
    · intro h; rw [hnc] at h; cases h
  cases hf : db.idx.rowsT.find (skey e) with
  | none =>
    rw [hf] at hok
    simp only [List.contains_eq_mem, decide_eq_true_eq] at hok
    exact wrapped (Or.inl (rowOfName_none_of_noRowOK db noRow F.hNoRow e hok))
  | some r =>
    rw [hf] at hok
    simp only [Bool.and_eq_true, beq_iff_eq] at hok
    obtain ⟨hname, hok⟩ := hok
    have hr : r ∈ db.rows := KTree.find_build_mem _ _ _ _ hf
    have hrow : db.rowOfName e = some r := hname ▸ rowOfName_of_mem db F.sorted r hr
    cases hc : db.conjRow r with
    | none => exact wrapped (Or.inr ⟨r, hrow, hc⟩)
    | some r' =>
      rw [hc] at hok
      simp only at hok
      obtain ⟨hr', hid, hback⟩ := F.inv r hr r' hc
      have hcn : db.conjName e = r'.name := by
        have := conjName_eq db F.sorted r hr
        rw [hc, hname] at this; exact this
      have hrow' : db.rowOfName r'.name = some r' := rowOfName_of_mem db F.sorted r' hr'
      cases h1 : db.idx.e2pT.find (skey r'.name) with
      | none => rw [h1] at hok; cases hok
      | some ec =>
        rw [h1] at hok
        obtain ⟨e', c⟩ := ec
        simp only [Bool.and_eq_true, beq_iff_eq] at hok
        obtain ⟨⟨he', hok2⟩, hok3⟩ := hok
        subst he'
        have hecm : (r'.name, c) ∈ db.evt2pdg := KTree.find_build_mem _ _ _ _ h1
        have hec : dget db.evt2pdg r'.name = some c := dget_of_mem _ F.ek _ _ hecm
        have hnw : hasWrapPrefix c = false := by
          have := (List.all_eq_true.mp F.hNoWrap) _ hecm
          simp only [Bool.and_eq_true, Bool.not_eq_true'] at this
          exact this.2
        have hcp : db.conjPdg p' = c := by
          unfold DB.conjPdg
          rw [hd]; simp only
          rw [hcn, hec]
        have hnc : db.noConj e = false := by
          unfold DB.noConj; rw [hrow]; simp [hc]
        cases h2 : db.idx.p2eT.find (skey c) with
        | none => rw [h2] at hok2; cases hok2
        | some ce =>
          rw [h2] at hok2
          obtain ⟨c', e''⟩ := ce
          simp only [Bool.and_eq_true, beq_iff_eq] at hok2
          obtain ⟨hc', he''⟩ := hok2
          subst hc'; subst he''
          have hcem : (c', r'.name) ∈ db.pdg2evt := KTree.find_build_mem _ _ _ _ h2
          have hce : dget db.pdg2evt c' = some r'.name := dget_of_mem _ F.pk _ _ hcem
          cases h3 : db.idx.e2pT.find (skey e) with
          | none => rw [h3] at hok3; cases hok3
          | some ep =>
            rw [h3] at hok3
            obtain ⟨e3, p3⟩ := ep
            simp only [Bool.and_eq_true, beq_iff_eq] at hok3
            obtain ⟨he3, hp3⟩ := hok3
            subst he3; subst hp3
            have hep : dget db.evt2pdg e3 = some p3 :=
              dget_of_mem _ F.ek _ _ (KTree.find_build_mem _ _ _ _ h3)
            have hcc : db.conjPdg c' = p3 := by
              unfold DB.conjPdg
              rw [hce]; simp only
              rw [hback, hname, hep]
            refine ⟨e3, hd, ?_, ?_⟩
            · rw [hcp, hnc]
              simp only [Bool.false_eq_true, iff_false]
              exact ne_wrapUnknown_of_noPrefix _ _ hnw
            · intro _
              rw [hcp, hcn]
              refine ⟨List.mem_map.mpr ⟨(c', r'.name), hcem, rfl⟩, hnw, hcc, hce, hec,
                r, r', hrow, hrow', hid⟩

/-! ### decided by the kernel over the regenerated maps -/

/-- EvtGen names used by `PDG2EvtGenNameMap` that are not names of the EvtGen table -/
def noRowNames : List String := ["unknown"]

set_option maxRecDepth 100000 in
theorem pdg2evt_keys_ok : distinctKeys (fun x : String × String => skey x.1) Gen.db.pdg2evt = true := by
  decide +kernel

set_option maxRecDepth 100000 in
theorem evt2pdg_keys_ok : distinctKeys (fun x : String × String => skey x.1) Gen.db.evt2pdg = true := by
  decide +kernel

set_option maxRecDepth 100000 in
theorem table_ids_ok : distinctKeys (fun r : PRow => ikey r.id) Gen.db.rows = true := by
  decide +kernel

set_option maxRecDepth 100000 in
theorem noRow_ok : noRowOK Gen.db noRowNames = true := by
  decide +kernel

set_option maxRecDepth 100000 in
theorem noWrap_ok : noWrapOK Gen.db = true := by
  decide +kernel

set_option maxRecDepth 100000 in
theorem pdg_entries_ok : Gen.db.pdg2evt.all (entryOK Gen.db.idx noRowNames) = true := by
  decide +kernel

/-- the keys of `PDG2EvtGenNameMap` are pairwise different -/
theorem pdg2evt_keysDistinct : KeysDistinct Gen.db.pdg2evt :=
  keysDistinct_of_distinctKeys _ pdg2evt_keys_ok

/-- the keys of `EvtGen2PDGNameMap` are pairwise different -/
theorem evt2pdg_keysDistinct : KeysDistinct Gen.db.evt2pdg :=
  keysDistinct_of_distinctKeys _ evt2pdg_keys_ok

theorem gen_tableFacts : TableFacts Gen.db noRowNames where
  sorted := table_names_sorted
  ids := table_ids_ok
  inv := fun r hr r' hc => by
    obtain ⟨h1, h2, h3, h4⟩ := (C04_table r hr).1 r' hc
    exact ⟨h2, h3, by rw [← h1]; exact h4⟩
  pk := pdg2evt_keysDistinct
  ek := evt2pdg_keysDistinct
  hNoRow := noRow_ok
  hNoWrap := noWrap_ok
  entries := pdg_entries_ok

/-- C04 (PDG names): for every PDG name `p` of the regenerated `PDG2EvtGenNameMap`, with `e` its
    EvtGen name and `c = charge_conjugate_name(p, pdg_name=True)`:
    (a) `c` is the wrapped form `ChargeConj(p)` exactly when `e` has no known conjugate (`e` is not
        in the EvtGen table, or its row has no conjugate row); otherwise `c` is a PDG name of the map
        and does not start with `ChargeConj(`;
    (b) involution: `conjPdg c = p`;
    (c) agreement with the EvtGen route: the EvtGen name of `c` is `conjName e` (and `c` is the PDG
        name of `conjName e`), whose row carries the negated PDG ID, or the same ID for a
        self-conjugate particle. -/
theorem C04_pdg_table : ∀ p ∈ Gen.db.pdg2evt.map (·.1),
    let c := Gen.db.conjPdg p
    ∃ e, dget Gen.db.pdg2evt p = some e ∧
      (c = wrapUnknown p ↔ Gen.db.noConj e = true) ∧
      (Gen.db.noConj e = false →
        c ∈ Gen.db.pdg2evt.map (·.1) ∧ hasWrapPrefix c = false ∧
        Gen.db.conjPdg c = p ∧
        dget Gen.db.pdg2evt c = some (Gen.db.conjName e) ∧
        dget Gen.db.evt2pdg (Gen.db.conjName e) = some c ∧
        ∃ r r', Gen.db.rowOfName e = some r ∧ Gen.db.rowOfName (Gen.db.conjName e) = some r' ∧
          (r'.id = -r.id ∨ r'.id = r.id)) :=
  pdgSpec_of_facts Gen.db noRowNames gen_tableFacts

/-! ### the exceptions, by name -/

/-- the members of `l` satisfying `P`, in order, have exactly the names `lits` (linear walk) -/
def filterWalk {α : Type} (P : α → Bool) (g : α → String) : List α → List String → Bool
  | [], lits => lits.isEmpty
  | x :: rest, lits =>
    bif P x then
      match lits with
      | [] => false
      | y :: ys => y == g x && filterWalk P g rest ys
    else filterWalk P g rest lits

theorem filterWalk_spec {α : Type} (P : α → Bool) (g : α → String) :
    ∀ (l : List α) (lits : List String), filterWalk P g l lits = true → (l.filter P).map g = lits
  | [], lits, h => by
    simp only [filterWalk, List.isEmpty_iff] at h
    simp [h]
  | x :: rest, lits, h => by
    unfold filterWalk at h
    cases hp : P x with
    | false =>
      rw [hp] at h; simp only [cond_false] at h
      simp only [List.filter_cons, hp, Bool.false_eq_true, if_false]
      exact filterWalk_spec P g rest lits h
    | true =>
      rw [hp] at h; simp only [cond_true] at h
      cases lits with
      | nil => simp at h
      | cons y ys =>
        simp only [Bool.and_eq_true, beq_iff_eq] at h
        simp only [List.filter_cons, hp, if_true, List.map_cons]
        rw [filterWalk_spec P g rest ys h.2, h.1]

/-- the entry's EvtGen name has a row, and the row has no conjugate row -/
def noAntiB (ix : PdgIdx) (pe : String × String) : Bool :=
  match ix.rowsT.find (skey pe.2) with
  | some r => r.name == pe.2 && (conjRowT ix.idT r).isNone
  | none => false

/-- the PDG names that are in the EvtGen table but have no known antiparticle there (not in the
    particle table and no row with the negated ID), in the order of `PDG2EvtGenNameMap` -/
def pdgNoAnti : List String :=
  ["Z'0", "Z''0", "H(2)0", "H(3)0", "H(4)0", "X(u)0", "specflav", "phasespa", "junction", "system",
   "cluster", "string", "indep", "CMshower", "SPHEaxis", "THRUaxis", "CLUSjet", "CELLjet", "B(L)0",
   "B(sL)0", "B(H)0", "B(sH)0", "Upsilon(3)(1D)", "vpho", "eta(b2)(1D)", "opticalphoton",
   "Upsilon_1(1D)", "eta(b)(2S)", "Upsilon(3)(2D)", "eta(b2)(2D)", "Upsilon(2)(2D)",
   "Upsilon(1)(2D)", "eta(b)(3S)", "chi_b0(3P)", "h_b(3P)", "X(2)(3872)", "X(1)(3872)", "geantino"]

theorem noConj_iff_of_facts (db : DB) (noRow lits : List String) (F : TableFacts db noRow)
    (hw : filterWalk (noAntiB db.idx) (·.1) db.pdg2evt lits = true) :
    ∀ pe ∈ db.pdg2evt, db.noConj pe.2 = true ↔ (pe.2 ∈ noRow ∨ pe.1 ∈ lits) := by
  intro pe hmem
  obtain ⟨p, e⟩ := pe
  have hl := filterWalk_spec _ _ _ _ hw
  have hok := (List.all_eq_true.mp F.entries) _ hmem
  unfold entryOK at hok
  simp only [conjRowT_eq db F.ids] at hok
  have hPiff : p ∈ lits ↔ noAntiB db.idx (p, e) = true := by
    rw [← hl]
    simp only [List.mem_map, List.mem_filter]
    constructor
    · rintro ⟨⟨p', e'⟩, ⟨hm', hP'⟩, rfl⟩
      have h1 := dget_of_mem _ F.pk _ _ hm'
      have h2 := dget_of_mem _ F.pk _ _ hmem
      rw [h1] at h2
      cases h2
      exact hP'
    · intro hP
      exact ⟨(p, e), ⟨hmem, hP⟩, rfl⟩
  show db.noConj e = true ↔ (e ∈ noRow ∨ p ∈ lits)
  rw [hPiff]
  unfold noAntiB DB.noConj
  simp only [conjRowT_eq db F.ids]
  cases hf : db.idx.rowsT.find (skey e) with
  | none =>
    rw [hf] at hok
    simp only [List.contains_eq_mem, decide_eq_true_eq] at hok
    rw [rowOfName_none_of_noRowOK db noRow F.hNoRow e hok]
    simp [hok]
  | some r =>
    rw [hf] at hok
    simp only [Bool.and_eq_true, beq_iff_eq] at hok
    obtain ⟨hname, _⟩ := hok
    have hr : r ∈ db.rows := KTree.find_build_mem _ _ _ _ hf
    have hrow : db.rowOfName e = some r := hname ▸ rowOfName_of_mem db F.sorted r hr
    have hnot : e ∉ noRow := by
      intro hm
      rw [rowOfName_none_of_noRowOK db noRow F.hNoRow e hm] at hrow
      cases hrow
    rw [hrow]
    simp [hname, hnot]

set_option maxRecDepth 100000 in
theorem pdgNoAnti_ok : filterWalk (noAntiB Gen.db.idx) (·.1) Gen.db.pdg2evt pdgNoAnti = true := by
  decide +kernel

/-- C04 (PDG names, the exceptions by name): the PDG names answered in wrapped form are those mapped
    to the placeholder EvtGen name `unknown` and the 38 names of `pdgNoAnti` -/
theorem C04_pdg_wrapped_names : ∀ pe ∈ Gen.db.pdg2evt,
    Gen.db.conjPdg pe.1 = wrapUnknown pe.1 ↔ (pe.2 = "unknown" ∨ pe.1 ∈ pdgNoAnti) := by
  intro pe hmem
  have h1 := noConj_iff_of_facts Gen.db noRowNames pdgNoAnti gen_tableFacts pdgNoAnti_ok pe hmem
  obtain ⟨e, hd, hiff, _⟩ := C04_pdg_table pe.1 (List.mem_map.mpr ⟨pe, hmem, rfl⟩)
  have hd' := dget_of_mem _ pdg2evt_keysDistinct pe.1 pe.2 hmem
  rw [hd'] at hd
  cases hd
  rw [hiff, h1]
  simp [noRowNames]

/-! ### examples (decided on the model directly, not through the theorem) -/

set_option maxRecDepth 100000 in
example : Gen.db.conjPdg "K+" = "K-" ∧ Gen.db.conjPdg "B0" = "B~0" ∧
    Gen.db.conjPdg "pi0" = "pi0" ∧ Gen.db.conjPdg "Z'0" = "ChargeConj(Z'0)" ∧
    Gen.db.conjPdg "Graviton" = "ChargeConj(Graviton)" := by
  decide +kernel

example : "K+" ∈ Gen.db.pdg2evt.map (·.1) := by
  have h : dget Gen.db.pdg2evt "K+" = some "K+" := by decide +kernel
  exact List.mem_map.mpr ⟨_, dget_mem _ _ _ h, rfl⟩

end DL
