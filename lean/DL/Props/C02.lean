/-
C02 — layout, comments, line ends and file packaging never change what is parsed.
`readDoc` (DL/Model/DecRead.lean) is the reader model; `concatFiles` / `decodeFile`
(DL/Model/DecFiles.lean) is what the constructor makes of the files.  Every query is a function of the
statement list, so two texts that read to the same statements answer every query alike.
-/
import DL.Model.DecRead
import DL.Model.DecFiles
import DL.Model.DecSem
import DL.Lemmas.ReadRT
import DL.Lemmas.ReadRTDecay
namespace DL

/-! ### packaging -/

/-- splitting the statements over several files passed in order is the same as one file: the text
    handed to the parser is the concatenation of what each file contributes -/
theorem C02_split (fs₁ fs₂ : List (List Char)) :
    concatFiles (fs₁ ++ fs₂) = concatFiles fs₁ ++ concatFiles fs₂ := by
  simp [concatFiles, List.flatMap_append]

/-- a leading UTF-8 byte order mark in an input file is dropped by decoding -/
theorem C02_bom (cs : List Char) (h : cs.head? ≠ some '﻿') :
    decodeFile ('﻿' :: cs) = decodeFile cs := by
  cases cs with
  | nil => rfl
  | cons c r =>
    simp only [List.head?_cons, ne_eq, Option.some.injEq] at h
    simp only [decodeFile]
    split
    · rename_i heq; simp only [List.cons.injEq] at heq; exact absurd heq.1 h
    · rfl

/-- CRLF line ends are the same as LF line ends for a file: writing every line feed of a text (that
    has no carriage return) as CR LF and decoding gives the text back -/
def toCrlf : List Char → List Char
  | [] => []
  | c :: r => if c = '\n' then '\r' :: '\n' :: toCrlf r else c :: toCrlf r

theorem C02_crlf_file (t : List Char) (h : '\r' ∉ t) : translateNewlines (toCrlf t) = t := by
  unfold translateNewlines
  induction t with
  | nil => rfl
  | cons c r ih =>
    have hr : '\r' ∉ r := fun hm => h (List.mem_cons_of_mem _ hm)
    have hc : c ≠ '\r' := fun e => h (by rw [e]; exact List.mem_cons_self)
    by_cases hn : c = '\n'
    · subst hn
      simp [toCrlf, translateNewlinesAux, ih hr]
    · simp [toCrlf, translateNewlinesAux, hn, hc, ih hr]

/-- a lone `End` line (optionally indented, optionally followed by a comment) closes a file and is
    dropped, also when the file is not the last one; `Enddecay` and words that merely start with
    `End` are kept -/
theorem C02_end_line :
    isLoneEnd "End\n".toList = true ∧ isLoneEnd "  End # last\n".toList = true ∧ isLoneEnd "\tEnd".toList = true ∧
    isLoneEnd "Enddecay\n".toList = false ∧ isLoneEnd "Endpoint 2.0;\n".toList = false ∧
    isLoneEnd "End x\n".toList = false := by decide

theorem C02_end_dropped (pre : List (List Char)) (e : List Char) (he : isLoneEnd e = true)
    (hp : ∀ l ∈ pre, isLoneEnd l = false) :
    ((pre ++ [e]).filter (fun l => !isLoneEnd l)).flatten = pre.flatten := by
  rw [List.filter_append]
  have h1 : pre.filter (fun l => !isLoneEnd l) = pre := by
    rw [List.filter_eq_self]; intro l hl; simp [hp l hl]
  simp [h1, he]

/-! ### spacing, comments, blank lines: the reader's primitives -/

theorem skipWs_blanks (gap rest : List Char) (hg : ∀ c ∈ gap, isBlankC c = true) :
    skipWs (gap ++ rest) = skipWs rest := by
  induction gap with
  | nil => rfl
  | cons c g ih =>
    have hc : isBlankC c = true := hg c List.mem_cons_self
    simp only [List.cons_append, skipWs, hc, if_true]
    exact ih (fun d hd => hg d (List.mem_cons_of_mem _ hd))

theorem skipWs_idem (cs : List Char) : skipWs (skipWs cs) = skipWs cs := by
  induction cs with
  | nil => rfl
  | cons c r ih =>
    by_cases hc : isBlankC c = true
    · simp [skipWs, hc, ih]
    · simp [skipWs, hc]

/-- indentation after a line end, and trailing blanks before it, belong to the line end -/
theorem takeNewline_lf (ind rest : List Char) (hi : ∀ c ∈ ind, isBlankC c = true) :
    takeNewline ('\n' :: (ind ++ rest)) = some (skipWs rest) := by
  simp [takeNewline, skipWs_blanks ind rest hi]

theorem takeNewline_crlf (ind rest : List Char) (hi : ∀ c ∈ ind, isBlankC c = true) :
    takeNewline ('\r' :: '\n' :: (ind ++ rest)) = some (skipWs rest) := by
  simp [takeNewline, skipWs_blanks ind rest hi]

/-- LF and CRLF line ends are the same token for the reader -/
theorem C02_crlf_token (rest : List Char) :
    takeNewline ('\r' :: '\n' :: rest) = takeNewline ('\n' :: rest) := by
  simp [takeNewline]

theorem dropLine_comment (body rest : List Char) (hb : '\n' ∉ body) :
    dropLine (body ++ '\n' :: rest) = '\n' :: rest := by
  induction body with
  | nil => simp [dropLine]
  | cons c b ih =>
    have hc : (c == '\n') = false := by
      simp only [beq_eq_false_iff_ne, ne_eq]; intro e; apply hb; rw [e]; exact List.mem_cons_self
    simp only [List.cons_append, dropLine, hc, Bool.false_eq_true, if_false]
    exact ih (fun hm => hb (List.mem_cons_of_mem _ hm))

/-- a whole comment is one line-end token where a line end is acceptable -/
theorem takeNewline_comment (body rest : List Char) (hb : '\n' ∉ body) :
    takeNewline ('#' :: (body ++ '\n' :: rest)) = some ('\n' :: rest) := by
  simp [takeNewline, dropLine_comment body rest hb]

/-- any number of blank lines, comment lines and indentation between two statements is absorbed -/
theorem newlines0_lf (f : Nat) (ind rest : List Char) (hi : ∀ c ∈ ind, isBlankC c = true) :
    newlines0 (f + 1) ('\n' :: (ind ++ rest)) = newlines0 f (skipWs rest) := by
  simp only [newlines0]
  have : skipWs ('\n' :: (ind ++ rest)) = '\n' :: (ind ++ rest) := by simp [skipWs, isBlankC]
  rw [this, takeNewline_lf ind rest hi]

/-- where a line end is not acceptable a comment is skipped like blanks (`%ignore COMMENT`) -/
theorem skipIgnored_comment (f : Nat) (gap body rest : List Char) (hg : ∀ c ∈ gap, isBlankC c = true)
    (hb : '\n' ∉ body) :
    skipIgnored false (f + 1) (gap ++ '#' :: (body ++ '\n' :: rest)) = skipIgnored false f ('\n' :: rest) := by
  simp only [skipIgnored]
  rw [skipWs_blanks gap _ hg]
  have : skipWs ('#' :: (body ++ '\n' :: rest)) = '#' :: (body ++ '\n' :: rest) := by simp [skipWs, isBlankC]
  rw [this]
  simp [dropLine_comment body rest hb]

/-! ### queries -/

/-- two texts that read to the same statements give identical answers to every query: every query
    is a function of the statement list (here: the tables; the same holds for each `dict*` query by
    construction) -/
theorem C02_queries (g : RGrammar) (db : DB) (o : Opts) (t₁ t₂ : String) (h : readDoc g t₁ = readDoc g t₂) :
    (readDoc g t₁).map (tables db o) = (readDoc g t₂).map (tables db o) := by rw [h]

/-- non-vacuity: spacing, indentation, a comment, CRLF, commas, a wrapped parameter list, doubled
    semicolons, blank lines and a final End line do not change the statements read -/
def exG : RGrammar := { labelChars := "abcdefghijklmnopqrstuvwxyzABCDEFGHIJKLMNOPQRSTUVWXYZ0123456789/-+*_().'~".toList,
                        models := ["PHSP", "HELAMP"] }
def exPlain : String := "Alias a b\nDecay X\n0.5 a b HELAMP 1.0 x;\nEnddecay\n"
def exFancy : String := "# head\r\n\r\n  Alias   a\tb # tail\r\nDecay X\n\n   0.5  a b   HELAMP 1.0 ,\n      x ; ;\n# c\nEnddecay\n\nEnd\n"


/-! ### the reader reads back what is written (DL/Lemmas/ReadRT.lean, DL/Lemmas/ReadRTDecay.lean)

`ReadRT.renderD ℓ d` writes the statements `d` with the layout `ℓ`: any non-empty runs of blanks and
tabs between the tokens, indentation, trailing blanks, an optional comment before each line end, LF or
CRLF, any number of blank and comment lines between the statements (and between the lines of a decay
block), optional blanks around `:` and `=`, model parameters separated by blanks, commas, line ends
and comments, optional blanks before the semicolon, doubled semicolons, a closing `End` line.  Whatever the layout, `readDoc` gives the
statements back; hence any two layouts of the same statements read alike. -/

/-- Stage 1: label-only statements in the canonical layout (single blanks, one statement per line) -/
theorem C02_read_simple_flat (g : RGrammar) (hg : ReadRT.GoodGrammar g) (d : Doc)
    (hd : ∀ s ∈ d, ReadRT.FlatOK g s) :
    readDoc g (String.ofList (ReadRT.renderDocSimple d)) = .ok d :=
  ReadRT.read_simple_flat g hg d hd

/-- Stage 2 (core): a well formed numeric literal, followed by a character that cannot continue a
    literal, is read back exactly (first-match semantics of `SIGNED_NUMBER`) -/
theorem C02_readNumber_show (n : NumLit) (hn : ReadRT.GoodNum n) (c : Char) (rest : List Char)
    (hc : isDigit c = false ∧ c ≠ '.' ∧ c ≠ 'e' ∧ c ≠ 'E') :
    readNumber (n.show ++ c :: rest) = some (n, c :: rest) :=
  ReadRT.readNumber_show n hn (c :: rest) hc

theorem C02_readNumber_show_end (n : NumLit) (hn : ReadRT.GoodNum n) :
    readNumber n.show = some (n, []) := by
  simpa using ReadRT.readNumber_show n hn [] trivial

/-- Stage 2: all one-line statement kinds (labels, numbers, `:` and `=`), canonical layout -/
theorem C02_read_simple_num (g : RGrammar) (hg : ReadRT.GoodGrammar g) (d : Doc)
    (hd : ∀ s ∈ d, ReadRT.FlatNumOK g s) :
    readDoc g (String.ofList (ReadRT.renderDocSimple d)) = .ok d :=
  ReadRT.read_simple_num g hg d hd

/-- Stage 3: every layout of one-line statements reads back to the statements -/
theorem C02_read_layout_flat (g : RGrammar) (hg : ReadRT.GoodGrammar g) (ℓ : ReadRT.DocLayout)
    (hℓ : ReadRT.GoodLayout ℓ) (d : Doc) (hd : ∀ s ∈ d, ReadRT.FlatNumOK g s) :
    readDoc g (String.ofList (ReadRT.render ℓ d)) = .ok d :=
  ReadRT.read_layout_flat g hg ℓ hℓ d hd

/-- C02 for one-line statements: two layouts of the same statements read alike -/
theorem C02_layout_flat (g : RGrammar) (hg : ReadRT.GoodGrammar g) (ℓ₁ ℓ₂ : ReadRT.DocLayout)
    (h₁ : ReadRT.GoodLayout ℓ₁) (h₂ : ReadRT.GoodLayout ℓ₂) (d : Doc) (hd : ∀ s ∈ d, ReadRT.FlatNumOK g s) :
    readDoc g (String.ofList (ReadRT.render ℓ₁ d)) = readDoc g (String.ofList (ReadRT.render ℓ₂ d)) :=
  ReadRT.read_layout_irrelevant g hg ℓ₁ ℓ₂ h₁ h₂ d hd

/-- Stage 4: every layout of a document of one-line statements, `ModelAlias` statements and decay
    blocks (daughters, optional `PHOTOS`, model names with or without parameters, model aliases)
    reads back to the statements -/
theorem C02_read_layout_decay (g : RGrammar) (hG : ReadRT.GoodDecayGrammar g) (ℓ : ReadRT.DocLayoutD)
    (hℓ : ReadRT.GoodLayoutD ℓ) (d : Doc) (hd : ∀ s ∈ d, ReadRT.StmtOK g s) :
    readDoc g (String.ofList (ReadRT.renderD ℓ d)) = .ok d :=
  ReadRT.read_layout_decay g hG ℓ hℓ d hd

/-- C02 for all statement kinds: two layouts of the same statements read alike, and so answer
    every query alike (`C02_queries`) -/
theorem C02_layout_decay (g : RGrammar) (hG : ReadRT.GoodDecayGrammar g) (ℓ₁ ℓ₂ : ReadRT.DocLayoutD)
    (h₁ : ReadRT.GoodLayoutD ℓ₁) (h₂ : ReadRT.GoodLayoutD ℓ₂) (d : Doc) (hd : ∀ s ∈ d, ReadRT.StmtOK g s) :
    readDoc g (String.ofList (ReadRT.renderD ℓ₁ d)) = readDoc g (String.ofList (ReadRT.renderD ℓ₂ d)) :=
  ReadRT.read_layout_decay_irrelevant g hG ℓ₁ ℓ₂ h₁ h₂ d hd

theorem C02_layout_queries (g : RGrammar) (hG : ReadRT.GoodDecayGrammar g) (db : DB) (o : Opts)
    (ℓ₁ ℓ₂ : ReadRT.DocLayoutD) (h₁ : ReadRT.GoodLayoutD ℓ₁) (h₂ : ReadRT.GoodLayoutD ℓ₂) (d : Doc)
    (hd : ∀ s ∈ d, ReadRT.StmtOK g s) :
    (readDoc g (String.ofList (ReadRT.renderD ℓ₁ d))).map (tables db o) =
    (readDoc g (String.ofList (ReadRT.renderD ℓ₂ d))).map (tables db o) :=
  C02_queries g db o _ _ (C02_layout_decay g hG ℓ₁ ℓ₂ h₁ h₂ d hd)

/-! non-vacuity: the example grammar, a document with every statement kind, and a layout with
    tabs, double blanks, indentation, trailing blanks, comments, CRLF, blank and comment lines and a
    blank before the semicolon satisfy the hypotheses (all decidable) -/

def exDocRT : Doc := [
  .alias "a" "b", .chargeConj "B0" "anti-B0", .cdecay "anti-B0", .copyDecay "x" "y",
  .lsDef "LSFLAT" "rho0", .incFactor "IncludeBirthFactor" "K*0" false, .globalPhotos true,
  .define "dm" "0.507e12", .particleDef "B0" "5.2" (some ".1"), .particleDef "B0" "5.2" none,
  .pythia "PythiaBothParam" "MSTJ(26)" "x" (.num "0"), .pythia "PythiaAliasParam" "MSTJ(26)" "x" (.word "foo"),
  .jetset "MSTJ(26)" "-1", .setLsBW "rho0" "3.0", .setLsPW "a" "b" "c" "12", .changeMass "ChangeMassMin" "rho0" "1.",
  .decay "B0" [
    { bf := "0.5", ds := ["a", "K*0"], photos := false,
      model := .named "HELAMP" (some [.num "1.0", .word "x", .num "-2e3"]) },
    { bf := ".25", ds := ["a"], photos := true, model := .named "PHSP" none },
    { bf := "1", ds := [], photos := false, model := .alias "myModel" },
    { bf := "1", ds := ["x", "y", "z"], photos := true, model := .alias "myModel" },
    { bf := "0.1", ds := ["a"], photos := false,
      model := .named "HELAMP" (some [.word "-dm", .word "+x", .num "1.0", .word "-fD", .word "PHSP", .word "-A*B"]) },
    { bf := "0.1", ds := ["-a"], photos := false, model := .named "PHSP" (some []) }],
  .modelAlias "myModel" (.named "HELAMP" (some [.num "1", .word "-q2", .word "-z~"])),
  .decay "X" []]

def exLineLayout : ReadRT.LLayout :=
  { indent := [' ', ' '], gaps := [['\t'], [' ', ' ']], trail := [' '], comment := some " c".toList, crlf := true,
    follow := [⟨[' '], none, true⟩, ⟨[], some [], false⟩], semiGap := [' '],
    pseps := [[.blank ' '], [.comma], [.blank '\t', .newline (some " wrapped".toList) true, .blank ' ']],
    pend := [.newline none false, .comma], semis := [[], [' ']] }

def exLayoutRT : ReadRT.DocLayoutD :=
  { pre := [⟨[' '], some "head".toList, true⟩, ⟨[], none, false⟩],
    stmts := List.replicate 10 { main := exLineLayout } ++
      List.replicate 3 { main := { exLineLayout with opGaps := [[], [' ', ' '], [], ['\t']] } } ++
      List.replicate 3 { main := exLineLayout } ++
      [{ main := exLineLayout, lines := [exLineLayout, {}, exLineLayout],
         close := { indent := ['\t'], comment := some ['x'] } }],
    endLine := some { indent := [' '], trail := [' '], comment := some " the end".toList } }

example : ReadRT.GoodGrammar exG := by decide
example : ReadRT.GoodDecayGrammar exG := by decide
example : ReadRT.GoodLayoutD exLayoutRT := by decide
example : ∀ s ∈ exDocRT, ReadRT.StmtOK exG s := by decide
example : ∀ s ∈ exDocRT.take 7, ReadRT.FlatOK exG s := by decide
example : ∀ s ∈ exDocRT.take 16, ReadRT.FlatNumOK exG s := by decide

/-- word parameters may start with a sign when no number follows it (the `-NAME` form for the negated
    value of a `Define`d name); a word needs to be no model name only right after a numeric parameter;
    a parameter list may be present but empty (written with a comma) -/
def exSignedLine : DLine :=
  { bf := "0.5", ds := ["K*0", "-pi"], photos := false,
    model := .named "HELAMP" (some [.word "-dm", .word "+x", .word "PHSP", .num "-2", .word "-x1"]) }

example : ReadRT.LineOK exG exSignedLine := by decide
example : ReadRT.StmtOK exG (.decay "B0" [exSignedLine, { exSignedLine with model := .named "PHSP" (some []) }]) := by decide
example : ReadRT.StmtOK exG (.modelAlias "m" (.named "HELAMP" (some [.word "-dm", .word "+x"]))) := by decide
example : String.ofList (ReadRT.renderD {} [.decay "B0" [exSignedLine, { exSignedLine with model := .named "PHSP" (some []) }]]) =
    "Decay B0\n0.5 K*0 -pi HELAMP -dm +x PHSP -2 -x1;\n0.5 K*0 -pi PHSP,;\nEnddecay\n" := by decide
-- what is still refused: a sign followed by a number start, a model name or PHOTOS right after a number
example : ¬ ReadRT.ParamOK exG (.word "-1x") ∧ ¬ ReadRT.ParamOK exG (.word "+.5a") ∧
    ¬ ReadRT.ParamsOK exG false [.num "1", .word "PHSP"] ∧ ¬ ReadRT.ParamsOK exG false [.num "1", .word "PHOTOS"] ∧
    ReadRT.ParamsOK exG false [.word "PHSP", .word "PHOTOS", .num "1", .word "-dm"] := by decide

/-- Pythia and JetSet statements without blanks around `:` and `=` -/
example : String.ofList (ReadRT.renderD { stmts := [{ main := { opGaps := [[], [], [], []] } }, { main := { opGaps := [[], []] } }] }
      [.pythia "PythiaBothParam" "MSTJ(26)" "x" (.word "-a"), .jetset "MSTU(1)" "-1"]) =
    "PythiaBothParam MSTJ(26):x=-a\nJetSetPar MSTU(1)=-1\n" := by decide
example : ReadRT.GoodLayoutD { stmts := [{ main := { opGaps := [[], [], [], []] } }, { main := { opGaps := [[], []] } }] } := by decide
example : ∀ s ∈ [Stmt.pythia "PythiaBothParam" "MSTJ(26)" "x" (.word "-a"), .jetset "MSTU(1)" "-1"], ReadRT.StmtOK exG s := by
  decide

/-- the plain example text above is the canonical rendering of its statements, so the round trip
    theorem (not an evaluation of the reader) says what it reads to -/
def exPlainDoc : Doc := [.alias "a" "b",
  .decay "X" [{ bf := "0.5", ds := ["a", "b"], photos := false, model := .named "HELAMP" (some [.num "1.0", .word "x"]) }]]

theorem C02_exPlain : readDoc exG exPlain = .ok exPlainDoc := by
  have h : exPlain = String.ofList (ReadRT.renderD {} exPlainDoc) := by decide
  rw [h]
  exact C02_read_layout_decay exG (by decide) {} (by decide) exPlainDoc (by decide)

/-- the layout of the fancy example text: a comment and an empty CRLF line first, indentation, wide
    gaps, a tab, a trailing comment, CRLF; a blank line after `Decay X`; in the decay line a comma and a
    wrapped parameter list, doubled semicolons, a comment line after it; a blank line after
    `Enddecay`; the closing `End` line -/
def exFancyLayout : ReadRT.DocLayoutD :=
  { pre := [⟨[], some " head".toList, true⟩, ⟨[], none, true⟩],
    stmts := [
      { main := { indent := "  ".toList, gaps := ["   ".toList, ['\t']], trail := [' '],
                  comment := some " tail".toList, crlf := true } },
      { main := { follow := [⟨[], none, false⟩] },
        lines := [{ indent := "   ".toList, gaps := ["  ".toList, [' '], [' '], "   ".toList],
                    pseps := [[.blank ' '], [.blank ' ', .comma, .newline none false] ++ List.replicate 6 (.blank ' ')],
                    pend := [.blank ' '], semis := [[' ']], follow := [⟨[], some " c".toList, false⟩] }],
        close := { follow := [⟨[], none, false⟩] } }],
    endLine := some {} }

/-- the fancy example text is another layout of the same statements, so (by the theorem) it reads
    to the same statements as the plain text -/
theorem C02_exFancy : readDoc exG exFancy = .ok exPlainDoc := by
  have h : exFancy = String.ofList (ReadRT.renderD exFancyLayout exPlainDoc) := by decide
  rw [h]
  exact C02_read_layout_decay exG (by decide) exFancyLayout (by decide) exPlainDoc (by decide)

theorem C02_exFancy_exPlain : readDoc exG exFancy = readDoc exG exPlain := by
  rw [C02_exFancy, C02_exPlain]

end DL
