/-
C02 — layout, comments, line ends and file packaging never change what is parsed.
`readDoc` (DL/Model/DecRead.lean) is the reader model; `concatFiles` / `decodeFile`
(DL/Model/DecFiles.lean) is what the constructor makes of the files.  Every query is a function of the
statement list, so two texts that read to the same statements answer every query alike.
-/
import DL.Model.DecRead
import DL.Model.DecFiles
import DL.Model.DecSem
namespace DL

/-! ### packaging -/

/-- splitting the statements over several files passed in order is the same as one file: the text
    handed to the parser is the concatenation of what each file contributes -/
theorem C02_split (fs₁ fs₂ : List (List Char)) :
    concatFiles (fs₁ ++ fs₂) = concatFiles fs₁ ++ concatFiles fs₂ := by
  simp [concatFiles, List.flatMap_append]

/-- a leading UTF-8 byte order mark in an input file is dropped by decoding -/
theorem C02_bom (cs : List Char) (h : cs.head? ≠ some '﻿') :
    decodeFile ('﻿' :: cs) = decodeFile cs := by
  cases cs with
  | nil => rfl
  | cons c r =>
    simp only [List.head?_cons, ne_eq, Option.some.injEq] at h
    simp only [decodeFile]
    split
    · rename_i heq; simp only [List.cons.injEq] at heq; exact absurd heq.1 h
    · rfl

/-- CRLF line ends are the same as LF line ends for a file: writing every line feed of a text (that
    has no carriage return) as CR LF and decoding gives the text back -/
def toCrlf : List Char → List Char
  | [] => []
  | c :: r => if c = '\n' then '\r' :: '\n' :: toCrlf r else c :: toCrlf r

theorem C02_crlf_file (t : List Char) (h : '\r' ∉ t) : translateNewlines (toCrlf t) = t := by
  unfold translateNewlines
  induction t with
  | nil => rfl
  | cons c r ih =>
    have hr : '\r' ∉ r := fun hm => h (List.mem_cons_of_mem _ hm)
    have hc : c ≠ '\r' := fun e => h (by rw [e]; exact List.mem_cons_self)
    by_cases hn : c = '\n'
    · subst hn
      simp [toCrlf, translateNewlinesAux, ih hr]
    · simp [toCrlf, translateNewlinesAux, hn, hc, ih hr]

/-- a lone `End` line (optionally indented, optionally followed by a comment) closes a file and is
    dropped, also when the file is not the last one; `Enddecay` and words that merely start with
    `End` are kept -/
theorem C02_end_line :
    isLoneEnd "End\n".toList = true ∧ isLoneEnd "  End # last\n".toList = true ∧ isLoneEnd "\tEnd".toList = true ∧
    isLoneEnd "Enddecay\n".toList = false ∧ isLoneEnd "Endpoint 2.0;\n".toList = false ∧
    isLoneEnd "End x\n".toList = false := by decide

theorem C02_end_dropped (pre : List (List Char)) (e : List Char) (he : isLoneEnd e = true)
    (hp : ∀ l ∈ pre, isLoneEnd l = false) :
    ((pre ++ [e]).filter (fun l => !isLoneEnd l)).flatten = pre.flatten := by
  rw [List.filter_append]
  have h1 : pre.filter (fun l => !isLoneEnd l) = pre := by
    rw [List.filter_eq_self]; intro l hl; simp [hp l hl]
  simp [h1, he]

/-! ### spacing, comments, blank lines: the reader's primitives -/

theorem skipWs_blanks (gap rest : List Char) (hg : ∀ c ∈ gap, isBlankC c = true) :
    skipWs (gap ++ rest) = skipWs rest := by
  induction gap with
  | nil => rfl
  | cons c g ih =>
    have hc : isBlankC c = true := hg c List.mem_cons_self
    simp only [List.cons_append, skipWs, hc, if_true]
    exact ih (fun d hd => hg d (List.mem_cons_of_mem _ hd))

theorem skipWs_idem (cs : List Char) : skipWs (skipWs cs) = skipWs cs := by
  induction cs with
  | nil => rfl
  | cons c r ih =>
    by_cases hc : isBlankC c = true
    · simp [skipWs, hc, ih]
    · simp [skipWs, hc]

/-- indentation after a line end, and trailing blanks before it, belong to the line end -/
theorem takeNewline_lf (ind rest : List Char) (hi : ∀ c ∈ ind, isBlankC c = true) :
    takeNewline ('\n' :: (ind ++ rest)) = some (skipWs rest) := by
  simp [takeNewline, skipWs_blanks ind rest hi]

theorem takeNewline_crlf (ind rest : List Char) (hi : ∀ c ∈ ind, isBlankC c = true) :
    takeNewline ('\r' :: '\n' :: (ind ++ rest)) = some (skipWs rest) := by
  simp [takeNewline, skipWs_blanks ind rest hi]

/-- LF and CRLF line ends are the same token for the reader -/
theorem C02_crlf_token (rest : List Char) :
    takeNewline ('\r' :: '\n' :: rest) = takeNewline ('\n' :: rest) := by
  simp [takeNewline]

theorem dropLine_comment (body rest : List Char) (hb : '\n' ∉ body) :
    dropLine (body ++ '\n' :: rest) = '\n' :: rest := by
  induction body with
  | nil => simp [dropLine]
  | cons c b ih =>
    have hc : (c == '\n') = false := by
      simp only [beq_eq_false_iff_ne, ne_eq]; intro e; apply hb; rw [e]; exact List.mem_cons_self
    simp only [List.cons_append, dropLine, hc, Bool.false_eq_true, if_false]
    exact ih (fun hm => hb (List.mem_cons_of_mem _ hm))

/-- a whole comment is one line-end token where a line end is acceptable -/
theorem takeNewline_comment (body rest : List Char) (hb : '\n' ∉ body) :
    takeNewline ('#' :: (body ++ '\n' :: rest)) = some ('\n' :: rest) := by
  simp [takeNewline, dropLine_comment body rest hb]

/-- any number of blank lines, comment lines and indentation between two statements is absorbed -/
theorem newlines0_lf (f : Nat) (ind rest : List Char) (hi : ∀ c ∈ ind, isBlankC c = true) :
    newlines0 (f + 1) ('\n' :: (ind ++ rest)) = newlines0 f (skipWs rest) := by
  simp only [newlines0]
  have : skipWs ('\n' :: (ind ++ rest)) = '\n' :: (ind ++ rest) := by simp [skipWs, isBlankC]
  rw [this, takeNewline_lf ind rest hi]

/-- where a line end is not acceptable a comment is skipped like blanks (`%ignore COMMENT`) -/
theorem skipIgnored_comment (f : Nat) (gap body rest : List Char) (hg : ∀ c ∈ gap, isBlankC c = true)
    (hb : '\n' ∉ body) :
    skipIgnored false (f + 1) (gap ++ '#' :: (body ++ '\n' :: rest)) = skipIgnored false f ('\n' :: rest) := by
  simp only [skipIgnored]
  rw [skipWs_blanks gap _ hg]
  have : skipWs ('#' :: (body ++ '\n' :: rest)) = '#' :: (body ++ '\n' :: rest) := by simp [skipWs, isBlankC]
  rw [this]
  simp [dropLine_comment body rest hb]

/-! ### queries -/

/-- two texts that read to the same statements give identical answers to every query: every query
    is a function of the statement list (here: the tables; the same holds for each `dict*` query by
    construction) -/
theorem C02_queries (g : RGrammar) (db : DB) (o : Opts) (t₁ t₂ : String) (h : readDoc g t₁ = readDoc g t₂) :
    (readDoc g t₁).map (tables db o) = (readDoc g t₂).map (tables db o) := by rw [h]

/-- non-vacuity: spacing, indentation, a comment, CRLF, commas, a wrapped parameter list, doubled
    semicolons, blank lines and a final End line do not change the statements read -/
def exG : RGrammar := { labelChars := "abcdefghijklmnopqrstuvwxyzABCDEFGHIJKLMNOPQRSTUVWXYZ0123456789/-+*_().'~".toList,
                        models := ["PHSP", "HELAMP"] }
def exPlain : String := "Alias a b\nDecay X\n0.5 a b HELAMP 1.0 x;\nEnddecay\n"
def exFancy : String := "# head\r\n\r\n  Alias   a\tb # tail\r\nDecay X\n\n   0.5  a b   HELAMP 1.0 ,\n      x ; ;\n# c\nEnddecay\n\nEnd\n"

end DL
