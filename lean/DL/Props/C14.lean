/-
C14 — descriptor format settings are scoped and validated.
The specification is the plain stack model the property names: a stack of (context object, format
in force when it was entered).  `FState.step` (DL/Model/Descriptor.lean) is the code: a class-level
format plus, per context object, its own list of saved formats.  The theorem is a refinement: on
every well-nested history the code's format in force and every answer are the stack model's.
-/
import DL.Model.Descriptor
namespace DL

/-- the stack model -/
structure SSpec where
  cur : Fmt
  stack : List (Nat × Fmt)     -- (object entered, format in force at that moment), innermost first
  pats : List Fmt              -- patterns of the objects created so far
  deriving Repr

def SSpec.init : SSpec := { cur := Fmt.default, stack := [], pats := [] }

/-- one operation of the stack model; `none` when the history is not well nested (a context is left
    that is not the innermost one entered) -/
def SSpec.step (a : SSpec) : FOp → Option (SSpec × FOut)
  | .create t u => some ({ a with pats := a.pats ++ [{ top := t, sub := u }] }, .ok)
  | .enter i =>
    match a.pats[i]? with
    | none => some (a, .badIndex)
    | some f =>
      if validPair f.top f.sub then some ({ a with cur := f, stack := (i, a.cur) :: a.stack }, .ok)
      else some (a, .rejected)
  | .leave i =>
    match a.stack with
    | (j, old) :: rest => if j = i then some ({ a with cur := old, stack := rest }, .ok) else none
    | [] => none
  | .set t u =>
    if validPair t u then some ({ a with cur := { top := t, sub := u } }, .ok) else some (a, .rejected)
  | .render => some (a, .shown (a.cur.render "M" "a b" true) (a.cur.render "M" "a b" false))

/-- saved formats of object `i` according to the stack model -/
def savedOf (stack : List (Nat × Fmt)) (i : Nat) : List Fmt := (stack.filter (fun p => p.1 == i)).map (·.2)

/-- the refinement relation -/
structure Refines (s : FState) (a : SSpec) : Prop where
  cur : s.cur = a.cur
  pats : s.objs.map (·.1) = a.pats
  idx : ∀ p ∈ a.stack, p.1 < a.pats.length
  saved : ∀ i f sv, s.objs[i]? = some (f, sv) → sv = savedOf a.stack i

theorem getElem?_setNth {α : Type} : ∀ (l : List α) (n : Nat) (a : α) (i : Nat),
    (setNth l n a)[i]? = if i = n ∧ n < l.length then some a else l[i]?
  | [], n, a, i => by simp [setNth]
  | x :: r, 0, a, i => by
    cases i <;> simp [setNth]
  | x :: r, n + 1, a, i => by
    cases i with
    | zero => simp [setNth]
    | succ i => simp [setNth, getElem?_setNth r n a i]

theorem map_fst_setNth {β γ : Type} (l : List (β × γ)) (n : Nat) (b : β) (c c' : γ)
    (h : l[n]? = some (b, c)) : (setNth l n (b, c')).map (·.1) = l.map (·.1) := by
  induction l generalizing n with
  | nil => simp [setNth]
  | cons x r ih =>
    cases n with
    | zero => simp at h; subst h; simp [setNth]
    | succ n => simp at h; simp [setNth, ih n h]

theorem init_refines : Refines FState.init SSpec.init :=
  ⟨rfl, rfl, by intro p hp; simp [SSpec.init] at hp, by intro i f sv h; simp [FState.init] at h⟩

theorem objs_get_of_pats {s : FState} {a : SSpec} (hp : s.objs.map (·.1) = a.pats) (i : Nat) :
    (a.pats[i]? = none → s.objs[i]? = none) ∧
    (∀ f, a.pats[i]? = some f → ∃ sv, s.objs[i]? = some (f, sv)) := by
  rw [← hp]
  constructor
  · intro h; simpa using h
  · intro f h
    simp only [List.getElem?_map, Option.map_eq_some_iff] at h
    obtain ⟨⟨f', sv⟩, h1, h2⟩ := h
    simp only at h2; subst h2
    exact ⟨sv, h1⟩

theorem savedOf_cons_same (i : Nat) (c : Fmt) (st : List (Nat × Fmt)) :
    savedOf ((i, c) :: st) i = c :: savedOf st i := by simp [savedOf]

theorem savedOf_cons_other (i j : Nat) (c : Fmt) (st : List (Nat × Fmt)) (h : i ≠ j) :
    savedOf ((i, c) :: st) j = savedOf st j := by
  have : (i == j) = false := by simpa using h
  simp [savedOf, this]

/-- C14 (refinement): one well-nested step of the code is the step of the stack model, with the
    same answer -/
theorem C14_refine_step (s : FState) (a : SSpec) (op : FOp) (a' : SSpec) (o : FOut)
    (hR : Refines s a) (hs : a.step op = some (a', o)) :
    Refines (s.step op).1 a' ∧ (s.step op).2 = o := by
  obtain ⟨hc, hp, hidx, hsv⟩ := hR
  have hlen : s.objs.length = a.pats.length := by rw [← hp]; simp
  cases op with
  | create t u =>
    simp only [SSpec.step, Option.some.injEq, Prod.mk.injEq] at hs
    obtain ⟨rfl, rfl⟩ := hs
    refine ⟨⟨hc, by simp [FState.step, hp], ?_, ?_⟩, by first | rfl | trivial⟩
    · intro p hpm
      have := hidx p hpm
      simp only [List.length_append, List.length_cons, List.length_nil]; omega
    · intro i f sv h
      simp only [FState.step] at h
      by_cases hi : i < s.objs.length
      · rw [List.getElem?_append_left hi] at h
        exact hsv i f sv h
      · rw [List.getElem?_append_right (by omega)] at h
        by_cases h0 : i - s.objs.length = 0
        · simp only [h0, List.getElem?_cons_zero, Option.some.injEq, Prod.mk.injEq] at h
          obtain ⟨_, rfl⟩ := h
          have hidx' : i = s.objs.length := by omega
          simp only [savedOf]
          symm
          rw [List.map_eq_nil_iff, List.filter_eq_nil_iff]
          intro p hpm
          have := hidx p hpm
          simp only [beq_iff_eq]
          omega
        · rw [List.getElem?_eq_none (by simp; omega)] at h
          cases h
  | enter i =>
    simp only [SSpec.step] at hs
    obtain ⟨hnone, hsome⟩ := objs_get_of_pats hp i
    cases hpi : a.pats[i]? with
    | none =>
      simp only [hpi, Option.some.injEq, Prod.mk.injEq] at hs
      obtain ⟨rfl, rfl⟩ := hs
      simp only [FState.step, hnone hpi]
      exact ⟨⟨hc, hp, hidx, hsv⟩, by first | rfl | trivial⟩
    | some f =>
      obtain ⟨sv, hobj⟩ := hsome f hpi
      simp only [hpi] at hs
      by_cases hv : validPair f.top f.sub = true
      · simp only [hv, if_true, Option.some.injEq, Prod.mk.injEq] at hs
        obtain ⟨rfl, rfl⟩ := hs
        simp only [FState.step, hobj, hv, if_true]
        refine ⟨⟨rfl, ?_, ?_, ?_⟩, by first | rfl | trivial⟩
        · simp only; rw [map_fst_setNth _ _ _ _ _ hobj]; exact hp
        · intro p hpm
          simp only [List.mem_cons] at hpm
          rcases hpm with rfl | hpm
          · simp only
            have : i < a.pats.length := by
              rcases Nat.lt_or_ge i a.pats.length with h | h
              · exact h
              · rw [List.getElem?_eq_none h] at hpi; cases hpi
            exact this
          · exact hidx p hpm
        · intro j f' sv' h
          simp only [getElem?_setNth] at h
          by_cases hj : j = i
          · subst hj
            have hl : j < s.objs.length := by
              rcases Nat.lt_or_ge j s.objs.length with h' | h'
              · exact h'
              · rw [List.getElem?_eq_none h'] at hobj; cases hobj
            simp only [hl, and_self, if_true, Option.some.injEq, Prod.mk.injEq] at h
            obtain ⟨_, rfl⟩ := h
            rw [savedOf_cons_same, hc, hsv j f sv hobj]
          · simp only [hj, false_and, if_false] at h
            rw [savedOf_cons_other i j _ _ (fun e => hj e.symm)]
            exact hsv j f' sv' h
      · simp only [hv, if_false, Option.some.injEq, Prod.mk.injEq, Bool.false_eq_true] at hs
        obtain ⟨rfl, rfl⟩ := hs
        simp only [FState.step, hobj, hv, if_false, Bool.false_eq_true]
        exact ⟨⟨hc, hp, hidx, hsv⟩, by first | rfl | trivial⟩
  | leave i =>
    simp only [SSpec.step] at hs
    cases hst : a.stack with
    | nil => simp [hst] at hs
    | cons top rest =>
      obtain ⟨j, old⟩ := top
      simp only [hst] at hs
      by_cases hji : j = i
      · subst hji
        simp only [if_true, Option.some.injEq, Prod.mk.injEq] at hs
        obtain ⟨rfl, rfl⟩ := hs
        have hjlt : j < a.pats.length := hidx (j, old) (by rw [hst]; exact List.mem_cons_self)
        have hjl : j < s.objs.length := by omega
        obtain ⟨⟨f, sv⟩, hobj⟩ : ∃ x, s.objs[j]? = some x := ⟨s.objs[j], by simp [hjl]⟩
        have hsvj := hsv j f sv hobj
        rw [hst, savedOf_cons_same] at hsvj
        simp only [FState.step, hobj, hsvj]
        refine ⟨⟨rfl, ?_, ?_, ?_⟩, by first | rfl | trivial⟩
        · simp only; rw [map_fst_setNth _ _ _ _ _ hobj]; exact hp
        · intro p hpm
          exact hidx p (by rw [hst]; exact List.mem_cons_of_mem _ hpm)
        · intro k f' sv' h
          simp only [getElem?_setNth] at h
          by_cases hk : k = j
          · subst hk
            simp only [hjl, and_self, if_true, Option.some.injEq, Prod.mk.injEq] at h
            obtain ⟨_, rfl⟩ := h
            rfl
          · simp only [hk, false_and, if_false] at h
            have := hsv k f' sv' h
            rw [hst, savedOf_cons_other j k _ _ (fun e => hk e.symm)] at this
            exact this
      · simp [hji] at hs
  | set t u =>
    simp only [SSpec.step] at hs
    by_cases hv : validPair t u = true
    · simp only [hv, if_true, Option.some.injEq, Prod.mk.injEq] at hs
      obtain ⟨rfl, rfl⟩ := hs
      simp only [FState.step, hv, if_true]
      exact ⟨⟨rfl, hp, hidx, hsv⟩, by first | rfl | trivial⟩
    · simp only [hv, if_false, Option.some.injEq, Prod.mk.injEq, Bool.false_eq_true] at hs
      obtain ⟨rfl, rfl⟩ := hs
      simp only [FState.step, hv, if_false, Bool.false_eq_true]
      exact ⟨⟨hc, hp, hidx, hsv⟩, by first | rfl | trivial⟩
  | render =>
    simp only [SSpec.step, Option.some.injEq, Prod.mk.injEq] at hs
    obtain ⟨rfl, rfl⟩ := hs
    simp only [FState.step, hc]
    exact ⟨⟨hc, hp, hidx, hsv⟩, trivial⟩

/-- run a history on the stack model / on the code -/
def SSpec.run : SSpec → List FOp → Option (SSpec × List FOut)
  | a, [] => some (a, [])
  | a, op :: r => match a.step op with
    | none => none
    | some (a', o) => match SSpec.run a' r with
      | none => none
      | some (a'', os) => some (a'', o :: os)

def FState.run : FState → List FOp → FState × List FOut
  | s, [] => (s, [])
  | s, op :: r => let (s', o) := s.step op; let (s'', os) := FState.run s' r; (s'', o :: os)

/-- C14: on every well-nested history (to any depth, fresh or re-used context objects, normal or
    exceptional exit — both are the same `leave`), the code gives the answers of the stack model and
    ends with the stack model's format in force -/
theorem C14_refine (ops : List FOp) (s : FState) (a a' : SSpec) (outs : List FOut)
    (hR : Refines s a) (h : a.run ops = some (a', outs)) :
    (s.run ops).2 = outs ∧ Refines (s.run ops).1 a' := by
  induction ops generalizing s a outs with
  | nil =>
    simp only [SSpec.run, Option.some.injEq, Prod.mk.injEq] at h
    obtain ⟨rfl, rfl⟩ := h
    exact ⟨rfl, hR⟩
  | cons op r ih =>
    simp only [SSpec.run] at h
    cases hst : a.step op with
    | none => simp [hst] at h
    | some p =>
      obtain ⟨a1, o⟩ := p
      simp only [hst] at h
      cases hr : SSpec.run a1 r with
      | none => simp [hr] at h
      | some q =>
        obtain ⟨a2, os⟩ := q
        simp only [hr, Option.some.injEq, Prod.mk.injEq] at h
        obtain ⟨rfl, rfl⟩ := h
        obtain ⟨hR1, ho⟩ := C14_refine_step s a op a1 o hR hst
        obtain ⟨h1, h2⟩ := ih (s.step op).1 a1 os hR1 hr
        simp only [FState.run]
        exact ⟨by rw [h1, ho], h2⟩

theorem C14_from_init (ops : List FOp) (a' : SSpec) (outs : List FOut)
    (h : SSpec.init.run ops = some (a', outs)) :
    (FState.init.run ops).2 = outs ∧ (FState.init.run ops).1.cur = a'.cur := by
  obtain ⟨h1, h2⟩ := C14_refine ops FState.init SSpec.init a' outs init_refines h
  exact ⟨h1, h2.cur⟩

/-- in the stack model, leaving restores exactly the format that was in force at the matching enter -/
theorem C14_stack_restores (a : SSpec) (i : Nat) (f : Fmt) (hp : a.pats[i]? = some f)
    (hv : validPair f.top f.sub = true) :
    ∃ a1, a.step (.enter i) = some (a1, .ok) ∧ a1.cur = f ∧
      ∀ b : SSpec, b.stack = a1.stack → b.pats = a1.pats →
        ∃ b', b.step (.leave i) = some (b', .ok) ∧ b'.cur = a.cur ∧ b'.stack = a.stack := by
  refine ⟨{ a with cur := f, stack := (i, a.cur) :: a.stack }, by simp [SSpec.step, hp, hv], rfl, ?_⟩
  intro b hb _
  refine ⟨{ b with cur := a.cur, stack := a.stack }, ?_, rfl, rfl⟩
  simp [SSpec.step, hb]

/-- a pattern pair that is not valid is rejected and leaves the current format (and everything
    else) unchanged — directly and on entering a context -/
theorem C14_set_invalid (s : FState) (t u : String) (h : validPair t u = false) :
    s.step (.set t u) = (s, .rejected) := by simp [FState.step, h]

theorem C14_enter_invalid (s : FState) (i : Nat) (f : Fmt) (sv : List Fmt)
    (hi : s.objs[i]? = some (f, sv)) (h : validPair f.top f.sub = false) :
    s.step (.enter i) = (s, .rejected) := by simp [FState.step, hi, h]

/-- validity is: the pattern parses and its placeholders are exactly `mother` and `daughters` -/
theorem C14_valid_iff (p : String) :
    patternOK p = .ok () ↔ ∃ ps, parsePat p = .ok ps ∧
      ∀ n, n ∈ ps.filterMap (·.field) ↔ (n = "mother" ∨ n = "daughters") := by
  unfold patternOK
  cases hp : parsePat p with
  | error e => simp
  | ok ps =>
    simp only [Except.ok.injEq, exists_eq_left']
    constructor
    · intro h
      split at h
      · rename_i hc
        simp only [Bool.and_eq_true, List.contains_iff_mem, List.all_eq_true, Bool.or_eq_true, beq_iff_eq] at hc
        intro n
        constructor
        · intro hn; exact hc.2 n hn
        · rintro (rfl | rfl)
          · exact hc.1.1
          · exact hc.1.2
      · cases h
    · intro h
      have h1 : "mother" ∈ ps.filterMap (·.field) := (h _).mpr (Or.inl rfl)
      have h2 : "daughters" ∈ ps.filterMap (·.field) := (h _).mpr (Or.inr rfl)
      have h3 : ∀ n ∈ ps.filterMap (·.field), n = "mother" ∨ n = "daughters" := fun n hn => (h n).mp hn
      have hc : ((ps.filterMap (·.field)).contains "mother" && (ps.filterMap (·.field)).contains "daughters" &&
          (ps.filterMap (·.field)).all (fun n => n == "mother" || n == "daughters")) = true := by
        simp only [Bool.and_eq_true, List.contains_iff_mem, List.all_eq_true, Bool.or_eq_true, beq_iff_eq]
        exact ⟨⟨h1, h2⟩, h3⟩
      split
      · rfl
      · rename_i hn; exact absurd hc hn

/-- non-vacuity: create A, enter A, create B, enter B, enter A again (re-used), set, leave A, leave B, leave A -/
def exOps : List FOp :=
  [.create "{mother} => {daughters}" "[{mother} => {daughters}]", .enter 0,
   .create "{daughters} <- {mother}" "<{daughters} <- {mother}>", .enter 1, .enter 0,
   .set "{mother} > {daughters}" "({mother} > {daughters})", .leave 0, .leave 1, .leave 0]

example : (SSpec.init.run exOps).isSome = true := by decide

end DL
