/-
C17 — AmpGen option files are read into the amplitudes and tables they state.
`readAmpgen` follows `AmplitudeChain.read_ampgen` on the statement list (the reading of the text into
statements is tied to the real parser by the correspondence check).
-/
import DL.Lemmas.Cartesian
import DL.Lemmas.ExceptList
import Mathlib.Algebra.BigOperators.Group.List.Basic
import DL.Model.AmpGen
import DL.Gen.ClassState
namespace DL

/-- a successful read reports the event-type particles in order, one parameter row per parameter
    line and one constant row per constant line, in order -/
theorem C17_tables (pol : ResetPolicy) (lookup : String → Option String) (st : RState) (stmts : List AStmt)
    (out : ReadOut) (st' : RState) (h : readAmpgen pol lookup st stmts = .ok (out, st')) :
    out.parameters = stmts.filterMap stVariable ∧ out.constants = stmts.filterMap stConstant ∧
    ∃ ev, stmts.filterMap stEvent = [ev] ∧ out.eventType.length = ev.length := by
  unfold readAmpgen at h
  split at h
  · rename_i ev hev
    split at h
    · cases h
    · rename_i states hs
      simp only at h
      split at h
      · cases h
      · split at h
        · cases h
        · simp only [Except.ok.injEq, Prod.mk.injEq] at h
          obtain ⟨h1, _⟩ := h
          subst h1
          refine ⟨rfl, rfl, ev, by first | rfl | trivial, ?_⟩
          exact mapM_except_length _ ev states hs
  · cases h

/-- one row per parameter line: fixed flag = "the integer written is > 0", value and error as written -/
theorem C17_parameter_rows (s₁ s₂ : List AStmt) (n : String) (f : Int) (v e : String) :
    parsOf (s₁ ++ [.variable n f v e] ++ s₂) = parsOf s₁ ++ [(n, decide (f > 0), v, e)] ++ parsOf s₂ := by
  simp [parsOf, List.filterMap_append, stVariable]

theorem C17_constant_rows (s₁ s₂ : List AStmt) (n v : String) :
    constsOf (s₁ ++ [.constant n v] ++ s₂) = constsOf s₁ ++ [(n, v)] ++ constsOf s₂ := by
  simp [constsOf, List.filterMap_append, stConstant]

/-- the coherent-sum option selects the coupling interpretation: 0 = magnitude and phase, any other
    value = real and imaginary part; absent = the class default after the reset -/
theorem C17_option (st0 : RState) (s₁ s₂ : List AStmt) (n : Nat)
    (h1 : s₁.filterMap stFcs = []) (h2 : s₂.filterMap stFcs = []) :
    cartOf st0 (s₁ ++ [.fastCoherentSum n] ++ s₂) = (n != 0) := by
  simp [cartOf, List.filterMap_append, h1, h2, stFcs]

theorem C17_option_absent (pol : ResetPolicy) (st : RState) (stmts : List AStmt)
    (hp : pol.cartesian = true) (h : stmts.filterMap stFcs = []) :
    cartOf (startState pol st) stmts = false := by
  simp [cartOf, h, startState, hp]

/-- the coupling of a main line: the two numeric columns as written, with the interpretation in
    force; the amplitude is fixed unless both flags are set -/
theorem C17_coupling (lookup : String → Option String) (cart : Bool) (l : ALine) (c : AChain) (seen : List String)
    (h : chainOfLine lookup cart l = .ok (c, seen)) :
    ∃ n p s ls ds, c = .mk n p s ls (some (lineFix l.flag1 l.flag2, cart, l.val1, l.val2, l.err1, l.err2)) ds := by
  unfold chainOfLine at h
  split at h
  · cases h
  · simp only [Except.ok.injEq, Prod.mk.injEq] at h
    exact ⟨_, _, _, _, _, h.1.symm⟩

/-- expansion of a node that has daughters: every combination of the daughters' expansions, once
    each, first daughter varying slowest; the node itself (name, particle, tags, coupling) unchanged -/
theorem C17_expand_node (ll : List AChain) (f : Nat) (c : AChain) (hne : c.ds.isEmpty = false)
    (rs : List (List AChain × List String)) (hrs : c.ds.mapM (expandLines ll f) = .ok rs) :
    expandLines ll (f + 1) c = .ok ((cartesian (rs.map (·.1))).map c.withDs, (rs.map (·.2)).flatten) := by
  simp [expandLines, hne, hrs]

theorem C17_expand_combinations (ll : List AChain) (f : Nat) (c : AChain) (hne : c.ds.isEmpty = false)
    (rs : List (List AChain × List String)) (hrs : c.ds.mapM (expandLines ll f) = .ok rs)
    (out : List AChain) (fin : List String) (h : expandLines ll (f + 1) c = .ok (out, fin)) :
    (∀ x, x ∈ out ↔ ∃ ds, Pointwise (fun d opts => d ∈ opts) ds (rs.map (·.1)) ∧ x = c.withDs ds) ∧
    out.length = ((rs.map (·.1)).map List.length).prod := by
  rw [C17_expand_node ll f c hne rs hrs] at h
  simp only [Except.ok.injEq, Prod.mk.injEq] at h
  obtain ⟨h1, _⟩ := h
  subst h1
  constructor
  · intro x
    simp only [List.mem_map, mem_cartesian]
    constructor
    · rintro ⟨ds, hd, rfl⟩; exact ⟨ds, hd, rfl⟩
    · rintro ⟨ds, hd, rfl⟩; exact ⟨ds, hd, rfl⟩
  · simp only [List.length_map]
    generalize rs.map (·.1) = L
    induction L with
    | nil => simp [cartesian]
    | cons l ls ih =>
      simp only [cartesian, List.length_flatMap, List.length_map, ih, List.map_cons, List.prod_cons]
      induction l with
      | nil => simp
      | cons a r ihr => simp [ihr, Nat.add_mul, Nat.add_comm]

/-- a daughter written without its own decay and with no separately written line stays as it is and is
    a final particle -/
theorem C17_expand_leaf (ll : List AChain) (f : Nat) (c : AChain) (he : c.ds.isEmpty = true)
    (hn : ll.filter (fun ln => ln.name == c.name) = []) :
    expandLines ll (f + 1) c = .ok ([c], [c.particle]) := by
  simp [expandLines, he, hn, pure, Except.pure]

/-- ... and with separately written lines it is replaced by all their expansions, in file order -/
theorem C17_expand_replace (ll : List AChain) (f : Nat) (c : AChain) (he : c.ds.isEmpty = true)
    (rs : List (List AChain × List String))
    (hrs : (ll.filter (fun ln => ln.name == c.name)).mapM (expandLines ll f) = .ok rs)
    (hne : (rs.map (·.1)).flatten.isEmpty = false) :
    expandLines ll (f + 1) c = .ok ((rs.map (·.1)).flatten, (rs.map (·.2)).flatten) := by
  simp [expandLines, he, hrs, hne]

/-- the reset policy regenerated from the source: every class-level attribute is reset by a read -/
theorem C17_policy : Gen.resetPolicy = { allParticles := true, finalParticles := true, cartesian := true } := by decide

end DL
