/-
C17 — AmpGen option files are read into the amplitudes and tables they state.
`readAmpgen` follows `AmplitudeChain.read_ampgen` on the statement list (the reading of the text into
statements is tied to the real parser by the correspondence check).  The reading of the text: the reader
model `Amp.readAmpText` reads every rendering of a list of statements back to the statements
(`C17_read_simple`, `C17_read_layout`, `C17_layout_irrelevant`, `C17_readAmp_layout`; proofs in
DL/Lemmas/AmpRT.lean).
-/
import DL.Lemmas.Cartesian
import DL.Lemmas.ExceptList
import Mathlib.Algebra.BigOperators.Group.List.Basic
import DL.Model.AmpGen
import DL.Gen.ClassState
import DL.Lemmas.AmpRT
namespace DL

/-- a successful read reports the event-type particles in order, one parameter row per parameter
    line and one constant row per constant line, in order -/
theorem C17_tables (pol : ResetPolicy) (lookup : String → Option String) (st : RState) (stmts : List AStmt)
    (out : ReadOut) (st' : RState) (h : readAmpgen pol lookup st stmts = .ok (out, st')) :
    out.parameters = stmts.filterMap stVariable ∧ out.constants = stmts.filterMap stConstant ∧
    ∃ ev, stmts.filterMap stEvent = [ev] ∧ out.eventType.length = ev.length := by
  unfold readAmpgen at h
  split at h
  · rename_i ev hev
    split at h
    · cases h
    · rename_i states hs
      simp only at h
      split at h
      · cases h
      · split at h
        · cases h
        · simp only [Except.ok.injEq, Prod.mk.injEq] at h
          obtain ⟨h1, _⟩ := h
          subst h1
          refine ⟨rfl, rfl, ev, by first | rfl | trivial, ?_⟩
          exact mapM_except_length _ ev states hs
  · cases h

/-- one row per parameter line: fixed flag = "the integer written is > 0", value and error as written -/
theorem C17_parameter_rows (s₁ s₂ : List AStmt) (n : String) (f : Int) (v e : String) :
    parsOf (s₁ ++ [.variable n f v e] ++ s₂) = parsOf s₁ ++ [(n, decide (f > 0), v, e)] ++ parsOf s₂ := by
  simp [parsOf, List.filterMap_append, stVariable]

theorem C17_constant_rows (s₁ s₂ : List AStmt) (n v : String) :
    constsOf (s₁ ++ [.constant n v] ++ s₂) = constsOf s₁ ++ [(n, v)] ++ constsOf s₂ := by
  simp [constsOf, List.filterMap_append, stConstant]

/-- the coherent-sum option selects the coupling interpretation: 0 = magnitude and phase, any other
    value = real and imaginary part; absent = the class default after the reset -/
theorem C17_option (st0 : RState) (s₁ s₂ : List AStmt) (n : Nat)
    (h1 : s₁.filterMap stFcs = []) (h2 : s₂.filterMap stFcs = []) :
    cartOf st0 (s₁ ++ [.fastCoherentSum n] ++ s₂) = (n != 0) := by
  simp [cartOf, List.filterMap_append, h1, h2, stFcs]

theorem C17_option_absent (pol : ResetPolicy) (st : RState) (stmts : List AStmt)
    (hp : pol.cartesian = true) (h : stmts.filterMap stFcs = []) :
    cartOf (startState pol st) stmts = false := by
  simp [cartOf, h, startState, hp]

/-- the coupling of a main line: the two numeric columns as written, with the interpretation in
    force; the amplitude is fixed unless both flags are set -/
theorem C17_coupling (lookup : String → Option String) (cart : Bool) (l : ALine) (c : AChain) (seen : List String)
    (h : chainOfLine lookup cart l = .ok (c, seen)) :
    ∃ n p s ls ds, c = .mk n p s ls (some (lineFix l.flag1 l.flag2, cart, l.val1, l.val2, l.err1, l.err2)) ds := by
  unfold chainOfLine at h
  split at h
  · cases h
  · simp only [Except.ok.injEq, Prod.mk.injEq] at h
    exact ⟨_, _, _, _, _, h.1.symm⟩

/-- expansion of a node that has daughters: every combination of the daughters' expansions, once
    each, first daughter varying slowest; the node itself (name, particle, tags, coupling) unchanged -/
theorem C17_expand_node (ll : List AChain) (f : Nat) (c : AChain) (hne : c.ds.isEmpty = false)
    (rs : List (List AChain × List String)) (hrs : c.ds.mapM (expandLines ll f) = .ok rs) :
    expandLines ll (f + 1) c = .ok ((cartesian (rs.map (·.1))).map c.withDs, (rs.map (·.2)).flatten) := by
  simp [expandLines, hne, hrs]

theorem C17_expand_combinations (ll : List AChain) (f : Nat) (c : AChain) (hne : c.ds.isEmpty = false)
    (rs : List (List AChain × List String)) (hrs : c.ds.mapM (expandLines ll f) = .ok rs)
    (out : List AChain) (fin : List String) (h : expandLines ll (f + 1) c = .ok (out, fin)) :
    (∀ x, x ∈ out ↔ ∃ ds, Pointwise (fun d opts => d ∈ opts) ds (rs.map (·.1)) ∧ x = c.withDs ds) ∧
    out.length = ((rs.map (·.1)).map List.length).prod := by
  rw [C17_expand_node ll f c hne rs hrs] at h
  simp only [Except.ok.injEq, Prod.mk.injEq] at h
  obtain ⟨h1, _⟩ := h
  subst h1
  constructor
  · intro x
    simp only [List.mem_map, mem_cartesian]
    constructor
    · rintro ⟨ds, hd, rfl⟩; exact ⟨ds, hd, rfl⟩
    · rintro ⟨ds, hd, rfl⟩; exact ⟨ds, hd, rfl⟩
  · simp only [List.length_map]
    generalize rs.map (·.1) = L
    induction L with
    | nil => simp [cartesian]
    | cons l ls ih =>
      simp only [cartesian, List.length_flatMap, List.length_map, ih, List.map_cons, List.prod_cons]
      induction l with
      | nil => simp
      | cons a r ihr => simp [ihr, Nat.add_mul, Nat.add_comm]

/-- a daughter written without its own decay and with no separately written line stays as it is and is
    a final particle -/
theorem C17_expand_leaf (ll : List AChain) (f : Nat) (c : AChain) (he : c.ds.isEmpty = true)
    (hn : ll.filter (fun ln => ln.name == c.name) = []) :
    expandLines ll (f + 1) c = .ok ([c], [c.particle]) := by
  simp [expandLines, he, hn, pure, Except.pure]

/-- ... and with separately written lines it is replaced by all their expansions, in file order -/
theorem C17_expand_replace (ll : List AChain) (f : Nat) (c : AChain) (he : c.ds.isEmpty = true)
    (rs : List (List AChain × List String))
    (hrs : (ll.filter (fun ln => ln.name == c.name)).mapM (expandLines ll f) = .ok rs)
    (hne : (rs.map (·.1)).flatten.isEmpty = false) :
    expandLines ll (f + 1) c = .ok ((rs.map (·.1)).flatten, (rs.map (·.2)).flatten) := by
  simp [expandLines, he, hrs, hne]

/-- the reset policy regenerated from the source: every class-level attribute is reset by a read -/
theorem C17_policy : Gen.resetPolicy = { allParticles := true, finalParticles := true, cartesian := true } := by decide

/-! ### reading of the text -/

/-- the canonical text of a list of statements (one statement per line, single blanks between the
    tokens, trees as `name[spin;ls]{d1,d2}`) reads back to the statements -/
theorem C17_read_simple (d : List Amp.AStmtT) (hd : ∀ s ∈ d, Amp.RT.AStmtOK s) (hne : d ≠ []) :
    Amp.readAmpText (String.ofList (Amp.RT.renderAmpSimple d)) = .ok d :=
  Amp.RT.read_simple d hd hne

/-- every good layout (blank runs between and inside the tokens' groups, indentation, trailing blanks,
    comments, blank and comment lines, LF or CRLF, a last comment without a line end (on its own line
    or behind the last statement), any text for the ignored lines) reads back to the statements -/
theorem C17_read_layout (ℓ : Amp.RT.AmpLayout) (hℓ : Amp.RT.GoodAmpLayout ℓ) (d : List Amp.AStmtT)
    (hd : ∀ s ∈ d, Amp.RT.AStmtOK s) (hne : d ≠ []) :
    Amp.readAmpText (String.ofList (Amp.RT.renderAmp ℓ d)) = .ok d :=
  Amp.RT.read_layout ℓ hℓ d hd hne

/-- two good layouts of the same statements read alike -/
theorem C17_layout_irrelevant (ℓ₁ ℓ₂ : Amp.RT.AmpLayout) (h₁ : Amp.RT.GoodAmpLayout ℓ₁)
    (h₂ : Amp.RT.GoodAmpLayout ℓ₂) (d : List Amp.AStmtT) (hd : ∀ s ∈ d, Amp.RT.AStmtOK s) (hne : d ≠ []) :
    Amp.readAmpText (String.ofList (Amp.RT.renderAmp ℓ₁ d)) =
      Amp.readAmpText (String.ofList (Amp.RT.renderAmp ℓ₂ d)) :=
  Amp.RT.layout_irrelevant ℓ₁ ℓ₂ h₁ h₂ d hd hne

/-- the reader with integer fix flags converts the flags of the statements read -/
theorem C17_readAmp_layout_mapM (ℓ : Amp.RT.AmpLayout) (hℓ : Amp.RT.GoodAmpLayout ℓ) (d : List Amp.AStmtT)
    (hd : ∀ s ∈ d, Amp.RT.AStmtOK s) (hne : d ≠ []) :
    readAmp (String.ofList (Amp.RT.renderAmp ℓ d)) = d.mapM Amp.AStmtT.toStmt :=
  Amp.RT.readAmp_layout_mapM ℓ hℓ d hd hne

/-- ... and when the fix flags are integer texts it returns the statements with integer flags -/
theorem C17_readAmp_layout (ℓ : Amp.RT.AmpLayout) (hℓ : Amp.RT.GoodAmpLayout ℓ) (d : List Amp.AStmtT)
    (hd : ∀ s ∈ d, Amp.RT.AStmtOK s) (hne : d ≠ []) (hi : ∀ s ∈ d, Amp.RT.FlagsInt s) :
    readAmp (String.ofList (Amp.RT.renderAmp ℓ d)) = .ok (d.map Amp.RT.stmtOf) :=
  Amp.RT.readAmp_layout ℓ hℓ d hd hne hi

theorem C17_readAmp_simple (d : List Amp.AStmtT) (hd : ∀ s ∈ d, Amp.RT.AStmtOK s) (hne : d ≠ [])
    (hi : ∀ s ∈ d, Amp.RT.FlagsInt s) :
    readAmp (String.ofList (Amp.RT.renderAmpSimple d)) = .ok (d.map Amp.RT.stmtOf) :=
  Amp.RT.readAmp_simple d hd hne hi

/-! #### a worked example -/

def exLeaf (n : String) : ADecay := .mk n none none []

/-- an event type, a two-resonance line with `[D]` and `[S;GSpline.EFF]` tags, a cascade nested to
    depth 3, a parameter, a constant, the two ignored kinds of line, the three options -/
def exAmpDoc : List Amp.AStmtT := [
  .eventType ["D0", "K-", "pi+", "pi+", "pi-"],
  .line (.mk "D0" (some "D") none
      [.mk "K*(892)bar0" none none [exLeaf "K-", exLeaf "pi+"],
       .mk "rho(770)0" (some "S") (some "GSpline.EFF") [exLeaf "pi+", exLeaf "pi-"]])
    "2" "0.205" "0.001" "2" "-28.5" "0.5",
  .line (.mk "D0" none none
      [.mk "K(1)(1270)bar-" none (some "GounarisSakurai.Omega")
         [.mk "K*(892)bar0" none none [exLeaf "K-", exLeaf "pi+"], exLeaf "pi-"],
       exLeaf "pi+"])
    "0" "1" "0" "0" "0" "0",
  .variable "K(1)(1270)bar-_mass" "0" "1289.81" "1.75",
  .constant "D0_radius" "3.7559",
  .cartLine,
  .invertLine,
  .fastCoherentSum "1",
  .output "\"fit \\\"one\\\".root\"",
  .nEvents "10000"]

/-- a layout: a comment line and an empty line first, indentation, tabs and wide gaps, trailing
    blanks and comments, CRLF and LF line ends, blank and comment lines between the statements,
    blanks inside the decay tree, no blanks where the lexer needs none (after the tree, around `=`,
    before the quoted string), other texts for the two ignored lines, a last comment without line end -/
def exAmpLayout : Amp.RT.AmpLayout :=
  { pre := [⟨[' '], some " options".toList, true⟩, ⟨[], none, false⟩],
    lines := [
      { indent := [' ', ' '], gaps := [['\t'], [' ', ' ']], trail := [' '], comment := some " five bodies".toList,
        crlf := true, follow := [⟨[' '], none, true⟩, ⟨[], some [], false⟩] },
      { gaps := [[' '], [' ', ' '], ['\t']], opGaps := [[]],
        treeGaps := [(([], 0), [' ']), (([], 1), [' ']), (([], 4), [' ']), (([], 6), [' ']), (([], 7), [' ']),
          (([], 8), ['\t']), (([1], 2), [' ']), (([1], 3), [' ']), (([1], 5), [' ']), (([1], 9), [' ']),
          (([0], 6), [' '])] },
      { treeGaps := [(([0], 5), [' ', ' '])], crlf := true },
      {},
      { trail := ['\t'], comment := some "constant".toList },
      { ignored := { cartTree := .mk "D0" none none
                       [exLeaf "K-", .mk "X" (some "P") none [exLeaf "EventType", exLeaf "nEvents"]],
                     cartF := "+1", cartV := ".5", cartE := "1e-3" }, opGaps := [[]] },
      { ignored := { invA := "x::y", invB := "Output" }, opGaps := [[], []] },
      { gaps := [[' ', ' ']] },
      { opGaps := [[]] },
      { follow := [⟨[], none, false⟩] }],
    fin := .ownLine [' '] " end of the options".toList }

example : ∀ s ∈ exAmpDoc, Amp.RT.AStmtOK s := by decide
example : ∀ s ∈ exAmpDoc, Amp.RT.FlagsInt s := by decide
example : Amp.RT.GoodAmpLayout exAmpLayout := by decide
example : Amp.RT.GoodAmpLayout {} := by decide

def exAmpPlain : String :=
  "EventType D0 K- pi+ pi+ pi-\n" ++
  "D0[D]{K*(892)bar0{K-,pi+},rho(770)0[S;GSpline.EFF]{pi+,pi-}} 2 0.205 0.001 2 -28.5 0.5\n" ++
  "D0{K(1)(1270)bar-[GounarisSakurai.Omega]{K*(892)bar0{K-,pi+},pi-},pi+} 0 1 0 0 0 0\n" ++
  "K(1)(1270)bar-_mass 0 1289.81 1.75\n" ++
  "D0_radius 3.7559\n" ++
  "a{b,c} 0 1 0\n" ++
  "a = b\n" ++
  "FastCoherentSum::UseCartesian 1\n" ++
  "Output \"fit \\\"one\\\".root\"\n" ++
  "nEvents 10000\n"

def exAmpFancy : String :=
  " # options\r\n" ++
  "\n" ++
  "  EventType\tD0  K- pi+ pi+ pi- # five bodies\r\n" ++
  " \r\n" ++
  "#\n" ++
  "D0 [ D ]{ K*(892)bar0{ K-,pi+} ,\trho(770)0[S ; GSpline.EFF] {pi+,pi- }}2  0.205\t0.001 2 -28.5 0.5\n" ++
  "D0{K(1)(1270)bar-[GounarisSakurai.Omega]  {K*(892)bar0{K-,pi+},pi-},pi+} 0 1 0 0 0 0\r\n" ++
  "K(1)(1270)bar-_mass 0 1289.81 1.75\n" ++
  "D0_radius 3.7559\t#constant\n" ++
  "D0{K-,X[P]{EventType,nEvents}}+1 .5 1e-3\n" ++
  "x::y=Output\n" ++
  "FastCoherentSum::UseCartesian  1\n" ++
  "Output\"fit \\\"one\\\".root\"\n" ++
  "nEvents 10000\n" ++
  "\n" ++
  " # end of the options"

set_option maxRecDepth 20000 in
/-- the plain text is the canonical rendering of the statements, so the round trip theorem (not an
    evaluation of the reader) says what it reads to -/
theorem C17_exPlain : Amp.readAmpText exAmpPlain = .ok exAmpDoc := by
  have h : exAmpPlain = String.ofList (Amp.RT.renderAmpSimple exAmpDoc) := by decide
  rw [h]
  exact C17_read_simple exAmpDoc (by decide) (by simp [exAmpDoc])

set_option maxRecDepth 20000 in
/-- the fancy text is another layout of the same statements -/
theorem C17_exFancy : Amp.readAmpText exAmpFancy = .ok exAmpDoc := by
  have h : exAmpFancy = String.ofList (Amp.RT.renderAmp exAmpLayout exAmpDoc) := by decide
  rw [h]
  exact C17_read_layout exAmpLayout (by decide) exAmpDoc (by decide) (by simp [exAmpDoc])

theorem C17_exFancy_exPlain : Amp.readAmpText exAmpFancy = Amp.readAmpText exAmpPlain := by
  rw [C17_exFancy, C17_exPlain]

set_option maxRecDepth 20000 in
/-- the same text through the reader with integer flags -/
theorem C17_exFancy_int : readAmp exAmpFancy = .ok (exAmpDoc.map Amp.RT.stmtOf) := by
  have h : exAmpFancy = String.ofList (Amp.RT.renderAmp exAmpLayout exAmpDoc) := by decide
  rw [h]
  exact C17_readAmp_layout exAmpLayout (by decide) exAmpDoc (by decide) (by simp [exAmpDoc]) (by decide)

/-- a text that ends in a comment behind its last statement, without any line end -/
theorem C17_exSameLine :
    Amp.readAmpText "EventType D0 K+ K-\nnEvents 5 # no line end" = .ok [.eventType ["D0", "K+", "K-"], .nEvents "5"] := by
  have h : "EventType D0 K+ K-\nnEvents 5 # no line end" =
      String.ofList (Amp.RT.renderAmp { fin := .sameLine [' '] " no line end".toList }
        [.eventType ["D0", "K+", "K-"], .nEvents "5"]) := by decide
  rw [h]
  exact C17_read_layout _ (by decide) _ (by decide) (by simp)

/-- what the statement conditions refuse: a keyword as the name of a parameter, a later event-type
    name that starts like a number, a one-character lineshape, a top-level tree without daughters, a
    string with an unescaped quote, a signed option value -/
example : ¬ Amp.RT.AStmtOK (.constant "nEvents" "1") ∧ ¬ Amp.RT.AStmtOK (.eventType ["D0", "2pi"]) ∧
    Amp.RT.AStmtOK (.eventType ["2pi", "D0"]) ∧
    ¬ Amp.RT.AStmtOK (.line (.mk "D0" none (some "D") [exLeaf "a", exLeaf "b"]) "1" "1" "1" "1" "1" "1") ∧
    ¬ Amp.RT.AStmtOK (.line (exLeaf "D0") "1" "1" "1" "1" "1" "1") ∧
    ¬ Amp.RT.AStmtOK (.output "\"a\"b\"") ∧ ¬ Amp.RT.AStmtOK (.nEvents "+5") ∧
    ¬ Amp.RT.FlagsInt (.variable "x" "2.0" "1" "0") := by decide

/-! #### from the text to the tables: the reader composed with `read_ampgen` -/

/-- `read_ampgen` on a *text*: read the text, then read the statements -/
def readAmpgenText (pol : ResetPolicy) (lookup : String → Option String) (st : RState) (text : String) :
    Option (Except AmpErr (ReadOut × RState)) :=
  match readAmp text with
  | .ok stmts => some (readAmpgen pol lookup st stmts)
  | .error _ => none

/-- C17 from the text: for every statement list meeting `AStmtOK` with integer flags and every good
    layout, what the reader classes return for the *text* `renderAmp ℓ d` is what `readAmpgen` returns
    for the statements written — event type, parameter and constant tables, expanded amplitudes, and
    the class state — so all statement-level theorems of this file (`C17_tables`, `C17_option`,
    `C17_expand_*`, `C17_policy`, …) hold of the text -/
theorem C17_text (pol : ResetPolicy) (lookup : String → Option String) (st : RState)
    (ℓ : Amp.RT.AmpLayout) (hℓ : Amp.RT.GoodAmpLayout ℓ) (d : List Amp.AStmtT)
    (hd : ∀ s ∈ d, Amp.RT.AStmtOK s) (hne : d ≠ []) (hi : ∀ s ∈ d, Amp.RT.FlagsInt s) :
    readAmpgenText pol lookup st (String.ofList (Amp.RT.renderAmp ℓ d)) =
      some (readAmpgen pol lookup st (d.map Amp.RT.stmtOf)) := by
  unfold readAmpgenText
  rw [C17_readAmp_layout ℓ hℓ d hd hne hi]

/-- and it does not depend on the layout -/
theorem C17_text_layout (pol : ResetPolicy) (lookup : String → Option String) (st : RState)
    (ℓ₁ ℓ₂ : Amp.RT.AmpLayout) (h₁ : Amp.RT.GoodAmpLayout ℓ₁) (h₂ : Amp.RT.GoodAmpLayout ℓ₂) (d : List Amp.AStmtT)
    (hd : ∀ s ∈ d, Amp.RT.AStmtOK s) (hne : d ≠ []) (hi : ∀ s ∈ d, Amp.RT.FlagsInt s) :
    readAmpgenText pol lookup st (String.ofList (Amp.RT.renderAmp ℓ₁ d)) =
    readAmpgenText pol lookup st (String.ofList (Amp.RT.renderAmp ℓ₂ d)) := by
  rw [C17_text pol lookup st ℓ₁ h₁ d hd hne hi, C17_text pol lookup st ℓ₂ h₂ d hd hne hi]

end DL
