/-
C12 — flattening multiplies branching fractions and keeps exactly the leaves.
`flatten` is the loop of `DecayChain.flatten` (DL/Model/Flatten.lean); the specification is any
unfolding `(lv, tb)` of the chain: `lv k` = leaves below `k`, `tb k` = product of the branching
fractions of all decays below `k` (each counted as often as it occurs).
-/
import DL.Lemmas.Flatten
import DL.Lemmas.FlattenTerm
namespace DL

variable {α : Type} [CommMonoid α]

/-- Whenever the loop ends, the flattened chain has the product of all branching fractions of the
    tree and exactly its leaves (sorted), for every unfolding of the chain.  `keys` are the decaying
    particles not declared stable; particles outside `keys` (stable-designated ones included) are leaves. -/
theorem C12_flatten (decays : List (String × FMode α)) (mother : String) (stable : List String)
    (fuel : Nat) (keys : List String) (lv : String → List String) (tb : String → α)
    (hk : flattenKeys (dkeys decays) stable mother = some keys)
    (hU : IsUnfold decays keys lv tb) (bf : α) (fs : List String)
    (hr : flatten decays mother stable fuel = .ok (bf, fs)) :
    bf = tb mother ∧ fs = ssort (lv mother) := by
  unfold flatten at hr
  rw [hk] at hr
  have hmem : mother ∈ keys := by
    dsimp only [flattenKeys] at hk
    split at hk
    · simp only [Option.some.injEq] at hk; subst hk; exact List.mem_cons_self
    · simp at hk
  obtain ⟨md, hget, hlv, htb⟩ := hU.dec mother hmem
  simp only [hget] at hr
  cases hloop : floop decays keys fuel (md.bf, md.ds) with
  | none => simp [hloop] at hr
  | some res =>
    obtain ⟨rb, rfs⟩ := res
    simp only [hloop, Except.ok.injEq, Prod.mk.injEq] at hr
    obtain ⟨hb, hf⟩ := hr
    have hinit : FInv lv tb (md.ds.flatMap lv) (md.bf * (md.ds.map tb).prod) (md.bf, md.ds) :=
      ⟨List.Perm.refl _, rfl⟩
    obtain ⟨hinv, hz⟩ := floop_inv hU fuel hinit hloop
    obtain ⟨hp, hbf⟩ := finv_done hU.leaf hinv hz
    constructor
    · rw [← hb]; simp only at hbf; rw [hbf, htb]
    · rw [← hf]; exact ssort_eq_of_perm (hp.trans hlv.symm)

/-- The result does not depend on the order in which the sub-decays were supplied: two orderings of
    the same mapping (same look-ups, key lists that are permutations of each other) flatten alike. -/
theorem C12_order (d₁ d₂ : List (String × FMode α)) (mother : String) (stable : List String)
    (f₁ f₂ : Nat) (k₁ k₂ : List String) (lv : String → List String) (tb : String → α)
    (hk₁ : flattenKeys (dkeys d₁) stable mother = some k₁)
    (hk₂ : flattenKeys (dkeys d₂) stable mother = some k₂)
    (hsame : ∀ k, dget d₁ k = dget d₂ k) (hperm : ∀ k, k ∈ k₁ ↔ k ∈ k₂)
    (hU : IsUnfold d₁ k₁ lv tb) (r₁ r₂ : α × List String)
    (h₁ : flatten d₁ mother stable f₁ = .ok r₁) (h₂ : flatten d₂ mother stable f₂ = .ok r₂) :
    r₁ = r₂ := by
  have hU₂ : IsUnfold d₂ k₂ lv tb :=
    ⟨fun k hk => by rw [← hsame k]; exact hU.dec k ((hperm k).mpr hk),
     fun n hn => hU.leaf n (fun h => hn ((hperm n).mp h))⟩
  obtain ⟨b₁, s₁⟩ := r₁
  obtain ⟨b₂, s₂⟩ := r₂
  obtain ⟨e₁, e₂⟩ := C12_flatten d₁ mother stable f₁ k₁ lv tb hk₁ hU b₁ s₁ h₁
  obtain ⟨e₃, e₄⟩ := C12_flatten d₂ mother stable f₂ k₂ lv tb hk₂ hU₂ b₂ s₂ h₂
  rw [e₁, e₂, e₃, e₄]

/-- Flattening with the mother declared stable is refused (the code raises) -/
theorem C12_mother_not_stable (decays : List (String × FMode α)) (mother : String) (stable : List String)
    (fuel : Nat) (top : FMode α) (ht : dget decays mother = some top) (hs : mother ∈ stable) :
    flatten decays mother stable fuel = .error .motherStable := by
  have hk : flattenKeys (dkeys decays) stable mother = none := by
    simp only [flattenKeys, List.contains_eq_mem, List.mem_filter, ite_eq_right_iff, reduceCtorEq, imp_false]
    intro h
    simp [hs] at h
  simp [flatten, ht, hk]

/-- C12 (termination): for an acyclic chain - a rank on names that drops along decaying daughters -
    the loop ends, and any fuel beyond (rank bound + 1) gives the same flattened chain.  Together with
    `C12_flatten` this is total correctness: the result exists and is the tree's product and leaves. -/
theorem C12_terminates (decays : List (String × FMode α)) (mother : String) (stable : List String)
    (keys : List String) (rank : String → Nat) (B : Nat) (top : FMode α)
    (ht : dget decays mother = some top)
    (hk : flattenKeys (dkeys decays) stable mother = some keys)
    (hac : Acyclic decays keys rank) (he : HasEntries decays keys) (hB : ∀ k ∈ keys, rank k < B) :
    ∃ r, ∀ f, B + 1 ≤ f → flatten decays mother stable f = .ok r := by
  have hb : Bound keys rank B (top.bf, top.ds).2 := fun x _ hxk => hB x hxk
  obtain ⟨res, hres⟩ := floop_terminates hac he B (top.bf, top.ds) hb
  refine ⟨(res.1, ssort res.2), ?_⟩
  intro f hf
  have := floop_mono_le (B + 1) f (top.bf, top.ds) res hres hf
  simp [flatten, ht, hk, this]

/-- the keys of `flatten` always have entries: they are keys of the dictionary -/
theorem hasEntries_of_keys (decays : List (String × FMode α)) (stable : List String) (mother : String)
    (keys : List String) (hk : flattenKeys (dkeys decays) stable mother = some keys) : HasEntries decays keys := by
  have hsub : ∀ k ∈ keys, k ∈ dkeys decays := by
    dsimp only [flattenKeys] at hk
    split at hk
    · rename_i hc
      simp only [Option.some.injEq] at hk
      subst hk
      intro k hkm
      rcases List.mem_cons.mp hkm with rfl | hkm
      · have := List.contains_iff_mem.mp hc
        exact (List.mem_filter.mp this).1
      · exact (List.mem_filter.mp (List.mem_of_mem_erase hkm)).1
    · cases hk
  intro k hkm
  have := hsub k hkm
  clear hk hsub hkm
  induction decays with
  | nil => simp [dkeys] at this
  | cons p r ih =>
    obtain ⟨k', v⟩ := p
    by_cases h : k' = k
    · exact ⟨v, by simp [dget, h]⟩
    · simp only [dkeys, List.map_cons, List.mem_cons] at this
      rcases this with e | hm
      · exact absurd e.symm h
      · obtain ⟨md, hmd⟩ := ih (by simpa [dkeys] using hm)
        exact ⟨md, by simp [dget, h, hmd]⟩

/-! ### non-vacuity: D0 -> K_S0 pi0 pi0, K_S0 -> pi+ pi-, pi0 -> gamma gamma over ℕ -/

def exDecays : List (String × FMode Nat) :=
  [("pi0", ⟨3, ["gamma", "gamma"]⟩), ("D0", ⟨2, ["K_S0", "pi0", "pi0"]⟩), ("K_S0", ⟨5, ["pi+", "pi-"]⟩)]

def exLv : String → List String := fun n =>
  if n = "D0" then ["pi+", "pi-", "gamma", "gamma", "gamma", "gamma"]
  else if n = "K_S0" then ["pi+", "pi-"] else if n = "pi0" then ["gamma", "gamma"] else [n]

def exTb : String → Nat := fun n =>
  if n = "D0" then 2 * 5 * 3 * 3 else if n = "K_S0" then 5 else if n = "pi0" then 3 else 1

example : flattenKeys (dkeys exDecays) [] "D0" = some ["D0", "pi0", "K_S0"] := by decide

example : IsUnfold exDecays ["D0", "pi0", "K_S0"] exLv exTb := by
  constructor
  · intro k hk
    simp only [List.mem_cons, List.not_mem_nil, or_false] at hk
    rcases hk with rfl | rfl | rfl
    · exact ⟨_, rfl, by decide, by decide⟩
    · exact ⟨_, rfl, by decide, by decide⟩
    · exact ⟨_, rfl, by decide, by decide⟩
  · intro n hn
    simp only [List.mem_cons, List.not_mem_nil, or_false, not_or] at hn
    simp [exLv, exTb, hn.1, hn.2.1, hn.2.2]

example : floop exDecays ["D0", "pi0", "K_S0"] 10 (2, ["K_S0", "pi0", "pi0"])
    = some (90, ["gamma", "gamma", "gamma", "gamma", "pi+", "pi-"]) := by
  decide

end DL
