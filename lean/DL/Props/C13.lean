/-
C13 — a decay descriptor string determines the decay tree it was made from.
`chainToString` is `DecayChain.to_string` on the dictionary form; the specification `renderSpec` is
the direct recursion: the root with the first pattern, every nested node with the second, the
children rendered first and then sorted.
-/
import DL.Lemmas.Sort
import DL.Lemmas.ReadBack
import DL.Model.Descriptor
namespace DL

variable {β : Type}

mutual
  /-- single chain: every decaying particle has exactly one decay mode, at every depth -/
  def Single : Chain β → Bool
    | .mk _ modes => match modes with
      | [(_, fs)] => SingleFs fs
      | _ => false
  def SingleFs : List (Item β) → Bool
    | [] => true
    | .inl _ :: r => SingleFs r
    | .inr c :: r => Single c && SingleFs r
end

mutual
  /-- the descriptor, by direct recursion over the tree -/
  def renderSpec (fmt : Fmt) (top : Bool) : Chain β → String
    | .mk m modes => match modes with
      | [(_, fs)] => fmt.render m (" ".intercalate (ssort (renderItems fmt fs))) top
      | _ => ""
  def renderItems (fmt : Fmt) : List (Item β) → List String
    | [] => []
    | .inl s :: r => s :: renderItems fmt r
    | .inr c :: r => renderSpec fmt false c :: renderItems fmt r
end

mutual
  theorem expand_single (fmt : Fmt) (top : Bool) :
      ∀ c : Chain β, Single c = true → expand fmt [] top c = [renderSpec fmt top c]
    | .mk m modes, h => by
      match modes, h with
      | [(b, fs)], h =>
        simp only [Single] at h
        simp only [expand, expandModes, renderSpec, aliasOf, dget, Option.getD_none, List.append_nil]
        rw [expandFs_single fmt fs h]
        rfl
  theorem expandFs_single (fmt : Fmt) :
      ∀ fs : List (Item β), SingleFs fs = true → expandFs fmt [] fs = [renderItems fmt fs]
    | [], _ => by simp [expandFs, renderItems]
    | .inl s :: r, h => by
      simp only [SingleFs] at h
      simp [expandFs, renderItems, expandFs_single fmt r h]
    | .inr c :: r, h => by
      simp only [SingleFs, Bool.and_eq_true] at h
      simp [expandFs, renderItems, expandFs_single fmt r h.2, expand_single fmt false c h.1]
end

/-- C13 (rendering): the one-line descriptor of a single chain is the direct recursive rendering:
    first pattern at the top level, second pattern at every nested level -/
theorem C13_render (fmt : Fmt) (c : Chain β) (h : Single c = true) :
    chainToString fmt c = some (renderSpec fmt true c) := by
  simp [chainToString, expand_single fmt true c h]

/-- C13 (canonical form): the descriptor is the same string whatever order the daughters of a
    node were given in -/
theorem C13_canonical (fmt : Fmt) (top : Bool) (m : String) (b b' : β) (fs fs' : List (Item β))
    (h : (renderItems fmt fs).Perm (renderItems fmt fs')) :
    renderSpec fmt top (.mk m [(b, fs)]) = renderSpec fmt top (.mk m [(b', fs')]) := by
  simp only [renderSpec]
  rw [ssort_eq_of_perm h]

/-- permuting the daughter list permutes the rendered items -/
theorem renderItems_perm (fmt : Fmt) {fs fs' : List (Item β)} (h : fs.Perm fs') :
    (renderItems fmt fs).Perm (renderItems fmt fs') := by
  have key : ∀ l : List (Item β), renderItems fmt l =
      l.map (fun it => match it with | .inl s => s | .inr c => renderSpec fmt false c) := by
    intro l
    induction l with
    | nil => simp [renderItems]
    | cons it r ih => cases it <;> simp [renderItems, ih]
  rw [key, key]
  exact h.map _

theorem C13_canonical_perm (fmt : Fmt) (top : Bool) (m : String) (b b' : β) (fs fs' : List (Item β))
    (h : fs.Perm fs') :
    renderSpec fmt top (.mk m [(b, fs)]) = renderSpec fmt top (.mk m [(b', fs')]) :=
  C13_canonical fmt top m b b' fs fs' (renderItems_perm fmt h)

/-- non-vacuity -/
def exSingle : Chain Unit :=
  .mk "D*+" [((), [.inr (.mk "D0" [((), [.inr (.mk "K_S0" [((), [.inl "pi+", .inl "pi-"])]), .inl "pi0"])]), .inl "pi+"])]
example : Single exSingle = true := by decide

/-! ### reading the descriptor back -/

/-- a particle name the bracket reader can take: not empty, no blank, parentheses balanced and
    never closing below depth 0 -/
def goodName (n : String) : Bool :=
  !n.toList.isEmpty && n.toList.all (· != ' ') && tokOK 0 n.toList && endDepth 0 n.toList == 0

example : goodName "K_1(1270)+" = true ∧ goodName "Upsilon(4S)" = true ∧ goodName "f'_0" = true ∧
    goodName "anti-K*0" = true ∧ goodName "->" = true ∧ goodName "(c-cbar)" = true ∧
    goodName "" = false ∧ goodName "a b" = false ∧ goodName "a)(" = false ∧ goodName "K(" = false := by
  decide

mutual
  /-- every name of the (single) chain is a good name -/
  def Good : Chain β → Bool
    | .mk m modes => match modes with
      | [(_, fs)] => goodName m && GoodFs fs
      | _ => goodName m
  def GoodFs : List (Item β) → Bool
    | [] => true
    | .inl s :: r => goodName s && GoodFs r
    | .inr c :: r => Good c && GoodFs r
end

mutual
  /-- the tree a single chain stands for -/
  def shapeOf : Chain β → Shape
    | .mk m modes => match modes with
      | [(_, fs)] => .node m (shapeItems fs)
      | _ => .leaf m
  def shapeItems : List (Item β) → List Shape
    | [] => []
    | .inl s :: r => .leaf s :: shapeItems r
    | .inr c :: r => shapeOf c :: shapeItems r
end

theorem goodName_tok {n : String} (h : goodName n = true) : Tok n.toList := by
  simp only [goodName, Bool.and_eq_true, Bool.not_eq_true', List.isEmpty_eq_false_iff, beq_iff_eq] at h
  exact ⟨h.1.1.1, h.1.2, h.2⟩

theorem goodName_noBlank {n : String} (h : goodName n = true) : ∀ c ∈ n.toList, c ≠ ' ' := by
  simp only [goodName, Bool.and_eq_true, List.all_eq_true, bne_iff_ne] at h
  exact h.1.1.2

theorem toList_intercalate_sp (l : List String) :
    (" ".intercalate l).toList = joinSp (l.map String.toList) := by
  rw [String.toList_intercalate, ← joinSp_eq_intercalate]
  rfl

/-- the characters of the descriptor of a decaying particle, first pattern -/
theorem renderSpec_top_toList (m : String) (b : β) (fs : List (Item β)) :
    (renderSpec Fmt.default true (.mk m [(b, fs)])).toList =
      bodyL m.toList ((ssort (renderItems Fmt.default fs)).map String.toList) := by
  have e : " -> ".toList = [' ', '-', '>', ' '] := by decide
  simp only [renderSpec, render_top, String.toList_append, toList_intercalate_sp, e, bodyL,
    List.append_assoc, List.cons_append, List.nil_append]

/-- …and second pattern: the same between parentheses -/
theorem renderSpec_sub_toList (m : String) (b : β) (fs : List (Item β)) :
    (renderSpec Fmt.default false (.mk m [(b, fs)])).toList =
      '(' :: ((renderSpec Fmt.default true (.mk m [(b, fs)])).toList ++ [')']) := by
  have e : " -> ".toList = [' ', '-', '>', ' '] := by decide
  have e1 : "(".toList = ['('] := by decide
  have e2 : ")".toList = [')'] := by decide
  simp only [renderSpec, render_top, render_sub, String.toList_append, e, e1, e2,
    List.append_assoc, List.cons_append, List.nil_append]

mutual
  /-- every nested descriptor is one token: balanced, blanks only inside its parentheses -/
  theorem tok_renderSub : ∀ c : Chain β, Single c = true → Good c = true →
      Tok (renderSpec Fmt.default false c).toList
    | .mk m modes, hs, hg => by
      match modes, hs, hg with
      | [(b, fs)], hs, hg =>
        simp only [Single] at hs
        simp only [Good, Bool.and_eq_true] at hg
        rw [renderSpec_sub_toList, renderSpec_top_toList]
        refine tok_wrap _ _ (goodName_tok hg.1) ?_
        intro t ht
        obtain ⟨x, hx, rfl⟩ := List.mem_map.1 ht
        exact tok_renderItems fs hs hg.2 x ((ssort_perm _).mem_iff.1 hx)
  theorem tok_renderItems : ∀ fs : List (Item β), SingleFs fs = true → GoodFs fs = true →
      ∀ t ∈ renderItems Fmt.default fs, Tok t.toList
    | [], _, _ => by simp [renderItems]
    | .inl s :: r, hs, hg => by
      simp only [SingleFs] at hs
      simp only [GoodFs, Bool.and_eq_true] at hg
      intro t ht
      simp only [renderItems, List.mem_cons] at ht
      rcases ht with rfl | ht
      · exact goodName_tok hg.1
      · exact tok_renderItems r hs hg.2 t ht
    | .inr c :: r, hs, hg => by
      simp only [SingleFs, Bool.and_eq_true] at hs
      simp only [GoodFs, Bool.and_eq_true] at hg
      intro t ht
      simp only [renderItems, List.mem_cons] at ht
      rcases ht with rfl | ht
      · exact tok_renderSub c hs.1 hg.1
      · exact tok_renderItems r hs.2 hg.2 t ht
end

mutual
  theorem read_chain : ∀ c : Chain β, Single c = true → Good c = true →
      ∀ f : Nat, (renderSpec Fmt.default true c).toList.length < f →
      ∃ s, readBody f (renderSpec Fmt.default true c).toList = some s ∧ s ≈ₛ shapeOf c
    | .mk m modes, hs, hg, f, hf => by
      match modes, hs, hg, hf with
      | [(b, fs)], hs, hg, hf =>
        simp only [Single] at hs
        simp only [Good, Bool.and_eq_true] at hg
        have htoks : ∀ t ∈ (ssort (renderItems Fmt.default fs)).map String.toList, Tok t := by
          intro t ht
          obtain ⟨x, hx, rfl⟩ := List.mem_map.1 ht
          exact tok_renderItems fs hs hg.2 x ((ssort_perm _).mem_iff.1 hx)
        rw [renderSpec_top_toList] at hf ⊢
        cases f with
        | zero => omega
        | succ f =>
          rw [readBody_succ, splitTop_body _ _ (goodName_tok hg.1) htoks]
          refine ⟨_, by simp only [if_true]; rfl, ?_⟩
          simp only [String.ofList_toList, List.map_map, shapeOf]
          refine Shape.Equiv.trans (Shape.Equiv.perm m ((ssort_perm _).map _)) ?_
          refine read_items fs hs hg.2 f ?_ m
          intro t ht
          have h1 : t.toList ∈ (ssort (renderItems Fmt.default fs)).map String.toList :=
            List.mem_map.2 ⟨t, (ssort_perm _).mem_iff.2 ht, rfl⟩
          have h2 := length_le_joinSp _ _ h1
          simp only [bodyL, List.length_append, List.length_cons] at hf
          omega
  theorem read_items : ∀ fs : List (Item β), SingleFs fs = true → GoodFs fs = true →
      ∀ f : Nat, (∀ t ∈ renderItems Fmt.default fs, t.toList.length ≤ f) → ∀ m : String,
      Shape.node m ((renderItems Fmt.default fs).map (readItem f ∘ String.toList)) ≈ₛ
        Shape.node m (shapeItems fs)
    | [], _, _, _, _, m => by simp only [renderItems, shapeItems, List.map_nil]; exact .refl _
    | .inl s :: r, hs, hg, f, hf, m => by
      simp only [SingleFs] at hs
      simp only [GoodFs, Bool.and_eq_true] at hg
      simp only [renderItems, shapeItems, List.map_cons, Function.comp]
      rw [readItem_noBlank f _ (goodName_noBlank hg.1), String.ofList_toList]
      refine .cons m (.refl _) ?_
      exact read_items r hs hg.2 f (fun t ht => hf t (by simp [renderItems, ht])) m
    | .inr c :: r, hs, hg, f, hf, m => by
      simp only [SingleFs, Bool.and_eq_true] at hs
      simp only [GoodFs, Bool.and_eq_true] at hg
      simp only [renderItems, shapeItems, List.map_cons, Function.comp]
      have hlen := hf (renderSpec Fmt.default false c) (by simp [renderItems])
      have hrest := read_items r hs.2 hg.2 f (fun t ht => hf t (by simp [renderItems, ht])) m
      match c, hs, hg, hlen with
      | .mk mc [(b, fs')], hs, hg, hlen =>
        rw [renderSpec_sub_toList] at hlen ⊢
        obtain ⟨s, hs1, hs2⟩ := read_chain (.mk mc [(b, fs')]) hs.1 hg.1 f (by
          simp only [List.length_cons, List.length_append, List.length_nil] at hlen; omega)
        have : readItem f ('(' :: ((renderSpec Fmt.default true (Chain.mk mc [(b, fs')])).toList ++ [')'])) = s := by
          simp [readItem, unparen_wrap, hs1]
        rw [this]
        exact .cons m hs2 hrest
      | .mk mc [], hs, _, _ => simp [Single] at hs
      | .mk mc (_ :: _ :: _), hs, _, _ => simp [Single] at hs
end

/-- non-vacuity: the chain of the example has good names, and its descriptor reads back -/
example : Good exSingle = true := by decide
example : readDescriptor "D*+ -> (D0 -> (K_S0 -> pi+ pi-) pi0) pi+".toList =
    some (.node "D*+" [.node "D0" [.node "K_S0" [.leaf "pi+", .leaf "pi-"], .leaf "pi0"], .leaf "pi+"]) := by
  rfl

/-- C13 (read-back): the descriptor of a single chain with good names, read back by matching its
    brackets, is the tree of the chain, up to the order of the daughters at every level -/
theorem C13_readback (c : Chain β) (hs : Single c = true) (hg : Good c = true) :
    ∃ s, readDescriptor (renderSpec Fmt.default true c).toList = some s ∧ s ≈ₛ shapeOf c :=
  read_chain c hs hg _ (Nat.lt_succ_self _)

/-- the same for the string `DecayChain.to_string` returns -/
theorem C13_readback_toString (c : Chain β) (hs : Single c = true) (hg : Good c = true) :
    ∃ d s, chainToString Fmt.default c = some d ∧ readDescriptor d.toList = some s ∧ s ≈ₛ shapeOf c := by
  obtain ⟨s, h1, h2⟩ := C13_readback c hs hg
  exact ⟨_, s, C13_render Fmt.default c hs, h1, h2⟩

/-- C13 (injectivity): two single chains with good names and the same descriptor are the same
    tree up to the order of the daughters -/
theorem C13_injective (c₁ c₂ : Chain β) (hs₁ : Single c₁ = true) (hg₁ : Good c₁ = true)
    (hs₂ : Single c₂ = true) (hg₂ : Good c₂ = true)
    (h : chainToString Fmt.default c₁ = chainToString Fmt.default c₂) : shapeOf c₁ ≈ₛ shapeOf c₂ := by
  rw [C13_render _ c₁ hs₁, C13_render _ c₂ hs₂] at h
  have h := Option.some.inj h
  obtain ⟨s₁, r₁, e₁⟩ := C13_readback c₁ hs₁ hg₁
  obtain ⟨s₂, r₂, e₂⟩ := C13_readback c₂ hs₂ hg₂
  rw [h, r₂] at r₁
  cases r₁
  exact e₁.symm.trans e₂

/-- in particular: the same mother, and the same decaying and final-state names with multiplicity -/
theorem C13_injective_labels (c₁ c₂ : Chain β) (hs₁ : Single c₁ = true) (hg₁ : Good c₁ = true)
    (hs₂ : Single c₂ = true) (hg₂ : Good c₂ = true)
    (h : chainToString Fmt.default c₁ = chainToString Fmt.default c₂) :
    (shapeOf c₁).root = (shapeOf c₂).root ∧ (shapeOf c₁).labels.Perm (shapeOf c₂).labels :=
  let r := (C13_injective c₁ c₂ hs₁ hg₁ hs₂ hg₂ h).sound
  ⟨r.1, r.2.2⟩

end DL
