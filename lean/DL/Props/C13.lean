/-
C13 — a decay descriptor string determines the decay tree it was made from.
`chainToString` is `DecayChain.to_string` on the dictionary form; the specification `renderSpec` is
the direct recursion: the root with the first pattern, every nested node with the second, the
children rendered first and then sorted.
-/
import DL.Lemmas.Sort
import DL.Model.Descriptor
namespace DL

variable {β : Type}

mutual
  /-- single chain: every decaying particle has exactly one decay mode, at every depth -/
  def Single : Chain β → Bool
    | .mk _ modes => match modes with
      | [(_, fs)] => SingleFs fs
      | _ => false
  def SingleFs : List (Item β) → Bool
    | [] => true
    | .inl _ :: r => SingleFs r
    | .inr c :: r => Single c && SingleFs r
end

mutual
  /-- the descriptor, by direct recursion over the tree -/
  def renderSpec (fmt : Fmt) (top : Bool) : Chain β → String
    | .mk m modes => match modes with
      | [(_, fs)] => fmt.render m (" ".intercalate (ssort (renderItems fmt fs))) top
      | _ => ""
  def renderItems (fmt : Fmt) : List (Item β) → List String
    | [] => []
    | .inl s :: r => s :: renderItems fmt r
    | .inr c :: r => renderSpec fmt false c :: renderItems fmt r
end

mutual
  theorem expand_single (fmt : Fmt) (top : Bool) :
      ∀ c : Chain β, Single c = true → expand fmt [] top c = [renderSpec fmt top c]
    | .mk m modes, h => by
      match modes, h with
      | [(b, fs)], h =>
        simp only [Single] at h
        simp only [expand, expandModes, renderSpec, aliasOf, dget, Option.getD_none, List.append_nil]
        rw [expandFs_single fmt fs h]
        rfl
  theorem expandFs_single (fmt : Fmt) :
      ∀ fs : List (Item β), SingleFs fs = true → expandFs fmt [] fs = [renderItems fmt fs]
    | [], _ => by simp [expandFs, renderItems]
    | .inl s :: r, h => by
      simp only [SingleFs] at h
      simp [expandFs, renderItems, expandFs_single fmt r h]
    | .inr c :: r, h => by
      simp only [SingleFs, Bool.and_eq_true] at h
      simp [expandFs, renderItems, expandFs_single fmt r h.2, expand_single fmt false c h.1]
end

/-- C13 (rendering): the one-line descriptor of a single chain is the direct recursive rendering:
    first pattern at the top level, second pattern at every nested level -/
theorem C13_render (fmt : Fmt) (c : Chain β) (h : Single c = true) :
    chainToString fmt c = some (renderSpec fmt true c) := by
  simp [chainToString, expand_single fmt true c h]

/-- C13 (canonical form): the descriptor is the same string whatever order the daughters of a
    node were given in -/
theorem C13_canonical (fmt : Fmt) (top : Bool) (m : String) (b b' : β) (fs fs' : List (Item β))
    (h : (renderItems fmt fs).Perm (renderItems fmt fs')) :
    renderSpec fmt top (.mk m [(b, fs)]) = renderSpec fmt top (.mk m [(b', fs')]) := by
  simp only [renderSpec]
  rw [ssort_eq_of_perm h]

/-- permuting the daughter list permutes the rendered items -/
theorem renderItems_perm (fmt : Fmt) {fs fs' : List (Item β)} (h : fs.Perm fs') :
    (renderItems fmt fs).Perm (renderItems fmt fs') := by
  have key : ∀ l : List (Item β), renderItems fmt l =
      l.map (fun it => match it with | .inl s => s | .inr c => renderSpec fmt false c) := by
    intro l
    induction l with
    | nil => simp [renderItems]
    | cons it r ih => cases it <;> simp [renderItems, ih]
  rw [key, key]
  exact h.map _

theorem C13_canonical_perm (fmt : Fmt) (top : Bool) (m : String) (b b' : β) (fs fs' : List (Item β))
    (h : fs.Perm fs') :
    renderSpec fmt top (.mk m [(b, fs)]) = renderSpec fmt top (.mk m [(b', fs')]) :=
  C13_canonical fmt top m b b' fs fs' (renderItems_perm fmt h)

/-- non-vacuity -/
def exSingle : Chain Unit :=
  .mk "D*+" [((), [.inr (.mk "D0" [((), [.inr (.mk "K_S0" [((), [.inl "pi+", .inl "pi-"])]), .inl "pi0"])]), .inl "pi+"])]
example : Single exSingle = true := by decide

end DL
